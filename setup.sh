#!/bin/sh
# Build everything the registered checks need, offline, from files on disk only.
# Only the properties listed in accepted.txt (= claimed in MANIFEST.json) are built.
set -e
cd "$(dirname "$0")"
targets="OMV.AuditTool"
for id in $(cat accepted.txt); do
  low=$(echo "$id" | tr 'A-Z' 'a-z')
  [ -f "lean/OMV/Props/$id.lean" ] && targets="$targets OMV.Props.$id"
  [ -f "lean/Driver/$id.lean" ] && targets="$targets drv_$low"
done
# regenerate translator outputs first (tables extracted from /repo)
for id in $(cat accepted.txt); do
  low=$(echo "$id" | tr 'A-Z' 'a-z')
  if grep -q "def translate" "harness/$low.py" 2>/dev/null; then
    /venv/bin/python - <<PY || true
import sys, os
sys.path.insert(0, 'harness')
os.environ.setdefault('OPENMDAO_REPORTS', '0')
import importlib
m = importlib.import_module('$low')
try:
    m.PROP.translate()
except Exception as e:
    print('translate($id) failed in setup (will be handled by the check):', e)
PY
  fi
done
cd lean
echo "lake build $targets"
lake build $targets
