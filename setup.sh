#!/bin/sh
# Build everything the checks need, offline, from files on disk only.
set -e
cd "$(dirname "$0")/lean"
targets="OMV.AuditTool"
for f in OMV/Props/C*.lean; do
  [ -f "$f" ] || continue
  id=$(basename "$f" .lean)
  targets="$targets OMV.Props.$id"
  low=$(echo "$id" | tr 'A-Z' 'a-z')
  [ -f "Driver/$id.lean" ] && targets="$targets drv_$low"
done
echo "lake build $targets"
lake build $targets
