#!/venv/bin/python
"""Re-run every stored seeded change (seeded/Cxx/NAME/) against the current checks and append the
result to its meta.json.  Usage: ./tools_seeded_all.py [Cxx ...]   (default: all)"""
import glob, json, os, subprocess, sys
V = os.path.dirname(os.path.abspath(__file__))
only = [a.upper() for a in sys.argv[1:]]
rows = []
for mp in sorted(glob.glob(os.path.join(V, 'seeded', '*', '*', 'meta.json'))):
    m = json.load(open(mp))
    pid, name = m['property'], m['name']
    if only and pid not in only:
        continue
    d = os.path.dirname(mp)
    # the checks that caught it last time (else the property's own check)
    caught = []
    for r in m.get('runs', []):
        for k, v in r.get('checks', {}).items():
            c = k.split('/')[0]
            if v['rc'] == 1 and c not in caught:
                caught.append(c)
    checks = caught or [pid]
    if pid in checks:
        checks = [pid]
    r = subprocess.run([os.path.join(V, 'tools_seeded.py'), pid, d, '--checks', ','.join(checks[:1]),
                        '--seeds', '0', '--keep', name], capture_output=True, text=True, cwd=V)
    line = [l for l in r.stdout.splitlines() if ' seed=' in l]
    demo = [l for l in r.stdout.splitlines() if l.startswith('demo:')]
    rows.append('%s %s | %s | %s' % (pid, name, demo[0] if demo else '?', '; '.join(line)[:160]))
    print(rows[-1], flush=True)
