import numpy as np
from openmdao.components.interp_util.interp import InterpND
g0=np.array([0.,1.,2.,3.,4.]); g1=np.array([0.,1.,2.,3.,4.,5.])
X,Y=np.meshgrid(g0,g1,indexing='ij'); V=np.sin(X)*Y**2+X*Y
bad=0
for seq in ('grad_only','interp_then_grad'):
    t=InterpND(method='akima', points=(g0,g1), values=V, extrapolate=True)
    x=np.array([[1.3,2.7]])
    if seq=='interp_then_grad': t.interpolate(x)
    g=t.gradient(x)
    t2=InterpND(method='akima', points=(g0,g1), values=V, extrapolate=True)
    f,d=t2.interpolate(x, compute_derivative=True)
    print(seq, g, d, np.allclose(g,d))
    bad+= not np.allclose(g,d)
raise SystemExit(1 if bad else 0)
