#!/venv/bin/python
"""Regenerate MANIFEST.json from the harness modules that exist (run by hand after adding one)."""
import importlib
import json
import os
import sys

HERE = os.path.dirname(os.path.abspath(__file__))
sys.path.insert(0, os.path.join(HERE, 'harness'))
PENDING_REASON = ("not claimed yet: the Lean model, theorems and correspondence harness for this "
                  "property (DESIGN.md section 4) are not built; proof in Lean 4 is applicable and "
                  "planned, no other technique is substituted")

# properties whose check has been reviewed and accepted by the coordinator (others stay under
# not_applicable/pending even if work-in-progress files exist)
ACCEPTED = [l.strip() for l in open(os.path.join(HERE, 'accepted.txt')) if l.strip()]
props = [json.loads(l) for l in open(os.path.join(HERE, 'properties.jsonl'))]
checks, na = [], []
for p in props:
    pid = p['id']
    if pid not in ACCEPTED or not os.path.exists(os.path.join(HERE, 'harness', pid.lower() + '.py')):
        na.append({'property_id': pid, 'reason': PENDING_REASON})
        continue
    mod = importlib.import_module(pid.lower())
    P = mod.PROP
    if getattr(P, 'not_applicable', None):
        na.append({'property_id': pid, 'reason': P.not_applicable})
        continue
    checks.append({
        'property_id': pid,
        'quick_cmd': './check %s --tier quick' % pid,
        'thorough_cmd': './check %s --tier thorough' % pid,
        'evidence_file': 'evidence/%s.json' % pid,
        'replay_cmd_template': './check %s --replay {path}' % pid,
        'engine': 'lean4-omv',
        'level_claimed': {'category': 'proof', 'text': P.level_text,
                          'design_ref': 'DESIGN.md section 4, %s' % pid},
        'level_note': P.level_note,
        'technique': P.technique,
    })
man = {
    'version': 1,
    'setup_cmd': './setup.sh',
    'hooks': {
        'guard': 'OPENMDAO_VERIF',
        'enable': 'no source hooks are needed: the harness drives the real code in-process through '
                  'public APIs, subclass overrides and sqlite trace callbacks; ./check sets '
                  'OPENMDAO_VERIF=1 for uniformity',
        'baseline_off_cmd': 'cd /repo && env -u OPENMDAO_VERIF /venv/bin/python -m pytest -ra -q '
                            '-p no:cacheprovider --timeout=900 --continue-on-collection-errors',
        'source_commits': [],
        'add_only': True,
    },
    'engines': [{
        'name': 'lean4-omv', 'path': 'lean/',
        'serves_properties': [c['property_id'] for c in checks],
        'kind_free_text': 'Lean 4 models (OMV/Model), property theorems (OMV/Props), native '
                          'JSON-lines drivers (Driver/), tied to /repo by a Python correspondence '
                          'harness (harness/) and regenerated tables (OMV/Generated)',
    }],
    'checks': checks,
    'not_applicable': na,
    'notes': 'See DESIGN.md. Exit 2 from a check is an infrastructure error, never a violation. '
             'fix: commits in /repo are recorded in known_findings.json as status "fixed".',
}
json.dump(man, open(os.path.join(HERE, 'MANIFEST.json'), 'w'), indent=1)
print('claimed', [c['property_id'] for c in checks])
