/-
C09 — the shared iteration loops of OpenMDAO's iterative solvers.

Literal transcriptions of
  * `openmdao/solvers/solver.py:NonlinearSolver._solve`   → `solveNL`
  * `openmdao/solvers/solver.py:LinearSolver._solve`      → `solveLN`
  * the `_iter_initialize` variants of the classes that run those loops
    (`NonlinearSolver`, `NewtonSolver`, `BroydenSolver`, `NonlinearBlockGS`,
    `BlockLinearSolver`)                                   → `iterInitialize`
  * `Solver.report_failure`                                → `reportFailure`
(code as of /repo commit 4dd03ec: a stall that coincides with convergence is not a failure)

The residual norms are *data*: `hist k` is the value returned by the k-th call of
`_iter_get_norm` (k = 0, 1, …).  Norms are Python floats, so a norm is `nan`, `inf` or a finite
number; every comparison with `nan` is false.  Tolerances are finite numbers.
Core Lean only.
-/
namespace OMV.C09

/-- A residual norm as a Python float: `nan`, `+inf` or a finite value (exact rational). -/
inductive Norm where
  | nan
  | inf
  | fin (q : Rat)
deriving DecidableEq, Repr, Inhabited

namespace Norm

/-- Python `norm > t` for a finite `t`. -/
def gt (a : Norm) (t : Rat) : Bool :=
  match a with
  | nan => false
  | inf => true
  | fin q => decide (t < q)

/-- Python `norm <= t` for a finite `t`. -/
def le (a : Norm) (t : Rat) : Bool :=
  match a with
  | nan => false
  | inf => false
  | fin q => decide (q ≤ t)

/-- `not (np.isinf(norm) or np.isnan(norm))`. -/
def isFinite (a : Norm) : Bool :=
  match a with
  | fin _ => true
  | _ => false

/-- Python `norm == 0` (false for `nan`, `inf`). -/
def isZero (a : Norm) : Bool :=
  match a with
  | fin q => decide (q = 0)
  | _ => false

/-- Float division `a / b` of non-negative floats (`b` is `norm0`, which the code never lets be
zero; the `fin _ / fin 0` case is unreachable and mapped to `nan`). -/
def div (a b : Norm) : Norm :=
  match a, b with
  | nan, _ => nan
  | _, nan => nan
  | inf, inf => nan
  | inf, fin _ => inf
  | fin _, inf => fin 0
  | fin x, fin y => if y = 0 then nan else fin (x / y)

/-- `np.abs(a - b)` on floats: `inf - inf = nan`, `|±inf| = inf`. -/
def absDiff (a b : Norm) : Norm :=
  match a, b with
  | nan, _ => nan
  | _, nan => nan
  | inf, inf => nan
  | inf, fin _ => inf
  | fin _, inf => inf
  | fin x, fin y => fin (if x ≤ y then y - x else x - y)

end Norm

/-- The classes that run the shared loops. `nlbgs` carries its `use_apply_nonlinear` option because
`NonlinearBlockGS._run_apply` counts the initial Gauss-Seidel sweep as an iteration otherwise. -/
inductive SolverClass where
  | newton
  | broyden
  | nlbgs (useApplyNonlinear : Bool)
  | nlbj
  | lnbgs
  | lnbj
deriving DecidableEq, Repr

def SolverClass.isLinear : SolverClass → Bool
  | .lnbgs => true
  | .lnbj => true
  | _ => false

/-- Options read by the loops (`Solver.__init__`, `NonlinearSolver._declare_options`).
`maxiter` and `stall_limit` are Python ints; a negative value behaves exactly like 0 in every test
the code makes (`_iter_count < maxiter`, `maxiter > 0`, `maxiter > 1`, `stall_limit > 0`), so they
are naturals here. -/
structure Opts where
  maxiter : Nat
  atol : Rat
  rtol : Rat
  stallLimit : Nat := 0
  stallTol : Rat := 0
  /-- `stall_tol_type == 'rel'` -/
  stallRel : Bool := true
  errOnNonConverge : Bool := false
deriving Repr

/-- Does the class's `_iter_initialize` evaluate the residual norm?
`NewtonSolver._iter_initialize`, `BroydenSolver._iter_initialize`: always.
`NonlinearSolver._iter_initialize` (NLBGS, NLBJ): `if self.options['maxiter'] > 0`.
`BlockLinearSolver._iter_initialize` (LNBGS, LNBJ): `if self.options['maxiter'] > 1`. -/
def evaluatesInitially (c : SolverClass) (maxiter : Nat) : Bool :=
  match c with
  | .newton => true
  | .broyden => true
  | .nlbgs _ => decide (0 < maxiter)
  | .nlbj => decide (0 < maxiter)
  | .lnbgs => decide (1 < maxiter)
  | .lnbj => decide (1 < maxiter)

/-- `_iter_count` after `_iter_initialize`. Only `NonlinearBlockGS._run_apply` touches it:
unless `(maxiter < 2 and itercount < 1) or use_apply_nonlinear`, the first "apply" is a
Gauss-Seidel sweep and `self._iter_count += 1`. -/
def initialIterCount (c : SolverClass) (maxiter : Nat) : Nat :=
  match c with
  | .nlbgs false => if 2 ≤ maxiter then 1 else 0
  | _ => 0

/-- What `_iter_initialize` hands to the loop. -/
structure Init where
  norm0 : Norm
  norm : Norm
  /-- number of `_iter_get_norm` calls made -/
  evals : Nat
  iter : Nat
deriving Repr

/-- `_iter_initialize`: `norm0 = norm if norm != 0.0 else 1.0`; without an evaluation the synthetic
`(1.0, 1.0)`. -/
def iterInitialize (c : SolverClass) (maxiter : Nat) (hist : Nat → Norm) : Init :=
  if evaluatesInitially c maxiter then
    let norm := hist 0
    { norm0 := if norm.isZero then .fin 1 else norm, norm := norm, evals := 1,
      iter := initialIterCount c maxiter }
  else
    { norm0 := .fin 1, norm := .fin 1, evals := 0, iter := 0 }

/-- The stall bookkeeping variables of `NonlinearSolver._solve`. -/
structure Stall where
  stalled : Bool
  stallCount : Nat
  stallNorm : Norm
deriving Repr

/-- Local variables of `_solve`. -/
structure St where
  /-- `self._iter_count` -/
  iter : Nat
  /-- number of `_single_iteration` calls -/
  singles : Nat
  /-- number of `_iter_get_norm` calls -/
  evals : Nat
  norm0 : Norm
  norm : Norm
  stall : Stall
  /-- `force_one_iteration` -/
  force : Bool
deriving Repr

/-- State on entry to the `while` (`stalled = False; stall_count = 0; stall_norm = norm0`,
`force_one_iteration = system.under_complex_step`). -/
def initState (c : SolverClass) (o : Opts) (cs : Bool) (hist : Nat → Norm) : St :=
  let i := iterInitialize c o.maxiter hist
  { iter := i.iter, singles := 0, evals := i.evals, norm0 := i.norm0, norm := i.norm,
    stall := { stalled := false, stallCount := 0, stallNorm := i.norm0 }, force := cs }

/-- "Above both tolerances": the loops' `norm > atol and norm / norm0 > rtol`. -/
def aboveBoth (o : Opts) (norm norm0 : Norm) : Bool :=
  norm.gt o.atol && (norm.div norm0).gt o.rtol

/-- `while` condition of `NonlinearSolver._solve`. -/
def contNL (o : Opts) (s : St) : Bool :=
  (decide (s.iter < o.maxiter) && aboveBoth o s.norm s.norm0 && !s.stall.stalled) || s.force

/-- The "Check if convergence is stalled" block (`abs` = `rec.abs`, `rel` = `rec.rel`). -/
def stallStep (o : Opts) (st : Stall) (abs rel : Norm) : Stall :=
  if 0 < o.stallLimit then
    let normForStall := if o.stallRel then rel else abs
    -- norm_diff = np.abs(stall_norm - norm_for_stall); if norm_diff <= stall_tol:
    if (st.stallNorm.absDiff normForStall).le o.stallTol then
      let sc := st.stallCount + 1
      { st with stallCount := sc, stalled := if o.stallLimit ≤ sc then true else st.stalled }
    else
      { st with stallCount := 0, stallNorm := normForStall }
  else st

/-- Body of the `while` of `NonlinearSolver._solve`. -/
def stepNL (o : Opts) (cs : Bool) (hist : Nat → Norm) (s : St) : St :=
  -- self._single_iteration(); self._iter_count += 1; self._run_apply(); norm = self._iter_get_norm()
  let norm := hist s.evals
  -- if norm0 == 0: norm0 = 1
  let norm0 := if s.norm0.isZero then Norm.fin 1 else s.norm0
  { iter := s.iter + 1, singles := s.singles + 1, evals := s.evals + 1,
    norm0 := norm0, norm := norm,
    stall := stallStep o s.stall norm (norm.div norm0),
    -- if system.under_complex_step: force_one_iteration = False
    force := if cs then false else s.force }

/-- The `while` loop with fuel. -/
def loopNL (o : Opts) (cs : Bool) (hist : Nat → Norm) : Nat → St → St
  | 0, s => s
  | fuel + 1, s => if contNL o s then loopNL o cs hist fuel (stepNL o cs hist s) else s

/-- `k` unconditional executions of the loop body (used to state the theorems). -/
def stepsNL (o : Opts) (cs : Bool) (hist : Nat → Norm) : Nat → St → St
  | 0, s => s
  | k + 1, s => stepsNL o cs hist k (stepNL o cs hist s)

/-- `while` condition of `LinearSolver._solve`. -/
def contLN (o : Opts) (s : St) : Bool :=
  decide (s.iter < o.maxiter) && aboveBoth o s.norm s.norm0

/-- Body of the `while` of `LinearSolver._solve` (no stall bookkeeping, no forced iteration). -/
def stepLN (hist : Nat → Norm) (s : St) : St :=
  let norm := hist s.evals
  let norm0 := if s.norm0.isZero then Norm.fin 1 else s.norm0
  { s with iter := s.iter + 1, singles := s.singles + 1, evals := s.evals + 1,
           norm0 := norm0, norm := norm }

def loopLN (o : Opts) (hist : Nat → Norm) : Nat → St → St
  | 0, s => s
  | fuel + 1, s => if contLN o s then loopLN o hist fuel (stepLN hist s) else s

/-- How a solve ended, in the order the code tests it. -/
inductive Outcome where
  | converged
  /-- `_inf_nan_failure` -/
  | nanInf
  /-- "stalled after n iterations" -/
  | stalled
  /-- `_convergence_failure` -/
  | notConverged
deriving DecidableEq, Repr

/-- Classification after the loop in `NonlinearSolver._solve`:
`if isinf/isnan … elif stalled and norm > atol and norm / norm0 > rtol … elif norm > atol and
norm / norm0 > rtol … else converged`. -/
def classifyNL (o : Opts) (s : St) : Outcome :=
  if !s.norm.isFinite then .nanInf
  else if s.stall.stalled && aboveBoth o s.norm s.norm0 then .stalled
  else if aboveBoth o s.norm s.norm0 then .notConverged
  else .converged

/-- The classification as it was before the fix `4dd03ec` (`elif stalled:` tested before the
tolerances). Kept only to state why the order matters (`C09_prefix_order_breaks_fail_iff`). -/
def classifyNLPreFix (o : Opts) (s : St) : Outcome :=
  if !s.norm.isFinite then .nanInf
  else if s.stall.stalled then .stalled
  else if aboveBoth o s.norm s.norm0 then .notConverged
  else .converged

/-- Classification after the loop in `LinearSolver._solve`. -/
def classifyLN (o : Opts) (s : St) : Outcome :=
  if !s.norm.isFinite then .nanInf
  else if aboveBoth o s.norm s.norm0 then .notConverged
  else .converged

/-- `Solver.report_failure`: every non-converged outcome goes through it; it raises
`AnalysisError` iff `err_on_non_converge`. -/
def reportFailure (o : Opts) (out : Outcome) : Bool :=
  match out with
  | .converged => false
  | _ => o.errOnNonConverge

structure Result where
  /-- final `_iter_count` -/
  iters : Nat
  singles : Nat
  evals : Nat
  outcome : Outcome
  /-- `AnalysisError` raised -/
  raised : Bool
  norm0 : Norm
  finalNorm : Norm
  stalledFlag : Bool
deriving Repr

def mkResult (o : Opts) (s : St) (out : Outcome) : Result :=
  { iters := s.iter, singles := s.singles, evals := s.evals, outcome := out,
    raised := reportFailure o out, norm0 := s.norm0, finalNorm := s.norm,
    stalledFlag := s.stall.stalled }

/-- `NonlinearSolver._solve` for class `c` (`cs` = `system.under_complex_step`).
Fuel `maxiter + 1` is enough (`C09_terminates`). -/
def solveNL (c : SolverClass) (o : Opts) (cs : Bool) (hist : Nat → Norm) : Result :=
  let s := loopNL o cs hist (o.maxiter + 1) (initState c o cs hist)
  mkResult o s (classifyNL o s)

/-- `LinearSolver._solve` for class `c`. -/
def solveLN (c : SolverClass) (o : Opts) (hist : Nat → Norm) : Result :=
  let s := loopLN o hist (o.maxiter + 1) (initState c o false hist)
  mkResult o s (classifyLN o s)

/-- The loop the class really runs. -/
def solve (c : SolverClass) (o : Opts) (cs : Bool) (hist : Nat → Norm) : Result :=
  if c.isLinear then solveLN c o hist else solveNL c o cs hist

/-- The state after `j` loop iterations, whether or not the loop would have gone on. -/
def stateAfter (c : SolverClass) (o : Opts) (cs : Bool) (hist : Nat → Norm) (j : Nat) : St :=
  stepsNL o cs hist j (initState c o cs hist)

/-- The norm the loop looks at after `j` iterations: the initial one (measured or the synthetic
1.0) for `j = 0`, else the `j`-th value measured after `_iter_initialize`. -/
def seenNorm (c : SolverClass) (o : Opts) (hist : Nat → Norm) (j : Nat) : Norm :=
  match j with
  | 0 => (iterInitialize c o.maxiter hist).norm
  | k + 1 => hist ((iterInitialize c o.maxiter hist).evals + k)

/-- The quantity compared by the stall check after `j ≥ 1` iterations: `rec.rel` or `rec.abs`. -/
def normForStall (c : SolverClass) (o : Opts) (hist : Nat → Norm) (j : Nat) : Norm :=
  if o.stallRel then (seenNorm c o hist j).div (iterInitialize c o.maxiter hist).norm0
  else seenNorm c o hist j

/-- The property's "meets a tolerance": finite and not above both tolerances. -/
def meetsTol (o : Opts) (norm norm0 : Norm) : Bool :=
  norm.isFinite && !aboveBoth o norm norm0

end OMV.C09
