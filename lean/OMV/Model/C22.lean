/-
C22 — constraint violation kernel of `Driver.get_constraint_values(viol=True)`.

`violCode` is the elementwise effect of the code path: three index sets computed from the
*original* value, then in-place `-= lower` on the lower-violating set, `-= upper` on the
upper-violating set and `= 0` on the non-violating set, then (with driver scaling) multiplication
by the constraint's total scaler.  `violSpec` is the property's statement.
Core Lean only.
-/
namespace OMV.C22

variable {K : Type} [LT K] [DecidableLT K] [LE K] [DecidableLE K] [Sub K] [Mul K] [Add K] [OfNat K 0]

/-- Specification: signed distance outside `[lo, hi]`, zero inside. -/
def violSpec (g lo hi : K) : K :=
  if g < lo then g - lo else if hi < g then g - hi else 0

/-- The code path, elementwise (index sets are computed before any update). -/
def violCode (g lo hi : K) : K :=
  let v1 := if g < lo then g - lo else g
  let v2 := if hi < g then v1 - hi else v1
  if lo ≤ g ∧ g ≤ hi then 0 else v2

/-- Equality constraints: deviation from the target. -/
def violEq (g eq : K) : K := g - eq

/-- Optional multiplicative scaling (`total_scaler`, `None` = no scaling). -/
def scaleBy (s : Option K) (v : K) : K :=
  match s with
  | none => v
  | some s => v * s

/-- The affine driver map `(x + adder) * scaler`. -/
def drv (a s x : K) : K := (x + a) * s

/-- Per-element bounds after NumPy broadcasting: a scalar is repeated, an array must match. -/
inductive Bound (K : Type) where
  | scalar : K → Bound K
  | array : List K → Bound K

def Bound.bcast {K : Type} (b : Bound K) (n : Nat) : Option (List K) :=
  match b with
  | .scalar x => some (List.replicate n x)
  | .array l =>
    if l.length = n then some l else
      match l with
      | [x] => some (List.replicate n x)
      | _ => none

def zip3With {α β γ δ : Type} (f : α → β → γ → δ) : List α → List β → List γ → List δ
  | a :: as, b :: bs, c :: cs => f a b c :: zip3With f as bs cs
  | _, _, _ => []

/-- Whole-array inequality violation as returned for one constraint. -/
def violVec (g : List K) (lo hi : Bound K) : Option (List K) := do
  let l ← lo.bcast g.length
  let h ← hi.bcast g.length
  pure (zip3With violCode g l h)

def violEqVec (g : List K) (eq : Bound K) : Option (List K) := do
  let e ← eq.bcast g.length
  pure (List.zipWith violEq g e)

def scaleVec (s : Option (Bound K)) (v : List K) : Option (List K) :=
  match s with
  | none => some v
  | some b => do
    let sv ← b.bcast v.length
    pure (List.zipWith (fun x y => x * y) v sv)

end OMV.C22
