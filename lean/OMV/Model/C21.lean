/-
C21 — the glue between OpenMDAO constraints / design-variable bounds and `scipy.optimize.minimize`
(`openmdao/drivers/scipy_optimizer.py: ScipyOptimizeDriver.run, _confunc, _con_val_func,
_congradfunc, _objfunc`; `openmdao/drivers/autoscalers/autoscaler.py: Autoscaler._scale_bound`).

What is modelled, literally as the code does it:

* `scaleBound`      one element of `_scale_bound`: `+-INF_BOUND` sentinels are kept, every other
                    bound becomes `(v + adder) * scaler`; lower is scaled from lower and upper from
                    upper whatever the sign of the scaler (`Variant.noSwap`).
* `oldRecords`      the per-element loop that builds the old-style constraint dicts for SLSQP /
                    COBYLA: one dict `(type, args = [name, False, j])` per element and a second one
                    `[name, True, j]` when `dblcon`; the loop *rebinds* the Python variables `upper`
                    and `lower` (`upper = upper[j]`), so from `j = 1` on they are element 0's scalars
                    (`Variant.rebind`).
* `confunc`         `_confunc(x, name, dbl, idx)` on the cached constraint values.
* `newRecords`      new-style objects for trust-constr: one `NonlinearConstraint(g[j], lb_j, ub_j)`
                    per element, but `constraints.append(con)` sits after the loop
                    (`Variant.lastOnly`); `LinearConstraint(A = lincongrad[con_idx], lb, ub)` takes a
                    single Jacobian row and no constant term (`Variant.linRow0`).
* `congradSign`     the sign `_congradfunc` gives the cached Jacobian row (decided from the *model*
                    lower bound), also for new-style records whose function is `g` itself
                    (`Variant.negNew`).
* `dvBound`         design-variable bounds handed to scipy (`None` when the sentinel is reached).
* `step`, `run`     the callbacks as a state machine: `_objfunc x` runs the model at `x` and fills
                    `_con_cache`, `_gradfunc` fills `_grad_cache` from the current model state; no
                    callback but `_objfunc` looks at its `x` argument (`Variant.noSync`), and the
                    model is not re-run at `result.x` (`Variant.noFinalSync`).

Every `Variant` flag set to `true` is the code in the anchored tree; `false` is the repaired code.
Core Lean only.
-/
namespace OMV.C21

/-- Which code is modelled.  `true` = as in the anchored tree, `false` = repaired. -/
structure Variant where
  /-- old-style loop: `upper = upper[j]`, `lower = lower[j]` overwrite the arrays -/
  rebind : Bool
  /-- new-style: `constraints.append(con)` after the per-element loop -/
  lastOnly : Bool
  /-- new-style `LinearConstraint`: single Jacobian row, constant term of the constraint dropped -/
  linRow0 : Bool
  /-- `_congradfunc` negates the row of an upper-only constraint for new-style records too -/
  negNew : Bool
  /-- `_scale_bound` never exchanges lower and upper under a negative scaler -/
  noSwap : Bool
  /-- no callback but `_objfunc` runs the model: answers come from the caches of the design
  evaluated last (repaired: a callback first runs the model at its argument when that differs) -/
  noSync : Bool
  /-- after `minimize` returns the model stays where the last objective call left it
  (repaired: it is run once more at `result.x` when that differs) -/
  noFinalSync : Bool
  deriving DecidableEq, Repr

def Variant.current : Variant := ⟨true, true, true, true, true, true, true⟩
def Variant.fixed : Variant := ⟨false, false, false, false, false, false, false⟩

section
variable {K : Type} [LE K] [DecidableLE K] [LT K] [DecidableLT K]
  [Add K] [Sub K] [Mul K] [Neg K]

/-! ## Scaled bounds (`Autoscaler._scale_bound`, one element) -/

/-- `inf_mask` elements keep their sentinel, the others get `(v + adder) * scaler`. -/
def scaleBound (inf : K) (isLower : Bool) (v a s : K) : K :=
  if isLower then (if v ≤ -inf then -inf else (v + a) * s)
  else (if inf ≤ v then inf else (v + a) * s)

/-- `_compute_scaled_bounds` for one element: `(lower, upper)` in driver units.  The anchored code
scales lower from lower and upper from upper; the repaired code exchanges them when `s < 0`. -/
def scaledPair (v : Variant) (inf zero : K) (lo hi a s : K) : K × K :=
  if v.noSwap || !decide (s < zero) then
    (scaleBound inf true lo a s, scaleBound inf false hi a s)
  else
    ((if inf ≤ hi then -inf else (hi + a) * s), (if lo ≤ -inf then inf else (lo + a) * s))

/-! ## One constraint as `run` sees it -/

/-- Bounds of one constraint in driver units as `get_bounds_scaling('constraint')` returns them
(sentinel `-inf` / `inf` where not set), `equals` only when `meta['equals'] is not None`. -/
structure Con (K : Type) where
  size : Nat
  lower : Nat → K
  upper : Nat → K
  equals : Option (Nat → K)
  linear : Bool

inductive Kind where
  | eq | ineq
  deriving DecidableEq, Repr

/-- An old-style constraint dict: `type` and `args = [name, dbl, idx]`. -/
structure Rec where
  kind : Kind
  idx : Nat
  dbl : Bool
  deriving DecidableEq, Repr

/-- The Python variable `upper` / `lower` inside the loop: still the array, or already a scalar. -/
inductive PyVar (K : Type) where
  | arr (f : Nat → K)
  | sc (x : K)

/-- `upper[j]` if `isinstance(upper, np.ndarray)`, else `upper`. -/
def PyVar.get : PyVar K → Nat → K
  | .arr f, j => f j
  | .sc x, _ => x

/-- `dblcon = (upper < INF_BOUND) and (lower > -INF_BOUND)` -/
def isDbl (inf up lo : K) : Bool := decide (up < inf) && decide (-inf < lo)

/-- `for j in range(size):` of the old-style branch, `n` iterations left, next index `j`. -/
def oldLoop (v : Variant) (inf : K) (isEq : Bool) : Nat → Nat → PyVar K → PyVar K → List Rec
  | 0, _, _, _ => []
  | n + 1, j, up, lo =>
    let upj := up.get j
    let loj := lo.get j
    let up' := if v.rebind then PyVar.sc upj else up
    let lo' := if v.rebind then PyVar.sc loj else lo
    (⟨if isEq then .eq else .ineq, j, false⟩ ::
      (if isDbl inf upj loj then [⟨.ineq, j, true⟩] else []))
      ++ oldLoop v inf isEq n (j + 1) up' lo'

/-- The dicts appended for one constraint. -/
def oldRecords (v : Variant) (inf : K) (c : Con K) : List Rec :=
  oldLoop v inf c.equals.isSome c.size 0 (.arr c.upper) (.arr c.lower)

/-- `_confunc(x, name, dbl, idx)` on the cached (driver-scaled) constraint values `g`. -/
def confunc (inf : K) (c : Con K) (g : Nat → K) (r : Rec) : K :=
  match c.equals with
  | some e => g r.idx - e r.idx
  | none =>
    if r.dbl || decide (c.lower r.idx ≤ -inf) then c.upper r.idx - g r.idx
    else g r.idx - c.lower r.idx

/-- scipy's reading of an old-style dict: `ineq` means `fun >= 0`, `eq` means `fun == 0`,
within the optimizer's tolerance. -/
def recSat (tol : K) (k : Kind) (x : K) : Prop :=
  match k with
  | .eq => -tol ≤ x ∧ x ≤ tol
  | .ineq => -tol ≤ x

instance (tol : K) (k : Kind) (x : K) : Decidable (recSat tol k x) := by
  unfold recSat; cases k <;> infer_instance

/-- The property, one element in driver units: a bound that is set is respected within `tol`. -/
def IntervalOK (inf tol lo hi x : K) : Prop :=
  (lo ≤ -inf ∨ lo - tol ≤ x) ∧ (inf ≤ hi ∨ x ≤ hi + tol)

instance (inf tol lo hi x : K) : Decidable (IntervalOK inf tol lo hi x) := by
  unfold IntervalOK; infer_instance

def EqOK (tol e x : K) : Prop := -tol ≤ x - e ∧ x - e ≤ tol

instance (tol e x : K) : Decidable (EqOK tol e x) := by
  unfold EqOK; infer_instance

/-- Element `j` of constraint `c` is feasible (driver units). -/
def ElemOK (inf tol : K) (c : Con K) (g : Nat → K) (j : Nat) : Prop :=
  match c.equals with
  | some e => EqOK tol (e j) (g j)
  | none => IntervalOK inf tol (c.lower j) (c.upper j) (g j)

instance (inf tol : K) (c : Con K) (g : Nat → K) (j : Nat) : Decidable (ElemOK inf tol c g j) := by
  unfold ElemOK; cases c.equals <;> infer_instance

/-! ## New-style constraint objects (trust-constr) -/

def maxK (a b : K) : K := if a ≤ b then b else a
def minK (a b : K) : K := if a ≤ b then a else b

/-- `nl`: `NonlinearConstraint(fun = g[idx], lb, ub)`.  `lin`: row `idx` of a
`LinearConstraint(A, lb, ub)`, its function is `(A x)[idx]` — no constant term. -/
inductive NewRec (K : Type) where
  | nl (idx : Nat) (lb ub : K)
  | lin (idx : Nat) (lb ub : K)
  deriving DecidableEq

def lbOf (c : Con K) (j : Nat) : K :=
  match c.equals with
  | some e => e j
  | none => c.lower j

def ubOf (c : Con K) (j : Nat) : K :=
  match c.equals with
  | some e => e j
  | none => c.upper j

/-- The objects appended for one constraint; `none` = scipy rejects the `LinearConstraint`
(`lb`, `ub` of length `size` against a single row).  `off j` is the constant term of row `j`
(`g(x0) - A x0`), used by the repaired code only. -/
def newRecords (v : Variant) (inf : K) (c : Con K) (off : Nat → K) : Option (List (NewRec K)) :=
  if c.linear then
    if v.linRow0 then
      (if c.size = 1 then some [.lin 0 (lbOf c 0) (ubOf c 0)] else none)
    else
      some ((List.range c.size).map fun j => .lin j (lbOf c j - off j) (ubOf c j - off j))
  else
    let recs := (List.range c.size).map fun j =>
      NewRec.nl j (maxK (lbOf c j) (-inf)) (minK (ubOf c j) inf)
    some (if v.lastOnly then recs.getLast?.toList else recs)

/-- scipy's reading: `lb <= fun(x) <= ub` within tolerance; `g` are the (driver-scaled) constraint
values, `ax` the values of `A x`. -/
def newSat (tol : K) (g ax : Nat → K) : NewRec K → Prop
  | .nl j lb ub => lb - tol ≤ g j ∧ g j ≤ ub + tol
  | .lin j lb ub => lb - tol ≤ ax j ∧ ax j ≤ ub + tol

instance (tol : K) (g ax : Nat → K) (r : NewRec K) : Decidable (newSat tol g ax r) := by
  cases r <;> unfold newSat <;> infer_instance

/-- value of the record's function -/
def newValue (g ax : Nat → K) : NewRec K → K
  | .nl j _ _ => g j
  | .lin j _ _ => ax j

/-! ## Sign of the Jacobian row (`_congradfunc`) -/

/-- `+1`: `grad[grad_idx]`, `-1`: `-grad[grad_idx]`.  `modelLowerUnset` is
`meta['lower'][idx] <= -INF_BOUND` (model units, not the scaled bound `_confunc` looks at; the two
agree as long as the scaled bounds are not exchanged — a repair that exchanges them under a negative
scaler must make `_congradfunc` look at the scaled bound, see `C21_grad_sign`). -/
def congradSign (v : Variant) (newStyle isEq modelLowerUnset dbl : Bool) : Int :=
  if isEq then 1
  else if dbl || modelLowerUnset then (if newStyle && !v.negNew then 1 else -1)
  else 1

/-- derivative of the record's function with respect to `g[idx]` -/
def recSlope (inf : K) (newStyle : Bool) (c : Con K) (r : Rec) : Int :=
  if newStyle then 1
  else match c.equals with
    | some _ => 1
    | none => if r.dbl || decide (c.lower r.idx ≤ -inf) then -1 else 1

/-! ## Design-variable bounds -/

/-- `(p_low, p_high)` with `None` once the sentinel is reached. -/
def dvBound (inf lo hi : K) : Option K × Option K :=
  (if lo ≤ -inf then none else some lo, if inf ≤ hi then none else some hi)

def boundSat (tol : K) (b : Option K × Option K) (x : K) : Prop :=
  (match b.1 with | none => True | some l => l - tol ≤ x) ∧
  (match b.2 with | none => True | some h => x ≤ h + tol)

instance (tol : K) (b : Option K × Option K) (x : K) : Decidable (boundSat tol b x) := by
  unfold boundSat; cases b.1 <;> cases b.2 <;> infer_instance

end

/-! ## The callbacks as a state machine

`_objfunc(x)` sets the design variables, runs the model and refreshes `_con_cache`.  No other
callback looks at its `x` argument: `_confunc` / `_con_val_func` answer from `_con_cache`,
`_gradfunc` computes totals at the current model state and stores them in `_grad_cache`,
`_congradfunc` answers from `_grad_cache` (calling `_gradfunc` first when the cache is empty). -/

inductive Call (X : Type) where
  | obj (x : X)     -- `_objfunc`
  | con (x : X)     -- `_confunc`, `_con_val_func`
  | grad (x : X)    -- `_gradfunc`
  | cgrad (x : X)   -- `_congradfunc` of a nonlinear constraint
  deriving DecidableEq

/-- The design a call asks about. -/
def Call.arg {X : Type} : Call X → X
  | .obj x => x
  | .con x => x
  | .grad x => x
  | .cgrad x => x

/-- `model`: the design the model was last run at; `gcache`: the design `_grad_cache` was
computed at (`none` = `_grad_cache is None`). -/
structure St (X : Type) where
  model : X
  gcache : Option X

/-- One callback: the design its answer is actually computed at, and the new state.
Anchored code (`noSync`): only `_objfunc` moves the model.  Repaired code: every callback first
runs the model at its argument if the model is elsewhere, `_congradfunc` recomputes the totals
if the cache belongs to another design. -/
def step {X : Type} [DecidableEq X] (v : Variant) (s : St X) : Call X → X × St X
  | .obj x => (x, { s with model := x })
  | .con x => if v.noSync then (s.model, s) else (x, { s with model := x })
  | .grad x =>
    if v.noSync then (s.model, { s with gcache := some s.model })
    else (x, { model := x, gcache := some x })
  | .cgrad x =>
    if v.noSync then
      match s.gcache with
      | some g => (g, s)
      | none => (s.model, { s with gcache := some s.model })
    else (x, if s.gcache = some x then s else { model := x, gcache := some x })

/-- All answers' designs and the final state. -/
def run {X : Type} [DecidableEq X] (v : Variant) : St X → List (Call X) → List X × St X
  | s, [] => ([], s)
  | s, c :: t =>
    let r := step v s c
    let rest := run v r.2 t
    (r.1 :: rest.1, rest.2)

/-- End of `ScipyOptimizeDriver.run`: where the model is left when the optimizer returned `xr`. -/
def finish {X : Type} (v : Variant) (s : St X) (xr : X) : St X :=
  if v.noFinalSync then s else { s with model := xr }

/-- The discipline the glue relies on, read off the call sequence alone: `lastObj` is the argument
of the latest objective call, `lastGrad` of the latest objective-gradient call.  Values and
objective gradients are only asked for the design of the latest objective call, constraint
Jacobians only for the design of the latest objective-gradient call. -/
def ObjFirst {X : Type} : X → Option X → List (Call X) → Prop
  | _, _, [] => True
  | _, lg, .obj x :: t => ObjFirst x lg t
  | lo, lg, .con x :: t => x = lo ∧ ObjFirst lo lg t
  | lo, _, .grad x :: t => x = lo ∧ ObjFirst lo (some x) t
  | lo, lg, .cgrad x :: t =>
    match lg with
    | some g => x = g ∧ ObjFirst lo lg t
    | none => x = lo ∧ ObjFirst lo (some x) t

/-- Executable form of `ObjFirst`. -/
def objFirstB {X : Type} [DecidableEq X] : X → Option X → List (Call X) → Bool
  | _, _, [] => true
  | _, lg, .obj x :: t => objFirstB x lg t
  | lo, lg, .con x :: t => decide (x = lo) && objFirstB lo lg t
  | lo, _, .grad x :: t => decide (x = lo) && objFirstB lo (some x) t
  | lo, lg, .cgrad x :: t =>
    match lg with
    | some g => decide (x = g) && objFirstB lo lg t
    | none => decide (x = lo) && objFirstB lo (some x) t

theorem objFirstB_iff {X : Type} [DecidableEq X] :
    ∀ (cs : List (Call X)) (lo : X) (lg : Option X), objFirstB lo lg cs = true ↔ ObjFirst lo lg cs
  | [], _, _ => by simp [objFirstB, ObjFirst]
  | .obj x :: t, lo, lg => by simp [objFirstB, ObjFirst, objFirstB_iff t]
  | .con x :: t, lo, lg => by simp [objFirstB, ObjFirst, objFirstB_iff t]
  | .grad x :: t, lo, lg => by simp [objFirstB, ObjFirst, objFirstB_iff t]
  | .cgrad x :: t, lo, some g => by simp [objFirstB, ObjFirst, objFirstB_iff t]
  | .cgrad x :: t, lo, none => by simp [objFirstB, ObjFirst, objFirstB_iff t]

instance {X : Type} [DecidableEq X] (lo : X) (lg : Option X) (cs : List (Call X)) :
    Decidable (ObjFirst lo lg cs) := decidable_of_iff _ (objFirstB_iff cs lo lg)

end OMV.C21
