/-
C25 — KS (Kreisselmeier-Steinhauser) aggregation: `openmdao/components/ks_comp.py`
(`KSfunction._compute_values / compute / derivatives`, `KSComp.compute / compute_partials / setup`)
and `openmdao/jax_funcs/ks.py` (`ks_max`, `ks_min`).

The model is polymorphic over the carrier `α` and over the pair (`exp`, `log`) supplied by the class
`ExpLog`.  The driver instantiates it at `Float` (`Float.exp`, `Float.log`), the theorems in
`OMV/Props/C25.lean` instantiate the *same definitions* at `ℝ` (`Real.exp`, `Real.log`).
Every definition follows the order of operations of the Python code, one row (`axis=-1`) at a time.
Core Lean only.
-/
namespace OMV.C25

/-- The two transcendental functions the code uses (`np.exp`, `np.log` / `jnp.exp`, `jnp.log`). -/
class ExpLog (α : Type) where
  exp : α → α
  log : α → α

section
variable {α : Type} [Add α] [Sub α] [Mul α] [Div α] [Neg α] [OfNat α 0] [OfNat α 1]
  [LT α] [DecidableLT α] [ExpLog α]

/-- `np.sum(·, axis=-1)` of one row. -/
def sumL (l : List α) : α := l.foldl (· + ·) 0

/-- `np.max(·, axis=-1)` of one row (left-to-right scan; `0` for the empty row, where NumPy raises —
the shape check in `KSComp.compute` below rejects empty rows before this is used). -/
def maxL : List α → α
  | [] => 0
  | x :: xs => xs.foldl (fun m y => if m < y then y else m) x

/-- `jnp.min`. -/
def minL : List α → α
  | [] => 0
  | x :: xs => xs.foldl (fun m y => if y < m then y else m) x

/-- `exponents = np.exp(rho * (g - g_max))` for a given shift `m` (the code uses `m = g_max`). -/
def exponents (g : List α) (rho m : α) : List α :=
  g.map (fun x => ExpLog.exp (rho * (x - m)))

/-- `KS = g_max + 1.0 / rho * np.log(summation)` with an arbitrary shift `m` in place of `g_max`. -/
def ksShift (g : List α) (rho m : α) : α :=
  m + 1 / rho * ExpLog.log (sumL (exponents g rho m))

/-- `KSfunction.compute(g, rho)` for one row; also `jax_funcs.ks.ks_max(x, rho)`. -/
def ksRow (g : List α) (rho : α) : α := ksShift g rho (maxL g)

/-- `KSfunction.derivatives(g, rho)[0]` for one row:
`dsum_dg = rho * exponents; dKS_dsum = 1.0 / (rho * summation); dKS_dg = dKS_dsum * dsum_dg`. -/
def dKSdg (g : List α) (rho m : α) : List α :=
  let ex := exponents g rho m
  let s := sumL ex
  ex.map (fun e => 1 / (rho * s) * (rho * e))

/-- `KSfunction.derivatives(g, rho)[1]` for one row, as the code computes it:
`dsum_drho = np.sum(g_diff * exponents); dKS_drho = dKS_dsum * dsum_drho`. -/
def dKSdrhoCode (g : List α) (rho m : α) : α :=
  let ex := exponents g rho m
  let s := sumL ex
  1 / (rho * s) * sumL (List.zipWith (fun x e => (x - m) * e) g ex)

/-- The derivative of `KSfunction.compute` with respect to `rho` (see `C25_drho`): the code's value
minus `log(summation) / rho**2`. -/
def dKSdrhoExact (g : List α) (rho m : α) : α :=
  dKSdrhoCode g rho m - ExpLog.log (sumL (exponents g rho m)) / (rho * rho)

/-- `jax_funcs.ks.ks_min(x, rho)`:
`x_min - 1.0 / rho * log(sum(exp(rho * (x_min - x))))`. -/
def jaxKsMin (x : List α) (rho : α) : α :=
  let m := minL x
  m - 1 / rho * ExpLog.log (sumL (x.map (fun v => ExpLog.exp (rho * (m - v)))))

/-- Weights of the gradient of `ks_min` (what AD of the expression above yields; see
`C25_min_grad`): the soft-min weights `exp(rho (x_min - x_i)) / Σ_j exp(rho (x_min - x_j))`. -/
def jaxKsMinGrad (x : List α) (rho : α) : List α :=
  let m := minL x
  let ex := x.map (fun v => ExpLog.exp (rho * (m - v)))
  let s := sumL ex
  ex.map (fun e => e / s)

/-! ### `KSComp` -/

/-- The options of `KSComp` that enter `compute` / `compute_partials`. -/
structure Opts (α : Type) where
  upper : α
  lowerFlag : Bool
  minimum : Bool
  rho : α

/-- One element of `con_val` in `KSComp.compute`:
`con_val = inputs['g'] - upper; if lower_flag: con_val = -con_val; if minimum: con_val = -con_val`. -/
def conElem (o : Opts α) (x : α) : α :=
  let c := x - o.upper
  let c := if o.lowerFlag then -c else c
  if o.minimum then -c else c

def conVal (o : Opts α) (g : List α) : List α := g.map (conElem o)

/-- `KSComp.compute` for one row: `ks_val = KSfunction.compute(con_val, rho)`,
`if minimum: ks_val = -ks_val`. -/
def computeRow (o : Opts α) (g : List α) : α :=
  let ks := ksRow (conVal o g) o.rho
  if o.minimum then -ks else ks

/-- `KSComp.compute_partials` for one row: `derivs = KSfunction.derivatives(con_val, rho)[0]`,
`if lower_flag: derivs = -derivs` (nothing is done for `minimum`). -/
def partialsRow (o : Opts α) (g : List α) : List α :=
  let c := conVal o g
  let d := dKSdg c o.rho (maxL c)
  if o.lowerFlag then d.map (fun v => -v) else d

/-- `compute` on the `(vec_size, width)` input: rows are aggregated independently.  `none` when the
array does not have the declared shape or has size 0 (`setup`: `add_input` / `add_output` reject
arrays of size 0; NumPy would raise on `np.max` of an empty row). -/
def compute (o : Opts α) (vecSize width : Nat) (G : List (List α)) : Option (List α) :=
  if G.length = vecSize ∧ 0 < vecSize ∧ 0 < width ∧ G.all (fun r => r.length == width) then
    some (G.map (computeRow o))
  else none

/-- `partials['KS', 'g'] = derivs.flatten()`. -/
def partialsFlat (o : Opts α) (vecSize width : Nat) (G : List (List α)) : Option (List α) :=
  if G.length = vecSize ∧ 0 < vecSize ∧ 0 < width ∧ G.all (fun r => r.length == width) then
    some (G.flatMap (partialsRow o))
  else none

end

/-! ### Sparsity pattern declared in `KSComp.setup` -/

/-- `np.tile(l, n)`. -/
def tile (l : List Nat) (n : Nat) : List Nat := (List.replicate n l).flatten

/-- `np.repeat(l, k)`. -/
def repeatEach (l : List Nat) (k : Nat) : List Nat := l.flatMap (List.replicate k)

/-- `rows = np.tile(np.zeros(width), vec_size) + np.repeat(np.arange(vec_size), width)`. -/
def declRows (vecSize width : Nat) : List Nat :=
  List.zipWith (· + ·) (tile (List.replicate width 0) vecSize)
    (repeatEach (List.range vecSize) width)

/-- `cols = np.tile(range(width), vec_size) + np.repeat(np.arange(vec_size), width) * width`. -/
def declCols (vecSize width : Nat) : List Nat :=
  List.zipWith (· + ·) (tile (List.range width) vecSize)
    ((repeatEach (List.range vecSize) width).map (· * width))

/-- Dot product used to state directional derivatives. -/
def dotL {α : Type} [Add α] [Mul α] [OfNat α 0] (a b : List α) : α :=
  (List.zipWith (· * ·) a b).foldl (· + ·) 0

/-- The perturbed row `g + t d`. -/
def perturb {α : Type} [Add α] [Mul α] (g d : List α) (t : α) : List α :=
  List.zipWith (fun x dx => x + t * dx) g d

end OMV.C25
