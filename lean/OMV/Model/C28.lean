/-
C28 — surrogate models (`openmdao/surrogate_models/*`) and `MetaModelUnStructuredComp`.

What is modelled, literally after the code, over an arbitrary carrier `K` (the driver runs the very
same definitions on `Rat`; the theorems evaluate them on a field and on dual numbers `K[ε]/(ε²)`):

* `ResponseSurface` (response_surface.py): the design row `[1, x, x_i * x_{i:} …]` in the column
  order of the two loops in `train` / `predict`, `predict = row · β`, `linearize` (the loop that
  accumulates `x[i:].dot(beta_offset[:n-i])` and `x[i] * beta_offset[:n-i]`), the normal equations of
  the least-squares fit (`lstsq` itself is third-party: its result enters as a vector with a
  certificate).
* nearest-neighbour interpolators (nn_interpolators/*.py), with the neighbour list found by the
  KD-tree as an *input* (third-party; the harness validates it by brute force):
  `WeightedInterpolator` (`_get_weights` incl. the exact-hit branch, `__call__`, `gradient`),
  `LinearInterpolator` (hyperplane through the `n+1` neighbours with the SVD normal as an input with
  a contract, the `normal[-1] == 0` fallback, `gradient`), `RBFInterpolator` (the table of compactly
  supported basis functions `Cf * polyval(cb_poly)` and of their derivatives
  `frnt * polyval(dRp_poly)`, the row of `R`, `__call__`, `_find_dR`).
* `KrigingSurrogate` (kriging.py): predictor `Y_mean + Y_std * r·α`, `linearize`; the exponential is
  an abstract primitive `E`, the hyper-parameters `θ` and the weights `α` are inputs (SLSQP likelihood
  maximisation and the regularised SVD solve are runtime/third-party).
* `MetaModelUnStructuredComp` (meta_model_unstructured_comp.py): `_vec_to_array`, the column slices
  of `compute_partials`, and the `rows/cols` pattern declared for `vec_size > 1`.

Switch: `rbfTable signFixed` — `false` is the table as shipped (the `dims <= 2`, `rbf_family == 1`
entry of `_find_dR` has the opposite sign of the derivative), `true` the corrected entry.
Not modelled: `rbf_family == -3` (needs `sqrt`), float rounding, inf/nan (division by zero follows
the field convention `x / 0 = 0`; the harness does not compare there).
Core Lean only.
-/
namespace OMV.C28

/-! ## Dual numbers `K[ε]/(ε²)` -/

structure Dual (K : Type) where
  re : K
  du : K
  deriving DecidableEq

namespace Dual
variable {K : Type}
instance [Add K] : Add (Dual K) := ⟨fun a b => ⟨a.re + b.re, a.du + b.du⟩⟩
instance [Sub K] : Sub (Dual K) := ⟨fun a b => ⟨a.re - b.re, a.du - b.du⟩⟩
instance [Neg K] : Neg (Dual K) := ⟨fun a => ⟨-a.re, -a.du⟩⟩
instance [Add K] [Mul K] : Mul (Dual K) := ⟨fun a b => ⟨a.re * b.re, a.du * b.re + a.re * b.du⟩⟩
instance [Sub K] [Mul K] [Div K] : Div (Dual K) :=
  ⟨fun a b => ⟨a.re / b.re, (a.du * b.re - a.re * b.du) / (b.re * b.re)⟩⟩
instance [OfNat K 0] : OfNat (Dual K) 0 := ⟨⟨0, 0⟩⟩
instance [OfNat K 0] [OfNat K 1] : OfNat (Dual K) 1 := ⟨⟨1, 0⟩⟩
instance [OfNat K 0] [NatCast K] : NatCast (Dual K) := ⟨fun n => ⟨(n : K), 0⟩⟩
instance [OfNat K 0] [IntCast K] : IntCast (Dual K) := ⟨fun n => ⟨(n : K), 0⟩⟩
/-- a constant (no dependence on the differentiation variable) -/
def const [OfNat K 0] (k : K) : Dual K := ⟨k, 0⟩
/-- lift of a unary primitive given as the pair `(f, f')` -/
def lift [Mul K] (f f' : K → K) (a : Dual K) : Dual K := ⟨f a.re, f' a.re * a.du⟩
end Dual

/-! ## Vectors as lists -/

section vec
variable {K : Type} [Add K] [Sub K] [Mul K] [Div K] [Neg K] [OfNat K 0] [OfNat K 1]

def sumL (l : List K) : K := l.foldr (· + ·) 0
def mulV (a b : List K) : List K := List.zipWith (· * ·) a b
def addV (a b : List K) : List K := List.zipWith (· + ·) a b
def subV (a b : List K) : List K := List.zipWith (· - ·) a b
def smul (c : K) (a : List K) : List K := a.map (c * ·)
def dot (a b : List K) : K := sumL (mulV a b)
def powN (x : K) : Nat → K
  | 0 => 1
  | n + 1 => powN x n * x
def two : K := 1 + 1

/-- `M v` for a matrix given as a list of rows -/
def matVec (M : List (List K)) (v : List K) : List K := M.map (fun r => dot r v)
/-- `Mᵀ a = Σ_k a_k • row_k` (rows of length `n`) -/
def tMatVec (n : Nat) (M : List (List K)) (a : List K) : List K :=
  (List.zipWith (fun row ak => smul ak row) M a).foldr addV (List.replicate n 0)

/-- `np.polyval(cs, t)`: Horner, highest power first -/
def polyval (cs : List K) (t : K) : K := cs.foldl (fun acc c => acc * t + c) 0

/-- `(y - m) / r` and `z * r + m` (scaling to / from the unit box, resp. mean / std) -/
def normalize (m r y : K) : K := (y - m) / r
def denorm (m r z : K) : K := z * r + m
def normV (x m r : List K) : List K := List.zipWith (fun xm rr => xm / rr) (subV x m) r

/-! ## ResponseSurface (response_surface.py) -/

/-- the quadratic columns: `for i: X_offset[:n-i] = x[i] * x[i:]` -/
def quadTerms : List K → List K
  | [] => []
  | xi :: rest => (xi :: rest).map (xi * ·) ++ quadTerms rest

/-- one row of the design matrix (`train`) = the vector `X` of `predict`:
constant, linear terms, quadratic terms -/
def rsRow (x : List K) : List K := 1 :: (x ++ quadTerms x)

/-- `train`: the design matrix, one row per training point -/
def rsDesign (xs : List (List K)) : List (List K) := xs.map rsRow

/-- `predict`: `X.dot(self.betas)` (one output column) -/
def rsPredict (β x : List K) : K := dot (rsRow x) β

/-- the loop of `linearize` on the quadratic coefficients, for the suffix `x[i:]`:
`jac[i] += x[i:].dot(beta_offset[:n-i]); jac[i:] += x[i] * beta_offset[:n-i]` -/
def rsQuadGrad : List K → List K → List K
  | [], _ => []
  | xi :: rest, bo =>
    let n := rest.length + 1
    let b := bo.take n
    addV (smul xi b) (dot (xi :: rest) b :: rsQuadGrad rest (bo.drop n))

/-- `linearize`: one row of `jac.T` (gradient of one output) -/
def rsLinearize (β x : List K) : List K :=
  addV ((β.drop 1).take x.length) (rsQuadGrad x (β.drop (x.length + 1)))

/-- residual of the normal equations `Xᵀ (X β - y)` (zero for the least-squares solution) -/
def normalResidual (ncol : Nat) (X : List (List K)) (β y : List K) : List K :=
  tMatVec ncol X (subV (matVec X β) y)

/-- a quadratic in natural form `c + b·x + Σ_{i ≤ j} A_ij x_i x_j`, `A` given as the rows of its
upper triangle (row `i` holds `A_ii … A_i,n-1`) -/
def quadForm : List (List K) → List K → K
  | [], _ => 0
  | _, [] => 0
  | row :: rows, xi :: rest => xi * dot (xi :: rest) row + quadForm rows rest

/-! ## WeightedInterpolator (weighted_interpolator.py) -/

/-- inverse-distance weight away from a training point -/
def idwW (p : Nat) (d : K) : K := 1 / powN d p

/-- `_get_weights`: `1 / ndist**p`; a row with an infinite weight (zero distance) becomes the
indicator of its zero-distance entries -/
def idwWeights [DecidableEq K] (p : Nat) (ds : List K) : List K :=
  if ds.any (fun d => decide (d = 0)) then ds.map (fun d => if d = 0 then 1 else 0)
  else ds.map (idwW p)

/-- weighted mean of the neighbour values with given weights -/
def wmean (w vs : List K) : K := dot w vs / sumL w

/-- `__call__` in normalised units, no exact hit -/
def idwCore (p : Nat) (ds vs : List K) : K := wmean (ds.map (idwW p)) vs

/-- `__call__`: `ys` are the raw training outputs of the neighbours (one output column) -/
def weightedPredict [DecidableEq K] (tvm tvr : K) (p : Nat) (ds ys : List K) : K :=
  denorm tvm tvr (wmean (idwWeights p ds) (ys.map (normalize tvm tvr)))

/-- `gradient` in normalised units. `diffs` is `dimdiff` (row `k` = `xn - tp[nloc[k]]`),
`w = d**-p`, `c_k = -p * d_k**-(p+2)` so that `dweights_k = c_k • diffs_k`;
`(Σw · Σ_k v_k dweights_k - (Σ_k w_k v_k) · Σ_k dweights_k) / (Σw)²` -/
def idwGradN [NatCast K] (n p : Nat) (ds : List K) (diffs : List (List K)) (vs : List K) :
    List K :=
  let w := ds.map (idwW p)
  let c := ds.map (fun d => (-(p : K)) * (1 / powN d (p + 2)))
  let s := sumL w
  let wv := dot w vs
  (subV (smul s (tMatVec n diffs (mulV c vs))) (smul wv (tMatVec n diffs c))).map
    (fun g => g / (s * s))

/-- `gradient`: rescaled by `tvr / tpr_j` -/
def weightedLinearize [NatCast K] (tvr : K) (tpr : List K) (p : Nat) (ds : List K)
    (diffs : List (List K)) (vs : List K) : List K :=
  List.zipWith (fun g r => g * (tvr / r)) (idwGradN tpr.length p ds diffs vs) tpr

/-! ## LinearInterpolator (linear_interpolator.py) -/

/-- the contract of the SVD null vector `(nx, nz)`: orthogonal to the differences of consecutive
neighbours `(p_{k+1} - p_k, v_{k+1} - v_k)` -/
def planeContract [DecidableEq K] (nx : List K) (nz : K) : List (List K) → List K → Bool
  | p0 :: p1 :: ps, v0 :: v1 :: vs =>
    decide (dot (subV p1 p0) nx + (v1 - v0) * nz = 0) && planeContract nx nz (p1 :: ps) (v1 :: vs)
  | _, _ => true

/-- `__call__` in normalised units: `pc = (p0, v0)·normal`; `(xn·nx - pc) / -nz`, and the value of
the nearest neighbour when `nz == 0` -/
def linPlane [DecidableEq K] (nx : List K) (nz : K) (p0 : List K) (v0 : K) (xn : List K) : K :=
  let pc := dot p0 nx + v0 * nz
  if nz = 0 then v0 else (dot xn nx - pc) / (-nz)

def linearPredict [DecidableEq K] (tvm tvr : K) (nx : List K) (nz : K) (p0 : List K) (y0 : K)
    (xn : List K) : K :=
  denorm tvm tvr (linPlane nx nz p0 (normalize tvm tvr y0) xn)

/-- `gradient`: `-normal[:-1] / normal[-1]` (zeros for a vertical plane), rescaled -/
def linearLinearize [DecidableEq K] (tvr : K) (tpr nx : List K) (nz : K) : List K :=
  List.zipWith (fun a r => (if nz = 0 then 0 else -a / nz) * (tvr / r)) nx tpr

/-! ## RBFInterpolator (rbf_interpolator.py) -/

/-- one branch of `_find_R` / `_find_dR`:
`Cf = (1 - T)**a / c`, `Cb = polyval(cb, T)`;
`frnt = (1 - T)**fa / fc` (`fa = none`: `frnt = 1`), `dRp = frnt * polyval(dp, T)` -/
structure RbfEntry where
  a : Nat
  c : Nat
  cb : List Int
  fa : Option Nat
  fc : Int
  dp : List Int

/-- dimension class of the `else` branch: `dims = indep + 1`; `<= 2`, `<= 4`, `<= 6`, else -/
def rbfClass (indep : Nat) : Nat :=
  if indep + 1 ≤ 2 then 0 else if indep + 1 ≤ 4 then 1 else if indep + 1 ≤ 6 then 2 else 3

/-- the table, transcribed branch by branch. `signFixed = false` is the shipped `dims <= 2`,
`rbf_family == 1` entry `dRp_poly = [1, -2, 1, 0]` (the comment next to it says
`-T * (1 - T)**2`), `true` its negation. -/
def rbfTable (signFixed : Bool) (cls : Nat) (fam : Int) : Option RbfEntry :=
  match fam, cls with
  | -1, _ => some ⟨5, 1, [5, 72, 48, 40, 8], some 4, 1, [-45, -556, -120, -144, 0]⟩
  | -2, _ => some ⟨6, 1, [5, 30, 72, 82, 36, 6], some 5, 1, [-55, -275, -528, -440, -88, 0]⟩
  | 0, 0 => some ⟨1, 1, [1], none, 1, [-1]⟩
  | 1, 0 => some ⟨3, 12, [3, 1], none, 1,
      if signFixed then [-1, 2, -1, 0] else [1, -2, 1, 0]⟩
  | 2, 0 => some ⟨5, 840, [24, 15, 3], some 4, -20, [4, 1, 0]⟩
  | 3, 0 => some ⟨7, 151200, [315, 285, 105, 15], some 6, -1680, [35, 18, 3, 0]⟩
  | 4, 0 => some ⟨9, 51891840, [5760, 6795, 3555, 945, 105], some 8, -22176, [32, 25, 8, 1, 0]⟩
  | 0, 1 => some ⟨1, 1, [-1, 1], none, 1, [2, -2]⟩
  | 1, 1 => some ⟨4, 20, [4, 1], none, 1, [1, -3, 3, -1, 0]⟩
  | 2, 1 => some ⟨6, 1680, [35, 18, 3], some 5, -30, [5, 1, 0]⟩
  | 3, 1 => some ⟨8, 332640, [480, 375, 120, 15], some 7, -1008, [16, 7, 1, 0]⟩
  | 4, 1 => some ⟨10, 121080960, [9009, 9450, 4410, 1050, 105], some 9, -221760,
      [231, 159, 45, 5, 0]⟩
  | 0, 2 => some ⟨2, 1, [-1, 1], none, 1, [-3, 6, -3]⟩
  | 1, 2 => some ⟨5, 30, [5, 1], none, 1, [-1, 4, -6, 4, -1, 0]⟩
  | 2, 2 => some ⟨7, 3024, [48, 21, 3], some 6, -42, [6, 1, 0]⟩
  | 3, 2 => some ⟨9, 665280, [693, 477, 135, 15], some 8, -1680, [21, 8, 1, 0]⟩
  | 4, 2 => some ⟨11, 259459200, [13440, 12705, 5355, 1155, 105], some 10, -411840,
      [320, 197, 50, 5, 0]⟩
  | 0, 3 => some ⟨2, 1, [1, -2, 1], none, 1, [4, -12, 12, -4]⟩
  | 1, 3 => some ⟨6, 42, [6, 1], none, 1, [1, -5, 10, -10, 5, -1, 0]⟩
  | 2, 3 => some ⟨8, 5040, [63, 24, 3], some 7, -56, [7, 1, 0]⟩
  | 3, 3 => some ⟨10, 1235520, [960, 591, 150, 15], some 9, -7920, [80, 27, 3, 0]⟩
  | 4, 3 => some ⟨12, 518918400, [19305, 16620, 6390, 1260, 105], some 11, -720720,
      [429, 239, 55, 5, 0]⟩
  | _, _ => none

section rbf
variable [NatCast K] [IntCast K]

/-- `Cf * Cb` -/
def rbfPhi (e : RbfEntry) (t : K) : K :=
  powN (1 - t) e.a / (e.c : K) * polyval (e.cb.map (fun (z : Int) => (z : K))) t

/-- `frnt * polyval(dRp_poly, T)` -/
def rbfDPhi (e : RbfEntry) (t : K) : K :=
  (match e.fa with
   | none => 1
   | some fa => powN (1 - t) fa / (e.fc : K)) * polyval (e.dp.map (fun (z : Int) => (z : K))) t

/-- `_find_R`: the values `Cf * Cb` of one row of `R` at its neighbour columns (shared by the
training matrix `Rt` and by `__call__`) -/
def rbfRow (e : RbfEntry) (ds : List K) (dN : K) : List K := ds.map (fun d => rbfPhi e (d / dN))

/-- the neighbour-sum form of `R.dot(weights)`: `ds` are the distances to the first `N-1`
neighbours, `dN` to the last one, `ws` the weights gathered at those neighbours (this is the form
`_find_dR` differentiates; equal to the dense form for distinct neighbour indices) -/
def rbfPredictN (e : RbfEntry) (ds : List K) (dN : K) (ws : List K) : K :=
  dot (rbfRow e ds dN) ws

/-- `R[i, neighbor_idx[i, :-1]] = …` on a row of zeros of length `m` (assignments in order, a
later assignment to the same column wins) -/
def scatter (m : Nat) (idx : List Nat) (vals : List K) : List K :=
  (idx.zip vals).foldl (fun row q => row.set q.1 q.2) (List.replicate m 0)

/-- `weights[neighbor_idx]` -/
def gather (w : List K) (idx : List Nat) : List K := idx.map (fun i => w.getD i 0)

/-- `_find_R`: one dense row of `R` — row `i` of the training matrix `Rt` (neighbours of training
point `i`) and the row `Rp` of `__call__` (neighbours of the query) -/
def rbfDenseRow (m : Nat) (e : RbfEntry) (idx : List Nat) (ds : List K) (dN : K) : List K :=
  scatter m idx (rbfRow e ds dN)

/-- `__call__`: `Tp = ndist[:-1] / ndist[-1]`, `Rp = _find_R(...)`,
`(Rp.dot(weights) * tvr) + tvm`; `W` is the full weight vector (one output column) -/
def rbfPredict (tvm tvr : K) (m : Nat) (e : RbfEntry) (idx : List Nat) (ds : List K) (dN : K)
    (W : List K) : K :=
  denorm tvm tvr (dot (rbfDenseRow m e idx ds dN) W)

/-- `_find_dR` in normalised units: `T == 0` is replaced by `tiny` (`1e-11` in the code);
`dtx_j = (xpi_j - T_j² xpm) / (dN² T_j)`; gradient `Σ_j w_j dRp(T_j) dtx_j`.
`xpi` : rows `xn - tp[nloc[j]]` for the first `N-1` neighbours, `xpm = xn - tp[nloc[-1]]`.
`dRp` is evaluated before the perturbation, as in the code. -/
def rbfGradN [DecidableEq K] (n : Nat) (tiny : K) (e : RbfEntry) (ds : List K) (dN : K)
    (xpi : List (List K)) (xpm : List K) (ws : List K) : List K :=
  let ts := ds.map (fun d => d / dN)
  let coef := List.zipWith (fun t w => rbfDPhi e t * w) ts ws
  let dtx := List.zipWith (fun t xp =>
    let t' := if t = 0 then t + tiny else t
    (subV xp (smul (t' * t') xpm)).map (fun z => z / (dN * dN * t'))) ts xpi
  tMatVec n dtx coef

def rbfLinearize [DecidableEq K] (tvr : K) (tpr : List K) (tiny : K) (e : RbfEntry) (ds : List K)
    (dN : K) (xpi : List (List K)) (xpm : List K) (ws : List K) : List K :=
  List.zipWith (fun g r => g * (tvr / r)) (rbfGradN tpr.length tiny e ds dN xpi xpm ws) tpr

end rbf

/-! ## KrigingSurrogate (kriging.py) -/

/-- `exp(-thetas.dot(square(x_n - X_k)))`; `E` is the exponential -/
def krigCorr (E : K → K) (θ xn Xk : List K) : K :=
  E (-(dot θ ((subV xn Xk).map (fun d => d * d))))

/-- `predict`: `Y_mean + Y_std * r.dot(alpha)` (one output column) -/
def krigPredict (ymean ystd : K) (r α : List K) : K := ymean + ystd * dot r α

/-- `predict` from the raw point -/
def krigModel (E : K → K) (xmean xstd : List K) (ymean ystd : K) (θ : List K)
    (Xs : List (List K)) (α x : List K) : K :=
  krigPredict ymean ystd (Xs.map (krigCorr E θ (normV x xmean xstd))) α

/-- `linearize` (one output): `gradr[j,k] = r_k * -2 * θ_j (xn_j - X_kj)`,
`jac_j = Y_std / X_std_j * Σ_k gradr[j,k] α_k`.  `diffs` row `k` is `xn - X_k`. -/
def krigLinearize (ystd : K) (xstd θ r : List K) (diffs : List (List K)) (α : List K) : List K :=
  let g := tMatVec xstd.length (diffs.map (mulV θ)) (List.zipWith (fun rk ak => rk * (-two) * ak) r α)
  List.zipWith (fun gj sj => ystd * (1 / sj) * gj) g xstd

end vec

/-! ## MetaModelUnStructuredComp (meta_model_unstructured_comp.py) -/

section comp
variable {K : Type} [OfNat K 0]

/-- `_vec_to_array`: the input variables, flattened, one after the other -/
def flatInputs (vars : List (List K)) : List K := vars.flatten

/-- `compute_partials`, `vec_size == 1`: `partials[of, in_k] = sjac[:, idx:idx+sz]` with the
running offset `idx` over the input variables -/
def compPartials (sjac : List (List K)) : Nat → List Nat → List (List (List K))
  | _, [] => []
  | idx, sz :: rest => sjac.map (fun row => (row.drop idx).take sz) :: compPartials sjac (idx + sz) rest

/-- `_setup_partials`, `vec_size > 1`: entry `t` of the declared `rows` / `cols`
(`rows = tile(repeat(arange(n_of), n_wrt), vec) + repeat(arange(vec), n_of*n_wrt) * n_of`, …) -/
def vecRow (nOf nWrt t : Nat) : Nat := (t % (nOf * nWrt)) / nWrt + (t / (nOf * nWrt)) * nOf
def vecCol (nOf nWrt t : Nat) : Nat := (t % (nOf * nWrt)) % nWrt + (t / (nOf * nWrt)) * nWrt

/-- `compute_partials`, `vec_size > 1`: `partials[of, in][j1:j2] = derivs_j[:, idx:idx+sz].flat`
with `j1 = j * n_of * sz` -/
def vecVal (derivs : Nat → List (List K)) (nOf nWrt idx t : Nat) : K :=
  let j := t / (nOf * nWrt)
  let k := t % (nOf * nWrt)
  ((derivs j).getD (k / nWrt) []).getD (idx + k % nWrt) 0

/-- the dense sub-Jacobian `(vec*n_of) × (vec*n_wrt)` assembled from the declared triplets
(last assignment wins; the theorems show there are no duplicates) -/
def vecDense (derivs : Nat → List (List K)) (vec nOf nWrt idx : Nat) (r c : Nat) : K :=
  (List.range (vec * (nOf * nWrt))).foldl
    (fun acc t => if vecRow nOf nWrt t = r ∧ vecCol nOf nWrt t = c then vecVal derivs nOf nWrt idx t
      else acc) 0

end comp

end OMV.C28
