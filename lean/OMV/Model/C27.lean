/-
C27 — `OptionsDictionary` (openmdao/utils/options_dictionary.py): declaration, validated assignment,
deprecation aliases, read-only dictionaries and the `temporary()` context manager.

The model follows the code as it is written (order of checks in `_assert_valid`, the entry being
stored by `declare` *before* the default is validated, the cache list being created *before* the
old value is read in `temporary`, forward-order restore, no `try/finally`).  The one switch
`Cfg.restoreOnRaise` selects between the current `temporary()` (`false`) and the patched one
(`true`: `try/finally`, save before touching the cache, restore in reverse order).

Python semantics that matter are explicit: `==`/`in` (`1 == True`, `1.0 == 1`), `isinstance`
(`bool` is a subclass of `int`), ordering comparisons raise `TypeError` on non-numbers, iterating a
`str` yields its characters.  `check_valid` callbacks are an abstract family of predicates
`Cfg.checkValid : Nat → Val → Bool` (a callback raises `ValueError` iff its predicate is false).
Not modelled: `set_function`, deprecation *warnings* (only the alias forwarding), NaN/inf floats,
`values` given as a `set` (hashing), malformed `values=`/`types=` arguments of `declare`.
Core Lean only.
-/
namespace OMV.C27

/-! ## Values -/

/-- Scalars of the value universe. `float` carries the exact rational value of the double. -/
inductive Atom where
  | none
  | bool (b : Bool)
  | int (i : Int)
  | float (q : Rat)
  | str (s : String)
  deriving DecidableEq

/-- Option values: a scalar or a (flat) list of scalars. -/
inductive Val where
  | atom (a : Atom)
  | list (l : List Atom)
  deriving DecidableEq

/-- The Python classes that can be named in `types=`. -/
inductive Ty where
  | bool | int | float | str | list
  deriving DecidableEq

/-- `types=None`, `types=T` or `types=(T1, T2, ...)`; the code distinguishes `types is list` and
`types is bool` from one-element tuples. -/
inductive TypeSpec where
  | none
  | one (t : Ty)
  | many (ts : List Ty)
  deriving DecidableEq

/-- Exception classes raised by the anchored code. -/
inductive Exc where
  | keyError | valueError | typeError | runtimeError | indexError
  deriving DecidableEq

/-- Numeric value under Python's numeric tower (`True == 1`, `1.0 == 1`). -/
def Atom.num : Atom → Option Rat
  | .bool b => some (if b then 1 else 0)
  | .int i => some (i : Rat)
  | .float q => some q
  | _ => Option.none

/-- Python `a == b` on scalars. -/
def Atom.pyEq (a b : Atom) : Bool :=
  match a, b with
  | .none, .none => true
  | .str s, .str t => decide (s = t)
  | a, b =>
    match a.num, b.num with
    | some x, some y => decide (x = y)
    | _, _ => false

def Val.num : Val → Option Rat
  | .atom a => a.num
  | .list _ => Option.none

/-- Python `isinstance(v, t)` for a single class. -/
def Val.isInst (v : Val) (t : Ty) : Bool :=
  match v, t with
  | .atom (.bool _), .bool => true
  | .atom (.bool _), .int => true
  | .atom (.int _), .int => true
  | .atom (.float _), .float => true
  | .atom (.str _), .str => true
  | .list _, .list => true
  | _, _ => false

/-- `isinstance(v, types)` for a class or a tuple of classes (never called with `types=None`). -/
def TypeSpec.isInst (ts : TypeSpec) (v : Val) : Bool :=
  match ts with
  | .none => true
  | .one t => v.isInst t
  | .many l => l.any (fun t => v.isInst t)

/-- `for val in value`: lists yield their elements, strings their characters, anything else is
not iterable (`TypeError`). -/
def Val.iter? : Val → Option (List Atom)
  | .list l => some l
  | .atom (.str s) => some (s.toList.map (fun c => Atom.str (String.singleton c)))
  | _ => Option.none

/-- `a in values` for a list/tuple of scalars. -/
def inValues (vs : List Atom) (a : Atom) : Bool := vs.any (fun x => a.pyEq x)

/-! ## Declarations and validation -/

/-- The metadata `declare` stores (after its rewriting of `types=bool` and `default=None`). -/
structure Decl where
  values : Option (List Atom)
  types : TypeSpec
  lower : Option Rat
  upper : Option Rat
  allowNone : Bool
  checkValid : Option Nat
  recordable : Bool
  /-- `deprecation`: `none` = not deprecated, `some none` = message only,
  `some (some new)` = forward to `new`. -/
  alias : Option (Option String)
  deriving DecidableEq

/-- First error wins (sequential composition of checks that may raise). -/
def firstErr (a b : Option Exc) : Option Exc :=
  match a with
  | some e => some e
  | Option.none => b

/-- `for val in check_vals: if val not in values: raise ValueError`. -/
def checkVals (vs : List Atom) : List Atom → Option Exc
  | [] => Option.none
  | a :: rest => if inValues vs a then checkVals vs rest else some .valueError

/-- `_assert_valid`: the `values` / `types` branch. -/
def memberCheck (d : Decl) (v : Val) : Option Exc :=
  match d.values with
  | some vs =>
    -- check_vals = [value] if types is not list else value
    if d.types = .one .list then
      match v.iter? with
      | Option.none => some .typeError          -- 'int' object is not iterable
      | some es => checkVals vs es
    else
      match v with
      | .atom a => checkVals vs [a]
      | .list _ => some .valueError             -- a list never equals a scalar
  | Option.none =>
    if d.types = .none then Option.none
    else if d.types.isInst v then Option.none else some .typeError

/-- `if upper is not None: if value > upper: raise ValueError` (`>` raises `TypeError` when the
value is not a number). -/
def upperCheck (d : Decl) (v : Val) : Option Exc :=
  match d.upper with
  | Option.none => Option.none
  | some u =>
    match v.num with
    | Option.none => some .typeError
    | some x => if u < x then some .valueError else Option.none

def lowerCheck (d : Decl) (v : Val) : Option Exc :=
  match d.lower with
  | Option.none => Option.none
  | some l =>
    match v.num with
    | Option.none => some .typeError
    | some x => if x < l then some .valueError else Option.none

/-- `check_valid(name, value)` is called last and also for an allowed `None`. -/
def cvCheck (cv : Nat → Val → Bool) (d : Decl) (v : Val) : Option Exc :=
  match d.checkValid with
  | Option.none => Option.none
  | some k => if cv k v then Option.none else some .valueError

/-- `OptionsDictionary._assert_valid`: `none` = the value passes, `some e` = `e` is raised. -/
def assertValid (cv : Nat → Val → Bool) (d : Decl) (v : Val) : Option Exc :=
  firstErr
    (if v = .atom .none ∧ d.allowNone = true then Option.none
     else firstErr (memberCheck d v) (firstErr (upperCheck d v) (lowerCheck d v)))
    (cvCheck cv d v)

/-! ### The declaration read declaratively -/

/-- Clause "values / types". -/
def Member (d : Decl) (v : Val) : Prop :=
  match d.values with
  | some vs =>
    if d.types = .one .list then
      ∃ es, v.iter? = some es ∧ ∀ e ∈ es, ∃ x ∈ vs, e.pyEq x = true
    else ∃ a, v = .atom a ∧ ∃ x ∈ vs, a.pyEq x = true
  | Option.none => d.types = .none ∨ d.types.isInst v = true

/-- Clause "bounds": the value is a number inside `[lower, upper]`. -/
def InBounds (d : Decl) (v : Val) : Prop :=
  (∀ u, d.upper = some u → ∃ x, v.num = some x ∧ x ≤ u) ∧
  (∀ l, d.lower = some l → ∃ x, v.num = some x ∧ l ≤ x)

/-- A value satisfies a declaration. -/
def Satisfies (cv : Nat → Val → Bool) (d : Decl) (v : Val) : Prop :=
  ((v = .atom .none ∧ d.allowNone = true) ∨ (Member d v ∧ InBounds d v)) ∧
  (∀ k, d.checkValid = some k → cv k v = true)

/-! ## State -/

/-- One entry of `_dict`; `val = none` is `_UNDEFINED` (`has_been_set` is `val.isSome`: the code
writes the two together in `declare` and `__setitem__`). -/
structure Entry where
  decl : Decl
  val : Option Val
  deriving DecidableEq

/-- Insertion-ordered Python dict with string keys. -/
def lookup {β : Type} (n : String) : List (String × β) → Option β
  | [] => Option.none
  | (k, b) :: rest => if k = n then some b else lookup n rest

/-- `d[n] = b` (an existing key keeps its position). -/
def upsert {β : Type} (n : String) (b : β) : List (String × β) → List (String × β)
  | [] => [(n, b)]
  | (k, x) :: rest => if k = n then (k, b) :: rest else (k, x) :: upsert n b rest

/-- `del d[n]` / `d.pop(n)`. -/
def erase {β : Type} (n : String) : List (String × β) → List (String × β)
  | [] => []
  | (k, x) :: rest => if k = n then erase n rest else (k, x) :: erase n rest

structure State where
  dict : List (String × Entry)
  readOnly : Bool
  /-- `_context_cache`: per option a stack of saved values, head = top. -/
  cache : List (String × List Val)
  deriving DecidableEq

def State.empty (readOnly : Bool) : State := ⟨[], readOnly, []⟩

/-- What `opts[n]` would store/return without alias forwarding. -/
def State.valOf (s : State) (n : String) : Option Val := (lookup n s.dict).bind (·.val)
def State.declOf (s : State) (n : String) : Option Decl := (lookup n s.dict).map (·.decl)
def stackOf (c : List (String × List Val)) (o : String) : List Val := (lookup o c).getD []

/-- Parameters of the model: which `temporary()` is run and the `check_valid` callbacks. -/
structure Cfg where
  restoreOnRaise : Bool
  checkValid : Nat → Val → Bool

/-- `_handle_deprecation` (one level of forwarding; `KeyError` when the alias is missing). -/
def follow (s : State) (n : String) (e : Entry) : Except Exc (String × Entry) :=
  match e.decl.alias with
  | some (some a) =>
    match lookup a s.dict with
    | Option.none => .error .keyError
    | some e' => .ok (a, e')
  | _ => .ok (n, e)

/-- Name and entry an access to `n` finally reaches. -/
def resolve (s : State) (n : String) : Except Exc (String × Entry) :=
  match lookup n s.dict with
  | Option.none => .error .keyError
  | some e => follow s n e

/-- `meta['val'] = value; meta['has_been_set'] = True` on entry `t`. -/
def storeVal (t : String) (v : Val) : List (String × Entry) → List (String × Entry)
  | [] => []
  | (k, e) :: rest =>
    if k = t then (k, { e with val := some v }) :: rest else (k, e) :: storeVal t v rest

/-- `__setitem__`. -/
def setOpt (cfg : Cfg) (s : State) (n : String) (v : Val) : Except Exc State :=
  match lookup n s.dict with
  | Option.none => .error .keyError                  -- not declared
  | some e =>
    if s.readOnly then .error .keyError              -- read-only dictionary
    else
      match follow s n e with
      | .error x => .error x
      | .ok (t, et) =>
        match assertValid cfg.checkValid et.decl v with
        | some x => .error x
        | Option.none => .ok { s with dict := storeVal t v s.dict }

/-- `__getitem__`. -/
def getOpt (s : State) (n : String) : Except Exc Val :=
  match lookup n s.dict with
  | Option.none => .error .keyError
  | some e =>
    match follow s n e with
    | .error x => .error x
    | .ok (_, et) =>
      match et.val with
      | some v => .ok v
      | Option.none => .error .runtimeError            -- required but has not been set

/-- Arguments of `declare` (well-typed ones). -/
structure DeclArgs where
  default : Option Val
  values : Option (List Atom)
  types : TypeSpec
  lower : Option Rat
  upper : Option Rat
  allowNone : Bool
  checkValid : Option Nat
  recordable : Bool
  alias : Option (Option String)

/-- The metadata `declare` builds from its arguments. -/
def DeclArgs.toDecl (a : DeclArgs) : Decl :=
  { values := if a.types = .one .bool then some [.bool true, .bool false] else a.values
    types := a.types
    lower := a.lower
    upper := a.upper
    allowNone := a.allowNone || decide (a.default = some (.atom .none))
    checkValid := a.checkValid
    recordable := a.recordable
    alias := a.alias }

/-- `declare`: the entry is stored first, the default validated afterwards (so a rejected default
stays in the dictionary). -/
def declare (cfg : Cfg) (s : State) (n : String) (a : DeclArgs) : State × Option Exc :=
  if a.types ≠ .none ∧ a.types ≠ .one .list ∧ a.values.isSome then (s, some .runtimeError)
  else
    let d := a.toDecl
    let s1 := { s with dict := upsert n ⟨d, a.default⟩ s.dict }
    match a.default with
    | Option.none => (s1, Option.none)
    | some v => (s1, assertValid cfg.checkValid d v)

/-- `update(in_dict)` / `set(**kwargs)`: assignments in order, stopping at the first rejection. -/
def updateLoop (cfg : Cfg) : List (String × Val) → State → State × Option Exc
  | [], s => (s, Option.none)
  | (n, v) :: rest, s =>
    match setOpt cfg s n v with
    | .error e => (s, some e)
    | .ok s' => updateLoop cfg rest s'

inductive Op where
  | declare (n : String) (a : DeclArgs)
  | undeclare (n : String)
  | set (n : String) (v : Val)
  | get (n : String)
  | update (kvs : List (String × Val))
  | contains (n : String)

inductive Out where
  | ok
  | val (v : Val)
  | bool (b : Bool)
  | err (e : Exc)
  deriving DecidableEq

def Out.isErr : Out → Bool
  | .err _ => true
  | _ => false

def Out.ofExc : Option Exc → Out
  | Option.none => .ok
  | some e => .err e

/-- One public-API call. -/
def step (cfg : Cfg) (s : State) : Op → State × Out
  | .declare n a => let r := declare cfg s n a; (r.1, Out.ofExc r.2)
  | .undeclare n => ({ s with dict := erase n s.dict }, .ok)
  | .set n v =>
    match setOpt cfg s n v with
    | .error e => (s, .err e)
    | .ok s' => (s', .ok)
  | .get n =>
    match getOpt s n with
    | .error e => (s, .err e)
    | .ok v => (s, .val v)
  | .update kvs => let r := updateLoop cfg kvs s; (r.1, Out.ofExc r.2)
  | .contains n => (s, .bool (lookup n s.dict).isSome)

/-! ## `temporary()` -/

def pushCache (s : State) (o : String) (v : Val) : State :=
  { s with cache := upsert o (v :: stackOf s.cache o) s.cache }

/-- Current code, entering: for each keyword `cache.setdefault(o, [])`, `cache[o].append(self[o])`,
`self[o] = val`; any exception leaves what was done so far. -/
def enterCur (cfg : Cfg) : List (String × Val) → State → State × Option Exc
  | [], s => (s, Option.none)
  | (o, v) :: rest, s =>
    let s0 : State :=
      match lookup o s.cache with
      | Option.none => { s with cache := upsert o [] s.cache }
      | some _ => s
    match getOpt s0 o with
    | .error e => (s0, some e)
    | .ok saved =>
      let s1 := pushCache s0 o saved
      match setOpt cfg s1 o v with
      | .error e => (s1, some e)
      | .ok s2 => enterCur cfg rest s2

/-- Current code, leaving: for each keyword in the same order `self[o] = cache[o].pop()`, then the
empty list is removed. -/
def restoreCur (cfg : Cfg) : List String → State → State × Option Exc
  | [], s => (s, Option.none)
  | o :: rest, s =>
    match lookup o s.cache with
    | Option.none => (s, some .keyError)
    | some [] => (s, some .indexError)
    | some (saved :: below) =>
      let s1 : State := { s with cache := upsert o below s.cache }
      match setOpt cfg s1 o saved with
      | .error e => (s1, some e)
      | .ok s2 =>
        let s3 : State := if below.isEmpty then { s2 with cache := erase o s2.cache } else s2
        restoreCur cfg rest s3

/-- Patched code, entering: `saved = self[o]` first, then push, record `o` as entered, assign.
The entered names are accumulated newest first (that is `reversed(entered)`). -/
def enterFix (cfg : Cfg) : List (String × Val) → State → List String →
    State × List String × Option Exc
  | [], s, ent => (s, ent, Option.none)
  | (o, v) :: rest, s, ent =>
    match getOpt s o with
    | .error e => (s, ent, some e)
    | .ok saved =>
      let s1 := pushCache s o saved
      match setOpt cfg s1 o v with
      | .error e => (s1, o :: ent, some e)
      | .ok s2 => enterFix cfg rest s2 (o :: ent)

/-- Patched code, the `finally` block: for each entered name, newest first, pop (removing an
emptied list), then assign the saved value. -/
def restoreFix (cfg : Cfg) : List String → State → State × Option Exc
  | [], s => (s, Option.none)
  | o :: rest, s =>
    match lookup o s.cache with
    | Option.none => (s, some .keyError)
    | some [] => (s, some .indexError)
    | some (saved :: below) =>
      let s1 : State :=
        { s with cache := if below.isEmpty then erase o s.cache else upsert o below s.cache }
      match setOpt cfg s1 o saved with
      | .error e => (s1, some e)
      | .ok s2 => restoreFix cfg rest s2

/-! ## Programs: operation sequences with `with opts.temporary(...)` blocks and exceptions -/

/-- What is visible through the public API after an operation (plus the number of saved values
pending in `_context_cache`). -/
structure Obs where
  opts : List (String × Out)
  recordable : List String
  pending : Nat
  deriving DecidableEq

def observe (s : State) : Obs :=
  { opts := s.dict.map (fun p =>
      (p.1, match getOpt s p.1 with
            | .error e => Out.err e
            | .ok v => Out.val v))
    recordable := (s.dict.filter (fun p => p.2.decl.recordable)).map (·.1)
    pending := (s.cache.map (fun p => p.2.length)).sum }

inductive EvKind where
  | op        -- a public call
  | raise     -- an exception injected by the body
  | enter     -- `with opts.temporary(..)` entered (or failed to enter)
  | exit      -- context left normally (restore result)
  | exitExc   -- context left by an exception of the body
  deriving DecidableEq

structure Event where
  kind : EvKind
  out : Out
  obs : Obs
  deriving DecidableEq

structure Res where
  st : State
  /-- an exception is propagating -/
  raised : Bool
  log : List Event

/-- `strict` statements let their own exception propagate; otherwise it is caught on the spot. -/
inductive Prog where
  | skip
  | seq (p q : Prog)
  | op (o : Op) (strict : Bool)
  | raise
  | temp (kw : List (String × Val)) (strict : Bool) (body : Prog)
  | catch (body : Prog)

/-- `with self.temporary(**kw): body` — current code (no `try/finally`). -/
def tempCur (cfg : Cfg) (kw : List (String × Val)) (strict : Bool) (body : State → Res)
    (s : State) : Res :=
  let r1 := enterCur cfg kw s
  match r1.2 with
  | some e => ⟨r1.1, strict, [⟨.enter, .err e, observe r1.1⟩]⟩
  | Option.none =>
    let rb := body r1.1
    if rb.raised then
      -- the generator is not resumed: nothing is restored
      ⟨rb.st, true, ⟨.enter, .ok, observe r1.1⟩ :: rb.log ++ [⟨.exitExc, .ok, observe rb.st⟩]⟩
    else
      let r2 := restoreCur cfg (kw.map (·.1)) rb.st
      ⟨r2.1, strict && r2.2.isSome,
        ⟨.enter, .ok, observe r1.1⟩ :: rb.log ++ [⟨.exit, Out.ofExc r2.2, observe r2.1⟩]⟩

/-- `with self.temporary(**kw): body` — patched code (`try: enter; yield finally: restore`).
An exception raised inside `finally` replaces the one in flight. -/
def tempFix (cfg : Cfg) (kw : List (String × Val)) (strict : Bool) (body : State → Res)
    (s : State) : Res :=
  let r1 := enterFix cfg kw s []
  match r1.2.2 with
  | some e =>
    let r2 := restoreFix cfg r1.2.1 r1.1
    ⟨r2.1, strict, [⟨.enter, .err (r2.2.getD e), observe r2.1⟩]⟩
  | Option.none =>
    let rb := body r1.1
    let r2 := restoreFix cfg r1.2.1 rb.st
    if rb.raised then
      ⟨r2.1, true, ⟨.enter, .ok, observe r1.1⟩ :: rb.log ++ [⟨.exitExc, Out.ofExc r2.2, observe r2.1⟩]⟩
    else
      ⟨r2.1, strict && r2.2.isSome,
        ⟨.enter, .ok, observe r1.1⟩ :: rb.log ++ [⟨.exit, Out.ofExc r2.2, observe r2.1⟩]⟩

/-- Run a program. -/
def exec (cfg : Cfg) : Prog → State → Res
  | .skip, s => ⟨s, false, []⟩
  | .seq p q, s =>
    let r := exec cfg p s
    if r.raised then r
    else
      let r2 := exec cfg q r.st
      ⟨r2.st, r2.raised, r.log ++ r2.log⟩
  | .op o strict, s =>
    let r := step cfg s o
    ⟨r.1, strict && r.2.isErr, [⟨.op, r.2, observe r.1⟩]⟩
  | .raise, s => ⟨s, true, [⟨.raise, .ok, observe s⟩]⟩
  | .temp kw strict body, s =>
    if cfg.restoreOnRaise then tempFix cfg kw strict (fun s' => exec cfg body s') s
    else tempCur cfg kw strict (fun s' => exec cfg body s') s
  | .catch body, s =>
    let r := exec cfg body s
    ⟨r.st, false, r.log⟩

/-- No `declare` / `undeclare` inside (bodies of `with` blocks in the restore theorems). -/
def Prog.NoDecl : Prog → Prop
  | .skip => True
  | .seq p q => p.NoDecl ∧ q.NoDecl
  | .op (.declare _ _) _ => False
  | .op (.undeclare _) _ => False
  | .op _ _ => True
  | .raise => True
  | .temp _ _ body => body.NoDecl
  | .catch body => body.NoDecl

/-- Every `temporary()` context that is opened during the run of `p` from `s` is entered completely
and left normally (no exception crosses a context).  Needed for the current code only. -/
def Quiet (cfg : Cfg) : Prog → State → Prop
  | .skip, _ => True
  | .seq p q, s => Quiet cfg p s ∧ ((exec cfg p s).raised = false → Quiet cfg q (exec cfg p s).st)
  | .op _ _, _ => True
  | .raise, _ => True
  | .temp kw _ body, s =>
    (kw.map (·.1)).Nodup ∧                       -- Python keyword arguments are distinct
    (enterCur cfg kw s).2 = Option.none ∧
    Quiet cfg body (enterCur cfg kw s).1 ∧
    (exec cfg body (enterCur cfg kw s).1).raised = false
  | .catch body, s => Quiet cfg body s

/-! ## Vocabulary of the specification -/

/-- The name an access to `n` is forwarded to (a function of the declarations only);
`none` when `n` or its alias target is not declared. -/
def State.targetOf (s : State) (n : String) : Option String :=
  match s.declOf n with
  | Option.none => Option.none
  | some d =>
    match d.alias with
    | some (some a) => if (s.declOf a).isSome then some a else Option.none
    | _ => some n

/-- Same declarations (and read-only flag); values and cache may differ. -/
def SameDecls (s s' : State) : Prop :=
  s'.readOnly = s.readOnly ∧ ∀ n, s'.declOf n = s.declOf n

/-- Every value held satisfies the declaration of its option. -/
def Good (cfg : Cfg) (s : State) : Prop :=
  ∀ n e v, lookup n s.dict = some e → e.val = some v → Satisfies cfg.checkValid e.decl v

/-- The keywords of one `temporary()` call reach pairwise different options (no deprecated alias
together with its target). -/
def DistinctTargets (s : State) (kw : List (String × Val)) : Prop :=
  (kw.map (fun p => s.targetOf p.1)).Nodup

end OMV.C27
