/-
Exact dense linear algebra over `Rat` for the drivers: Gauss–Jordan elimination used as an
*untrusted oracle with certificate* — every solution is checked by multiplication (`certify`)
before it is used, so the elimination itself needs no correctness proof (DESIGN.md 3.4).
Core Lean only.
-/
namespace OMV.Lin

abbrev Mat := Array (Array Rat)

def mget (M : Mat) (i j : Nat) : Rat := (M.getD i #[]).getD j 0

def matOfLists (l : List (List Rat)) : Mat := (l.map List.toArray).toArray
def matToLists (M : Mat) : List (List Rat) := (M.map Array.toList).toList

def mkMat (r c : Nat) (f : Nat → Nat → Rat) : Mat :=
  (Array.range r).map (fun i => (Array.range c).map (fun j => f i j))

def transpose (r c : Nat) (M : Mat) : Mat := mkMat c r (fun i j => mget M j i)

def matMul (r k c : Nat) (A B : Mat) : Mat :=
  mkMat r c (fun i j => (List.range k).foldl (fun acc t => acc + mget A i t * mget B t j) 0)

def matEq (r c : Nat) (A B : Mat) : Bool :=
  (List.range r).all (fun i => (List.range c).all (fun j => mget A i j == mget B i j))

/-- first row index `≥ col` with a nonzero entry in column `col` -/
def findPivot (M : Mat) (n col : Nat) : Option Nat :=
  ((List.range n).filter (fun r => r ≥ col && mget M r col != 0)).head?

/-- one elimination step on the augmented matrix (n rows, w columns) -/
def elimStep (M : Mat) (n w col : Nat) : Option Mat := do
  let p ← findPivot M n col
  let rowP := M.getD p #[]
  let rowC := M.getD col #[]
  let M := (M.setIfInBounds p rowC).setIfInBounds col rowP
  let piv := mget M col col
  let prow := (M.getD col #[]).map (fun x => x / piv)
  let M := M.setIfInBounds col prow
  pure ((Array.range n).map (fun r =>
    if r == col then prow else
      let f := mget M r col
      (Array.range w).map (fun j => mget M r j - f * prow.getD j 0)))

/-- solve `A X = B` (A : n×n, B : n×m); `none` if singular -/
def solve (n m : Nat) (A B : Mat) : Option Mat := do
  let aug : Mat := mkMat n (n + m) (fun i j => if j < n then mget A i j else mget B i (j - n))
  let red ← (List.range n).foldlM (fun M col => elimStep M n (n + m) col) aug
  pure (mkMat n m (fun i j => mget red i (n + j)))

/-- certified solve: the result is returned only if `A X = B` holds exactly -/
def solveCertified (n m : Nat) (A B : Mat) : Option Mat := do
  let X ← solve n m A B
  if matEq n m (matMul n n m A X) B then some X else none

end OMV.Lin
