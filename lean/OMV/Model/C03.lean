/-
C03 — simultaneous-derivative coloring (openmdao/utils/coloring.py, openmdao/core/total_jac.py).

What is modelled, literally to the code:

* `Coloring`     the data a `coloring.Coloring` object carries: `_fwd = (column groups, nonzero rows
                 per column)`, `_rev = (row groups, nonzero columns per row)`, `_subtractions`
                 (ordered list of `(pos, [positions to subtract])`).
* `compress`     what one colored linear solve returns: for forward color `i` the sum of the columns
                 of the group (a vector over rows), for reverse color `i` the sum of the rows of the
                 group (a vector over columns).
* `recover`      the order of writes of `_TotalJacInfo.compute_totals`: `J[:] = 0`, then for every fwd
                 color, every column `c` of the group, `J[nzrows[c], c] = solution[nzrows[c]]`
                 (`simul_coloring_jac_setter`, same writes as `Coloring._expand_jac` /
                 `color_nonzero_iter` consumers), then the rev colors, then
                 `Coloring._apply_subtractions`: `J[pos] -= sum(J[k] for k in subs)` in list order.
* `recoverScaled` the same with the unit/driver scaling of the total jacobian (`J[p] *= s p`) either
                 *after* the subtractions (`late = false`) or *before* them (`late = true`, which is
                 what `compute_totals` does at the pinned commit: `_apply_unit_scaling`,
                 `apply_jac_scaling`, and only then `_apply_subtractions`).
* `certify`      one symbolic run of `recover ∘ compress` on the generic matrix with the pattern `P`
                 (every written value is an integer coefficient vector over the entries of `P`),
                 accepted iff every entry of `P` ends as its own unit vector and every other written
                 position ends as zero.  Proven sound in `Props/C03.lean`; used to validate the colorings the
                 real `MNCO_bidir` produces (translation validation).
* the unidirectional algorithm of `_compute_coloring(J, 'fwd'|'rev')`:
  `colAdj` (`_2col_adj_rows_cols`), `orderByID` (`_order_by_ID`, with the `-ncols` sentinel),
  `greedyColor` (`_get_full_disjoint_col_matrix_cols`), `colorFwd` / `colorRev`,
  and `chooseBest`, the fallback logic of mode `'auto'`.

Not modelled as an algorithm: `MNCO_bidir`, `_Jc2col_matrix_direct/_substitution`,
`_get_subtractions`, `_sort_subtractions` (networkx); their *output* is validated by `certify`.
Core Lean only.
-/
namespace OMV.C03

/-- A position `(row, column)` of the jacobian. -/
abbrev Pos := Nat × Nat

/-- A boolean sparsity matrix: shape and the list of nonzero positions (`np.nonzero(J)`). -/
structure Pattern where
  nrows : Nat
  ncols : Nat
  nz : List Pos

def Pattern.has (P : Pattern) (r c : Nat) : Bool := P.nz.contains (r, c)

/-- Every nonzero lies inside the shape. -/
def Pattern.wf (P : Pattern) : Bool := P.nz.all fun p => decide (p.1 < P.nrows) && decide (p.2 < P.ncols)

/-- `J.T` (used for `mode='rev'`). -/
def Pattern.transpose (P : Pattern) : Pattern :=
  { nrows := P.ncols, ncols := P.nrows, nz := P.nz.map fun p => (p.2, p.1) }

/-- `sum(f(x) for x in l)`: left to right, starting from `0`. -/
def sumOver {ι α : Type} [Zero α] [Add α] (l : List ι) (f : ι → α) : α :=
  l.foldl (fun acc x => acc + f x) 0

/-! ## The coloring object and its consumers -/

/-- `coloring.Coloring`: `_fwd[0]`, `_fwd[1]` (with `None ↦ []`), `_rev[0]`, `_rev[1]`,
`_subtractions`.  A missing direction is the empty list of groups. -/
structure Coloring where
  fwd : List (List Nat) := []
  fwdNz : List (List Nat) := []
  rev : List (List Nat) := []
  revNz : List (List Nat) := []
  subs : List (Pos × List Pos) := []
  deriving DecidableEq

/-- `Coloring.total_solves()`. -/
def Coloring.totalSolves (C : Coloring) : Nat := C.fwd.length + C.rev.length

/-- The results of the colored solves: `fwd i r` is entry `r` of the solution for forward color `i`,
`rev i c` entry `c` of the solution for reverse color `i`. -/
structure Compressed (α : Type) where
  fwd : Nat → Nat → α
  rev : Nat → Nat → α

/-- A colored solve seeds all members of the group at once, so it returns the sum of the group's
columns (fwd) resp. rows (rev) of the matrix. -/
def compress {α : Type} [Zero α] [Add α] (C : Coloring) (M : Pos → α) : Compressed α :=
  { fwd := fun i r => sumOver (C.fwd.getD i []) fun c => M (r, c)
    rev := fun i c => sumOver (C.rev.getD i []) fun r => M (r, c) }

/-- total_jac.py:simul_coloring_jac_setter, fwd branch, over all colors starting with color `i`:
`for c in group: J[nz[c], c] = solution[nz[c]]`, as the ordered list of `(position, value)`. -/
def fwdWritesFrom {α : Type} (nz : List (List Nat)) (v : Nat → Nat → α) :
    Nat → List (List Nat) → List (Pos × α)
  | _, [] => []
  | i, g :: gs =>
    (g.flatMap fun c => (nz.getD c []).map fun r => ((r, c), v i r)) ++ fwdWritesFrom nz v (i + 1) gs

/-- rev branch: `for r in group: J[r, nz[r]] = solution[nz[r]]`. -/
def revWritesFrom {α : Type} (nz : List (List Nat)) (v : Nat → Nat → α) :
    Nat → List (List Nat) → List (Pos × α)
  | _, [] => []
  | i, g :: gs =>
    (g.flatMap fun r => (nz.getD r []).map fun c => ((r, c), v i c)) ++ revWritesFrom nz v (i + 1) gs

/-- The written positions alone (they do not depend on the values). -/
def fwdPositions (nz : List (List Nat)) : List (List Nat) → List Pos
  | [] => []
  | g :: gs => (g.flatMap fun c => (nz.getD c []).map fun r => (r, c)) ++ fwdPositions nz gs

def revPositions (nz : List (List Nat)) : List (List Nat) → List Pos
  | [] => []
  | g :: gs => (g.flatMap fun r => (nz.getD r []).map fun c => (r, c)) ++ revPositions nz gs

/-- Every position some step of `recover` assigns to. -/
def Coloring.writePositions (C : Coloring) : List Pos :=
  fwdPositions C.fwdNz C.fwd ++ revPositions C.revNz C.rev ++ C.subs.map (·.1)

/-- The jacobian being filled in: the list of assignments made so far, newest first; a position
never assigned holds `0` (`self.J[:] = 0.0`). -/
abbrev Jac (α : Type) := List (Pos × α)

/-- `J[q]`. -/
def getAt {α : Type} [Zero α] (J : Jac α) (q : Pos) : α :=
  match J.find? (fun pv => pv.1 == q) with
  | some pv => pv.2
  | none => 0

/-- `J[p] = x`. -/
def setAt {α : Type} (J : Jac α) (p : Pos) (x : α) : Jac α := (p, x) :: J

/-- The writes in order; a later write to the same position overwrites an earlier one. -/
def applyWrites {α : Type} (J : Jac α) (w : List (Pos × α)) : Jac α :=
  w.foldl (fun J pv => setAt J pv.1 pv.2) J

/-- coloring.py:Coloring._apply_subtractions. -/
def applySubs {α : Type} [Zero α] [Add α] [Sub α] (J : Jac α) (subs : List (Pos × List Pos)) :
    Jac α :=
  subs.foldl (fun J s => setAt J s.1 (getAt J s.1 - sumOver s.2 (getAt J))) J

/-- All writes of the colored solves: fwd colors first, then rev colors (`Coloring.modes()` is
`('fwd', 'rev')`). -/
def solveWrites {α : Type} (C : Coloring) (comp : Compressed α) : List (Pos × α) :=
  fwdWritesFrom C.fwdNz comp.fwd 0 C.fwd ++ revWritesFrom C.revNz comp.rev 0 C.rev

/-- The jacobian after the colored solves, before scaling and subtractions. -/
def rawJac {α : Type} (C : Coloring) (comp : Compressed α) : Jac α :=
  applyWrites [] (solveWrites C comp)

/-- The reconstructed jacobian. -/
def recover {α : Type} [Zero α] [Add α] [Sub α] (C : Coloring) (comp : Compressed α) : Jac α :=
  applySubs (rawJac C comp) C.subs

/-- `J[p] *= s p` for every entry (unit and driver scaling of the total jacobian). -/
def scaleJac {α : Type} [Mul α] (s : Pos → α) (J : Jac α) : Jac α := J.map fun pv => (pv.1, pv.2 * s pv.1)

/-- Reconstruction with the elementwise unit/driver scaling of the total jacobian.
`late = true`: scaling is applied to the raw jacobian and the subtractions run on the scaled values
(`_TotalJacInfo.compute_totals` at the pinned commit); `late = false`: subtractions first. -/
def recoverScaled {α : Type} [Zero α] [Add α] [Sub α] [Mul α] (late : Bool) (C : Coloring)
    (s : Pos → α) (comp : Compressed α) : Jac α :=
  if late then applySubs (scaleJac s (rawJac C comp)) C.subs
  else scaleJac s (recover C comp)

/-! ## The certificate checker -/

/-- Integer coefficient vectors over the entries of the pattern (dense, trailing zeros optional). -/
structure Lin where
  v : List Int

def vadd : List Int → List Int → List Int
  | [], b => b
  | a, [] => a
  | x :: a, y :: b => (x + y) :: vadd a b

def vsub : List Int → List Int → List Int
  | [], b => b.map fun y => -y
  | a, [] => a
  | x :: a, y :: b => (x - y) :: vsub a b

instance : Zero Lin := ⟨⟨[]⟩⟩
instance : Add Lin := ⟨fun a b => ⟨vadd a.v b.v⟩⟩
instance : Sub Lin := ⟨fun a b => ⟨vsub a.v b.v⟩⟩

/-- Equality of coefficient vectors up to trailing zeros. -/
def eqPad : List Int → List Int → Bool
  | [], b => b.all (· == 0)
  | a, [] => a.all (· == 0)
  | x :: a, y :: b => x == y && eqPad a b

/-- The generic matrix with pattern `nz`: entry `p` is the unit vector of `p` (zero outside). -/
def symM (nz : List Pos) (p : Pos) : Lin := ⟨nz.map fun q => if q = p then 1 else 0⟩

def nodupB : List Pos → Bool
  | [] => true
  | x :: xs => !xs.contains x && nodupB xs

/-- DESIGN.md E.3: run `recover ∘ compress` once on the generic matrix; accept iff at every entry of
the pattern and at every position that is ever written the final coefficient vector is that of the
generic matrix (the entry's own unit vector inside the pattern, zero outside). -/
def certify (P : Pattern) (C : Coloring) : Bool :=
  let J := recover C (compress C (symM P.nz))
  nodupB P.nz && (P.nz ++ C.writePositions).all (fun p => eqPad (getAt J p).v (symM P.nz p).v)

/-- Diagnostics for the harness: the positions at which the check of `certify` fails. -/
def certifyFailures (P : Pattern) (C : Coloring) : List Pos :=
  let J := recover C (compress C (symM P.nz))
  (P.nz ++ C.writePositions).filter (fun p => !eqPad (getAt J p).v (symM P.nz p).v)

/-! ## The unidirectional coloring algorithm -/

/-- Nonzero rows of column `c`, ascending (`col2rows[c]` of `_compute_coloring`). -/
def colRows (P : Pattern) (c : Nat) : List Nat := (List.range P.nrows).filter fun r => P.has r c

/-- coloring.py:_2col_adj_rows_cols, column `c` of the column adjacency matrix (sorted indices):
the columns that share a nonzero row with `c` (including `c` itself when it has a nonzero). -/
def colAdj (P : Pattern) (c : Nat) : List Nat :=
  (List.range P.ncols).filter fun c' => (colRows P c).any fun r => P.has r c'

/-- `ndarray.argmax()`: index of the first maximal element. -/
def argmaxFirst (d : List Int) : Nat :=
  (List.range d.length).foldl (fun b j => if d.getD b 0 < d.getD j 0 then j else b) 0

/-- `j` occurs in `col_adj_matrix.indices`. -/
def isMarked (adj : Nat → List Nat) (n j : Nat) : Bool := (List.range n).any fun c => (adj c).contains j

def markedCols (adj : Nat → List Nat) (n : Nat) : List Nat := (List.range n).filter (isMarked adj n)

/-- `colored_degrees = zeros(ncols); colored_degrees[col_adj_matrix.indices] = 1`. -/
def initDeg (adj : Nat → List Nat) (n : Nat) : List Int :=
  (List.range n).map fun j => if isMarked adj n j then 1 else 0

/-- One iteration of `_order_by_ID`: `col = argmax; degrees[adj col] += 1; degrees[col] = -ncols`. -/
def idStep (adj : Nat → List Nat) (n : Nat) (deg : List Int) : Nat × List Int :=
  let col := argmaxFirst deg
  let nb := adj col
  (col, (List.range n).map fun j =>
    if j = col then -(n : Int) else deg.getD j 0 + (if nb.contains j then 1 else 0))

def orderLoop (adj : Nat → List Nat) (n : Nat) : Nat → List Int → List Nat
  | 0, _ => []
  | k + 1, deg => (idStep adj n deg).1 :: orderLoop adj n k (idStep adj n deg).2

/-- coloring.py:_order_by_ID — the visiting order (the yielded neighbour array is `adj col`). -/
def orderByID (adj : Nat → List Nat) (n : Nat) : List Nat :=
  orderLoop adj n (markedCols adj n).length (initDeg adj n)

/-- The inner `for color, grp in enumerate(color_groups)` loop with its `else` branch:
first group none of whose members is a neighbour (`colors[j]` is the index of the group holding
`j`, so `color not in colors[nbrs]` says exactly that), else a new group. -/
def place (nbrs : List Nat) (icol : Nat) : List (List Nat) → List (List Nat)
  | [] => [[icol]]
  | g :: gs => if g.all (fun j => !nbrs.contains j) then (g ++ [icol]) :: gs
               else g :: place nbrs icol gs

/-- coloring.py:_get_full_disjoint_col_matrix_cols for a given visiting order. -/
def greedyColor (adj : Nat → List Nat) (order : List Nat) : List (List Nat) :=
  order.foldl (fun gs c => place (adj c) c gs) []

/-- The adjacency lists are computed once (the CSC matrix) ... -/
def adjList (P : Pattern) : List (List Nat) := (List.range P.ncols).map (colAdj P)

/-- ... and looked up by column (`col_adj_matrix.getcol(col).indices`). -/
def adjOf (A : List (List Nat)) : Nat → List Nat := fun c => A.getD c []

def fwdGroups (P : Pattern) : List (List Nat) :=
  let A := adjList P
  greedyColor (adjOf A) (orderByID (adjOf A) P.ncols)

/-- `_compute_coloring(J, 'fwd')`. -/
def colorFwd (P : Pattern) : Coloring :=
  { fwd := fwdGroups P, fwdNz := (List.range P.ncols).map (colRows P) }

/-- `_compute_coloring(J, 'rev')`: the fwd algorithm on `J.T`, stored in `_rev`. -/
def colorRev (P : Pattern) : Coloring :=
  { rev := fwdGroups P.transpose, revNz := (List.range P.nrows).map (colRows P.transpose) }

/-- The fallback logic of `_compute_coloring(J, 'auto')`: keep the bidirectional coloring only if it
needs strictly fewer solves than fwd; then switch to rev only if rev needs strictly fewer. -/
def chooseBest (bidir fwd rev : Coloring) : Coloring :=
  let c := if bidir.totalSolves ≥ fwd.totalSolves then fwd else bidir
  if c.totalSolves > rev.totalSolves then rev else c

/-- `_compute_coloring(J, 'auto')` given the output of `MNCO_bidir`. -/
def colorAuto (P : Pattern) (bidir : Coloring) : Coloring := chooseBest bidir (colorFwd P) (colorRev P)

end OMV.C03
