/-
C33 — `DefaultVector` (openmdao/vectors/default_vector.py) and the name/view layer of
`Vector` (openmdao/vectors/vector.py).

What is modelled, literally to the code:

* storage: a root vector owns one flat array `_data`; it is complex when `alloc_complex`, and
  `asarray()` is `_data` under complex step and `_data.real` otherwise.  A cell is therefore a pair
  `Cx K = (re, im)`; an operation either addresses `_data` itself (`raw`: `set_val`, `set_var`,
  `set_vals`) or `asarray()` (everything else), which without complex step touches `re` only.
* layout: `_initialize_data` walks `(name, shape)` in order and gives each variable the next
  `[start, end)`; a sub-system vector is the parent slice that starts at the parent's range of the
  sub-system's *first* variable and has the sub-system's total length (`subHandle`).
* in-place NumPy arithmetic `a[idx] op= v` as gather / compute / scatter (`updAt`), with NumPy's
  one-dimensional broadcasting (`bcast`), slice clipping and the index error of fancy indices.
* scaling arrays as `_set_scaling` fills them (nonlinear / linear, input / output / residual, with
  and without unit conversion, the linear root vector re-using — and re-writing — the nonlinear
  scaler array when there is no solver ref), and `scale_to_norm` / `scale_to_phys` in `fwd` / `rev`
  with the `_has_solver_ref` branch.

Core Lean only.
-/
namespace OMV.C33

/-! ### cells -/

/-- One entry of `_data`: real and imaginary part (the latter stays `0` without `alloc_complex`). -/
structure Cx (K : Type) where
  re : K
  im : K
deriving DecidableEq, Repr

section Cells
variable {K : Type} [Add K] [Sub K] [Mul K] [Div K] [OfNat K 0] [OfNat K 1]

instance : Inhabited (Cx K) := ⟨⟨0, 0⟩⟩

def Cx.ofReal (x : K) : Cx K := ⟨x, 0⟩
def Cx.add (a b : Cx K) : Cx K := ⟨a.re + b.re, a.im + b.im⟩
def Cx.sub (a b : Cx K) : Cx K := ⟨a.re - b.re, a.im - b.im⟩
def Cx.mul (a b : Cx K) : Cx K := ⟨a.re * b.re - a.im * b.im, a.re * b.im + a.im * b.re⟩
/-- complex array `/=` real array. -/
def Cx.divR (a : Cx K) (s : K) : Cx K := ⟨a.re / s, a.im / s⟩

/-- The four in-place operators used by the vector class. -/
inductive BinOp where
  | set | add | sub | mul
deriving DecidableEq, Repr

def BinOp.cx : BinOp → Cx K → Cx K → Cx K
  | .set, _, v => v
  | .add, a, v => a.add v
  | .sub, a, v => a.sub v
  | .mul, a, v => a.mul v

def BinOp.re : BinOp → K → K → K
  | .set, _, v => v
  | .add, a, v => a + v
  | .sub, a, v => a - v
  | .mul, a, v => a * v

/-- New content of one cell.  `raw`: the statement addresses `_data` (`self._data[idxs] = val`,
`vinfo.view[...] = value`); otherwise it addresses `asarray()`, i.e. `_data` when `cs`
(`_under_complex_step`) and the view `_data.real` when not — the imaginary part is then kept. -/
def cellUpd (raw cs : Bool) (f : BinOp) (old v : Cx K) : Cx K :=
  if raw || cs then f.cx old v else ⟨f.re old.re v.re, old.im⟩

/-- What reading through `asarray()` / `_abs_get_val` yields for a cell. -/
def readCell (cs : Bool) (z : Cx K) : Cx K := if cs then z else Cx.ofReal z.re

/-- `_scale_forward`: `data -= adder` (when there is an adder) then `data /= scaler`, on `asarray()`. -/
def scaleFwdCell (cs : Bool) (z : Cx K) (sa : K × Option K) : Cx K :=
  let z1 := match sa.2 with
    | none => z
    | some a => cellUpd false cs .sub z (Cx.ofReal a)
  if cs then z1.divR sa.1 else ⟨z1.re / sa.1, z1.im⟩

/-- `_scale_reverse`: `data *= scaler` then `data += adder` (when there is an adder). -/
def scaleRevCell (cs : Bool) (z : Cx K) (sa : K × Option K) : Cx K :=
  let z1 := cellUpd false cs .mul z (Cx.ofReal sa.1)
  match sa.2 with
  | none => z1
  | some a => cellUpd false cs .add z1 (Cx.ofReal a)

end Cells

/-! ### layout (`_initialize_data`) -/

structure Var where
  name : String
  shape : List Nat
deriving DecidableEq, Repr

/-- `shape_to_len`. -/
def shapeLen (s : List Nat) : Nat := s.foldr (· * ·) 1

def Var.size (v : Var) : Nat := shapeLen v.shape

structure View where
  name : String
  shape : List Nat
  start : Nat
  stop : Nat
deriving DecidableEq, Repr

/-- The loop `end += shape_to_len(shape); views[name] = _VecData(shape, (start, end)); start = end`. -/
def mkViewsFrom (start : Nat) : List Var → List View
  | [] => []
  | v :: vs => ⟨v.name, v.shape, start, start + v.size⟩ :: mkViewsFrom (start + v.size) vs

def mkViews (vars : List Var) : List View := mkViewsFrom 0 vars

def totalLen : List Var → Nat
  | [] => 0
  | v :: vs => v.size + totalLen vs

def lookup (views : List View) (name : String) : Option View :=
  views.find? (fun v => v.name == name)

/-- A vector object: which root array it lives in, which slice of it, its own (relative) views and
its `_has_solver_ref` flag. -/
structure Handle where
  vid : Nat
  off : Nat
  len : Nat
  views : List View
  solverRef : Bool
deriving Repr

def rootHandle (vid : Nat) (vars : List Var) (solverRef : Bool) : Handle :=
  { vid := vid, off := 0, len := totalLen vars, views := mkViews vars, solverRef := solverRef }

/-- `_initialize_data` with a parent vector: "just get our first name to get the starting index in
the parent vector"; without variables the vector owns a separate empty array. -/
def subHandle (parent : Handle) (vars : List Var) (solverRef : Bool) : Option Handle :=
  match vars with
  | [] => some { vid := parent.vid, off := 0, len := 0, views := [], solverRef := solverRef }
  | v :: _ =>
    (lookup parent.views v.name).map fun pv =>
      { vid := parent.vid, off := parent.off + pv.start, len := totalLen vars,
        views := mkViews vars, solverRef := solverRef }

/-- Absolute `[start, stop)` in the root array of a variable seen through a handle. -/
def Handle.absRange (h : Handle) (name : String) : Option (Nat × Nat) :=
  (lookup h.views name).map fun v => (h.off + v.start, h.off + v.stop)

/-- The vector-like object `vinfo.flat` of one variable: a handle without names. -/
def Handle.var (h : Handle) (name : String) : Option Handle :=
  (h.absRange name).map fun r =>
    { vid := h.vid, off := r.1, len := r.2 - r.1, views := [], solverRef := h.solverRef }

/-! ### NumPy one-dimensional indexing and in-place update -/

inductive Idx where
  | full
  | range (a b : Nat)
  | list (ps : List Nat)
deriving Repr

/-- Positions addressed in an array of length `n`: slices clip, fancy indices raise `IndexError`
(`none`). Only non-negative indices are modelled. -/
def Idx.positions (n : Nat) : Idx → Option (List Nat)
  | .full => some (List.range n)
  | .range a b => some ((List.range (min b n - min a n)).map (min a n + ·))
  | .list ps => if ps.all (· < n) then some ps else none

/-- Number of positions an index addresses (known before the bounds of a fancy index are checked). -/
def Idx.count (n : Nat) : Idx → Nat
  | .full => n
  | .range a b => min b n - min a n
  | .list ps => ps.length

/-- Broadcasting of a one-dimensional value (a scalar is a length-1 list) to `m` positions. -/
def bcast {α : Type} (vs : List α) (m : Nat) : Option (List α) :=
  if vs.length = m then some vs else
    match vs with
    | [x] => some (List.replicate m x)
    | _ => none

/-- Sequential assignment `d[p_k] = w_k` (a later duplicate wins). -/
def scatter {α : Type} (d : List α) : List Nat → List α → List α
  | p :: ps, w :: ws => scatter (d.set p w) ps ws
  | _, _ => d

/-- `a[off:][ps] op= vs`: the old cells are gathered, combined with the values, and written back. -/
def updAt {α β : Type} [Inhabited α] (d : List α) (off : Nat) (ps : List Nat) (vs : List β)
    (g : α → β → α) : List α :=
  let qs := ps.map (off + ·)
  scatter d qs (List.zipWith (fun q v => g (d.getD q default) v) qs vs)

def slice {α : Type} (d : List α) (off len : Nat) : List α := (d.drop off).take len

/-! ### scaling arrays (`_set_scaling`, `_allocate_scaling_data`) -/

section Scaling
variable {K : Type} [Add K] [Sub K] [Mul K] [Div K] [OfNat K 0] [OfNat K 1]

/-- `system._scale_factors[abs_name][kind] = (a0, a1, factor, offset)`; `a0`, `a1` elementwise
(scalars are length-1 lists), `unit = some (factor, offset)` when a unit conversion is attached. -/
structure Factor (K : Type) where
  name : String
  a0 : List K
  a1 : List K
  unit : Option (K × K)

/-- `scale0` of one element (`none` = Python `None`). -/
def scale0 (islinear isinput : Bool) (unit : Option (K × K)) (a0 : K) : Option K :=
  match unit with
  | some (factor, offset) => if islinear then none else some ((a0 + offset) * factor)
  | none => if islinear && isinput then none else some a0

/-- `scale1` of one element. -/
def scale1 (islinear isinput : Bool) (unit : Option (K × K)) (a1 : K) : K :=
  match unit with
  | some (factor, _) => if islinear then factor / a1 else a1 * factor
  | none => if islinear && isinput then 1 / a1 else a1

/-- `arr[start:stop] = vals` with broadcasting; an impossible broadcast leaves the array alone
(the real code would raise during setup; the harness never produces it). -/
def setRange {α : Type} (arr : List α) (start stop : Nat) (vals : List α) : List α :=
  match bcast vals (stop - start) with
  | some vs => scatter arr ((List.range (stop - start)).map (start + ·)) vs
  | none => arr

/-- The loop over `self._views` of `_set_scaling`, writing into `(scaler_array, adder_array)`. -/
def writeScaling (islinear isinput : Bool) (views : List View) (factors : List (Factor K))
    (sc : List K × Option (List K)) : List K × Option (List K) :=
  views.foldl (fun acc v =>
    match factors.find? (fun f => f.name == v.name) with
    | none => acc
    | some f =>
      let adder := match acc.2 with
        | none => none
        | some ad =>
          -- `adder_array[start:end] = scale0` is only reached with a nonlinear vector
          some (setRange ad v.start v.stop
            (f.a0.map fun a => (scale0 islinear isinput f.unit a).getD 0))
      (setRange acc.1 v.start v.stop (f.a1.map (scale1 islinear isinput f.unit)), adder)) sc

/-- Root scaling of the nonlinear and the linear vector of one kind, in the order of
`Group._get_root_vectors`: `nlvec._set_scaling(...)`, then `linear._set_scaling(..., nlvec)`.
Without solver ref the linear vector takes `nlvec._scaling[0]` itself as its scaler array, so its
writes land in the nonlinear vector's array as well (`shared`). Result: `(nl, linear)`. -/
def setupScaling (isinput hasOutputScaling doAdder : Bool) (n : Nat) (views : List View)
    (factors : List (Factor K)) :
    (List K × Option (List K)) × (List K × Option (List K)) :=
  let ones : List K := List.replicate n 1
  let nl := writeScaling false isinput views factors
    (ones, if doAdder then some (List.replicate n 0) else none)
  if hasOutputScaling && isinput then
    (nl, writeScaling true isinput views factors (ones, none))
  else
    let shared := writeScaling true isinput views factors (nl.1, none)
    ((shared.1, nl.2), shared)

end Scaling

/-! ### state and operations -/

structure RootVec (K : Type) where
  data : List (Cx K)
  allocComplex : Bool
  /-- `_scaling` (`none` when the system has no scaling of this kind). -/
  scaling : Option (List K × Option (List K))
  /-- `_nlvec._scaling[0]` of a linear vector (used when `_has_solver_ref`). -/
  nlScaler : List K

structure State (K : Type) where
  /-- complex-step mode as switched by `System._set_complex_step_mode` on every vector that was
  allocated complex. -/
  cs : Bool
  vecs : List (RootVec K)

inductive Src (K : Type) where
  /-- a scalar (length 1) or a one-dimensional array -/
  | vals (vs : List (Cx K))
  /-- `vec.asarray()` of another vector -/
  | vec (h : Handle)
  /-- `val * vec.asarray()` -/
  | scalVec (c : Cx K) (h : Handle)

inductive Op (K : Type) where
  /-- `set_val` (`raw`), `iadd`/`isub`/`imul`, `+=`/`-=`/`*=`, `set_vec`, `add_scal_vec`,
  `add_to_slice` -/
  | arith (t : Handle) (f : BinOp) (raw : Bool) (src : Src K) (idx : Idx)
  /-- `set_var` / `__setitem__` / `set_vals` (`raw`) and `_abs_set_val` (not `raw`) -/
  | named (t : Handle) (name : String) (f : BinOp) (raw : Bool) (vals : List (Cx K)) (idx : Idx)
  /-- `set_var(name, val, idxs)` with `flat=False` and an arbitrary (N-D, negative, stepped, fancy)
  index.  NumPy resolves the index on the variable's shape; the model receives the result:
  `sel` = flat (row-major) positions of the selected entries in selection order (`none`: NumPy
  rejects the index), `bvals` = the values NumPy's broadcasting assigns to them when the value is
  directly assignable (`none` otherwise), `vals` = the value's entries in C order.  What is
  modelled is `Vector.set_var`'s own logic: try `view[idxs] = value`; if that raises, reshape the
  value to the selection's shape (same number of entries) and assign *to the vector*; anything
  else is a `ValueError`. -/
  | setVarSel (t : Handle) (name : String) (sel : Option (List Nat))
      (bvals : Option (List (Cx K))) (vals : List (Cx K))
  /-- `vec[name] op= vals`: `__getitem__`, in-place operator on the returned view, `__setitem__` -/
  | namedIop (t : Handle) (name : String) (f : BinOp) (vals : List (Cx K))
  /-- `get_val(name)` / `__getitem__` (flattened) -/
  | get (t : Handle) (name : String)
  /-- `asarray()` -/
  | getAll (t : Handle)
  | dot (t s : Handle)
  /-- square of `get_norm()` -/
  | norm2 (t : Handle)
  /-- `scale_to_norm(mode)` (`toNorm`) / `scale_to_phys(mode)`, `rev` = `mode == 'rev'` -/
  | scale (t : Handle) (toNorm rev : Bool)
  | setCS (b : Bool)

inductive Out (K : Type) where
  | none
  | scalar (z : Cx K)
  | vals (l : List (Cx K))
  /-- `"shape"` (ValueError, broadcasting), `"index"` (IndexError), `"name"` (KeyError),
  `"noscaling"` (`_scaling is None`), `"novec"` -/
  | err (e : String)

section Step
variable {K : Type} [Add K] [Sub K] [Mul K] [Div K] [OfNat K 0] [OfNat K 1]

def State.underCS (st : State K) (v : RootVec K) : Bool := st.cs && v.allocComplex

def State.setData (st : State K) (vid : Nat) (d : List (Cx K)) : State K :=
  match st.vecs[vid]? with
  | some v => { st with vecs := st.vecs.set vid { v with data := d } }
  | none => st

/-- `vec.asarray()` of a handle. -/
def State.read (st : State K) (h : Handle) : Option (List (Cx K)) :=
  (st.vecs[h.vid]?).map fun v => (slice v.data h.off h.len).map (readCell (st.underCS v))

def Src.eval (st : State K) : Src K → Option (List (Cx K))
  | .vals vs => some vs
  | .vec h => st.read h
  | .scalVec c h => (st.read h).map fun l => l.map (fun z => c.mul z)

def dotList (a b : List (Cx K)) : Cx K :=
  (List.zipWith Cx.mul a b).foldr Cx.add ⟨0, 0⟩

/-- `np.linalg.norm` squared: sum of `re² + im²` over what `asarray()` shows. -/
def norm2List (a : List (Cx K)) : K :=
  (a.map fun z => z.re * z.re + z.im * z.im).foldr (· + ·) 0

/-- The `(scaler, adder)` pairs a scale call uses on the handle's slice; `useNl`: the
`_has_solver_ref` branch `(self._nlvec._scaling[0], None)`. -/
def scalePairs (v : RootVec K) (t : Handle) (useNl : Bool) : Option (List (K × Option K)) :=
  if useNl then
    some ((slice v.nlScaler t.off t.len).map fun s => (s, none))
  else
    match v.scaling with
    | none => none
    | some (sc, none) => some ((slice sc t.off t.len).map fun s => (s, none))
    | some (sc, some ad) =>
      some (List.zipWith (fun s a => (s, some a)) (slice sc t.off t.len) (slice ad t.off t.len))

/-- `scale_to_norm` / `scale_to_phys`: which cell map (`forward` = `_scale_forward`) with which
arrays. -/
def scalePlan (toNorm rev solverRef : Bool) : Bool × Bool :=
  -- (forward?, use nlvec scaler?)
  if toNorm then
    if rev then (false, false) else (true, solverRef)
  else
    if rev then (true, false) else (false, solverRef)

def arithStep (st : State K) (t : Handle) (f : BinOp) (raw : Bool) (src : Src K) (idx : Idx) :
    State K × Out K :=
  match st.vecs[t.vid]?, src.eval st with
  | some v, some vs0 =>
    match idx.positions t.len with
    | none =>
      -- NumPy: a plain assignment checks the value's shape against the index first, an in-place
      -- operator first gathers (and so meets the out-of-bounds index first)
      (st, .err (if f == .set && (bcast vs0 (idx.count t.len)).isNone then "shape" else "index"))
    | some ps =>
      match bcast vs0 ps.length with
      | none => (st, .err "shape")
      | some vs => (st.setData t.vid (updAt v.data t.off ps vs
          (fun old x => cellUpd raw (st.underCS v) f old x)), .none)
  | _, _ => (st, .err "novec")

def step (st : State K) : Op K → State K × Out K
  | .arith t f raw src idx => arithStep st t f raw src idx
  | .named t name f raw vals idx =>
    match t.var name with
    | none => (st, .err "name")
    | some h => arithStep st h f raw (.vals vals) idx
  | .setVarSel t name sel bvals vals =>
    match t.var name with
    | none => (st, .err "name")
    | some h =>
      match sel with
      | none => (st, .err "shape")
      | some ps =>
        match bvals with
        | some b => arithStep st h .set true (.vals b) (.list ps)
        | none =>
          if vals.length = ps.length then arithStep st h .set true (.vals vals) (.list ps)
          else (st, .err "shape")
  | .namedIop t name f vals =>
    match t.var name with
    | none => (st, .err "name")
    | some h =>
      match arithStep st h f false (.vals vals) .full with
      | (st1, .none) =>
        match st1.read h with
        | some cur => arithStep st1 h .set true (.vals cur) .full
        | none => (st, .err "novec")
      | (_, o) => (st, o)
  | .get t name =>
    match t.var name with
    | none => (st, .err "name")
    | some h =>
      match st.read h with
      | some l => (st, .vals l)
      | none => (st, .err "novec")
  | .getAll t =>
    match st.read t with
    | some l => (st, .vals l)
    | none => (st, .err "novec")
  | .dot t s =>
    match st.read t, st.read s with
    | some a, some b => if a.length = b.length then (st, .scalar (dotList a b)) else (st, .err "shape")
    | _, _ => (st, .err "novec")
  | .norm2 t =>
    match st.read t with
    | some a => (st, .scalar ⟨norm2List a, 0⟩)
    | none => (st, .err "novec")
  | .scale t toNorm rev =>
    match st.vecs[t.vid]? with
    | none => (st, .err "novec")
    | some v =>
      let plan := scalePlan toNorm rev t.solverRef
      match scalePairs v t plan.2 with
      | none => (st, .err "noscaling")
      | some sa =>
        let cs := st.underCS v
        (st.setData t.vid (updAt v.data t.off (List.range t.len) sa
          (if plan.1 then scaleFwdCell cs else scaleRevCell cs)), .none)
  | .setCS b => ({ st with cs := b }, .none)

/-! Vocabulary used by the property statements (not executed by the driver). -/

/-- The root vector an operation may write to. -/
def Op.target : Op K → Option Nat
  | .arith t _ _ _ _ => some t.vid
  | .named t _ _ _ _ _ => some t.vid
  | .namedIop t _ _ _ => some t.vid
  | .setVarSel t _ _ _ _ => some t.vid
  | .scale t _ _ => some t.vid
  | _ => none

/-- Everything about a root vector except the values of its cells. -/
def RootVec.shape (v : RootVec K) : Nat × Bool × Option (List K × Option (List K)) × List K :=
  (v.data.length, v.allocComplex, v.scaling, v.nlScaler)

/-- The flat data of root vector `vid` (empty when there is no such vector). -/
def State.dataOf (st : State K) (vid : Nat) : List (Cx K) :=
  match st.vecs[vid]? with
  | some v => v.data
  | none => []

/-- A whole history. -/
def run (st : State K) : List (Op K) → State K
  | [] => st
  | o :: os => run (step st o).1 os

end Step

end OMV.C33
