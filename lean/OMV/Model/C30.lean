/-
C30 — complex-step-safe helpers (`openmdao/utils/cs_safe.py`: `abs`, `norm`, `arctan2`) and the jax
smooth helpers (`openmdao/jax_funcs/smooth.py`: `act_tanh`, `smooth_max`, `smooth_min`,
`smooth_abs`, `smooth_round`).

A complex-step input `a + i·h·b` is modelled to first order in the step `h > 0` by the dual number
`a + ε·b` (`ε² = 0`): `re` is the real part, `du` is the imaginary part divided by `h`.  The same
structure carries a jax tangent (`jax.jvp`) for the smooth helpers.  Terms of second order in `h` are
not modelled, with one exception that the code itself relies on: at the zero vector `norm` computes
`sqrt(-h²·Σb²) = i·h·sqrt(Σb²)` (see `csNorm`).

The real-valued primitives `sqrt`, `arctan2`, `tanh`, `floor` are parameters of the model (the
theorems state what they need of them; the driver supplies the IEEE double functions, every finite
double being a rational).  Everything else is the literal arithmetic of the code, in its order.
Core Lean only.
-/
namespace OMV.C30

/-- `re + ε·du`, i.e. the complex number `re + i·h·du` to first order in `h`. -/
structure Dual (K : Type) where
  re : K
  du : K
  deriving DecidableEq, Repr

section arith
variable {K : Type} [Add K] [Sub K] [Mul K] [Div K] [Neg K] [OfNat K 0] [OfNat K 1]

/-- A real number seen as a complex one (`s + 0j`). -/
def Dual.const (a : K) : Dual K := ⟨a, 0⟩

instance : Add (Dual K) := ⟨fun x y => ⟨x.re + y.re, x.du + y.du⟩⟩
instance : Sub (Dual K) := ⟨fun x y => ⟨x.re - y.re, x.du - y.du⟩⟩
instance : Neg (Dual K) := ⟨fun x => ⟨-x.re, -x.du⟩⟩
/-- `(a + εb)(c + εd) = ac + ε(ad + bc)`. -/
instance : Mul (Dual K) := ⟨fun x y => ⟨x.re * y.re, x.re * y.du + x.du * y.re⟩⟩

/-- Division by a real parameter (`mu`). -/
def Dual.divK (x : Dual K) (k : K) : Dual K := ⟨x.re / k, x.du / k⟩

/-- `0.5`. -/
def half : K := 1 / (1 + 1)

/-- `np.sum` of a flat array. -/
def sumD (zs : List (Dual K)) : Dual K := zs.foldl (· + ·) (Dual.const 0)

def sumK (xs : List K) : K := xs.foldl (· + ·) 0

end arith

section ordered
variable {K : Type} [Add K] [Sub K] [Mul K] [Div K] [Neg K] [OfNat K 0] [OfNat K 1]
  [LT K] [DecidableLT K] [DecidableEq K]

/-- `np.sign` of a real number. -/
def sgn (a : K) : K := if a < 0 then -1 else if 0 < a then 1 else 0

/-! ## `cs_safe.abs` -/

/-- Non-ndarray branch: `if x.real < 0.0: return -x` / `return x`. -/
def absScalar (z : Dual K) : Dual K := if z.re < 0 then -z else z

/-- `x * np.sign(x)` for an array without imaginary parts (real dtype, or complex dtype whose
imaginary parts are all zero, where NumPy-2 `sign(x) = x/|x| = sign(x.real) + 0j`). -/
def absElemReal (z : Dual K) : Dual K := z * Dual.const (sgn z.re)

/-- The NumPy-1.x sign rule that the NumPy-2 branch replicates:
`sign(x.real) + 0j if x.real != 0 else sign(x.imag) + 0j`, then `x * signs`.
(`sign(x.imag) = sign(h·du) = sign(du)` for a positive step.) -/
def sign1x (z : Dual K) : K := if z.re ≠ 0 then sgn z.re else sgn z.du

def absElemCs (z : Dual K) : Dual K := z * Dual.const (sign1x z)

/-- Boolean-mask read `xs[mask]`. -/
def select {α : Type} : List Bool → List α → List α
  | true :: m, x :: xs => x :: select m xs
  | false :: m, _ :: xs => select m xs
  | _, _ => []

/-- Boolean-mask write `dst[mask] = src` (`src` has one entry per `True`). -/
def maskSet {α : Type} : List Bool → List α → List α → List α
  | true :: m, _ :: ds, s :: ss => s :: maskSet m ds ss
  | false :: m, d :: ds, ss => d :: maskSet m ds ss
  | _, ds, _ => ds

/-- The NumPy-2 branch of `cs_safe.abs` as written, on the flattened array:
```
z0_idx = x.real == 0 ; nz_idx = x.real != 0
signs = np.zeros(x.shape, dtype=complex)
signs[nz_idx] = np.sign(x[nz_idx]).real + 0j
signs[z0_idx] = np.sign(x[z0_idx].imag) + 0j
return x * signs
```
`np.sign(z).real` of a complex `z = a + i·h·b` with `a ≠ 0` is `a/|z| = sign(a)` to first order. -/
def absArrayMasked (xs : List (Dual K)) : List (Dual K) :=
  let z0 := xs.map (fun z => decide (z.re = 0))
  let nz := xs.map (fun z => decide (z.re ≠ 0))
  let signs0 : List K := xs.map (fun _ => 0)
  let signs1 := maskSet nz signs0 ((select nz xs).map (fun z => sgn z.re))
  let signs2 := maskSet z0 signs1 ((select z0 xs).map (fun z => sgn z.du))
  List.zipWith (fun z s => z * Dual.const s) xs signs2

/-- ndarray branch of `cs_safe.abs` (NumPy 2): the masked path iff some element has a non-zero
imaginary part (`np.any(np.iscomplex(x))`), else `x * np.sign(x)`. -/
def absArray (xs : List (Dual K)) : List (Dual K) :=
  if xs.any (fun z => decide (z.du ≠ 0)) then absArrayMasked xs else xs.map absElemReal

/-! ## `cs_safe.norm` : `np.sqrt(np.sum(x**2, axis=axis))` -/

/-- `np.sum(x**2)` of a flat array. -/
def sumSq (zs : List (Dual K)) : Dual K := sumD (zs.map (fun z => z * z))

/-- Complex `sqrt` to first order at a point with non-zero real part. -/
def dsqrt (sqrt : K → K) (s : Dual K) : Dual K :=
  ⟨sqrt s.re, s.du / ((1 + 1) * sqrt s.re)⟩

/-- `norm` of a flat array.  When `Σ re² = 0` (every real part is zero) the first-order part of
`Σ x²` vanishes too and the code takes the principal square root of the *second-order* term
`-h²·Σ du²`, which is `+i·h·sqrt(Σ du²)`; this is the only place where a second-order term is kept. -/
def csNorm (sqrt : K → K) (zs : List (Dual K)) : Dual K :=
  let s := sumSq zs
  if s.re = 0 then ⟨0, sqrt (sumK (zs.map (fun z => z.du * z.du)))⟩ else dsqrt sqrt s

/-- Columns of a rectangular list of rows. -/
def columns {α : Type} (rows : List (List α)) : List (List α) :=
  match rows with
  | [] => []
  | r :: _ => (List.range r.length).map (fun j => rows.filterMap (fun row => row[j]?))

/-- `axis` normalisation of `np.sum` for an array of dimension `ndim` (0-d arrays accept `0` and
`-1`); `none` = `AxisError`. -/
def normAxis (ndim : Nat) (axis : Int) : Option Nat :=
  if ndim = 0 then (if axis = 0 ∨ axis = -1 then some 0 else none)
  else if 0 ≤ axis ∧ axis < ndim then some axis.toNat
  else if axis < 0 ∧ -(ndim : Int) ≤ axis then some (axis + ndim).toNat
  else none

/-- `norm(x, axis)` for a 0-d (`rows = [[z]]`, `ndim = 0`), 1-D (`rows = [xs]`, `ndim = 1`) or 2-D
array given by its rows; `none` = `AxisError`. -/
def csNormAxis (sqrt : K → K) (ndim : Nat) (rows : List (List (Dual K))) (axis : Option Int) :
    Option (List (Dual K)) :=
  match axis with
  | none => some [csNorm sqrt rows.flatten]
  | some ax =>
    match normAxis ndim ax with
    | none => none
    | some k =>
      if ndim ≤ 1 then some [csNorm sqrt rows.flatten]
      else if k = 0 then some ((columns rows).map (csNorm sqrt))
      else some (rows.map (csNorm sqrt))

/-! ## `cs_safe.arctan2` -/

/-- `isComplex` is `np.iscomplexobj(x) or np.iscomplexobj(y)` (a dtype test, not a value test).
At the origin the complex branch divides by `a**2 + c**2 = 0` (`nan` for arrays,
`ZeroDivisionError` for scalars): `none`. -/
def csArctan2 (atan2 : K → K → K) (isComplex : Bool) (y x : Dual K) : Option (Dual K) :=
  if isComplex then
    let a := y.re
    let b := y.du
    let c := x.re
    let d := x.du
    let den := a * a + c * c
    if den = 0 then none else some ⟨atan2 a c, (c * b - a * d) / den⟩
  else some ⟨atan2 y.re x.re, 0⟩

end ordered

/-! ## jax smooth helpers -/

section smooth
variable {K : Type} [Add K] [Sub K] [Mul K] [Div K] [Neg K] [OfNat K 0] [OfNat K 1]

/-- `tanh` with its derivative `1 - tanh²`. -/
def dtanh (th : K → K) (z : Dual K) : Dual K := ⟨th z.re, (1 - th z.re * th z.re) * z.du⟩

/-- `act_tanh(x, mu, z, a, b)`: `dy = b - a; 0.5 * dy * (1. + tanh((x - z) / mu)) + a`. -/
def actTanh (th : K → K) (x : Dual K) (mu : K) (z a b : Dual K) : Dual K :=
  let dy := b - a
  let tanhTerm := dtanh th ((x - z).divK mu)
  Dual.const half * dy * (Dual.const 1 + tanhTerm) + a

/-- `smooth_max(x, y, mu)`. -/
def smoothMax (th : K → K) (x y : Dual K) (mu : K) : Dual K :=
  let xGreater := actTanh th x mu y (Dual.const 0) (Dual.const 1)
  let yGreater := Dual.const 1 - xGreater
  xGreater * x + yGreater * y

/-- `smooth_min(x, y, mu)`. -/
def smoothMin (th : K → K) (x y : Dual K) (mu : K) : Dual K :=
  let xGreater := actTanh th x mu y (Dual.const 0) (Dual.const 1)
  let yGreater := Dual.const 1 - xGreater
  xGreater * y + yGreater * x

/-- `smooth_abs(x, mu)`: `x * act_tanh(x, mu, 0.0, -1.0, 1.0)`. -/
def smoothAbs (th : K → K) (x : Dual K) (mu : K) : Dual K :=
  x * actTanh th x mu (Dual.const 0) (Dual.const (-1)) (Dual.const 1)

/-- `smooth_round(x, mu)`: `floor_x + 0.5 * (1 + tanh((x - floor_x - 0.5) / mu))`; `jnp.floor` has a
zero tangent. -/
def smoothRound (th fl : K → K) (x : Dual K) (mu : K) : Dual K :=
  let floorX := Dual.const (fl x.re)
  floorX + Dual.const half * (Dual.const 1 + dtanh th ((x - floorX - Dual.const half).divK mu))

end smooth

end OMV.C30
