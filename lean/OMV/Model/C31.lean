/-
C31 — the user-level API as a state machine over the model state (inputs, outputs, residuals).
`runModel` is a function of the state (a run-once pass of OMV.Spec.sweep for the modelled class);
derivative queries and listings return a result and the *same* state.  Core Lean only.
-/
import OMV.Model.Spec

namespace OMV.C31

open OMV.Spec

variable {K : Type}

inductive Call (R : Type) where
  | runModel : Call R
  | query : ((Nat → K) → R) → Call R      -- compute_totals, check_partials, list_outputs, ...

/-- one API call: new state and optional result -/
def stepApi [Add K] [Mul K] [OfNat K 0] {R : Type} (cs : List (Comp K)) (u : Nat → K) :
    @Call K R → (Nat → K) × Option R
  | .runModel => (sweep u cs, none)
  | .query q => (u, some (q u))

def runCalls [Add K] [Mul K] [OfNat K 0] {R : Type} (cs : List (Comp K)) (u : Nat → K)
    (calls : List (@Call K R)) : Nat → K :=
  calls.foldl (fun s c => (stepApi cs s c).1) u

end OMV.C31
