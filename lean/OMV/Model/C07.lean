/-
C07 — the store behind Problem.set_val / get_val (core/conn_graph.py: set_val, set_subarray,
convert_set, get_val, get_subarray, convert_get).

A variable's value is a flat array `Nat → K`.  `set` converts the user's values to the units of
the array and writes them at the flat positions selected by (src_indices chain ∘ indices);
`get` reads those positions and converts back.  The same array lives in graph metadata before
final_setup and in the root vector (at an offset) afterwards.  Core Lean only.
-/
import OMV.Model.Spec

namespace OMV.C07

open OMV.Spec

variable {K : Type}

/-- sequential writes `arr[pos k] := vals k` (NumPy fancy assignment: the last write wins) -/
def setAt (arr : Nat → K) : List Nat → List K → Nat → K
  | p :: ps, v :: vs => setAt (fun i => if i = p then v else arr i) ps vs
  | _, _ => arr

def getAt (arr : Nat → K) (pos : List Nat) : List K := pos.map arr

/-- unit conversion used when storing (user units → array units) and its inverse when reading -/
def toStore [Add K] [Mul K] (fac off : K) (v : K) : K := convert fac off v
def fromStore [Sub K] [Div K] (fac off : K) (s : K) : K := s / fac - off

/-- the array embedded in a larger vector at offset `o` -/
def embed (o : Nat) (big : Nat → K) : Nat → K := fun i => big (o + i)

end OMV.C07
