/-
C13 — what `check_partials` / `check_totals` report.

Two mechanisms are modelled, both over an arbitrary ordered carrier `K` (the driver runs them at
`Rat`, the theorems in `OMV/Props/C13.lean` are over any linearly ordered field):

1. The sparsity audit of `_CheckingJacobian.set_col` (jacobians/dictionary_jacobian.py) and of the
   `set_col` / `_set_coo_col` methods of the sub-jacobian classes (jacobians/subjac.py): a fold over
   the approximated columns with the state `info['uncovered_nz']`, `info['uncovered_threshold']`,
   and the stored values from which `J_fd` is read back (`todense`).

2. The error kernel: `get_tol_violation` (utils/array_utils.py), `_MagnitudeData.update` and
   `_compute_deriv_errors` (core/system.py).

The code is modelled *as it is*: where the `uncovered_nz.extend(...)` statement sits differs between
the sub-jacobian classes, so its placement is a parameter (`Placement`), as is whether the class
records `uncovered_threshold` (`DiagonalSubjac` does not).  `Variant.fixed` is the repaired code.
Two more facts of the shipped code, both consequences of the shallow copy in
`_CheckingJacobian._setup`, are parameters of the multi-step glue: the two keys persist from one fd
step to the next (`auditStepsPersist`, versus a private `info` per step: `combineReports`), and the
`J_fd` arrays of a declared dense partial alias one buffer (`reportedSteps`).  The harness reads the
placement out of the source and probes the other two on every run.
Core Lean only.
-/
namespace OMV.C13

/-! ## carrier helpers -/

section Carrier
variable {K : Type} [LT K] [DecidableLT K] [Neg K] [OfNat K 0]

/-- `np.abs` on a real scalar. -/
def absK (x : K) : K := if x < 0 then -x else x

end Carrier

/-! ## 1. sparsity audit -/

/-- Where `self.info['uncovered_nz'].extend(...)` sits inside
`if nzs.size > 0: / if 'uncovered_nz' not in self.info:`.

* `always`     — after the inner `if` (DiagonalSubjac.set_col; the repaired code),
* `insideInit` — inside the inner `if` (COOSubjac._set_coo_col, CSCSubjac.set_col as shipped),
* `never`      — statement absent (CSRSubjac.set_col as shipped). -/
inductive Placement where
  | always | insideInit | never
  deriving DecidableEq, Repr

/-- The declared sparsity pattern of one sub-jacobian, by storage class
(`Subjac.get_subjac_class`): `coo` covers both scipy COO values (`COOSubjac`) and
`rows=/cols=` declarations (`OMCOOSubjac`, which calls the same `_set_coo_col`). -/
inductive Pattern where
  | dense
  | coo (rows cols : List Nat)
  | csc (indptr indices : List Nat)
  | csr (indptr indices : List Nat)
  | diag
  deriving Repr

/-- `indices[indptr[j] : indptr[j+1]]`. -/
def slice (indptr indices : List Nat) (j : Nat) : List Nat :=
  (indices.drop (indptr.getD j 0)).take (indptr.getD (j + 1) 0 - indptr.getD j 0)

/-- Is `(r, c)` a declared position of the pattern?  (The specification side: what the user
declared.  For the compressed formats this is the definition of the format.) -/
def Pattern.mem (p : Pattern) (r c : Nat) : Bool :=
  match p with
  | .dense => true
  | .coo rows cols => (rows.zip cols).contains (r, c)
  | .csc ip ix => (slice ip ix c).contains r
  | .csr ip ix => (slice ip ix r).contains c
  | .diag => r == c

/-- `DenseSubjac.set_col` ignores `uncovered_threshold`; every other class audits. -/
def Pattern.audits : Pattern → Bool
  | .dense => false
  | _ => true

/-- The row indices the class treats as covered when column `icol` is set — the array that is
zeroed before `np.where(np.abs(arr) > uncovered_threshold)`:

* `_set_coo_col`:  `row[col == icol]`
* `CSCSubjac`:     `csc.indices[csc.indptr[icol]:csc.indptr[icol + 1]]`
* `CSRSubjac`:     the same after `self.info['val'].tocsc()`, i.e. the rows (ascending) whose CSR
                   row slice contains `icol` (scipy conversion contract)
* `DiagonalSubjac`: `column[icol] = 0.` -/
def coveredRows (p : Pattern) (nrows icol : Nat) : List Nat :=
  match p with
  | .dense => List.range nrows
  | .coo rows cols => (rows.zip cols).filterMap (fun rc => if rc.2 == icol then some rc.1 else none)
  | .csc ip ix => slice ip ix icol
  | .csr ip ix => (List.range nrows).filter (fun r => (slice ip ix r).contains icol)
  | .diag => [icol]

/-- The two `info` keys the audit writes (`none` = key absent). -/
structure Info (K : Type) where
  uncovered : Option (List (Nat × Nat))
  threshold : Option K
  deriving Repr

def Info.empty {K : Type} : Info K := ⟨none, none⟩

section Audit
variable {K : Type} [LT K] [DecidableLT K] [Neg K] [OfNat K 0]

/-- `nzs = np.where(np.abs(arr) > uncovered_threshold)[0]` where `arr` is the column with the
covered rows zeroed. -/
def offending (thr : K) (nrows : Nat) (covered : List Nat) (column : Nat → K) : List Nat :=
  (List.range nrows).filter
    (fun r => decide (thr < absK (if covered.contains r then (0 : K) else column r)))

/-- The block under `if uncovered_threshold is not None:` of `*Subjac.set_col`. -/
def auditCol (pl : Placement) (recThr : Bool) (thr : K) (nrows : Nat) (covered : List Nat)
    (icol : Nat) (column : Nat → K) (info : Info K) : Info K :=
  let nzs := offending thr nrows covered column
  if nzs.isEmpty then info
  else
    let new := nzs.map (fun r => (r, icol))       -- zip(nzs, icol * ones_like(nzs))
    match info.uncovered with
    | none =>
      -- `self.info['uncovered_nz'] = []` (+ `self.info['uncovered_threshold'] = ...`)
      let t := if recThr then some thr else info.threshold
      match pl with
      | .never => ⟨some [], t⟩
      | _ => ⟨some new, t⟩
    | some l =>
      match pl with
      | .always => ⟨some (l ++ new), info.threshold⟩
      | _ => info

/-- `_CheckingJacobian.set_col` restricted to one sub-jacobian: all three branches call
`subjac.set_col(loc_idx, column[start:end], self._uncovered_threshold)`. -/
def setColAudit (pl : Placement) (recThr : Bool) (thr : K) (p : Pattern) (nrows : Nat)
    (icol : Nat) (column : Nat → K) (info : Info K) : Info K :=
  if p.audits then auditCol pl recThr thr nrows (coveredRows p nrows icol) icol column info
  else info

/-- One checking jacobian: the approximation scheme delivers columns `0 … ncols-1` of the
approximated Jacobian `A` (row, column); `info0` is the state of the two keys beforehand. -/
def auditFrom (info0 : Info K) (pl : Placement) (recThr : Bool) (thr : K) (p : Pattern)
    (nrows ncols : Nat) (A : Nat → Nat → K) : Info K :=
  (List.range ncols).foldl
    (fun info c => setColAudit pl recThr thr p nrows c (fun r => A r c) info) info0

/-- The audit state after all columns of one approximation, starting without the keys. -/
def auditAll (pl : Placement) (recThr : Bool) (thr : K) (p : Pattern) (nrows ncols : Nat)
    (A : Nat → Nat → K) : Info K :=
  auditFrom Info.empty pl recThr thr p nrows ncols A

/-- Several fd steps as shipped: every step builds a new `_CheckingJacobian`, but
`_CheckingJacobian._setup` copies `_subjacs_info` shallowly, so the `info` dicts (and with them the
two keys) are the component's own and persist from step to step. -/
def auditStepsPersist (pl : Placement) (recThr : Bool) (thr : K) (p : Pattern)
    (nrows ncols : Nat) (As : List (Nat → Nat → K)) : Info K :=
  As.foldl (fun info A => auditFrom info pl recThr thr p nrows ncols A) Info.empty

end Audit

/-- What `Component.check_partials` copies into the returned dict:
```
if 'uncovered_nz' in subjacs_info:
    deriv['uncovered_nz'] = subjacs_info['uncovered_nz']
    deriv['uncovered_threshold'] = subjacs_info['uncovered_threshold']   # KeyError if absent
``` -/
inductive Report (K : Type) where
  | clean                                         -- no 'uncovered_nz' key in the result
  | flagged (nz : List (Nat × Nat)) (thr : K)
  | keyError                                      -- check_partials raises KeyError
  deriving Repr, DecidableEq

def report {K : Type} (info : Info K) : Report K :=
  match info.uncovered, info.threshold with
  | none, _ => .clean
  | some l, some t => .flagged l t
  | some _, none => .keyError

/-- Several fd steps with a private `info` per checking jacobian (the repaired behaviour):
`check_partials` copies the two keys whenever the step's jacobian has them (a `KeyError`
propagates at once), so the last step that has something to flag wins. -/
def combineReports {K : Type} (rs : List (Report K)) : Report K :=
  rs.foldl (fun acc r =>
    match acc, r with
    | .keyError, _ => .keyError
    | acc, .clean => acc
    | _, r => r) .clean

/-- Shipped code vs. repaired code. -/
inductive Variant where
  | shipped | fixed
  deriving DecidableEq, Repr

def Pattern.placement (v : Variant) : Pattern → Placement
  | .dense => .always
  | .coo _ _ => match v with | .shipped => .insideInit | .fixed => .always
  | .csc _ _ => match v with | .shipped => .insideInit | .fixed => .always
  | .csr _ _ => match v with | .shipped => .never | .fixed => .always
  | .diag => .always

def Pattern.recordsThreshold (v : Variant) : Pattern → Bool
  | .diag => match v with | .shipped => false | .fixed => true
  | _ => true

/-! ### stored values (`J_fd` is `subjac.todense()` of the checking jacobian)

Every class keeps one stored value per declared position.  `positions` is the COO view of the
storage (for CSC / CSR by definition of the format; for `dense` every entry).  `set_col` overwrites
the slots whose column is `icol` with `column[row]`:

* dense `val[:, icol] = column`,  COO `data[col == icol] = column[row[col == icol]]`,
* CSC `data[indptr[icol]:indptr[icol+1]] = column[indices[...]]`, CSR the same through `tocsc`,
* diagonal `val[icol] = column[icol]`. -/

def Pattern.positions (p : Pattern) (nrows ncols : Nat) : List (Nat × Nat) :=
  match p with
  | .dense => (List.range nrows).flatMap (fun r => (List.range ncols).map (fun c => (r, c)))
  | .coo rows cols => rows.zip cols
  | .csc ip ix => (List.range ncols).flatMap (fun c => (slice ip ix c).map (fun r => (r, c)))
  | .csr ip ix => (List.range nrows).flatMap (fun r => (slice ip ix r).map (fun c => (r, c)))
  | .diag => (List.range nrows).map (fun i => (i, i))

section Store
variable {K : Type} [OfNat K 0]

abbrev Store (K : Type) := List ((Nat × Nat) × K)

/-- The checking jacobian starts from the declared values (`init`, one per slot). -/
def initStore (pos : List (Nat × Nat)) (init : List K) : Store K :=
  pos.zipIdx.map (fun pk => (pk.1, init.getD pk.2 0))

def setColStore (icol : Nat) (column : Nat → K) (s : Store K) : Store K :=
  s.map (fun e => (e.1, if e.1.2 == icol then column e.1.1 else e.2))

def storeAll (s : Store K) (ncols : Nat) (A : Nat → Nat → K) : Store K :=
  (List.range ncols).foldl (fun s c => setColStore c (fun r => A r c) s) s

/-- `todense()[r, c]` (no duplicate positions: `declare_partials` rejects them). -/
def todense (s : Store K) (r c : Nat) : K :=
  match s.find? (fun e => e.1.1 == r && e.1.2 == c) with
  | some e => e.2
  | none => 0

end Store

/-- Several fd steps, dense storage.  `DenseSubjac.todense` returns the live array
`info['val']`, and `_CheckingJacobian._setup` copies `_subjacs_info` only shallowly, so the
checking jacobians of all steps write into one array (the component's own): when the errors are
computed, after the last step, every `J_fd[i]` of a declared dense partial is the last step's
matrix.  `aliased = false` is the behaviour with a private copy per step (and what the sparse
classes and undeclared pairs do, whose `todense` / fresh `val` build new arrays). -/
def reportedSteps {α : Type} (aliased : Bool) (stored : List α) : List α :=
  if aliased then
    match stored.getLast? with
    | some l => stored.map (fun _ => l)
    | none => []
  else stored

/-! ## 2. error kernel -/

section Kernel
variable {K : Type} [LT K] [DecidableLT K] [DecidableEq K] [Neg K] [OfNat K 0]
  [Sub K] [Add K] [Mul K] [Div K]

/-- `np.argmax`: index of the first maximal element (0 for the empty list). -/
def argmax : List K → Nat
  | [] => 0
  | [_] => 0
  | v :: w :: ws =>
    let j := argmax (w :: ws)
    if v < (w :: ws).getD j 0 then j + 1 else 0

/-- The 5-tuple returned by `get_tol_violation`; `relAtMax = none` stands for `np.inf`. -/
structure TolViolation (K : Type) where
  maxViol : K
  xAtMax : K
  refAtMax : K
  above : Bool
  absAtMax : K
  relAtMax : Option K
  deriving Repr

/-- `abs_error = np.abs(x - ref)` (flattened, C order). -/
def absErrs (x ref : List K) : List K := List.zipWith (fun a b => absK (a - b)) x ref

/-- `diff = abs_error - (atol + rtol * np.abs(ref))`. -/
def viols (x ref : List K) (atol rtol : K) : List K :=
  List.zipWith (fun a b => absK (a - b) - (atol + rtol * absK b)) x ref

/-- `get_tol_violation(x, ref, atol, rtol)`. -/
def getTolViolation (x ref : List K) (atol rtol : K) : TolViolation K :=
  let ae := absErrs x ref
  if ae.isEmpty then ⟨0, 0, 0, false, 0, some 0⟩
  else
    let d := viols x ref atol rtol
    let i := argmax d
    let r := ref.getD i 0
    let a := ae.getD i 0
    ⟨d.getD i 0, x.getD i 0, r, d.any (fun v => decide (0 < v)), a,
     if r = 0 then none else some (a / absK r)⟩

/-- `np.max(np.abs(J))` of a non-empty array. -/
def maxAbs : List K → K
  | [] => 0
  | v :: vs => vs.foldl (fun m w => if m < absK w then absK w else m) (absK v)

/-- `_MagnitudeData.update`: `self.x = max(self.x, np.max(np.abs(J)))` when `J` is present and
non-empty. -/
def magUpdate (cur : K) (J : Option (List K)) : K :=
  match J with
  | some (v :: vs) => let m := maxAbs (v :: vs); if cur < m then m else cur
  | _ => cur

/-- Directional check of an explicit component with a dense analytic partial:
`J_fwd = np.sum(deriv_value, axis=1)` (the analytic Jacobian applied to the all-ones direction). -/
def rowSums (m : List (List K)) : List K := m.map (fun row => row.foldl (fun a b => a + b) 0)

/-- One entry of the per-step lists (`_ErrorData`: forward-fd, reverse-fd, forward-reverse). -/
structure ErrData (K : Type) where
  forward : Option (TolViolation K)
  reverse : Option (TolViolation K)
  fwdRev : Option (TolViolation K)
  deriving Repr

structure DerivErrors (K : Type) where
  steps : List (ErrData K)
  magFwd : K
  magRev : K
  magFd : K            -- one shared `_MagnitudeData` object is appended for every step
  aboveTol : Bool
  deriving Repr

/-- `_compute_deriv_errors` for the non-directional comparisons and for the directional
comparison of an explicit (not matrix-free) component, where `J_fwd`, `J_fd` are single columns and
the code path is the same `get_tol_violation(Jforward, Jfd)`.
`dirNoRev`: `directional` is set and there is no `'directional_fd_rev'` entry, so the reverse
comparison is skipped.  (Directional checks of matrix-free components and of totals use random
directions and are not modelled.) -/
def computeDerivErrors (jfwd jrev : Option (List K)) (jfds : List (List K))
    (matrixFree totals dirNoRev : Bool) (atol rtol : K) : DerivErrors K :=
  let fr : Option (TolViolation K) :=
    if matrixFree && !totals && !dirNoRev then
      match jfwd, jrev with
      | some f, some r => some (getTolViolation f r atol rtol)
      | _, _ => none        -- (not reachable: matrix-free checks always produce both)
    else none
  let step (jfd : List K) : ErrData K :=
    let f := jfwd.map (fun f => getTolViolation f jfd atol rtol)
    let r := if dirNoRev then none else jrev.map (fun r => getTolViolation r jfd atol rtol)
    let r := match jfwd, jrev with
      | none, none => some (getTolViolation (jfd.map (fun _ => (0 : K))) jfd atol rtol)
      | _, _ => r
    ⟨f, r, fr⟩
  let steps := jfds.map step
  let ab (t : Option (TolViolation K)) : Bool := match t with | some t => t.above | none => false
  ⟨steps,
   magUpdate 0 jfwd, magUpdate 0 jrev, jfds.foldl (fun m j => magUpdate m (some j)) 0,
   ab fr || steps.any (fun e => ab e.forward || ab e.reverse)⟩

end Kernel

end OMV.C13
