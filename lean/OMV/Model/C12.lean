/-
C12 — finite-difference and complex-step approximation schemes
(openmdao/approximation_schemes/{finite_difference,complex_step,approximation_scheme}.py).

Modelled, following the code as it is written:

* the coefficient rows of `_generate_fd_coeff` (`FdRow`; the table itself is regenerated from the
  source into `OMV/Generated/C12FdTable.lean` on every run) and `DEFAULT_ORDER`;
* `FiniteDifference._get_approx_data`: the step calculation (`abs`, `rel_avg`/`rel`, `rel_legacy`,
  `rel_element`, `minimum_step`) and the scaling of deltas / coefficients by the step;
* `FiniteDifference._run_point` / `_run_sub_point`: `current_coeff * current`, then for every
  `(delta, coeff)`: perturb, run, copy the result, restore the three vectors, accumulate;
* `FiniteDifference.compute_approx_col_iter`: save the three vectors, iterate, the `finally`
  (which only switches FD mode off — `Cfg.restoreOnRaise = false`; `true` is the patched code that
  also restores the vectors there);
* `ComplexStep.compute_approx_col_iter` / `_run_point` over dual numbers (`x + i h` with `h = 1e-40`
  behaves as `x + ε h`, `ε² = 0`): perturb, run, copy, `isub`, imaginary part times `1/h`, outputs
  reset after every column, vectors reset at the end (not on the exception path unless
  `restoreOnRaise`);
* `_uncolored_column_iter` / `_colored_column_iter`: one job per column resp. per color, with the
  colored result masked by `nzrows` per column (`scratch[:] = 0; scratch[nz] = res[nz]`);
* `_init_colored_approximations`: *one* approximation datum (that of the first matching `wrt`) is
  used for every colored column.

Vectors are `Nat → K` (flat position ↦ value).  A nonlinear run of the system is an abstract
`Run K := St K → Except (St K) (St K)`; `.error s` is an exception escaping from the run with the
vectors left as `s`.  Not modelled: MPI / parallel FD, directional derivatives, the jacobian
objects the columns are written into.  Core Lean only.
-/
import OMV.Model.Spec

namespace OMV.C12

open OMV.Spec (Dual Expr)

/-! ## 1. Coefficient rows (`FDForm` namedtuple) -/

structure FdRow (K : Type) where
  deltas : List K
  coeffs : List K
  current : K
  deriving Repr, DecidableEq

def FdRow.map {α β : Type} (c : α → β) (r : FdRow α) : FdRow β :=
  { deltas := r.deltas.map c, coeffs := r.coeffs.map c, current := c r.current }

/-- the `FD_COEFFS` dict: `(form, order) ↦ row` -/
abbrev FdTable := List ((String × Nat) × FdRow Rat)

/-- `FD_COEFFS[form, order]` (`none` = `KeyError` → `ValueError`) -/
def fdLookup (t : FdTable) (form : String) (order : Nat) : Option (FdRow Rat) :=
  match t.find? (fun e => e.1.1 == form && e.1.2 == order) with
  | some e => some e.2
  | none => none

/-- `DEFAULT_ORDER[form]` (`none` = "not a valid form of finite difference") -/
def defaultOrder (d : List (String × Nat)) (form : String) : Option Nat :=
  match d.find? (fun e => e.1 == form) with
  | some e => some e.2
  | none => none

/-- `add_approximation` + `_generate_fd_coeff`: the row used for `form` (order is always the
default one: `declare_partials` / `approx_totals` have no `order` argument) -/
def rowFor (t : FdTable) (d : List (String × Nat)) (form : String) : Option (FdRow Rat) :=
  match defaultOrder d form with
  | some o => fdLookup t form o
  | none => none

section Arith

variable {K : Type}

def powN [Mul K] [OfNat K 1] (x : K) : Nat → K
  | 0 => 1
  | n + 1 => powN x n * x

/-- `Σ cᵢ δᵢᵏ` over `zip(deltas, coeffs)` -/
def moment [Add K] [Mul K] [OfNat K 0] [OfNat K 1] (r : FdRow K) (k : Nat) : K :=
  (r.deltas.zip r.coeffs).foldr (fun dc acc => dc.2 * powN dc.1 k + acc) 0

/-- `current_coeff + Σ cᵢ` -/
def moment0 [Add K] [Mul K] [OfNat K 0] [OfNat K 1] (r : FdRow K) : K :=
  r.current + moment r 0

/-- order conditions of a row claimed to be of order `p`: consistency (`m₀ = 0`, `m₁ = 1`) and
`m_k = 0` for `2 ≤ k ≤ p` -/
def orderOK [Add K] [Mul K] [OfNat K 0] [OfNat K 1] [DecidableEq K] (p : Nat) (r : FdRow K) : Bool :=
  decide (moment0 r = 0) && decide (moment r 1 = 1) &&
    (List.range (p - 1)).all (fun i => decide (moment r (i + 2) = 0)) &&
    decide (r.deltas.length = r.coeffs.length)

/-! ## 2. Step calculation (`_get_approx_data`) -/

inductive StepCalc where
  | abs | relAvg | relLegacy | relElement
  deriving DecidableEq, Repr

/-- the accepted `step_calc` strings; `'rel'` is an alias of `'rel_avg'` -/
def StepCalc.parse : String → Option StepCalc
  | "abs" => some .abs
  | "rel" => some .relAvg
  | "rel_avg" => some .relAvg
  | "rel_legacy" => some .relLegacy
  | "rel_element" => some .relElement
  | _ => none

def absv [Neg K] [OfNat K 0] [LT K] [DecidableLT K] (x : K) : K := if x < 0 then -x else x

/-- `np.sum(np.abs(wrt_val))` -/
def sumAbs [Add K] [Neg K] [OfNat K 0] [LT K] [DecidableLT K] (v : List K) : K := v.foldr (fun x acc => absv x + acc) 0

/-- `if step < minimum_step: step = minimum_step` -/
def clampMin [LT K] [DecidableLT K] (minStep s : K) : K := if s < minStep then minStep else s

/-- the scalar step (`abs`, `rel_avg`, `rel_legacy`). `nrm` is `np.linalg.norm(wrt_val)`, a
parameter because a square root is not a field operation (the driver computes it exactly when the
sum of squares is a perfect square). -/
def stepScalar [Add K] [Mul K] [Div K] [Neg K] [OfNat K 0] [LT K] [DecidableLT K] [NatCast K] (sc : StepCalc) (step minStep : K) (v : List K) (nrm : K) : K :=
  match sc with
  | .abs => step
  | .relLegacy => clampMin minStep (step * nrm)
  | .relAvg => clampMin minStep (step * (sumAbs v / (v.length : K)))
  | .relElement => step

/-- the per-element step of `rel_element`: `np.abs(wrt_val) * step`, raised to `minimum_step` -/
def stepVector [Mul K] [Neg K] [OfNat K 0] [LT K] [DecidableLT K] (step minStep : K) (v : List K) : List K :=
  v.map (fun x => clampMin minStep (absv x * step))

/-- the step used for the `loc`-th approximation of a variable (`loc_idx` of `_vec_ind_iter`;
`none` = IndexError).  Note: for a design variable with `indices`, `loc_idx` counts the *selected*
entries while the `rel_element` arrays are those of the whole variable, so the k-th selected entry
is stepped relative to entry `k` (the harness passes `loc` accordingly, and detects a tree where
the arrays are sliced by the indices). -/
def stepAt [Add K] [Mul K] [Div K] [Neg K] [OfNat K 0] [LT K] [DecidableLT K] [NatCast K] (sc : StepCalc) (step minStep : K) (v : List K) (nrm : K) (loc : Nat) :
    Option K :=
  match sc with
  | .relElement => (stepVector step minStep v)[loc]?
  | _ => some (stepScalar sc step minStep v nrm)

/-- deltas / coefficients / current coefficient scaled by the step:
`deltas = fd.deltas * step`, `coeffs = fd.coeffs / step`, `current_coeff = fd.current_coeff / step`
(for `rel_element`: `step_divide = 1/step`, `coeffs * step_divide`). -/
structure PointData (K : Type) where
  deltas : List K
  coeffs : List K
  cur : K
  deriving Repr

def pointData [Mul K] [Div K] [OfNat K 1] (relElem : Bool) (r : FdRow K) (h : K) : PointData K :=
  if relElem then
    { deltas := r.deltas.map (· * h), coeffs := r.coeffs.map (· * (1 / h)),
      cur := r.current * (1 / h) }
  else
    { deltas := r.deltas.map (· * h), coeffs := r.coeffs.map (· / h), cur := r.current / h }

/-- `current_coeff + Σ coeffs` of the scaled data (zero for a consistent row) -/
def PointData.coeffSum [Add K] [OfNat K 0] (pd : PointData K) : K :=
  pd.cur + (pd.deltas.zip pd.coeffs).foldr (fun dc acc => dc.2 + acc) 0

/-- `_init_colored_approximations`: "data is the same for all colored approxs so we only need the
first" — the step of the first colored `wrt` (value `v`, norm `nrm`), its element 0 for
`rel_element` (`_run_point` is called with the default `loc_idx=0`) -/
def coloredStep [Add K] [Mul K] [Div K] [Neg K] [OfNat K 0] [LT K] [DecidableLT K] [NatCast K]
    (sc : StepCalc) (step minStep : K) (vars : List (List K × K)) : Option K :=
  match vars with
  | [] => none
  | (v, nrm) :: _ => stepAt sc step minStep v nrm 0

/-! ## 3. The difference quotient as a formula -/

/-- accumulation loop of `_run_point` on a scalar function: `acc += f(x + delta) * coeff` -/
def fdAcc [Add K] [Mul K] (f : K → K) (x : K) : List (K × K) → K → K
  | [], acc => acc
  | (d, c) :: rest, acc => fdAcc f x rest (acc + f (x + d) * c)

/-- `_run_point` on a scalar function with prescaled data -/
def fdCombine [Add K] [Mul K] (pd : PointData K) (f : K → K) (x : K) : K :=
  fdAcc f x (pd.deltas.zip pd.coeffs) (f x * pd.cur)

/-- `fdApply row h f x = c₀/h·f(x) + Σ cᵢ/h·f(x + δᵢ h)` -/
def fdApply [Add K] [Mul K] [Div K] [OfNat K 1] (r : FdRow K) (h : K) (f : K → K) (x : K) : K :=
  fdCombine (pointData false r h) f x

end Arith

/-! ## 4. Vectors, states, runs -/

/-- inputs, outputs and residuals of the system being approximated -/
structure St (K : Type) where
  ins : Nat → K
  outs : Nat → K
  res : Nat → K

inductive Vec where
  | input | output
  deriving DecidableEq, Repr

/-- a nonlinear run (`run_apply_nonlinear` for partials, `run_solve_nonlinear` for totals);
`.error s` = an exception escaped and the vectors are left as `s` -/
abbrev Run (K : Type) := St K → Except (St K) (St K)

structure Cfg where
  /-- `false`: the code as it is (the `finally` of `compute_approx_col_iter` only switches the
  approximation mode off); `true`: the vectors are also put back there -/
  restoreOnRaise : Bool

section Machine

variable {K : Type}

/-- `vec.iadd(delta, idxs)`: NumPy `data[idxs] += delta` (a repeated index is added once) -/
def iadd [Add K] (v : Nat → K) (idxs : List Nat) (d : K) : Nat → K :=
  fun i => if i ∈ idxs then v i + d else v i

/-- `for vec, idxs in idx_info: vec.iadd(delta, idxs)` -/
def perturb [Add K] (st : St K) (info : List (Vec × List Nat)) (d : K) : St K :=
  info.foldl (fun s vi =>
    match vi.1 with
    | .input => { s with ins := iadd s.ins vi.2 d }
    | .output => { s with outs := iadd s.outs vi.2 d }) st

/-- the vector the result is read from: outputs for totals / semitotals, residuals for partials -/
def resultVec (total : Bool) (st : St K) : Nat → K := if total then st.outs else st.res

/-- `FiniteDifference._run_sub_point`: perturb, run, copy the result, then
`residuals.set_val(starting_resids); inputs.set_val(starting_ins); outputs.set_val(starting_outs)`.
An exception in the run skips everything after it. -/
def fdSubPoint [Add K] (run : Run K) (total : Bool) (start : St K)
    (info : List (Vec × List Nat)) (delta : K) (st : St K) : Except (St K) (St K × (Nat → K)) :=
  match run (perturb st info delta) with
  | .error s => .error s
  | .ok s =>
    let tmp := resultVec total s
    let s1 := { s with res := start.res }
    let s2 := { s1 with ins := start.ins }
    let s3 := { s2 with outs := start.outs }
    .ok (s3, tmp)

/-- loop of `_run_point` over `zip(deltas, coeffs)` -/
def fdPointLoop [Add K] [Mul K] (run : Run K) (total : Bool) (start : St K)
    (info : List (Vec × List Nat)) :
    List (K × K) → St K → (Nat → K) → Except (St K) (St K × (Nat → K))
  | [], st, acc => .ok (st, acc)
  | (d, c) :: rest, st, acc =>
    match fdSubPoint run total start info d st with
    | .error s => .error s
    | .ok (st', tmp) => fdPointLoop run total start info rest st' (fun i => acc i + tmp i * c)

/-- `FiniteDifference._run_point`: `results = current_vec * current_coeff` (or zeros when the
coefficient is zero), then the loop -/
def fdRunPoint [Add K] [Mul K] [OfNat K 0] [DecidableEq K] (run : Run K) (total : Bool)
    (start : St K) (info : List (Vec × List Nat)) (pd : PointData K) (st : St K) :
    Except (St K) (St K × (Nat → K)) :=
  let cur := resultVec total st
  let init : Nat → K := if pd.cur = 0 then (fun _ => 0) else (fun i => cur i * pd.cur)
  fdPointLoop run total start info (pd.deltas.zip pd.coeffs) st init

/-- one approximation run: what is perturbed, with which data, and which jacobian columns are
produced from the result. `emit = [(jcol, none)]` for an uncolored column;
`[(jcolᵢ, some nzrowsᵢ)]` for a color (`_colored_column_iter`). -/
structure Job (K : Type) where
  info : List (Vec × List Nat)
  pd : PointData K
  emit : List (Nat × Option (List Nat))

/-- `scratch[:] = 0; scratch[nzrows] = res[nzrows]` (colored) or the whole result (uncolored) -/
def maskCol [OfNat K 0] (mask : Option (List Nat)) (res : Nat → K) : Nat → K :=
  match mask with
  | none => res
  | some nz => fun r => if r ∈ nz then res r else 0

def emitCols [OfNat K 0] (emit : List (Nat × Option (List Nat))) (res : Nat → K) :
    List (Nat × (Nat → K)) :=
  emit.map (fun e => (e.1, maskCol e.2 res))

/-- `_compute_approx_col_iter` for FD: all jobs in order; `.error s` when a run raised -/
def fdJobs [Add K] [Mul K] [OfNat K 0] [DecidableEq K] (run : Run K) (total : Bool) (start : St K) :
    List (Job K) → St K → List (Nat × (Nat → K)) → Except (St K) (St K × List (Nat × (Nat → K)))
  | [], st, cols => .ok (st, cols)
  | job :: rest, st, cols =>
    match fdRunPoint run total start job.info job.pd st with
    | .error s => .error s
    | .ok (st', res) => fdJobs run total start rest st' (cols ++ emitCols job.emit res)

/-- `FiniteDifference.compute_approx_col_iter`: copy the three vectors, run all jobs; the
`finally` switches FD mode off (and, patched, restores the vectors).
Returns the vectors as they are left and the columns (`none` = an exception escaped). -/
def fdApprox [Add K] [Mul K] [OfNat K 0] [DecidableEq K] (cfg : Cfg) (run : Run K) (total : Bool)
    (jobs : List (Job K)) (st0 : St K) : St K × Option (List (Nat × (Nat → K))) :=
  let start := st0
  match fdJobs run total start jobs st0 [] with
  | .ok (st, cols) => (st, some cols)
  | .error s => (if cfg.restoreOnRaise then start else s, none)

/-! ### complex step over dual numbers -/

def dlift [OfNat K 0] (v : Nat → K) : Nat → Dual K := fun i => ⟨v i, 0⟩
def dre (v : Nat → Dual K) : Nat → K := fun i => (v i).re

def St.lift [OfNat K 0] (st : St K) : St (Dual K) :=
  { ins := dlift st.ins, outs := dlift st.outs, res := dlift st.res }

/-- `_set_complex_step_mode(False)`: the vectors keep their real parts -/
def St.real (st : St (Dual K)) : St K :=
  { ins := dre st.ins, outs := dre st.outs, res := dre st.res }

/-- `ComplexStep._run_point`: `iadd(delta)`, run, copy the result, `isub(delta)` -/
def csRunPoint [Add K] [Neg K] [OfNat K 0] (run : Run (Dual K)) (total : Bool)
    (info : List (Vec × List Nat)) (h : K) (st : St (Dual K)) :
    Except (St (Dual K)) (St (Dual K) × (Nat → Dual K)) :=
  match run (perturb st info ⟨0, h⟩) with
  | .error s => .error s
  | .ok s => .ok (perturb s info ⟨0, -h⟩, resultVec total s)

/-- the column loop of `ComplexStep.compute_approx_col_iter`: `_transform_result` (imaginary
part), `* (1/delta*1j).real`, emit, then `outputs.set_val(saved_outputs)` -/
def csJobs [Add K] [Mul K] [Div K] [Neg K] [OfNat K 0] [OfNat K 1] (run : Run (Dual K))
    (total : Bool) (saved : St K) (h : K) :
    List (Job K) → St (Dual K) → List (Nat × (Nat → K)) →
      Except (St (Dual K)) (St (Dual K) × List (Nat × (Nat → K)))
  | [], st, cols => .ok (st, cols)
  | job :: rest, st, cols =>
    match csRunPoint run total job.info h st with
    | .error s => .error s
    | .ok (st', res) =>
      let col : Nat → K := fun r => (res r).du * (1 / h)
      csJobs run total saved h rest { st' with outs := dlift saved.outs }
        (cols ++ emitCols job.emit col)

/-- `ComplexStep.compute_approx_col_iter` (not nested): save, clear imaginary parts, complex mode
on, all jobs, `finally` complex mode off; then (no exception) the three vectors are set to the
saved ones. -/
def csApprox [Add K] [Mul K] [Div K] [Neg K] [OfNat K 0] [OfNat K 1] (cfg : Cfg)
    (run : Run (Dual K)) (total : Bool) (h : K) (jobs : List (Job K)) (st0 : St K) :
    St K × Option (List (Nat × (Nat → K))) :=
  let saved := st0
  match csJobs run total saved h jobs st0.lift [] with
  | .ok (_, cols) => (saved, some cols)
  | .error s => (if cfg.restoreOnRaise then saved else s.real, none)

end Machine

/-! ## 5. Columns as formulas (what the machine computes when every run is a function of the
perturbed vector) -/

section Columns

variable {K : Type}

/-- accumulation over `zip(deltas, coeffs)` of `F(x + delta·1_idxs)[r] * coeff` -/
def colAcc [Add K] [Mul K] (F : (Nat → K) → Nat → K) (x : Nat → K) (idxs : List Nat) (r : Nat) :
    List (K × K) → K → K
  | [], acc => acc
  | (d, c) :: rest, acc => colAcc F x idxs r rest (acc + F (iadd x idxs d) r * c)

/-- entry `r` of the result of one approximation run that perturbs the positions `idxs` -/
def pointCol [Add K] [Mul K] [OfNat K 0] [DecidableEq K] (F : (Nat → K) → Nat → K) (x : Nat → K) (idxs : List Nat)
    (pd : PointData K) (r : Nat) : K :=
  colAcc F x idxs r (pd.deltas.zip pd.coeffs) (if pd.cur = 0 then 0 else F x r * pd.cur)

/-- uncolored jacobian entry `(r, j)` -/
def uncoloredEntry [Add K] [Mul K] [OfNat K 0] [DecidableEq K] (F : (Nat → K) → Nat → K) (x : Nat → K) (pd : PointData K)
    (j r : Nat) : K :=
  pointCol F x [j] pd r

/-- colored jacobian entry `(r, j)` for a color with columns `js` and `nzrows j = nz` -/
def coloredEntry [Add K] [Mul K] [OfNat K 0] [DecidableEq K] (F : (Nat → K) → Nat → K) (x : Nat → K) (pd : PointData K)
    (js : List Nat) (nz : List Nat) (r : Nat) : K :=
  if r ∈ nz then pointCol F x js pd r else 0

/-- row `r` of `F` reads only the positions in `S` -/
def DependsOnlyOn (F : (Nat → K) → Nat → K) (r : Nat) (S : List Nat) : Prop :=
  ∀ x y : Nat → K, (∀ i ∈ S, x i = y i) → F x r = F y r

/-- executable certificate for one color: `cols` with their `nzrows`, against the structural
dependencies `dep r` (positions row `r` may read) of rows `< nrows`:
every structurally dependent row of a column is in its `nzrows`, and the `nzrows` of two different
columns of the color are disjoint. -/
def certifyColor (dep : Nat → List Nat) (nrows : Nat) (color : List (Nat × List Nat)) : Bool :=
  decide ((color.map (·.1)).Nodup) &&
  color.all (fun jn => (List.range nrows).all (fun r => !(jn.1 ∈ dep r) || (r ∈ jn.2))) &&
  color.all (fun jn => color.all (fun km =>
    jn.1 == km.1 || jn.2.all (fun r => !(r ∈ km.2))))

/-- every column `< ncols` that some row `< nrows` structurally reads belongs to a color.  A column
in no color is never perturbed (`_init_approximations` skips every `wrt` whose metadata carries
`'coloring'`), so its jacobian column stays zero. -/
def certifyCover (dep : Nat → List Nat) (nrows ncols : Nat)
    (colors : List (List (Nat × List Nat))) : Bool :=
  (List.range ncols).all (fun j =>
    (List.range nrows).all (fun r => !(j ∈ dep r)) ||
      colors.any (fun col => col.any (fun jn => jn.1 == j)))

end Columns

/-! ## 6. Complex step as a formula -/

/-- entry `r` of one complex-step run perturbing `idxs`: `Im F(x + i h 1_idxs)[r] * (1/h)` for a
system given over dual numbers -/
def csPointCol {K : Type} [Add K] [Mul K] [Div K] [OfNat K 0] [OfNat K 1]
    (F : (Nat → Dual K) → Nat → Dual K) (x : Nat → K) (idxs : List Nat) (h : K) (r : Nat) : K :=
  (F (iadd (dlift x) idxs ⟨0, h⟩) r).du * (1 / h)

def csColoredEntry {K : Type} [Add K] [Mul K] [Div K] [OfNat K 0] [OfNat K 1]
    (F : (Nat → Dual K) → Nat → Dual K) (x : Nat → K) (h : K) (js nz : List Nat) (r : Nat) : K :=
  if r ∈ nz then csPointCol F x js h r else 0


/-- `Im f(x + i h e_j) / h` over dual numbers for a polynomial expression -/
def csApply {K : Type} [Add K] [Mul K] [Neg K] [Div K] [OfNat K 0] [OfNat K 1]
    (e : Expr K) (env : Nat → K) (j : Nat) (h : K) : K :=
  (Expr.evalWith Dual.const (fun v => (⟨env v, if v = j then h else 0⟩ : Dual K)) e).du * (1 / h)

end OMV.C12
