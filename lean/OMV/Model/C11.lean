/-
C11 — assembled Jacobian formats (openmdao/matrices/{coo,csc,csr,dense}_matrix.py,
openmdao/jacobians/subjac.py, openmdao/jacobians/jacobian.py `SplitJacobian`).

What is modelled, literally to the code:

* `Subjac.as_coo_info(full=True)` for the three storage kinds (dense array, COO pattern — declared
  `rows/cols` or a scipy matrix after `tocoo()` —, diagonal): global rows, global columns with the
  `src_indices` column map `cols = src_indices[cols] + col_slice.start` by which a
  d(residual)/d(input) block lands in dr/do, and the unit `factor`.
* `idx_list_to_index_array` for flat index levels (negative entries resolved, levels composed).
* `COOMatrix._build` (concatenated rows/cols, one slice per sub-jacobian), `CSCMatrix._build` /
  `CSRMatrix._build`: `np.lexsort`, first-occurrence marks, `cumsum - 1`, scatter back through the
  sort order, the per-sub-jacobian duplicate flag; `_pre_update` (dtype conversion, zeroing),
  `_update_from_submat` (`+=` when the flag is off, `np.add.at` when it is on).
* `DenseMatrix`: repeated positions → COO data summed by `toarray()`; otherwise a plain array
  that is *assigned* (`view[:, src_indices] = val`, `matrix[rows, cols] = data`) and scaled
  (`view *= factor` on the whole view for dense sub-jacobians, `matrix[rows, cols] *= factor`
  otherwise) and never zeroed.
* the dictionary (matrix-free) application: linear transfer (gather through `src_indices`, unit
  factor) followed by `Subjac.apply_fwd`, and `apply_rev` followed by the reverse transfer.
* update histories: every update is `_pre_update(dtype)` (a cell-wise conversion `conv`, real part
  or identity) followed by one `_update_from_submat` per sub-jacobian.

Arrays that are only ever addressed cell by cell (CSC/CSR `data`, the dense matrix) are functions
`Nat → K` / `Pos → K`; the driver tabulates them.  Third-party behaviour enters as stated
contracts: scipy's `csc_matrix((data, (row, col)))` has one slot per distinct position in
column-major order (`slotPos`), `toarray()` sums duplicates (`denseAt`), matrix @ vector.

Core Lean only.
-/
namespace OMV.C11

/-- (row, col) -/
abbrev Pos := Nat × Nat

/-! ### `src_indices` (utils/indexer.py:idx_list_to_index_array, flat levels) -/

/-- `shaped_array()`: a negative entry counts from the end. -/
def resolveIdx (n : Nat) (i : Int) : Nat := if i < 0 then (i + (n : Int)).toNat else i.toNat

/-- `arr = idx.indexed_val(arr)` for one flat level. -/
def applyLevel (cur : List Nat) (idx : List Int) : List Nat :=
  idx.map (fun i => cur.getD (resolveIdx cur.length i) 0)

/-- `arr = arange(n); for idx in idx_list: arr = arr[idx]` (outermost level first). -/
def chainIdx (n : Nat) (levels : List (List Int)) : List Nat :=
  levels.foldl applyLevel (List.range n)

/-! ### sub-jacobians as COO triplets (`as_coo_info(full=True)`) -/

/-- Storage kind with its local pattern. -/
inductive Pat where
  /-- `DenseSubjac`: a full `m × n` array, raveled row-major. -/
  | dense (m n : Nat)
  /-- `OMCOOSubjac` / scipy `coo`, `csr`, `csc` after `tocoo()`: explicit local rows / cols. -/
  | coo (rows cols : List Nat)
  /-- `DiagonalSubjac`. -/
  | diag (n : Nat)
deriving Repr, DecidableEq

/-- The fixed part of a sub-jacobian inside one matrix (`Subjac.__init__`). -/
structure SubJ (K : Type) where
  pat : Pat
  /-- `row_slice.start` -/
  row0 : Nat
  /-- `col_slice.start` (of the input, or of its source output for dr/do) -/
  col0 : Nat
  /-- `col_slice.stop - col_slice.start` (`parent_ncols`) -/
  parentNcols : Nat
  /-- resolved `src_indices` (flat source positions), `none` when the block maps one to one -/
  src : Option (List Nat)
  /-- unit conversion factor -/
  factor : Option K

/-- Local (row, col) of every stored entry, in storage order.
dense: `rows = repeat(arange(m), n)`, `cols = tile(arange(n), m)`. -/
def localPos : Pat → List Pos
  | .dense m n => (List.range m).flatMap (fun i => (List.range n).map (fun j => (i, j)))
  | .coo rows cols => rows.zip cols
  | .diag n => (List.range n).map (fun i => (i, i))

/-- `cols = src_indices[cols]` (identity without `src_indices`). -/
def mapCol (src : Option (List Nat)) (c : Nat) : Nat :=
  match src with
  | none => c
  | some s => s.getD c 0

def Pat.nrows : Pat → Nat
  | .dense m _ => m
  | .coo rows _ => rows.foldl (fun a r => max a (r + 1)) 0
  | .diag n => n

def Pat.isDense : Pat → Bool
  | .dense _ _ => true
  | _ => false

variable {K : Type}

/-- Global positions: `rows + row_slice.start`, `src_indices[cols] + col_slice.start`. -/
def SubJ.positions (s : SubJ K) : List Pos :=
  (localPos s.pat).map (fun p => (s.row0 + p.1, s.col0 + mapCol s.src p.2))

section Arith
variable [Add K] [Mul K] [Zero K]

/-- `data = subjac.get_as_coo_data(); if factor is not None: data = data * factor`. -/
def scaleData (f : Option K) (vals : List K) : List K :=
  match f with
  | none => vals
  | some f => vals.map (· * f)

/-- The COO triplets one sub-jacobian contributes. -/
def SubJ.trips (s : SubJ K) (vals : List K) : List (Pos × K) :=
  s.positions.zip (scaleData s.factor vals)

/-- All triplets of a matrix: `Σ_subjacs factor·coo` as a list. -/
def allTrips (sv : List (SubJ K × List K)) : List (Pos × K) :=
  sv.flatMap (fun x => x.1.trips x.2)

/-- Sum-of-duplicates semantics of a triplet list: `dense T (r, c) = Σ_{((r,c),v) ∈ T} v`
(what `coo_matrix.toarray()` returns). -/
def denseAt (T : List (Pos × K)) (p : Pos) : K :=
  (T.map (fun t => if t.1 = p then t.2 else 0)).sum

/-- Forward product `(T x)_r = Σ_{((r,c),v) ∈ T} v · x_c`. -/
def mulVec (T : List (Pos × K)) (x : Nat → K) (r : Nat) : K :=
  (T.map (fun t => if t.1.1 = r then t.2 * x t.1.2 else 0)).sum

/-- Transposed product `(Tᵀ y)_c = Σ_{((r,c),v) ∈ T} v · y_r`. -/
def mulVecT (T : List (Pos × K)) (y : Nat → K) (c : Nat) : K :=
  (T.map (fun t => if t.1.2 = c then t.2 * y t.1.1 else 0)).sum

end Arith

/-! ### `COOMatrix._build`: concatenation and slices -/

/-- `rows[start:end] = r; cols[start:end] = c` for every sub-jacobian in dict order. -/
def cooPositions (subs : List (SubJ K)) : List Pos := subs.flatMap SubJ.positions

/-- Cut a list into consecutive pieces of the given lengths (`_coo_slices`). -/
def splitLens {α : Type} : List Nat → List α → List (List α)
  | [], _ => []
  | n :: ns, l => l.take n :: splitLens ns (l.drop n)

/-! ### `CSCMatrix._build` / `CSRMatrix._build`: the COO → slot map -/

/-- Column-major order of `np.lexsort((row, col))`: `col` is the primary key. -/
def leCsc (a b : Pos) : Bool := decide (a.2 < b.2) || (decide (a.2 = b.2) && decide (a.1 ≤ b.1))

/-- Row-major order of `np.lexsort((col, row))`. -/
def leCsr (a b : Pos) : Bool := decide (a.1 < b.1) || (decide (a.1 = b.1) && decide (a.2 ≤ b.2))

/-- insert `a` before the first element that is not smaller -/
def orderedInsert {α : Type} (le : α → α → Bool) (a : α) : List α → List α
  | [] => [a]
  | b :: l => if le a b then a :: b :: l else b :: orderedInsert le a l

/-- A stable sort (insertion sort; structural recursion so that the kernel can evaluate it).
`np.lexsort` is stable as well, so the two produce the same permutation. -/
def stableSort {α : Type} (le : α → α → Bool) : List α → List α
  | [] => []
  | a :: l => orderedInsert le a (stableSort le l)

/-- `sort_order = np.lexsort(...)` (a stable sort of the entry numbers by their position). -/
def sortOrder (le : Pos → Pos → Bool) (P : List Pos) : List Nat :=
  stableSort (fun i j => le (P.getD i (0, 0)) (P.getD j (0, 0))) (List.range P.length)

def isNewAux (prev : Pos) : List Pos → List Bool
  | [] => []
  | p :: ps => (p != prev) :: isNewAux p ps

/-- `is_new[0] = True; is_new[1:] = (diff(sorted_row) != 0) | (diff(sorted_col) != 0)`. -/
def isNew : List Pos → List Bool
  | [] => []
  | p :: ps => true :: isNewAux p ps

/-- `np.cumsum` of the marks (running total `acc`). -/
def cumsum (acc : Nat) : List Bool → List Nat
  | [] => []
  | b :: bs => (acc + b.toNat) :: cumsum (acc + b.toNat) bs

/-- `csc_idx = np.cumsum(is_new) - 1`. -/
def slotIdx (sorted : List Pos) : List Nat := (cumsum 0 (isNew sorted)).map (· - 1)

/-- `map = empty(n); map[sort_order] = csc_idx` read entry by entry (`sort_order` is a permutation,
so each entry is written once). -/
def scatter (n : Nat) (order idx : List Nat) : List Nat :=
  (List.range n).map (fun i => ((order.zip idx).lookup i).getD 0)

/-- `_coo_to_csc_map` (`le = leCsc`) / `_coo_to_csr_map` (`le = leCsr`). -/
def cooToSlot (le : Pos → Pos → Bool) (P : List Pos) : List Nat :=
  let order := sortOrder le P
  scatter P.length order (slotIdx (order.map (fun i => P.getD i (0, 0))))

def uniqAux (prev : Pos) : List Pos → List Pos
  | [] => []
  | p :: ps => if p = prev then uniqAux p ps else p :: uniqAux p ps

/-- The distinct positions of a sorted list, in order. -/
def uniqOf : List Pos → List Pos
  | [] => []
  | p :: ps => p :: uniqAux p ps

/-- Contract for scipy: `csc_matrix((data, (row, col)))` (`csr_matrix`) stores one entry per
distinct position, in column-major (row-major) order; slot `k` of its `data` is at `slotPos[k]`. -/
def slotPos (le : Pos → Pos → Bool) (P : List Pos) : List Pos :=
  uniqOf ((sortOrder le P).map (fun i => P.getD i (0, 0)))

/-- The distinct values of a list (`np.unique(idx)`, up to order). -/
def distinct : List Nat → List Nat
  | [] => []
  | a :: l => if a ∈ l then distinct l else a :: distinct l

/-- `_has_within_subjac_duplicates[key] = n > 1 and np.unique(idx).size != n`. -/
def hasDupFlag (idx : List Nat) : Bool :=
  decide (idx.length > 1) && decide ((distinct idx).length ≠ idx.length)

/-! ### CSC / CSR data updates -/

section Update
variable [Add K] [Mul K] [Zero K]

/-- one cell of a `Nat`-indexed array replaced -/
def upd (d : Nat → K) (i : Nat) (v : K) : Nat → K := fun j => if j = i then v else d j

/-- `np.add.at(data, idx, vals)` executed literally: unbuffered, one addition per entry. -/
def addAtSeq (d : Nat → K) : List Nat → List K → Nat → K
  | i :: is, v :: vs => addAtSeq (upd d i (d i + v)) is vs
  | _, _ => d

/-- sequential element-wise assignment `data[idx] = tmp` (a later entry overwrites an earlier) -/
def assignAt (d : Nat → K) : List Nat → List K → Nat → K
  | i :: is, v :: vs => assignAt (upd d i v) is vs
  | _, _ => d

/-- `data[idx] += vals` executed literally (buffered): `tmp = data[idx] + vals` is computed from
the old array, then assigned. -/
def addBufferedSeq (d : Nat → K) (idx : List Nat) (vals : List K) : Nat → K :=
  assignAt d idx (List.zipWith (fun i v => d i + v) idx vals)

/-- What `np.add.at` adds to cell `j`: all entries addressed to it. -/
def contrib (idx : List Nat) (vals : List K) (j : Nat) : K :=
  ((idx.zip vals).map (fun x => if x.1 = j then x.2 else 0)).sum

/-- The entry that `data[idx] = ...` writes last into cell `j`. -/
def lastWrite : List Nat → List K → Nat → Option K
  | i :: is, v :: vs, j =>
    match lastWrite is vs j with
    | some w => some w
    | none => if i = j then some v else none
  | _, _, _ => none

/-- `np.add.at`, cell by cell (`= addAtSeq`, theorem `C11_add_at_seq`). -/
def addAt (d : Nat → K) (idx : List Nat) (vals : List K) : Nat → K :=
  fun j => d j + contrib idx vals j

/-- buffered `+=`, cell by cell (`= addBufferedSeq`, theorem `C11_buffered_seq`): a cell receives
only the last of the entries addressed to it. -/
def addBuffered (d : Nat → K) (idx : List Nat) (vals : List K) : Nat → K :=
  fun j => match lastWrite idx vals j with
    | none => d j
    | some v => d j + v

/-- `CSCMatrix._update_from_submat` / `CSRMatrix._update_from_submat` for one sub-jacobian whose
slice of the map is `idx`. -/
def sparseUpdate (d : Nat → K) (idx : List Nat) (flag : Bool) (data : List K) : Nat → K :=
  if flag then addAt d idx data else addBuffered d idx data

/-- The per-sub-jacobian pieces of the map and their duplicate flags, as `_build` leaves them. -/
def sparseBuild (le : Pos → Pos → Bool) (subs : List (SubJ K)) : List (List Nat × Bool) :=
  (splitLens (subs.map (fun s => s.positions.length)) (cooToSlot le (cooPositions subs))).map
    (fun idx => (idx, hasDupFlag idx))

/-- One whole update: `_pre_update` (dtype conversion `conv`, then `data[:] = 0`) followed by
`_update_from_submat` for every sub-jacobian. -/
def sparseStep (built : List (List Nat × Bool)) (subs : List (SubJ K)) (conv : K → K)
    (d : Nat → K) (vals : List (List K)) : Nat → K :=
  let d0 : Nat → K := fun i => (fun _ => (0 : K)) (conv (d i))
  ((built.zip (subs.zip vals)).foldl
    (fun d x => sparseUpdate d x.1.1 x.1.2 (scaleData x.2.1.factor x.2.2)) d0)

/-- `todense()` of the scipy matrix whose slot `k` sits at `uniq[k]` (contract). -/
def sparseDense (uniq : List Pos) (d : Nat → K) (p : Pos) : K :=
  ((uniq.zipIdx).map (fun x => if x.1 = p then d x.2 else 0)).sum

/-! ### DenseMatrix -/

/-- `has_repeated`: some position occurs twice (scipy's csc of ones has an entry `> 1`). -/
def hasRepeated (P : List Pos) : Bool :=
  match P with
  | [] => false
  | p :: ps => ps.contains p || hasRepeated ps

/-- `_coo.data[slice] = vals; _coo.data[slice] *= factor`: the slice of one sub-jacobian replaced
(the data array is kept as its list of slices). -/
def cooUpdate (data : List (List K)) (k : Nat) (s : SubJ K) (vals : List K) : List (List K) :=
  data.set k (scaleData s.factor vals)

/-- one cell of the dense matrix replaced -/
def updP (M : Pos → K) (q : Pos) (v : K) : Pos → K := fun p => if p = q then v else M p

/-- `matrix[rows, cols] = data`, entry by entry. -/
def assignPos (M : Pos → K) : List (Pos × K) → Pos → K
  | [] => M
  | t :: ts => assignPos (updP M t.1 t.2) ts

/-- `view = matrix[row_slice, col_slice]`: the block of the whole source variable. -/
def inView (s : SubJ K) (p : Pos) : Bool :=
  decide (s.row0 ≤ p.1) && decide (p.1 < s.row0 + s.pat.nrows) &&
  decide (s.col0 ≤ p.2) && decide (p.2 < s.col0 + s.parentNcols)

/-- `DenseMatrix._update_from_submat` without repeated positions.
Dense sub-jacobian: `view[:, src_indices] = val` (or `view[:, :] = val`), then `view *= factor`;
`wholeView = true` is the code as it is (the *whole* view is scaled), `false` scales only the
assigned cells.  Other kinds: `matrix[rows, cols] = data; matrix[rows, cols] *= factor`. -/
def denseUpdate (wholeView : Bool) (M : Pos → K) (s : SubJ K) (vals : List K) : Pos → K :=
  let M1 := assignPos M (s.positions.zip vals)
  match s.factor with
  | none => M1
  | some f =>
    if s.pat.isDense && wholeView then fun p => if inView s p then M1 p * f else M1 p
    else fun p => if p ∈ s.positions then M1 p * f else M1 p

/-- One whole update of the plain dense array: `_pre_update` converts the dtype cell-wise (no
zeroing), then every sub-jacobian is written. -/
def denseStep (wholeView : Bool) (subs : List (SubJ K)) (conv : K → K) (M : Pos → K)
    (vals : List (List K)) : Pos → K :=
  (subs.zip vals).foldl (fun M x => denseUpdate wholeView M x.1 x.2) (fun p => conv (M p))

/-- One whole update of the COO data kept when positions repeat. -/
def cooStep (subs : List (SubJ K)) (conv : K → K) (data : List (List K)) (vals : List (List K)) :
    List (List K) :=
  ((subs.zip vals).zipIdx).foldl (fun d x => cooUpdate d x.2 x.1.1 x.1.2)
    (data.map (fun l => l.map conv))

/-- `_post_update`: `self._matrix = self._coo.toarray()` (duplicates summed). -/
def cooDense (subs : List (SubJ K)) (data : List (List K)) (p : Pos) : K :=
  denseAt ((cooPositions subs).zip data.flatten) p

/-! ### update histories: a list of (dtype conversion of `_pre_update`, values per sub-jacobian) -/

/-- CSC / CSR `data` after a history of updates. -/
def sparseRun (built : List (List Nat × Bool)) (subs : List (SubJ K))
    (hist : List ((K → K) × List (List K))) (d : Nat → K) : Nat → K :=
  hist.foldl (fun d h => sparseStep built subs h.1 d h.2) d

/-- The plain dense array after a history of updates. -/
def denseRun (wholeView : Bool) (subs : List (SubJ K)) (hist : List ((K → K) × List (List K)))
    (M : Pos → K) : Pos → K :=
  hist.foldl (fun M h => denseStep wholeView subs h.1 M h.2) M

/-- The COO data of `DenseMatrix` after a history of updates. -/
def cooRun (subs : List (SubJ K)) (hist : List ((K → K) × List (List K))) (data : List (List K)) :
    List (List K) :=
  hist.foldl (fun d h => cooStep subs h.1 d h.2) data

/-! ### dictionary (matrix-free) application -/

/-- The input as the forward linear transfer leaves it: `d_in[j] = factor · d_out[src_indices[j]]`. -/
def transferFwd (s : SubJ K) (dout : Nat → K) (j : Nat) : K :=
  match s.factor with
  | none => dout (s.col0 + mapCol s.src j)
  | some f => dout (s.col0 + mapCol s.src j) * f

/-- `Subjac.apply_fwd` on the local block: `res[r] += Σ val · x[c]`
(`val @ x`, `bincount(rows, x[cols] * val)`, `x * val`). -/
def applyFwdLocal (pat : Pat) (vals : List K) (x : Nat → K) (i : Nat) : K :=
  (((localPos pat).zip vals).map (fun t => if t.1.1 = i then t.2 * x t.1.2 else 0)).sum

/-- `Subjac.apply_rev` on the local block: `x[c] += Σ val · res[r]`. -/
def applyRevLocal (pat : Pat) (vals : List K) (y : Nat → K) (j : Nat) : K :=
  (((localPos pat).zip vals).map (fun t => if t.1.2 = j then t.2 * y t.1.1 else 0)).sum

/-- Forward dictionary application of one sub-jacobian of dr/do at global residual row `r`. -/
def dictFwd (s : SubJ K) (vals : List K) (dout : Nat → K) (r : Nat) : K :=
  if s.row0 ≤ r then applyFwdLocal s.pat vals (transferFwd s dout) (r - s.row0) else 0

/-- Reverse: `apply_rev` into the input, then the reverse transfer scatter-adds
`factor · d_in[j]` into `d_out[src_indices[j]]`; `n` is the size of the input. -/
def dictRev (s : SubJ K) (n : Nat) (vals : List K) (dres : Nat → K) (c : Nat) : K :=
  ((List.range n).map (fun j =>
    if s.col0 + mapCol s.src j = c then
      (match s.factor with
       | none => applyRevLocal s.pat vals (fun i => dres (s.row0 + i)) j
       | some f => applyRevLocal s.pat vals (fun i => dres (s.row0 + i)) j * f)
    else 0)).sum

end Update

end OMV.C11
