/-
Shared executable helpers for all drivers: exact rationals on the wire ("n/d" strings),
JSON accessors, and the line loop.  Core Lean only (no Mathlib) so that drivers link natively.
-/
import Lean.Data.Json

namespace OMV

open Lean

/-- Parse `"n/d"` or `"n"` (n possibly negative) into a `Rat`. -/
def parseRat? (s : String) : Option Rat :=
  match s.splitOn "/" with
  | [n] => n.toInt?.map (fun i => (i : Rat))
  | [n, d] =>
    match n.toInt?, d.toNat? with
    | some i, some k => if k == 0 then none else some (mkRat i k)
    | _, _ => none
  | _ => none

def ratToString (q : Rat) : String := s!"{q.num}/{q.den}"

def jRat (q : Rat) : Json := Json.str (ratToString q)
def jInt (i : Int) : Json := Json.num (JsonNumber.fromInt i)
def jNat (n : Nat) : Json := Json.num (JsonNumber.fromNat n)
def jBool (b : Bool) : Json := Json.bool b
def jStr (s : String) : Json := Json.str s
def jArr {α} (f : α → Json) (l : List α) : Json := Json.arr (l.map f).toArray
def jNats (l : List Nat) : Json := jArr jNat l
def jInts (l : List Int) : Json := jArr jInt l
def jRats (l : List Rat) : Json := jArr jRat l
def jObj (l : List (String × Json)) : Json := Json.mkObj l

def getRat? (j : Json) : Option Rat :=
  match j with
  | Json.str s => parseRat? s
  | Json.num n => if n.exponent == 0 then some (n.mantissa : Rat) else
      some (mkRat n.mantissa (10 ^ n.exponent))
  | _ => none

def getInt? (j : Json) : Option Int :=
  match j.getInt? with
  | .ok i => some i
  | .error _ => none

def getNat? (j : Json) : Option Nat :=
  match j.getNat? with
  | .ok i => some i
  | .error _ => none

def getStr? (j : Json) : Option String :=
  match j.getStr? with
  | .ok i => some i
  | .error _ => none

def getBool? (j : Json) : Option Bool :=
  match j.getBool? with
  | .ok i => some i
  | .error _ => none

def getList? (j : Json) : Option (List Json) :=
  match j.getArr? with
  | .ok a => some a.toList
  | .error _ => none

def field? (j : Json) (k : String) : Option Json :=
  match j.getObjVal? k with
  | .ok v => some v
  | .error _ => none

def fieldRat? (j : Json) (k : String) : Option Rat := field? j k >>= getRat?
def fieldInt? (j : Json) (k : String) : Option Int := field? j k >>= getInt?
def fieldNat? (j : Json) (k : String) : Option Nat := field? j k >>= getNat?
def fieldStr? (j : Json) (k : String) : Option String := field? j k >>= getStr?
def fieldBool? (j : Json) (k : String) : Option Bool := field? j k >>= getBool?
def fieldList? (j : Json) (k : String) : Option (List Json) := field? j k >>= getList?
def fieldRats? (j : Json) (k : String) : Option (List Rat) :=
  fieldList? j k >>= fun l => l.mapM getRat?
def fieldInts? (j : Json) (k : String) : Option (List Int) :=
  fieldList? j k >>= fun l => l.mapM getInt?
def fieldNats? (j : Json) (k : String) : Option (List Nat) :=
  fieldList? j k >>= fun l => l.mapM getNat?

/-- `null` or absent → `none`; otherwise apply `f`. -/
def optField? {α} (j : Json) (k : String) (f : Json → Option α) : Option (Option α) :=
  match field? j k with
  | none => some none
  | some Json.null => some none
  | some v => (f v).map some

def badOp : Json := jObj [("err", jStr "bad-op")]

/-- The line loop: one JSON request per line, one JSON answer per line.
An unparsable line or a request the handler does not understand is answered `{"err":"bad-op"}`;
the harness treats that as an infrastructure error, never as agreement. -/
partial def loop (h : IO.FS.Stream) (out : IO.FS.Stream) (handle : Json → Option Json) : IO Unit := do
  let line ← h.getLine
  if line.isEmpty then return ()
  let t := line.trimAscii.toString
  if t.isEmpty then
    loop h out handle
  else
    let ans : Json :=
      match Json.parse t with
      | .error _ => badOp
      | .ok j =>
        match handle j with
        | some r => r
        | none => badOp
    out.putStrLn ans.compress
    loop h out handle

def runDriver (handle : Json → Option Json) : IO Unit := do
  let i ← IO.getStdin
  let o ← IO.getStdout
  loop i o handle
  o.flush

end OMV
