/-
C18 — a recording that is cut off at any statement boundary.

What is modelled (openmdao/recorders/sqlite_recorder.py, sqlite_reader.py):

* the statement stream of the recorder's connection as `sqlite3.Connection.set_trace_callback` shows it:
  `_initialize_database` (ten tables and four indices, the first `metadata` row written together with
  the three `*_metadata` tables in one transaction), `startup` (one `UPDATE metadata` transaction per
  recording requester), `record_viewer_data` / `record_metadata_system` / `record_metadata_solver` /
  `record_derivatives_driver` (one auxiliary insert per transaction; a duplicate `driver_metadata` key
  is rolled back), `record_iteration_*` (`with self.connection as c:` — the case row and its
  `global_iterations` row carrying `lastrowid`, one transaction);
* Python's `sqlite3` legacy transaction control: DDL outside a transaction is autocommitted, `BEGIN` is
  issued before the first INSERT/UPDATE, `with connection` ends in COMMIT or ROLLBACK;
* a crash: the database a reader finds is the committed state after the statements executed so far;
  the open transaction is lost (hot-journal rollback) — this is the sqlite atomic-commit contract and
  is trusted, not proved;
* the reader: `SqliteCaseReader.__init__` needs the ten tables and a `metadata` row whose name maps are
  filled (`zlib.decompress(row['conns'])` fails on NULL); the case list is `global_iterations` joined to
  the case tables by `(record_type, rowid)`.

Cases are identified by a number (`name`), the order of their first appearance in the stream.
Core Lean only.
-/
namespace OMV.C18

inductive Kind where
  | driver | system | solver | problem
  deriving DecidableEq

inductive Table where
  | global | driverIt | driverDeriv | problemCases | systemIt | solverIt
  | metadata | driverMeta | systemMeta | solverMeta
  deriving DecidableEq

/-- One traced statement. -/
inductive Stmt where
  | begin | commit | rollback
  | create (t : Table)                  -- CREATE TABLE
  | index (t : Table)                   -- CREATE INDEX ... ON t
  | insertMeta                          -- INSERT INTO metadata(format_version, openmdao_version, NULL, NULL)
  | updateMeta                          -- UPDATE metadata SET abs2prom=?, prom2abs=?, abs2meta=?, var_settings=?, conns=?
  | insertAux (t : Table)               -- INSERT INTO driver_metadata / system_metadata / solver_metadata / driver_derivatives
  | insertCase (k : Kind) (name : Nat)  -- INSERT INTO <k>_iterations / problem_cases
  | insertGlobal (k : Kind) (rowid : Nat) -- INSERT INTO global_iterations(record_type, rowid, source)
  | other                               -- anything else (never accepted)
  deriving DecidableEq

/-- Database content that matters to the reader. -/
structure Db where
  tables : List Table := []
  /-- `none`: no metadata row; `some false`: row with NULL name maps; `some true`: complete -/
  metaRow : Option Bool := none
  /-- case rows in insertion order; the rowid of a case is its 1-based position among its kind -/
  cases : List (Kind × Nat) := []
  /-- `global_iterations`: `(record_type, rowid)` -/
  global : List (Kind × Nat) := []
  aux : Nat := 0
  deriving DecidableEq

/-- Effect of a data statement. -/
def Db.apply (db : Db) : Stmt → Db
  | .create t => { db with tables := db.tables ++ [t] }
  | .insertMeta => { db with metaRow := some false }
  | .updateMeta => { db with metaRow := db.metaRow.map (fun _ => true) }
  | .insertAux _ => { db with aux := db.aux + 1 }
  | .insertCase k n => { db with cases := db.cases ++ [(k, n)] }
  | .insertGlobal k r => { db with global := db.global ++ [(k, r)] }
  | _ => db

/-- Connection state: what is committed, and the working copy of an open transaction. -/
structure St where
  db : Db := {}
  txn : Option Db := none
  deriving DecidableEq

def step (st : St) (s : Stmt) : St :=
  match s with
  | .begin =>
    match st.txn with
    | none => { st with txn := some st.db }
    | some _ => st
  | .commit =>
    match st.txn with
    | some d => { db := d, txn := none }
    | none => st
  | .rollback => { st with txn := none }
  | s =>
    match st.txn with
    | some d => { st with txn := some (d.apply s) }
    | none => { st with db := st.db.apply s }      -- autocommit

def runFrom (st : St) (s : List Stmt) : St := s.foldl step st

def run (s : List Stmt) : St := runFrom {} s

/-- The database found after a crash right before statement `k` (the open transaction is lost). -/
def crash (k : Nat) (s : List Stmt) : Db := (run (s.take k)).db

/-! ## The reader -/

def neededTables : List Table :=
  [.global, .driverIt, .driverDeriv, .problemCases, .systemIt, .solverIt,
   .metadata, .driverMeta, .systemMeta, .solverMeta]

/-- `SqliteCaseReader.__init__` succeeds. -/
def Db.openable (db : Db) : Bool :=
  neededTables.all (fun t => db.tables.contains t) && db.metaRow == some true

def count (k : Kind) (cases : List (Kind × Nat)) : Nat := (cases.filter (fun c => c.1 = k)).length

/-- The case row a `global_iterations` row points to. -/
def Db.lookup (db : Db) (g : Kind × Nat) : Option (Kind × Nat) :=
  if g.2 = 0 then none else (db.cases.filter (fun c => c.1 = g.1))[g.2 - 1]?

def mapOpt {α β : Type} (f : α → Option β) : List α → Option (List β)
  | [] => some []
  | a :: as =>
    match f a, mapOpt f as with
    | some b, some bs => some (b :: bs)
    | _, _ => none

/-- `list_cases()` with every listed case loadable; `none` when the file cannot be opened or a
listed case has no row. -/
def Db.read (db : Db) : Option (List (Kind × Nat)) :=
  if db.openable then mapOpt db.lookup db.global else none

/-! ## The statement grammar of the recorder -/

/-- `_initialize_database` followed by the first `startup` (the recorder "has started"). -/
def startup : List Stmt :=
  [.create .global, .create .driverIt, .create .driverDeriv, .index .driverIt,
   .create .problemCases, .index .problemCases, .create .systemIt, .index .systemIt,
   .create .solverIt, .index .solverIt, .create .metadata,
   .begin, .insertMeta, .create .driverMeta, .create .systemMeta, .create .solverMeta, .commit,
   .begin, .updateMeta, .commit]

/-- Transactions issued after start-up. -/
inductive Txn where
  | case (k : Kind) (name : Nat) (rowid : Nat)
  | aux (t : Table) (committed : Bool)
  | updMeta
  deriving DecidableEq

def Txn.stmts : Txn → List Stmt
  | .case k n r => [.begin, .insertCase k n, .insertGlobal k r, .commit]
  | .aux t true => [.begin, .insertAux t, .commit]
  | .aux t false => [.begin, .insertAux t, .rollback]
  | .updMeta => [.begin, .updateMeta, .commit]

def flatten : List Txn → List Stmt
  | [] => []
  | t :: ts => t.stmts ++ flatten ts

/-- The cases a complete run records, in order. -/
def caseList : List Txn → List (Kind × Nat)
  | [] => []
  | .case k n _ :: ts => (k, n) :: caseList ts
  | _ :: ts => caseList ts

/-- `lastrowid` discipline: the global row of a case carries the position of the case in its table. -/
def rowidsOk (cases : List (Kind × Nat)) : List Txn → Bool
  | [] => true
  | .case k n r :: ts => decide (r = count k cases + 1) && rowidsOk (cases ++ [(k, n)]) ts
  | _ :: ts => rowidsOk cases ts

/-- Parse a statement stream (after start-up) into transactions; `none` if it is not of that form. -/
def parse : List Stmt → Option (List Txn)
  | [] => some []
  | .begin :: .insertCase k n :: .insertGlobal k' r :: .commit :: rest =>
    if k = k' then (parse rest).map (fun ts => .case k n r :: ts) else none
  | .begin :: .insertAux t :: .commit :: rest => (parse rest).map (fun ts => .aux t true :: ts)
  | .begin :: .insertAux t :: .rollback :: rest => (parse rest).map (fun ts => .aux t false :: ts)
  | .begin :: .updateMeta :: .commit :: rest => (parse rest).map (fun ts => .updMeta :: ts)
  | _ => none

/-- Is the whole stream one the recorder is allowed to produce? -/
def accept (s : List Stmt) : Option (List Txn) :=
  if startup.isPrefixOf s then
    match parse (s.drop startup.length) with
    | some ts => if rowidsOk [] ts then some ts else none
    | none => none
  else none

/-- Number of cases whose transaction is complete within the first `j` statements after start-up. -/
def completeCases : List Txn → Nat → Nat
  | [], _ => 0
  | t :: ts, j =>
    if j < t.stmts.length then 0
    else (match t with | .case _ _ _ => 1 | _ => 0) + completeCases ts (j - t.stmts.length)

end OMV.C18
