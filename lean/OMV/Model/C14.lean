/-
C14 — `ExecComp` (openmdao/components/exec_comp.py): evaluation of the expressions and their
partial derivatives.

What is modelled, following the code as it is written:

* the expression language (`Expr`): literals, variables, `+ - * /`, unary minus, integer powers,
  unary and binary elementwise primitives taken from `_expr_dict` (given abstractly as a function
  with its derivative(s)), the reductions `sum`, `dot`/`inner`, and the non-elementwise accessors
  `a[k]` and `a[::-1]`.  Values are scalars or flattened arrays; NumPy broadcasting of a scalar or
  one-element array against an array is the index map `bidx`.  Evaluation `evalAt` is generic in
  the carrier (`Alg C`): the driver runs it over `Rat` and `Float`, the theorems over any field.
* `ExecComp.compute`/`_exec`: the compiled expressions are executed on *complex* arrays; to first
  order in the step (1e-40) complex arithmetic is dual-number arithmetic (`dualAlg`), the output is
  the real part (`valOut`), the imaginary part divided by the step is the dual part (`duOut`).
* `ExecComp._setup_partials`: which `(of, wrt)` pairs are declared (`Comp.declared`: the input
  occurs textually on the right-hand side), as dense or — under `has_diag_partials` when both have
  size > 1 — as diagonal (`Comp.decl`), and when coloring is requested (`Comp.wantsColoring`).
* `ExecComp.compute_partials`: one perturbation per input entry, or a single perturbation of all
  entries of an input when `has_diag_partials or psize == 1`, and how the resulting vector is
  stored (`DenseSubjac.set_val`: reshape, or fill when the value has one entry) — `partialEntry`.
  The switch `perEntryDense` selects the current code (`false`) or the proposed repair (`true`:
  dense partials of an array input are always computed entry by entry).
* `ExecComp._compute_colored_partials`: the scratch array, its zeroing, the column groups
  (`colStep`, `groupStep`, `coloredJac`).  The coloring itself (`_compute_coloring`, shared with
  property C03) is a parameter; `coloringOk` is the executable contract it must meet at the point
  of evaluation (it is computed once, near the first point, and the code never re-checks it).
  The switch `skipPiecewise` of `Comp.wantsColoring` selects the current `_setup_partials`
  (`false`) or the proposed repair (`true`: no automatic coloring when an expression uses
  `abs/maximum/minimum/fmax/fmin`).  Both switches are detected by the harness with a probe.

Not modelled (differential only): 2-D linear algebra (`matmul`, `tensordot`, `outer`, `kron`),
array creation (`arange`, `ones`, ...), `prod/max/min/diff`, units, `shape_by_conn` resolution.
Core Lean only.
-/
namespace OMV.C14

/-! ## Shapes and broadcasting -/

/-- A value is a NumPy scalar or a (flattened) array of `n` entries. -/
inductive Shape where
  | sc
  | arr (n : Nat)
  deriving DecidableEq, Repr

def Shape.size : Shape → Nat
  | .sc => 1
  | .arr n => n

/-- A scalar or a one-element array is broadcast against anything. -/
def Shape.broad : Shape → Bool
  | .sc => true
  | .arr n => n == 1

/-- Result shape of an elementwise binary operation (operands assumed compatible, see `wf`). -/
def Shape.bcast : Shape → Shape → Shape
  | .sc, s => s
  | s, .sc => s
  | .arr n, .arr m => if n == 1 then .arr m else .arr n

/-- Entry of an operand of shape `s` that contributes to entry `i` of the broadcast result. -/
def bidx (s : Shape) (i : Nat) : Nat := if s.broad then 0 else i

/-! ## Expressions -/

inductive Expr where
  | lit (q : Rat)
  | var (v : Nat)
  | neg (a : Expr)
  | add (a b : Expr)
  | sub (a b : Expr)
  | mul (a b : Expr)
  | div (a b : Expr)
  | powi (a : Expr) (n : Int)
  | prim (f : String) (a : Expr)
  | prim2 (f : String) (a b : Expr)
  | sum (a : Expr)
  | dot (a b : Expr)
  | idx (a : Expr) (k : Nat)
  | rev (a : Expr)
  deriving DecidableEq, Repr

/-- Input names found on the right-hand side (`ExecComp._parse_for_names`: purely textual). -/
def Expr.vars : Expr → List Nat
  | .lit _ => []
  | .var v => [v]
  | .neg a => a.vars
  | .add a b => a.vars ++ b.vars
  | .sub a b => a.vars ++ b.vars
  | .mul a b => a.vars ++ b.vars
  | .div a b => a.vars ++ b.vars
  | .powi a _ => a.vars
  | .prim _ a => a.vars
  | .prim2 _ a b => a.vars ++ b.vars
  | .sum a => a.vars
  | .dot a b => a.vars ++ b.vars
  | .idx a _ => a.vars
  | .rev a => a.vars

/-- Built only from elementwise operations (what `has_diag_partials` presupposes). -/
def Expr.elementwise : Expr → Bool
  | .lit _ => true
  | .var _ => true
  | .neg a => a.elementwise
  | .add a b => a.elementwise && b.elementwise
  | .sub a b => a.elementwise && b.elementwise
  | .mul a b => a.elementwise && b.elementwise
  | .div a b => a.elementwise && b.elementwise
  | .powi a _ => a.elementwise
  | .prim _ a => a.elementwise
  | .prim2 _ a b => a.elementwise && b.elementwise
  | .sum _ => false
  | .dot _ _ => false
  | .idx _ _ => false
  | .rev _ => false

/-- Shape of the value of an expression, given the shapes of the inputs. -/
def shapeOf (sh : Nat → Shape) : Expr → Shape
  | .lit _ => .sc
  | .var v => sh v
  | .neg a => shapeOf sh a
  | .add a b => (shapeOf sh a).bcast (shapeOf sh b)
  | .sub a b => (shapeOf sh a).bcast (shapeOf sh b)
  | .mul a b => (shapeOf sh a).bcast (shapeOf sh b)
  | .div a b => (shapeOf sh a).bcast (shapeOf sh b)
  | .powi a _ => shapeOf sh a
  | .prim _ a => shapeOf sh a
  | .prim2 _ a b => (shapeOf sh a).bcast (shapeOf sh b)
  | .sum _ => .sc
  | .dot _ _ => .sc
  | .idx _ _ => .sc
  | .rev a => shapeOf sh a

def Shape.compatible (s t : Shape) : Bool := s.broad || t.broad || s.size == t.size

def Shape.isArr : Shape → Bool
  | .sc => false
  | .arr _ => true

/-- NumPy would evaluate the expression without a shape error and with the meaning given by
`evalAt` (`dot` restricted to two 1-D arrays of equal length). Used by the driver only. -/
def wf (sh : Nat → Shape) : Expr → Bool
  | .lit _ => true
  | .var _ => true
  | .neg a => wf sh a
  | .add a b => wf sh a && wf sh b && (shapeOf sh a).compatible (shapeOf sh b)
  | .sub a b => wf sh a && wf sh b && (shapeOf sh a).compatible (shapeOf sh b)
  | .mul a b => wf sh a && wf sh b && (shapeOf sh a).compatible (shapeOf sh b)
  | .div a b => wf sh a && wf sh b && (shapeOf sh a).compatible (shapeOf sh b)
  | .powi a _ => wf sh a
  | .prim _ a => wf sh a
  | .prim2 _ a b => wf sh a && wf sh b && (shapeOf sh a).compatible (shapeOf sh b)
  | .sum a => wf sh a
  | .dot a b => wf sh a && wf sh b && (shapeOf sh a).isArr && (shapeOf sh b).isArr &&
      (shapeOf sh a).size == (shapeOf sh b).size
  | .idx a k => wf sh a && (shapeOf sh a).isArr && decide (k < (shapeOf sh a).size)
  | .rev a => wf sh a && (shapeOf sh a).isArr

/-! ## Evaluation over an arbitrary carrier -/

/-- The operations an expression needs from its carrier. -/
structure Alg (C : Type) where
  lit : Rat → C
  add : C → C → C
  sub : C → C → C
  mul : C → C → C
  div : C → C → C
  neg : C → C
  powi : C → Int → C
  prim : String → C → C
  prim2 : String → C → C → C

/-- `Σ_{j<n} f j`, left to right from `lit 0`. -/
def sumN {C : Type} (A : Alg C) (f : Nat → C) : Nat → C
  | 0 => A.lit 0
  | n + 1 => A.add (sumN A f n) (f n)

/-- Entry `i` of the value of an expression. `x v j` is entry `j` of input `v`. The caller passes
an index already reduced by `bidx (shapeOf sh e)`. -/
def evalAt {C : Type} (A : Alg C) (sh : Nat → Shape) (x : Nat → Nat → C) : Expr → Nat → C
  | .lit q, _ => A.lit q
  | .var v, i => x v i
  | .neg a, i => A.neg (evalAt A sh x a i)
  | .add a b, i => A.add (evalAt A sh x a (bidx (shapeOf sh a) i))
      (evalAt A sh x b (bidx (shapeOf sh b) i))
  | .sub a b, i => A.sub (evalAt A sh x a (bidx (shapeOf sh a) i))
      (evalAt A sh x b (bidx (shapeOf sh b) i))
  | .mul a b, i => A.mul (evalAt A sh x a (bidx (shapeOf sh a) i))
      (evalAt A sh x b (bidx (shapeOf sh b) i))
  | .div a b, i => A.div (evalAt A sh x a (bidx (shapeOf sh a) i))
      (evalAt A sh x b (bidx (shapeOf sh b) i))
  | .powi a n, i => A.powi (evalAt A sh x a i) n
  | .prim f a, i => A.prim f (evalAt A sh x a i)
  | .prim2 f a b, i => A.prim2 f (evalAt A sh x a (bidx (shapeOf sh a) i))
      (evalAt A sh x b (bidx (shapeOf sh b) i))
  | .sum a, _ => sumN A (fun j => evalAt A sh x a j) (shapeOf sh a).size
  | .dot a b, _ => sumN A (fun j => A.mul (evalAt A sh x a j) (evalAt A sh x b j))
      (shapeOf sh a).size
  | .idx a k, _ => evalAt A sh x a k
  | .rev a, i => evalAt A sh x a ((shapeOf sh a).size - 1 - i)

/-! ## Dual numbers: what a complex step computes to first order -/

structure Dual (K : Type) where
  re : K
  du : K
  deriving DecidableEq, Repr

/-- Derivatives of the primitives: `prim' f` for unary `f`, the two partials for binary `f`. -/
structure Deriv (K : Type) where
  prim' : String → K → K
  prim2a : String → K → K → K
  prim2b : String → K → K → K

/-- Arithmetic of `a + ε b` with `ε² = 0`, written with the operations of the base algebra. -/
def dualAlg {K : Type} (A : Alg K) (D : Deriv K) : Alg (Dual K) where
  lit q := ⟨A.lit q, A.lit 0⟩
  add a b := ⟨A.add a.re b.re, A.add a.du b.du⟩
  sub a b := ⟨A.sub a.re b.re, A.sub a.du b.du⟩
  mul a b := ⟨A.mul a.re b.re, A.add (A.mul a.du b.re) (A.mul a.re b.du)⟩
  div a b := ⟨A.div a.re b.re,
    A.div (A.sub (A.mul a.du b.re) (A.mul a.re b.du)) (A.mul b.re b.re)⟩
  neg a := ⟨A.neg a.re, A.neg a.du⟩
  powi a n := ⟨A.powi a.re n, A.mul (A.mul (A.lit (n : Rat)) (A.powi a.re (n - 1))) a.du⟩
  prim f a := ⟨A.prim f a.re, A.mul (D.prim' f a.re) a.du⟩
  prim2 f a b := ⟨A.prim2 f a.re b.re,
    A.add (A.mul (D.prim2a f a.re b.re) a.du) (A.mul (D.prim2b f a.re b.re) b.du)⟩

/-- The exact derivative by the differentiation rules (sum, product, quotient, power and chain
rule; reductions differentiate termwise): entry `i` of the directional derivative of the
expression at `x` along `d`. This is the specification of a partial derivative. -/
def tangentAt {K : Type} (A : Alg K) (D : Deriv K) (sh : Nat → Shape) (x d : Nat → Nat → K) :
    Expr → Nat → K
  | .lit _, _ => A.lit 0
  | .var v, i => d v i
  | .neg a, i => A.neg (tangentAt A D sh x d a i)
  | .add a b, i => A.add (tangentAt A D sh x d a (bidx (shapeOf sh a) i))
      (tangentAt A D sh x d b (bidx (shapeOf sh b) i))
  | .sub a b, i => A.sub (tangentAt A D sh x d a (bidx (shapeOf sh a) i))
      (tangentAt A D sh x d b (bidx (shapeOf sh b) i))
  | .mul a b, i =>
      A.add (A.mul (tangentAt A D sh x d a (bidx (shapeOf sh a) i))
                   (evalAt A sh x b (bidx (shapeOf sh b) i)))
            (A.mul (evalAt A sh x a (bidx (shapeOf sh a) i))
                   (tangentAt A D sh x d b (bidx (shapeOf sh b) i)))
  | .div a b, i =>
      A.div (A.sub (A.mul (tangentAt A D sh x d a (bidx (shapeOf sh a) i))
                          (evalAt A sh x b (bidx (shapeOf sh b) i)))
                   (A.mul (evalAt A sh x a (bidx (shapeOf sh a) i))
                          (tangentAt A D sh x d b (bidx (shapeOf sh b) i))))
            (A.mul (evalAt A sh x b (bidx (shapeOf sh b) i))
                   (evalAt A sh x b (bidx (shapeOf sh b) i)))
  | .powi a n, i =>
      A.mul (A.mul (A.lit (n : Rat)) (A.powi (evalAt A sh x a i) (n - 1)))
            (tangentAt A D sh x d a i)
  | .prim f a, i => A.mul (D.prim' f (evalAt A sh x a i)) (tangentAt A D sh x d a i)
  | .prim2 f a b, i =>
      A.add (A.mul (D.prim2a f (evalAt A sh x a (bidx (shapeOf sh a) i))
                               (evalAt A sh x b (bidx (shapeOf sh b) i)))
                   (tangentAt A D sh x d a (bidx (shapeOf sh a) i)))
            (A.mul (D.prim2b f (evalAt A sh x a (bidx (shapeOf sh a) i))
                               (evalAt A sh x b (bidx (shapeOf sh b) i)))
                   (tangentAt A D sh x d b (bidx (shapeOf sh b) i)))
  | .sum a, _ => sumN A (fun j => tangentAt A D sh x d a j) (shapeOf sh a).size
  | .dot a b, _ =>
      sumN A (fun j => A.add (A.mul (tangentAt A D sh x d a j) (evalAt A sh x b j))
                             (A.mul (evalAt A sh x a j) (tangentAt A D sh x d b j)))
        (shapeOf sh a).size
  | .idx a k, _ => tangentAt A D sh x d a k
  | .rev a, i => tangentAt A D sh x d a ((shapeOf sh a).size - 1 - i)

/-! ## The canonical algebra of a carrier with `+ - * /` -/

def npow {C : Type} [Mul C] [OfNat C 1] (x : C) : Nat → C
  | 0 => 1
  | n + 1 => npow x n * x

/-- Integer power (`x ** n` with a literal integer `n`). -/
def zpow {C : Type} [Mul C] [Div C] [OfNat C 1] (x : C) (n : Int) : C :=
  if n < 0 then 1 / npow x (-n).toNat else npow x n.toNat

def mkAlg {C : Type} [Add C] [Sub C] [Mul C] [Div C] [Neg C] [OfNat C 1]
    (lit : Rat → C) (prim : String → C → C) (prim2 : String → C → C → C) : Alg C where
  lit := lit
  add a b := a + b
  sub a b := a - b
  mul a b := a * b
  div a b := a / b
  neg a := -a
  powi := zpow
  prim := prim
  prim2 := prim2

/-! ## The exact instance run by the driver: `Rat`, with the piecewise-linear primitives -/

def isMaxName (f : String) : Bool := f == "maximum" || f == "fmax"
def isMinName (f : String) : Bool := f == "minimum" || f == "fmin"

/-- `abs` (as `cs_safe.abs`); every other unary name is outside the rational fragment. -/
def ratPrim (f : String) (x : Rat) : Rat := if f == "abs" then (if x < 0 then -x else x) else x
def ratPrim' (f : String) (x : Rat) : Rat :=
  if f == "abs" then (if x < 0 then -1 else if 0 < x then 1 else 0) else 0
def ratPrim2 (f : String) (a b : Rat) : Rat :=
  if isMaxName f then (if a < b then b else a)
  else if isMinName f then (if b < a then b else a) else a
def ratPrim2a (f : String) (a b : Rat) : Rat :=
  if isMaxName f then (if a < b then 0 else 1)
  else if isMinName f then (if b < a then 0 else 1) else 0
def ratPrim2b (f : String) (a b : Rat) : Rat :=
  if isMaxName f then (if a < b then 1 else 0)
  else if isMinName f then (if b < a then 1 else 0) else 0

def ratAlg : Alg Rat := mkAlg id ratPrim ratPrim2
def ratDeriv : Deriv Rat := ⟨ratPrim', ratPrim2a, ratPrim2b⟩

/-! ## Function-table names (tied to the live `_expr_dict` by `Generated/C14ExecFuncs.lean`) -/

/-- Unary elementwise functions that `Expr.prim` stands for. -/
def unaryNames : List String :=
  ["abs", "acos", "acosh", "arccos", "arccosh", "arcsin", "arcsinh", "arctan", "asin", "asinh",
   "atan", "cos", "cosh", "erf", "erfc", "exp", "expm1", "log", "log10", "log1p", "sin", "sinh",
   "tan", "tanh"]

/-- Binary elementwise functions that `Expr.prim2` stands for. -/
def binaryNames : List String := ["arctan2", "fmax", "fmin", "maximum", "minimum", "power"]

/-- Reductions with their own constructor (`inner` of two 1-D arrays is `dot`). -/
def reductionNames : List String := ["dot", "inner", "sum"]

/-- Non-callable entries of the table: numeric constants are literals of the model. -/
def constantNames : List String := ["e", "pi"]

/-- Entries of `_expr_dict` deliberately outside the Lean model (checked differentially only):
array creation, boolean tests, further reductions, 2-D linear algebra, and the two stub objects
that turn `np.`/`numpy.` prefixes into an error message. -/
def excludedNames : List String :=
  ["arange", "linspace", "ones", "zeros", "isinf", "isnan", "diff", "max", "min", "prod",
   "kron", "matmul", "outer", "tensordot", "np", "numpy"]

def modelledNames : List String := unaryNames ++ binaryNames ++ reductionNames ++ constantNames

/-! ## The component -/

/-- Inputs (in the order of `_indict`, i.e. of the input vector) and outputs (in the order of
`_var_rel_names['output']`) with the expression assigned to each output. -/
structure Comp where
  ins : List Shape
  outs : List (Shape × Expr)

def Comp.sh (c : Comp) (v : Nat) : Shape := c.ins.getD v .sc
def Comp.outShape (c : Comp) (u : Nat) : Shape := (c.outs.getD u (.sc, .lit 0)).1
def Comp.outExpr (c : Comp) (u : Nat) : Expr := (c.outs.getD u (.sc, .lit 0)).2

/-- `y[:] = value` succeeds (`_ViewDict.__setitem__`, without the squeeze fallback). -/
def Comp.wf (c : Comp) : Bool :=
  c.outs.all fun (s, e) =>
    OMV.C14.wf c.sh e && ((shapeOf c.sh e).broad || (shapeOf c.sh e).size == s.size) &&
    e.vars.all (· < c.ins.length)

/-- `_setup_partials`: the pair `(out u, in v)` is declared iff `v` occurs in the expression of
`u` (`ins = sorted(set(vs).difference(outs))`, `decl_partials(of=out, wrt=inp)`). -/
def Comp.declared (c : Comp) (u v : Nat) : Bool :=
  decide (u < c.outs.length) && decide (v < c.ins.length) && (c.outExpr u).vars.contains v

inductive Decl where
  | none      -- not declared: the sub-Jacobian is taken to be zero
  | dense
  | diag      -- `decl_partials(of=out, wrt=inp, diagonal=True)`
  | error     -- "has_diag_partials is True but partial(..) is not square"
  deriving DecidableEq, Repr

/-- `_setup_partials`, the `has_diag_partials` branch. -/
def Comp.decl (hd : Bool) (c : Comp) (u v : Nat) : Decl :=
  if c.declared u v then
    if hd && decide ((c.sh v).size > 1) && decide ((c.outShape u).size > 1) then
      if (c.outShape u).size ≠ (c.sh v).size then .error else .diag
    else .dense
  else .none

def sumSizes : List Shape → Nat
  | [] => 0
  | s :: r => s.size + sumSizes r

/-- Uses a function whose derivative vanishes identically on one side of a switch point
(`abs`, `maximum`, `minimum`, `fmax`, `fmin`), so that a sparsity pattern sampled at one point
need not hold at another. -/
def Expr.piecewise : Expr → Bool
  | .lit _ => false
  | .var _ => false
  | .neg a => a.piecewise
  | .add a b => a.piecewise || b.piecewise
  | .sub a b => a.piecewise || b.piecewise
  | .mul a b => a.piecewise || b.piecewise
  | .div a b => a.piecewise || b.piecewise
  | .powi a _ => a.piecewise
  | .prim f a => f == "abs" || a.piecewise
  | .prim2 f a b => isMaxName f || isMinName f || a.piecewise || b.piecewise
  | .sum a => a.piecewise
  | .dot a b => a.piecewise || b.piecewise
  | .idx a _ => a.piecewise
  | .rev a => a.piecewise

/-- `_setup_partials`: coloring is declared (and `options['do_coloring']` stays True) only when
not `has_diag_partials` and the component has more than one input entry and output entry.
`skipPiecewise` selects the proposed repair in which automatic coloring is also skipped when an
expression uses a piecewise function (current code: `false`). -/
def Comp.wantsColoring (skipPiecewise hd doColoring : Bool) (c : Comp) : Bool :=
  doColoring && !hd && decide (sumSizes c.ins > 1) && decide (sumSizes (c.outs.map (·.1)) > 1)
    && !(skipPiecewise && c.outs.any (·.2.piecewise))

/-- Value of `options['do_coloring']` after `_setup_partials`: it is switched off only on the
branch that considered coloring and decided against it. -/
def Comp.doColoringAfterSetup (skipPiecewise hd doColoring : Bool) (c : Comp) : Bool :=
  if doColoring && !hd then c.wantsColoring skipPiecewise hd doColoring else doColoring

section exec
variable {K : Type} (A : Alg K) (D : Deriv K)

/-- Pair value and perturbation direction into the complex (dual) input array `_inarray`. -/
def pairUp (x d : Nat → Nat → K) : Nat → Nat → Dual K := fun v i => ⟨x v i, d v i⟩

/-- `_exec` on the complex arrays, entry `r` of output `u` (`val[:] = value` broadcasts). -/
def execOut (c : Comp) (x d : Nat → Nat → K) (u r : Nat) : Dual K :=
  evalAt (dualAlg A D) c.sh (pairUp x d) (c.outExpr u) (bidx (shapeOf c.sh (c.outExpr u)) r)

/-- `compute`: the outputs are the real parts. -/
def valOut (c : Comp) (x : Nat → Nat → K) (u r : Nat) : K :=
  (execOut A D c x (fun _ _ => A.lit 0) u r).re

/-- `imag(out * inv_stepsize)`. -/
def duOut (c : Comp) (x d : Nat → Nat → K) (u r : Nat) : K := (execOut A D c x d u r).du

/-- `ival[idx] += step` for one entry. -/
def seedOne (v j : Nat) : Nat → Nat → K :=
  fun w i => if w = v ∧ i = j then A.lit 1 else A.lit 0

/-- `ival += step` for a whole input of `n` entries. -/
def seedAll (v n : Nat) : Nat → Nat → K :=
  fun w i => if w = v ∧ i < n then A.lit 1 else A.lit 0

/-- The exact partial derivative `∂ out_u[r] / ∂ in_v[j]` by the differentiation rules. -/
def jacSpec (c : Comp) (x : Nat → Nat → K) (u v r j : Nat) : K :=
  tangentAt A D c.sh x (seedOne A v j) (c.outExpr u) (bidx (shapeOf c.sh (c.outExpr u)) r)

/-- `DenseSubjac.set_val` with a flat vector `w` of `m` entries into a `rows × cols` array:
`reshape` when the sizes agree, fill when `w` has one entry ("backwards compatibility"),
otherwise `ValueError`. -/
def setDense (rows cols m : Nat) (w : Nat → K) (r j : Nat) : Option K :=
  if m = rows * cols then some (w (r * cols + j))
  else if m = 1 then some (w 0)
  else none

/-- `compute_partials` without coloring: entry `(r, j)` of the sub-Jacobian `(u, v)` as a dense
matrix (`none`: the pair is not declared, or the code raises). -/
def partialEntry (perEntryDense hd : Bool) (c : Comp) (x : Nat → Nat → K) (u v r j : Nat) :
    Option K :=
  let psize := (c.sh v).size
  let osize := (c.outShape u).size
  match c.decl hd u v with
  | .none => none
  | .error => none
  | .diag =>
    -- only under has_diag_partials: all entries perturbed at once, `DiagonalSubjac.set_val`
    some (if r = j then duOut A D c x (seedAll A v psize) u r else A.lit 0)
  | .dense =>
    if (hd || psize == 1) && !(perEntryDense && decide (psize > 1)) then
      setDense osize psize osize (fun k => duOut A D c x (seedAll A v psize) u k) r j
    else
      some (duOut A D c x (seedOne A v j) u r)

/-! ### Colored partials (`_compute_colored_partials`) -/

/-- Offset of input `v` in the flat input array. -/
def inOffset (c : Comp) (v : Nat) : Nat := sumSizes (c.ins.take v)
def outOffset (c : Comp) (u : Nat) : Nat := sumSizes ((c.outs.map (·.1)).take u)

/-- `(variable, local index)` of a flat position, walking the sizes (`_col_idx2name`,
`_in_slices`, `_out_slices`). Past the end: the pair `(number of variables, rest)`. -/
def locate : List Shape → Nat → Nat × Nat
  | [], k => (0, k)
  | s :: r, k => if k < s.size then (0, k) else
      let p := locate r (k - s.size); (p.1 + 1, p.2)

def colVar (c : Comp) (icol : Nat) : Nat × Nat := locate c.ins icol
def rowVar (c : Comp) (row : Nat) : Nat × Nat := locate (c.outs.map (·.1)) row

/-- `inarr[icols] += step`. -/
def seedCols (c : Comp) (icols : List Nat) : Nat → Nat → K :=
  fun w i => if w < c.ins.length ∧ i < (c.sh w).size ∧ (inOffset c w + i) ∈ icols then A.lit 1
    else A.lit 0

/-- `imag(oarr * inv_stepsize)` after `_exec` with the columns `icols` perturbed together. -/
def imagRow (c : Comp) (x : Nat → Nat → K) (icols : List Nat) (row : Nat) : K :=
  duOut A D c x (seedCols A c icols) (rowVar c row).1 (rowVar c row).2

/-- State of the colored loop: the scratch vector and the flat Jacobian being filled. -/
structure ColState (K : Type) where
  scratch : Nat → K
  jac : Nat → Nat → K

/-- One pass of `for icol, rows in zip(icols, nzrowlists)`: copy the nonzero rows of this column
into the scratch vector; for every output whose pair with the column's input is declared, store
its slice of the scratch vector as column `icol` and zero that slice. (`declRow row icol` says
that the output owning `row` has a declared pair with the input owning `icol`.) -/
def colStep (declRow : Nat → Nat → Bool) (imag : Nat → K) (st : ColState K)
    (cr : Nat × List Nat) : ColState K :=
  let s1 : Nat → K := fun row => if row ∈ cr.2 then imag row else st.scratch row
  { scratch := fun row => if declRow row cr.1 then A.lit 0 else s1 row
    jac := fun row col => if col = cr.1 ∧ declRow row cr.1 then s1 row else st.jac row col }

/-- One color: perturb, execute, `scratch[:] = 0`, then the columns of the group in order. -/
def groupStep (declRow : Nat → Nat → Bool) (imagOf : List Nat → Nat → K) (jac : Nat → Nat → K)
    (grp : List (Nat × List Nat)) : Nat → Nat → K :=
  (grp.foldl (colStep A declRow (imagOf (grp.map (·.1))))
    { scratch := fun _ => A.lit 0, jac := jac }).jac

/-- All colors, starting from the Jacobian `jac0` held before the call. -/
def coloredJac (declRow : Nat → Nat → Bool) (imagOf : List Nat → Nat → K)
    (jac0 : Nat → Nat → K) (coloring : List (List (Nat × List Nat))) : Nat → Nat → K :=
  coloring.foldl (groupStep A declRow imagOf) jac0

def Comp.declRow (c : Comp) (row icol : Nat) : Bool :=
  c.declared (rowVar c row).1 (colVar c icol).1

/-- `_compute_colored_partials`: entry `(r, j)` of the pair `(u, v)` afterwards. -/
def coloredEntry (c : Comp) (x : Nat → Nat → K) (coloring : List (List (Nat × List Nat)))
    (u v r j : Nat) : Option K :=
  if c.declared u v then
    some (coloredJac A c.declRow (imagRow A D c x) (fun _ _ => A.lit 0) coloring
      (outOffset c u + r) (inOffset c v + j))
  else none

def nodupB : List Nat → Bool
  | [] => true
  | a :: t => !t.contains a && nodupB t

/-- Run-time validation of a coloring handed over by `_compute_coloring` against the hypotheses of
`C14_colored_eq`: every column at most once; inside a group the row lists of different columns
are disjoint; listed rows belong to declared pairs; the listed rows of a column cover the
nonzeros of its single-column perturbation. -/
def coloringOk (isZero : K → Bool) (c : Comp) (x : Nat → Nat → K)
    (coloring : List (List (Nat × List Nat))) : Bool :=
  nodupB (coloring.flatten.map (·.1)) &&
  coloring.all fun grp =>
    grp.all (fun a => grp.all fun b => a.1 == b.1 || a.2.all fun row => !b.2.contains row) &&
    grp.all fun cr =>
      cr.2.all (fun row => c.declRow row cr.1) &&
      (List.range (sumSizes (c.outs.map (·.1)))).all fun row =>
        isZero (imagRow A D c x [cr.1] row) || cr.2.contains row

end exec

end OMV.C14
