/-
C29 — `openmdao/utils/file_wrap.py`: `InputFileGenerator` writes values into a template,
`FileParser` reads them back from the same location.

The model is literal to the code:

* a file is `_data`, a list of lines; a line is a string (`Text = List Char`);
* a *field* is one match of the generator's regular expression `'[^' + delimiter + '\n]+'`
  (`segs`); `re.sub` keeps everything between the matches (`plug`, `join`);
* `_SubHelper.replace / replace_array` are the state machines `replaceVar / replaceArr`
  (`_current_location`, `_counter`);
* `InputFileGenerator.mark_anchor / reset_anchor / transfer_var / transfer_array /
  transfer_2Darray` and `FileParser.mark_anchor / transfer_var / transfer_keyvar / transfer_array /
  transfer_2Darray` (delimiter mode, not `"columns"`) follow the code line by line, including
  Python's negative list indices and slices;
* `_getformat` is `getformat` (`int(val) == val` raises for nan / inf).

What the model does *not* define is the Python runtime: the text produced by `fmt % val` and
`str(val)` and pyparsing's conversion of one field into a value.  They are parameters (`Env.fmt`,
`Env.pystr`); the driver instantiates them with `fmtVal` over the executable reference `pctImpl`
(checked against CPython by the harness).  A field read by the parser is returned as its text.

The flag `fixed` selects the variant of the formatter that is total on floats (the proposed repair:
`NaN`, `Inf`, `-Inf` written for non-finite values, `-Inf` read back with its sign).

Core Lean only.
-/
namespace OMV.C29

abbrev Text := List Char

/-! ## 1. Values and formatting -/

/-- A Python `float`: not-a-number, an infinity, or a finite value (exact rational; the flag
distinguishes `-0.0`). -/
inductive Flt where
  | nan
  | inf (neg : Bool)
  | fin (q : Rat) (negZero : Bool)
  deriving DecidableEq

/-- A value handed to `transfer_var` / an element of an array. -/
inductive Val where
  | int (i : Int)
  | flt (f : Flt)
  | str (s : Text)
  deriving DecidableEq

/-- Exceptions of the real code, as a small enum. -/
inductive Err where
  | overflowError   -- int(inf)
  | valueError      -- int(nan); occurrence 0; missing fieldend
  | indexError      -- list index out of range
  | runtimeError    -- anchor not found
  | nameError       -- `newline` referenced before assignment (empty row range with overflow)
  | parseError      -- pyparsing: no field on the line
  | shape           -- numpy could not store a row of different length
  deriving DecidableEq

def Err.name : Err → String
  | .overflowError => "OverflowError"
  | .valueError => "ValueError"
  | .indexError => "IndexError"
  | .runtimeError => "RuntimeError"
  | .nameError => "NameError"
  | .parseError => "ParseException"
  | .shape => "shape"

/-- The two format strings `_getformat` can return. -/
inductive FmtSel where
  | f1    -- "%.1f"
  | g16   -- "%.16g"
  deriving DecidableEq

/-- `int(val)` of a finite float: truncation toward zero. -/
def truncate (q : Rat) : Int := Int.tdiv q.num q.den

/-- `file_wrap.py:_getformat` on a finite float: `"%.1f"` if `int(val) == val` else `"%.16g"`. -/
def getformatFin (q : Rat) : FmtSel :=
  if ((truncate q : Int) : Rat) = q then .f1 else .g16

/-- `file_wrap.py:_getformat`.  `int(val)` raises `ValueError` for nan and `OverflowError` for
an infinity, so no format is returned for them. -/
def getformat : Flt → Except Err FmtSel
  | .nan => .error .valueError
  | .inf _ => .error .overflowError
  | .fin q _ => .ok (getformatFin q)

/-- The Python runtime pieces used by the formatter. -/
structure Rt where
  /-- `fmt % val` -/
  pct : FmtSel → Flt → Text
  /-- `str(val)` of a float (used only for array elements beyond the template) -/
  strF : Flt → Text

/-- Text written for a float by `_SubHelper.replace/replace_array`:
`_getformat(val) % val`.  With `fixed` the non-finite values are written with the tokens the
parser reads (`NaN`, `Inf`, `-Inf`) instead of raising. -/
def fmtFloat (fixed : Bool) (rt : Rt) : Flt → Except Err Text
  | .nan => if fixed then .ok "NaN".toList else .error .valueError
  | .inf neg => if fixed then .ok (if neg then "-Inf".toList else "Inf".toList)
      else .error .overflowError
  | .fin q z => .ok (rt.pct (getformatFin q) (.fin q z))

/-- `isinstance(newtext, float)` → `_getformat(v) % v`, otherwise `str(v)`. -/
def fmtVal (fixed : Bool) (rt : Rt) : Val → Except Err Text
  | .int i => .ok (toString i).toList
  | .str s => .ok s
  | .flt f => fmtFloat fixed rt f

/-- `str(val)` (overflow branch of `transfer_array`). -/
def strVal (rt : Rt) : Val → Text
  | .int i => (toString i).toList
  | .str s => s
  | .flt f => rt.strF f

/-- The special tokens of `FileParser._reset_tokens` (`nan = _ToInf(oneOf("Inf -Inf")) |
_ToNan(oneOf("NaN nan NaN% NaNQ NaNS qNaN sNaN 1.#SNAN 1.#QNAN -1.#IND"))`).  `_ToInf.postParse`
returns `float('inf')` for both tokens; `fixed` returns the sign that was read. -/
def parseSpecial (fixed : Bool) (t : Text) : Option Flt :=
  if t = "Inf".toList then some (.inf false)
  else if t = "-Inf".toList then some (.inf fixed)
  else if t ∈ ["NaN", "nan", "NaN%", "NaNQ", "NaNS", "qNaN", "sNaN", "1.#SNAN", "1.#QNAN",
      "-1.#IND"].map String.toList then some .nan
  else none

/-! ### executable reference for `%.1f` / `%.16g` (driver side; the theorems do not use it) -/

def natDigits (n : Nat) : Text := Nat.toDigits 10 n

/-- round-half-even of a non-negative rational -/
def roundHalfEven (q : Rat) : Nat :=
  let f := q.floor.toNat
  let r := q - (f : Rat)
  if r < 1/2 then f else if 1/2 < r then f + 1 else if f % 2 = 0 then f else f + 1

def ratPow10 (e : Int) : Rat :=
  if 0 ≤ e then ((10 ^ e.toNat : Nat) : Rat) else 1 / ((10 ^ (-e).toNat : Nat) : Rat)

/-- decimal exponent `e` of a positive rational: `10^e ≤ a < 10^(e+1)` -/
def decExp (a : Rat) : Int :=
  let ln : Int := (natDigits a.num.toNat).length
  let ld : Int := (natDigits a.den).length
  if ratPow10 (ln - ld) ≤ a then ln - ld else ln - ld - 1

def stripZeros (t : Text) : Text := (t.reverse.dropWhile (· == '0')).reverse

def padLeft (n : Nat) (t : Text) : Text := List.replicate (n - t.length) '0' ++ t

/-- `'%.16g' % a` for a positive rational (correctly rounded, half-even, like CPython) -/
def fmtG16Pos (a : Rat) : Text :=
  let e0 := decExp a
  let m0 := roundHalfEven (a / ratPow10 (e0 - 15))
  let (m, e) := if m0 = 10 ^ 16 then (10 ^ 15, e0 + 1) else (m0, e0)
  let ds := natDigits m
  if e < -4 ∨ 16 ≤ e then
    let frac := stripZeros (ds.drop 1)
    let mant := ds.take 1 ++ (if frac.isEmpty then [] else '.' :: frac)
    let ex := padLeft 2 (natDigits e.natAbs)
    mant ++ ['e', if e < 0 then '-' else '+'] ++ ex
  else if 0 ≤ e then
    let ip := ds.take (e.toNat + 1)
    let frac := stripZeros (ds.drop (e.toNat + 1))
    ip ++ (if frac.isEmpty then [] else '.' :: frac)
  else
    '0' :: '.' :: (List.replicate ((-e).toNat - 1) '0' ++ stripZeros ds)

/-- `'%.1f' % a` for a non-negative rational -/
def fmtF1Pos (a : Rat) : Text :=
  let m := roundHalfEven (a * 10)
  natDigits (m / 10) ++ ['.'] ++ natDigits (m % 10)

def pctImpl (s : FmtSel) : Flt → Text
  | .nan => "nan".toList
  | .inf neg => if neg then "-inf".toList else "inf".toList
  | .fin q z =>
    let neg := q < 0 ∨ (q = 0 ∧ z = true)
    let a := if q < 0 then -q else q
    let body := match s with
      | .f1 => fmtF1Pos a
      | .g16 => if a = 0 then ['0'] else fmtG16Pos a
    if neg then '-' :: body else body

/-! ## 2. Fields of a line: the regular expression `[^<delimiters>\n]+` and `re.sub` -/

/-- A character that cannot belong to a field: a delimiter character or the newline. -/
def isSep (delims : Text) (c : Char) : Bool := c == '\n' || delims.contains c

/-- A line cut into maximal runs. -/
inductive Seg where
  | tok (t : Text)   -- one match of the regular expression: a field
  | sep (s : Text)   -- the characters between two matches
  deriving DecidableEq

/-- Maximal runs of non-separator (`tok`) and separator (`sep`) characters, in order. -/
def segs (p : Char → Bool) : Text → List Seg
  | [] => []
  | c :: cs =>
    match segs p cs with
    | .tok t :: r => if p c then .sep [c] :: .tok t :: r else .tok (c :: t) :: r
    | .sep s :: r => if p c then .sep (c :: s) :: r else .tok [c] :: .sep s :: r
    | [] => if p c then [.sep [c]] else [.tok [c]]

def Seg.text : Seg → Text
  | .tok t => t
  | .sep s => s

/-- The line spelled by a list of runs. -/
def join : List Seg → Text
  | [] => []
  | s :: r => s.text ++ join r

/-- The fields of a line, in order. -/
def toks : List Seg → List Text
  | [] => []
  | .tok t :: r => t :: toks r
  | .sep _ :: r => toks r

/-- `re.sub`: the k-th match is replaced by the k-th new text, everything else is kept. -/
def plug : List Seg → List Text → List Seg
  | [], _ => []
  | .sep s :: r, ns => .sep s :: plug r ns
  | .tok _ :: r, n :: ns => .tok n :: plug r ns
  | .tok t :: r, [] => .tok t :: plug r []

/-- The fields of a line under a separator predicate. -/
def fields (p : Char → Bool) (line : Text) : List Text := toks (segs p line)

/-! ## 3. `_SubHelper` -/

/-- All replacement callbacks ran without raising: the new field texts; otherwise the first
exception (callbacks run left to right). -/
def allOk : List (Except Err Text) → Except Err (List Text)
  | [] => .ok []
  | .error e :: _ => .error e
  | .ok t :: r =>
    match allOk r with
    | .ok ts => .ok (t :: ts)
    | .error e => .error e

/-- `_SubHelper.replace` applied to the successive matches of a line; `cur` is
`_current_location` before the match. -/
def replaceVar (fmt : Val → Except Err Text) (v : Val) (loc : Int) :
    Nat → List Text → List (Except Err Text)
  | _, [] => []
  | cur, t :: ts =>
    let cur := cur + 1
    (if (cur : Int) = loc then fmt v else .ok t) :: replaceVar fmt v loc cur ts

/-- `_SubHelper.replace_array` applied to the successive matches of a line; `cur` is
`_current_location`, `k` is `_counter`.  Returns the callbacks' results and the final `_counter`. -/
def replaceArr (fmt : Val → Except Err Text) (vals : List Val) (st en : Int) :
    Nat → Nat → List Text → List (Except Err Text) × Nat
  | _, k, [] => ([], k)
  | cur, k, t :: ts =>
    let cur := cur + 1
    match (if st ≤ (cur : Int) ∧ (cur : Int) ≤ en then vals[k]? else none) with
    | some v =>
      let r := replaceArr fmt vals st en cur (k + 1) ts
      (fmt v :: r.1, r.2)
    | none =>
      let r := replaceArr fmt vals st en cur k ts
      (.ok t :: r.1, r.2)

/-! ## 4. Python list indexing -/

/-- `l[i]` index resolution: negative indices count from the end. -/
def pyIdx (n : Nat) (i : Int) : Option Nat :=
  if 0 ≤ i then (if i < n then some i.toNat else none)
  else if 0 ≤ (n : Int) + i then some ((n : Int) + i).toNat else none

def pyGet {α : Type} (l : List α) (i : Int) : Except Err α :=
  match pyIdx l.length i with
  | some k => match l[k]? with
    | some x => .ok x
    | none => .error .indexError
  | none => .error .indexError

/-- `l[i] = x` (only used after `l[i]` succeeded) -/
def pySet {α : Type} (l : List α) (i : Int) (x : α) : List α :=
  match pyIdx l.length i with
  | some k => l.set k x
  | none => l

/-- slice bound clamping of `l[a:b]` -/
def clampIdx (n : Nat) (i : Int) : Nat :=
  if i < 0 then ((n : Int) + i).toNat else min i.toNat n

/-- `l[a:b]` (`b = none` is `l[a:]`) -/
def pySlice {α : Type} (l : List α) (a : Int) (b : Option Int) : List α :=
  let lo := clampIdx l.length a
  let hi := match b with
    | none => l.length
    | some b => clampIdx l.length b
  (l.drop lo).take (hi - lo)

/-- `range(a, b + 1)` -/
def rowRange (a b : Int) : List Int := (List.range (b + 1 - a).toNat).map (fun (k : Nat) => a + (k : Int))

/-! ## 5. Substring search used by the anchors -/

/-- `a in line` / `line.find(a) > -1` -/
def hasSub (a : Text) : Text → Bool
  | [] => a.isPrefixOf []
  | c :: cs => a.isPrefixOf (c :: cs) || hasSub a cs

/-- `line.split(a)[0]`: the text before the first occurrence. -/
def beforeFirst (a : Text) : Text → Text
  | [] => []
  | c :: cs => if a.isPrefixOf (c :: cs) then [] else c :: beforeFirst a cs

/-- `line.split(a)[-1]`, scanning as `str.split` does: left to right, occurrences do not overlap.
`skip` characters of the occurrence just found remain to be passed over, `cand` is the text after
the last occurrence found so far. -/
def afterLastGo (a : Text) : Nat → Text → Text → Text
  | _, [], cand => cand
  | skip + 1, _ :: cs, cand => afterLastGo a skip cs cand
  | 0, c :: cs, cand =>
    if a.isPrefixOf (c :: cs) then afterLastGo a (a.length - 1) cs ((c :: cs).drop a.length)
    else afterLastGo a 0 cs cand

def afterLast (a : Text) (l : Text) : Text := afterLastGo a 0 l l

/-- `line.replace(a, b)` (left to right, occurrences do not overlap). -/
def replaceGo (a b : Text) : Nat → Text → Text
  | _, [] => []
  | skip + 1, _ :: cs => replaceGo a b skip cs
  | 0, c :: cs =>
    if a.isPrefixOf (c :: cs) then b ++ replaceGo a b (a.length - 1) cs
    else c :: replaceGo a b 0 cs

def pyReplace (a b l : Text) : Text := replaceGo a b 0 l

/-! ## 6. Anchors (`mark_anchor` is the same loop in both classes) -/

/-- Position of a generator or parser: `_data`, `_current_row`, `_anchored`. -/
structure St where
  data : List Text
  cur : Nat
  anchored : Bool

/-- Forward loop of `mark_anchor` over `self._data[self._current_row:]`: `count` lines have been
passed, `need` more lines containing the anchor have to be seen (`occurrence - instance`).
Returns `count` of the selected line. -/
def fwdGo (a : Text) (anchored : Bool) : List Text → Nat → Nat → Option Nat
  | [], _, _ => none
  | l :: ls, count, need =>
    let line := if count = 0 ∧ anchored = true then afterLast a l else l
    if hasSub a line then
      (if need = 1 then some count else fwdGo a anchored ls (count + 1) (need - 1))
    else fwdGo a anchored ls (count + 1) need

/-- Backward loop of `mark_anchor` over `range(max_lines, -1, -1)`; the list is `_data` reversed,
`count` is the index of its head.  Returns the index of the selected line. -/
def bwdGo (a : Text) (anchored : Bool) (maxLines : Nat) : List Text → Nat → Nat → Option Nat
  | [], _, _ => none
  | l :: ls, count, need =>
    let line := if count = maxLines ∧ anchored = true then beforeFirst a l else l
    if hasSub a line then
      (if need = 1 then some count else bwdGo a anchored maxLines ls (count - 1) (need - 1))
    else bwdGo a anchored maxLines ls (count - 1) need

/-- `mark_anchor(anchor, occurrence)` -/
def St.markAnchor (s : St) (a : Text) (occ : Int) : Except Err St :=
  if 0 < occ then
    match fwdGo a s.anchored (s.data.drop s.cur) 0 occ.toNat with
    | some count => .ok { s with cur := s.cur + count, anchored := true }
    | none => .error .runtimeError
  else if occ < 0 then
    match bwdGo a s.anchored (s.data.length - 1) s.data.reverse (s.data.length - 1) (-occ).toNat with
    | some count => .ok { s with cur := count, anchored := true }
    | none => .error .runtimeError
  else .error .valueError

/-- `reset_anchor()` -/
def St.resetAnchor (s : St) : St := { s with cur := 0, anchored := false }

/-! ## 7. `InputFileGenerator.transfer_*` -/

/-- What the generator needs besides the file: its separator predicate and the formatter. -/
structure Env where
  sepG : Char → Bool
  fmt : Val → Except Err Text
  pystr : Val → Text
  /-- repaired variant of the overflow branch of `transfer_array`: the line ending removed by
  `rstrip()` is put back (`false` = the code as it is) -/
  keepEol : Bool := false

/-- `re.sub(self._reg, sub.replace, line)` with `sub.set(value, field)` -/
def subVarLine (E : Env) (v : Val) (field : Int) (line : Text) : Except Err Text :=
  let sg := segs E.sepG line
  match allOk (replaceVar E.fmt v field 0 (toks sg)) with
  | .ok new => .ok (join (plug sg new))
  | .error e => .error e

/-- `InputFileGenerator.transfer_var(value, row, field)` -/
def St.transferVar (s : St) (E : Env) (v : Val) (row field : Int) : Except Err St :=
  let j := (s.cur : Int) + row
  match pyGet s.data j with
  | .error e => .error e
  | .ok line =>
    match subVarLine E v field line with
    | .error e => .error e
    | .ok newline => .ok { s with data := pySet s.data j newline }

/-- `re.sub(self._reg, sub.replace_array, line)` after `sub.set_array(value, st, en)`;
`k` is `sub._counter` before the line, the second component is `sub._counter` after it. -/
def subArrLine (E : Env) (vals : List Val) (st en : Int) (k : Nat) (line : Text) :
    Except Err (Text × Nat) :=
  let sg := segs E.sepG line
  let r := replaceArr E.fmt vals st en 0 k (toks sg)
  match allOk r.1 with
  | .ok new => .ok (join (plug sg new), r.2)
  | .error e => .error e

/-- State of the row loop of `transfer_array`: the lines, `sub._counter`, and the loop variables
`(j, newline)` of the last iteration (the overflow branch uses them after the loop). -/
structure ArrSt where
  data : List Text
  counter : Nat
  last : Option (Int × Text)

/-- The row loop of `transfer_array`: `fs` is `field_start` (0 after the first row), the last row
uses `field_end`, the others 99999. -/
def arrLoop (E : Env) (vals : List Val) (cur : Nat) (fe rowEnd : Int) :
    List Int → Int → ArrSt → Except Err ArrSt
  | [], _, a => .ok a
  | row :: rows, fs, a =>
    let j := (cur : Int) + row
    match pyGet a.data j with
    | .error e => .error e
    | .ok line =>
      let fEnd := if row = rowEnd then fe else 99999
      match subArrLine E vals fs fEnd a.counter line with
      | .error e => .error e
      | .ok (newline, k) =>
        arrLoop E vals cur fe rowEnd rows 0
          { data := pySet a.data j newline, counter := k, last := some (j, newline) }

def isPyWs (c : Char) : Bool :=
  c == ' ' || c == '\t' || c == '\n' || c == '\r' || c == '\x0b' || c == '\x0c'

/-- `str.rstrip()` -/
def rstrip (t : Text) : Text := (t.reverse.dropWhile isPyWs).reverse

/-- the trailing `\r` / `\n` characters of a line: `newline[len(newline.rstrip('\r\n')):]` -/
def lineEnd (t : Text) : Text := (t.reverse.takeWhile (fun c => c == '\n' || c == '\r')).reverse

/-- `InputFileGenerator.transfer_array(value, row_start, field_start, field_end, row_end, sep)`.
Values that did not fit are appended to the last line processed:
`newline = newline.rstrip() + sep + str(val)` — the `rstrip` also removes that line's newline. -/
def St.transferArray (s : St) (E : Env) (vals : List Val) (rowStart fieldStart fieldEnd : Int)
    (rowEnd : Option Int) (sep : Text) : Except Err St :=
  let rowEnd := rowEnd.getD rowStart
  match arrLoop E vals s.cur fieldEnd rowEnd (rowRange rowStart rowEnd) fieldStart
      { data := s.data, counter := 0, last := none } with
  | .error e => .error e
  | .ok a =>
    if a.counter < vals.length then
      match a.last with
      | none => .error .nameError
      | some (j, newline) =>
        let nl := (vals.drop a.counter).foldl (fun acc v => rstrip acc ++ sep ++ E.pystr v) newline
        let nl := if E.keepEol then nl ++ lineEnd newline else nl
        .ok { s with data := pySet a.data j nl }
    else .ok { s with data := a.data }

/-- The row loop of `transfer_2Darray`: row `i` of the array goes to line `row_start + i`,
`sub._counter` restarts on every line. -/
def arr2Loop (E : Env) (cur : Nat) (fs fe : Int) :
    List Int → List (List Val) → List Text → Except Err (List Text)
  | [], _, data => .ok data
  | _ :: _, [], _ => .error .indexError       -- value[i, :] beyond the array
  | row :: rows, vr :: vrs, data =>
    let j := (cur : Int) + row
    match pyGet data j with
    | .error e => .error e
    | .ok line =>
      match subArrLine E vr fs fe 0 line with
      | .error e => .error e
      | .ok (newline, _) => arr2Loop E cur fs fe rows vrs (pySet data j newline)

/-- `InputFileGenerator.transfer_2Darray(value, row_start, row_end, field_start, field_end)` -/
def St.transfer2D (s : St) (E : Env) (vals : List (List Val))
    (rowStart rowEnd fieldStart fieldEnd : Int) : Except Err St :=
  match arr2Loop E s.cur fieldStart fieldEnd (rowRange rowStart rowEnd) vals s.data with
  | .error e => .error e
  | .ok d => .ok { s with data := d }

/-! ## 8. `FileParser.transfer_*` (delimiter mode) -/

/-- `generate()` writes `''.join(_data)`; `FileParser.set_file` reads it back with `readlines()`:
a new line starts after every newline character. -/
def readlines : Text → List Text
  | [] => []
  | c :: cs =>
    if c = '\n' then [c] :: readlines cs
    else match readlines cs with
      | [] => [[c]]
      | l :: ls => (c :: l) :: ls

/-- Fields of a line as `self._parse_line().parseString(line)` returns them (as text):
pyparsing skips the delimiter characters, stops at the newline, and needs at least one field. -/
def parseLine (sepP : Char → Bool) (line : Text) : Except Err (List Text) :=
  match fields sepP line with
  | [] => .error .parseError
  | fs => .ok fs

/-- `FileParser.transfer_var(row, field)` -/
def St.readVar (s : St) (sepP : Char → Bool) (row field : Int) : Except Err Text :=
  match pyGet s.data ((s.cur : Int) + row) with
  | .error e => .error e
  | .ok line =>
    match parseLine sepP line with
    | .error e => .error e
    | .ok fs => pyGet fs (field - 1)

/-- The line loop of `FileParser.transfer_array`: line number `i` of `n = j2 - j1` nominal lines. -/
def readArrGo (sepP : Char → Bool) (fe : Int) (n : Int) :
    List Text → Int → Int → Except Err (List Text)
  | [], _, _ => .ok []
  | line :: rest, i, fs =>
    match parseLine sepP line with
    | .error e => .error e
    | .ok parsed =>
      let part := if i = n - 1 then pySlice parsed (fs - 1) (some fe) else pySlice parsed (fs - 1) none
      match readArrGo sepP fe n rest (i + 1) 1 with
      | .error e => .error e
      | .ok r => .ok (part ++ r)

/-- `FileParser.transfer_array(rowstart, fieldstart, rowend, fieldend)` -/
def St.readArray (s : St) (sepP : Char → Bool) (rowStart fieldStart : Int) (rowEnd : Option Int)
    (fieldEnd : Int) : Except Err (List Text) :=
  let j1 := (s.cur : Int) + rowStart
  let j2 := match rowEnd with
    | none => j1 + 1
    | some re => (s.cur : Int) + re + 1
  if fieldEnd = 0 then .error .valueError
  else readArrGo sepP fieldEnd (j2 - j1) (pySlice s.data j1 (some j2)) 0 fieldStart

/-- `if fieldend:` — `None` and `0` both mean "to the end of the line". -/
def truthyInt : Option Int → Option Int
  | some 0 => none
  | x => x

/-- rows of `FileParser.transfer_2Darray` -/
def read2DGo (sepP : Char → Bool) (fs : Int) (fe : Option Int) :
    List Text → Except Err (List (List Text))
  | [] => .ok []
  | line :: rest =>
    match parseLine sepP line with
    | .error e => .error e
    | .ok parsed =>
      match read2DGo sepP fs fe rest with
      | .error e => .error e
      | .ok r => .ok (pySlice parsed (fs - 1) fe :: r)

/-- `FileParser.transfer_2Darray(rowstart, fieldstart, rowend, fieldend)`: the rows read, as lists
of field texts, and the number of rows of the array returned (`abs(j2 - j1)`; rows for which the
file has no line stay zero).  numpy stores the rows in a `(rows, len(first row))` array; rows of
another length are not modelled (`shape`). -/
def St.read2D (s : St) (sepP : Char → Bool) (rowStart fieldStart rowEnd : Int)
    (fieldEnd : Option Int) : Except Err (List (List Text) × Nat) :=
  let fe := truthyInt fieldEnd
  if fe.any (fun e => decide (e < fieldStart)) = true then .error .valueError
  else if rowEnd < rowStart then .error .valueError
  else
    let j1 := (s.cur : Int) + rowStart
    let j2 := (s.cur : Int) + rowEnd + 1
    match pySlice s.data j1 (some j2) with
    | [] => .error .indexError      -- lines[0]
    | lines =>
      match read2DGo sepP fieldStart fe lines with
      | .error e => .error e
      | .ok rows =>
        match rows with
        | [] => .error .indexError
        | r0 :: _ =>
          if rows.all (fun r => r.length = r0.length) then .ok (rows, (j2 - j1).natAbs)
          else .error .shape

/-- row offset loop of `transfer_keyvar`, forward: first line (from the current row) that is the
`need`-th one containing the key; if there is none the loop runs off the end. -/
def keyFwd (key : Text) : List Text → Nat → Nat → Nat
  | [], row, _ => row
  | l :: ls, row, need =>
    if hasSub key l then (if need = 1 then row else keyFwd key ls (row + 1) (need - 1))
    else keyFwd key ls (row + 1) need

/-- `FileParser.transfer_keyvar(key, field, occurrence, rowoffset)` -/
def St.readKeyvar (s : St) (sepP : Char → Bool) (key : Text) (field occ rowoffset : Int) :
    Except Err Text :=
  if occ = 0 then .error .valueError
  else
    let tail := s.data.drop s.cur
    let row : Int :=
      if 0 < occ then (keyFwd key tail 0 occ.toNat : Nat)
      else -1 - (keyFwd key tail.reverse 0 (-occ).toNat : Nat)
    match pyGet s.data ((s.cur : Int) + row + rowoffset) with
    | .error e => .error e
    | .ok line =>
      match parseLine sepP (pyReplace key "KeyField".toList line) with
      | .error e => .error e
      | .ok fs => pyGet fs field

end OMV.C29
