/-
C24 — relevance pruning of linear solves on a feed-forward (topologically ordered) model.

Variables are numbered in execution order; the (forward-mode) linear solve is the forward
substitution  x k = seed k + Σ_{j<k} W k j * x j   (a LinearRunOnce sweep: each subsystem applies
its partials to what arrived from upstream).  `reach` is forward reachability from the seeds in the
graph `wNZ` (utils/relevance.py: fwd relevance array), `infl r` reverse reachability from the
response `r` (rev relevance array); `valSkip keep` is the same sweep with the subsystems outside
`keep` skipped (their linear outputs stay zero) — Relevance.filter.  Core Lean only.
-/
namespace OMV.C24

def sumList {K : Type} [Add K] [OfNat K 0] (l : List K) : K := l.foldr (· + ·) 0

variable {K : Type} [Add K] [Mul K] [OfNat K 0]

def val (seed : Nat → K) (W : Nat → Nat → K) : Nat → K
  | k => seed k + sumList ((List.range k).attach.map (fun j => W k j.1 * val seed W j.1))
termination_by k => k
decreasing_by exact List.mem_range.mp j.2

def valSkip (keep : Nat → Bool) (seed : Nat → K) (W : Nat → Nat → K) : Nat → K
  | k => if keep k then
      seed k + sumList ((List.range k).attach.map (fun j => W k j.1 * valSkip keep seed W j.1))
    else 0
termination_by k => k
decreasing_by exact List.mem_range.mp j.2

/-- forward reachability from the seeded variables -/
def reach (seedNZ : Nat → Bool) (wNZ : Nat → Nat → Bool) : Nat → Bool
  | k => seedNZ k || (List.range k).attach.any (fun j => wNZ k j.1 && reach seedNZ wNZ j.1)
termination_by k => k
decreasing_by exact List.mem_range.mp j.2

/-- `k` influences the response `r` (reverse reachability from `r`) -/
def infl (wNZ : Nat → Nat → Bool) (r : Nat) (k : Nat) : Bool :=
  decide (k = r) ||
    (List.range (r - k)).attach.any (fun t => wNZ (k + 1 + t.1) k && infl wNZ r (k + 1 + t.1))
termination_by r - k
decreasing_by
  have := List.mem_range.mp t.2
  omega

end OMV.C24
