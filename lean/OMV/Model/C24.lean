/-
C24 — relevance pruning of linear solves on a feed-forward (topologically ordered) model.

Variables are numbered in execution order; the (forward-mode) linear solve is the forward
substitution  x k = seed k + Σ_{j<k} W k j * x j   (a LinearRunOnce sweep: each subsystem applies
its partials to what arrived from upstream).  `reach` is forward reachability from the seeds in the
graph `wNZ` (utils/relevance.py: fwd relevance array), `infl r` reverse reachability from the
response `r` (rev relevance array); `valSkip keep` is the same sweep with the subsystems outside
`keep` skipped (their linear outputs stay zero) — Relevance.filter.  Core Lean only.
-/
namespace OMV.C24

def sumList {K : Type} [Add K] [OfNat K 0] (l : List K) : K := l.foldr (· + ·) 0

variable {K : Type} [Add K] [Mul K] [OfNat K 0]

def val (seed : Nat → K) (W : Nat → Nat → K) : Nat → K
  | k => seed k + sumList ((List.range k).attach.map (fun j => W k j.1 * val seed W j.1))
termination_by k => k
decreasing_by exact List.mem_range.mp j.2

def valSkip (keep : Nat → Bool) (seed : Nat → K) (W : Nat → Nat → K) : Nat → K
  | k => if keep k then
      seed k + sumList ((List.range k).attach.map (fun j => W k j.1 * valSkip keep seed W j.1))
    else 0
termination_by k => k
decreasing_by exact List.mem_range.mp j.2

/-- forward reachability from the seeded variables -/
def reach (seedNZ : Nat → Bool) (wNZ : Nat → Nat → Bool) : Nat → Bool
  | k => seedNZ k || (List.range k).attach.any (fun j => wNZ k j.1 && reach seedNZ wNZ j.1)
termination_by k => k
decreasing_by exact List.mem_range.mp j.2

/-- `k` influences the response `r` (reverse reachability from `r`) -/
def infl (wNZ : Nat → Nat → Bool) (r : Nat) (k : Nat) : Bool :=
  decide (k = r) ||
    (List.range (r - k)).attach.any (fun t => wNZ (k + 1 + t.1) k && infl wNZ r (k + 1 + t.1))
termination_by r - k
decreasing_by
  have := List.mem_range.mp t.2
  omega

/-! ### Which fd/cs approximations a component carries out, over a history of compute_totals calls

`Component._add_approximations` (core/component.py) runs whenever the relevance seen by the component
has changed.  It re-creates the approximation schemes, asks `_get_approx_subjac_keys` for the declared
approximated partials whose method has a scheme and whose `wrt` is relevant, gives each such `wrt` to
the scheme of the *last* key that mentions it, and drops the schemes left empty.  The only state that
survives from one call to the next is the set of methods that still have a scheme (`live`).
`fixed = false` is the pinned snapshot (methods re-created = the live ones), `fixed = true` the tree
after `fix:` 6c333d2 (the live ones plus every declared method).  Variables and methods are numbers. -/

structure Decl where
  of : Nat
  wrt : Nat
  method : Nat
deriving DecidableEq, Repr

/-- append every declared method that is not in the list yet -/
def addMethods : List Nat → List Decl → List Nat
  | ms, [] => ms
  | ms, d :: ds => addMethods (if ms.contains d.method then ms else ms ++ [d.method]) ds

def methodsOf (fixed : Bool) (live : List Nat) (decls : List Decl) : List Nat :=
  if fixed then addMethods live decls else live

/-- `_approx_subjac_keys_iter` + the relevance filter of `_get_approx_subjac_keys` -/
def approxKeys (methods : List Nat) (rel : Nat → Bool) (decls : List Decl) : List Decl :=
  decls.filter (fun d => methods.contains d.method && rel d.wrt)

/-- "go through subjac keys in reverse and only add approx for the last of each wrt" -/
def lastOfEachWrt : List Decl → List Decl
  | [] => []
  | d :: ds => if ds.any (fun e => e.wrt == d.wrt) then lastOfEachWrt ds else d :: lastOfEachWrt ds

/-- the `wrt` variables the scheme of method `m` perturbs -/
def schemeWrts (methods : List Nat) (rel : Nat → Bool) (decls : List Decl) (m : Nat) : List Nat :=
  ((lastOfEachWrt (approxKeys methods rel decls)).filter (fun d => d.method == m)).map (·.wrt)

/-- one `_add_approximations` call under relevance `rel`: the methods that keep a scheme -/
def approxStep (fixed : Bool) (decls : List Decl) (live : List Nat) (rel : Nat → Bool) : List Nat :=
  (methodsOf fixed live decls).filter
    (fun m => !(schemeWrts (methodsOf fixed live decls) rel decls m).isEmpty)

/-- what a call made in state `live` under relevance `rel` gives to the scheme of method `m` -/
def approxQuery (fixed : Bool) (decls : List Decl) (live : List Nat) (rel : Nat → Bool) (m : Nat) :
    List Nat :=
  schemeWrts (methodsOf fixed live decls) rel decls m

end OMV.C24
