/-
C04 — from index *specifications* to the flat positions of a connection.

`OMV.Spec.chainPos` composes levels that are already lists of flat positions.  Here the levels are
what the user writes (`src_indices` / `flat_src_indices` on a `connect` or on a `promotes`), and the
positions of every level are computed by the model of OpenMDAO's indexer (`OMV.C05.omIndexer`,
utils/indexer.py) on the shape that the previous level left (core/conn_graph.py:get_src_index_array:
`shaped_instance` per level, then `current = current[inds]`).  `chainSpecsNp` is the same chain
with NumPy's semantics (`OMV.C05.npIndex`) at every level.  Core Lean only.
-/
import OMV.Model.Spec
import OMV.Model.C05

namespace OMV.C04Idx
open OMV.C05

/-- the shape an index of one level is applied to: the flattened source when `flat_src_indices` -/
def levelShape (shape : List Nat) (flat : Bool) : List Nat := if flat then [prod shape] else shape

/-- OpenMDAO's indexer on one level: flat positions (into the C-order value of that level) and the
shape it leaves -/
def levelOm (shape : List Nat) (spec : Spec) (flat : Bool) : R (List Nat × List Nat) := do
  let o ← omIndexer spec shape flat
  let p ← o.positions
  let s ← o.rshape
  pure (p.map Int.toNat, s)

/-- NumPy on one level -/
def levelNp (shape : List Nat) (spec : Spec) (flat : Bool) : R (List Nat × List Nat) :=
  npIndex (levelShape shape flat) spec

/-- positions of every level, the shape threaded through the chain -/
def chainWith (level : List Nat → Spec → Bool → R (List Nat × List Nat)) :
    List Nat → List (Spec × Bool) → R (List (List Nat))
  | _, [] => pure []
  | shape, (sp, fl) :: rest => do
    let r ← level shape sp fl
    let ps ← chainWith level r.2 rest
    pure (r.1 :: ps)

def chainSpecsOm := chainWith levelOm
def chainSpecsNp := chainWith levelNp

/-- the flat source positions of the connected input: all levels composed on `arange(prod shape)` -/
def connPositions (shape : List Nat) (levels : List (Spec × Bool)) : R (List Nat) :=
  (chainSpecsOm shape levels).map (OMV.Spec.chainPos (prod shape))

end OMV.C04Idx
