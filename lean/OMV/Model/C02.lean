/-
C02 — forward and reverse linear operators.

* data transfer (vectors/default_transfer.py:DefaultTransfer._transfer): forward is a gather
  `d_in[k] = d_out[idx k]`, reverse accumulates with `np.bincount` `d_out[j] += Σ_{idx k = j} d_in[k]`;
* a sub-jacobian or assembled matrix as a list of COO triplets with sum-of-duplicates semantics
  (jacobians/subjac.py `_apply_fwd/_apply_rev`, matrices/coo_matrix.py `_prod`), optionally masked;
* vectors are functions `Nat → K` with explicit lengths, sums are `sumTo` (OMV.Spec).
Core Lean only.
-/
import OMV.Model.Spec

namespace OMV.C02

open OMV.Spec

variable {K : Type} [Add K] [Mul K] [OfNat K 0]

/-- forward transfer: gather -/
def gatherF (idx : Nat → Nat) (v : Nat → K) : Nat → K := fun k => v (idx k)

/-- reverse transfer: bincount of the `m` input entries into output slot `j` -/
def scatterAdd (idx : Nat → Nat) (m : Nat) (w : Nat → K) : Nat → K :=
  fun j => sumTo m (fun k => if idx k = j then w k else 0)

structure Trip (K : Type) where
  r : Nat
  c : Nat
  a : K

/-- `(A v)_i` for a triplet list (duplicates add up); `keep` is the row/column mask -/
def applyFwd (T : List (Trip K)) (keep : Trip K → Bool) (v : Nat → K) : Nat → K :=
  fun i => sumList ((T.filter keep).map (fun t => if t.r = i then t.a * v t.c else 0))

/-- `(Aᵀ w)_j` -/
def applyRev (T : List (Trip K)) (keep : Trip K → Bool) (w : Nat → K) : Nat → K :=
  fun j => sumList ((T.filter keep).map (fun t => if t.c = j then t.a * w t.r else 0))

def dot (n : Nat) (x y : Nat → K) : K := sumTo n (fun i => x i * y i)

end OMV.C02
