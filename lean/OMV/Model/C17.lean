/-
C17 — what a case recorder stores and what the case reader lists.

Modelled (file.py:function cited at each definition):

* `fnmatch.fnmatchcase` restricted to the wildcards `*` and `?` (`globMatch`), `record_util.check_path`
* variable selection: `Driver._get_vars_to_record` + `driver.record_iteration` (drivers and problems),
  `System._setup_recording` + `System.record_iteration`, `Solver._setup_solvers` + `Solver.record_iteration`
* iteration coordinates: the recording stack (`_RecIteration.push/pop`), the `Recording` context manager
  (record on exit = post-order) and `get_formatted_iteration_coordinate`
* the recorder as four append-only case tables plus `global_iterations` (`SqliteRecorder.record_iteration_*`)
* reader queries: `CaseTable.list_cases/get_cases/list_sources/_get_source`, `get_source_system`,
  `SolverCases._get_source`, `SqliteCaseReader.list_sources/list_cases/_list_cases_recurse_flat/
  _list_cases_recurse_nested/get_case`.

Strings are `List Char` (`Str`) so that `startswith`, `split('|')` and substring search are plain list
functions the theorems can talk about.  Four switches in `Cfg` select between the code as it is and
the repairs proposed for four reader defects (see Props/C17.lean and known_findings.d/C17.json); the
harness sets them by probing the real functions, so the model always follows the tree that is checked.
Not modelled: bracket classes `[seq]` of fnmatch, discrete variables, MPI ranks other than 0,
formats older than 14, `out_stream` printing.
Core Lean only.
-/
namespace OMV.C17

abbrev Str := List Char

/-! ## 1. `fnmatchcase` and `check_path` -/

/-- Does `f` hold for some suffix of the string (the part a `*` leaves over)? -/
def anySuffix (f : Str → Bool) : Str → Bool
  | [] => f []
  | c :: cs => f (c :: cs) || anySuffix f cs

/-- `fnmatch.fnmatchcase(name, pat)` for patterns built from literals, `*` and `?`
(`fnmatch.translate`: `*` → `.*`, `?` → `.`, everything else escaped, anchored at both ends). -/
def globMatch : Str → Str → Bool
  | [], s => s.isEmpty
  | p :: ps, s =>
    if p = '*' then anySuffix (globMatch ps) s
    else
      match s with
      | [] => false
      | c :: cs => (p = '?' || p = c) && globMatch ps cs

/-- Declarative meaning of a glob pattern. -/
inductive Glob : Str → Str → Prop where
  | nil : Glob [] []
  | star (ps s1 s2 : Str) : Glob ps s2 → Glob ('*' :: ps) (s1 ++ s2)
  | any (ps : Str) (c : Char) (cs : Str) : Glob ps cs → Glob ('?' :: ps) (c :: cs)
  | lit (p : Char) (ps cs : Str) : p ≠ '*' → p ≠ '?' → Glob ps cs → Glob (p :: ps) (p :: cs)

/-- `record_util.check_path(path, includes, excludes)`: excludes win, then any include. -/
def checkPath (path : Str) (incl excl : List Str) : Bool :=
  if excl.any (fun e => globMatch e path) then false
  else incl.any (fun i => globMatch i path)

/-! ## 2. Variable selection -/

/-- Recording options of a requester (the union of the options of drivers, problems, systems, solvers;
for a solver `recordResiduals` is `record_solver_residuals`). -/
structure Opts where
  includes : List Str
  excludes : List Str
  recordInputs : Bool
  recordOutputs : Bool
  recordResiduals : Bool
  recordDesvars : Bool := false
  recordObjectives : Bool := false
  recordConstraints : Bool := false
  recordResponses : Bool := false

/-- An output (= residual) variable as the requester's resolver sees it. -/
structure OutVar where
  abs : Str
  prom : Str
  deriving DecidableEq

/-- An input variable: absolute name, promoted name, absolute name of its source output. -/
structure InVar where
  abs : Str
  prom : Str
  src : Str
  deriving DecidableEq

/-- The variables in scope of a requester and the driver's variables of interest (source names). -/
structure Env where
  outputs : List OutVar
  inputs : List InVar
  desvars : List Str := []
  objectives : List Str := []
  constraints : List Str := []
  /-- pathname of the solver's system, `[]` for the root (`Solver._setup_solvers` prefixes patterns) -/
  pathname : Str := []

/-- The three name lists kept in `_filtered_vars_to_record` / written into a case. -/
structure Sel where
  input : List Str
  output : List Str
  residual : List Str
  deriving DecidableEq

/-- `core/driver.py:Driver._get_vars_to_record` (also used for `Problem._setup_recording`).
Sets are lists here (the code sorts them; order is not observable through the reader's dicts). -/
def driverFilter (o : Opts) (e : Env) : Sel :=
  let sel := fun (n : Str) => checkPath n o.includes o.excludes
  let outs0 := if o.recordOutputs then (e.outputs.filter (fun v => sel v.prom)).map (·.abs) else []
  let resid := if o.recordResiduals then (e.outputs.filter (fun v => sel v.prom)).map (·.abs) else []
  let outs1 := outs0 ++ (if o.recordDesvars then e.desvars else [])
  let outs2 := outs1 ++ (if o.recordObjectives || o.recordResponses then e.objectives else [])
  let outs3 := outs2 ++ (if o.recordConstraints || o.recordResponses then e.constraints else [])
  let ins := if o.recordInputs then (e.inputs.filter (fun v => sel v.abs)).map (·.abs) else []
  -- promoted inputs matched by the patterns pull in their source output
  let outs4 := outs3 ++ (if o.recordInputs then (e.inputs.filter (fun v => sel v.prom)).map (·.src) else [])
  { input := ins, output := outs4, residual := resid }

/-- `core/driver.py:record_iteration` (module function, drivers and problems): each kind is written
only under its own `record_*` flag. -/
def driverStored (o : Opts) (e : Env) : Sel :=
  let f := driverFilter o e
  { input := if o.recordInputs then f.input else [],
    output := if o.recordOutputs then f.output else [],
    residual := if o.recordResiduals then f.residual else [] }

/-- `core/system.py:System._setup_recording`. Outputs are matched by promoted name (relative to the
system), inputs by absolute name; residuals reuse the output list when outputs are recorded. -/
def systemFilter (o : Opts) (e : Env) : Sel :=
  let sel := fun (n : Str) => checkPath n o.includes o.excludes
  let ins := if o.recordInputs then (e.inputs.filter (fun v => sel v.abs)).map (·.abs) else []
  let outs := if o.recordOutputs then (e.outputs.filter (fun v => sel v.prom)).map (·.abs) else []
  let resid :=
    if o.recordOutputs then (if o.recordResiduals then outs else [])
    else if o.recordResiduals then (e.outputs.filter (fun v => sel v.prom)).map (·.abs) else []
  { input := ins, output := outs, residual := resid }

/-- `core/system.py:System.record_iteration`. -/
def systemStored (o : Opts) (e : Env) : Sel :=
  let f := systemFilter o e
  { input := if o.recordInputs then f.input else [],
    output := if o.recordOutputs then f.output else [],
    residual := if o.recordResiduals then f.residual else [] }

/-- `solvers/solver.py:Solver._setup_solvers`: patterns are relative to the solver's system
(`pathname + '.' + pattern`) and everything is matched by absolute name. -/
def solverPatterns (path : Str) (pats : List Str) : List Str :=
  if path.isEmpty then pats else pats.map (fun p => path ++ '.' :: p)

def solverFilter (o : Opts) (e : Env) : Sel :=
  let incl := solverPatterns e.pathname o.includes
  let excl := solverPatterns e.pathname o.excludes
  let sel := fun (n : Str) => checkPath n incl excl
  { input := if o.recordInputs then (e.inputs.filter (fun v => sel v.abs)).map (·.abs) else [],
    output := if o.recordOutputs then (e.outputs.filter (fun v => sel v.abs)).map (·.abs) else [],
    residual := if o.recordResiduals then (e.outputs.filter (fun v => sel v.abs)).map (·.abs) else [] }

/-- `solvers/solver.py:Solver.record_iteration`. -/
def solverStored (o : Opts) (e : Env) : Sel :=
  let f := solverFilter o e
  { input := if o.recordInputs then f.input else [],
    output := if o.recordOutputs then f.output else [],
    residual := if o.recordResiduals then f.residual else [] }

/-! ## 3. Iteration coordinates -/

def digitChar (d : Nat) : Char := Char.ofNat (48 + d)

/-- Decimal digits, most significant first (fuel makes the recursion structural). -/
def natDigitsAux : Nat → Nat → Str
  | 0, _ => []
  | fuel + 1, n => if n < 10 then [digitChar n] else natDigitsAux fuel (n / 10) ++ [digitChar (n % 10)]

/-- `str(n)` for a natural number. -/
def natDigits (n : Nat) : Str := natDigitsAux (n + 1) n

/-- One level of the recording stack: `(name, iter_count)`. -/
abbrev Coord := List (Str × Nat)

/-- `'|'.join(f'{name}|{count}' for name, count in stack)`. -/
def renderStack : Coord → Str
  | [] => []
  | (n, c) :: rest =>
    n ++ '|' :: natDigits c ++ (match rest with | [] => [] | _ :: _ => '|' :: renderStack rest)

/-- `_RecIteration.get_formatted_iteration_coordinate`: `[prefix_]rank<r>:` then the stack. -/
def formatCoord (pfx : Option Str) (rank : Nat) (stack : Coord) : Str :=
  (match pfx with
   | some p => if p.isEmpty then [] else p ++ ['_']
   | none => []) ++ "rank".toList ++ natDigits rank ++ ':' :: renderStack stack

/-- A run as the `Recording` context managers nest: a node pushes `(name, count)`, runs its children,
records itself on exit when a recorder is attached (`rec`), then pops. -/
inductive Exec where
  | node (name : Str) (count : Nat) (rec : Bool) (children : List Exec)

mutual
/-- Coordinates recorded by one node, in recording order (`Recording.__exit__` records *after* the
body: post-order). `stack` is the recording stack on entry. -/
def Exec.log (stack : Coord) : Exec → List Coord
  | .node name count rec children =>
    Exec.logs (stack ++ [(name, count)]) children ++ (if rec then [stack ++ [(name, count)]] else [])
def Exec.logs (stack : Coord) : List Exec → List Coord
  | [] => []
  | e :: es => Exec.log stack e ++ Exec.logs stack es
end

/-! ## 4. The recorder: four case tables and `global_iterations` -/

inductive Kind where
  | driver | system | solver | problem
  deriving DecidableEq

/-- One recorded case: table, `iteration_coordinate` (or `case_name`), the `source` column of its
`global_iterations` row and the recorder's `_counter` stored with it. -/
structure Row where
  kind : Kind
  name : Str
  source : Str
  counter : Nat
  deriving DecidableEq

/-- `(record_type, rowid, source)` of `global_iterations`. -/
structure GRow where
  kind : Kind
  rowid : Nat
  source : Str
  deriving DecidableEq

structure Db where
  driver : List Row := []
  system : List Row := []
  solver : List Row := []
  problem : List Row := []
  global : List GRow := []

def Db.table (db : Db) : Kind → List Row
  | .driver => db.driver
  | .system => db.system
  | .solver => db.solver
  | .problem => db.problem

/-- `SqliteRecorder.record_iteration_*`: insert the case row, then a `global_iterations` row holding
the table name and `lastrowid`. -/
def Db.record (db : Db) (r : Row) : Db :=
  let g : GRow := { kind := r.kind, rowid := (db.table r.kind).length + 1, source := r.source }
  match r.kind with
  | .driver => { db with driver := db.driver ++ [r], global := db.global ++ [g] }
  | .system => { db with system := db.system ++ [r], global := db.global ++ [g] }
  | .solver => { db with solver := db.solver ++ [r], global := db.global ++ [g] }
  | .problem => { db with problem := db.problem ++ [r], global := db.global ++ [g] }

/-- The database after recording `rows` in this order. -/
def Db.build (rows : List Row) : Db := rows.foldl Db.record {}

/-! ## 5. The reader -/

/-- Switches between the code as it is (`false`) and the proposed one-line repairs (`true`). -/
structure Cfg where
  /-- `CaseTable.list_sources`: prefix `root.` unless the source *is* `root` or starts with `root.`
  (current code: unless it starts with `root`). -/
  rootPrefixExact : Bool := false
  /-- `SolverCases._get_source`: locate the system node by its *last* occurrence (current: first). -/
  solverIndexLast : Bool := false
  /-- `SqliteCaseReader.get_case(int)`: resolve indices of problem cases too (current: not). -/
  getCaseProblem : Bool := false
  /-- `CaseTable.list_cases(source)` for system/solver tables: use the `source` column recorded in
  `global_iterations` (current: re-derive the source from the coordinate string). -/
  sourceFromRows : Bool := false

inductive Err where
  | notFound        -- RuntimeError('Case not found ...')
  | sourceNotFound  -- RuntimeError('Source not found ...')
  | noRoot          -- RuntimeError('A nested dictionary of all cases was requested ...')
  | cantParse       -- RuntimeError("Can't parse solver iteration coordinate")
  | indexError      -- IndexError
  | unbound         -- UnboundLocalError (coordinate source with recurse=False)
  | valueError      -- ValueError (substring not found)
  deriving DecidableEq

deriving instance DecidableEq for Except

/-- `str.split(sep)`. -/
def splitOn (sep : Char) : Str → List Str
  | [] => [[]]
  | c :: cs =>
    if c = sep then [] :: splitOn sep cs
    else
      match splitOn sep cs with
      | [] => [[c]]
      | t :: ts => (c :: t) :: ts

def joinWith (sep : Char) : List Str → Str
  | [] => []
  | [t] => t
  | t :: ts => t ++ sep :: joinWith sep ts

/-- every second element starting with the first -/
def evens {α : Type} : List α → List α
  | [] => []
  | [a] => [a]
  | a :: _ :: rest => a :: evens rest

def endsWith (s suf : Str) : Bool := suf.reverse.isPrefixOf s.reverse
def dropRight (s : Str) (n : Nat) : Str := s.take (s.length - n)

def solveSuffix : Str := "._solve_nonlinear".toList
def applySuffix : Str := "._apply_nonlinear".toList

/-- `_coord_system_re.search(part)`: strip a trailing `._solve_nonlinear` / `._apply_nonlinear`. -/
def stripSystem (part : Str) : Option Str :=
  if endsWith part solveSuffix then some (dropRight part solveSuffix.length)
  else if endsWith part applySuffix then some (dropRight part applySuffix.length)
  else none

def isRootPath (p : Str) : Bool := p == "root".toList || "root.".toList.isPrefixOf p

/-- `record_util.get_source_system`: the names of a coordinate are the even `|`-fields (that is what
the split on `\|\d+\|*` leaves for a well-formed coordinate); take the last system node. -/
def getSourceSystem (coord : Str) : Str :=
  match (evens (splitOn '|' coord)).reverse.findSome? stripSystem with
  | none => "root".toList
  | some part =>
    let part := if part.contains ':' then (splitOn ':' part).getD 1 [] else part
    if isRootPath part then part else "root.".toList ++ part

/-- index of the first occurrence of `needle` in `hay` (`str.index`) -/
def findSub (needle : Str) : Str → Option Nat
  | [] => if needle.isEmpty then some 0 else none
  | c :: cs =>
    if needle.isPrefixOf (c :: cs) then some 0 else (findSub needle cs).map (· + 1)

/-- index of the last occurrence (`str.rindex`) -/
def findSubLast (needle : Str) : Str → Option Nat
  | [] => if needle.isEmpty then some 0 else none
  | c :: cs =>
    match findSubLast needle cs with
    | some i => some (i + 1)
    | none => if needle.isPrefixOf (c :: cs) then some 0 else none

def countChar (ch : Char) (s : Str) : Nat := (s.filter (· = ch)).length

/-- `SolverCases._get_source`. -/
def solverSource (cfg : Cfg) (coord : Str) : Except Err Str :=
  let sys := getSourceSystem coord
  let last := ((splitOn '.' sys).getLast?).getD []
  let needle := last ++ solveSuffix
  match (if cfg.solverIndexLast then findSubLast needle coord else findSub needle coord) with
  | none => .error .valueError
  | some i =>
    let upto := coord.take (i + needle.length)
    let systemNodes := (splitOn '|' upto).length + 1
    let numNodes := countChar '|' coord + 1
    if numNodes = systemNodes + 2 then .ok (sys ++ ".nonlinear_solver".toList)
    else if numNodes = systemNodes + 4 then .ok (sys ++ ".nonlinear_solver.linesearch".toList)
    else .error .cantParse

/-- `CaseTable._get_source` of the four tables. -/
def getSource (cfg : Cfg) (k : Kind) (coord : Str) : Except Err Str :=
  match k with
  | .driver => .ok "driver".toList
  | .problem => .ok "problem".toList
  | .system => .ok (getSourceSystem coord)
  | .solver => solverSource cfg coord

def Db.keys (db : Db) (k : Kind) : List Str := (db.table k).map (·.name)

def dedup : List Str → List Str
  | [] => []
  | a :: as => if (dedup as).contains a then dedup as else a :: dedup as

/-- `CaseTable.list_sources` (a set; returned here without duplicates, order not meaningful). -/
def Db.tableSources (cfg : Cfg) (db : Db) (k : Kind) : List Str :=
  match k with
  | .driver => ["driver".toList]
  | .problem => ["problem".toList]
  | _ =>
    dedup ((db.global.filter (·.kind = k)).map (fun g =>
      let keep := if cfg.rootPrefixExact then isRootPath g.source
                  else "root".toList.isPrefixOf g.source
      if keep then g.source else "root.".toList ++ g.source))

/-- `SqliteCaseReader.list_sources`. -/
def Db.listSources (cfg : Cfg) (db : Db) : List Str :=
  (if db.driver.isEmpty then [] else db.tableSources cfg .driver) ++
  (if db.solver.isEmpty then [] else db.tableSources cfg .solver) ++
  (if db.system.isEmpty then [] else db.tableSources cfg .system) ++
  (if db.problem.isEmpty then [] else db.tableSources cfg .problem)

/-- `[key for key in keys if self._get_source(key) == source]` (an exception of `_get_source`
propagates). -/
def filterBySource (cfg : Cfg) (k : Kind) (source : Str) : List Str → Except Err (List Str)
  | [] => .ok []
  | key :: rest => do
    let s ← getSource cfg k key
    let tl ← filterBySource cfg k source rest
    pure (if s = source then key :: tl else tl)

/-- the recorded source of a row with the `root.` prefix the reader's source names carry -/
def rowSource (r : Row) : Str := if isRootPath r.source then r.source else "root.".toList ++ r.source

/-- `CaseTable.list_cases(source)`. -/
def Db.tableListCases (cfg : Cfg) (db : Db) (k : Kind) (source : Str) : Except Err (List Str) :=
  if source.isEmpty then .ok (db.keys k)
  else if source.contains '|' then .ok ((db.keys k).filter (fun key => source.isPrefixOf key))
  else if cfg.sourceFromRows && (k = .system || k = .solver) then
    .ok (((db.table k).filter (fun r => rowSource r = source)).map (·.name))
  else filterBySource cfg k source (db.keys k)

/-- First row of a table with this name (`SELECT * FROM table WHERE iteration_coordinate=?`). -/
def Db.findIn (db : Db) (k : Kind) (name : Str) : Option Row :=
  (db.table k).find? (fun r => r.name = name)

/-- `keys[row - 1]` of the table named in a `global_iterations` row. -/
def Db.lookup (db : Db) (g : GRow) : Option Str :=
  if g.rowid = 0 then none else ((db.table g.kind)[g.rowid - 1]?).map (·.name)

def mapOpt {α β : Type} (f : α → Option β) : List α → Option (List β)
  | [] => some []
  | a :: as =>
    match f a, mapOpt f as with
    | some b, some bs => some (b :: bs)
    | _, _ => none

/-- The first of the driver, system and solver tables that has a case of this name. -/
def Db.findAny3 (db : Db) (name : Str) : Option Row :=
  match db.findIn .driver name with
  | some r => some r
  | none =>
    match db.findIn .system name with
    | some r => some r
    | none => db.findIn .solver name

/-- ... then the problem table (`get_case`, `_list_cases_recurse_flat`). -/
def Db.findAny (db : Db) (name : Str) : Option Row :=
  match db.findAny3 name with
  | some r => some r
  | none => db.findIn .problem name

/-- `SqliteCaseReader._list_cases_recurse_flat(coord)`: all cases among the first
`parent.counter` global iterations whose coordinate string starts with `coord`. -/
def Db.listRecurseFlat (db : Db) (coord : Str) : Except Err (List Str) :=
  let n? : Option Nat :=
    if coord.isEmpty then some db.global.length
    else (db.findAny coord).map (·.counter)
  match n? with
  | none => .error .notFound
  | some n =>
    if n > db.global.length then .error .indexError
    else
      match mapOpt db.lookup (db.global.take n) with
      | none => .error .indexError
      | some names => .ok (names.filter (fun k => coord.isPrefixOf k))

/-- Nested result: ordered dictionary `name ↦ children`. -/
inductive Tree where
  | node (name : Str) (children : List Tree)

def Tree.name : Tree → Str
  | .node n _ => n

/-- `OrderedDict.update` with one key: replace in place or append. -/
def treeUpdate (d : List Tree) (t : Tree) : List Tree :=
  if d.any (fun x => x.name = t.name) then d.map (fun x => if x.name = t.name then t else x)
  else d ++ [t]

/-- `'|'.join(case_coord.split('|')[:-2])` -/
def parentCoord (coord : Str) : Str :=
  let parts := splitOn '|' coord
  joinWith '|' (parts.take (parts.length - 2))

/-- `SqliteCaseReader._list_cases_recurse_nested(coord)` (`fuel` bounds the recursion depth; every
recursive call is on a case with a smaller counter). -/
def Db.listRecurseNested (db : Db) : Nat → Str → Except Err Tree
  | 0, _ => .error .indexError
  | fuel + 1, coord =>
    let parent? : Option Row := db.findAny3 coord
    match parent? with
    | none => .error .notFound
    | some parent =>
      let n := parent.counter - 1
      if n > db.global.length then .error .indexError
      else
        let step := fun (acc : Except Err (List Tree)) (g : GRow) =>
          match acc with
          | .error e => .error e
          | .ok children =>
            if g.kind = .solver || g.kind = .system then
              match db.lookup g with
              | none => .error .indexError
              | some cc =>
                if coord.isPrefixOf cc && parentCoord cc = coord then
                  match db.listRecurseNested fuel cc with
                  | .error e => .error e
                  | .ok t => .ok (treeUpdate children t)
                else .ok children
            else .ok children
        match (db.global.take n).foldl step (.ok []) with
        | .error e => .error e
        | .ok children => .ok (.node parent.name children)

/-- Result of `list_cases`. -/
inductive Res where
  | flat (names : List Str)
  | nested (trees : List Tree)
  | err (e : Err)

def concatFlat (db : Db) : List Str → Except Err (List Str)
  | [] => .ok []
  | n :: ns => do
    let a ← db.listRecurseFlat n
    let b ← concatFlat db ns
    pure (a ++ b)

def updateNested (db : Db) (acc : List Tree) : List Str → Except Err (List Tree)
  | [] => .ok acc
  | n :: ns => do
    let t ← db.listRecurseNested (db.global.length + 1) n
    updateNested db (treeUpdate acc t) ns

/-- `SqliteCaseReader.list_cases(source, recurse, flat)`. -/
def Db.listCases (cfg : Cfg) (db : Db) (source : Option Str) (recurse flat : Bool) : Res :=
  let src? : Except Err Str :=
    match source with
    | some s => .ok s
    | none =>
      if flat then .ok []
      else if !db.driver.isEmpty then .ok "driver".toList
      else if (db.tableSources cfg .system).contains "root".toList then .ok "root".toList
      else .error .noRoot
  match src? with
  | .error e => .err e
  | .ok src =>
    if src.isEmpty then
      match db.listRecurseFlat [] with
      | .ok l => .flat l
      | .error e => .err e
    else if src = "problem".toList then .flat (db.keys .problem)
    else
      let table? : Option Kind :=
        if src = "driver".toList then some .driver
        else if (db.tableSources cfg .system).contains src then some .system
        else if (db.tableSources cfg .solver).contains src then some .solver
        else none
      match table? with
      | some k =>
        match db.tableListCases cfg k src with
        | .error e => .err e
        | .ok sourceCases =>
          if !recurse then .flat sourceCases
          else if flat then
            match concatFlat db sourceCases with
            | .ok l => .flat l
            | .error e => .err e
          else
            match updateNested db [] sourceCases with
            | .ok t => .nested t
            | .error e => .err e
      | none =>
        if src.contains '|' then
          if recurse then
            if flat then
              match db.listRecurseFlat src with
              | .ok l => .flat l
              | .error e => .err e
            else
              match db.listRecurseNested (db.global.length + 1) src with
              | .ok t => .nested [t]
              | .error e => .err e
          else .err .unbound
        else .err .sourceNotFound

/-- `SqliteCaseReader.get_case(case_id)` for a coordinate: first table (driver, system, solver,
problem) that has a row of this name. -/
def Db.getCaseByName (db : Db) (name : Str) : Except Err Row :=
  match db.findAny name with
  | some r => .ok r
  | none => .error .notFound

/-- Python list indexing with a possibly negative index. -/
def pyIndex {α : Type} (l : List α) (i : Int) : Option α :=
  if 0 ≤ i then l[i.toNat]? else if (-i).toNat ≤ l.length then l[l.length - (-i).toNat]? else none

/-- `SqliteCaseReader.get_case(case_id)` for an integer: an index into `global_iterations`; rows of
the problem table are *not* resolved to a name by the current code and the integer is then used as an
index into the tables (driver first). -/
def Db.getCaseByIndex (cfg : Cfg) (db : Db) (i : Int) : Except Err Row :=
  if i > (db.global.length : Int) - 1 then .error .indexError
  else
    match pyIndex db.global i with
    | none => .error .indexError
    | some g =>
      if g.kind = .problem && !cfg.getCaseProblem then
        -- `table.get_case(int)` of the driver table: `self._keys[case_id]`
        match pyIndex (db.keys .driver) i with
        | none => .error .indexError
        | some name => db.getCaseByName name
      else
        match db.lookup g with
        | none => .error .indexError
        | some name => db.getCaseByName name

/-! ## 6. What the queries are meant to return (used in the theorems and by the driver) -/

/-- The rows of a log whose structured coordinate has `c` as a list prefix. -/
def descendants (coords : List Coord) (c : Coord) : List Coord :=
  coords.filter (fun k => c.isPrefixOf k)

/-- The contract of a recorded log that the descendant query relies on; checked by the driver on
every real log. `coords[i]` is the recording stack of row `i` (`none` for a problem case).
* names contain no `|`;
* post-order and uniqueness: a row whose coordinate extends row `i`'s coordinate is not after `i`;
* per parent, the counters of one name do not decrease in time. -/
def barFree (c : Coord) : Bool := c.all (fun p => !p.1.contains '|')

def postOrderAt (later : List (Option Coord)) (c : Coord) : Bool :=
  later.all (fun k? => match k? with
                       | some k => !c.isPrefixOf k
                       | none => true)

/-- `k` continues `c` with a counter at the last level of `c`: `c = P ++ [(nm, a)]`,
`k = P ++ (nm, b) :: _`; returns `(a, b)`. -/
def sameSlot : Coord → Coord → Option (Nat × Nat)
  | [], _ => none
  | _ :: _, [] => none
  | p :: c, q :: k =>
    match c with
    | [] => if p.1 = q.1 then some (p.2, q.2) else none
    | _ :: _ => if p = q then sameSlot c k else none

def monoAt (earlier : List (Option Coord)) (c : Coord) : Bool :=
  earlier.all (fun k? => match k? with
                         | some k => (match sameSlot c k with
                                      | some (a, b) => decide (b ≤ a)
                                      | none => true)
                         | none => true)

/-- `earlier` holds the rows before the current one, most recent first. -/
def contractFrom (earlier : List (Option Coord)) : List (Option Coord) → Bool
  | [] => true
  | none :: rest => contractFrom (none :: earlier) rest
  | some c :: rest =>
    barFree c && !c.isEmpty && postOrderAt rest c && monoAt earlier c &&
      contractFrom (some c :: earlier) rest

def logContract (coords : List (Option Coord)) : Bool := contractFrom [] coords

/-- The recorder's `_counter` stored with row `i` is `i + 1` (one recorder, never restarted). -/
def countersFrom : Nat → List Row → Bool
  | _, [] => true
  | i, r :: rest => decide (r.counter = i + 1) && countersFrom (i + 1) rest

def countersSync (rows : List Row) : Bool := countersFrom 0 rows

/-- no name is recorded twice -/
def nodupB : List Str → Bool
  | [] => true
  | a :: as => !as.contains a && nodupB as

end OMV.C17
