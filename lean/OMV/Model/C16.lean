/-
C16 — derivatives returned by the table interpolators (`InterpND.interpolate(compute_derivative=True)`,
`InterpND.training_gradients`, the partials of `MetaModelStructuredComp` / `SplineComp`).

* `Dual K` — dual numbers `a + ε b`, `ε² = 0`.  The kernels and the recursion of `OMV.C15` are
  polymorphic, so the *same definitions* run over `Dual K`: seeding `ε` in a query coordinate gives
  the exact derivative of the returned value with respect to that coordinate, seeding it in a table
  entry the exact derivative with respect to that entry (`dualDx`, `dualDv`).
* the derivative formulas **as the code writes them**: `slinearDx`, `lagrange2Dx`, `lagrange3Dx`,
  `cubicDx`, `akimaDx` (`derivs[..., 0]` of each `interpolate`), and the recursion `gradIdx`
  (`derivs[..., 1:]` = the kernel applied to the sub-table derivatives).
* `trainWeights` / `wsum` — `InterpND.training_gradients`: per axis the interpolated unit vectors,
  combined by outer products.
Core Lean only.
-/
import OMV.Model.C15

namespace OMV.C16

open OMV.C15

/-! ## Dual numbers -/

structure Dual (K : Type) where
  re : K
  du : K
  deriving DecidableEq, Repr

namespace Dual
variable {K : Type}

instance [Add K] : Add (Dual K) := ⟨fun a b => ⟨a.re + b.re, a.du + b.du⟩⟩
instance [Sub K] : Sub (Dual K) := ⟨fun a b => ⟨a.re - b.re, a.du - b.du⟩⟩
instance [Neg K] : Neg (Dual K) := ⟨fun a => ⟨-a.re, -a.du⟩⟩
instance [Add K] [Mul K] : Mul (Dual K) := ⟨fun a b => ⟨a.re * b.re, a.re * b.du + a.du * b.re⟩⟩
instance [Sub K] [Mul K] [Div K] : Div (Dual K) :=
  ⟨fun a b => ⟨a.re / b.re, (a.du * b.re - a.re * b.du) / (b.re * b.re)⟩⟩
instance {n : Nat} [OfNat K n] [OfNat K 0] : OfNat (Dual K) n := ⟨⟨OfNat.ofNat n, 0⟩⟩
/-- Order and branch decisions look at the real part only (what complex step does). -/
instance [LT K] : LT (Dual K) := ⟨fun a b => a.re < b.re⟩
instance [LE K] : LE (Dual K) := ⟨fun a b => a.re ≤ b.re⟩
instance [LT K] [DecidableLT K] : DecidableLT (Dual K) := fun a b => inferInstanceAs (Decidable (a.re < b.re))
instance [LE K] [DecidableLE K] : DecidableLE (Dual K) := fun a b => inferInstanceAs (Decidable (a.re ≤ b.re))

/-- A constant (no `ε` part). -/
def const [OfNat K 0] (a : K) : Dual K := ⟨a, 0⟩

end Dual

section Code
variable {K : Type} [Add K] [Sub K] [Mul K] [Div K] [Neg K]
  [OfNat K 0] [OfNat K 1] [OfNat K 2] [OfNat K 3] [OfNat K 6]

/-! ## Derivative formulas as written in the code (`derivs[..., 0]`) -/

/-- `interp_slinear.py:InterpLinear.interpolate`: the slope. -/
def slinearDx (n : Nat) (g v : Nat → K) (idx : Nat) (_x : K) : K :=
  let idx := if idx = n - 1 then idx - 1 else idx
  let h := 1 / (g (idx + 1) - g idx)
  (v (idx + 1) - v idx) * h

/-- `interp_lagrange2.py:InterpLagrange2.interpolate`. -/
def lagrange2Dx (n : Nat) (g v : Nat → K) (idx : Nat) (x : K) : K :=
  let idx := lag2Start n idx
  let c12 := g idx - g (idx + 1)
  let c13 := g idx - g (idx + 2)
  let c23 := g (idx + 1) - g (idx + 2)
  let q1 := v idx / (c12 * c13)
  let q2 := v (idx + 1) / (c12 * c23)
  let q3 := v (idx + 2) / (c13 * c23)
  q1 * (2 * x - g (idx + 1) - g (idx + 2)) - q2 * (2 * x - g idx - g (idx + 2)) +
    q3 * (2 * x - g idx - g (idx + 1))

/-- `interp_lagrange3.py:InterpLagrange3.interpolate`. -/
def lagrange3Dx (n : Nat) (g v : Nat → K) (idx : Nat) (x : K) : K :=
  let idx := lag3Start n idx
  let p1 := g (idx - 1)
  let p2 := g idx
  let p3 := g (idx + 1)
  let p4 := g (idx + 2)
  let c12 := 1 / (p1 - p2)
  let c13 := 1 / (p1 - p3)
  let c14 := 1 / (p1 - p4)
  let c23 := 1 / (p2 - p3)
  let c24 := 1 / (p2 - p4)
  let c34 := 1 / (p3 - p4)
  let q1 := v (idx - 1) * (c12 * c13 * c14)
  let q2 := v idx * (c12 * c23 * c24)
  let q3 := v (idx + 1) * (c13 * c23 * c34)
  let q4 := v (idx + 2) * (c14 * c24 * c34)
  q1 * (x * (3 * x - 2 * (p4 + p3 + p2)) + p4 * (p2 + p3) + p2 * p3) -
    q2 * (x * (3 * x - 2 * (p4 + p3 + p1)) + p4 * (p1 + p3) + p1 * p3) +
    q3 * (x * (3 * x - 2 * (p4 + p2 + p1)) + p4 * (p2 + p1) + p2 * p1) -
    q4 * (x * (3 * x - 2 * (p3 + p2 + p1)) + p1 * (p2 + p3) + p2 * p3)

/-- `interp_cubic.py:InterpCubic.interpolate`. -/
def cubicDx (n : Nat) (g v : Nat → K) (idx : Nat) (x : K) : K :=
  let idx := if idx = n - 1 then idx - 1 else idx
  let sec := cubicSecond n g v
  let step := g (idx + 1) - g idx
  let rStep := 1 / step
  let a := (g (idx + 1) - x) * rStep
  let b := (x - g idx) * rStep
  let fact : K := 1 / 6
  rStep * (v (idx + 1) - v idx) +
    ((3 * b * b - 1) * sec.getD (idx + 1) 0 - (3 * a * a - 1) * sec.getD idx 0) * (step * fact)

/-- The derivative formula the code uses for a method that is linear in the table (Akima has its own
analytic propagation, tied differentially). -/
def codeDx : Method → Option (Kernel K)
  | .slinear => some slinearDx
  | .lagrange2 => some lagrange2Dx
  | .lagrange3 => some lagrange3Dx
  | .cubic => some cubicDx
  | .akima => none

/-! ## Recursion over dimensions -/

/-- `derivs` of `InterpAlgorithm.interpolate` for the methods that are linear in the values:
entry 0 is the kernel's own derivative of the interpolated sub-table values, the others are the
kernel applied to the sub-table's derivative entries. -/
def gradIdx (kern kdx : Kernel K) :
    List (Nat × (Nat → K)) → List Nat → (List Nat → K) → List K → List K
  | (n, g) :: ds, idx :: idxs, tbl, x :: xs =>
    kdx n g (fun i => evalIdx kern ds idxs (fun js => tbl (i :: js)) xs) idx x ::
      (List.range ds.length).map (fun j =>
        kern n g (fun i => (gradIdx kern kdx ds idxs (fun js => tbl (i :: js)) xs).getD j 0) idx x)
  | _, _, _, _ => []

/-- `InterpND.training_gradients`, one axis: the 1-D table interpolated on the unit vectors. -/
def trainWeights (kern : Kernel K) (n : Nat) (g : Nat → K) (idx : Nat) (x : K) : List K :=
  (List.range n).map (fun j => kern n g (fun i => if i = j then 1 else 0) idx x)

/-- `Σ_{i<n} f i`. -/
def sumTo (f : Nat → K) : Nat → K
  | 0 => 0
  | k + 1 => sumTo f k + f k

/-- The value as the outer product of the per-axis weights contracted with the table:
`Σ_{i0,…} w0[i0] * w1[i1] * … * tbl[i0, i1, …]`. -/
def wsum (kern : Kernel K) :
    List (Nat × (Nat → K)) → List Nat → (List Nat → K) → List K → K
  | [], _, tbl, _ => tbl []
  | (n, g) :: ds, idx :: idxs, tbl, x :: xs =>
    sumTo (fun i => (trainWeights kern n g idx x).getD i 0 *
      wsum kern ds idxs (fun js => tbl (i :: js)) xs) n
  | _ :: _, _, _, _ => 0

end Code

/-! ## Exact derivatives through dual numbers -/

section DualEval
variable {K : Type} [Add K] [Sub K] [Mul K] [Div K] [Neg K]
  [OfNat K 0] [OfNat K 1] [OfNat K 2] [OfNat K 3] [OfNat K 6]
  [LT K] [DecidableLT K] [LE K] [DecidableLE K]

def liftDims (ds : List (Nat × (Nat → K))) : List (Nat × (Nat → Dual K)) :=
  ds.map (fun d => (d.1, fun i => Dual.const (d.2 i)))

/-- The query point `x_k + ε d_k`. -/
def seed : List K → List K → List (Dual K)
  | x :: xs, d :: dirs => ⟨x, d⟩ :: seed xs dirs
  | _, _ => []

/-- Unit direction `e_j` of length `n`. -/
def unitDir (n j : Nat) : List K := (List.range n).map (fun k => if k = j then 1 else 0)

/-- Directional derivative of a method's fresh table along `dirs`, by evaluating the same
definitions on dual numbers. -/
def dualDir (m : Method) (fix : Bool) (eps : K) (ds : List (Nat × (Nat → K))) (tbl : List Nat → K) (xs dirs : List K) : K :=
  (evalND (m.kernel fix (Dual.const eps)) (liftDims ds) (fun is => Dual.const (tbl is)) (seed xs dirs)).du

/-- ∂value/∂x_j. -/
def dualDx (m : Method) (fix : Bool) (eps : K) (ds : List (Nat × (Nat → K))) (tbl : List Nat → K) (xs : List K)
    (j : Nat) : K :=
  dualDir m fix eps ds tbl xs (unitDir xs.length j)

/-- ∂value/∂tbl[e] (`e` a multi-index). -/
def dualDv (m : Method) (fix : Bool) (eps : K) (ds : List (Nat × (Nat → K))) (tbl : List Nat → K) (xs : List K)
    (e : List Nat) : K :=
  (evalND (m.kernel fix (Dual.const eps)) (liftDims ds)
    (fun is => ⟨tbl is, if is = e then 1 else 0⟩) (xs.map Dual.const)).du

end DualEval

end OMV.C16
