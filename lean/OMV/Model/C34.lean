/-
C34 — function-based and jax components (openmdao/components/explicit_func_comp.py,
implicit_func_comp.py, func_comp_common.py, jax_explicit_comp.py, jax_implicit_comp.py,
openmdao/func_api.py, openmdao/utils/jax_utils.py, `Coloring._expand_jac` of utils/coloring.py).

What is modelled, following the code as it is written:

* the wrapped function (`Func`): positional arguments with a role (input / state with the index of
  its residual / option = static, non-differentiable) and a NumPy shape, and a tuple of return
  values, each with a shape and a body in the expression language of C14 (`OMV.C14.Expr`, evaluated
  on C-order flattened arrays; the variables of a body are argument positions).
* C-order flattening: `ravel` / `unravel` / `Tensor.reshape` (`ndarray.reshape`), used wherever the
  code reshapes a jax result that carries a batch axis.
* argument binding: `ExplicitFuncComp._func_values`, `ImplicitFuncComp._ordered_func_invals`
  (`next(inps)` / `next(outs)` while walking the signature — `orderedInvals false`) and the repaired
  binding of states by name (`orderedInvals true`); the order in which `setup` creates the input and
  output vectors (`inputVars`, outputs = return order).
* output unpacking: `outputs.set_vals(_ensure_iter(f(*args)))`, `residuals.set_vals(...)`,
  `_outputs.set_vals(solve_nonlinear(...))` — `outVal`.
* the AD engine as the components see it (`AD`: `jax.jvp` / `jax.vjp` of the wrapped function at the
  current point) — a third-party contract (`IsJac` in Props) — and its instance for the expression
  language (`exprAD`: forward mode = evaluation over the dual numbers of C14).
* `ExplicitFuncComp._jax_linearize`: `_get_tangents` (rows of `np.eye` split at the argument
  boundaries — `eyeSeed`), `jac_forward` / `jac_reverse` (vmap: batch axis last resp. first —
  `jacFwdTensor`, `jacRevTensor`), the reshapes to 2-D and the `start:end` / `cstart:cend` stacking
  (`efcFwd`, `efcRev`), the iteration over the first axis when the function returns one bare value
  (`fwdBlockSingle`, `efcFwdSingle`), `Jacobian.set_dense_jac` incl. declared `rows`/`cols`
  (`subjacEntry`, `subjacSparse`).
* `JaxExplicitComponent._compute_partials` without coloring: `_jax_derivs2partials` (reshape of the
  `out_shape ++ in_shape` block of `jax.jacfwd/jacrev` to `(size_of, size_wrt)` — `derivBlock`).
* colored evaluation (`ExplicitFuncComp._jax_linearize`, `ImplicitFuncComp._jax_linearize`,
  `JaxExplicitComponent._jacfwd_colored/_jacrev_colored`): the seed of one color
  (`Coloring.tangent_matrix`, `jax_utils.get_vmap_tangents`: `tangent[nzs, i] = 1` — `colorSeed`), the
  compressed jacobian (`compressedFwd`, `compressedRev`; `_jax2np` is the same reshape + stacking),
  `Coloring._get_color_array` (`colorOf`) and `Coloring._expand_jac` (`expandFwd`, `expandRev`).
* `ImplicitFuncComp._jax_linearize`: `_get_jac2func_inds` (`jac2func`), `_reorder_cols`
  (`ifcFwd`), `_reorder_col_chunks` (`chunkOrder`, `ifcRev`).

Not modelled (checked differentially only): `jit`, the sparsity detection that feeds the coloring
(the coloring is a parameter, validated per case by `coloringOkFwd` / `coloringOkRev`), the coloring algorithm (C03),
`func_api` metadata defaults, 2-D linear algebra inside function bodies.
Core Lean only.
-/
import OMV.Model.C14

namespace OMV.C34
open OMV.C14

/-! ## 1. C-order flattening -/

/-- `shape_to_len` / `np.prod(shape)`. -/
def prod : List Nat → Nat
  | [] => 1
  | n :: ns => n * prod ns

/-- Flat (C-order) position of a multi-index: `np.ravel_multi_index`. -/
def ravel : List Nat → List Nat → Nat
  | _ :: ns, i :: is => i * prod ns + ravel ns is
  | _, _ => 0

/-- `np.unravel_index` (C order). -/
def unravel : List Nat → Nat → List Nat
  | [], _ => []
  | _ :: ns, k => k / prod ns :: unravel ns (k % prod ns)

/-- The multi-index lies inside the shape. -/
def inBounds : List Nat → List Nat → Bool
  | [], [] => true
  | n :: ns, i :: is => decide (i < n) && inBounds ns is
  | _, _ => false

/-- An n-dimensional array: its shape and its entries by multi-index. -/
structure Tensor (K : Type) where
  shape : List Nat
  get : List Nat → K

/-- `ndarray.reshape(s)`: the entry at multi-index `i` of the result is the entry of the original
array that has the same C-order flat position. -/
def Tensor.reshape {K : Type} (t : Tensor K) (s : List Nat) : Tensor K :=
  ⟨s, fun i => t.get (unravel t.shape (ravel s i))⟩

/-- `(init, last)` of a non-empty index list (`idx[:-1]`, `idx[-1]`). -/
def splitLast : List Nat → List Nat × Nat
  | [] => ([], 0)
  | [c] => ([], c)
  | a :: b :: r => let p := splitLast (b :: r); (a :: p.1, p.2)

/-! ## 2. Size lists: offsets of variables inside a flat vector -/

def sumL : List Nat → Nat
  | [] => 0
  | s :: r => s + sumL r

/-- Start of variable `k` in the flat vector (`start` of the `start:end` loops). -/
def offset (sizes : List Nat) (k : Nat) : Nat := sumL (sizes.take k)

/-- `(variable, local index)` of a flat position; zero-size entries are skipped. -/
def locate : List Nat → Nat → Nat × Nat
  | [], k => (0, k)
  | s :: r, k => if k < s then (0, k) else
      let p := locate r (k - s); (p.1 + 1, p.2)

/-! ## 3. The wrapped function -/

inductive Role where
  | input
  /-- a state of an implicit function; `resid` is the index of its residual among the returns
  (= its index in the output vector) -/
  | state (resid : Nat)
  /-- `declare_option`: a static argument (`'is_option' in meta`), not differentiated -/
  | option
  deriving DecidableEq, Repr

structure Arg where
  role : Role
  shape : List Nat
  deriving Repr

structure Func where
  args : List Arg
  rets : List (List Nat × Expr)

def Arg.isInput (a : Arg) : Bool := match a.role with | .input => true | _ => false
def Arg.isState (a : Arg) : Bool := match a.role with | .state _ => true | _ => false
def Arg.isDyn (a : Arg) : Bool := match a.role with | .option => false | _ => true

def Func.role (f : Func) (p : Nat) : Role := match f.args[p]? with | some a => a.role | none => .option
def Func.argShape (f : Func) (p : Nat) : List Nat := match f.args[p]? with | some a => a.shape | none => []
def Func.retShape (f : Func) (u : Nat) : List Nat := match f.rets[u]? with | some r => r.1 | none => []

/-- A value as the expression language sees it: a NumPy scalar or a flattened array. -/
def flatShape (s : List Nat) : Shape := match s with | [] => .sc | _ => .arr (prod s)

/-- The function over flattened arguments, as a C14 component (all arguments are `ins`). -/
def Func.comp (f : Func) : Comp :=
  { ins := f.args.map fun a => flatShape a.shape
    outs := f.rets.map fun r => (flatShape r.1, r.2) }

/-- Number of jacobian columns contributed by each argument position: its size if it is
differentiable (`argnums`), none for an option. -/
def Func.colSizes (f : Func) : List Nat := f.args.map fun a => if a.isDyn then prod a.shape else 0

def Func.colSize (f : Func) (p : Nat) : Nat := f.colSizes.getD p 0

def Func.retSizes (f : Func) : List Nat := f.rets.map fun r => prod r.1

def Func.retSize (f : Func) (u : Nat) : Nat := f.retSizes.getD u 0

/-- `osize = len(self._outputs)`. -/
def Func.osize (f : Func) : Nat := sumL f.retSizes
/-- `isize`: total size of the differentiable arguments. -/
def Func.isize (f : Func) : Nat := sumL f.colSizes

/-! ### Argument binding -/

/-- Positions of the arguments satisfying `q`, in signature order, counting from `i`. -/
def positionsFrom (q : Arg → Bool) : Nat → List Arg → List Nat
  | _, [] => []
  | i, a :: r => if q a then i :: positionsFrom q (i + 1) r else positionsFrom q (i + 1) r

/-- `setup`: one `add_input` per non-state, non-option argument, in signature order — the names
(argument positions) of the variables of the input vector. -/
def Func.inputVars (f : Func) : List Nat := positionsFrom Arg.isInput 0 f.args

/-- State arguments in signature order. -/
def Func.stateArgs (f : Func) : List Nat := positionsFrom Arg.isState 0 f.args

/-- How often `next(it)` was called before position `p` for the arguments satisfying `q`. -/
def rankBefore (q : Arg → Bool) (args : List Arg) (p : Nat) : Nat := ((args.take p).filter q).length

/-- The state argument whose residual is return value `k` (the output variable `k`). -/
def Func.stateOfResid (f : Func) (k : Nat) : Nat :=
  match (List.range f.args.length).find? (fun p => f.role p == .state k) with
  | some p => p
  | none => f.args.length

variable {K : Type}

/-- `ExplicitFuncComp._func_values` / `ImplicitFuncComp._ordered_func_invals`: the value of every
positional argument, taken from the input vector `inp` (variable, entry), the output vector `out`
and the options `opt`.  `byName = false` is the code as it is (`next(outs)` for each state argument
met in the signature); `byName = true` binds a state to the output it is declared for. -/
def orderedInvals (byName : Bool) (f : Func) (inp out : Nat → Nat → K) (opt : Nat → Nat → K) :
    Nat → Nat → K :=
  fun p j => match f.role p with
    | .option => opt p j
    | .input => inp (rankBefore Arg.isInput f.args p) j
    | .state k => out (if byName then k else rankBefore Arg.isState f.args p) j

/-- What the user means: every argument receives the variable of its own name. `uin p` is the
value set for the input named like argument `p`, `uout k` the value of output `k`. -/
def namedInvals (f : Func) (uin : Nat → Nat → K) (uout : Nat → Nat → K) (opt : Nat → Nat → K) :
    Nat → Nat → K :=
  fun p j => match f.role p with
    | .option => opt p j
    | .input => uin p j
    | .state k => uout k j

/-- The input vector that holds `uin`: variable `i` is the input named `inputVars[i]`. -/
def inputVector (f : Func) (uin : Nat → Nat → K) : Nat → Nat → K :=
  fun i j => uin (f.inputVars.getD i f.args.length) j

/-- The states of an implicit function appear in the signature in the order of their residuals
(= the order of the output vector). -/
def Func.statesInOrder (f : Func) : Bool :=
  f.stateArgs == (List.range f.rets.length).map f.stateOfResid

/-! ### Values -/

section values
variable (A : Alg K) (D : Deriv K)

/-- `outputs.set_vals(_ensure_iter(f(*args)))` / `residuals.set_vals(...)`: entry `r` of variable
`u` of the output (residual) vector; `vinfo.flat[:] = val.ravel()` broadcasts a one-entry value. -/
def outVal (f : Func) (x : Nat → Nat → K) (u r : Nat) : K := valOut A D f.comp x u r

/-- The exact partial derivative of entry `r` of return value `u` with respect to entry `j` of
argument `p` (differentiation rules of C14). -/
def exactJ (f : Func) (x : Nat → Nat → K) (u p r j : Nat) : K := jacSpec A D f.comp x u p r j

end values

/-! ## 4. The AD engine -/

/-- `jax.jvp` / `jax.vjp` of the wrapped function at the current point, on flattened values.
`jvp d u r`: tangent `d p j` for entry `j` of argument `p` (zero for static arguments), result entry
`r` of return value `u`.  `vjp w p j`: cotangent `w u r`, result entry `j` of argument `p`. -/
structure AD (K : Type) where
  jvp : (Nat → Nat → K) → Nat → Nat → K
  vjp : (Nat → Nat → K) → Nat → Nat → K

/-- The engine for the expression language: forward mode is evaluation over the dual numbers
(`C14_ad_correct`); reverse mode is the transposed product with the exact partials. -/
def exprAD (A : Alg K) (D : Deriv K) (f : Func) (x : Nat → Nat → K) : AD K where
  jvp d u r := duOut A D f.comp x d u r
  vjp w p j := sumN A (fun u => sumN A (fun r => A.mul (w u r) (exactJ A D f x u p r j)) (f.retSize u))
    f.rets.length

/-! ## 5. `ExplicitFuncComp._jax_linearize` without coloring -/

section assembly
variable [OfNat K 0] [OfNat K 1]

/-- `_get_tangents`: row `c` of `np.eye(total)`, `np.split` at the variable boundaries and reshaped
to the variable shapes: entry `j` of variable `k`. -/
def eyeSeed (sizes : List Nat) (c : Nat) : Nat → Nat → K :=
  fun k j => if offset sizes k + j = c ∧ j < sizes.getD k 0 then 1 else 0

/-- `jac_forward(f, argnums, tangents)(*invals)`, the array for return value `u`:
`vmap(..., out_axes=(None, -1))` puts the batch axis last, so the shape is `out_shape ++ [nt]` and
entry `(mo, c)` is the jvp along tangent `c` at the output's multi-index `mo`. -/
def jacFwdTensor (ad : AD K) (seed : Nat → Nat → Nat → K) (nt : Nat) (so : List Nat) (u : Nat) :
    Tensor K :=
  ⟨so ++ [nt], fun idx => ad.jvp (seed (splitLast idx).2) u (ravel so (splitLast idx).1)⟩

/-- `a.reshape((shape_to_len(a.shape[:-1]), a.shape[-1]))` (for a scalar return `a.reshape((1,
a.size))`, the same formula with `prod [] = 1`): entry `(r, c)` of the rows of return value `u`. -/
def fwdBlock (ad : AD K) (seed : Nat → Nat → Nat → K) (nt : Nat) (so : List Nat) (u r c : Nat) : K :=
  ((jacFwdTensor ad seed nt so u).reshape [prod so, nt]).get [r, c]

/-- The fwd branch: `j[start:end, :] = a` for the return values in order. -/
def efcFwd (f : Func) (ad : AD K) (row col : Nat) : K :=
  let ur := locate f.retSizes row
  fwdBlock ad (eyeSeed f.colSizes) f.isize (f.retShape ur.1) ur.1 ur.2 col

/-- A function with a single, non-tuple return value: `jac_forward(...)(*invals)` is then one array
and `for a in ...` iterates over its *first axis*.  For a scalar return the pieces are the `nt`
scalars (`a.reshape((1, 1))`, `osize == 1`: `j[0, start:end] = a`, one column per piece); otherwise
piece `i` has shape `rest ++ [nt]`, is reshaped to `(prod rest, nt)` and written to the rows
`i * prod rest ...`.  (When `osize == 1` with a non-scalar shape the code assigns the `(1, nt)`
piece to `j[0, 0:1]`, which NumPy accepts only for `nt = 1`; in the fwd branch `isize ≤ osize`, so
that is the only reachable case.) -/
def fwdBlockSingle (ad : AD K) (seed : Nat → Nat → Nat → K) (nt : Nat) (so : List Nat) (u r c : Nat) :
    K :=
  match so with
  | [] => ad.jvp (seed c) u 0
  | s0 :: rest =>
    let whole := jacFwdTensor ad seed nt (s0 :: rest) u
    let piece : Tensor K := ⟨rest ++ [nt], fun idx => whole.get (r / prod rest :: idx)⟩
    (piece.reshape [prod rest, nt]).get [r % prod rest, c]

/-- The fwd branch for a function with one bare return value. -/
def efcFwdSingle (f : Func) (ad : AD K) (row col : Nat) : K :=
  fwdBlockSingle ad (eyeSeed f.colSizes) f.isize (f.retShape 0) 0 row col

/-- `jac_reverse(f, argnums, tangents)(*invals)`, the array for argument `p`: `vmap` over axis 0, so
the shape is `[nc] ++ in_shape` and entry `(i, mi)` is the vjp of cotangent `i` at multi-index `mi`. -/
def jacRevTensor (ad : AD K) (seed : Nat → Nat → Nat → K) (nc : Nat) (si : List Nat) (p : Nat) :
    Tensor K :=
  ⟨nc :: si, fun idx => ad.vjp (seed (idx.headD 0)) p (ravel si idx.tail)⟩

/-- `a.reshape((a.shape[0], cend - cstart))` (for a scalar argument `a.reshape((a.size, 1))`). -/
def revBlock (ad : AD K) (seed : Nat → Nat → Nat → K) (nc : Nat) (si : List Nat) (p i j : Nat) : K :=
  ((jacRevTensor ad seed nc si p).reshape [nc, prod si]).get [i, j]

/-- The rev branch: `j[:, cstart:cend] = a` for the differentiable arguments in order. -/
def efcRev (f : Func) (ad : AD K) (row col : Nat) : K :=
  let pj := locate f.colSizes col
  revBlock ad (eyeSeed f.retSizes) f.osize (f.argShape pj.1) pj.1 row pj.2

/-- `Jacobian.set_dense_jac`: the dense sub-jacobian `(of u, wrt p)` is the block of `j` at the
variables' offsets (`None`: the pair is not declared). -/
def subjacEntry (f : Func) (declared : Nat → Nat → Bool) (J : Nat → Nat → K) (u p r c : Nat) :
    Option K :=
  if declared u p then some (J (offset f.retSizes u + r) (offset f.colSizes p + c)) else none

/-- The same for a pair declared with `rows`/`cols`: `val[k] = subj[rows[k], cols[k]]`. -/
def subjacSparse (f : Func) (J : Nat → Nat → K) (u p : Nat) (rows cols : List Nat) : List K :=
  (rows.zip cols).map fun rc => J (offset f.retSizes u + rc.1) (offset f.colSizes p + rc.2)

/-! ## 6. `JaxExplicitComponent._compute_partials` without coloring -/

/-- `jax.jacfwd/jacrev(compute_primal, argnums)` returns for every `(of, wrt)` an array of shape
`out_shape ++ in_shape`; `J r c` are its entries by flat output / input position. -/
def derivTensor (J : Nat → Nat → K) (so si : List Nat) : Tensor K :=
  ⟨so ++ si, fun idx => J (ravel so (idx.take so.length)) (ravel si (idx.drop so.length))⟩

/-- `_jax_derivs2partials`: `dvals[ofidx][wrtidx].reshape(ofmeta['size'], wrtmeta['size'])`. -/
def derivBlock (J : Nat → Nat → K) (so si : List Nat) (r c : Nat) : K :=
  ((derivTensor J so si).reshape [prod so, prod si]).get [r, c]

/-- ... and for declared `rows`/`cols`: `np.asarray(dvals)[rows, cols]`. -/
def derivSparse (J : Nat → Nat → K) (so si : List Nat) (rows cols : List Nat) : List K :=
  (rows.zip cols).map fun rc => derivBlock J so si rc.1 rc.2

/-! ## 7. Colored evaluation and `Coloring._expand_jac` -/

/-- The part of a `coloring.Coloring` object the components use: the sparsity as `(row, col)`
pairs (`_nzrows`, `_nzcols`, from `np.nonzero`) and the groups of one direction
(`color_iter('fwd')`: column groups, `color_iter('rev')`: row groups). -/
structure Coloring where
  nz : List (Nat × Nat)
  groups : List (List Nat)

/-- `color_array = zeros; for i, g in enumerate(groups): color_array[g] = i`: the last group that
contains `x`, color 0 when there is none. -/
def colorFrom : Nat → List (List Nat) → Nat → Nat → Nat
  | _, [], _, acc => acc
  | i, g :: gs, x, acc => colorFrom (i + 1) gs x (if g.contains x then i else acc)

/-- `Coloring._get_color_array`. -/
def colorOf (groups : List (List Nat)) (x : Nat) : Nat := colorFrom 0 groups x 0

/-- `Coloring.tangent_matrix` / `get_vmap_tangents(..., coloring)`: `tangent[nzs, i] = 1` for the
members `nzs` of one color, split at the variable boundaries. -/
def colorSeed (sizes : List Nat) (g : List Nat) : Nat → Nat → K :=
  fun k j => if g.contains (offset sizes k + j) ∧ j < sizes.getD k 0 then 1 else 0

/-- The compressed jacobian of the fwd branch: one jvp per color; per return value
`a.reshape((shape_to_len(a.shape[:-1]), a.shape[-1]))`, then `np.vstack` (`_jax2np`:
`reshape(-1, ncolors)` and `np.concatenate`). Entry `(row, i)`. -/
def compressedFwd (f : Func) (ad : AD K) (groups : List (List Nat)) (row i : Nat) : K :=
  let ur := locate f.retSizes row
  fwdBlock ad (fun i => colorSeed f.colSizes (groups.getD i [])) groups.length
    (f.retShape ur.1) ur.1 ur.2 i

/-- The compressed jacobian of the rev branch: one vjp per color; per argument
`a.reshape((a.shape[0], shape_to_len(a.shape[1:])))`, then `np.hstack` (`_jax2np(J).T`).
Entry `(i, col)`. -/
def compressedRev (f : Func) (ad : AD K) (groups : List (List Nat)) (i col : Nat) : K :=
  let pj := locate f.colSizes col
  revBlock ad (fun i => colorSeed f.retSizes (groups.getD i [])) groups.length
    (f.argShape pj.1) pj.1 i pj.2

/-- `Coloring._expand_jac(compressed_j, 'fwd')`: `data = compressed_j[nzrows, colors[nzcols]]`,
`csc_matrix((data, (nzrows, nzcols)))` — zero outside the sparsity. -/
def expandFwd (C : Coloring) (Jc : Nat → Nat → K) (r c : Nat) : K :=
  if C.nz.contains (r, c) then Jc r (colorOf C.groups c) else 0

/-- `Coloring._expand_jac(compressed_j, 'rev')`: `data = compressed_j[colors[nzrows], nzcols]`. -/
def expandRev (C : Coloring) (Jc : Nat → Nat → K) (r c : Nat) : K :=
  if C.nz.contains (r, c) then Jc (colorOf C.groups r) c else 0

/-- The colored fwd branch: compressed jvps, `_expand_jac`, `.toarray()`. -/
def efcFwdColored (f : Func) (ad : AD K) (C : Coloring) (row col : Nat) : K :=
  expandFwd C (compressedFwd f ad C.groups) row col

/-- The colored rev branch. -/
def efcRevColored (f : Func) (ad : AD K) (C : Coloring) (row col : Nat) : K :=
  expandRev C (compressedRev f ad C.groups) row col

/-- No index occurs in two groups. -/
def groupsDisjoint : List (List Nat) → Bool
  | [] => true
  | g :: gs => g.all (fun x => gs.all fun h => !h.contains x) && groupsDisjoint gs

/-- Run-time validation of a coloring handed over by the implementation, fwd direction: no column
in two groups, every column of the sparsity in some group, and two different columns of one group
never share a row of the sparsity (structurally orthogonal). -/
def coloringOkFwd (C : Coloring) : Bool :=
  groupsDisjoint C.groups &&
  C.nz.all (fun rc => C.groups.any fun g => g.contains rc.2) &&
  C.groups.all fun g => g.all fun a => g.all fun b =>
    a == b || C.nz.all fun rc => !(rc.2 == a && C.nz.contains (rc.1, b))

/-- The same for the rev direction (row groups). -/
def coloringOkRev (C : Coloring) : Bool :=
  groupsDisjoint C.groups &&
  C.nz.all (fun rc => C.groups.any fun g => g.contains rc.1) &&
  C.groups.all fun g => g.all fun a => g.all fun b =>
    a == b || C.nz.all fun rc => !(rc.1 == a && C.nz.contains (b, rc.2))

/-! ## 8. `ImplicitFuncComp._jax_linearize`: column order -/

/-- The function-ordered columns of argument `p`. -/
def Func.colsOf (f : Func) (p : Nat) : List Nat := List.range' (offset f.colSizes p) (f.colSize p)

/-- `_get_jac2func_inds`: for every column of the OpenMDAO jacobian (outputs in vector order, then
inputs in vector order) the column of the function-ordered jacobian; `indict` is keyed by name. -/
def Func.jac2func (f : Func) : List Nat :=
  ((List.range f.rets.length).map f.stateOfResid ++ f.inputVars).flatMap f.colsOf

/-- fwd branch: `_reorder_cols(np.vstack(j))` = `arr[:, trans]`. -/
def ifcFwd (f : Func) (ad : AD K) (row c : Nat) : K := efcFwd f ad row (f.jac2func.getD c f.isize)

/-- `_reorder_col_chunks`: the chunks of the state arguments in the order they are met in the
signature, then those of the inputs (`byName = true`: states in the order of the output vector). -/
def Func.chunkOrder (byName : Bool) (f : Func) : List Nat :=
  (if byName then (List.range f.rets.length).map f.stateOfResid else f.stateArgs) ++ f.inputVars

/-- rev branch: `np.hstack(self._reorder_col_chunks(j))`. -/
def ifcRev (byName : Bool) (f : Func) (ad : AD K) (row c : Nat) : K :=
  let order := f.chunkOrder byName
  let qj := locate (order.map f.colSize) c
  let p := order.getD qj.1 f.args.length
  revBlock ad (eyeSeed f.retSizes) f.osize (f.argShape p) p row qj.2

/-- Colored fwd branch of the implicit component: the seeds are translated into function order
(`tangent_matrix('fwd', trans=jac2func)`: `nzs = trans[nzs]`), the compressed jacobian is expanded
in OpenMDAO order. -/
def ifcFwdColored (f : Func) (ad : AD K) (C : Coloring) (row col : Nat) : K :=
  expandFwd C (compressedFwd f ad (C.groups.map fun g => g.map fun c => f.jac2func.getD c f.isize))
    row col

/-- Colored rev branch: chunks per argument, `_reorder_col_chunks`, `np.hstack`, `_expand_jac`. -/
def ifcRevColored (byName : Bool) (f : Func) (ad : AD K) (C : Coloring) (row col : Nat) : K :=
  expandRev C (fun i c =>
    let order := f.chunkOrder byName
    let qj := locate (order.map f.colSize) c
    let p := order.getD qj.1 f.args.length
    revBlock ad (fun i => colorSeed f.retSizes (C.groups.getD i [])) C.groups.length
      (f.argShape p) p i qj.2) row col

/-- Sizes of the column blocks of the OpenMDAO jacobian of an implicit component: outputs in vector
order, then inputs in vector order. -/
def Func.omColSizes (f : Func) : List Nat :=
  ((List.range f.rets.length).map f.stateOfResid ++ f.inputVars).map f.colSize

end assembly

end OMV.C34
