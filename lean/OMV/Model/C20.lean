/-
C20 — driver scaling: executable model of the code that maps model quantities to what an
optimizer sees and back.

  * `determineAdderScaler`      utils/general_utils.py:determine_adder_scaler
  * `unitConv`                  utils/units.py:convert_units, as used by core/driver.py:_get_voi_val
                                (driver_units=True) and core/driver.py:_set_design_var
  * `vecScale` / `vecUnscale`   drivers/autoscalers/autoscaler.py:_apply_vec_scaling / _apply_vec_unscaling
                                on one named slice of an vectors/optimizer_vector.py:OptimizerVector
                                (the `driver_scaling` flag of the vector is part of the state)
  * `scaleBound`                autoscaler.py:_scale_bound (+ the defaults of _compute_scaled_bounds)
  * `scaledBounds`              autoscaler.py:_compute_scaled_bounds for one variable, both variants
                                (`swapNeg`: exchange under a negative scaler, /repo cf7cce3)
  * `jacUnit`, `jacScale`       core/total_jac.py:_apply_unit_scaling, autoscaler.py:apply_jac_scaling
                                (one block); `jacFlat` / `jacNested` the two dict layouts;
                                `jacUnitGate` the `has_custom_derivs` switch of _TotalJacInfo.__init__
  * `multUnscale`               autoscaler.py:apply_mult_unscaling (`_combined_scaler`: total_scaler
                                times unit_scaler)
  * `dropDefault`               core/system.py:set_design_var_options (totals 1.0 / 0.0 stored as None)

A scaling value is what NumPy sees: a Python float or a flat ndarray (`Sv`), `none` is Python
`None`.  Exceptions of the real code are values of `Err`.  Everything is polymorphic in the carrier
so that the theorems hold over any (ordered) field and the driver runs the same code over `Rat`.
Core Lean only.
-/
namespace OMV.C20

/-- Exceptions of the real code, as a small enum. -/
inductive Err where
  /-- `ValueError('Inputs ref/ref0 are mutually exclusive with scaler/adder')` -/
  | mutex
  /-- `ZeroDivisionError` of the Python float expression `1.0 / (ref + adder)` -/
  | zerodiv
  /-- NumPy `ValueError`/`IndexError`: operands could not be broadcast / boolean index mismatch -/
  | shape
  deriving DecidableEq, Repr

/-- A scaling value as NumPy sees it: Python float or flat ndarray. -/
inductive Sv (K : Type) where
  | scalar : K → Sv K
  | array : List K → Sv K
  deriving DecidableEq, Repr

variable {K : Type}

def Sv.map (f : K → K) : Sv K → Sv K
  | .scalar x => .scalar (f x)
  | .array l => .array (l.map f)

/-- NumPy binary operation with broadcasting between two floats / flat arrays. -/
def Sv.zip (f : K → K → K) : Sv K → Sv K → Except Err (Sv K)
  | .scalar a, .scalar b => .ok (.scalar (f a b))
  | .scalar a, .array m => .ok (.array (m.map (f a)))
  | .array l, .scalar b => .ok (.array (l.map (fun x => f x b)))
  | .array l, .array m =>
    if l.length = m.length then .ok (.array (List.zipWith f l m)) else
      match l, m with
      | [a], _ => .ok (.array (m.map (f a)))
      | _, [b] => .ok (.array (l.map (fun x => f x b)))
      | _, _ => .error .shape

/-- Broadcast against a flat vector of length `n`, as `vec[name] op= v` does. -/
def Sv.bcast (v : Sv K) (n : Nat) : Except Err (List K) :=
  match v with
  | .scalar x => .ok (List.replicate n x)
  | .array l =>
    if l.length = n then .ok l else
      match l with
      | [x] => .ok (List.replicate n x)
      | _ => .error .shape

/-- `x if np.isscalar(x) else np.asarray(x)[mask]` with a boolean mask of length `n`: an array
must have exactly length `n` (no broadcasting of length-1 arrays). -/
def Sv.strict (v : Sv K) (n : Nat) : Except Err (List K) :=
  match v with
  | .scalar x => .ok (List.replicate n x)
  | .array l => if l.length = n then .ok l else .error .shape

/-- In-place `vec op= v` on a flat slice. -/
def bcastOp (f : K → K → K) (vec : List K) (v : Sv K) : Except Err (List K) :=
  match v.bcast vec.length with
  | .ok l => .ok (List.zipWith f vec l)
  | .error e => .error e

/-- `vec op= v` when `v is not None`. -/
def optOp (f : K → K → K) (vec : List K) (v : Option (Sv K)) : Except Err (List K) :=
  match v with
  | none => .ok vec
  | some a => bcastOp f vec a

/-- `Sv.strict` under an `Option`. -/
def optStrict (v : Option (Sv K)) (n : Nat) : Except Err (Option (List K)) :=
  match v with
  | none => .ok none
  | some a =>
    match a.strict n with
    | .ok l => .ok (some l)
    | .error e => .error e

/-- Sequencing in the exception monad (first error wins). -/
def bindE {α β : Type} (x : Except Err α) (f : α → Except Err β) : Except Err β :=
  match x with
  | .error e => .error e
  | .ok a => f a

/-- Post-process a successful result. -/
def mapOk {α β : Type} (g : α → β) (x : Except Err α) : Except Err β :=
  bindE x (fun a => .ok (g a))

/-- `mapM` in the exception monad, written out (first error wins, left to right). -/
def mapE {α β : Type} (f : α → Except Err β) : List α → Except Err (List β)
  | [] => .ok []
  | a :: as => bindE (f a) (fun b => bindE (mapE f as) (fun bs => .ok (b :: bs)))

section Arith
variable [Add K] [Sub K] [Mul K] [Div K] [Neg K] [OfNat K 0] [OfNat K 1] [DecidableEq K]

/-! ### determine_adder_scaler -/

/-- `general_utils.py:determine_adder_scaler(ref0, ref, adder, scaler)` → `(adder, scaler)`.
ref/ref0 take the first branch (and exclude scaler/adder); the scalar quotient is a Python float
division (raises on zero), the array quotient is NumPy's (elementwise). -/
def determineAdderScaler (ref0 ref adder scaler : Option (Sv K)) : Except Err (Sv K × Sv K) :=
  if ref0.isSome || ref.isSome then
    if scaler.isSome || adder.isSome then .error .mutex
    else
      let ref := ref.getD (.scalar 1)
      let ref0 := ref0.getD (.scalar 0)
      let adder := ref0.map (fun x => -x)
      match Sv.zip (· + ·) ref adder with
      | .error e => .error e
      | .ok (.scalar d) => if d = 0 then .error .zerodiv else .ok (adder, .scalar (1 / d))
      | .ok (.array l) => .ok (adder, .array (l.map (fun d => 1 / d)))
  else
    .ok (adder.getD (.scalar 0), scaler.getD (.scalar 1))

/-- `core/system.py:set_design_var_options` post-processing of the totals: a scaler that is `1.0`
everywhere / an adder that is `0.0` everywhere is stored as `None` (the `None` branches of the
autoscaler are reached this way; `add_design_var` / `add_response` keep the values). -/
def dropDefault (d : K) (v : Sv K) : Option (Sv K) :=
  match v with
  | .scalar x => if x = d then none else some v
  | .array l => if l.all (fun x => decide (x = d)) then none else some v

/-! ### the affine maps, elementwise -/

/-- `x_optimizer = (x_model + adder) * scaler` -/
def scaleElem (a s x : K) : K := (x + a) * s

/-- `x_model = x_optimizer / scaler - adder` -/
def unscaleElem (a s y : K) : K := y / s - a

/-- `units.py:convert_units`: `(val + offset) * factor`. -/
def unitConv (f o x : K) : K := (x + o) * f

/-- Unit conversion followed by driver scaling of one element (what `get_*_values` returns). -/
def driverElem (f o a s x : K) : K := scaleElem a s (unitConv f o x)

/-! ### one named slice of an OptimizerVector -/

structure OVec (K : Type) where
  data : List K
  /-- `OptimizerVector._driver_scaling` -/
  scaled : Bool
  deriving DecidableEq, Repr

/-- `autoscaler.py:_apply_vec_scaling` on one variable: no-op when the vector is already scaled;
`vec += adder` (if not None) then `vec *= scaler` (if not None); flag set. -/
def vecScale (adder scaler : Option (Sv K)) (v : OVec K) : Except Err (OVec K) :=
  if v.scaled then .ok v else
    match optOp (· + ·) v.data adder with
    | .error e => .error e
    | .ok d =>
      match optOp (· * ·) d scaler with
      | .error e => .error e
      | .ok d' => .ok { data := d', scaled := true }

/-- `autoscaler.py:_apply_vec_unscaling` on one variable: no-op when the vector is not scaled;
`vec /= scaler` (if not None) then `vec -= adder` (if not None); flag cleared. -/
def vecUnscale (adder scaler : Option (Sv K)) (v : OVec K) : Except Err (OVec K) :=
  if !v.scaled then .ok v else
    match optOp (· / ·) v.data scaler with
    | .error e => .error e
    | .ok d =>
      match optOp (· - ·) d adder with
      | .error e => .error e
      | .ok d' => .ok { data := d', scaled := false }

/-- `OptimizerVector.update_from_model` for one variable: model value (source units) → unit
conversion (`_get_voi_val(driver_units=True)`; `none` = no units declared or same units) → flag
cleared → autoscaler if `driverScaling`. -/
def voiValue (unit : Option (K × K)) (adder scaler : Option (Sv K)) (driverScaling : Bool)
    (x : List K) : Except Err (List K) :=
  let xu := match unit with
    | none => x
    | some (f, o) => x.map (unitConv f o)
  if driverScaling then
    match vecScale adder scaler { data := xu, scaled := false } with
    | .ok v => .ok v.data
    | .error e => .error e
  else .ok xu

/-- `Driver._set_design_vars(driver_scaling=True)` for one variable: the optimizer's vector (flag
set by `set_data`) is unscaled, written into the model, and converted from driver units to source
units with the reverse conversion `back = (factor, offset)`. -/
def setDesignVar (back : Option (K × K)) (adder scaler : Option (Sv K)) (y : List K) :
    Except Err (List K) :=
  match vecUnscale adder scaler { data := y, scaled := true } with
  | .error e => .error e
  | .ok v =>
    match back with
    | none => .ok v.data
    | some (f, o) => .ok (v.data.map (unitConv f o))

end Arith

/-! ### bounds -/

section Bounds
variable [Add K] [Mul K] [Neg K] [LE K] [DecidableLE K]

/-- `inf_mask` of `_scale_bound`: `val <= -INF_BOUND` for a lower, `val >= INF_BOUND` for an upper
bound. -/
def isInfBound (inf : K) (isLower : Bool) (v : K) : Bool :=
  if isLower then decide (v ≤ -inf) else decide (inf ≤ v)

/-- The sentinel written back for unbounded elements. -/
def sentinel (inf : K) (isLower : Bool) : K := if isLower then -inf else inf

/-- One element of `_scale_bound` when both adder and scaler are present. -/
def boundElem (inf : K) (isLower : Bool) (a s v : K) : K :=
  if isInfBound inf isLower v then sentinel inf isLower else (v + a) * s

/-- One element with optional adder / scaler (already broadcast). -/
def boundElemOpt (inf : K) (isLower : Bool) (a s : Option K) (v : K) : K :=
  if isInfBound inf isLower v then sentinel inf isLower else
    let v1 := match a with | none => v | some a => v + a
    match s with | none => v1 | some s => v1 * s

def zip3With {α β γ δ : Type} (f : α → β → γ → δ) : List α → List β → List γ → List δ
  | a :: as, b :: bs, c :: cs => f a b c :: zip3With f as bs cs
  | _, _, _ => []

/-- Transpose an optional list into a list of options of length `n`. -/
def optList (o : Option (List K)) (n : Nat) : List (Option K) :=
  match o with
  | none => List.replicate n none
  | some l => l.map some

/-- `autoscaler.py:_scale_bound(val, adder, scaler, size, is_lower)`.
`val = none` is Python `None` (replaced by the sentinel); a scalar is repeated, an array is
`broadcast_to (size,)`.  If every element is unbounded nothing is scaled (and the shapes of adder and
scaler are not looked at); otherwise adder and scaler are applied on the finite elements, arrays
being fancy-indexed with the mask (`Sv.strict`).  Sentinels are restored at the end. -/
def scaleBound (inf : K) (isLower : Bool) (adder scaler : Option (Sv K)) (size : Nat)
    (val : Option (Sv K)) : Except Err (List K) :=
  let val := val.getD (.scalar (sentinel inf isLower))
  match val.bcast size with
  | .error e => .error e
  | .ok arr =>
    if arr.all (isInfBound inf isLower) then
      .ok (arr.map (fun _ => sentinel inf isLower))
    else
      match optStrict adder size with
      | .error e => .error e
      | .ok a =>
        match optStrict scaler size with
        | .error e => .error e
        | .ok s =>
          .ok (zip3With (fun v a s => boundElemOpt inf isLower a s v) arr (optList a size)
            (optList s size))

/-! The pair of scaled bounds of one variable (`_compute_scaled_bounds`).  Two variants of the code are
modelled: `swapNeg = false` is the pinned snapshot (each bound scaled on its own), `swapNeg = true`
the repaired code (/repo cf7cce3): where the scaler is negative the scaled upper bound becomes the
driver-space lower bound and vice versa, a sentinel becoming the opposite sentinel. -/
section BoundPair
variable [LT K] [DecidableLT K] [OfNat K 0]

def Sv.any (p : K → Bool) : Sv K → Bool
  | .scalar x => p x
  | .array l => l.any p

/-- One element of the exchange: `lo_sw = where(upper_s >= INF, -INF, upper_s)`,
`hi_sw = where(lower_s <= -INF, INF, lower_s)`, taken where `neg`. -/
def swapElem (inf : K) (neg : Bool) (lo up : K) : K × K :=
  if neg then (if inf ≤ up then -inf else up, if lo ≤ -inf then inf else lo) else (lo, up)

/-- `autoscaler.py:_compute_scaled_bounds` for one variable: `(lower_s, upper_s)`. -/
def scaledBounds (swapNeg : Bool) (inf : K) (adder scaler : Option (Sv K)) (size : Nat)
    (lower upper : Option (Sv K)) : Except Err (List K × List K) :=
  match scaleBound inf true adder scaler size lower with
  | .error e => .error e
  | .ok lo =>
    match scaleBound inf false adder scaler size upper with
    | .error e => .error e
    | .ok up =>
      match scaler with
      | none => .ok (lo, up)
      | some sv =>
        if swapNeg && sv.any (fun s => decide (s < 0)) then
          -- neg = np.broadcast_to(scaler < 0, (size,))
          match sv.bcast size with
          | .error e => .error e
          | .ok sl =>
            let neg := sl.map (fun s => decide (s < 0))
            .ok (zip3With (fun n l u => (swapElem inf n l u).1) neg lo up,
                 zip3With (fun n l u => (swapElem inf n l u).2) neg lo up)
        else .ok (lo, up)

/-- What a pair of bounds means to an optimizer, the sentinels standing for "no bound"
(`scipy_optimizer.py`: `p_low <= -INF_BOUND → None`, `p_high >= INF_BOUND → None`). -/
def feasB (inf lo hi x : K) : Bool :=
  (decide (lo ≤ -inf) || decide (lo ≤ x)) && (decide (inf ≤ hi) || decide (x ≤ hi))

end BoundPair

end Bounds

/-! ### Jacobian blocks -/

section Jac
variable [Mul K] [Div K] [OfNat K 0] [OfNat K 1] [DecidableEq K]

/-- A Jacobian block: list of rows. -/
abbrev Block (K : Type) := List (List K)

/-- `total_jac.py:_apply_unit_scaling` on one block: `block *= out_scaler` when truthy, then
`block *= (1.0 / in_scaler)` when truthy (`none` = variable has no unit scaler recorded). -/
def jacUnit (outU inU : Option K) (J : Block K) : Block K :=
  let J1 := match outU with
    | none => J
    | some u => if u = 0 then J else J.map (fun r => r.map (fun x => x * u))
  match inU with
  | none => J1
  | some u => if u = 0 then J1 else J1.map (fun r => r.map (fun x => x * (1 / u)))

/-- `total_jac.py:_TotalJacInfo.__init__` records the unit scalers
`if not has_custom_derivs or self.has_scaling`: the unit conversion of the Jacobian is skipped only
for a request that is neither in the driver's own order (`custom`) nor driver-scaled. -/
def jacUnitGate (custom hasScaling : Bool) (outU inU : Option K) (J : Block K) : Block K :=
  if custom && !hasScaling then J else jacUnit outU inU J

/-- `block[...] = (out_scaler * block.T).T`: row `i` times `out_scaler[i]`. -/
def rowScale (so : Sv K) (J : Block K) : Except Err (Block K) :=
  match so.bcast J.length with
  | .error e => .error e
  | .ok l => .ok (List.zipWith (fun s r => r.map (fun x => s * x)) l J)

/-- `block *= 1.0 / in_scaler`: column `j` times the reciprocal of `in_scaler[j]`. -/
def colScale (si : Sv K) (J : Block K) : Except Err (Block K) :=
  mapE (fun r =>
    match si.bcast r.length with
    | .error e => .error e
    | .ok l => .ok (List.zipWith (fun x s => x * (1 / s)) r l)) J

/-- `autoscaler.py:apply_jac_scaling` on one block with the two looked-up `total_scaler`s. -/
def jacScale (so si : Option (Sv K)) (J : Block K) : Except Err (Block K) :=
  match (match so with
    | none => Except.ok J
    | some s => rowScale s J) with
  | .error e => .error e
  | .ok J1 =>
    match si with
    | none => .ok J1
    | some s => colScale s J1

/-- Scaling metadata the autoscaler looks at: `total_scaler` by name for the three kinds. -/
structure JacMeta (K : Type) where
  objective : List (String × Option (Sv K))
  constraint : List (String × Option (Sv K))
  designVar : List (String × Option (Sv K))

/-- Output scaler lookup: objectives first, then constraints; `none` = unknown output (skip). -/
def JacMeta.out (m : JacMeta K) (name : String) : Option (Option (Sv K)) :=
  match m.objective.lookup name with
  | some s => some s
  | none => m.constraint.lookup name

def JacMeta.inp (m : JacMeta K) (name : String) : Option (Option (Sv K)) :=
  m.designVar.lookup name

/-- The per-block step shared by both layouts: unknown names leave the block untouched. -/
def jacBlockStep (m : JacMeta K) (ofName wrtName : String) (J : Block K) : Except Err (Block K) :=
  match m.out ofName with
  | none => .ok J
  | some so =>
    match m.inp wrtName with
    | none => .ok J
    | some si => jacScale so si J

/-- Flat layout `jac[(of, wrt)] = block`. -/
def jacFlat (m : JacMeta K) (jac : List ((String × String) × Block K)) :
    Except Err (List ((String × String) × Block K)) :=
  mapE (fun kb => mapOk (fun b => (kb.1, b)) (jacBlockStep m kb.1.1 kb.1.2 kb.2)) jac

/-- Nested layout `jac[of][wrt] = block`. -/
def jacNested (m : JacMeta K) (jac : List (String × List (String × Block K))) :
    Except Err (List (String × List (String × Block K))) :=
  mapE (fun ob => mapOk (fun inner => (ob.1, inner))
    (mapE (fun wb => mapOk (fun b => (wb.1, b)) (jacBlockStep m ob.1 wb.1 wb.2)) ob.2)) jac

/-- The nested dict seen as a flat one. -/
def flattenJac (jac : List (String × List (String × Block K))) : List ((String × String) × Block K) :=
  jac.flatMap (fun ob => ob.2.map (fun wb => ((ob.1, wb.1), wb.2)))

end Jac

/-! ### Lagrange multipliers -/

section Mult
variable [Mul K] [Div K] [OfNat K 0] [OfNat K 1] [DecidableEq K]

/-- `apply_mult_unscaling._combined_scaler(meta)`: `total_scaler` (`None` → `1.0`) times
`unit_scaler` when the variable has a unit conversion. -/
def combinedScaler (total : Option (Sv K)) (unit : Option K) : Sv K :=
  let s := total.getD (.scalar 1)
  match unit with
  | none => s
  | some u => s.map (fun x => x * u)

/-- The formula of the docstring, one element: `λ = λ_scaled * (scaler / obj_scaler)`. -/
def multUnscaleElem (objS s lam : K) : K := lam * (s / objS)

/-- `autoscaler.py:apply_mult_unscaling` for one design variable or constraint:
`mult *= _combined_scaler(meta) / _combined_scaler(obj_meta)`. -/
def multUnscale (objS : Option (Sv K)) (objU : Option K) (s : Option (Sv K)) (u : Option K)
    (mult : List K) : Except Err (List K) :=
  match Sv.zip (· / ·) (combinedScaler s u) (combinedScaler objS objU) with
  | .error e => .error e
  | .ok q => bcastOp (· * ·) mult q

end Mult

/-- Dot product used to state stationarity. -/
def dot [Add K] [Mul K] [OfNat K 0] : List K → List K → K
  | a :: as, b :: bs => a * b + dot as bs
  | _, _ => 0

end OMV.C20
