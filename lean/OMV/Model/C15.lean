/-
C15 — table interpolation of `openmdao/components/interp_util` (`InterpND` and its table methods).

What is modelled, literally to the code:

* `bracket`            — `interp_algorithm.py:InterpAlgorithm.bracket` (stateful start index
  `last_index`, exponential search down, exponential search up, bisection; flags −1/0/+1) and the two
  bracketing rules of `InterpAlgorithmFixed.bracket` (`_bracket_dim`, `np.searchsorted(..)-1`).
* `checkDim`/`checkAll` — the bounds pre-check of `interp.py:InterpND._interpolate`
  (`eps = 1e-14 * grid[-1]` **as written**, i.e. negative on a grid that ends below zero; the switch
  `absEps` selects the repaired `1e-14 * |grid[-1]|`), including the `set(p1).union(p2).pop()` that
  raises `KeyError` when the tolerance test trips although no point is outside the grid.
* one-dimensional kernels `slinearK`, `lagrange2K`, `lagrange3K`, `akimaK`, `cubicK`
  (`interp_slinear.py`, `interp_lagrange2.py`, `interp_lagrange3.py`, `interp_akima.py`,
  `interp_cubic.py` : `interpolate`) with their stencil shifts at the table ends, and the recursion
  over table dimensions `evalIdx`/`evalND` (`InterpAlgorithm.evaluate`: a dimension interpolates
  between the values its sub-table returns for the nodes of the stencil).
* the fixed-dimension variants `1D/2D/3D-slinear`, `1D/2D/3D-lagrange2`, `1D/2D/3D-lagrange3`
  (cell coefficients in the power basis of the cell-local coordinate, `compute_coeffs`) and
  `1D-akima` (single point and vectorized code paths, which treat a 4-point grid differently).

Tables are functions `List Nat → K` (multi-index → value), grids are `Nat → K` with their length.
Carrier: any type with the arithmetic and order used (the driver runs `Rat`; the theorems are over
linearly ordered fields).  Core Lean only.
-/
namespace OMV.C15

/-! ## Bracketing -/

/-- Extrapolation flag returned by `bracket`: −1, 0, +1. -/
inductive Flag where
  | below | inside | above
  deriving DecidableEq, Repr

/-- Loop state of `bracket`: `last_index`, `high`, `inc`. -/
structure BState where
  last : Nat
  high : Nat
  inc : Nat
  deriving DecidableEq, Repr

section Bracket
variable {K : Type} [LT K] [DecidableLT K] [LE K] [DecidableLE K]

/-- `while x <= grid[last_index]: high = last_index; last_index -= inc; if last_index < 0: ...`.
`none` = the early `return last_index, -1` (x below the table).  The first argument is fuel
(`last + 1` iterations always suffice because `inc ≥ 1`). -/
def descend (g : Nat → K) (x : K) : Nat → BState → Option BState
  | 0, s => some s
  | f + 1, s =>
    if x ≤ g s.last then
      if s.last < s.inc then
        -- last_index went negative: reset to 0, test the bottom end, `break`
        if x < g 0 then none else some ⟨0, s.last, s.inc⟩
      else descend g x f ⟨s.last - s.inc, s.last, s.inc + s.inc⟩
    else some s

/-- `while x > grid[high]: last_index = high; high += inc; if high >= highbound: ...`.
`none` = the early `return highbound, 1` (x above the table). -/
def ascend (g : Nat → K) (x : K) (hb : Nat) : Nat → BState → Option BState
  | 0, s => some s
  | f + 1, s =>
    if g s.high < x then
      if hb ≤ s.high + s.inc then
        if g hb < x then none else some ⟨s.high, hb, s.inc⟩
      else ascend g x hb f ⟨s.high, s.high + s.inc, s.inc + s.inc⟩
    else some s

/-- `while high - last_index > 1: low = (high + last_index) // 2; ...`. -/
def bisect (g : Nat → K) (x : K) : Nat → Nat → Nat → Nat
  | 0, last, _ => last
  | f + 1, last, high =>
    if 1 < high - last then
      let low := (high + last) / 2
      if x < g low then bisect g x f last low else bisect g x f low high
    else last

/-- `InterpAlgorithm.bracket(x)` on a grid of `n` points, started from `last_index = last`. -/
def bracket (g : Nat → K) (n : Nat) (last : Nat) (x : K) : Nat × Flag :=
  match descend g x (last + 1) ⟨last, last + 1, 1⟩ with
  | none => (0, .below)
  | some s =>
    let hb := n - 1
    let s := if hb < s.high then { s with high := hb } else s
    match ascend g x hb n s with
    | none => (hb, .above)
    | some s => (bisect g x n s.last s.high, .inside)

/-- Interval index used by the general tables for a fresh table (`last_index = 0`). -/
def bracket0 (g : Nat → K) (n : Nat) (x : K) : Nat := (bracket g n 0 x).1

/-- `InterpAlgorithmFixed._bracket_dim`: as `bracket`, but −1 below the table. -/
def bracketDim (g : Nat → K) (n : Nat) (last : Nat) (x : K) : Int :=
  match bracket g n last x with
  | (_, .below) => -1
  | (i, _) => (i : Int)

/-- `np.searchsorted(grid, x, side='left') - 1` (vectorized path of the fixed tables). -/
def bracketVec (g : Nat → K) (n : Nat) (x : K) : Int :=
  (((List.range n).filter (fun i => decide (g i < x))).length : Int) - 1

end Bracket

/-! ## Bounds pre-check of `InterpND._interpolate` -/

/-- Result of the pre-check: passes, `OutOfBoundsError`, or the `KeyError: pop from an empty set`. -/
inductive Check where
  | ok | oob | crash
  deriving DecidableEq, Repr

section Bounds
variable {K : Type} [LT K] [DecidableLT K] [Add K] [Sub K] [Mul K] [Neg K] [OfNat K 0]

/-- `abs_complex` on a real number: negate when negative. -/
def absK (a : K) : K := if a < 0 then -a else a

/-- `eps = 1e-14 * self.grid[i][-1]` (`c` is the constant 1e-14); `absEps` is the repaired form. -/
def tolEps (absEps : Bool) (c : K) (glast : K) : K :=
  c * (if absEps then absK glast else glast)

/-- One pass of the `for i, p in enumerate(xi.T)` loop for one dimension and all requested points. -/
def checkDim (absEps : Bool) (c : K) (g : Nat → K) (n : Nat) (ps : List K) : Check :=
  let eps := tolEps absEps c (g (n - 1))
  if ps.any (fun p => decide (p < g 0 - eps)) || ps.any (fun p => decide (g (n - 1) + eps < p)) then
    -- p1 = where(grid[0] > p), p2 = where(p > grid[-1]); set(p1).union(p2).pop()
    if ps.any (fun p => decide (p < g 0)) || ps.any (fun p => decide (g (n - 1) < p)) then .oob
    else .crash
  else .ok

/-- All dimensions in order; the first dimension that does not pass decides.  `cols` are the
coordinates of the requested points per dimension (`xi.T`). -/
def checkAll (absEps : Bool) (c : K) : List (Nat × (Nat → K)) → List (List K) → Check
  | (n, g) :: ds, ps :: cols =>
    match checkDim absEps c g n ps with
    | .ok => checkAll absEps c ds cols
    | r => r
  | _, _ => .ok

end Bounds

/-! ## One-dimensional kernels

`n` grid points `g 0 < … < g (n-1)`, values `v i` along this dimension, `idx` the bracket index. -/

section Kernels
variable {K : Type} [Add K] [Sub K] [Mul K] [Div K] [Neg K]
  [OfNat K 0] [OfNat K 1] [OfNat K 2] [OfNat K 3] [OfNat K 6]

/-- `interp_slinear.py:InterpLinear.interpolate`. -/
def slinearK (n : Nat) (g v : Nat → K) (idx : Nat) (x : K) : K :=
  -- Extrapolate high
  let idx := if idx = n - 1 then idx - 1 else idx
  let h := 1 / (g (idx + 1) - g idx)
  let slope := (v (idx + 1) - v idx) * h
  v idx + (x - g idx) * slope

/-- Stencil start of lagrange2: `if idx > ngrid - 3: idx = ngrid - 3`. -/
def lag2Start (n idx : Nat) : Nat := if n - 3 < idx then n - 3 else idx

/-- `interp_lagrange2.py:InterpLagrange2.interpolate`. -/
def lagrange2K (n : Nat) (g v : Nat → K) (idx : Nat) (x : K) : K :=
  let idx := lag2Start n idx
  let xx1 := x - g idx
  let xx2 := x - g (idx + 1)
  let xx3 := x - g (idx + 2)
  let c12 := g idx - g (idx + 1)
  let c13 := g idx - g (idx + 2)
  let c23 := g (idx + 1) - g (idx + 2)
  let q1 := v idx / (c12 * c13)
  let q2 := v (idx + 1) / (c12 * c23)
  let q3 := v (idx + 2) / (c13 * c23)
  xx3 * (q1 * xx2 - q2 * xx1) + q3 * xx1 * xx2

/-- Stencil centre of lagrange3: `if idx > ngrid - 3: idx = ngrid - 3; elif idx == 0: idx = 1`. -/
def lag3Start (n idx : Nat) : Nat := if n - 3 < idx then n - 3 else if idx = 0 then 1 else idx

/-- `interp_lagrange3.py:InterpLagrange3.interpolate`. -/
def lagrange3K (n : Nat) (g v : Nat → K) (idx : Nat) (x : K) : K :=
  let idx := lag3Start n idx
  let p1 := g (idx - 1)
  let p2 := g idx
  let p3 := g (idx + 1)
  let p4 := g (idx + 2)
  let xx1 := x - p1
  let xx2 := x - p2
  let xx3 := x - p3
  let xx4 := x - p4
  let c12 := 1 / (p1 - p2)
  let c13 := 1 / (p1 - p3)
  let c14 := 1 / (p1 - p4)
  let c23 := 1 / (p2 - p3)
  let c24 := 1 / (p2 - p4)
  let c34 := 1 / (p3 - p4)
  let q1 := v (idx - 1) * (c12 * c13 * c14)
  let q2 := v idx * (c12 * c23 * c24)
  let q3 := v (idx + 1) * (c13 * c23 * c34)
  let q4 := v (idx + 2) * (c14 * c24 * c34)
  xx4 * (xx3 * (q1 * xx2 - q2 * xx1) + q3 * xx1 * xx2) - q4 * xx1 * xx2 * xx3

/-! ### Akima -/

/-- The five interval slopes `m1 … m5`. -/
structure Slopes (K : Type) where
  m1 : K
  m2 : K
  m3 : K
  m4 : K
  m5 : K

/-- Slope of interval `(x_i, x_{i+1})`. -/
def slopeAt (g v : Nat → K) (i : Nat) : K := (v (i + 1) - v i) / (g (i + 1) - g i)

/-- Slopes around interval `idx` that exist in the table; the others keep their initial 0. -/
def akimaRaw (n : Nat) (g v : Nat → K) (idx : Nat) : Slopes K :=
  { m1 := if 2 ≤ idx then slopeAt g v (idx - 2) else 0
    m2 := if 1 ≤ idx then slopeAt g v (idx - 1) else 0
    m3 := slopeAt g v idx
    m4 := if idx + 2 < n then slopeAt g v (idx + 1) else 0
    m5 := if idx + 3 < n then slopeAt g v (idx + 2) else 0 }

/-- `if idx == 0: m2 = 2*m3 - m4; m1 = 2*m2 - m3`. -/
def Slopes.lo0 (s : Slopes K) : Slopes K :=
  { s with m2 := 2 * s.m3 - s.m4, m1 := 2 * (2 * s.m3 - s.m4) - s.m3 }

/-- `idx == 1: m1 = 2*m2 - m3`. -/
def Slopes.lo1 (s : Slopes K) : Slopes K := { s with m1 := 2 * s.m2 - s.m3 }

/-- `idx == ngrid - 3: m5 = 2*m4 - m3`. -/
def Slopes.hi3 (s : Slopes K) : Slopes K := { s with m5 := 2 * s.m4 - s.m3 }

/-- `idx == ngrid - 2: m4 = 2*m3 - m2; m5 = 2*m4 - m3`. -/
def Slopes.hi2 (s : Slopes K) : Slopes K :=
  { s with m4 := 2 * s.m3 - s.m2, m5 := 2 * (2 * s.m3 - s.m2) - s.m3 }

/-- Slopes around interval `idx` (already shifted into `0 … n-2`), with the end conditions.
`elifChain = true` is the `if idx == 0 … elif idx == 1 … elif idx == ngrid-3 … elif idx == ngrid-2`
chain of `InterpAkima.interpolate` / `Interp1DAkima.compute_coeffs` (on a 4-point grid `idx = 1`
takes the second branch and `m5` keeps its initial value 0); `false` is the four independent
`np.where` blocks of `Interp1DAkima.compute_coeffs_vectorized`. -/
def akimaSlopes (elifChain : Bool) (n : Nat) (g v : Nat → K) (idx : Nat) : Slopes K :=
  let s := akimaRaw n g v idx
  if elifChain then
    if idx = 0 then s.lo0
    else if idx = 1 then s.lo1
    else if idx = n - 3 then s.hi3
    else if idx = n - 2 then s.hi2
    else s
  else
    let s := if idx = 0 then s.lo0 else s
    let s := if idx = 1 then s.lo1 else s
    let s := if idx = n - 3 then s.hi3 else s
    if idx = n - 2 then s.hi2 else s

variable [LT K] [DecidableLT K] [LE K] [DecidableLE K]

/-- Weighted end slope `b` (or `bp1`): `(ma*wa + mb*wb)/(wa + wb)` when the weight sum exceeds the
division guard `eps` (`> eps`, or `>= eps` with `ge = true`), else the plain mean. -/
def akimaSlope (ge : Bool) (eps ma wa mb wb : K) : K :=
  if (if ge then eps ≤ wa + wb else eps < wa + wb) then (ma * wa + mb * wb) / (wa + wb)
  else (1 / 2) * (ma + mb)

/-- Cubic of one Akima interval.  `extrap`: 0 inside, +1 above the table (linear continuation
from the last node with slope `bp1`), −1 below (linear from the first node with slope `b`).
`dxBase` is the node `dx` is measured from. -/
def akimaPoly (ge1 ge2 : Bool) (eps : K) (s : Slopes K) (extrap : Int) (val3 val4 h dx : K) : K :=
  let w2 := absK (s.m4 - s.m3)
  let w31 := absK (s.m2 - s.m1)
  let b := akimaSlope ge1 eps s.m2 w2 s.m3 w31
  let w32 := absK (s.m5 - s.m4)
  let w4 := absK (s.m3 - s.m2)
  let bp1 := akimaSlope ge2 eps s.m3 w32 s.m4 w4
  if extrap = 0 then
    let c := (3 * s.m3 - 2 * b - bp1) * h
    let d := (b + bp1 - 2 * s.m3) * h * h
    val3 + dx * (b + dx * (c + dx * d))
  else if extrap = 1 then
    val4 + dx * (bp1 + dx * (0 + dx * 0))
  else
    val3 + dx * (b + dx * (0 + dx * 0))

/-- `interp_akima.py:InterpAkima.interpolate` (options `delta_x = 0`, `eps`).  `fix = false` is the
code as it stands (`elif` chain of end conditions); `fix = true` the repaired code with independent
end-condition blocks (what `Interp1DAkima.compute_coeffs_vectorized` already does). -/
def akimaK (fix : Bool) (eps : K) (n : Nat) (g v : Nat → K) (idx : Nat) (x : K) : K :=
  let extrap : Int := if idx = n - 1 then 1 else if idx = 0 ∧ x < g 0 then -1 else 0
  let idx := if idx = n - 1 then n - 2 else idx
  let s := akimaSlopes (!fix) n g v idx
  let h := 1 / (g (idx + 1) - g idx)
  let dx := if extrap = 1 then x - g (idx + 1) else if extrap = 0 then x - g idx else x - g 0
  akimaPoly false false eps s extrap (v idx) (v (idx + 1)) h dx

/-- Is the local `m5` of `Interp1DAkima.compute_coeffs` assigned before it is read? -/
def akima1DM5Bound (n idx : Nat) : Bool :=
  decide (idx + 3 < n) || (idx != 0 && idx != 1 && (idx == n - 3 || idx == n - 2))

/-- `interp_akima.py:Interp1DAkima.interpolate` / `interpolate_vectorized`; `idx ∈ {-1, …, n-1}`.
`none` = the `UnboundLocalError` of the single-point path on a 4-point grid. -/
def akima1D (fix vec : Bool) (eps : K) (n : Nat) (g v : Nat → K) (idx : Int) (x : K) : Option K :=
  let extrap : Int := if idx = (n : Int) - 1 then 1 else if idx = -1 then -1 else 0
  let i : Nat := if idx = (n : Int) - 1 then n - 2 else if idx = -1 then 0 else idx.toNat
  let dx := if extrap = 1 then x - g (n - 1) else if extrap = -1 then x - g 0 else x - g i
  let h := 1 / (g (i + 1) - g i)
  if vec then
    some (akimaPoly true true eps (akimaSlopes false n g v i) extrap (v i) (v (i + 1)) h dx)
  else if fix then
    some (akimaPoly false true eps (akimaSlopes false n g v i) extrap (v i) (v (i + 1)) h dx)
  else if akima1DM5Bound n i then
    some (akimaPoly false true eps (akimaSlopes true n g v i) extrap (v i) (v (i + 1)) h dx)
  else none

/-! ### Natural cubic spline -/

/-- Forward sweep of `InterpCubic.compute_coeffs` for rows `i, i+1, …` (`cnt` rows): pairs
`(sec_deriv[i], temp[i])` after the elimination step. -/
def cubicFwd (g v : Nat → K) : Nat → Nat → K → K → List (K × K)
  | 0, _, _, _ => []
  | cnt + 1, i, sdPrev, tPrev =>
    let mu := (g i - g (i - 1)) / (g (i + 1) - g (i - 1))
    let vd1 := (v (i + 1) - v i) / (g (i + 1) - g i)
    let vd0 := (v i - v (i - 1)) / (g i - g (i - 1))
    let tmp := 6 * (vd1 - vd0) / (g (i + 1) - g (i - 1))
    let prtl := 1 / (mu * sdPrev + 2)
    let sd := (mu - 1) * prtl
    let t := (tmp - mu * tPrev) * prtl
    (sd, t) :: cubicFwd g v cnt (i + 1) sd t

/-- Back substitution `sec_deriv[i] = sec_deriv[i] * sec_deriv[i+1] + temp[i]`, natural end 0. -/
def cubicBack : List (K × K) → List K
  | [] => []
  | (p, t) :: rest =>
    let tail := cubicBack rest
    (p * tail.headD 0 + t) :: tail

/-- Second derivatives at all `n` nodes (zero at both ends). -/
def cubicSecond (n : Nat) (g v : Nat → K) : List K :=
  (0 : K) :: (cubicBack (cubicFwd g v (n - 2) 1 0 0) ++ [0])

/-- `interp_cubic.py:InterpCubic.interpolate`. -/
def cubicK (n : Nat) (g v : Nat → K) (idx : Nat) (x : K) : K :=
  let idx := if idx = n - 1 then idx - 1 else idx
  let sec := cubicSecond n g v
  let step := g (idx + 1) - g idx
  let rStep := 1 / step
  let a := (g (idx + 1) - x) * rStep
  let b := (x - g idx) * rStep
  let fact : K := 1 / 6
  a * v idx + b * v (idx + 1) +
    ((a * a * a - a) * sec.getD idx 0 + (b * b * b - b) * sec.getD (idx + 1) 0) * (step * step * fact)

end Kernels

/-! ## Recursion over table dimensions -/

section ND
variable {K : Type}

/-- A one-dimensional kernel: points, grid, values along the axis, bracket index, query. -/
abbrev Kernel (K : Type) := Nat → (Nat → K) → (Nat → K) → Nat → K → K

/-- `InterpAlgorithm.evaluate`/`interpolate` recursion with the bracket index of every dimension
given: dimension 0 interpolates between the values its sub-table (dimensions 1…) returns for the
nodes `i` of its stencil, `tbl (i :: js)` being the table entry. -/
def evalIdx [OfNat K 0] (kern : Kernel K) :
    List (Nat × (Nat → K)) → List Nat → (List Nat → K) → List K → K
  | [], _, tbl, _ => tbl []
  | (n, g) :: ds, idx :: idxs, tbl, x :: xs =>
    kern n g (fun i => evalIdx kern ds idxs (fun js => tbl (i :: js)) xs) idx x
  | _ :: _, _, _, _ => 0

/-- Bracket indices of a fresh table for the point `xs`. -/
def bracketAll [LT K] [DecidableLT K] [LE K] [DecidableLE K] :
    List (Nat × (Nat → K)) → List K → List Nat
  | (n, g) :: ds, x :: xs => bracket0 g n x :: bracketAll ds xs
  | _, _ => []

/-- The general n-dimensional table of a method on a fresh `InterpND`. -/
def evalND [OfNat K 0] [LT K] [DecidableLT K] [LE K] [DecidableLE K] (kern : Kernel K)
    (ds : List (Nat × (Nat → K))) (tbl : List Nat → K) (xs : List K) : K :=
  evalIdx kern ds (bracketAll ds xs) tbl xs

end ND

/-! ## The five general table methods -/

/-- The table methods implemented by OpenMDAO itself (`scipy_*` wrap third-party code). -/
inductive Method where
  | slinear | lagrange2 | lagrange3 | akima | cubic
  deriving DecidableEq, Repr

/-- Minimum number of points per dimension (`check_config`, attribute `k`). -/
def Method.minPts : Method → Nat
  | .slinear => 2
  | .lagrange2 => 3
  | .lagrange3 => 4
  | .akima => 4
  | .cubic => 4

/-- Degree (per variable) of the tensor-product polynomials the method reproduces. -/
def Method.degree : Method → Nat
  | .slinear => 1
  | .lagrange2 => 2
  | .lagrange3 => 3
  | .akima => 1
  | .cubic => 1

/-- Kernel of a method; `eps` is the Akima division guard (option `eps`, default 1e-30), `fix`
selects the repaired Akima end conditions (irrelevant for the other methods). -/
def Method.kernel {K : Type} [Add K] [Sub K] [Mul K] [Div K] [Neg K]
    [OfNat K 0] [OfNat K 1] [OfNat K 2] [OfNat K 3] [OfNat K 6]
    [LT K] [DecidableLT K] [LE K] [DecidableLE K] (fix : Bool) (eps : K) : Method → Kernel K
  | .slinear => slinearK
  | .lagrange2 => lagrange2K
  | .lagrange3 => lagrange3K
  | .akima => akimaK fix eps
  | .cubic => cubicK

/-! ## Fixed-dimension variants -/

section Fixed
variable {K : Type} [Add K] [Sub K] [Mul K] [Div K] [Neg K]
  [OfNat K 0] [OfNat K 1] [OfNat K 2] [OfNat K 3] [OfNat K 6]

/-- slinear cell index: `if idx == n-1: idx = n-2 elif idx == -1: idx = 0`. -/
def fixIdx1 (n : Nat) (i : Int) : Nat :=
  if i = (n : Int) - 1 then n - 2 else if i = -1 then 0 else i.toNat

/-- lagrange2 stencil start: `if i > n-3: i = n-3 elif i < 0: i = 0`. -/
def fixIdx2 (n : Nat) (i : Int) : Nat :=
  if (n : Int) - 3 < i then n - 3 else if i < 0 then 0 else i.toNat

/-- lagrange3 stencil centre: `if i > n-3: i = n-3 elif i < 1: i = 1`. -/
def fixIdx3 (n : Nat) (i : Int) : Nat :=
  if (n : Int) - 3 < i then n - 3 else if i < 1 then 1 else i.toNat

/-- `Interp1DSlinear`: `a[0] + a[1]*(x - grid[idx])`. -/
def slinear1D (n : Nat) (g : Nat → K) (tbl : List Nat → K) (ix : Int) (x : K) : K :=
  let i := fixIdx1 n ix
  let x0 := g i
  let x1 := g (i + 1)
  let c0 := tbl [i]
  let c1 := tbl [i + 1]
  let a0 := c0
  let a1 := (c1 - c0) / (x1 - x0)
  a0 + a1 * (x - g i)

/-- `Interp2DSlinear.compute_coeffs` + `interpolate`. -/
def slinear2D (nx ny : Nat) (gx gy : Nat → K) (tbl : List Nat → K) (ix iy : Int) (x y : K) : K :=
  let i := fixIdx1 nx ix
  let j := fixIdx1 ny iy
  let x0 := gx i
  let x1 := gx (i + 1)
  let y0 := gy j
  let y1 := gy (j + 1)
  let c00 := tbl [i, j]
  let c01 := tbl [i, j + 1]
  let c10 := tbl [i + 1, j]
  let c11 := tbl [i + 1, j + 1]
  let recVol := 1 / ((x0 - x1) * (y0 - y1))
  let a0 := (c00 * x1 * y1 - c01 * x1 * y0 - c10 * x0 * y1 + c11 * x0 * y0) * recVol
  let a1 := ((c10 - c00) * y1 + (c01 - c11) * y0) * recVol
  let a2 := ((c01 - c00) * x1 + (c10 - c11) * x0) * recVol
  let a3 := (c00 + c11 - c01 - c10) * recVol
  a0 + (a1 + a3 * y) * x + a2 * y

/-- `Interp3DSlinear.compute_coeffs` + `interpolate`. -/
def slinear3D (nx ny nz : Nat) (gx gy gz : Nat → K) (tbl : List Nat → K) (ix iy iz : Int)
    (x y z : K) : K :=
  let i := fixIdx1 nx ix
  let j := fixIdx1 ny iy
  let k := fixIdx1 nz iz
  let x0 := gx i
  let x1 := gx (i + 1)
  let y0 := gy j
  let y1 := gy (j + 1)
  let z0 := gz k
  let z1 := gz (k + 1)
  let c000 := tbl [i, j, k]
  let c100 := tbl [i + 1, j, k]
  let c010 := tbl [i, j + 1, k]
  let c001 := tbl [i, j, k + 1]
  let c110 := tbl [i + 1, j + 1, k]
  let c011 := tbl [i, j + 1, k + 1]
  let c101 := tbl [i + 1, j, k + 1]
  let c111 := tbl [i + 1, j + 1, k + 1]
  let recVol := 1 / ((x0 - x1) * (y0 - y1) * (z0 - z1))
  let a0 := (-c000 * x1 * y1 * z1 + c001 * x1 * y1 * z0 + c010 * x1 * y0 * z1 - c011 * x1 * y0 * z0 +
    c100 * x0 * y1 * z1 - c101 * x0 * y1 * z0 - c110 * x0 * y0 * z1 + c111 * x0 * y0 * z0) * recVol
  let a1 := (c000 * y1 * z1 - c001 * y1 * z0 - c010 * y0 * z1 + c011 * y0 * z0 -
    c100 * y1 * z1 + c101 * y1 * z0 + c110 * y0 * z1 - c111 * y0 * z0) * recVol
  let a2 := (c000 * x1 * z1 - c001 * x1 * z0 - c010 * x1 * z1 + c011 * x1 * z0 -
    c100 * x0 * z1 + c101 * x0 * z0 + c110 * x0 * z1 - c111 * x0 * z0) * recVol
  let a3 := (c000 * x1 * y1 - c001 * x1 * y1 - c010 * x1 * y0 + c011 * x1 * y0 -
    c100 * x0 * y1 + c101 * x0 * y1 + c110 * x0 * y0 - c111 * x0 * y0) * recVol
  let a4 := (-c000 * z1 + c001 * z0 + c010 * z1 - c011 * z0 + c100 * z1 - c101 * z0 -
    c110 * z1 + c111 * z0) * recVol
  let a5 := (-c000 * y1 + c001 * y1 + c010 * y0 - c011 * y0 + c100 * y1 - c101 * y1 -
    c110 * y0 + c111 * y0) * recVol
  let a6 := (-c000 * x1 + c001 * x1 + c010 * x1 - c011 * x1 + c100 * x0 - c101 * x0 -
    c110 * x0 + c111 * x0) * recVol
  let a7 := (c000 - c001 - c010 + c011 - c100 + c101 + c110 - c111) * recVol
  a0 + (a1 + (a4 + a7 * z) * y) * x + a2 * y + (a3 + a5 * x + a6 * y) * z

/-- `f 0 + f 1 + f 2` / `f 0 + … + f 3`: the `einsum` contractions over a 3- or 4-point stencil. -/
def sum3 (f : Nat → K) : K := f 0 + f 1 + f 2
def sum4 (f : Nat → K) : K := f 0 + f 1 + f 2 + f 3

/-- `termx[m, i]` of `Interp*DLagrange2.compute_coeffs` after the in-place row scalings: the
coefficient of `δ^m` (δ = x − x1) in the i-th Lagrange basis polynomial of the stencil. -/
def lag2Term (x1 x2 x3 : K) (m i : Nat) : K :=
  let c12 := x1 - x2
  let c13 := x1 - x3
  let c23 := x2 - x3
  let x2 := x2 - x1
  let x3 := x3 - x1
  let w : K :=
    if i = 0 then 1 / (c12 * c13) else if i = 1 then -1 / (c12 * c23) else 1 / (c13 * c23)
  if m = 0 then (if i = 0 then x2 * x3 else 0) * w
  else if m = 1 then (if i = 0 then x2 + x3 else if i = 1 then x3 else x2) * (-w)
  else w

/-- Powers `[1, δ, δ²]` / `[1, δ, δ², δ³]`. -/
def pow3 (d : K) (m : Nat) : K := if m = 0 then 1 else if m = 1 then d else d * d
def pow4 (d : K) (m : Nat) : K :=
  if m = 0 then 1 else if m = 1 then d else if m = 2 then d * d else d * d * d

/-- `Interp1DLagrange2`: `a = einsum("mi,i->m")`, `val = a[0] + x*(a[1] + x*a[2])`. -/
def lagrange2_1D (n : Nat) (g : Nat → K) (tbl : List Nat → K) (ix : Int) (x : K) : K :=
  let i := fixIdx2 n ix
  let t := lag2Term (g i) (g (i + 1)) (g (i + 2))
  let a := fun m => sum3 (fun p => t m p * tbl [i + p])
  let d := x - g i
  a 0 + d * (a 1 + d * a 2)

/-- `Interp2DLagrange2`: `a = einsum("mi,nj,ij->mn")`, `val = einsum('ij,i,j->', a, xx, yy)`. -/
def lagrange2_2D (nx ny : Nat) (gx gy : Nat → K) (tbl : List Nat → K) (ix iy : Int) (x y : K) : K :=
  let i := fixIdx2 nx ix
  let j := fixIdx2 ny iy
  let tx := lag2Term (gx i) (gx (i + 1)) (gx (i + 2))
  let ty := lag2Term (gy j) (gy (j + 1)) (gy (j + 2))
  let a := fun m n => sum3 (fun p => sum3 (fun q => tx m p * ty n q * tbl [i + p, j + q]))
  let dx := x - gx i
  let dy := y - gy j
  sum3 (fun m => sum3 (fun n => a m n * pow3 dx m * pow3 dy n))

/-- `Interp3DLagrange2`. -/
def lagrange2_3D (nx ny nz : Nat) (gx gy gz : Nat → K) (tbl : List Nat → K) (ix iy iz : Int)
    (x y z : K) : K :=
  let i := fixIdx2 nx ix
  let j := fixIdx2 ny iy
  let k := fixIdx2 nz iz
  let tx := lag2Term (gx i) (gx (i + 1)) (gx (i + 2))
  let ty := lag2Term (gy j) (gy (j + 1)) (gy (j + 2))
  let tz := lag2Term (gz k) (gz (k + 1)) (gz (k + 2))
  let a := fun m n o => sum3 (fun p => sum3 (fun q => sum3 (fun r =>
    tx m p * ty n q * tz o r * tbl [i + p, j + q, k + r])))
  let dx := x - gx i
  let dy := y - gy j
  let dz := z - gz k
  sum3 (fun m => sum3 (fun n => sum3 (fun o => a m n o * pow3 dx m * pow3 dy n * pow3 dz o)))

/-- `termx[m, i]` of `Interp*DLagrange3.compute_coeffs` after the row scalings. -/
def lag3Term (x1 x2 x3 x4 : K) (m i : Nat) : K :=
  let c12 := x1 - x2
  let c13 := x1 - x3
  let c14 := x1 - x4
  let c23 := x2 - x3
  let c24 := x2 - x4
  let c34 := x3 - x4
  let x2 := x2 - x1
  let x3 := x3 - x1
  let x4 := x4 - x1
  let w : K :=
    if i = 0 then 1 / (c12 * c13 * c14) else if i = 1 then -1 / (c12 * c23 * c24)
    else if i = 2 then 1 / (c13 * c23 * c34) else -1 / (c14 * c24 * c34)
  if m = 0 then (if i = 0 then x2 * x3 * x4 else 0) * (-w)
  else if m = 1 then
    (if i = 0 then x2 * x3 + x2 * x4 + x3 * x4 else if i = 1 then x3 * x4
     else if i = 2 then x2 * x4 else x2 * x3) * w
  else if m = 2 then
    (if i = 0 then x2 + x3 + x4 else if i = 1 then x3 + x4 else if i = 2 then x2 + x4 else x2 + x3) * (-w)
  else w

/-- `Interp1DLagrange3`: `val = a[0] + x*(a[1] + x*(a[2] + x*a[3]))`, δ measured from `grid[i-1]`. -/
def lagrange3_1D (n : Nat) (g : Nat → K) (tbl : List Nat → K) (ix : Int) (x : K) : K :=
  let i := fixIdx3 n ix
  let t := lag3Term (g (i - 1)) (g i) (g (i + 1)) (g (i + 2))
  let a := fun m => sum4 (fun p => t m p * tbl [i - 1 + p])
  let d := x - g (i - 1)
  a 0 + d * (a 1 + d * (a 2 + d * a 3))

/-- `Interp2DLagrange3`. -/
def lagrange3_2D (nx ny : Nat) (gx gy : Nat → K) (tbl : List Nat → K) (ix iy : Int) (x y : K) : K :=
  let i := fixIdx3 nx ix
  let j := fixIdx3 ny iy
  let tx := lag3Term (gx (i - 1)) (gx i) (gx (i + 1)) (gx (i + 2))
  let ty := lag3Term (gy (j - 1)) (gy j) (gy (j + 1)) (gy (j + 2))
  let a := fun m n => sum4 (fun p => sum4 (fun q => tx m p * ty n q * tbl [i - 1 + p, j - 1 + q]))
  let dx := x - gx (i - 1)
  let dy := y - gy (j - 1)
  sum4 (fun m => sum4 (fun n => a m n * pow4 dx m * pow4 dy n))

/-- `Interp3DLagrange3`. -/
def lagrange3_3D (nx ny nz : Nat) (gx gy gz : Nat → K) (tbl : List Nat → K) (ix iy iz : Int)
    (x y z : K) : K :=
  let i := fixIdx3 nx ix
  let j := fixIdx3 ny iy
  let k := fixIdx3 nz iz
  let tx := lag3Term (gx (i - 1)) (gx i) (gx (i + 1)) (gx (i + 2))
  let ty := lag3Term (gy (j - 1)) (gy j) (gy (j + 1)) (gy (j + 2))
  let tz := lag3Term (gz (k - 1)) (gz k) (gz (k + 1)) (gz (k + 2))
  let a := fun m n o => sum4 (fun p => sum4 (fun q => sum4 (fun r =>
    tx m p * ty n q * tz o r * tbl [i - 1 + p, j - 1 + q, k - 1 + r])))
  let dx := x - gx (i - 1)
  let dy := y - gy (j - 1)
  let dz := z - gz (k - 1)
  sum4 (fun m => sum4 (fun n => sum4 (fun o => a m n o * pow4 dx m * pow4 dy n * pow4 dz o)))

end Fixed

end OMV.C15
