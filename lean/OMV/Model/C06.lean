/-
C06 — executable model of `openmdao/utils/units.py`.

Part 1 (polymorphic in the carrier `K`): `PhysicalUnit` with its arithmetic
(`__mul__`/`__rmul__`, `__div__`, `__rdiv__`, `__pow__`), the `NumberDict` bookkeeping of `_names`,
`conversion_tuple_to`, `is_compatible`, and the affine map `convert_units` applies.

Part 2 (over `Rat`): the expression language that `_find_unit` hands to Python's `eval`
(`* / ** ( )`, unary minus, int and float literals, names), evaluated with Python's int/float
dispatch; `_find_unit` itself with its two phases (plain eval, then the prefix scan that *adds*
prefixed units to the table and evals again); the public functions `is_compatible`,
`unit_conversion`, `convert_units`, `simplify_unit`; and `PhysicalUnit.name()` as a token list
that is parsed back by the same parser.

The model follows the code as it is after the five repairs of /repo commits 30c39a3, ab93d8e,
63e8986, aeaafc1, 12eb624 (harness/c06.py:quirk_facts probes on every run that the live code still
behaves this way):
  * `__rdiv__` rejects offset units like the other operators              → `PUnit.rdiv`
  * inverse-integer powers keep Python ints in `_names` / `_powers` (`//`) → `ndDiv`, `PUnit.powInv`
  * the prefix scan looks at whole identifiers `(?<![\w.])[A-Za-z_]\w*`, so the `e3` of `1e3` is not
    an item and `arc_minute` is one item                                  → `scanItemsAux`
  * `name()` parenthesises a negative number (`m**2*(-2)**2`)             → `atomToks`, `pieceExpr`
  * `simplify_unit` returns its argument when only numbers are left in the name (`m/m*2`)
                                                                         → `apiSimplify`

Anything outside the modelled fragment is answered `Err.abstain` (never compared).
Core Lean only.
-/
namespace OMV.C06

/-! ## Errors -/

inductive Err where
  /-- `_find_unit` returned `None` (public API: `ValueError "The units ... are invalid"`). -/
  | invalid
  /-- `TypeError` raised by unit arithmetic or by `conversion_tuple_to` (incompatible). -/
  | typeErr
  /-- unknown name at the second `eval` (Python raises from the `__builtins__: None` lookup). -/
  | nameErr
  | zeroDiv
  | syntax
  /-- outside the modelled fragment; the harness does not compare such cases -/
  | abstain (why : String)
deriving DecidableEq, Repr

/-! ## Part 1 — `NumberDict` and `PhysicalUnit` over an arbitrary carrier -/

/-- A `NumberDict` value / an exponent: always a Python `int` (the inverse-integer branch of
`__pow__` divides with `//` after checking divisibility). -/
structure Pw where
  v : Int
deriving DecidableEq, Repr

def Pw.add (a b : Pw) : Pw := ⟨a.v + b.v⟩
def Pw.neg (a : Pw) : Pw := ⟨-a.v⟩
def Pw.one : Pw := ⟨1⟩
def Pw.zero : Pw := ⟨0⟩

/-- A key of `_names`: a unit name, or `str(other)` of a number multiplied / divided in. -/
inductive Atom (K : Type) where
  | sym (s : String)
  | litI (i : Int)
  | litF (x : K)
deriving DecidableEq, Repr

abbrev Names (K : Type) := List (Atom K × Pw)

structure PUnit (K : Type) where
  factor : K
  offset : K
  powers : List Int
  names : Names K
deriving DecidableEq, Repr

section Poly
variable {K : Type} [DecidableEq K]

/-- `sum_dict[k] = sum_dict[k] + v`; a missing key reads as int `0` and is appended
(`NumberDict.__getitem__`, insertion order of `OrderedDict`). -/
def ndBump : Names K → Atom K → Pw → Names K
  | [], k, v => [(k, Pw.add Pw.zero v)]
  | (k', w) :: rest, k, v =>
    if k' = k then (k', Pw.add w v) :: rest else (k', w) :: ndBump rest k v

/-- `NumberDict.__add__` -/
def ndAdd (a b : Names K) : Names K := b.foldl (fun acc kv => ndBump acc kv.1 kv.2) a
/-- `NumberDict.__sub__` (and `__rsub__` with the roles swapped by the caller) -/
def ndSub (a b : Names K) : Names K := b.foldl (fun acc kv => ndBump acc kv.1 (Pw.neg kv.2)) a
/-- `NumberDict.__mul__` by an int -/
def ndScale (n : Int) (a : Names K) : Names K := a.map (fun kv => (kv.1, ⟨n * kv.2.v⟩))
/-- `NumberDict((k, v // rounded) for k, v in self._names.items())` in `__pow__` -/
def ndDiv (a : Names K) (r : Int) : Names K := a.map (fun kv => (kv.1, ⟨kv.2.v / r⟩))

variable [Add K] [Sub K] [Mul K] [Div K] [OfNat K 0] [OfNat K 1]

def powNat (x : K) : Nat → K
  | 0 => 1
  | n + 1 => powNat x n * x

/-- `pow(float, int)` -/
def powInt (x : K) (n : Int) : K :=
  if 0 ≤ n then powNat x n.toNat else 1 / powNat x (-n).toNat

namespace PUnit

/-- `PhysicalUnit.__mul__` with a `PhysicalUnit` operand -/
def mul (a b : PUnit K) : Except Err (PUnit K) :=
  if a.offset ≠ 0 ∨ b.offset ≠ 0 then .error .typeErr
  else .ok { names := ndAdd a.names b.names, factor := a.factor * b.factor,
             powers := List.zipWith (· + ·) a.powers b.powers, offset := 0 }

/-- `PhysicalUnit.__mul__` / `__rmul__` with a number `x` whose `str` is `key` -/
def mulNum (a : PUnit K) (x : K) (key : Atom K) : Except Err (PUnit K) :=
  if a.offset ≠ 0 then .error .typeErr
  else .ok { names := ndAdd a.names [(key, Pw.one)], factor := a.factor * x,
             powers := a.powers, offset := a.offset * x }

/-- `PhysicalUnit.__div__` with a `PhysicalUnit` operand -/
def div (a b : PUnit K) : Except Err (PUnit K) :=
  if a.offset ≠ 0 ∨ b.offset ≠ 0 then .error .typeErr
  else if b.factor = 0 then .error .zeroDiv
  else .ok { names := ndSub a.names b.names, factor := a.factor / b.factor,
             powers := List.zipWith (· - ·) a.powers b.powers, offset := 0 }

/-- `PhysicalUnit.__div__` with a number -/
def divNum (a : PUnit K) (x : K) (key : Atom K) : Except Err (PUnit K) :=
  if a.offset ≠ 0 then .error .typeErr
  else if x = 0 then .error .zeroDiv
  else .ok { names := ndAdd a.names [(key, Pw.neg Pw.one)], factor := a.factor / x,
             powers := a.powers, offset := 0 }

/-- `PhysicalUnit.__rdiv__`: number / unit -/
def rdiv (a : PUnit K) (x : K) (key : Atom K) : Except Err (PUnit K) :=
  if a.offset ≠ 0 then .error .typeErr
  else if a.factor = 0 then .error .zeroDiv
  else .ok { names := ndSub [(key, Pw.one)] a.names, factor := x / a.factor,
             powers := a.powers.map (fun p => -p), offset := 0 }

/-- `PhysicalUnit.__pow__` with an `int` -/
def powI (a : PUnit K) (n : Int) : Except Err (PUnit K) :=
  if a.offset ≠ 0 then .error .typeErr
  else if n < 0 ∧ a.factor = 0 then .error .zeroDiv
  else .ok { names := ndScale n a.names, factor := powInt a.factor n,
             powers := a.powers.map (fun p => p * n), offset := 0 }

/-- `PhysicalUnit.__pow__` with a `float` whose inverse rounds to the integer `r`
(`rounded`), the closeness test having passed.  `root x r` is `x ** (1/r)`; it is a parameter
(contract `root x r = some y → y ^ r = x`), `none` meaning "not available exactly". -/
def powInv (root : K → Int → Option K) (baseNames : List String) (a : PUnit K) (r : Int) :
    Except Err (PUnit K) :=
  if a.offset ≠ 0 then .error .typeErr
  else if r = 0 then .error .zeroDiv           -- `x % 0`
  else if a.powers.all (fun p => p % r = 0) then
    match root a.factor r with
    | none => .error (.abstain "inexact root")
    | some f =>
      let p := a.powers.map (fun x => x / r)
      let names : Names K :=
        if a.names.all (fun kv => kv.2.v % r = 0) then ndDiv a.names r
        else (if f ≠ 1 then [(Atom.litF f, Pw.one)] else []) ++
             (List.zipWith (fun x n => (Atom.sym n, (⟨x⟩ : Pw))) p baseNames)
      .ok { names := names, factor := f, powers := p, offset := 0 }
  else .error .typeErr

/-- `PhysicalUnit.is_compatible` -/
def isCompatible (a b : PUnit K) : Bool := decide (a.powers = b.powers)

/-- `PhysicalUnit.conversion_tuple_to`: `(S, D)` with `x ↦ (x + D) * S`. -/
def conversionTuple (a b : PUnit K) : Except Err (K × K) :=
  if a.powers ≠ b.powers then .error .typeErr
  else if b.factor = 0 then .error .zeroDiv
  else if a.factor = 0 then .error .zeroDiv
  else .ok (a.factor / b.factor, a.offset - b.offset * b.factor / a.factor)

/-- the last two lines of `convert_units` -/
def convert (x : K) (a b : PUnit K) : Except Err K :=
  match conversionTuple a b with
  | .error e => .error e
  | .ok (s, d) => .ok ((x + d) * s)

/-- The meaning of a unit (comment in `conversion_tuple_to`): `(x + d) * s` takes a value in this
unit to base units. -/
def toBase (u : PUnit K) (x : K) : K := (x + u.offset) * u.factor

/-- what `_find_unit` stores for a prefixed name: `add_unit(item, prefix * unit)` → `set_name`. -/
def prefixed (u : PUnit K) (pfx : K) (item : String) : Except Err (PUnit K) :=
  match u.mulNum pfx (Atom.litF pfx) with
  | .error e => .error e
  | .ok v => .ok { v with names := [(Atom.sym item, Pw.one)] }

end PUnit
end Poly

/-! ## Part 2 — expressions, `_find_unit`, the public functions (over `Rat`) -/

inductive Tok where
  | int (n : Nat) | flt (q : Rat) | ident (s : String)
  | star | dstar | slash | lpar | rpar | minus
deriving DecidableEq, Repr

inductive Expr where
  | int (n : Nat)
  | flt (q : Rat)
  | ident (s : String)
  | neg (e : Expr)
  | mul (a b : Expr)
  | div (a b : Expr)
  | pow (a b : Expr)
deriving DecidableEq, Repr

/-! ### Lexer -/

def isIdStart (c : Char) : Bool := c.isAlpha || c == '_'
def isIdChar (c : Char) : Bool := c.isAlphanum || c == '_'

def digitsVal (ds : List Char) : Nat := ds.foldl (fun a c => 10 * a + (c.toNat - '0'.toNat)) 0

/-- `10 ^ e` as a rational, `e` an integer -/
def pow10 (e : Int) : Rat := if 0 ≤ e then ((10 ^ e.toNat : Nat) : Rat) else 1 / ((10 ^ (-e).toNat : Nat) : Rat)

/-- A Python decimal literal at the head of `cs`: digits [`.` digits] [`e` [sign] digits].
The value is the exact decimal value (Python rounds it to a double). -/
def lexNumber (cs : List Char) : Option (Tok × List Char) :=
  let ip := cs.takeWhile Char.isDigit
  let r1 := cs.dropWhile Char.isDigit
  let (hasDot, fp, r2) :=
    match r1 with
    | '.' :: r => (true, r.takeWhile Char.isDigit, r.dropWhile Char.isDigit)
    | _ => (false, [], r1)
  if ip.isEmpty && fp.isEmpty then none else
  let expo : Option (Int × List Char) :=
    match r2 with
    | c :: r =>
      if c == 'e' || c == 'E' then
        let (sgn, r') : Int × List Char :=
          match r with
          | '+' :: t => (1, t)
          | '-' :: t => (-1, t)
          | _ => (1, r)
        let ed := r'.takeWhile Char.isDigit
        if ed.isEmpty then none else some (sgn * (digitsVal ed : Int), r'.dropWhile Char.isDigit)
      else none
    | [] => none
  match hasDot, expo with
  | false, none =>
    -- "leading zeros in decimal integer literals are not permitted" (`00` is fine)
    if ip.length > 1 && ip.head? == some '0' && digitsVal ip != 0 then none
    else some (Tok.int (digitsVal ip), r2)
  | _, none => some (Tok.flt ((digitsVal (ip ++ fp) : Nat) * pow10 (-(fp.length : Int))), r2)
  | _, some (e, r3) => some (Tok.flt ((digitsVal (ip ++ fp) : Nat) * pow10 (e - (fp.length : Int))), r3)

def doubleMax : Rat := ((2 ^ 1024 : Nat) : Rat)
def doubleMinNormal : Rat := 1 / ((2 ^ 1022 : Nat) : Rat)

def pyKeywords : List String :=
  ["None", "True", "False", "and", "or", "not", "in", "is", "if", "else", "for", "lambda", "while",
   "def", "del", "class", "from", "import", "pass", "try", "with", "yield", "await", "async",
   "global", "nonlocal", "assert", "break", "continue", "elif", "except", "finally", "raise",
   "return", "as"]

def lexAux : Nat → List Char → Except Err (List Tok)
  | 0, _ => .error (.abstain "lexer fuel")
  | _ + 1, [] => .ok []
  | fuel + 1, c :: cs =>
    if c == ' ' || c == '\t' then lexAux fuel cs
    else if c.isDigit || (c == '.' && (cs.head?.map Char.isDigit).getD false) then
      match lexNumber (c :: cs) with
      | none => .error .syntax
      | some (Tok.flt q, rest) =>
        -- Python rounds the literal to a double: `inf` above the range, `0.0` / subnormal below
        if q ≠ 0 ∧ (doubleMax < q ∨ q < doubleMinNormal) then
          .error (.abstain "float literal outside the normal double range")
        else if rest.head? == some '_' then .error (.abstain "underscore in a numeric literal")
        else (lexAux fuel rest).map (Tok.flt q :: ·)
      | some (t, rest) =>
        if rest.head? == some '_' then .error (.abstain "underscore in a numeric literal")
        else (lexAux fuel rest).map (t :: ·)
    else if isIdStart c then
      let w := String.ofList ((c :: cs).takeWhile isIdChar)
      if pyKeywords.contains w then .error (.abstain "python keyword")
      else (lexAux fuel ((c :: cs).dropWhile isIdChar)).map (Tok.ident w :: ·)
    else if c == '*' then
      match cs with
      | '*' :: r => (lexAux fuel r).map (Tok.dstar :: ·)
      | _ => (lexAux fuel cs).map (Tok.star :: ·)
    else if c == '/' then
      match cs with
      | '/' :: _ => .error (.abstain "floor division")
      | _ => (lexAux fuel cs).map (Tok.slash :: ·)
    else if c == '(' then (lexAux fuel cs).map (Tok.lpar :: ·)
    else if c == ')' then (lexAux fuel cs).map (Tok.rpar :: ·)
    else if c == '-' then (lexAux fuel cs).map (Tok.minus :: ·)
    else .error (.abstain "character outside the modelled grammar")

def lex (cs : List Char) : Except Err (List Tok) := lexAux (cs.length + 1) cs

/-! ### Parser (Python precedence: `**` binds tighter than unary minus on its left, and its right
operand is a unary expression; `*` `/` left associative) -/

mutual
  def pMExpr : Nat → List Tok → Option (Expr × List Tok)
    | 0, _ => none
    | f + 1, ts =>
      match pUExpr f ts with
      | none => none
      | some (a, r) => pMTail f a r
  def pMTail : Nat → Expr → List Tok → Option (Expr × List Tok)
    | 0, _, _ => none
    | f + 1, a, Tok.star :: r =>
      match pUExpr f r with
      | none => none
      | some (b, r') => pMTail f (Expr.mul a b) r'
    | f + 1, a, Tok.slash :: r =>
      match pUExpr f r with
      | none => none
      | some (b, r') => pMTail f (Expr.div a b) r'
    | _ + 1, a, r => some (a, r)
  def pUExpr : Nat → List Tok → Option (Expr × List Tok)
    | 0, _ => none
    | f + 1, Tok.minus :: r =>
      match pUExpr f r with
      | none => none
      | some (a, r') => some (Expr.neg a, r')
    | f + 1, ts => pPower f ts
  def pPower : Nat → List Tok → Option (Expr × List Tok)
    | 0, _ => none
    | f + 1, ts =>
      match pPrimary f ts with
      | none => none
      | some (a, Tok.dstar :: r) =>
        match pUExpr f r with
        | none => none
        | some (b, r') => some (Expr.pow a b, r')
      | some (a, r) => some (a, r)
  def pPrimary : Nat → List Tok → Option (Expr × List Tok)
    | 0, _ => none
    | _ + 1, Tok.int n :: r => some (Expr.int n, r)
    | _ + 1, Tok.flt q :: r => some (Expr.flt q, r)
    | _ + 1, Tok.ident s :: r => some (Expr.ident s, r)
    | f + 1, Tok.lpar :: r =>
      match pMExpr f r with
      | some (e, Tok.rpar :: r') => some (e, r')
      | _ => none
    | _ + 1, _ => none
end

/-- whole token list → expression (`none` = `SyntaxError`) -/
def parseToks (ts : List Tok) : Option Expr :=
  match pMExpr (8 * (ts.length + 2)) ts with
  | some (e, []) => some e
  | _ => none

/-! ### Evaluation with Python's number dispatch -/

inductive NumV where
  | int (i : Int)
  | flt (q : Rat)
deriving DecidableEq, Repr

def NumV.toRat : NumV → Rat
  | .int i => (i : Rat)
  | .flt q => q

/-- `str(other)` as a `_names` key -/
def NumV.key : NumV → Atom Rat
  | .int i => Atom.litI i
  | .flt q => Atom.litF q

inductive Val where
  | num (x : NumV)
  | unit (u : PUnit Rat)
deriving Repr

abbrev Table := List (String × PUnit Rat)

def tlookup (t : Table) (s : String) : Option (PUnit Rat) :=
  match t with
  | [] => none
  | (k, u) :: rest => if k = s then some u else tlookup rest s

structure Lib where
  table : Table
  prefixes : List (String × Rat)
  baseNames : List String
  /-- `_UNIT_LIB.prefixed`: names the prefix scan has added; a prefix is never applied to them -/
  prefixed : List String := []
  /-- variant of the tree under test: `false` = the pinned snapshot, where a prefix was also applied
  to units added by an earlier prefix scan (`dam` = deci-attometer once `am` had been used) -/
  guardPrefixed : Bool := true
deriving Repr

def plookup (p : List (String × Rat)) (s : String) : Option Rat :=
  match p with
  | [] => none
  | (k, v) :: rest => if k = s then some v else plookup rest s

def evalMul : Val → Val → Except Err Val
  | .unit a, .unit b => (a.mul b).map Val.unit
  | .unit a, .num x => (a.mulNum x.toRat x.key).map Val.unit
  | .num x, .unit a => (a.mulNum x.toRat x.key).map Val.unit      -- `__rmul__ = __mul__`
  | .num (.int i), .num (.int j) => .ok (.num (.int (i * j)))
  | .num x, .num y => .ok (.num (.flt (x.toRat * y.toRat)))

def evalDiv : Val → Val → Except Err Val
  | .unit a, .unit b => (a.div b).map Val.unit
  | .unit a, .num x => (a.divNum x.toRat x.key).map Val.unit
  | .num x, .unit a => (a.rdiv x.toRat x.key).map Val.unit
  | .num x, .num y => if y.toRat = 0 then .error .zeroDiv else .ok (.num (.flt (x.toRat / y.toRat)))

/-- number ** number (`int ** nonneg int` stays an int; everything else is a float) -/
def numPow (x y : NumV) : Except Err NumV :=
  let go (n : Int) (forceF : Bool) : Except Err NumV :=
    if 0 ≤ n then
      match x, forceF with
      | .int i, false => .ok (.int (i ^ n.toNat))
      | _, _ => .ok (.flt (powInt x.toRat n))
    else if x.toRat = 0 then .error .zeroDiv
    else .ok (.flt (powInt x.toRat n))
  match y with
  | .int n => go n false
  | .flt e => if e.den = 1 then go e.num true else .error (.abstain "number ** non-integral float")

/-- `1e-10` of `PhysicalUnit.__pow__` -/
def powTol : Rat := 1 / 10000000000

def ratAbs (q : Rat) : Rat := if q < 0 then -q else q

def evalPow (root : Rat → Int → Option Rat) (baseNames : List String) : Val → Val → Except Err Val
  | .unit a, .num (.int n) => (a.powI n).map Val.unit
  | .unit a, .num (.flt q) =>
    if a.offset ≠ 0 then .error .typeErr
    else if q = 0 then .error .zeroDiv                        -- `1. / power`
    else
      let inv : Rat := 1 / q
      let r : Int := Rat.floor (inv + 1 / 2)
      if ratAbs (inv - (r : Rat)) < powTol then (a.powInv root baseNames r).map Val.unit
      else .error .typeErr
  | .unit _, .unit _ => .error .typeErr
  | .num _, .unit _ => .error .typeErr
  | .num x, .num y => (numPow x y).map Val.num

def evalNeg : Val → Except Err Val
  | .num (.int i) => .ok (.num (.int (-i)))
  | .num (.flt q) => .ok (.num (.flt (-q)))
  | .unit _ => .error .typeErr

/-- Python's `eval(expr, {'__builtins__': None}, unit_table)`, left to right. -/
def evalE (root : Rat → Int → Option Rat) (baseNames : List String) (t : Table) :
    Expr → Except Err Val
  | .int n => .ok (.num (.int n))
  | .flt q => .ok (.num (.flt q))
  | .ident s =>
    match tlookup t s with
    | some u => .ok (.unit u)
    | none => .error .nameErr
  | .neg e =>
    match evalE root baseNames t e with
    | .error x => .error x
    | .ok v => evalNeg v
  | .mul a b =>
    match evalE root baseNames t a with
    | .error x => .error x
    | .ok va =>
      match evalE root baseNames t b with
      | .error x => .error x
      | .ok vb => evalMul va vb
  | .div a b =>
    match evalE root baseNames t a with
    | .error x => .error x
    | .ok va =>
      match evalE root baseNames t b with
      | .error x => .error x
      | .ok vb => evalDiv va vb
  | .pow a b =>
    match evalE root baseNames t a with
    | .error x => .error x
    | .ok va =>
      match evalE root baseNames t b with
      | .error x => .error x
      | .ok vb => evalPow root baseNames va vb

/-- no roots available: with this oracle every successful evaluation used integer powers only -/
def noRoot : Rat → Int → Option Rat := fun _ _ => none

/-! ### `_find_unit` -/

def isWordChar (c : Char) : Bool := c.isAlphanum || c == '_'

/-- maximal runs of word / non-word characters -/
def groupRuns : List Char → List (Bool × List Char)
  | [] => []
  | c :: cs =>
    match groupRuns cs with
    | (b, r) :: rest =>
      if b == isWordChar c then (b, c :: r) :: rest else (isWordChar c, [c]) :: (b, r) :: rest
    | [] => [(isWordChar c, [c])]

/-- `re.sub(r'\bas\b', 'as_', s)` -/
def subAs (cs : List Char) : List Char :=
  ((groupRuns cs).map (fun br => if br.1 && br.2 == ['a', 's'] then ['a', 's', '_'] else br.2)).flatten

/-- `re.findall(r'(?<![\w.])[A-Za-z_]\w*', name)` (ASCII input; anything else made the first eval
abstain): an item starts at a letter / underscore that is not preceded by a word character or a
dot (so not inside a number such as `1e3`, `1.e3`) and runs over the whole identifier.
`prev` is the character before the current position. -/
def scanItemsAux : Nat → Option Char → List Char → List (List Char)
  | 0, _, _ => []
  | _ + 1, _, [] => []
  | fuel + 1, prev, c :: cs =>
    let free : Bool :=
      match prev with
      | none => true
      | some p => !(isWordChar p || p == '.')
    if isIdStart c && free then
      -- the character after the run is not a word character, so it cannot start an item whatever
      -- `prev` is; `c` stands for the last character of the run
      (c :: cs.takeWhile isWordChar) :: scanItemsAux fuel (some c) (cs.dropWhile isWordChar)
    else scanItemsAux fuel (some c) cs

def scanItems (cs : List Char) : List (List Char) := scanItemsAux (cs.length + 1) none cs

def rstripUnderscore (cs : List Char) : List Char := (cs.reverse.dropWhile (· == '_')).reverse

/-- One item of the prefix scan.  `some lib'` = keep going, `none` = `return None`. -/
def scanOne (lib : Lib) (item0 : List Char) : Except Err (Option Lib) :=
  let item := subAs item0
  let name := String.ofList item
  match tlookup lib.table name with
  | some _ => .ok (some lib)                                   -- `eval(item)` succeeded
  | none =>
    let base := String.ofList (rstripUnderscore (item.drop 1))
    let p1 := String.ofList (item.take 1)
    let p2 := String.ofList (item.take 2)
    let rest2 := String.ofList (item.drop 2)
    let ok1 := !(lib.guardPrefixed && lib.prefixed.contains base)
    let ok2 := !(lib.guardPrefixed && lib.prefixed.contains rest2)
    match plookup lib.prefixes p1, (if ok1 then tlookup lib.table base else none) with
    | some pf, some u =>
      match u.prefixed pf name with
      | .error e => .error e
      | .ok v => .ok (some { lib with table := lib.table ++ [(name, v)], prefixed := name :: lib.prefixed })
    | _, _ =>
      match plookup lib.prefixes p2, (if ok2 then tlookup lib.table rest2 else none) with
      | some pf, some u =>
        match u.prefixed pf name with
        | .error e => .error e
        | .ok v => .ok (some { lib with table := lib.table ++ [(name, v)], prefixed := name :: lib.prefixed })
      | _, _ => .ok none

def scanAll (lib : Lib) : List (List Char) → Except Err (Option Lib) × Lib
  | [] => (.ok (some lib), lib)
  | it :: rest =>
    match scanOne lib it with
    | .error e => (.error e, lib)
    | .ok none => (.ok none, lib)
    | .ok (some lib') => scanAll lib' rest

/-- parse and evaluate a whole string against the table -/
def evalStr (root : Rat → Int → Option Rat) (lib : Lib) (cs : List Char) : Except Err Val :=
  match lex cs with
  | .error e => .error e
  | .ok ts =>
    match parseToks ts with
    | none => .error .syntax
    | some e => evalE root lib.baseNames lib.table e

def asUnit : Val → Except Err (PUnit Rat)
  | .unit u => .ok u
  | .num _ => .error .invalid                 -- "not isinstance(unit, PhysicalUnit)"

/-- `_find_unit(unit)`; the second component is the library afterwards (prefixed units the scan
added stay in `unit_table`, also when the call fails).  `_UNIT_CACHE` is not modelled: the table
only grows and entries never change, so a cached answer is the answer a fresh eval would give. -/
def findUnit (root : Rat → Int → Option Rat) (lib : Lib) (s : String) :
    Except Err (PUnit Rat) × Lib :=
  let cs := subAs s.toList
  if cs.contains ',' then (.error (.abstain "comma"), lib) else
  match evalStr root lib cs with
  | .ok v => (asUnit v, lib)
  | .error (.abstain w) => (.error (.abstain w), lib)
  | .error _ =>
    match scanAll lib (scanItems cs) with
    | (.error e, lib') => (.error e, lib')
    | (.ok none, lib') => (.error .invalid, lib')
    | (.ok (some _), lib') =>
      match evalStr root lib' cs with
      | .ok v => (asUnit v, lib')
      | .error e => (.error e, lib')

/-! ### Public functions (`None`/empty unit strings are `none`) -/

def isEmptyUnits (s : Option String) : Bool :=
  match s with
  | none => true
  | some t => t.isEmpty

/-- `is_compatible(old_units, new_units)` -/
def apiIsCompatible (root : Rat → Int → Option Rat) (lib : Lib) (a b : Option String) :
    Except Err Bool × Lib :=
  if isEmptyUnits a && isEmptyUnits b then (.ok true, lib) else
  match a, b with
  | some sa, some sb =>
    match findUnit root lib sa with
    | (.error e, l1) => (.error e, l1)
    | (.ok ua, l1) =>
      match findUnit root l1 sb with
      | (.error e, l2) => (.error e, l2)
      | (.ok ub, l2) => (.ok (ua.isCompatible ub), l2)
  | _, _ => (.error .invalid, lib)            -- `_find_unit(None, error=True)`

/-- `unit_conversion(old_units, new_units)` -/
def apiUnitConversion (root : Rat → Int → Option Rat) (lib : Lib) (sa sb : String) :
    Except Err (Rat × Rat) × Lib :=
  match findUnit root lib sa with
  | (.error e, l1) => (.error e, l1)
  | (.ok ua, l1) =>
    match findUnit root l1 sb with
    | (.error e, l2) => (.error e, l2)
    | (.ok ub, l2) => (ua.conversionTuple ub, l2)

/-- `convert_units(val, old_units, new_units)` -/
def apiConvert (root : Rat → Int → Option Rat) (lib : Lib) (x : Rat) (a b : Option String) :
    Except Err Rat × Lib :=
  match a, b with
  | some sa, some sb =>
    if sa.isEmpty || sb.isEmpty then (.ok x, lib) else
    match findUnit root lib sa with
    | (.error e, l1) => (.error e, l1)
    | (.ok ua, l1) =>
      match findUnit root l1 sb with
      | (.error e, l2) => (.error e, l2)
      | (.ok ub, l2) => (ua.convert x ub, l2)
  | _, _ => (.ok x, lib)                      -- "one side has no units"

/-! ### `PhysicalUnit.name()` and `simplify_unit` -/

/-- a `_names` key that is the `str` of a number, as `name()` prints it: a key that starts with
`-` is wrapped in parentheses -/
def numToks (x : NumV) : List Tok :=
  match x with
  | .int i => if i < 0 then [Tok.lpar, Tok.minus, Tok.int i.natAbs, Tok.rpar] else [Tok.int i.toNat]
  | .flt q => if q < 0 then [Tok.lpar, Tok.minus, Tok.flt (-q), Tok.rpar] else [Tok.flt q]

def atomToks : Atom Rat → List Tok
  | .sym s => [Tok.ident s]
  | .litI i => numToks (.int i)
  | .litF q => numToks (.flt q)

/-- `'**' + str(power)` -/
def pwToks (v : Int) : List Tok := [Tok.dstar, Tok.int v.toNat]

/-- the `num` string of `name()` as a list of `*`-prefixed pieces -/
def nameNum : Names Rat → List Tok
  | [] => []
  | (k, p) :: rest =>
    (if p.v > 0 then Tok.star :: atomToks k ++ (if p.v > 1 then pwToks p.v else []) else [])
      ++ nameNum rest

/-- the `denom` string of `name()` -/
def nameDen : Names Rat → List Tok
  | [] => []
  | (k, p) :: rest =>
    (if p.v < 0 then Tok.slash :: atomToks k ++ (if p.v < -1 then pwToks (-p.v) else []) else [])
      ++ nameDen rest

/-- `PhysicalUnit.name()` as tokens: `num[1:] + denom`, `'1'` when `num` is empty -/
def nameToks (n : Names Rat) : List Tok :=
  (match nameNum n with
   | [] => [Tok.int 1]
   | _ :: t => t) ++ nameDen n

/-- the effect of `\bas_\b → as` on the rendered name -/
def restoreAs (ts : List Tok) : List Tok :=
  ts.map (fun t => match t with
    | Tok.ident s => if s = "as_" then Tok.ident "as" else Tok.ident s
    | t => t)

/-- what `simplify_unit` returns -/
inductive Simp where
  /-- Python's `None` (the name was `'1'`) -/
  | unity
  /-- the argument itself (only numbers are left in the name, e.g. `'m/m*2'`) -/
  | same
  /-- the rendered name -/
  | toks (ts : List Tok)
deriving DecidableEq, Repr

/-- `any(p and k in _UNIT_LIB.unit_table for k, p in found_unit._names.items())` -/
def hasUnitName (t : Table) (n : Names Rat) : Bool :=
  n.any (fun kv => kv.2.v != 0 &&
    (match kv.1 with
     | .sym s => (tlookup t s).isSome
     | _ => false))

/-- `simplify_unit(old_unit_str)` -/
def apiSimplify (root : Rat → Int → Option Rat) (lib : Lib) (s : String) :
    Except Err Simp × Lib :=
  match findUnit root lib s with
  | (.error e, l) => (.error e, l)
  | (.ok u, l) =>
    let ts := nameToks u.names
    if ts ≠ [Tok.int 1] && !(hasUnitName l.table u.names) then (.ok .same, l)
    else if ts = [Tok.int 1] then (.ok .unity, l)
    else (.ok (.toks (restoreAs ts)), l)

/-- The expression `name()` denotes, built directly (what `parseToks (nameToks n)` returns; that
link is checked by the driver on every case and by examples, the theorems are about this AST). -/
def atomExpr : Atom Rat → Expr
  | .sym s => Expr.ident s
  | .litI i => if i < 0 then Expr.neg (Expr.int i.natAbs) else Expr.int i.toNat   -- `(-2)` / `2`
  | .litF q => if q < 0 then Expr.neg (Expr.flt (-q)) else Expr.flt q

/-- one `atom` or `atom**p` piece (a negative number is parenthesised, so `**` applies to it) -/
def pieceExpr (k : Atom Rat) (v : Int) : Expr :=
  if v > 1 then Expr.pow (atomExpr k) (Expr.int v.toNat) else atomExpr k

def numPieces (n : Names Rat) : List Expr :=
  (n.filter (fun kv => kv.2.v > 0)).map (fun kv => pieceExpr kv.1 kv.2.v)

def denPieces (n : Names Rat) : List Expr :=
  (n.filter (fun kv => kv.2.v < 0)).map (fun kv => pieceExpr kv.1 (-kv.2.v))

/-- `num[1:]`, or `'1'` when there is no numerator -/
def nameHead (n : Names Rat) : Expr :=
  match numPieces n with
  | [] => Expr.int 1
  | e :: es => es.foldl Expr.mul e

def nameExpr (n : Names Rat) : Expr := (denPieces n).foldl Expr.div (nameHead n)

end OMV.C06
