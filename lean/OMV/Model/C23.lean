/-
C23 — DOE generators (`openmdao/drivers/doe_generators.py`, the twin classes in
`openmdao/drivers/sampling/pyDOE_generators.py` / `uniform_generator.py`) and the application of a
generated case by `DOEDriver._run_case` → `Driver._set_design_var`.

What is modelled (literal to the code, same order of operations):

* `numpy.linspace(lower, upper, num=levels)` as used for the level table (`linspaceAt`, `linspace`);
* `_get_dv_levels`, `_get_all_levels`, `levels_max` for int / dict level specifications;
* the `values` table (`size × levels_max`, NaN padded) and the second loop of
  `_pyDOE_Generator.__call__` that walks the design row with a running `row` offset (`walk`,
  `pydoeCase`);
* pyDOE's `fullfact` enumeration order (first factor fastest) as a recursive mixed-radix
  enumeration (`fullfact`) — the third-party design is compared with this per case by the harness;
* the index shifts of Plackett–Burman (`doe[doe < 0] = 0`) and Box–Behnken (`doe + 1`);
* `LatinHypercubeGenerator.__call__`: `lower + sample * (upper - lower)` per design variable with a
  running `col` offset; `UniformGenerator.__call__`: `numpy.random.uniform(lower, upper)`, i.e.
  `lower + (upper - lower) * u`;
* the strata contract of a Latin hypercube (`inStratum`, `strataOnce`, Bool checker `strataOk`);
* `Driver._set_design_var`: `desvar[idxs] = value` then `desvar[idxs] = convert_units(desvar[idxs])`.

`none : Option K` stands for NaN in the level table.  Core Lean only.
-/
namespace OMV.C23

/-- A bound as stored in the design-variable metadata: python float or ndarray. -/
inductive Bound (K : Type) where
  | scalar : K → Bound K
  | array : List K → Bound K

/-- `lower[k]` if `lower` is an ndarray else `lower` (`_pyDOE_Generator.__call__`); also the effect
of `lower * np.ones(size)` in the LHS / Uniform generators. -/
def Bound.get {K : Type} [OfNat K 0] (b : Bound K) (k : Nat) : K :=
  match b with
  | .scalar x => x
  | .array l => l.getD k 0

/-- Shape precondition (OpenMDAO validates bound shapes in `add_design_var`/setup). -/
def Bound.okFor {K : Type} (b : Bound K) (size : Nat) : Bool :=
  match b with
  | .scalar _ => true
  | .array l => l.length == size

/-- One design variable as the generators see it: `size`, `lower`, `upper` and its resolved number
of levels (`_get_dv_levels(name)`; unused by LHS / Uniform). -/
structure DV (K : Type) where
  size : Nat
  lower : Bound K
  upper : Bound K
  levels : Nat

def DV.ok {K : Type} (dv : DV K) : Bool := dv.lower.okFor dv.size && dv.upper.okFor dv.size

/-! ### level specification: `_get_dv_levels`, `_get_all_levels`, `levels_max` -/

/-- `levels` argument of the pyDOE generators: an int or a dict name → int (may hold "default"). -/
inductive LevelSpec where
  | int : Nat → LevelSpec
  | dict : List (String × Nat) → LevelSpec

def dictGet (d : List (String × Nat)) (k : String) : Option Nat :=
  (d.find? (fun e => e.1 == k)).map (fun e => e.2)

/-- `_LEVELS = 2`, the default number of levels. -/
def defaultLevels : Nat := 2

/-- `_get_dv_levels(name)`: `levels.get(name, levels.get("default", _LEVELS))`. -/
def LevelSpec.dvLevels : LevelSpec → String → Nat
  | .int n, _ => n
  | .dict d, name => (dictGet d name).getD ((dictGet d "default").getD defaultLevels)

def maxVal : List (String × Nat) → Nat
  | [] => 0
  | e :: es => max e.2 (maxVal es)

/-- `levels_max = levels if int else max(max(levels.values()), _LEVELS)`. -/
def LevelSpec.levelsMax : LevelSpec → Nat
  | .int n => n
  | .dict d => max (maxVal d) defaultLevels

/-- `_get_all_levels()`: the list handed to `fullfact` / `gsd`; `sized` is the ordered
`(name, size)` dictionary `self._sizes`. -/
def LevelSpec.allLevels (spec : LevelSpec) (sized : List (String × Nat)) : List Nat :=
  match spec with
  | .int n => List.replicate ((sized.map (fun e => e.2)).sum) n
  | .dict _ => sized.flatMap (fun e => List.replicate e.2 (spec.dvLevels e.1))

/-! ### numpy.linspace and the level table -/

section arith
variable {K : Type} [Add K] [Sub K] [Mul K] [Div K] [NatCast K]

/-- Element `k` of `numpy.linspace(lo, hi, num=n)` (endpoint=True): `lo + k*step` with
`step = (hi - lo)/(n - 1)`, the last element overwritten by `hi` when `n > 1`; `n = 1` gives `[lo]`. -/
def linspaceAt (lo hi : K) (n k : Nat) : K :=
  if k + 1 = n ∧ 1 < n then hi else lo + (k : K) * ((hi - lo) / ((n - 1 : Nat) : K))

def linspace (lo hi : K) (n : Nat) : List K := (List.range n).map (linspaceAt lo hi n)

/-- One row of `values`: `values[row, 0:levels] = linspace(lower, upper, levels)`, the remaining
columns up to `levels_max` stay NaN (`none`). -/
def levelRow (lo hi : K) (levels levelsMax : Nat) : List (Option K) :=
  (List.range levelsMax).map (fun j => if j < levels then some (linspaceAt lo hi levels j) else none)

/-- `lower + sample * (upper - lower)` (`LatinHypercubeGenerator.__call__`). -/
def lhsMap (lo hi s : K) : K := lo + s * (hi - lo)

/-- `numpy.random.uniform(lo, hi)` for the underlying unit draw `u`: `lo + (hi - lo) * u`. -/
def uniformMap (lo hi u : K) : K := lo + (hi - lo) * u

/-- `convert_units`: `(val + offset) * factor`. -/
def unitConv (factor offset v : K) : K := (v + offset) * factor

end arith

/-- One factor = one row of the `values` table: bounds of one element and its level count. -/
structure Factor (K : Type) where
  lo : K
  hi : K
  levels : Nat

section table
variable {K : Type} [Add K] [Sub K] [Mul K] [Div K] [NatCast K] [OfNat K 0]

/-- The first loop of `_pyDOE_Generator.__call__`: one table row per (design variable, element),
in dictionary order (`row += 1`). -/
def factors (dvs : List (DV K)) : List (Factor K) :=
  dvs.flatMap (fun dv => (List.range dv.size).map
    (fun k => { lo := dv.lower.get k, hi := dv.upper.get k, levels := dv.levels }))

def table (dvs : List (DV K)) (levelsMax : Nat) : List (List (Option K)) :=
  (factors dvs).map (fun f => levelRow f.lo f.hi f.levels levelsMax)

end table

/-- `values[row][idx]`; `none` = NaN (or outside the table, which the harness never sends). -/
def cell {K : Type} (tbl : List (List (Option K))) (row idx : Nat) : Option K :=
  match tbl[row]? with
  | none => none
  | some r => match r[idx]? with
    | none => none
    | some c => c

/-- The per-variable slicing used by every generator: variable after variable, a running offset
(`row += size_i` / `col += size`), element `k` of a variable reads flat position `offset + k`. -/
def walk {β : Type} (f : Nat → β) : Nat → List Nat → List (List β)
  | _, [] => []
  | off, s :: ss => (List.range s).map (fun k => f (off + k)) :: walk f (off + s) ss

/-- One yielded case of a pyDOE generator for design row `idxs` (values per design variable). -/
def pydoeCase {K : Type} (sizes : List Nat) (tbl : List (List (Option K))) (idxs : List Nat) :
    List (List (Option K)) :=
  walk (fun j => cell tbl j (idxs.getD j 0)) 0 sizes

section cases
variable {K : Type} [Add K] [Sub K] [Mul K] [Div K] [NatCast K] [OfNat K 0]

def pydoeCases (dvs : List (DV K)) (levelsMax : Nat) (doe : List (List Nat)) :
    List (List (List (Option K))) :=
  doe.map (pydoeCase (dvs.map (fun dv => dv.size)) (table dvs levelsMax))

/-- LHS / Uniform: variable after variable with a running `col`, element `k` of the variable uses
`lower[k]`, `upper[k]` and the unit sample at flat position `col + k`. -/
def affGo (m : K → K → K → K) (row : List K) : List (DV K) → Nat → List (List K)
  | [], _ => []
  | dv :: rest, col =>
    (List.range dv.size).map
      (fun k => m (dv.lower.get k) (dv.upper.get k) (row.getD (col + k) 0))
      :: affGo m row rest (col + dv.size)

def affCase (m : K → K → K → K) (dvs : List (DV K)) (row : List K) : List (List K) :=
  affGo m row dvs 0

def lhsCase (dvs : List (DV K)) (row : List K) : List (List K) := affCase lhsMap dvs row
def uniformCase (dvs : List (DV K)) (row : List K) : List (List K) := affCase uniformMap dvs row

def lhsCases (dvs : List (DV K)) (doe : List (List K)) : List (List (List K)) :=
  doe.map (lhsCase dvs)

end cases

/-! ### index designs -/

/-- pyDOE `fullfact(levels)`: all level combinations, the first factor varying fastest. -/
def fullfact : List Nat → List (List Nat)
  | [] => [[]]
  | l :: ls => (fullfact ls).flatMap (fun rest => (List.range l).map (fun j => j :: rest))

/-- `PlackettBurmanGenerator._generate_design`: `doe[doe < 0] = 0`, then `.astype(int)`. -/
def pbIndex (x : Int) : Nat := if x < 0 then 0 else x.toNat

/-- `BoxBehnkenGenerator._generate_design`: `doe + 1`, then `.astype(int)`. -/
def bbIndex (x : Int) : Nat := (x + 1).toNat

/-- Contract of every index design: row length = number of factors, every index below the level
count of its factor (otherwise the table lookup would hit NaN or raise). -/
def designOk (levels : List Nat) (doe : List (List Nat)) : Bool :=
  doe.all (fun row => row.length == levels.length &&
    (List.zipWith (fun i l => decide (i < l)) row levels).all id)

/-! ### Latin-hypercube strata -/

section strata
variable {K : Type} [Add K] [Sub K] [Mul K] [Div K] [NatCast K] [OfNat K 1] [LE K] [LT K]

/-- `x` lies in stratum `k` of `n` equal strata of `[lo, hi)`. -/
def inStratum (lo hi : K) (n k : Nat) (x : K) : Prop :=
  lo + (k : K) / (n : K) * (hi - lo) ≤ x ∧ x < lo + ((k : K) + 1) / (n : K) * (hi - lo)

instance [DecidableLE K] [DecidableLT K] (lo hi : K) (n k : Nat) (x : K) :
    Decidable (inStratum lo hi n k x) := by unfold inStratum; infer_instance

variable [DecidableLE K] [DecidableLT K]

/-- Every one of the `n` strata holds exactly one element of the column. -/
def strataOnce (lo hi : K) (n : Nat) (col : List K) : Prop :=
  ∀ k, k < n → col.countP (fun x => decide (inStratum lo hi n k x)) = 1

/-- Executable form of `strataOnce` (run by the driver on pyDOE's design and on the result). -/
def strataOk (lo hi : K) (n : Nat) (col : List K) : Bool :=
  (List.range n).all (fun k => col.countP (fun x => decide (inStratum lo hi n k x)) == 1)

end strata

/-- Column `j` of a list of flat rows. -/
def column {K : Type} [OfNat K 0] (j : Nat) (rows : List (List K)) : List K :=
  rows.map (fun r => r.getD j 0)

/-! ### `Driver._set_design_var` -/

section apply
variable {K : Type} [Add K] [Mul K] [OfNat K 0]

/-- NumPy fancy assignment `arr[idxs] = vals` (a repeated index keeps the last value). -/
def assign (arr : List K) (idxs : List Nat) (vals : List K) : List K :=
  (idxs.zip vals).foldl (fun a p => a.set p.1 p.2) arr

/-- `desvar[loc_idxs] = value`, then (when the design variable has units)
`desvar[loc_idxs] = convert_units(desvar[loc_idxs], dv_units, src_units)`.
`idxs = none` is the full slice; `conv = some (factor, offset)`. -/
def setDesvar (arr : List K) (idxs : Option (List Nat)) (vals : List K) (conv : Option (K × K)) :
    List K :=
  let loc := match idxs with
    | none => List.range arr.length
    | some l => l
  let a1 := assign arr loc vals
  match conv with
  | none => a1
  | some (f, o) => assign a1 loc (loc.map (fun i => unitConv f o (a1.getD i 0)))

end apply

end OMV.C23
