/-
C32 — execution-order machinery of `Group._check_order` / `_set_auto_order` and
`utils/graph_utils.py:get_sccs_topo / get_out_of_order_nodes`.

Subsystems are natural numbers; `orders x` is the declared position of subsystem `x`.
The list of strongly connected components comes from networkx (third party): it enters as data
and is validated by `isTopoSccList` (every edge stays inside one SCC or goes forward in the list).
Core Lean only.
-/
namespace OMV.C32

abbrev Edge := Nat × Nat

/-- index of the first SCC containing `x` (`sccs.length` if none) -/
def sccIndex (sccs : List (List Nat)) (x : Nat) : Nat := sccs.findIdx (fun s => s.contains x)

/-- networkx contract, edge part: no edge goes backwards in the SCC list -/
def edgesForward (edges : List Edge) (sccs : List (List Nat)) : Bool :=
  edges.all (fun e => sccIndex sccs e.1 ≤ sccIndex sccs e.2)

/-- every node of the graph is in some SCC -/
def covers (nodes : List Nat) (sccs : List (List Nat)) : Bool :=
  nodes.all (fun x => sccIndex sccs x < sccs.length)

def isTopoSccList (nodes : List Nat) (edges : List Edge) (sccs : List (List Nat)) : Bool :=
  covers nodes sccs && edgesForward edges sccs

/-- graph_utils.get_out_of_order_nodes: connections between different SCCs whose target is
currently ordered before its source -/
def outOfOrder (edges : List Edge) (sccs : List (List Nat)) (orders : Nat → Nat) : List Edge :=
  sccs.flatMap (fun s => edges.filter (fun e => s.contains e.1 && !s.contains e.2 &&
    decide (orders e.1 > orders e.2)))

/-- one SCC's contribution to the new order: a cycle keeps its declared internal order -/
def orderScc (orders : Nat → Nat) (s : List Nat) : List Nat :=
  if s.length > 1 then s.mergeSort (fun a b => decide (orders a ≤ orders b)) else s

/-- Group._set_auto_order -/
def autoOrder (sccs : List (List Nat)) (orders : Nat → Nat) : List Nat :=
  sccs.flatMap (orderScc orders)

/-- Group._check_order: reorder only when something is out of order -/
def finalOrder (declared : List Nat) (edges : List Edge) (sccs : List (List Nat))
    (orders : Nat → Nat) : List Nat :=
  if (outOfOrder edges sccs orders).isEmpty then declared else autoOrder sccs orders

/-- `u` occurs in a prefix of `l` and `v` in the rest: `u` executes before `v` -/
def Before (l : List Nat) (u v : Nat) : Prop := ∃ a b, l = a ++ b ∧ u ∈ a ∧ v ∈ b

end OMV.C32
