/-
C19 — Problem.load_case as a sequence of stores (core/problem.py:load_case: inputs by absolute
name, outputs by promoted name, values in model units), followed by run_model
(= `sweep` of OMV.Spec for a run-once model).  Core Lean only.
-/
import OMV.Model.Spec

namespace OMV.C19

open OMV.Spec

variable {K : Type}

/-- the model's variables: `var → flat value` -/
abbrev Store (K : Type) := Nat → List K

def update (s : Store K) (v : Nat) (vals : List K) : Store K :=
  fun w => if w = v then vals else s w

/-- load_case: set every recorded variable in turn -/
def loadCase (s : Store K) (c : List (Nat × List K)) : Store K :=
  c.foldl (fun s e => update s e.1 e.2) s

end OMV.C19
