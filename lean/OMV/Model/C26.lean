/-
C26 — stock math components: the formula each one computes and the partials it declares.

Every component is modelled twice, literally after the code in `/repo/openmdao/components`:

* `…Out`   — what `compute` / `apply_nonlinear` writes, element by element (flat C-order index);
* `…Jac…`  — the sub-Jacobian exactly as the component hands it to the framework: the `rows` / `cols`
  index arrays of `declare_partials` (as index formulas: entry `k` of `np.repeat(np.arange(v), len)`
  is `k / len`, of `np.tile(np.arange(m), v)` is `k % m`, …) together with the flat value array that
  `compute_partials` / `linearize` assigns, as a `Coo` triplet family.

Vectors are functions `Nat → α` of the flat index; all definitions are polymorphic in the carrier
`α`, so the very same definitions are run by the driver on `Rat` (`Float` for the `sqrt` of
VectorMagnitudeComp) and evaluated on dual numbers `K[ε]/(ε²)` by the theorems in
`OMV/Props/C26.lean`.  Core Lean only.
-/
namespace OMV.C26

variable {α : Type}

/-- `Σ_{i<n} f i`, accumulated left to right from `0` (like the `temp = temp + …` loops). -/
def sumRange [Add α] [OfNat α 0] (n : Nat) (f : Nat → α) : α :=
  (List.range n).foldl (fun acc i => acc + f i) 0

/-- A sub-Jacobian in the form the components declare it: `n` entries, entry `k` sits at
`(row k, col k)` and holds `val k` (`declare_partials(rows=…, cols=…)` + flat value array). -/
structure Coo (α : Type) where
  n : Nat
  row : Nat → Nat
  col : Nat → Nat
  val : Nat → α

/-- dense view (duplicates add up, as in `coo_matrix`) -/
def Coo.dense [Add α] [OfNat α 0] (J : Coo α) (r c : Nat) : α :=
  sumRange J.n (fun k => if J.row k = r ∧ J.col k = c then J.val k else 0)

/-- row `r` of the product `J · d` -/
def Coo.mulVec [Add α] [Mul α] [OfNat α 0] (J : Coo α) (d : Nat → α) (r : Nat) : α :=
  sumRange J.n (fun k => if J.row k = r then J.val k * d (J.col k) else 0)

/-- directional derivative through the partials of a component with inputs `0 … m-1`:
`Σ_w (J w · d w)[r]` -/
def totalDu [Add α] [Mul α] [OfNat α 0] (m : Nat) (J : Nat → Coo α) (d : Nat → Nat → α)
    (r : Nat) : α :=
  sumRange m (fun w => (J w).mulVec (d w) r)

/-- `diagonal=True` / `sf * eye(n)`: entries `(k, k)` -/
def diagCoo (n : Nat) (val : Nat → α) : Coo α := ⟨n, id, id, val⟩

/-- What is finally stored under the key `(of, w)` after a sequence of assignments
`partials[of, name_j] = value_j` (or repeated `declare_partials(of, name_j, val=value_j)`):
the code keeps the *last* assignment to a key (`accumulate = false`);
`accumulate = true` is the variant that adds the contributions of a repeated name. -/
def lastOrSum [Add α] [OfNat α 0] (accumulate : Bool) (assigns : List (Nat × α)) (w : Nat) : α :=
  assigns.foldl (fun cur p => if p.1 = w then (if accumulate then cur + p.2 else p.2) else cur) 0

/-! ### AddSubtractComp (add_subtract_comp.py) -/

/-- `compute`: `temp = zeros(shape); for i, name: temp = temp + inputs[name] * sf[i]`.
`terms = zip(input ids, scaling_factors)`; `x w` is the flattened input number `w`. -/
def addsubOut [Add α] [Mul α] [OfNat α 0] (terms : List (Nat × α)) (x : Nat → Nat → α)
    (i : Nat) : α :=
  terms.foldl (fun t p => t + x p.1 i * p.2) 0

/-- `add_equation`: for every entry of `input_names`,
`declare_partials([output], [name], val = sf * sp.eye(vec_size * length))`. -/
def addsubJac [Add α] [OfNat α 0] (accumulate : Bool) (terms : List (Nat × α)) (n w : Nat) :
    Coo α :=
  diagCoo n (fun _ => lastOrSum accumulate terms w)

/-! ### MuxComp (mux_comp.py) -/

/-- `add_var`: position in `np.stack(templates, axis).ravel()` of element `j` of input `i`, where
`post = prod(in_shape[axis:])` and `v = vec_size` inputs are stacked. -/
def muxRow (v post i j : Nat) : Nat := (j / post) * (v * post) + i * post + j % post

/-- flat index inside its input of output element `r` -/
def muxSrc (v post r : Nat) : Nat := (r / (v * post)) * post + r % post

/-- `compute`: `outputs[var][...] = np.stack(vals, axis)` -/
def muxOut (v post : Nat) (x : Nat → Nat → α) (r : Nat) : α :=
  x (r / post % v) (muxSrc v post r)

/-- `declare_partials(of=name, wrt=in_name_i, rows=rs, cols=arange(in_size), val=1.0)` -/
def muxJac [OfNat α 1] (v post insize i : Nat) : Coo α :=
  ⟨insize, muxRow v post i, id, fun _ => 1⟩

/-! ### DotProductComp (dot_product_comp.py) -/

/-- `compute`: `np.einsum('ni,ni->n', a, b)` -/
def dotOut [Add α] [Mul α] [OfNat α 0] (len : Nat) (a b : Nat → α) (n : Nat) : α :=
  sumRange len (fun i => a (n * len + i) * b (n * len + i))

/-- `rows = np.repeat(np.arange(vec_size), length)`, `cols = np.arange(vec_size * length)` -/
def rowBlockCoo (v len : Nat) (val : Nat → α) : Coo α := ⟨v * len, fun k => k / len, id, val⟩

/-- `compute_partials`: `partials[c, a_name] = b.ravel(); partials[c, b_name] = a.ravel()`
(in this order) -/
def dotJac [Add α] [OfNat α 0] (accumulate : Bool) (v len aId bId : Nat) (x : Nat → Nat → α)
    (w : Nat) : Coo α :=
  rowBlockCoo v len (fun k => lastOrSum accumulate [(aId, x bId k), (bId, x aId k)] w)

/-! ### CrossProductComp (cross_product_comp.py) -/

/-- `self._k` (3 × 6) -/
def crossK [OfNat α 0] [OfNat α 1] [Neg α] (j i : Nat) : α :=
  match j, i with
  | 0, 3 => -1 | 0, 5 => 1
  | 1, 1 => 1  | 1, 4 => -1
  | 2, 0 => -1 | 2, 2 => 1
  | _, _ => 0

/-- `M = [1, 2, 0, 2, 0, 1]` -/
def crossM (i : Nat) : Nat :=
  match i with
  | 0 => 1 | 1 => 2 | 2 => 0 | 3 => 2 | 4 => 0 | _ => 1

/-- `compute`: `np.cross(a, b)` on rows of length 3 -/
def crossOut [Mul α] [Sub α] (a b : Nat → α) (r : Nat) : α :=
  let o := 3 * (r / 3)
  match r % 3 with
  | 0 => a (o + 1) * b (o + 2) - a (o + 2) * b (o + 1)
  | 1 => a (o + 2) * b (o + 0) - a (o + 0) * b (o + 2)
  | _ => a (o + 0) * b (o + 1) - a (o + 1) * b (o + 0)

/-- `np.einsum('...j,ji->...i', u, K).ravel()[k]` for `u` of shape `(v, 3)`, `K` of shape `(3, 6)` -/
def crossVal [Add α] [Mul α] [OfNat α 0] (K : Nat → Nat → α) (u : Nat → α) (k : Nat) : α :=
  sumRange 3 (fun j => u (3 * (k / 6) + j) * K j (k % 6))

/-- `rows = np.repeat(np.arange(3 v), 2)`, `cols = concat_i (M + 3 i)`;
`partials[c, a] = einsum(b, -K)`, then `partials[c, b] = einsum(a, K)`. -/
def crossJac [Add α] [Mul α] [Neg α] [OfNat α 0] [OfNat α 1] (accumulate : Bool) (v aId bId : Nat)
    (x : Nat → Nat → α) (w : Nat) : Coo α :=
  ⟨(3 * v) * 2, fun k => k / 2, fun k => crossM (k % 6) + 3 * (k / 6),
   fun k => lastOrSum accumulate
     [(aId, crossVal (fun j i => - crossK j i) (x bId) k), (bId, crossVal crossK (x aId) k)] w⟩

/-! ### MatrixVectorProductComp (matrix_vector_product_comp.py) -/

/-- `compute`: `np.einsum('nij,nj->ni', A, x)`; `A : (v, nr, nc)`, `x : (v, nc)`, output `(v, nr)` -/
def matvecOut [Add α] [Mul α] [OfNat α 0] (nr nc : Nat) (A x : Nat → α) (r : Nat) : α :=
  sumRange nc (fun j => A (r * nc + j) * x ((r / nr) * nc + j))

/-- `np.nonzero(block_diag(*x_repeat))` (row `e / nc`, column `e`) with values
`np.repeat(x, nr, axis=0).ravel()` -/
def matvecJacA (v nr nc : Nat) (x : Nat → α) : Coo α :=
  ⟨(v * nr) * nc, fun e => e / nc, id, fun e => x ((e / nc / nr) * nc + e % nc)⟩

/-- `np.nonzero(block_diag(*A))` (row `e / nc`, column `(e / (nr nc)) nc + e % nc`) with values
`A.ravel()` -/
def matvecJacX (v nr nc : Nat) (A : Nat → α) : Coo α :=
  ⟨(v * nr) * nc, fun e => e / nc, fun e => (e / nc / nr) * nc + e % nc, A⟩

/-! ### VectorMagnitudeComp (vector_magnitude_comp.py) -/

/-- `compute`: `np.sqrt(np.einsum('ni,ni->n', a, a))` -/
def vecmagOut [Add α] [Mul α] [OfNat α 0] (sqrt : α → α) (len : Nat) (a : Nat → α) (n : Nat) : α :=
  sqrt (dotOut len a a n)

/-- `compute_partials`: `a.ravel() / np.repeat(np.sqrt(einsum(a, a)), length)` on the
`rows = repeat(arange(v), len)`, `cols = arange(v len)` pattern -/
def vecmagJac [Add α] [Mul α] [Div α] [OfNat α 0] (sqrt : α → α) (v len : Nat) (a : Nat → α) :
    Coo α :=
  rowBlockCoo v len (fun k => a k / vecmagOut sqrt len a (k / len))

/-! ### EQConstraintComp / BalanceComp (eq_constraint_comp.py, balance_comp.py)

`compute` of the one and `apply_nonlinear` of the other are the same elementwise expression, and
so are `compute_partials` / `linearize`. -/

section Eq
variable [Add α] [Sub α] [Mul α] [Div α] [Neg α] [LT α] [DecidableLT α]
  [OfNat α 0] [OfNat α 1] [OfNat α 2] [OfNat α 4]

/-- utils/cs_safe.py:abs — `x * sign(real x)`, i.e. `-x` for negative real part -/
def csAbs (x : α) : α := if x < 0 then -x else x

/-- `np.sign` (of a real number) -/
def npSign (x : α) : α := if x < 0 then -1 else if 0 < x then 1 else 0

/-- `absrhs < 2` -/
def isSmall (r : α) : Bool := decide (csAbs r < 2)

/-- one entry of `_scale_factor` once the index set it belongs to is chosen:
`1 / (.25 rhs² + 1)` on `idxs_nz` (`small`), `1 / |rhs|` on `idxs_nnz` -/
def eqScaleSel (small : Bool) (r : α) : α :=
  if small then 1 / (1 / 4 * (r * r) + 1) else 1 / csAbs r

/-- one entry of `_dscale_drhs`: `-.5 rhs / (.25 rhs² + 1)²`, resp. `-sign(rhs) / rhs²` -/
def eqDScaleSel (small : Bool) (r : α) : α :=
  if small then -(1 / 2) * r / ((1 / 4 * (r * r) + 1) * (1 / 4 * (r * r) + 1))
  else -(npSign r) / (r * r)

/-- `_scale_factor` / `_dscale_drhs` with the `normalize` option (`1` and `0` without) -/
def eqScaleAt (normalize small : Bool) (r : α) : α := if normalize then eqScaleSel small r else 1
def eqDScaleAt (normalize small : Bool) (r : α) : α := if normalize then eqDScaleSel small r else 0

/-- `compute` / `apply_nonlinear`: the index sets are `np.where(absrhs < 2)` and
`np.where(absrhs >= 2)` (elementwise) -/
def eqScale (normalize : Bool) (r : α) : α := eqScaleAt normalize (isSmall r) r

/-- output / residual: `(mult * lhs - rhs) * _scale_factor`, resp. `(lhs - rhs) * _scale_factor` -/
def eqOut (normalize useMult : Bool) (mult lhs rhs : α) : α :=
  if useMult then (mult * lhs - rhs) * eqScale normalize rhs
  else (lhs - rhs) * eqScale normalize rhs

/-- `mult` as used by the derivative code: the input, or `1.0` -/
def eqMult (useMult : Bool) (mult : α) : α := if useMult then mult else 1

/-- `partials[name, mult_name] = lhs * _scale_factor` (only declared with `use_mult`);
`small` says which index set the derivative code put the element in -/
def eqDMult (normalize small : Bool) (lhs rhs : α) : α := lhs * eqScaleAt normalize small rhs

/-- `partials[name, rhs_name] = (mult * lhs - rhs) * _dscale_drhs - _scale_factor` -/
def eqDRhs (normalize small useMult : Bool) (mult lhs rhs : α) : α :=
  (eqMult useMult mult * lhs - rhs) * eqDScaleAt normalize small rhs - eqScaleAt normalize small rhs

/-- `partials[name, lhs_name] = mult * _scale_factor` -/
def eqDLhs (normalize small useMult : Bool) (mult rhs : α) : α :=
  eqMult useMult mult * eqScaleAt normalize small rhs

/-- Index-set membership as the derivative code computes it for element `i` of the flattened
`rhs`.  `slab = 1`: `np.where(absrhs < 2)` elementwise (eq_constraint_comp.py:compute_partials, and
balance_comp.py:linearize for one-dimensional states).  balance_comp.py:linearize keeps only the
first index array, `np.where(absrhs < 2)[0]`; for a state of shape `(n0, …)` with
`slab = prod(shape[1:])` elements per first index that selects whole slabs, and since the
`idxs_nz` assignment comes last, element `i` is treated as small as soon as *some* element of its
slab is. -/
def slabSmall (slab : Nat) (r : Nat → α) (i : Nat) : Bool :=
  (List.range slab).any (fun j => isSmall (r ((i / slab) * slab + j)))

end Eq

/-! ### LinearSystemComp (linear_system_comp.py)

`vecA` is `vec_size_A > 1` (`vectorize_A` and `vec_size > 1`): one matrix per right-hand side. -/

/-- start of the matrix used for system `j` inside the flat `A` -/
def linsysAOff (size : Nat) (vecA : Bool) (j : Nat) : Nat := if vecA then j * (size * size) else 0

/-- `apply_nonlinear`: `einsum('ijk,ik->ij' | 'jk,ik->ij', A, x) - b`, resp. `A.dot(x) - b` -/
def linsysRes [Add α] [Mul α] [Sub α] [OfNat α 0] (size : Nat) (vecA : Bool) (A b x : Nat → α)
    (r : Nat) : α :=
  sumRange size (fun k => A (linsysAOff size vecA (r / size) + (r % size) * size + k)
                            * x ((r / size) * size + k)) - b r

/-- `declare_partials('x', 'b', val=np.full(full_size, -1.0), diagonal=True)` -/
def linsysJacB [Neg α] [OfNat α 1] (size v : Nat) : Coo α := diagCoo (v * size) (fun _ => -1)

/-- `rows = repeat(arange(full_size), size)`, `cols = arange(mat_size * vec_size)` or
`tile(arange(mat_size), vec_size)`; `J['x','A'] = np.tile(x, size).flat` -/
def linsysJacA (size v : Nat) (vecA : Bool) (x : Nat → α) : Coo α :=
  ⟨(v * size) * size, fun e => e / size, fun e => if vecA then e else e % (size * size),
   fun e => x ((e / size / size) * size + e % size)⟩

/-- `cols = tile(tile(arange(size), size), vec_size) + repeat(arange(vec_size), mat_size) * size`;
`J['x','x'] = A.flat` or `np.tile(A.flat, vec_size)` -/
def linsysJacX (size v : Nat) (vecA : Bool) (A : Nat → α) : Coo α :=
  ⟨(v * size) * size, fun e => e / size, fun e => (e / size / size) * size + e % size,
   fun e => A (if vecA then e else e % (size * size))⟩

/-! ### SplineComp (spline_comp.py): the declared pattern only (the interpolation itself is
covered differentially and by C15) -/

/-- `rows = tile(repeat(arange(ni), ncp), v) + repeat(ni * arange(v), ni * ncp)`,
`cols = tile(tile(arange(ncp), ni), v) + repeat(ncp * arange(v), ni * ncp)`;
values `dy_ddata.flatten()` of shape `(v, ni, ncp)`: a dense block per vectorised point. -/
def splineJac (v ni ncp : Nat) (val : Nat → α) : Coo α :=
  ⟨(v * ni) * ncp, fun e => e / ncp, fun e => (e / ncp / ni) * ncp + e % ncp, val⟩

end OMV.C26
