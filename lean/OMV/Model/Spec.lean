/-
ModelSpec — the flat, hierarchy-free model of an OpenMDAO model (DESIGN.md 3.6).

* all output elements of all components live in one global state `u : Nat → K`
  (OpenMDAO: the root output vector; positions are offsets into it);
* an input element is `(u src + off) * fac`: gather through the flattened `src_indices` chain
  (vectors/default_transfer.py: `output_inds = src_indices + offset`) followed by the affine unit
  conversion (core/group.py:_compute_root_scale_factors, utils/units.py:unit_conversion);
* an explicit component writes its block of outputs from its input values;
* a run-once pass (`sweep`) is a left fold of `stepComp` over the subsystem order
  (core/group.py:_solve_nonlinear with NonlinearRunOnce: transfer, then evaluate, per subsystem);
* residuals are polynomial expressions `Expr K`; partial derivatives are symbolic (`diff`).

Core Lean only.
-/
namespace OMV.Spec

/-! ### gathers and index chains -/

/-- NumPy take on a flat list (`v[pos]`), out-of-range reads give `0` (the real code rejects
out-of-range indices before any transfer is built: utils/indexer.py:_check_bounds). -/
def gather {K : Type} [OfNat K 0] (pos : List Nat) (v : List K) : List K :=
  pos.map (fun i => v.getD i 0)

/-- One more level of indices composed onto positions: `cur[p]`. -/
def composePos (cur p : List Nat) : List Nat := p.map (fun i => cur.getD i 0)

/-- core/conn_graph.py:get_src_index_array, several levels: apply each level's (flat, local)
positions to `arange(n)`. -/
def chainPos (n : Nat) (levels : List (List Nat)) : List Nat :=
  levels.foldl composePos (List.range n)

/-- The value-level meaning of a chain: index the source value level after level. -/
def chainVal {K : Type} [OfNat K 0] (levels : List (List Nat)) (v : List K) : List K :=
  levels.foldl (fun cur p => gather p cur) v

/-- every level only refers to positions that exist at that level -/
def ChainOk : Nat → List (List Nat) → Prop
  | _, [] => True
  | n, p :: ps => (∀ i ∈ p, i < n) ∧ ChainOk p.length ps

/-! ### unit conversion and solver scaling of a transferred value -/

/-- `convert_units`: `(x + offset) * factor`. -/
def convert {K : Type} [Add K] [Mul K] (fac off x : K) : K := (x + off) * fac

/-- physical value of a scaled (dimensionless) vector entry: `a0 + a1 * x̂`
(`a0 = ref0`, `a1 = ref - ref0`). -/
def unscale {K : Type} [Add K] [Mul K] (a0 a1 xh : K) : K := a0 + a1 * xh

/-- input scale factors computed by `_compute_root_scale_factors`:
`b0 = g(a0)`, `b1 = g(a1) - g(0)` with `g` the unit conversion. -/
def inScale0 {K : Type} [Add K] [Mul K] (fac off a0 : K) : K := convert fac off a0
def inScale1 {K : Type} [Add K] [Mul K] [Sub K] [OfNat K 0] (fac off a1 : K) : K :=
  convert fac off a1 - convert fac off 0

/-! ### components and the run-once sweep -/

structure InputDef (K : Type) where
  src : Nat
  fac : K
  off : K

structure Comp (K : Type) where
  start : Nat
  len : Nat
  ins : List (InputDef K)
  f : List K → List K

variable {K : Type}

/-- values a component sees on its inputs when the global outputs are `u` -/
def inputsOf [Add K] [Mul K] (u : Nat → K) (c : Comp K) : List K :=
  c.ins.map (fun d => convert d.fac d.off (u d.src))

def inRange (c : Comp K) (i : Nat) : Prop := c.start ≤ i ∧ i < c.start + c.len

instance (c : Comp K) (i : Nat) : Decidable (inRange c i) := by
  unfold inRange; exact inferInstance

/-- evaluate one explicit component: transfer its inputs, write its outputs -/
def stepComp [Add K] [Mul K] [OfNat K 0] (u : Nat → K) (c : Comp K) : Nat → K :=
  fun i => if inRange c i then (c.f (inputsOf u c)).getD (i - c.start) 0 else u i

/-- one pass of a run-once group in the given order -/
def sweep [Add K] [Mul K] [OfNat K 0] (u : Nat → K) (comps : List (Comp K)) : Nat → K :=
  comps.foldl stepComp u

/-- the component's explicit residual is zero: outputs equal the function of the *current*
inputs -/
def Solved [Add K] [Mul K] [OfNat K 0] (u : Nat → K) (c : Comp K) : Prop :=
  ∀ i, inRange c i → u i = (c.f (inputsOf u c)).getD (i - c.start) 0

/-- no source of `c` is written by `c'` -/
def NoWriteTo (c' c : Comp K) : Prop := ∀ d ∈ c.ins, ¬ inRange c' d.src

def Disjoint (c c' : Comp K) : Prop := ∀ i, ¬ (inRange c i ∧ inRange c' i)

/-- execution order respects data flow: no component's sources are written by itself or by a
later component, and output blocks do not overlap -/
def TopoOK : List (Comp K) → Prop
  | [] => True
  | c :: cs => NoWriteTo c c ∧ (∀ c' ∈ cs, NoWriteTo c' c ∧ Disjoint c c') ∧ TopoOK cs

/-! ### polynomial expressions -/

inductive Expr (K : Type) where
  | const : K → Expr K
  | var : Nat → Expr K
  | add : Expr K → Expr K → Expr K
  | mul : Expr K → Expr K → Expr K
  | neg : Expr K → Expr K
  deriving Repr

namespace Expr

/-- evaluation in any carrier `α` with constants embedded by `c` -/
def evalWith {α : Type} [Add α] [Mul α] [Neg α] (c : K → α) (env : Nat → α) : Expr K → α
  | const k => c k
  | var v => env v
  | add a b => evalWith c env a + evalWith c env b
  | mul a b => evalWith c env a * evalWith c env b
  | neg a => - evalWith c env a

def eval [Add K] [Mul K] [Neg K] (env : Nat → K) (e : Expr K) : K := evalWith id env e

/-- symbolic partial derivative with respect to variable `x` -/
def diff [OfNat K 0] [OfNat K 1] (x : Nat) : Expr K → Expr K
  | const _ => const 0
  | var v => if v = x then const 1 else const 0
  | add a b => add (diff x a) (diff x b)
  | mul a b => add (mul (diff x a) b) (mul a (diff x b))
  | neg a => neg (diff x a)

/-- forward-mode directional derivative -/
def evalD [Add K] [Mul K] [Neg K] [OfNat K 0] (env dir : Nat → K) : Expr K → K
  | const _ => 0
  | var v => dir v
  | add a b => evalD env dir a + evalD env dir b
  | mul a b => evalD env dir a * eval env b + eval env a * evalD env dir b
  | neg a => - evalD env dir a

/-- substitution of expressions for variables (inputs replaced by their transfer expression) -/
def subst (σ : Nat → Expr K) : Expr K → Expr K
  | const k => const k
  | var v => σ v
  | add a b => add (subst σ a) (subst σ b)
  | mul a b => mul (subst σ a) (subst σ b)
  | neg a => neg (subst σ a)

/-- all variables of `e` are below `n` -/
def varsBelow (n : Nat) : Expr K → Prop
  | const _ => True
  | var v => v < n
  | add a b => varsBelow n a ∧ varsBelow n b
  | mul a b => varsBelow n a ∧ varsBelow n b
  | neg a => varsBelow n a

end Expr

/-- dual numbers `K[ε]/(ε²)` -/
structure Dual (K : Type) where
  re : K
  du : K
  deriving Repr

namespace Dual
instance [Add K] : Add (Dual K) := ⟨fun a b => ⟨a.re + b.re, a.du + b.du⟩⟩
instance [Add K] [Mul K] : Mul (Dual K) := ⟨fun a b => ⟨a.re * b.re, a.du * b.re + a.re * b.du⟩⟩
instance [Neg K] : Neg (Dual K) := ⟨fun a => ⟨- a.re, - a.du⟩⟩
def const [OfNat K 0] (k : K) : Dual K := ⟨k, 0⟩
end Dual

/-! ### the flat residual system and its total derivatives -/

/-- the transfer expression of an input element: `(u[src] + off) * fac` -/
def inputExpr (d : InputDef K) : Expr K :=
  Expr.mul (Expr.add (Expr.var d.src) (Expr.const d.off)) (Expr.const d.fac)

/-- variables: `[0, n)` outputs, `[n, n+L)` design parameters, `[n+L, …)` input elements -/
def inputSubst (nOutParam : Nat) (ins : List (InputDef K)) [OfNat K 0] (v : Nat) : Expr K :=
  if v < nOutParam then Expr.var v else
    match ins[v - nOutParam]? with
    | some d => inputExpr d
    | none => Expr.const 0

def sumList [Add K] [OfNat K 0] (l : List K) : K := l.foldr (· + ·) 0

/-- `Σ_{j<n} f j` -/
def sumTo [Add K] [OfNat K 0] (n : Nat) (f : Nat → K) : K := sumList ((List.range n).map f)

/-- partial-derivative matrix entry `∂R_k/∂var_j` at `env` -/
def jacEntry [Add K] [Mul K] [Neg K] [OfNat K 0] [OfNat K 1] (R : List (Expr K)) (env : Nat → K)
    (k j : Nat) : K :=
  match R[k]? with
  | some e => Expr.eval env (Expr.diff j e)
  | none => 0

/-! ### block-relaxation linear solves (LinearRunOnce / LinearBlockGS at scalar granularity)

`solvers/linear/linear_runonce.py`, `linear_block_gs.py`: the unknowns are visited in a fixed order;
visiting unknown `i` solves row `i` for `x i` with the current values of all other unknowns
(explicit components: the diagonal entry is the identity block, so "solve" is a subtraction;
forward mode visits in execution order on `A`, reverse mode in reverse order on `Aᵀ`). -/

/-- off-diagonal part of row `i` applied to `x` -/
def offDiag [Add K] [Mul K] [OfNat K 0] (n : Nat) (a : Nat → Nat → K) (x : Nat → K) (i : Nat) : K :=
  sumTo n (fun j => if j = i then 0 else a i j * x j)

/-- visit unknown `i` -/
def gsStep [Add K] [Mul K] [Sub K] [Div K] [OfNat K 0] (n : Nat) (a : Nat → Nat → K) (b x : Nat → K)
    (i : Nat) : Nat → K :=
  fun k => if k = i then (b i - offDiag n a x i) / a i i else x k

/-- one pass over the unknowns in the given order -/
def gsSweep [Add K] [Mul K] [Sub K] [Div K] [OfNat K 0] (n : Nat) (a : Nat → Nat → K) (b x : Nat → K)
    (order : List Nat) : Nat → K :=
  order.foldl (gsStep n a b) x

end OMV.Spec
