/-
C10 — bounds enforcement of the Newton line searches
(`openmdao/solvers/linesearch/backtracking.py`, used by `solvers/nonlinear/newton.py`).

The output vector, the step vector and the two bound arrays of the code are modelled as ONE list of
per-entry records (`Entry`: `u`, `du`, `lo`, `hi`); an absent bound (`None` for the variable, i.e.
the `∓inf` the code pre-fills the bound arrays with) is `none`.  Everything the solver does is in
*solver units* (`u = (x - ref0)/(ref - ref0)`); `Meta`/`PVar`/`newtonUpdate` add the map from and
to physical units that `_setup_solvers` (bounds) and the root vectors (values) apply.

Two flags select between the code as it is (`false`) and a repaired variant (`true`):
* `swapWhenNegative`: `_setup_solvers` scales both declared bounds with `(b - ref0)/(ref - ref0)` and
  stores them as lower/upper whatever the sign of `ref - ref0`; the repair exchanges the scaled
  bounds when `ref < ref0`.
* `clampDAlpha`: `_enforce_bounds_vector` assumes `d_alpha <= alpha` (true in exact arithmetic for a
  start within bounds, see `dAlpha_facts`) but does not enforce it; the repair limits `d_alpha` to
  `alpha`.  In floating point the assumption fails when an entry sits on its bound and its step is
  rounding noise (see the harness); in the exact model the two variants differ only for starts
  outside the bounds.
Core Lean only.
-/
namespace OMV.C10

variable {K : Type} [LT K] [DecidableLT K] [DecidableEq K] [Add K] [Sub K] [Mul K] [Div K] [Neg K]
  [OfNat K 0] [OfNat K 1]

/-- `np.abs` -/
def absK (x : K) : K := if x < 0 then -x else x
/-- `np.maximum(a, b)` -/
def maxK (a b : K) : K := if a < b then b else a
/-- `np.minimum(a, b)` -/
def minK (a b : K) : K := if b < a then b else a

/-! ### Scaling (`Group._compute_root_scale_factors`: adder `ref0`, scaler `ref - ref0`) -/

/-- `DefaultVector._scale_forward` on a nonlinear vector: physical → solver units. -/
def toScaled (ref ref0 x : K) : K := (x - ref0) / (ref - ref0)
/-- `DefaultVector._scale_reverse` on a nonlinear vector: solver → physical units. -/
def toPhys (ref ref0 u : K) : K := u * (ref - ref0) + ref0
/-- Linear vectors (`_doutputs`, the Newton step) are scaled by the scaler only. -/
def stepToScaled (ref ref0 dx : K) : K := dx / (ref - ref0)

/-- Metadata of one flat entry of the output vector: `ref`, `ref0` and the declared (physical)
bounds; `none` = not declared. -/
structure Meta (K : Type) where
  ref : K
  ref0 : K
  lower : Option K
  upper : Option K

/-- `LinesearchSolver._setup_solvers`: `_lower_bounds[...] = (var_lower - ref0) / (ref - ref0)`,
`_upper_bounds[...] = (var_upper - ref0) / (ref - ref0)`; entries of variables without that bound
keep `∓inf` (`none`).  Returns `(lower, upper)` in solver units.
With `swapWhenNegative` the two are exchanged when `ref < ref0` (the repair; not in the code). -/
def scaledBounds (swapWhenNegative : Bool) (m : Meta K) : Option K × Option K :=
  let lo := m.lower.map (toScaled m.ref m.ref0)
  let hi := m.upper.map (toScaled m.ref m.ref0)
  if swapWhenNegative && decide (m.ref < m.ref0) then (hi, lo) else (lo, hi)

/-! ### The three kernels -/

/-- One flat entry: output value, step, lower and upper bound (all in solver units). -/
structure Entry (K : Type) where
  u : K
  du : K
  lo : Option K
  hi : Option K
  deriving DecidableEq, Repr

/-- `(lower_bounds[mask] - u_mask) / abs_du_mask`, `-inf` (absent) as `none`. -/
def lowerViol (e : Entry K) : Option K := e.lo.map (fun l => (l - e.u) / absK e.du)
/-- `(u_mask - upper_bounds[mask]) / abs_du_mask`, `-inf` (absent) as `none`. -/
def upperViol (e : Entry K) : Option K := e.hi.map (fun h => (e.u - h) / absK e.du)

/-- `max_d_alpha = np.amax(arr); if max_d_alpha > d_alpha: d_alpha = max_d_alpha`
(`-inf` entries never win). -/
def raiseTo (d : K) : List (Option K) → K
  | [] => d
  | none :: t => raiseTo d t
  | some v :: t => raiseTo (if d < v then v else d) t

/-- `_enforce_bounds_vector`: the required reduction `d_alpha` of the step length. -/
def dAlpha (es : List (Entry K)) : K :=
  let masked := es.filter (fun e => decide (e.du ≠ 0))        -- mask = du_arr != 0
  let d := raiseTo 0 (masked.map lowerViol)                   -- check lower bound
  raiseTo d (masked.map upperViol)                            -- check upper bound

/-- `u.add_scal_vec(-d_alpha, du); du *= 1 - d_alpha / alpha` on one entry. -/
def vectorEntry (α d : K) (e : Entry K) : Entry K :=
  { e with u := e.u + (-d) * e.du, du := e.du * (1 - d / α) }

/-- `_enforce_bounds_vector(u, du, alpha, lower_bounds, upper_bounds)`.
With `clampDAlpha` the reduction is limited to `alpha` (the repair; not in the code). -/
def enforceVector (clampDAlpha : Bool) (α : K) (es : List (Entry K)) : List (Entry K) :=
  let d₀ := dAlpha es
  let d := if clampDAlpha && decide (α < d₀) then α else d₀
  if 0 < d then es.map (vectorEntry α d) else es

/-- `change = change_lower + change_upper` with
`change_lower = np.maximum(u, lower) - u`, `change_upper = np.minimum(u, upper) - u`
(`0.` when the bound is absent). -/
def changeOf (e : Entry K) : K :=
  let cl := match e.lo with
    | none => 0
    | some l => maxK e.u l - e.u
  let cu := match e.hi with
    | none => 0
    | some h => minK e.u h - e.u
  cl + cu

/-- `_enforce_bounds_scalar` on one entry: `u += change; du += change / alpha`. -/
def scalarEntry (α : K) (e : Entry K) : Entry K :=
  let c := changeOf e
  { e with u := e.u + c, du := e.du + c / α }

/-- `_enforce_bounds_wall` on one entry: as scalar, then `du[change.astype(bool)] = 0.`. -/
def wallEntry (α : K) (e : Entry K) : Entry K :=
  let c := changeOf e
  { e with u := e.u + c, du := if c ≠ 0 then 0 else e.du + c / α }

def enforceScalar (α : K) (es : List (Entry K)) : List (Entry K) := es.map (scalarEntry α)
def enforceWall (α : K) (es : List (Entry K)) : List (Entry K) := es.map (wallEntry α)

inductive Method where
  | vector | scalar | wall
  deriving DecidableEq, Repr

/-- `system._has_bounds`: some output declares a lower or an upper bound. -/
def hasBounds (es : List (Entry K)) : Bool := es.any (fun e => e.lo.isSome || e.hi.isSome)

/-- `LinesearchSolver._enforce_bounds(step, alpha)` -/
def enforce (clampDAlpha : Bool) (m : Method) (α : K) (es : List (Entry K)) : List (Entry K) :=
  if hasBounds es then
    match m with
    | .vector => enforceVector clampDAlpha α es
    | .scalar => enforceScalar α es
    | .wall => enforceWall α es
  else es

/-! ### The two line searches -/

/-- `u.add_scal_vec(alpha, du)` -/
def addStep (α : K) (e : Entry K) : Entry K := { e with u := e.u + α * e.du }

/-- `BoundsEnforceLS._solve`: `u += du`, then (with bounds) `_enforce_bounds(step=du, alpha=1.0)`.
Input entries hold the start point. -/
def boundsEnforceSolve (clampDAlpha : Bool) (m : Method) (es : List (Entry K)) : List (Entry K) :=
  enforce clampDAlpha m 1 (es.map (fun e => { e with u := e.u + e.du }))

/-- `ArmijoGoldsteinLS._iter_initialize`: `u.add_scal_vec(alpha, du); _enforce_bounds(du, alpha)` -/
def agInit (clampDAlpha : Bool) (m : Method) (α : K) (es : List (Entry K)) : List (Entry K) :=
  enforce clampDAlpha m α (es.map (addStep α))

/-- The backtracking loop of `ArmijoGoldsteinLS._solve` for `n` further contractions:
`alpha_old = alpha; alpha *= rho; u.add_scal_vec(alpha - alpha_old, du)`.
No bound enforcement happens here.  Returns the successive iterates. -/
def agBacktrack (ρ : K) : Nat → K → List (Entry K) → List (List (Entry K))
  | 0, _, _ => []
  | n + 1, αk, es =>
    let α' := αk * ρ
    let es' := es.map (fun e => { e with u := e.u + (α' - αk) * e.du })
    es' :: agBacktrack ρ n α' es'

/-- All points an `ArmijoGoldsteinLS` with `maxiter` can evaluate and return, in order: the
initial (bounds-enforced) point, then `maxiter - 1` contractions (the first pass of the loop,
`_iter_count == 0`, does not move).  The real solver stops at some prefix, chosen by the
residual norms. -/
def agIterates (clampDAlpha : Bool) (m : Method) (α ρ : K) (maxiter : Nat) (es : List (Entry K)) :
    List (List (Entry K)) :=
  let es0 := agInit clampDAlpha m α es
  es0 :: agBacktrack ρ (maxiter - 1) α es0

inductive LS (K : Type) where
  | bchk : LS K
  | ag (α ρ : K) (maxiter : Nat) : LS K

/-- Initial step length of the line search (`BoundsEnforceLS` uses `1.0`). -/
def LS.alpha : LS K → K
  | .bchk => 1
  | .ag α _ _ => α

def lsIterates (clampDAlpha : Bool) (ls : LS K) (m : Method) (es : List (Entry K)) :
    List (List (Entry K)) :=
  match ls with
  | .bchk => [boundsEnforceSolve clampDAlpha m es]
  | .ag α ρ n => agIterates clampDAlpha m α ρ n es

/-! ### One Newton update seen in physical units -/

/-- One flat entry at the start of a Newton iteration: metadata, physical value, physical
Newton step. -/
structure PVar (K : Type) where
  md : Meta K
  x : K
  dx : K

def mkEntry (swapWhenNegative : Bool) (v : PVar K) : Entry K :=
  let b := scaledBounds swapWhenNegative v.md
  { u := toScaled v.md.ref v.md.ref0 v.x, du := stepToScaled v.md.ref v.md.ref0 v.dx,
    lo := b.1, hi := b.2 }

/-- Physical values of one iterate. -/
def physOf (vs : List (PVar K)) (it : List (Entry K)) : List K :=
  List.zipWith (fun v e => toPhys v.md.ref v.md.ref0 e.u) vs it

/-- The output values (physical units) at every point the line search of one Newton iteration can
evaluate/return, given the start point and the Newton step in physical units. -/
def newtonUpdate (swapWhenNegative clampDAlpha : Bool) (ls : LS K) (m : Method)
    (vs : List (PVar K)) : List (List K) :=
  (lsIterates clampDAlpha ls m (vs.map (mkEntry swapWhenNegative))).map (physOf vs)

/-! ### Predicates used by the property -/

/-- `x` lies within the (possibly absent) bounds. -/
def InB [LE K] (lo hi : Option K) (x : K) : Prop :=
  (match lo with
    | none => True
    | some l => l ≤ x) ∧
  (match hi with
    | none => True
    | some h => x ≤ h)

instance [LE K] [DecidableLE K] (lo hi : Option K) (x : K) : Decidable (InB lo hi x) := by
  unfold InB
  cases lo <;> cases hi <;> exact inferInstance

/-- `y` is reached from `s` by moving along `d`, not against it and not further than `α·d`. -/
def Along [LE K] (α s d y : K) : Prop :=
  0 ≤ (y - s) * d ∧ absK (y - s) ≤ α * absK d

instance [LE K] [DecidableLE K] (α s d y : K) : Decidable (Along α s d y) := by
  unfold Along; exact inferInstance

end OMV.C10
