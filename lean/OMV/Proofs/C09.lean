/-
C09 — helper lemmas about the loop model (`OMV/Model/C09.lean`).

Main results:
* `loopNL_spec`        the fuelled loop is "iterate the body while the condition holds";
* `loopNL_done`        fuel `maxiter + 1` always suffices (the condition is false on exit);
* `stepsNL_*`          counters, `norm0` and the visible norm after `k` iterations;
* `solveNL_char`       the characterisation of `solveNL` all property theorems are derived from;
* `solveLN_eq_solveNL` `LinearSolver._solve` is `NonlinearSolver._solve` with stall detection off
                       and no forced iteration.
-/
import OMV.Model.C09
import Mathlib.Tactic.SplitIfs
import Mathlib.Tactic.Cases

namespace OMV.C09

/-! ### One loop body -/

@[simp] theorem stepNL_iter (o : Opts) (cs : Bool) (hist : Nat → Norm) (s : St) :
    (stepNL o cs hist s).iter = s.iter + 1 := rfl
@[simp] theorem stepNL_singles (o : Opts) (cs : Bool) (hist : Nat → Norm) (s : St) :
    (stepNL o cs hist s).singles = s.singles + 1 := rfl
@[simp] theorem stepNL_evals (o : Opts) (cs : Bool) (hist : Nat → Norm) (s : St) :
    (stepNL o cs hist s).evals = s.evals + 1 := rfl
@[simp] theorem stepNL_norm (o : Opts) (cs : Bool) (hist : Nat → Norm) (s : St) :
    (stepNL o cs hist s).norm = hist s.evals := rfl
theorem stepNL_norm0 (o : Opts) (cs : Bool) (hist : Nat → Norm) (s : St) :
    (stepNL o cs hist s).norm0 = if s.norm0.isZero then Norm.fin 1 else s.norm0 := rfl
theorem stepNL_force (o : Opts) (cs : Bool) (hist : Nat → Norm) (s : St) :
    (stepNL o cs hist s).force = if cs then false else s.force := rfl
theorem stepNL_stall (o : Opts) (cs : Bool) (hist : Nat → Norm) (s : St) :
    (stepNL o cs hist s).stall =
      stallStep o s.stall (hist s.evals)
        ((hist s.evals).div (if s.norm0.isZero then Norm.fin 1 else s.norm0)) := rfl

theorem stepNL_norm0_of_nonzero (o : Opts) (cs : Bool) (hist : Nat → Norm) (s : St)
    (h : s.norm0.isZero = false) : (stepNL o cs hist s).norm0 = s.norm0 := by
  rw [stepNL_norm0, h]; rfl

/-! ### The loop is iteration of the body up to the first state where the condition fails -/

theorem stepsNL_succ (o : Opts) (cs : Bool) (hist : Nat → Norm) (k : Nat) (s : St) :
    stepsNL o cs hist (k + 1) s = stepNL o cs hist (stepsNL o cs hist k s) := by
  induction k generalizing s with
  | zero => rfl
  | succ k ih =>
    show stepsNL o cs hist (k + 1) (stepNL o cs hist s) = _
    rw [ih]; rfl

theorem loopNL_spec (o : Opts) (cs : Bool) (hist : Nat → Norm) (fuel : Nat) (s : St) :
    ∃ k, k ≤ fuel ∧ loopNL o cs hist fuel s = stepsNL o cs hist k s ∧
      (∀ j, j < k → contNL o (stepsNL o cs hist j s) = true) ∧
      (k < fuel → contNL o (stepsNL o cs hist k s) = false) := by
  induction fuel generalizing s with
  | zero => exact ⟨0, Nat.le_refl 0, rfl, fun j hj => absurd hj (Nat.not_lt_zero j),
      fun h => absurd h (Nat.lt_irrefl 0)⟩
  | succ fuel ih =>
    by_cases hc : contNL o s = true
    · obtain ⟨k, hk, heq, hall, hstop⟩ := ih (stepNL o cs hist s)
      refine ⟨k + 1, Nat.succ_le_succ hk, ?_, ?_, ?_⟩
      · show (if contNL o s = true then loopNL o cs hist fuel (stepNL o cs hist s) else s) = _
        rw [if_pos hc, heq]; rfl
      · intro j hj
        cases j with
        | zero => exact hc
        | succ j => exact hall j (Nat.lt_of_succ_lt_succ hj)
      · intro h
        exact hstop (Nat.lt_of_succ_lt_succ h)
    · refine ⟨0, Nat.zero_le _, ?_, fun j hj => absurd hj (Nat.not_lt_zero j), ?_⟩
      · show (if contNL o s = true then loopNL o cs hist fuel (stepNL o cs hist s) else s) = _
        rw [if_neg hc]; rfl
      · intro _
        show contNL o s = false
        simpa using hc

/-- Termination measure: remaining non-forced iterations, at least one while the forced one is
pending. -/
def mu (o : Opts) (s : St) : Nat :=
  if s.force then max 1 (o.maxiter - s.iter) else o.maxiter - s.iter

theorem contNL_false_of_mu_zero (o : Opts) (s : St) (h : mu o s = 0) : contNL o s = false := by
  unfold mu at h
  unfold contNL
  cases hf : s.force with
  | true =>
    rw [hf] at h
    simp only [↓reduceIte] at h
    omega
  | false =>
    rw [hf] at h
    simp only [Bool.false_eq_true, ↓reduceIte] at h
    have : ¬ s.iter < o.maxiter := by omega
    simp [this]

theorem mu_step_lt (o : Opts) (cs : Bool) (hist : Nat → Norm) (s : St)
    (hinv : s.force = true → cs = true) (hc : contNL o s = true) :
    mu o (stepNL o cs hist s) < mu o s := by
  unfold mu
  rw [stepNL_force, stepNL_iter]
  cases hf : s.force with
  | true =>
    have hcs := hinv hf
    subst hcs
    simp
    omega
  | false =>
    unfold contNL at hc
    rw [hf] at hc
    simp at hc
    have h1 : s.iter < o.maxiter := hc.1.1
    cases cs <;> simp <;> omega

theorem loopNL_done (o : Opts) (cs : Bool) (hist : Nat → Norm) (fuel : Nat) (s : St)
    (hinv : s.force = true → cs = true) (hmu : mu o s ≤ fuel) :
    contNL o (loopNL o cs hist fuel s) = false := by
  induction fuel generalizing s with
  | zero => exact contNL_false_of_mu_zero o s (by omega)
  | succ fuel ih =>
    show contNL o (if contNL o s = true then loopNL o cs hist fuel (stepNL o cs hist s) else s) = _
    by_cases hc : contNL o s = true
    · rw [if_pos hc]
      apply ih
      · rw [stepNL_force]
        intro h
        cases cs with
        | true => rfl
        | false => simp at h; exact hinv h
      · have := mu_step_lt o cs hist s hinv hc
        omega
    · rw [if_neg hc]
      cases h : contNL o s with
      | true => exact absurd h hc
      | false => rfl

/-! ### Counters and norms after `k` iterations -/

theorem stepsNL_iter (o : Opts) (cs : Bool) (hist : Nat → Norm) (k : Nat) (s : St) :
    (stepsNL o cs hist k s).iter = s.iter + k := by
  induction k with
  | zero => rfl
  | succ k ih => rw [stepsNL_succ, stepNL_iter, ih]; omega

theorem stepsNL_singles (o : Opts) (cs : Bool) (hist : Nat → Norm) (k : Nat) (s : St) :
    (stepsNL o cs hist k s).singles = s.singles + k := by
  induction k with
  | zero => rfl
  | succ k ih => rw [stepsNL_succ, stepNL_singles, ih]; omega

theorem stepsNL_evals (o : Opts) (cs : Bool) (hist : Nat → Norm) (k : Nat) (s : St) :
    (stepsNL o cs hist k s).evals = s.evals + k := by
  induction k with
  | zero => rfl
  | succ k ih => rw [stepsNL_succ, stepNL_evals, ih]; omega

theorem stepsNL_norm (o : Opts) (cs : Bool) (hist : Nat → Norm) (k : Nat) (s : St) :
    (stepsNL o cs hist (k + 1) s).norm = hist (s.evals + k) := by
  rw [stepsNL_succ, stepNL_norm, stepsNL_evals]

theorem stepsNL_norm0 (o : Opts) (cs : Bool) (hist : Nat → Norm) (k : Nat) (s : St)
    (h : s.norm0.isZero = false) : (stepsNL o cs hist k s).norm0 = s.norm0 := by
  induction k with
  | zero => rfl
  | succ k ih =>
    rw [stepsNL_succ, stepNL_norm0_of_nonzero _ _ _ _ (by rw [ih]; exact h), ih]

theorem stepsNL_force (o : Opts) (cs : Bool) (hist : Nat → Norm) (k : Nat) (s : St)
    (h : s.force = cs) : (stepsNL o cs hist k s).force = (cs && decide (k = 0)) := by
  induction k with
  | zero => simp [stepsNL, h]
  | succ k ih =>
    rw [stepsNL_succ, stepNL_force, ih]
    cases cs <;> simp

/-! ### `_iter_initialize` -/

theorem init_norm0_nonzero (c : SolverClass) (m : Nat) (hist : Nat → Norm) :
    (iterInitialize c m hist).norm0.isZero = false := by
  unfold iterInitialize
  split
  · dsimp only
    split
    · decide
    · rename_i h; simpa using h
  · decide

theorem initialIterCount_le (c : SolverClass) (m : Nat) : initialIterCount c m ≤ m := by
  unfold initialIterCount
  split
  · split <;> omega
  · omega

theorem initialIterCount_le_one (c : SolverClass) (m : Nat) : initialIterCount c m ≤ 1 := by
  unfold initialIterCount
  split
  · split <;> omega
  · omega

theorem initialIterCount_succ_le (c : SolverClass) (m : Nat) :
    initialIterCount c m + 1 ≤ max m 1 := by
  unfold initialIterCount
  split
  · split <;> omega
  · omega

theorem init_iter (c : SolverClass) (m : Nat) (hist : Nat → Norm) :
    (iterInitialize c m hist).iter = initialIterCount c m := by
  unfold iterInitialize
  split
  · rfl
  · rename_i h
    cases c with
    | nlbgs b =>
      cases b with
      | true => rfl
      | false =>
        simp [evaluatesInitially] at h
        simp [initialIterCount, h]
    | _ => rfl

/-! ### Characterisation of `solveNL` -/

theorem seenNorm_eq (c : SolverClass) (o : Opts) (cs : Bool) (hist : Nat → Norm) (j : Nat) :
    (stateAfter c o cs hist j).norm = seenNorm c o hist j := by
  cases j with
  | zero => rfl
  | succ k => unfold stateAfter; rw [stepsNL_norm]; rfl

theorem stateAfter_norm0 (c : SolverClass) (o : Opts) (cs : Bool) (hist : Nat → Norm) (j : Nat) :
    (stateAfter c o cs hist j).norm0 = (iterInitialize c o.maxiter hist).norm0 := by
  unfold stateAfter
  rw [stepsNL_norm0]
  · rfl
  · exact init_norm0_nonzero c o.maxiter hist

theorem stateAfter_iter (c : SolverClass) (o : Opts) (cs : Bool) (hist : Nat → Norm) (j : Nat) :
    (stateAfter c o cs hist j).iter = initialIterCount c o.maxiter + j := by
  unfold stateAfter
  rw [stepsNL_iter]
  show (iterInitialize c o.maxiter hist).iter + j = _
  rw [init_iter]

theorem stateAfter_singles (c : SolverClass) (o : Opts) (cs : Bool) (hist : Nat → Norm) (j : Nat) :
    (stateAfter c o cs hist j).singles = j := by
  unfold stateAfter
  rw [stepsNL_singles]
  show 0 + j = j
  omega

theorem stateAfter_evals (c : SolverClass) (o : Opts) (cs : Bool) (hist : Nat → Norm) (j : Nat) :
    (stateAfter c o cs hist j).evals = (iterInitialize c o.maxiter hist).evals + j := by
  unfold stateAfter
  rw [stepsNL_evals]
  rfl

theorem stateAfter_force (c : SolverClass) (o : Opts) (cs : Bool) (hist : Nat → Norm) (j : Nat) :
    (stateAfter c o cs hist j).force = (cs && decide (j = 0)) := by
  unfold stateAfter
  exact stepsNL_force o cs hist j _ rfl

theorem stateAfter_succ (c : SolverClass) (o : Opts) (cs : Bool) (hist : Nat → Norm) (j : Nat) :
    stateAfter c o cs hist (j + 1) = stepNL o cs hist (stateAfter c o cs hist j) := by
  unfold stateAfter
  exact stepsNL_succ o cs hist j _

/-- The final state of the loop in `solveNL`. -/
def finalNL (c : SolverClass) (o : Opts) (cs : Bool) (hist : Nat → Norm) : St :=
  loopNL o cs hist (o.maxiter + 1) (initState c o cs hist)

theorem solveNL_eq (c : SolverClass) (o : Opts) (cs : Bool) (hist : Nat → Norm) :
    solveNL c o cs hist = mkResult o (finalNL c o cs hist) (classifyNL o (finalNL c o cs hist)) :=
  rfl

/-- The loop stops after `k` iterations, where `k` is the first index at which the `while`
condition is false. -/
theorem solveNL_char (c : SolverClass) (o : Opts) (cs : Bool) (hist : Nat → Norm) :
    ∃ k, finalNL c o cs hist = stateAfter c o cs hist k ∧
      (∀ j, j < k → contNL o (stateAfter c o cs hist j) = true) ∧
      contNL o (stateAfter c o cs hist k) = false := by
  obtain ⟨k, _, heq, hall, _⟩ := loopNL_spec o cs hist (o.maxiter + 1) (initState c o cs hist)
  refine ⟨k, heq, hall, ?_⟩
  have hdone : contNL o (finalNL c o cs hist) = false := by
    apply loopNL_done
    · intro h; exact h
    · have hf : (initState c o cs hist).force = cs := rfl
      unfold mu
      rw [hf]
      cases cs
      · simp only [Bool.false_eq_true, ↓reduceIte]; omega
      · simp only [↓reduceIte]; omega
  unfold finalNL at hdone
  rw [heq] at hdone
  exact hdone

/-! ### Stall bookkeeping -/

theorem stallStep_off (o : Opts) (st : Stall) (a r : Norm) (h : o.stallLimit = 0) :
    stallStep o st a r = st := by
  unfold stallStep
  rw [if_neg (by omega)]

theorem stateAfter_not_stalled_of_off (c : SolverClass) (o : Opts) (cs : Bool) (hist : Nat → Norm)
    (h : o.stallLimit = 0) (j : Nat) : (stateAfter c o cs hist j).stall.stalled = false := by
  induction j with
  | zero => rfl
  | succ j ih => rw [stateAfter_succ, stepNL_stall, stallStep_off _ _ _ _ h]; exact ih

/-- Arguments handed to the stall check in iteration `j + 1`. -/
theorem stateAfter_succ_stall (c : SolverClass) (o : Opts) (cs : Bool) (hist : Nat → Norm)
    (j : Nat) :
    (stateAfter c o cs hist (j + 1)).stall =
      stallStep o (stateAfter c o cs hist j).stall (seenNorm c o hist (j + 1))
        ((seenNorm c o hist (j + 1)).div (iterInitialize c o.maxiter hist).norm0) := by
  rw [stateAfter_succ, stepNL_stall, stateAfter_evals, stateAfter_norm0,
    init_norm0_nonzero c o.maxiter hist]
  rfl

/-- Window invariant of the stall counter: the last `stall_count` iterates are all within
`stall_tol` of the current reference `stall_norm`. -/
theorem stall_window (c : SolverClass) (o : Opts) (cs : Bool) (hist : Nat → Norm)
    (hon : 0 < o.stallLimit) (j : Nat) :
    (stateAfter c o cs hist j).stall.stallCount ≤ j ∧
    ∀ i, j - (stateAfter c o cs hist j).stall.stallCount < i → i ≤ j →
      ((stateAfter c o cs hist j).stall.stallNorm.absDiff (normForStall c o hist i)).le
        o.stallTol = true := by
  induction j with
  | zero =>
    refine ⟨Nat.le_refl 0, ?_⟩
    intro i h1 h2
    have : (stateAfter c o cs hist 0).stall.stallCount = 0 := rfl
    omega
  | succ j ih =>
    rw [stateAfter_succ_stall]
    unfold stallStep
    rw [if_pos hon]
    dsimp only
    have hnfs : (if o.stallRel = true then
        (seenNorm c o hist (j + 1)).div (iterInitialize c o.maxiter hist).norm0
        else seenNorm c o hist (j + 1)) = normForStall c o hist (j + 1) := rfl
    rw [hnfs]
    split
    · rename_i hw
      dsimp only
      refine ⟨by omega, ?_⟩
      intro i h1 h2
      by_cases hi : i = j + 1
      · rw [hi]; exact hw
      · exact ih.2 i (by omega) (by omega)
    · dsimp only
      refine ⟨Nat.zero_le _, ?_⟩
      intro i h1 h2
      omega

/-- The flag is raised only when the counter has reached `stall_limit`. -/
theorem stallStep_rises (o : Opts) (st : Stall) (a r : Norm) (h0 : st.stalled = false)
    (h1 : (stallStep o st a r).stalled = true) :
    o.stallLimit ≤ (stallStep o st a r).stallCount := by
  unfold stallStep at h1 ⊢
  by_cases ha : 0 < o.stallLimit
  · rw [if_pos ha] at h1 ⊢
    dsimp only at h1 ⊢
    by_cases hb : (st.stallNorm.absDiff (if o.stallRel = true then r else a)).le o.stallTol = true
    · rw [if_pos hb] at h1 ⊢
      dsimp only at h1 ⊢
      by_cases hd : o.stallLimit ≤ st.stallCount + 1
      · exact hd
      · rw [if_neg hd, h0] at h1; cases h1
    · rw [if_neg hb] at h1
      dsimp only at h1
      rw [h0] at h1; cases h1
  · rw [if_neg ha, h0] at h1; cases h1

theorem stalled_rises (c : SolverClass) (o : Opts) (cs : Bool) (hist : Nat → Norm) (j : Nat)
    (h0 : (stateAfter c o cs hist j).stall.stalled = false)
    (h1 : (stateAfter c o cs hist (j + 1)).stall.stalled = true) :
    o.stallLimit ≤ (stateAfter c o cs hist (j + 1)).stall.stallCount := by
  rw [stateAfter_succ_stall] at h1 ⊢
  exact stallStep_rises o _ _ _ h0 h1

/-! ### The linear loop is the nonlinear loop without stall detection and forced iteration -/

/-- Options with stall detection switched off. -/
def noStall (o : Opts) : Opts := { o with stallLimit := 0 }

theorem stepLN_eq (o : Opts) (hist : Nat → Norm) (s : St) (_hf : s.force = false) :
    stepLN hist s = stepNL (noStall o) false hist s := by
  have h := stallStep_off (noStall o) s.stall (hist s.evals)
    ((hist s.evals).div (if s.norm0.isZero then Norm.fin 1 else s.norm0)) rfl
  unfold stepLN stepNL
  simp only [h]
  simp

theorem contLN_eq (o : Opts) (s : St) (hf : s.force = false) (hs : s.stall.stalled = false) :
    contLN o s = contNL (noStall o) s := by
  unfold contLN contNL
  rw [hf, hs]
  simp [noStall, aboveBoth]
  rfl

theorem loopLN_eq (o : Opts) (hist : Nat → Norm) (fuel : Nat) (s : St) (hf : s.force = false)
    (hs : s.stall.stalled = false) :
    loopLN o hist fuel s = loopNL (noStall o) false hist fuel s ∧
      (loopLN o hist fuel s).stall.stalled = false := by
  induction fuel generalizing s with
  | zero => exact ⟨rfl, hs⟩
  | succ fuel ih =>
    show (if contLN o s = true then loopLN o hist fuel (stepLN hist s) else s) =
      (if contNL (noStall o) s = true then loopNL (noStall o) false hist fuel
        (stepNL (noStall o) false hist s) else s) ∧
      (if contLN o s = true then loopLN o hist fuel (stepLN hist s) else s).stall.stalled = false
    rw [contLN_eq o s hf hs, stepLN_eq o hist s hf]
    by_cases hc : contNL (noStall o) s = true
    · simp only [hc, ↓reduceIte]
      apply ih
      · rw [stepNL_force]; simp [hf]
      · rw [stepNL_stall, stallStep_off _ _ _ _ rfl]; exact hs
    · have hc' : contNL (noStall o) s = false := by simpa using hc
      refine ⟨?_, ?_⟩ <;> simp [hc', hs]

theorem solveLN_eq_solveNL (c : SolverClass) (o : Opts) (hist : Nat → Norm) :
    solveLN c o hist = solveNL c (noStall o) false hist := by
  have h := loopLN_eq o hist (o.maxiter + 1) (initState c o false hist) rfl rfl
  unfold solveLN solveNL
  have e : initState c (noStall o) false hist = initState c o false hist := rfl
  have em : (noStall o).maxiter = o.maxiter := rfl
  rw [e, em, ← h.1]
  dsimp only
  have hcl : classifyLN o (loopLN o hist (o.maxiter + 1) (initState c o false hist)) =
      classifyNL (noStall o) (loopLN o hist (o.maxiter + 1) (initState c o false hist)) := by
    unfold classifyLN classifyNL
    rw [h.2]
    simp [noStall, aboveBoth]
  rw [hcl]
  rfl

end OMV.C09
