/-
C06 — helper lemmas, part 1: the polymorphic `PhysicalUnit` algebra over a field.
-/
import OMV.Model.C06
import Mathlib.Tactic.Ring
import Mathlib.Tactic.FieldSimp
import Mathlib.Tactic.Linarith
import Mathlib.Algebra.Field.Basic
import Mathlib.Algebra.GroupWithZero.Basic

set_option linter.unusedSectionVars false
set_option linter.unusedVariables false

namespace OMV.C06

variable {K : Type} [Field K] [DecidableEq K]

theorem powNat_eq (x : K) (n : Nat) : powNat x n = x ^ n := by
  induction n with
  | zero => simp [powNat]
  | succ k ih => simp [powNat, ih, pow_succ]

/-- the model's `pow(float, int)` is the field's integer power -/
theorem powInt_eq (x : K) (n : Int) : powInt x n = x ^ n := by
  unfold powInt
  split
  · rename_i h
    rw [powNat_eq]
    conv_rhs => rw [← Int.toNat_of_nonneg h]
    exact (zpow_natCast x n.toNat).symm
  · rename_i h
    have h' : 0 ≤ -n := by omega
    rw [powNat_eq, one_div]
    have : n = -((-n).toNat : Int) := by rw [Int.toNat_of_nonneg h']; ring
    conv_rhs => rw [this, zpow_neg, zpow_natCast]

open _root_.OMV.C06.PUnit in
/-- for compatible units with non-zero factors `convert` is the closed formula -/
theorem convert_ok (x : K) (a b : PUnit K) (ha : a.factor ≠ 0) (hb : b.factor ≠ 0)
    (hp : a.powers = b.powers) :
    convert x a b =
      .ok ((x + (a.offset - b.offset * b.factor / a.factor)) * (a.factor / b.factor)) := by
  simp [convert, conversionTuple, hp, ha, hb]

end OMV.C06
