/-
C12 helper lemmas about the run-point state machine: every normal exit (and, with
`restoreOnRaise`, every exit) leaves the three vectors as saved; when the run is a function of the
inputs the machine's columns are the difference-quotient formulas; colored = uncolored under the
structural certificate.
-/
import OMV.Model.C12
import Mathlib.Tactic.Ring

set_option linter.unusedSectionVars false
set_option linter.unusedVariables false

namespace OMV.C12

open OMV.Spec (Dual)

/-! ### state restoration (no algebra needed) -/

section Restore

variable {K : Type}

/-- the run never lets an exception escape -/
def NeverRaises (run : Run K) : Prop := ∀ s, ∃ s', run s = .ok s'

theorem fdSubPoint_ok [Add K] {run : Run K} {total : Bool} {start st s' : St K}
    {info : List (Vec × List Nat)} {d : K} {tmp : Nat → K}
    (h : fdSubPoint run total start info d st = .ok (s', tmp)) : s' = start := by
  unfold fdSubPoint at h
  cases hr : run (perturb st info d) with
  | error e => simp [hr] at h
  | ok s =>
    simp only [hr, Except.ok.injEq, Prod.mk.injEq] at h
    rw [← h.1]

theorem fdPointLoop_ok [Add K] [Mul K] {run : Run K} {total : Bool} {start : St K}
    {info : List (Vec × List Nat)} (l : List (K × K)) (st : St K) (acc : Nat → K)
    {s' : St K} {acc' : Nat → K} (hst : st = start)
    (h : fdPointLoop run total start info l st acc = .ok (s', acc')) : s' = start := by
  induction l generalizing st acc with
  | nil =>
    simp only [fdPointLoop, Except.ok.injEq, Prod.mk.injEq] at h
    rw [← h.1, hst]
  | cons dc rest ih =>
    obtain ⟨d, c⟩ := dc
    simp only [fdPointLoop] at h
    cases hs : fdSubPoint run total start info d st with
    | error e => simp [hs] at h
    | ok p =>
      obtain ⟨st', tmp⟩ := p
      simp only [hs] at h
      exact ih st' _ (fdSubPoint_ok hs) h

theorem fdJobs_ok [Add K] [Mul K] [OfNat K 0] [DecidableEq K] {run : Run K} {total : Bool}
    {start : St K} (jobs : List (Job K)) (st : St K) (cols : List (Nat × (Nat → K)))
    {s' : St K} {cols' : List (Nat × (Nat → K))} (hst : st = start)
    (h : fdJobs run total start jobs st cols = .ok (s', cols')) : s' = start := by
  induction jobs generalizing st cols with
  | nil =>
    simp only [fdJobs, Except.ok.injEq, Prod.mk.injEq] at h
    rw [← h.1, hst]
  | cons job rest ih =>
    simp only [fdJobs] at h
    cases hp : fdRunPoint run total start job.info job.pd st with
    | error e => simp [hp] at h
    | ok p =>
      obtain ⟨st', res⟩ := p
      simp only [hp] at h
      have hst' : st' = start := by
        unfold fdRunPoint at hp
        exact fdPointLoop_ok _ _ _ hst hp
      exact ih st' _ hst' h

/-- FD: a completed approximation leaves the vectors as they were -/
theorem fdApprox_restored_of_some [Add K] [Mul K] [OfNat K 0] [DecidableEq K] (cfg : Cfg)
    (run : Run K) (total : Bool) (jobs : List (Job K)) (st0 : St K)
    (h : (fdApprox cfg run total jobs st0).2.isSome) : (fdApprox cfg run total jobs st0).1 = st0 := by
  unfold fdApprox at h ⊢
  cases hj : fdJobs run total st0 jobs st0 [] with
  | error e => simp [hj] at h
  | ok p =>
    obtain ⟨st, cols⟩ := p
    simp only [hj]
    exact fdJobs_ok jobs st0 [] rfl hj

/-- FD, patched `finally`: every exit leaves the vectors as they were -/
theorem fdApprox_restored_cfg [Add K] [Mul K] [OfNat K 0] [DecidableEq K] (cfg : Cfg)
    (hc : cfg.restoreOnRaise = true) (run : Run K) (total : Bool) (jobs : List (Job K))
    (st0 : St K) : (fdApprox cfg run total jobs st0).1 = st0 := by
  unfold fdApprox
  cases hj : fdJobs run total st0 jobs st0 [] with
  | error e => simp [hj, hc]
  | ok p =>
    obtain ⟨st, cols⟩ := p
    simp only [hj]
    exact fdJobs_ok jobs st0 [] rfl hj

theorem fdSubPoint_noraise [Add K] {run : Run K} (hr : NeverRaises run) (total : Bool)
    (start st : St K) (info : List (Vec × List Nat)) (d : K) :
    ∃ p, fdSubPoint run total start info d st = .ok p := by
  unfold fdSubPoint
  obtain ⟨s, hs⟩ := hr (perturb st info d)
  rw [hs]; exact ⟨_, rfl⟩

theorem fdPointLoop_noraise [Add K] [Mul K] {run : Run K} (hr : NeverRaises run) (total : Bool)
    (start : St K) (info : List (Vec × List Nat)) (l : List (K × K)) (st : St K)
    (acc : Nat → K) : ∃ p, fdPointLoop run total start info l st acc = .ok p := by
  induction l generalizing st acc with
  | nil => exact ⟨_, rfl⟩
  | cons dc rest ih =>
    obtain ⟨d, c⟩ := dc
    obtain ⟨p, hp⟩ := fdSubPoint_noraise hr total start st info d
    obtain ⟨st', tmp⟩ := p
    simp only [fdPointLoop, hp]
    exact ih st' _

theorem fdJobs_noraise [Add K] [Mul K] [OfNat K 0] [DecidableEq K] {run : Run K}
    (hr : NeverRaises run) (total : Bool) (start : St K) (jobs : List (Job K)) (st : St K)
    (cols : List (Nat × (Nat → K))) : ∃ p, fdJobs run total start jobs st cols = .ok p := by
  induction jobs generalizing st cols with
  | nil => exact ⟨_, rfl⟩
  | cons job rest ih =>
    have : ∃ p, fdRunPoint run total start job.info job.pd st = .ok p := by
      unfold fdRunPoint
      exact fdPointLoop_noraise hr total start job.info _ st _
    obtain ⟨p, hp⟩ := this
    obtain ⟨st', res⟩ := p
    simp only [fdJobs, hp]
    exact ih st' _

theorem fdApprox_completes [Add K] [Mul K] [OfNat K 0] [DecidableEq K] (cfg : Cfg) {run : Run K}
    (hr : NeverRaises run) (total : Bool) (jobs : List (Job K)) (st0 : St K) :
    (fdApprox cfg run total jobs st0).2.isSome := by
  unfold fdApprox
  obtain ⟨p, hp⟩ := fdJobs_noraise hr total st0 jobs st0 []
  obtain ⟨st, cols⟩ := p
  simp [hp]

/-- CS: a completed approximation leaves the vectors as they were -/
theorem csApprox_restored_of_some [Add K] [Mul K] [Div K] [Neg K] [OfNat K 0] [OfNat K 1]
    (cfg : Cfg) (run : Run (Dual K)) (total : Bool) (h : K) (jobs : List (Job K)) (st0 : St K)
    (hs : (csApprox cfg run total h jobs st0).2.isSome) :
    (csApprox cfg run total h jobs st0).1 = st0 := by
  unfold csApprox at hs ⊢
  cases hj : csJobs run total st0 h jobs st0.lift [] with
  | error e => simp [hj] at hs
  | ok p => simp only [hj]

theorem csApprox_restored_cfg [Add K] [Mul K] [Div K] [Neg K] [OfNat K 0] [OfNat K 1]
    (cfg : Cfg) (hc : cfg.restoreOnRaise = true) (run : Run (Dual K)) (total : Bool) (h : K)
    (jobs : List (Job K)) (st0 : St K) : (csApprox cfg run total h jobs st0).1 = st0 := by
  unfold csApprox
  cases hj : csJobs run total st0 h jobs st0.lift [] with
  | error e => simp [hj, hc]
  | ok p => simp only [hj]

theorem csJobs_noraise [Add K] [Mul K] [Div K] [Neg K] [OfNat K 0] [OfNat K 1]
    {run : Run (Dual K)} (hr : NeverRaises run) (total : Bool) (saved : St K) (h : K)
    (jobs : List (Job K)) (st : St (Dual K)) (cols : List (Nat × (Nat → K))) :
    ∃ p, csJobs run total saved h jobs st cols = .ok p := by
  induction jobs generalizing st cols with
  | nil => exact ⟨_, rfl⟩
  | cons job rest ih =>
    have : ∃ p, csRunPoint run total job.info h st = .ok p := by
      unfold csRunPoint
      obtain ⟨s, hs⟩ := hr (perturb st job.info ⟨0, h⟩)
      rw [hs]; exact ⟨_, rfl⟩
    obtain ⟨p, hp⟩ := this
    obtain ⟨st', res⟩ := p
    simp only [csJobs, hp]
    exact ih _ _

theorem csApprox_completes [Add K] [Mul K] [Div K] [Neg K] [OfNat K 0] [OfNat K 1] (cfg : Cfg)
    {run : Run (Dual K)} (hr : NeverRaises run) (total : Bool) (h : K) (jobs : List (Job K))
    (st0 : St K) : (csApprox cfg run total h jobs st0).2.isSome := by
  unfold csApprox
  obtain ⟨p, hp⟩ := csJobs_noraise hr total st0 h jobs st0.lift []
  simp [hp]

end Restore

/-! ### the machine computes the formulas -/

section Columns

variable {K : Type} [CommRing K] [DecidableEq K]

/-- partials of a system whose residual vector is a function of its inputs
(`run_apply_nonlinear` writes `F(inputs)` into the residuals) -/
def runOf (F : (Nat → K) → Nat → K) : Run K := fun st => .ok { st with res := F st.ins }

/-- a job that perturbs input positions only -/
def mkJob (s : List Nat × PointData K × List (Nat × Option (List Nat))) : Job K :=
  { info := [(Vec.input, s.1)], pd := s.2.1, emit := s.2.2 }

theorem fdPointLoop_runOf (F : (Nat → K) → Nat → K) (start : St K) (idxs : List Nat)
    (l : List (K × K)) (acc : Nat → K) :
    fdPointLoop (runOf F) false start [(Vec.input, idxs)] l start acc
      = .ok (start, fun r => colAcc F start.ins idxs r l (acc r)) := by
  induction l generalizing acc with
  | nil => simp [fdPointLoop, colAcc]
  | cons dc rest ih =>
    obtain ⟨d, c⟩ := dc
    have hs : fdSubPoint (runOf F) false start [(Vec.input, idxs)] d start
        = .ok (start, F (iadd start.ins idxs d)) := by
      simp [fdSubPoint, runOf, perturb, resultVec]
    simp only [fdPointLoop, hs, ih, colAcc]

theorem fdRunPoint_runOf (F : (Nat → K) → Nat → K) (start : St K) (hres : start.res = F start.ins)
    (idxs : List Nat) (pd : PointData K) :
    fdRunPoint (runOf F) false start [(Vec.input, idxs)] pd start
      = .ok (start, fun r => pointCol F start.ins idxs pd r) := by
  have hinit : ∀ r, (if pd.cur = 0 then (fun _ => (0 : K))
      else (fun i => resultVec false start i * pd.cur)) r
        = (if pd.cur = 0 then 0 else F start.ins r * pd.cur) := by
    intro r
    by_cases hc : pd.cur = 0
    · rw [if_pos hc, if_pos hc]
    · rw [if_neg hc, if_neg hc]; simp [resultVec, hres]
  unfold fdRunPoint pointCol
  rw [fdPointLoop_runOf]
  simp only [hinit]

theorem fdJobs_runOf (F : (Nat → K) → Nat → K) (start : St K) (hres : start.res = F start.ins)
    (specs : List (List Nat × PointData K × List (Nat × Option (List Nat))))
    (cols : List (Nat × (Nat → K))) :
    fdJobs (runOf F) false start (specs.map mkJob) start cols
      = .ok (start, cols ++ specs.flatMap (fun s =>
          emitCols s.2.2 (fun r => pointCol F start.ins s.1 s.2.1 r))) := by
  induction specs generalizing cols with
  | nil => simp [fdJobs]
  | cons s rest ih =>
    simp only [List.map_cons, fdJobs, mkJob, fdRunPoint_runOf F start hres, List.flatMap_cons]
    have := ih (cols ++ emitCols s.2.2 (fun r => pointCol F start.ins s.1 s.2.1 r))
    rw [this, List.append_assoc]

/-! ### colored = uncolored -/

theorem colAcc_congr (F : (Nat → K) → Nat → K) (x : Nat → K) (a b : List Nat) (r : Nat)
    (h : ∀ d, F (iadd x a d) r = F (iadd x b d) r) (l : List (K × K)) (acc : K) :
    colAcc F x a r l acc = colAcc F x b r l acc := by
  induction l generalizing acc with
  | nil => rfl
  | cons dc rest ih =>
    obtain ⟨d, c⟩ := dc
    simp only [colAcc, h d, ih]

theorem colAcc_const (F : (Nat → K) → Nat → K) (x : Nat → K) (a : List Nat) (r : Nat) (v : K)
    (h : ∀ d, F (iadd x a d) r = v) (l : List (K × K)) (acc : K) :
    colAcc F x a r l acc = acc + v * l.foldr (fun dc s => dc.2 + s) 0 := by
  induction l generalizing acc with
  | nil => simp [colAcc]
  | cons dc rest ih =>
    obtain ⟨d, c⟩ := dc
    simp only [colAcc, h d, ih, List.foldr_cons]
    ring

theorem certifyColor_spec (dep : Nat → List Nat) (nrows : Nat) (color : List (Nat × List Nat))
    (h : certifyColor dep nrows color = true) :
    (∀ jn ∈ color, ∀ r, r < nrows → jn.1 ∈ dep r → r ∈ jn.2) ∧
    (∀ jn ∈ color, ∀ km ∈ color, jn.1 = km.1 ∨ ∀ r ∈ jn.2, r ∉ km.2) := by
  unfold certifyColor at h
  simp only [Bool.and_eq_true, List.all_eq_true, List.mem_range, Bool.or_eq_true,
    Bool.not_eq_true', decide_eq_false_iff_not, decide_eq_true_eq, beq_iff_eq] at h
  obtain ⟨⟨_, ha⟩, hb⟩ := h
  refine ⟨?_, ?_⟩
  · intro jn hjn r hr hd
    rcases ha jn hjn r hr with h1 | h1
    · exact absurd hd h1
    · exact h1
  · intro jn hjn km hkm
    rcases hb jn hjn km hkm with h1 | h1
    · exact Or.inl h1
    · exact Or.inr h1

/-- a column the row does not read: the uncolored entry vanishes (consistent row) -/
theorem uncolored_zero_of_independent (F : (Nat → K) → Nat → K) (x : Nat → K) (pd : PointData K)
    (S : List Nat) (j r : Nat) (hdep : DependsOnlyOn F r S) (hj : j ∉ S)
    (hsum : pd.coeffSum = 0) : uncoloredEntry F x pd j r = 0 := by
  unfold uncoloredEntry pointCol
  have hconst : ∀ d, F (iadd x [j] d) r = F x r := by
    intro d
    apply hdep
    intro i hi
    unfold iadd
    have : i ≠ j := fun h => hj (h ▸ hi)
    simp [this]
  rw [colAcc_const F x [j] r (F x r) hconst]
  have hinit : (if pd.cur = 0 then (0 : K) else F x r * pd.cur) = F x r * pd.cur := by
    by_cases h0 : pd.cur = 0
    · simp [h0]
    · simp [h0]
  rw [hinit]
  unfold PointData.coeffSum at hsum
  have : F x r * pd.cur + F x r * List.foldr (fun dc s => dc.2 + s) 0 (pd.deltas.zip pd.coeffs)
      = F x r * (pd.cur + List.foldr (fun dc s => dc.2 + s) 0 (pd.deltas.zip pd.coeffs)) := by
    ring
  rw [this, hsum, mul_zero]

theorem certifyCover_spec (dep : Nat → List Nat) (nrows ncols : Nat)
    (colors : List (List (Nat × List Nat))) (h : certifyCover dep nrows ncols colors = true)
    (j : Nat) (hj : j < ncols) (hnot : ∀ col ∈ colors, ∀ jn ∈ col, jn.1 ≠ j) :
    ∀ r, r < nrows → j ∉ dep r := by
  unfold certifyCover at h
  simp only [List.all_eq_true, List.mem_range, Bool.or_eq_true, List.any_eq_true,
    Bool.not_eq_true', decide_eq_false_iff_not, beq_iff_eq] at h
  rcases h j hj with h1 | h1
  · exact h1
  · obtain ⟨col, hcol, jn, hjn, he⟩ := h1
    exact absurd he (hnot col hcol jn hjn)

/-- for one color: every entry of every column of the color equals the uncolored entry -/
theorem colored_eq_uncolored (F : (Nat → K) → Nat → K) (x : Nat → K) (pd : PointData K)
    (dep : Nat → List Nat) (nrows : Nat) (color : List (Nat × List Nat))
    (hdep : ∀ r, DependsOnlyOn F r (dep r)) (hsum : pd.coeffSum = 0)
    (hc : certifyColor dep nrows color = true) :
    ∀ jn ∈ color, ∀ r, r < nrows →
      coloredEntry F x pd (color.map (·.1)) jn.2 r = uncoloredEntry F x pd jn.1 r := by
  obtain ⟨ha, hb⟩ := certifyColor_spec dep nrows color hc
  intro jn hjn r hr
  unfold coloredEntry uncoloredEntry pointCol
  by_cases hin : r ∈ jn.2
  · simp only [hin, if_true]
    apply colAcc_congr
    intro d
    apply hdep r
    intro i hi
    unfold iadd
    by_cases hij : i = jn.1
    · have : i ∈ color.map (·.1) := by
        rw [hij]; exact List.mem_map.mpr ⟨jn, hjn, rfl⟩
      rw [if_pos this, if_pos (by rw [hij]; exact List.mem_singleton.mpr rfl)]
    · have hnot : i ∉ color.map (·.1) := by
        intro hmem
        obtain ⟨km, hkm, hk1⟩ := List.mem_map.mp hmem
        have hrk : r ∈ km.2 := ha km hkm r hr (by rw [hk1]; exact hi)
        rcases hb jn hjn km hkm with h1 | h1
        · exact hij (by rw [← hk1, ← h1])
        · exact h1 r hin hrk
      rw [if_neg hnot, if_neg (by intro h; exact hij (List.mem_singleton.mp h))]
  · simp only [hin, if_false]
    have hnd : jn.1 ∉ dep r := fun hd => hin (ha jn hjn r hr hd)
    have hconst : ∀ d, F (iadd x [jn.1] d) r = F x r := by
      intro d
      apply hdep r
      intro i hi
      unfold iadd
      have : i ≠ jn.1 := fun h => hnd (h ▸ hi)
      simp [this]
    rw [colAcc_const F x [jn.1] r (F x r) hconst]
    have hinit : (if pd.cur = 0 then (0 : K) else F x r * pd.cur) = F x r * pd.cur := by
      by_cases h0 : pd.cur = 0
      · simp [h0]
      · simp [h0]
    rw [hinit]
    unfold PointData.coeffSum at hsum
    have : F x r * pd.cur + F x r * List.foldr (fun dc s => dc.2 + s) 0 (pd.deltas.zip pd.coeffs)
        = F x r * (pd.cur + List.foldr (fun dc s => dc.2 + s) 0 (pd.deltas.zip pd.coeffs)) := by
      ring
    rw [this, hsum, mul_zero]

/-- a single perturbed position: the machine's entry is the scalar difference quotient of the
row along that coordinate -/
def upd (x : Nat → K) (j : Nat) (t : K) : Nat → K := fun i => if i = j then t else x i

theorem iadd_single (x : Nat → K) (j : Nat) (d : K) : iadd x [j] d = upd x j (x j + d) := by
  funext i
  unfold iadd upd
  by_cases h : i = j
  · simp [h]
  · simp [h]

theorem upd_self (x : Nat → K) (j : Nat) : upd x j (x j) = x := by
  funext i
  unfold upd
  by_cases h : i = j
  · simp [h]
  · simp [h]

theorem colAcc_single (F : (Nat → K) → Nat → K) (x : Nat → K) (j r : Nat) (l : List (K × K))
    (acc : K) : colAcc F x [j] r l acc = fdAcc (fun t => F (upd x j t) r) (x j) l acc := by
  induction l generalizing acc with
  | nil => rfl
  | cons dc rest ih =>
    obtain ⟨d, c⟩ := dc
    simp only [colAcc, fdAcc, iadd_single, ih]

theorem uncoloredEntry_eq_fdCombine (F : (Nat → K) → Nat → K) (x : Nat → K) (pd : PointData K)
    (j r : Nat) :
    uncoloredEntry F x pd j r = fdCombine pd (fun t => F (upd x j t) r) (x j) := by
  unfold uncoloredEntry pointCol fdCombine
  rw [colAcc_single]
  congr 1
  by_cases h0 : pd.cur = 0
  · simp [h0]
  · simp [h0, upd_self]

/-- complex step, one color -/
theorem cs_colored_eq_uncolored {L : Type} [Field L] (F : (Nat → Dual L) → Nat → Dual L)
    (x : Nat → L) (h : L) (dep : Nat → List Nat) (nrows : Nat) (color : List (Nat × List Nat))
    (hdep : ∀ r, DependsOnlyOn F r (dep r)) (hreal : ∀ r, (F (dlift x) r).du = 0)
    (hc : certifyColor dep nrows color = true) :
    ∀ jn ∈ color, ∀ r, r < nrows →
      csColoredEntry F x h (color.map (·.1)) jn.2 r = csPointCol F x [jn.1] h r := by
  obtain ⟨ha, hb⟩ := certifyColor_spec dep nrows color hc
  intro jn hjn r hr
  unfold csColoredEntry csPointCol
  by_cases hin : r ∈ jn.2
  · simp only [hin, if_true]
    congr 2
    apply hdep r
    intro i hi
    unfold iadd
    by_cases hij : i = jn.1
    · have : i ∈ color.map (·.1) := by
        rw [hij]; exact List.mem_map.mpr ⟨jn, hjn, rfl⟩
      rw [if_pos this, if_pos (by rw [hij]; exact List.mem_singleton.mpr rfl)]
    · have hnot : i ∉ color.map (·.1) := by
        intro hmem
        obtain ⟨km, hkm, hk1⟩ := List.mem_map.mp hmem
        have hrk : r ∈ km.2 := ha km hkm r hr (by rw [hk1]; exact hi)
        rcases hb jn hjn km hkm with h1 | h1
        · exact hij (by rw [← hk1, ← h1])
        · exact h1 r hin hrk
      rw [if_neg hnot, if_neg (by intro h; exact hij (List.mem_singleton.mp h))]
  · simp only [hin, if_false]
    have hnd : jn.1 ∉ dep r := fun hd => hin (ha jn hjn r hr hd)
    have hconst : F (iadd (dlift x) [jn.1] ⟨0, h⟩) r = F (dlift x) r := by
      apply hdep r
      intro i hi
      unfold iadd
      have : i ≠ jn.1 := fun h => hnd (h ▸ hi)
      simp [this]
    rw [hconst, hreal r]; simp

end Columns

end OMV.C12
