/-
C11 — lemmas about `DenseMatrix`: the COO data kept when positions repeat, and the plain array
that is assigned and scaled when they do not.
-/
import OMV.Proofs.C11Acc

set_option linter.unusedSectionVars false

namespace OMV.C11

variable {K : Type} [CommSemiring K]

/-! ### triplet lists without repeated positions -/

theorem denseAt_nil (p : Pos) : denseAt ([] : List (Pos × K)) p = 0 := by simp [denseAt]

theorem denseAt_cons (t : Pos × K) (T : List (Pos × K)) (p : Pos) :
    denseAt (t :: T) p = (if t.1 = p then t.2 else 0) + denseAt T p := by
  simp [denseAt]

theorem denseAt_of_not_mem (T : List (Pos × K)) (p : Pos) (h : p ∉ T.map Prod.fst) :
    denseAt T p = 0 := by
  induction T with
  | nil => exact denseAt_nil p
  | cons t T ih =>
    rw [denseAt_cons]
    have h1 : ¬ t.1 = p := fun e => h (by simp [e])
    have h2 : p ∉ T.map Prod.fst := fun hm => h (by simp at hm ⊢; exact Or.inr hm)
    simp [h1, ih h2]

theorem denseAt_of_mem (T : List (Pos × K)) (hnd : (T.map Prod.fst).Nodup) (p : Pos) (v : K)
    (h : (p, v) ∈ T) : denseAt T p = v := by
  induction T with
  | nil => simp at h
  | cons t T ih =>
    rw [denseAt_cons]
    simp only [List.map_cons, List.nodup_cons] at hnd
    rcases List.mem_cons.mp h with rfl | h'
    · simp [denseAt_of_not_mem T p hnd.1]
    · have hne : ¬ t.1 = p := by
        intro e
        apply hnd.1
        rw [e]
        exact List.mem_map.mpr ⟨(p, v), h', rfl⟩
      simp [hne, ih hnd.2 h']

theorem assignPos_of_not_mem (T : List (Pos × K)) : ∀ (M : Pos → K) (p : Pos),
    p ∉ T.map Prod.fst → assignPos M T p = M p := by
  induction T with
  | nil => intro M p _; rfl
  | cons t T ih =>
    intro M p h
    have h1 : ¬ p = t.1 := fun e => h (by simp [e])
    have h2 : p ∉ T.map Prod.fst := fun hm => h (by simp at hm ⊢; exact Or.inr hm)
    simp only [assignPos]
    rw [ih _ p h2]
    simp [updP, h1]

theorem assignPos_of_mem (T : List (Pos × K)) : (T.map Prod.fst).Nodup → ∀ (M : Pos → K) (p : Pos)
    (v : K), (p, v) ∈ T → assignPos M T p = v := by
  induction T with
  | nil => intro _ M p v h; simp at h
  | cons t T ih =>
    intro hnd M p v h
    simp only [List.map_cons, List.nodup_cons] at hnd
    simp only [assignPos]
    rcases List.mem_cons.mp h with rfl | h'
    · rw [assignPos_of_not_mem T _ p hnd.1]
      simp [updP]
    · exact ih hnd.2 _ p v h'

theorem map_fst_zip_of_length {α β : Type} (l : List α) (m : List β) (h : l.length = m.length) :
    (l.zip m).map Prod.fst = l :=
  List.map_fst_zip (by omega)

theorem exists_mem_zip {α β : Type} (l : List α) (m : List β) (h : l.length = m.length)
    (a : α) (ha : a ∈ l) : ∃ b, (a, b) ∈ l.zip m := by
  obtain ⟨i, hi, rfl⟩ := List.mem_iff_getElem.mp ha
  refine ⟨m[i]'(by omega), ?_⟩
  apply List.mem_iff_getElem.mpr
  exact ⟨i, by simp; omega, by simp⟩

/-! ### the COO data of `DenseMatrix` when positions repeat -/

theorem foldl_set_zipIdx {α β : Type} (f : α → β) (L : List α) : ∀ (pre rest : List β),
    rest.length = L.length →
    (L.zipIdx pre.length).foldl (fun d x => d.set x.2 (f x.1)) (pre ++ rest) = pre ++ L.map f := by
  induction L with
  | nil => intro pre rest h; have : rest = [] := by cases rest <;> simp_all
           subst this; simp
  | cons x L ih =>
    intro pre rest h
    cases rest with
    | nil => simp at h
    | cons r rest =>
      simp only [List.zipIdx_cons, List.foldl_cons]
      have hset : (pre ++ r :: rest).set pre.length (f x) = (pre ++ [f x]) ++ rest := by
        rw [List.set_append_right _ _ (by omega)]
        simp
      rw [hset]
      have := ih (pre ++ [f x]) rest (by simpa using h)
      simp only [List.length_append, List.length_singleton] at this
      rw [this]
      simp

theorem cooStep_eq (subs : List (SubJ K)) (conv : K → K) (data : List (List K))
    (vals : List (List K)) (h1 : vals.length = subs.length) (h2 : data.length = subs.length) :
    cooStep subs conv data vals = (subs.zip vals).map (fun x => scaleData x.1.factor x.2) := by
  unfold cooStep cooUpdate
  have := foldl_set_zipIdx (fun x : SubJ K × List K => scaleData x.1.factor x.2) (subs.zip vals) []
    (data.map (fun l => l.map conv)) (by simp; omega)
  simpa using this

theorem scaleData_length (f : Option K) (vals : List K) : (scaleData f vals).length = vals.length := by
  cases f <;> simp [scaleData]

theorem zip_flatten_pieces (subs : List (SubJ K)) : ∀ (vals : List (List K)),
    vals.length = subs.length →
    (∀ x ∈ subs.zip vals, x.2.length = x.1.positions.length) →
    (cooPositions subs).zip ((subs.zip vals).map (fun x => scaleData x.1.factor x.2)).flatten =
      allTrips (subs.zip vals) := by
  induction subs with
  | nil => intro vals _ _; simp [cooPositions, allTrips]
  | cons s subs ih =>
    intro vals hl hv
    cases vals with
    | nil => simp at hl
    | cons v vals =>
      have hv0 := hv (s, v) (by simp)
      have hv' : ∀ x ∈ subs.zip vals, x.2.length = x.1.positions.length :=
        fun x hx => hv x (by simp [hx])
      rw [cooPositions_cons]
      simp only [List.zip_cons_cons, List.map_cons, List.flatten_cons, allTrips, List.flatMap_cons]
      rw [List.zip_append (by rw [scaleData_length]; exact hv0.symm)]
      have := ih vals (by simpa using hl) hv'
      unfold allTrips at this
      rw [this]
      rfl

/-- `DenseMatrix` with repeated positions: after any update the summed COO data is `Σ factor·coo`. -/
theorem coo_dense (subs : List (SubJ K)) (conv : K → K) (data : List (List K))
    (vals : List (List K)) (h1 : vals.length = subs.length) (h2 : data.length = subs.length)
    (hv : ∀ x ∈ subs.zip vals, x.2.length = x.1.positions.length) (p : Pos) :
    cooDense subs (cooStep subs conv data vals) p = denseAt (allTrips (subs.zip vals)) p := by
  unfold cooDense
  rw [cooStep_eq subs conv data vals h1 h2, zip_flatten_pieces subs vals h1 hv]

/-! ### the plain dense array -/

/-- Well-formedness of one sub-jacobian with its values: distinct positions, one value per stored
entry, and every position inside the view `matrix[row_slice, col_slice]`. -/
def SubOk (s : SubJ K) (vals : List K) : Prop :=
  s.positions.Nodup ∧ vals.length = s.positions.length ∧ ∀ p ∈ s.positions, inView s p = true

theorem trips_map_fst (s : SubJ K) (vals : List K) (h : vals.length = s.positions.length) :
    (s.trips vals).map Prod.fst = s.positions := by
  unfold SubJ.trips
  exact map_fst_zip_of_length _ _ (by rw [scaleData_length]; exact h.symm)

theorem mem_trips_of_mem_zip (s : SubJ K) (vals : List K) (p : Pos) (v : K)
    (h : (p, v) ∈ s.positions.zip vals) :
    (p, match s.factor with | none => v | some f => v * f) ∈ s.trips vals := by
  unfold SubJ.trips scaleData
  cases s.factor with
  | none => simpa using h
  | some f =>
    simp only
    rw [List.zip_map_right]
    exact List.mem_map.mpr ⟨(p, v), h, rfl⟩

/-- A written cell ends with its own triplet value (both scaling variants). -/
theorem denseUpdate_of_mem (whole : Bool) (M : Pos → K) (s : SubJ K) (vals : List K)
    (hok : SubOk s vals) (p : Pos) (hp : p ∈ s.positions) :
    denseUpdate whole M s vals p = denseAt (s.trips vals) p := by
  obtain ⟨hnd, hlen, hview⟩ := hok
  obtain ⟨v, hv⟩ := exists_mem_zip s.positions vals hlen.symm p hp
  have hfst : ((s.positions.zip vals).map Prod.fst).Nodup := by
    rw [map_fst_zip_of_length _ _ hlen.symm]; exact hnd
  have hM1 : assignPos M (s.positions.zip vals) p = v := assignPos_of_mem _ hfst M p v hv
  have hT := denseAt_of_mem (s.trips vals) (by rw [trips_map_fst s vals hlen]; exact hnd) p _
    (mem_trips_of_mem_zip s vals p v hv)
  rw [hT]
  unfold denseUpdate
  cases hf : s.factor with
  | none => simp [hM1]
  | some f =>
    simp only
    by_cases hw : (s.pat.isDense && whole) = true
    · simp [hw, hview p hp, hM1]
    · simp [hw, hp, hM1]

/-- A cell the sub-jacobian does not write keeps its value, unless it lies in the scaled view. -/
theorem denseUpdate_of_not_mem (whole : Bool) (M : Pos → K) (s : SubJ K) (vals : List K)
    (hlen : vals.length = s.positions.length) (p : Pos) (hp : p ∉ s.positions) :
    denseUpdate whole M s vals p = M p ∨
      (whole = true ∧ inView s p = true ∧ ∃ f, denseUpdate whole M s vals p = M p * f) := by
  have hM1 : assignPos M (s.positions.zip vals) p = M p :=
    assignPos_of_not_mem _ M p (by rw [map_fst_zip_of_length _ _ hlen.symm]; exact hp)
  unfold denseUpdate
  cases hf : s.factor with
  | none => left; simp [hM1]
  | some f =>
    simp only
    by_cases hw : (s.pat.isDense && whole) = true
    · by_cases hv : inView s p = true
      · right
        have hwt : whole = true := by
          cases whole
          · simp at hw
          · rfl
        exact ⟨hwt, hv, f, by simp [hw, hv, hM1]⟩
      · left; simp [hw, hv, hM1]
    · left; simp [hw, hp, hM1]

/-- The fold of `_update_from_submat` over the sub-jacobians `L`, relative to the set `covered` of
all positions of the matrix. -/
theorem dense_fold (whole : Bool) (covered : Pos → Prop) (L : List (SubJ K × List K)) :
    (L.flatMap (fun x => x.1.positions)).Nodup →
    (∀ x ∈ L, SubOk x.1 x.2) →
    (∀ x ∈ L, ∀ p ∈ x.1.positions, covered p) →
    (whole = true → ∀ x ∈ L, ∀ p, inView x.1 p = true → p ∈ x.1.positions ∨ ¬ covered p) →
    ∀ (M : Pos → K) (p : Pos),
      (p ∈ L.flatMap (fun x => x.1.positions) →
        L.foldl (fun M x => denseUpdate whole M x.1 x.2) M p = denseAt (allTrips L) p) ∧
      (p ∉ L.flatMap (fun x => x.1.positions) → covered p →
        L.foldl (fun M x => denseUpdate whole M x.1 x.2) M p = M p) ∧
      (¬ covered p → M p = 0 → L.foldl (fun M x => denseUpdate whole M x.1 x.2) M p = 0) := by
  induction L with
  | nil =>
    intro _ _ _ _ M p
    exact ⟨fun h => by simp at h, fun _ _ => rfl, fun _ h => h⟩
  | cons x L ih =>
    intro hnd hok hcov hview M p
    simp only [List.flatMap_cons] at hnd
    have hnd' := List.nodup_append.mp hnd
    have hokx := hok x (by simp)
    have ih' := ih hnd'.2.1 (fun y hy => hok y (by simp [hy])) (fun y hy => hcov y (by simp [hy]))
      (fun hw y hy => hview hw y (by simp [hy])) (denseUpdate whole M x.1 x.2) p
    simp only [List.foldl_cons, List.flatMap_cons, List.mem_append]
    have htrips : allTrips (x :: L) = x.1.trips x.2 ++ allTrips L := by simp [allTrips]
    refine ⟨?_, ?_, ?_⟩
    · intro hp
      rw [htrips, denseAt_append]
      by_cases hx : p ∈ x.1.positions
      · have hL : p ∉ L.flatMap (fun x => x.1.positions) := fun h => hnd'.2.2 p hx p h rfl
        rw [ih'.2.1 hL (hcov x (by simp) p hx), denseUpdate_of_mem whole M x.1 x.2 hokx p hx]
        have : denseAt (allTrips L) p = 0 := by
          apply denseAt_of_not_mem
          intro hm
          apply hL
          unfold allTrips at hm
          rw [List.map_flatMap] at hm
          obtain ⟨y, hy, hpy⟩ := List.mem_flatMap.mp hm
          exact List.mem_flatMap.mpr ⟨y, hy, by
            have hoky := hok y (by simp [hy])
            rw [trips_map_fst y.1 y.2 hoky.2.1] at hpy; exact hpy⟩
        rw [this]; simp
      · have hL : p ∈ L.flatMap (fun x => x.1.positions) := by
          rcases hp with h | h
          · exact absurd h hx
          · exact h
        rw [ih'.1 hL]
        have : denseAt (x.1.trips x.2) p = 0 := by
          apply denseAt_of_not_mem
          rw [trips_map_fst x.1 x.2 hokx.2.1]; exact hx
        rw [this]; simp
    · intro hp hc
      have hx : p ∉ x.1.positions := fun h => hp (Or.inl h)
      have hL : p ∉ L.flatMap (fun x => x.1.positions) := fun h => hp (Or.inr h)
      rw [ih'.2.1 hL hc]
      rcases denseUpdate_of_not_mem whole M x.1 x.2 hokx.2.1 p hx with h | ⟨hw, hv, _⟩
      · exact h
      · rcases hview hw x (by simp) p hv with h | h
        · exact absurd h hx
        · exact absurd hc h
    · intro hc hz
      apply ih'.2.2 hc
      have hx : p ∉ x.1.positions := fun h => hc (hcov x (by simp) p h)
      rcases denseUpdate_of_not_mem whole M x.1 x.2 hokx.2.1 p hx with h | ⟨_, _, f, h⟩
      · rw [h, hz]
      · rw [h, hz]; simp

theorem flatMap_zip_positions (subs : List (SubJ K)) (vals : List (List K))
    (h : vals.length = subs.length) :
    (subs.zip vals).flatMap (fun x => x.1.positions) = cooPositions subs := by
  have : (subs.zip vals).flatMap (fun x => x.1.positions) =
      ((subs.zip vals).map Prod.fst).flatMap SubJ.positions := by
    rw [List.flatMap_map]
  rw [this, List.map_fst_zip (by omega)]
  rfl

theorem allTrips_map_fst (L : List (SubJ K × List K))
    (h : ∀ x ∈ L, x.2.length = x.1.positions.length) :
    (allTrips L).map Prod.fst = L.flatMap (fun x => x.1.positions) := by
  induction L with
  | nil => simp [allTrips]
  | cons x L ih =>
    have : allTrips (x :: L) = x.1.trips x.2 ++ allTrips L := by simp [allTrips]
    rw [this, List.map_append, trips_map_fst x.1 x.2 (h x (by simp)),
      ih (fun y hy => h y (by simp [hy]))]
    simp

/-- One whole update of the plain dense array: if the incoming array vanishes outside the
positions of the matrix, the conversion keeps zero, positions do not repeat and (when the whole
view is scaled) every view contains only its own cells or cells no sub-jacobian writes, the result
is `Σ factor·coo` everywhere. -/
theorem dense_step_eq (whole : Bool) (subs : List (SubJ K)) (conv : K → K) (M : Pos → K)
    (vals : List (List K)) (hM : ∀ p, p ∉ cooPositions subs → M p = 0) (hc : conv 0 = 0)
    (hl : vals.length = subs.length) (hok : ∀ x ∈ subs.zip vals, SubOk x.1 x.2)
    (hnd : (cooPositions subs).Nodup)
    (hview : whole = true → ∀ s ∈ subs, ∀ p, inView s p = true →
      p ∈ s.positions ∨ p ∉ cooPositions subs) (p : Pos) :
    denseStep whole subs conv M vals p = denseAt (allTrips (subs.zip vals)) p := by
  unfold denseStep
  have hpos := flatMap_zip_positions subs vals hl
  have hf := dense_fold whole (fun q => q ∈ cooPositions subs) (subs.zip vals)
    (by rw [hpos]; exact hnd) hok
    (fun x hx q hq => by
      rw [← hpos]
      exact List.mem_flatMap.mpr ⟨x, hx, hq⟩)
    (fun hw x hx q hq => hview hw x.1 (List.of_mem_zip hx).1 q hq)
    (fun q => conv (M q)) p
  rw [hpos] at hf
  by_cases hp : p ∈ cooPositions subs
  · exact hf.1 hp
  · rw [hf.2.2 hp (by rw [hM p hp, hc])]
    symm
    apply denseAt_of_not_mem
    rw [allTrips_map_fst _ (fun x hx => (hok x hx).2.1), hpos]
    exact hp

end OMV.C11
