/-
C18 helper lemmas: whole and partial transactions, the committed-state invariant, the parser of the
statement stream. Core Lean only.
-/
import OMV.Model.C18
set_option linter.unusedSimpArgs false
namespace OMV.C18


theorem mapOpt_append {α β : Type} (f : α → Option β) (l1 l2 : List α) (y1 y2 : List β)
    (h1 : mapOpt f l1 = some y1) (h2 : mapOpt f l2 = some y2) :
    mapOpt f (l1 ++ l2) = some (y1 ++ y2) := by
  induction l1 generalizing y1 with
  | nil => simp [mapOpt] at h1; subst h1; simpa using h2
  | cons a as ih =>
    simp only [mapOpt] at h1
    cases hfa : f a with
    | none => simp [hfa] at h1
    | some b =>
      cases hm : mapOpt f as with
      | none => simp [hfa, hm] at h1
      | some bs =>
        simp [hfa, hm] at h1; subst h1
        simp [mapOpt, hfa, ih bs hm]

theorem mapOpt_congr {α β : Type} (f g : α → Option β) (l : List α) (ys : List β)
    (h : mapOpt f l = some ys) (hfg : ∀ a ∈ l, ∀ b, f a = some b → g a = some b) :
    mapOpt g l = some ys := by
  induction l generalizing ys with
  | nil => simpa [mapOpt] using h
  | cons a as ih =>
    simp only [mapOpt] at h
    cases hfa : f a with
    | none => simp [hfa] at h
    | some b =>
      cases hm : mapOpt f as with
      | none => simp [hfa, hm] at h
      | some bs =>
        simp [hfa, hm] at h; subst h
        have h1 := hfg a List.mem_cons_self b hfa
        have h2 := ih bs hm (fun x hx => hfg x (List.mem_cons_of_mem _ hx))
        simp [mapOpt, h1, h2]

/-- Effect of a complete transaction on the committed database. -/
def effect (t : Txn) (db : Db) : Db :=
  match t with
  | .case k n r => { db with cases := db.cases ++ [(k, n)], global := db.global ++ [(k, r)] }
  | .aux _ true => { db with aux := db.aux + 1 }
  | .aux _ false => db
  | .updMeta => { db with metaRow := db.metaRow.map (fun _ => true) }

def caseOf : Txn → List (Kind × Nat)
  | .case k n _ => [(k, n)]
  | _ => []

theorem run_whole (t : Txn) (db : Db) :
    runFrom { db := db, txn := none } t.stmts = { db := effect t db, txn := none } := by
  cases t with
  | case k n r => simp [Txn.stmts, runFrom, step, Db.apply, effect]
  | aux t c => cases c <;> simp [Txn.stmts, runFrom, step, Db.apply, effect]
  | updMeta => simp [Txn.stmts, runFrom, step, Db.apply, effect]

theorem run_partial (t : Txn) (db : Db) (j : Nat) (hj : j < t.stmts.length) :
    (runFrom { db := db, txn := none } (t.stmts.take j)).db = db := by
  cases t with
  | case k n r =>
    simp only [Txn.stmts, List.length_cons, List.length_nil] at hj
    rcases j with _ | _ | _ | _ | j
    · simp [Txn.stmts, runFrom]
    · simp [Txn.stmts, runFrom, step]
    · simp [Txn.stmts, runFrom, step]
    · simp [Txn.stmts, runFrom, step]
    · omega
  | aux t c =>
    cases c <;>
    · simp only [Txn.stmts, List.length_cons, List.length_nil] at hj
      rcases j with _ | _ | _ | j
      · simp [Txn.stmts, runFrom]
      · simp [Txn.stmts, runFrom, step]
      · simp [Txn.stmts, runFrom, step]
      · omega
  | updMeta =>
    simp only [Txn.stmts, List.length_cons, List.length_nil] at hj
    rcases j with _ | _ | _ | j
    · simp [Txn.stmts, runFrom]
    · simp [Txn.stmts, runFrom, step]
    · simp [Txn.stmts, runFrom, step]
    · omega

/-- Committed state is readable and its `global_iterations` rows resolve to exactly the case rows. -/
def Inv (db : Db) : Prop := db.openable = true ∧ mapOpt db.lookup db.global = some db.cases

theorem lookup_append_of_some (db : Db) (c : Kind × Nat) (g x : Kind × Nat) (gl : List (Kind × Nat))
    (h : db.lookup g = some x) :
    Db.lookup { db with cases := db.cases ++ [c], global := gl } g = some x := by
  unfold Db.lookup at h ⊢
  by_cases h0 : g.2 = 0
  · simp [h0] at h
  · simp only [h0, if_false] at h ⊢
    rw [List.filter_append]
    have hlt : g.2 - 1 < (db.cases.filter (fun c => c.1 = g.1)).length :=
      (List.getElem?_eq_some_iff.mp h).1
    rw [List.getElem?_append_left hlt]; exact h

theorem inv_effect (t : Txn) (db : Db) (h : Inv db)
    (hr : ∀ k n r, t = .case k n r → r = count k db.cases + 1) :
    Inv (effect t db) ∧ (effect t db).cases = db.cases ++ caseOf t := by
  obtain ⟨h1, h2⟩ := h
  cases t with
  | case k n r =>
    have hr' := hr k n r rfl
    refine ⟨⟨by simpa [effect, Db.openable] using h1, ?_⟩, by simp [effect, caseOf]⟩
    simp only [effect]
    apply mapOpt_append
    · exact mapOpt_congr _ _ _ _ h2 (fun g _ b hb => lookup_append_of_some db (k, n) g b _ hb)
    · simp only [mapOpt]
      have : Db.lookup { db with cases := db.cases ++ [(k, n)], global := db.global ++ [(k, r)] } (k, r)
          = some (k, n) := by
        unfold Db.lookup
        simp only [hr', Nat.succ_ne_zero, if_false, Nat.add_sub_cancel]
        rw [List.filter_append]
        unfold count
        simp
      rw [this]
  | aux t c =>
    cases c
    · exact ⟨⟨h1, h2⟩, by simp [effect, caseOf]⟩
    · refine ⟨⟨by simpa [effect, Db.openable] using h1, ?_⟩, by simp [effect, caseOf]⟩
      exact h2
  | updMeta =>
    refine ⟨⟨?_, ?_⟩, by simp [effect, caseOf]⟩
    · unfold Db.openable at h1 ⊢
      rw [Bool.and_eq_true] at h1 ⊢
      refine ⟨h1.1, ?_⟩
      have := beq_iff_eq.mp h1.2
      simp [effect, this]
    · exact h2

theorem caseList_cons (t : Txn) (ts : List Txn) : caseList (t :: ts) = caseOf t ++ caseList ts := by
  cases t <;> simp [caseList, caseOf]

theorem rowidsOk_cons (cases : List (Kind × Nat)) (t : Txn) (ts : List Txn)
    (h : rowidsOk cases (t :: ts) = true) :
    (∀ k n r, t = .case k n r → r = count k cases + 1) ∧ rowidsOk (cases ++ caseOf t) ts = true := by
  cases t with
  | case k n r =>
    simp only [rowidsOk, Bool.and_eq_true, decide_eq_true_eq] at h
    refine ⟨?_, by simpa [caseOf] using h.2⟩
    intro k' n' r' e; cases e; exact h.1
  | aux t c =>
    simp only [rowidsOk] at h
    exact ⟨(by intro _ _ _ e; cases e), (by simpa [caseOf] using h)⟩
  | updMeta =>
    simp only [rowidsOk] at h
    exact ⟨(by intro _ _ _ e; cases e), (by simpa [caseOf] using h)⟩

theorem main (txns : List Txn) : ∀ (db : Db), Inv db → rowidsOk db.cases txns = true → ∀ j,
    Inv (runFrom { db := db, txn := none } ((flatten txns).take j)).db ∧
    (runFrom { db := db, txn := none } ((flatten txns).take j)).db.cases =
      db.cases ++ (caseList txns).take (completeCases txns j) := by
  induction txns with
  | nil => intro db h _ j; simp [flatten, runFrom, caseList, h]
  | cons t ts ih =>
    intro db h hok j
    obtain ⟨hr, hok'⟩ := rowidsOk_cons _ _ _ hok
    by_cases hj : j < t.stmts.length
    · have e1 : (flatten (t :: ts)).take j = t.stmts.take j := by
        simp only [flatten]
        rw [List.take_append_of_le_length (by omega)]
      have e2 := run_partial t db j hj
      rw [e1, e2]
      simp [completeCases, hj, h]
    · have e1 : (flatten (t :: ts)).take j = t.stmts ++ (flatten ts).take (j - t.stmts.length) := by
        simp only [flatten]
        rw [List.take_append]
        have : t.stmts.take j = t.stmts := List.take_of_length_le (by omega)
        rw [this]
      obtain ⟨hinv, hcases⟩ := inv_effect t db h hr
      rw [e1]
      unfold runFrom
      rw [List.foldl_append]
      have := run_whole t db
      unfold runFrom at this
      rw [this]
      have hih := ih (effect t db) hinv (by rw [hcases]; exact hok') (j - t.stmts.length)
      unfold runFrom at hih
      refine ⟨hih.1, ?_⟩
      rw [hih.2, hcases, caseList_cons]
      simp only [completeCases, hj, if_false]
      cases t with
      | case k n r =>
        simp only [caseOf, List.append_assoc, List.singleton_append, List.cons_append, List.nil_append]
        rw [Nat.add_comm 1, List.take_succ_cons]
      | aux t c => simp [caseOf]
      | updMeta => simp [caseOf]



theorem parse_sound (s : List Stmt) : ∀ ts, parse s = some ts → s = flatten ts := by
  fun_induction parse s with
  | case1 => intro ts h; simp at h; subst h; rfl
  | case2 k n r rest ih =>
    intro ts h
    simp only [Option.map_eq_some_iff] at h
    obtain ⟨ts', h1, rfl⟩ := h
    simp [flatten, Txn.stmts, ih ts' h1]
  | case3 k n k' r rest hk =>
    intro ts h; simp at h
  | case4 t rest ih =>
    intro ts h
    simp only [Option.map_eq_some_iff] at h
    obtain ⟨ts', h1, rfl⟩ := h
    simp [flatten, Txn.stmts, ih ts' h1]
  | case5 t rest ih =>
    intro ts h
    simp only [Option.map_eq_some_iff] at h
    obtain ⟨ts', h1, rfl⟩ := h
    simp [flatten, Txn.stmts, ih ts' h1]
  | case6 rest ih =>
    intro ts h
    simp only [Option.map_eq_some_iff] at h
    obtain ⟨ts', h1, rfl⟩ := h
    simp [flatten, Txn.stmts, ih ts' h1]
  | case7 => intro ts h; simp at h


/-- The committed database when start-up has finished. -/
def startDb : Db :=
  { tables := [.global, .driverIt, .driverDeriv, .problemCases, .systemIt, .solverIt, .metadata,
               .driverMeta, .systemMeta, .solverMeta],
    metaRow := some true }

theorem run_startup : run startup = { db := startDb, txn := none } := by decide

theorem inv_startDb : Inv startDb := ⟨by decide, rfl⟩

theorem accept_sound (s : List Stmt) (txns : List Txn) (h : accept s = some txns) :
    s = startup ++ flatten txns ∧ rowidsOk [] txns = true := by
  unfold accept at h
  by_cases hp : startup.isPrefixOf s = true
  · simp only [hp, if_true] at h
    cases hparse : parse (s.drop startup.length) with
    | none => simp [hparse] at h
    | some ts =>
      simp only [hparse] at h
      by_cases hok : rowidsOk [] ts = true
      · simp only [hok, if_true, Option.some.injEq] at h
        subst h
        refine ⟨?_, hok⟩
        obtain ⟨t, ht⟩ := List.isPrefixOf_iff_prefix.mp hp
        have hd : s.drop startup.length = t := by rw [← ht]; simp
        rw [hd] at hparse
        rw [← ht, parse_sound t ts hparse]
      · simp [hok] at h
  · simp [hp] at h

theorem crash_after_startup (txns : List Txn) (k : Nat) (hk : startup.length ≤ k) :
    crash k (startup ++ flatten txns) =
      (runFrom { db := startDb, txn := none } ((flatten txns).take (k - startup.length))).db := by
  unfold crash run
  rw [List.take_append]
  have : startup.take k = startup := List.take_of_length_le hk
  rw [this]
  unfold runFrom
  rw [List.foldl_append]
  have := run_startup
  unfold run runFrom at this
  rw [this]

theorem completeCases_all (txns : List Txn) :
    completeCases txns (flatten txns).length = (caseList txns).length := by
  induction txns with
  | nil => rfl
  | cons t ts ih =>
    simp only [flatten, List.length_append, completeCases]
    have h : ¬ (t.stmts.length + (flatten ts).length < t.stmts.length) := by omega
    simp only [h, if_false, Nat.add_sub_cancel_left, ih]
    cases t <;> simp [caseList] <;> omega

theorem completeCases_le (txns : List Txn) : ∀ j, completeCases txns j ≤ (caseList txns).length := by
  induction txns with
  | nil => intro j; simp [completeCases]
  | cons t ts ih =>
    intro j
    simp only [completeCases]
    by_cases h : j < t.stmts.length
    · simp [h]
    · simp only [h, if_false]
      have := ih (j - t.stmts.length)
      cases t <;> simp [caseList] <;> omega

theorem completeCases_mono (txns : List Txn) : ∀ j j', j ≤ j' →
    completeCases txns j ≤ completeCases txns j' := by
  induction txns with
  | nil => intro j j' _; simp [completeCases]
  | cons t ts ih =>
    intro j j' hjj
    simp only [completeCases]
    by_cases h : j < t.stmts.length
    · simp [h]
    · have h' : ¬ j' < t.stmts.length := by omega
      simp only [h, h', if_false]
      have := ih (j - t.stmts.length) (j' - t.stmts.length) (by omega)
      omega

end OMV.C18
