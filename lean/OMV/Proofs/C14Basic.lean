/-
C14 — structural lemmas that need no algebraic laws (core Lean only):
dual-number evaluation = (value, tangent by the rules); broadcasting index algebra; locality of
elementwise expressions.
-/
import OMV.Model.C14

set_option linter.unusedSimpArgs false

namespace OMV.C14

variable {K : Type}

theorem sumN_dual (A : Alg K) (D : Deriv K) (f g : Nat → K) (n : Nat) :
    sumN (dualAlg A D) (fun j => (⟨f j, g j⟩ : Dual K)) n = ⟨sumN A f n, sumN A g n⟩ := by
  induction n with
  | zero => rfl
  | succ n ih => simp only [sumN, ih] <;> rfl

theorem sumN_congr {C : Type} (A : Alg C) (f g : Nat → C) (n : Nat) (h : ∀ j, j < n → f j = g j) :
    sumN A f n = sumN A g n := by
  induction n with
  | zero => rfl
  | succ n ih =>
    simp only [sumN]
    rw [ih (fun j hj => h j (Nat.lt_succ_of_lt hj)), h n (Nat.lt_succ_self n)]

/-- Evaluating an expression over dual numbers yields the value and, as dual part, the derivative
computed by the differentiation rules — for every expression, carrier and primitive table. -/
theorem evalAt_dual (A : Alg K) (D : Deriv K) (sh : Nat → Shape) (x d : Nat → Nat → K)
    (e : Expr) : ∀ i, evalAt (dualAlg A D) sh (pairUp x d) e i
      = ⟨evalAt A sh x e i, tangentAt A D sh x d e i⟩ := by
  induction e with
  | lit q => intro i; rfl
  | var v => intro i; rfl
  | neg a iha => intro i; simp only [evalAt, tangentAt, iha] <;> rfl
  | add a b iha ihb => intro i; simp only [evalAt, tangentAt, iha, ihb] <;> rfl
  | sub a b iha ihb => intro i; simp only [evalAt, tangentAt, iha, ihb] <;> rfl
  | mul a b iha ihb => intro i; simp only [evalAt, tangentAt, iha, ihb] <;> rfl
  | div a b iha ihb => intro i; simp only [evalAt, tangentAt, iha, ihb] <;> rfl
  | powi a n iha => intro i; simp only [evalAt, tangentAt, iha] <;> rfl
  | prim f a iha => intro i; simp only [evalAt, tangentAt, iha] <;> rfl
  | prim2 f a b iha ihb => intro i; simp only [evalAt, tangentAt, iha, ihb] <;> rfl
  | sum a iha =>
    intro i
    simp only [evalAt, tangentAt]
    rw [show (fun j => evalAt (dualAlg A D) sh (pairUp x d) a j)
        = (fun j => (⟨evalAt A sh x a j, tangentAt A D sh x d a j⟩ : Dual K)) from
        funext iha]
    exact sumN_dual A D _ _ _
  | dot a b iha ihb =>
    intro i
    simp only [evalAt, tangentAt]
    rw [show (fun j => (dualAlg A D).mul (evalAt (dualAlg A D) sh (pairUp x d) a j)
          (evalAt (dualAlg A D) sh (pairUp x d) b j))
        = (fun j => (⟨A.mul (evalAt A sh x a j) (evalAt A sh x b j),
            A.add (A.mul (tangentAt A D sh x d a j) (evalAt A sh x b j))
                  (A.mul (evalAt A sh x a j) (tangentAt A D sh x d b j))⟩ : Dual K)) from
        funext (fun j => by rw [iha j, ihb j]; rfl)]
    exact sumN_dual A D _ _ _
  | idx a k iha => intro i; simp only [evalAt, tangentAt, iha]
  | rev a iha => intro i; simp only [evalAt, tangentAt, iha]

/-! ### Broadcasting index algebra -/

theorem bcast_not_broad_left (s t : Shape) (h : s.broad = false) : (s.bcast t).broad = false := by
  cases s with
  | sc => simp [Shape.broad] at h
  | arr n =>
    cases t with
    | sc => simpa [Shape.bcast] using h
    | arr m =>
      have hn : (n == 1) = false := by simpa [Shape.broad] using h
      simp [Shape.bcast, hn, Shape.broad]

theorem bcast_not_broad_right (s t : Shape) (h : t.broad = false) : (s.bcast t).broad = false := by
  cases t with
  | sc => simp [Shape.broad] at h
  | arr m =>
    cases s with
    | sc => simpa [Shape.bcast] using h
    | arr n =>
      by_cases hn : (n == 1) = true
      · simp [Shape.bcast, hn]; exact h
      · have hn' : (n == 1) = false := by simpa using hn
        simp [Shape.bcast, hn', Shape.broad]

theorem bidx_bcast_left (s t : Shape) (i : Nat) : bidx s (bidx (s.bcast t) i) = bidx s i := by
  cases hs : s.broad with
  | true => simp [bidx, hs]
  | false => simp [bidx, hs, bcast_not_broad_left s t hs]

theorem bidx_bcast_right (s t : Shape) (i : Nat) : bidx t (bidx (s.bcast t) i) = bidx t i := by
  cases ht : t.broad with
  | true => simp [bidx, ht]
  | false => simp [bidx, ht, bcast_not_broad_right s t ht]

theorem bidx_idem (s : Shape) (i : Nat) : bidx s (bidx s i) = bidx s i := by
  cases hs : s.broad <;> simp [bidx, hs]

/-! ### Locality of elementwise expressions

Entry `i` of an elementwise expression reads entry `i` (or entry 0 of a broadcast operand) of its
inputs and nothing else; the same holds for its tangent. -/

theorem evalAt_local {C : Type} (A : Alg C) (sh : Nat → Shape) (x x' : Nat → Nat → C) (i : Nat)
    (h : ∀ w, x w (bidx (sh w) i) = x' w (bidx (sh w) i)) (e : Expr) (he : e.elementwise = true) :
    evalAt A sh x e (bidx (shapeOf sh e) i) = evalAt A sh x' e (bidx (shapeOf sh e) i) := by
  induction e with
  | lit q => rfl
  | var v => exact h v
  | neg a iha => simp only [evalAt, shapeOf]; rw [iha he]
  | add a b iha ihb =>
    simp only [Expr.elementwise, Bool.and_eq_true] at he
    simp only [evalAt, shapeOf, bidx_bcast_left, bidx_bcast_right]; rw [iha he.1, ihb he.2]
  | sub a b iha ihb =>
    simp only [Expr.elementwise, Bool.and_eq_true] at he
    simp only [evalAt, shapeOf, bidx_bcast_left, bidx_bcast_right]; rw [iha he.1, ihb he.2]
  | mul a b iha ihb =>
    simp only [Expr.elementwise, Bool.and_eq_true] at he
    simp only [evalAt, shapeOf, bidx_bcast_left, bidx_bcast_right]; rw [iha he.1, ihb he.2]
  | div a b iha ihb =>
    simp only [Expr.elementwise, Bool.and_eq_true] at he
    simp only [evalAt, shapeOf, bidx_bcast_left, bidx_bcast_right]; rw [iha he.1, ihb he.2]
  | powi a n iha => simp only [evalAt, shapeOf]; rw [iha he]
  | prim f a iha => simp only [evalAt, shapeOf]; rw [iha he]
  | prim2 f a b iha ihb =>
    simp only [Expr.elementwise, Bool.and_eq_true] at he
    simp only [evalAt, shapeOf, bidx_bcast_left, bidx_bcast_right]; rw [iha he.1, ihb he.2]
  | sum a _ => simp [Expr.elementwise] at he
  | dot a b _ _ => simp [Expr.elementwise] at he
  | idx a k _ => simp [Expr.elementwise] at he
  | rev a _ => simp [Expr.elementwise] at he

theorem tangentAt_local (A : Alg K) (D : Deriv K) (sh : Nat → Shape) (x d d' : Nat → Nat → K)
    (i : Nat) (h : ∀ w, d w (bidx (sh w) i) = d' w (bidx (sh w) i)) (e : Expr)
    (he : e.elementwise = true) :
    tangentAt A D sh x d e (bidx (shapeOf sh e) i)
      = tangentAt A D sh x d' e (bidx (shapeOf sh e) i) := by
  induction e with
  | lit q => rfl
  | var v => exact h v
  | neg a iha => simp only [tangentAt, shapeOf]; rw [iha he]
  | add a b iha ihb =>
    simp only [Expr.elementwise, Bool.and_eq_true] at he
    simp only [tangentAt, shapeOf, bidx_bcast_left, bidx_bcast_right]; rw [iha he.1, ihb he.2]
  | sub a b iha ihb =>
    simp only [Expr.elementwise, Bool.and_eq_true] at he
    simp only [tangentAt, shapeOf, bidx_bcast_left, bidx_bcast_right]; rw [iha he.1, ihb he.2]
  | mul a b iha ihb =>
    simp only [Expr.elementwise, Bool.and_eq_true] at he
    simp only [tangentAt, shapeOf, bidx_bcast_left, bidx_bcast_right]; rw [iha he.1, ihb he.2]
  | div a b iha ihb =>
    simp only [Expr.elementwise, Bool.and_eq_true] at he
    simp only [tangentAt, shapeOf, bidx_bcast_left, bidx_bcast_right]; rw [iha he.1, ihb he.2]
  | powi a n iha => simp only [tangentAt, shapeOf]; rw [iha he]
  | prim f a iha => simp only [tangentAt, shapeOf]; rw [iha he]
  | prim2 f a b iha ihb =>
    simp only [Expr.elementwise, Bool.and_eq_true] at he
    simp only [tangentAt, shapeOf, bidx_bcast_left, bidx_bcast_right]; rw [iha he.1, ihb he.2]
  | sum a _ => simp [Expr.elementwise] at he
  | dot a b _ _ => simp [Expr.elementwise] at he
  | idx a k _ => simp [Expr.elementwise] at he
  | rev a _ => simp [Expr.elementwise] at he

/-- An input that does not occur in the expression does not influence its value. -/
theorem evalAt_indep {C : Type} (A : Alg C) (sh : Nat → Shape) (x x' : Nat → Nat → C) (e : Expr)
    (h : ∀ w, w ∈ e.vars → x w = x' w) : ∀ i, evalAt A sh x e i = evalAt A sh x' e i := by
  induction e with
  | lit q => intro i; rfl
  | var v => intro i; simp only [evalAt]; rw [h v (by simp [Expr.vars])]
  | neg a iha => intro i; simp only [evalAt]; rw [iha h]
  | add a b iha ihb =>
    intro i; simp only [evalAt]
    rw [iha (fun w hw => h w (by simp [Expr.vars, hw])),
        ihb (fun w hw => h w (by simp [Expr.vars, hw]))]
  | sub a b iha ihb =>
    intro i; simp only [evalAt]
    rw [iha (fun w hw => h w (by simp [Expr.vars, hw])),
        ihb (fun w hw => h w (by simp [Expr.vars, hw]))]
  | mul a b iha ihb =>
    intro i; simp only [evalAt]
    rw [iha (fun w hw => h w (by simp [Expr.vars, hw])),
        ihb (fun w hw => h w (by simp [Expr.vars, hw]))]
  | div a b iha ihb =>
    intro i; simp only [evalAt]
    rw [iha (fun w hw => h w (by simp [Expr.vars, hw])),
        ihb (fun w hw => h w (by simp [Expr.vars, hw]))]
  | powi a n iha => intro i; simp only [evalAt]; rw [iha h]
  | prim f a iha => intro i; simp only [evalAt]; rw [iha h]
  | prim2 f a b iha ihb =>
    intro i; simp only [evalAt]
    rw [iha (fun w hw => h w (by simp [Expr.vars, hw])),
        ihb (fun w hw => h w (by simp [Expr.vars, hw]))]
  | sum a iha =>
    intro i; simp only [evalAt]
    exact sumN_congr A _ _ _ (fun j _ => iha h j)
  | dot a b iha ihb =>
    intro i; simp only [evalAt]
    refine sumN_congr A _ _ _ (fun j _ => ?_)
    rw [iha (fun w hw => h w (by simp [Expr.vars, hw])),
        ihb (fun w hw => h w (by simp [Expr.vars, hw]))]
  | idx a k iha => intro i; simp only [evalAt]; rw [iha h]
  | rev a iha => intro i; simp only [evalAt]; rw [iha h]

end OMV.C14
