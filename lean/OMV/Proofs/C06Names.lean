/-
C06 — helper lemmas, part 2: the `_names` bookkeeping (`NumberDict`) and the invariant
`factor = ∏ atom ^ power`, `powers = Σ power • atomPowers` it carries, over the rationals.
-/
import OMV.Model.C06
import OMV.Proofs.C06Basic
import Mathlib.Algebra.Order.Field.Rat
import Mathlib.Algebra.BigOperators.Group.List.Basic
import Mathlib.Tactic.Ring
import Mathlib.Tactic.NormNum
import Mathlib.Tactic.Push

set_option linter.unusedSectionVars false
set_option linter.unusedVariables false
set_option linter.unusedSimpArgs false

namespace OMV.C06

/-! ### what an atom of `_names` denotes in a given table -/

def atomF (t : Table) : Atom Rat → Rat
  | .sym s => match tlookup t s with
    | some u => u.factor
    | none => 1
  | .litI i => (i : Rat)
  | .litF q => q

def atomPAt (t : Table) (i : Nat) : Atom Rat → Int
  | .sym s => match tlookup t s with
    | some u => u.powers.getD i 0
    | none => 0
  | .litI _ => 0
  | .litF _ => 0

def namesF (t : Table) (ns : Names Rat) : Rat := (ns.map (fun kv => atomF t kv.1 ^ kv.2.v)).prod

def namesPAt (t : Table) (i : Nat) (ns : Names Rat) : Int :=
  (ns.map (fun kv => atomPAt t i kv.1 * kv.2.v)).sum

/-- the atom exists in the table (with `n` base dimensions) and is not zero -/
def AtomOK (t : Table) (n : Nat) : Atom Rat → Prop
  | .sym s => ∃ u, tlookup t s = some u ∧ u.factor ≠ 0 ∧ u.powers.length = n
  | .litI i => i ≠ 0
  | .litF q => q ≠ 0

theorem atomF_ne_zero {t : Table} {n : Nat} {k : Atom Rat} (h : AtomOK t n k) : atomF t k ≠ 0 := by
  cases k with
  | sym s => obtain ⟨u, hu, hf, _⟩ := h; simp [atomF, hu, hf]
  | litI i => simpa [atomF, AtomOK] using h
  | litF q => simpa [atomF, AtomOK] using h

/-- The invariant of every unit the evaluator produces. -/
structure Inv (t : Table) (n : Nat) (u : PUnit Rat) : Prop where
  fac : u.factor = namesF t u.names
  len : u.powers.length = n
  pw : ∀ i, u.powers.getD i 0 = namesPAt t i u.names
  atoms : ∀ kv ∈ u.names, AtomOK t n kv.1

/-- the atom, if it is a unit name, denotes a unit without offset -/
def AtomOffFree (t : Table) (k : Atom Rat) : Prop :=
  ∀ s, k = Atom.sym s → ∀ u, tlookup t s = some u → u.offset = 0

/-- every unit name in `_names` denotes a unit without offset -/
def OffFree (t : Table) (ns : Names Rat) : Prop := ∀ kv ∈ ns, AtomOffFree t kv.1

/-- well-formed table: non-zero factors, `n` dimensions, each entry named by a key of the same unit -/
def TableOK (t : Table) (n : Nat) : Prop :=
  ∀ s u, tlookup t s = some u → u.factor ≠ 0 ∧ u.powers.length = n ∧
    ∃ a, u.names = [(Atom.sym a, Pw.one)] ∧ tlookup t a = some u

/-! ### `ndBump`, `ndAdd`, `ndSub`, `ndScale` -/

theorem namesF_nil (t : Table) : namesF t [] = 1 := by simp [namesF]
theorem namesF_cons (t : Table) (kv : Atom Rat × Pw) (ns : Names Rat) :
    namesF t (kv :: ns) = atomF t kv.1 ^ kv.2.v * namesF t ns := by simp [namesF]
theorem namesPAt_nil (t : Table) (i : Nat) : namesPAt t i [] = 0 := by simp [namesPAt]
theorem namesPAt_cons (t : Table) (i : Nat) (kv : Atom Rat × Pw) (ns : Names Rat) :
    namesPAt t i (kv :: ns) = atomPAt t i kv.1 * kv.2.v + namesPAt t i ns := by simp [namesPAt]

theorem namesF_bump (t : Table) (ns : Names Rat) (k : Atom Rat) (v : Pw) (hk : atomF t k ≠ 0) :
    namesF t (ndBump ns k v) = namesF t ns * atomF t k ^ v.v := by
  induction ns with
  | nil => simp [ndBump, namesF, Pw.add, Pw.zero]
  | cons kw rest ih =>
    obtain ⟨k', w⟩ := kw
    unfold ndBump
    split
    · rename_i h
      subst h
      simp only [namesF_cons, Pw.add]
      rw [zpow_add₀ hk]
      ring
    · simp only [namesF_cons, ih]
      ring

theorem namesPAt_bump (t : Table) (i : Nat) (ns : Names Rat) (k : Atom Rat) (v : Pw) :
    namesPAt t i (ndBump ns k v) = namesPAt t i ns + atomPAt t i k * v.v := by
  induction ns with
  | nil => simp [ndBump, namesPAt, Pw.add, Pw.zero]
  | cons kw rest ih =>
    obtain ⟨k', w⟩ := kw
    unfold ndBump
    split
    · rename_i h
      subst h
      simp only [namesPAt_cons, Pw.add]
      ring
    · simp only [namesPAt_cons, ih]
      ring

theorem ndBump_keys (P : Atom Rat → Prop) (ns : Names Rat) (k : Atom Rat) (v : Pw)
    (hns : ∀ kv ∈ ns, P kv.1) (hk : P k) : ∀ kv ∈ ndBump ns k v, P kv.1 := by
  induction ns with
  | nil => intro kv h; simp [ndBump] at h; subst h; exact hk
  | cons kw rest ih =>
    obtain ⟨k', w⟩ := kw
    intro kv h
    unfold ndBump at h
    split at h
    · rename_i e
      rcases List.mem_cons.mp h with h | h
      · subst h; exact hns (k', w) (List.mem_cons_self ..)
      · exact hns kv (List.mem_cons_of_mem _ h)
    · rcases List.mem_cons.mp h with h | h
      · subst h; exact hns (k', w) (List.mem_cons_self ..)
      · exact ih (fun kv hkv => hns kv (List.mem_cons_of_mem _ hkv)) kv h

theorem namesF_ndAdd (t : Table) (n : Nat) (a b : Names Rat) (hb : ∀ kv ∈ b, AtomOK t n kv.1) :
    namesF t (ndAdd a b) = namesF t a * namesF t b := by
  unfold ndAdd
  induction b generalizing a with
  | nil => simp [namesF_nil]
  | cons kv rest ih =>
    simp only [List.foldl_cons]
    rw [ih _ (fun kv' h => hb kv' (List.mem_cons_of_mem _ h)),
      namesF_bump _ _ _ _ (atomF_ne_zero (hb kv (List.mem_cons_self ..))), namesF_cons]
    ring

theorem namesPAt_ndAdd (t : Table) (i : Nat) (a b : Names Rat) :
    namesPAt t i (ndAdd a b) = namesPAt t i a + namesPAt t i b := by
  unfold ndAdd
  induction b generalizing a with
  | nil => simp [namesPAt_nil]
  | cons kv rest ih =>
    simp only [List.foldl_cons]
    rw [ih, namesPAt_bump, namesPAt_cons]
    ring

theorem ndAdd_keys (P : Atom Rat → Prop) (a b : Names Rat)
    (ha : ∀ kv ∈ a, P kv.1) (hb : ∀ kv ∈ b, P kv.1) : ∀ kv ∈ ndAdd a b, P kv.1 := by
  unfold ndAdd
  induction b generalizing a with
  | nil => simpa using ha
  | cons kv rest ih =>
    simp only [List.foldl_cons]
    exact ih _ (ndBump_keys P a kv.1 kv.2 ha (hb kv (List.mem_cons_self ..)))
      (fun kv' h => hb kv' (List.mem_cons_of_mem _ h))

theorem namesF_ndSub (t : Table) (n : Nat) (a b : Names Rat) (hb : ∀ kv ∈ b, AtomOK t n kv.1) :
    namesF t (ndSub a b) = namesF t a / namesF t b := by
  unfold ndSub
  induction b generalizing a with
  | nil => simp [namesF_nil]
  | cons kv rest ih =>
    simp only [List.foldl_cons]
    rw [ih _ (fun kv' h => hb kv' (List.mem_cons_of_mem _ h)),
      namesF_bump _ _ _ _ (atomF_ne_zero (hb kv (List.mem_cons_self ..))), namesF_cons]
    simp only [Pw.neg, zpow_neg]
    rw [div_eq_mul_inv, div_eq_mul_inv, mul_inv]
    ring

theorem namesPAt_ndSub (t : Table) (i : Nat) (a b : Names Rat) :
    namesPAt t i (ndSub a b) = namesPAt t i a - namesPAt t i b := by
  unfold ndSub
  induction b generalizing a with
  | nil => simp [namesPAt_nil]
  | cons kv rest ih =>
    simp only [List.foldl_cons]
    rw [ih, namesPAt_bump, namesPAt_cons]
    simp only [Pw.neg]
    ring

theorem ndSub_keys (P : Atom Rat → Prop) (a b : Names Rat)
    (ha : ∀ kv ∈ a, P kv.1) (hb : ∀ kv ∈ b, P kv.1) : ∀ kv ∈ ndSub a b, P kv.1 := by
  unfold ndSub
  induction b generalizing a with
  | nil => simpa using ha
  | cons kv rest ih =>
    simp only [List.foldl_cons]
    exact ih _ (ndBump_keys P a kv.1 _ ha (hb kv (List.mem_cons_self ..)))
      (fun kv' h => hb kv' (List.mem_cons_of_mem _ h))

theorem namesF_ndScale (t : Table) (m : Int) (a : Names Rat) :
    namesF t (ndScale m a) = namesF t a ^ m := by
  induction a with
  | nil => simp [ndScale, namesF]
  | cons kv rest ih =>
    have : ndScale m (kv :: rest) = (kv.1, ⟨m * kv.2.v⟩) :: ndScale m rest := by
      simp [ndScale]
    rw [this, namesF_cons, namesF_cons, ih, mul_zpow, ← zpow_mul, mul_comm m]

theorem namesPAt_ndScale (t : Table) (i : Nat) (m : Int) (a : Names Rat) :
    namesPAt t i (ndScale m a) = namesPAt t i a * m := by
  induction a with
  | nil => simp [ndScale, namesPAt]
  | cons kv rest ih =>
    have : ndScale m (kv :: rest) = (kv.1, ⟨m * kv.2.v⟩) :: ndScale m rest := by
      simp [ndScale]
    rw [this, namesPAt_cons, namesPAt_cons, ih]
    ring

theorem ndScale_keys (P : Atom Rat → Prop) (m : Int) (a : Names Rat)
    (ha : ∀ kv ∈ a, P kv.1) : ∀ kv ∈ ndScale m a, P kv.1 := by
  intro kv h
  simp only [ndScale, List.mem_map] at h
  obtain ⟨kv', hk, rfl⟩ := h
  exact ha kv' hk

/-! ### lists of powers -/

theorem getD_zipWith_add (l1 l2 : List Int) (h : l1.length = l2.length) (i : Nat) :
    (List.zipWith (· + ·) l1 l2).getD i 0 = l1.getD i 0 + l2.getD i 0 := by
  induction l1 generalizing l2 i with
  | nil => cases l2 <;> simp_all
  | cons a as ih =>
    cases l2 with
    | nil => simp at h
    | cons b bs =>
      cases i with
      | zero => simp
      | succ j =>
        simp only [List.zipWith_cons_cons, List.getD_cons_succ]
        exact ih bs (by simpa using h) j

theorem getD_zipWith_sub (l1 l2 : List Int) (h : l1.length = l2.length) (i : Nat) :
    (List.zipWith (· - ·) l1 l2).getD i 0 = l1.getD i 0 - l2.getD i 0 := by
  induction l1 generalizing l2 i with
  | nil => cases l2 <;> simp_all
  | cons a as ih =>
    cases l2 with
    | nil => simp at h
    | cons b bs =>
      cases i with
      | zero => simp
      | succ j =>
        simp only [List.zipWith_cons_cons, List.getD_cons_succ]
        exact ih bs (by simpa using h) j

theorem getD_map_mul (l : List Int) (m : Int) (i : Nat) :
    (l.map (fun p => p * m)).getD i 0 = l.getD i 0 * m := by
  induction l generalizing i with
  | nil => simp
  | cons a as ih =>
    cases i with
    | zero => simp
    | succ j => simpa using ih j

theorem getD_map_neg (l : List Int) (i : Nat) :
    (l.map (fun p => -p)).getD i 0 = -(l.getD i 0) := by
  induction l generalizing i with
  | nil => simp
  | cons a as ih =>
    cases i with
    | zero => simp
    | succ j => simpa using ih j

theorem list_eq_of_getD (l1 l2 : List Int) (h : l1.length = l2.length)
    (hi : ∀ i, l1.getD i 0 = l2.getD i 0) : l1 = l2 := by
  apply List.ext_getElem h
  intro i h1 h2
  have := hi i
  simpa [List.getD_eq_getElem?_getD, List.getElem?_eq_getElem h1, List.getElem?_eq_getElem h2] using this

/-! ### the invariant is maintained by the unit arithmetic -/

open _root_.OMV.C06.PUnit

theorem Inv.factor_ne_zero {t : Table} {n : Nat} {u : PUnit Rat} (h : Inv t n u) : u.factor ≠ 0 := by
  rw [h.fac]
  have : ∀ ns : Names Rat, (∀ kv ∈ ns, AtomOK t n kv.1) → namesF t ns ≠ 0 := by
    intro ns
    induction ns with
    | nil => intro _; simp [namesF_nil]
    | cons kv rest ih =>
      intro hh
      rw [namesF_cons]
      exact mul_ne_zero (zpow_ne_zero _ (atomF_ne_zero (hh kv (List.mem_cons_self ..))))
        (ih (fun kv' h' => hh kv' (List.mem_cons_of_mem _ h')))
  exact this _ h.atoms

theorem inv_lookup {t : Table} {n : Nat} (hT : TableOK t n) {s : String} {u : PUnit Rat}
    (h : tlookup t s = some u) : Inv t n u := by
  obtain ⟨hf, hl, a, hn, ha⟩ := hT s u h
  refine ⟨?_, hl, ?_, ?_⟩
  · simp [hn, namesF, atomF, ha, Pw.one]
  · intro i; simp [hn, namesPAt, atomPAt, ha, Pw.one]
  · intro kv hkv
    simp [hn] at hkv
    subst hkv
    exact ⟨u, ha, hf, hl⟩

theorem inv_mul {t : Table} {n : Nat} {a b c : PUnit Rat} (ha : Inv t n a) (hb : Inv t n b)
    (h : mul a b = .ok c) : Inv t n c := by
  unfold mul at h
  split at h
  · simp at h
  · simp at h
    subst h
    refine ⟨?_, ?_, ?_, ?_⟩
    · simp only [namesF_ndAdd t n _ _ hb.atoms, ha.fac, hb.fac]
    · simp [List.length_zipWith, ha.len, hb.len]
    · intro i
      simp only [namesPAt_ndAdd]
      rw [getD_zipWith_add _ _ (ha.len.trans hb.len.symm), ha.pw, hb.pw]
    · exact ndAdd_keys _ _ _ ha.atoms hb.atoms

theorem inv_div {t : Table} {n : Nat} {a b c : PUnit Rat} (ha : Inv t n a) (hb : Inv t n b)
    (h : div a b = .ok c) : Inv t n c := by
  unfold div at h
  split at h
  · simp at h
  · split at h
    · simp at h
    · simp at h
      subst h
      refine ⟨?_, ?_, ?_, ?_⟩
      · simp only [namesF_ndSub t n _ _ hb.atoms, ha.fac, hb.fac]
      · simp [List.length_zipWith, ha.len, hb.len]
      · intro i
        simp only [namesPAt_ndSub]
        rw [getD_zipWith_sub _ _ (ha.len.trans hb.len.symm), ha.pw, hb.pw]
      · exact ndSub_keys _ _ _ ha.atoms hb.atoms

theorem inv_mulNum {t : Table} {n : Nat} {a c : PUnit Rat} {x : Rat} {k : Atom Rat}
    (ha : Inv t n a) (hk : AtomOK t n k) (hx : atomF t k = x) (hp : ∀ i, atomPAt t i k = 0)
    (h : mulNum a x k = .ok c) : Inv t n c := by
  unfold mulNum at h
  split at h
  · simp at h
  · simp at h
    subst h
    have hkk : ∀ kv ∈ [(k, Pw.one)], AtomOK t n kv.1 := by
      intro kv hkv; simp at hkv; subst hkv; exact hk
    refine ⟨?_, ha.len, ?_, ?_⟩
    · simp only [namesF_ndAdd t n _ _ hkk, ha.fac]
      simp [namesF, Pw.one, hx]
    · intro i
      simp only [namesPAt_ndAdd]
      rw [ha.pw i]
      simp [namesPAt, hp]
    · exact ndAdd_keys _ _ _ ha.atoms hkk

theorem inv_divNum {t : Table} {n : Nat} {a c : PUnit Rat} {x : Rat} {k : Atom Rat}
    (ha : Inv t n a) (hk : AtomOK t n k) (hx : atomF t k = x) (hp : ∀ i, atomPAt t i k = 0)
    (h : divNum a x k = .ok c) : Inv t n c := by
  unfold divNum at h
  split at h
  · simp at h
  · split at h
    · simp at h
    · simp at h
      subst h
      have hkk : ∀ kv ∈ [(k, Pw.neg Pw.one)], AtomOK t n kv.1 := by
        intro kv hkv; simp at hkv; subst hkv; exact hk
      refine ⟨?_, ha.len, ?_, ?_⟩
      · simp only [namesF_ndAdd t n _ _ hkk, ha.fac]
        simp [namesF, Pw.one, Pw.neg, hx, div_eq_mul_inv]
      · intro i
        simp only [namesPAt_ndAdd]
        rw [ha.pw i]
        simp [namesPAt, hp]
      · exact ndAdd_keys _ _ _ ha.atoms hkk

theorem inv_rdiv {t : Table} {n : Nat} {a c : PUnit Rat} {x : Rat} {k : Atom Rat}
    (ha : Inv t n a) (hk : AtomOK t n k) (hx : atomF t k = x) (hp : ∀ i, atomPAt t i k = 0)
    (h : rdiv a x k = .ok c) : Inv t n c := by
  unfold rdiv at h
  split at h
  · simp at h
  · split at h
    · simp at h
    · simp at h
      subst h
      have hkk : ∀ kv ∈ [(k, Pw.one)], AtomOK t n kv.1 := by
        intro kv hkv; simp at hkv; subst hkv; exact hk
      refine ⟨?_, by simp [ha.len], ?_, ?_⟩
      · simp only [namesF_ndSub t n _ _ ha.atoms, ha.fac]
        simp [namesF, Pw.one, hx]
      · intro i
        simp only [namesPAt_ndSub]
        rw [getD_map_neg, ha.pw]
        simp [namesPAt, hp]
      · exact ndSub_keys _ _ _ hkk ha.atoms

theorem inv_powI {t : Table} {n : Nat} {a c : PUnit Rat} {m : Int} (ha : Inv t n a)
    (h : powI a m = .ok c) : Inv t n c := by
  unfold powI at h
  split at h
  · simp at h
  · split at h
    · simp at h
    · simp at h
      subst h
      refine ⟨?_, by simp [ha.len], ?_, ?_⟩
      · simp only [namesF_ndScale, powInt_eq, ha.fac]
      · intro i
        simp only [namesPAt_ndScale]
        rw [getD_map_mul, ha.pw]
      · exact ndScale_keys _ _ _ ha.atoms

/-! ### decidable versions of the side conditions (used in examples) -/

def offFreeB (t : Table) (ns : Names Rat) : Bool :=
  ns.all (fun kv => match kv.1 with
    | .sym s => (match tlookup t s with
      | some u => decide (u.offset = 0)
      | none => true)
    | _ => true)

theorem offFreeB_sound {t : Table} {ns : Names Rat} (h : offFreeB t ns = true) : OffFree t ns := by
  intro kv hkv s hs u hu
  have := List.all_eq_true.mp h kv hkv
  simp only [hs, hu] at this
  simpa using this

/-- a number is not a unit name -/
theorem atomOffFree_key (t : Table) (x : NumV) : AtomOffFree t x.key := by
  intro s hs
  cases x <;> simp [NumV.key] at hs

theorem offFree_single (t : Table) (k : Atom Rat) (p : Pw) (hk : AtomOffFree t k) :
    OffFree t [(k, p)] := by
  intro kv h; simp at h; subst h; exact hk


/-! ### table lookups -/

theorem tlookup_mem {t : Table} {s : String} {u : PUnit Rat} (h : tlookup t s = some u) :
    ∃ k, (k, u) ∈ t ∧ k = s := by
  induction t with
  | nil => simp [tlookup] at h
  | cons e rest ih =>
    obtain ⟨k, w⟩ := e
    unfold tlookup at h
    split at h
    · rename_i hk
      simp at h; subst h
      exact ⟨k, List.mem_cons_self .., hk⟩
    · obtain ⟨k', hm, hk'⟩ := ih h
      exact ⟨k', List.mem_cons_of_mem _ hm, hk'⟩

/-- a `List.all` fact about the table holds for whatever a lookup returns -/
theorem all_of_lookup {P : String × PUnit Rat → Bool} {t : Table} (h : t.all P = true)
    {s : String} {u : PUnit Rat} (hu : tlookup t s = some u) : ∃ k, P (k, u) = true ∧ k = s := by
  obtain ⟨k, hm, hk⟩ := tlookup_mem hu
  exact ⟨k, List.all_eq_true.mp h _ hm, hk⟩

theorem tlookup_append (t : Table) (name : String) (v : PUnit Rat) (s : String) :
    tlookup (t ++ [(name, v)]) s =
      match tlookup t s with
      | some u => some u
      | none => if name = s then some v else none := by
  induction t with
  | nil => simp [tlookup]
  | cons e rest ih =>
    obtain ⟨k, w⟩ := e
    simp only [List.cons_append, tlookup]
    split
    · rfl
    · exact ih

/-- adding a prefixed unit under a fresh name keeps the table well formed -/
theorem tableOK_append {t : Table} {n : Nat} (hT : TableOK t n) (name : String) (v : PUnit Rat)
    (hfresh : tlookup t name = none) (hf : v.factor ≠ 0) (hl : v.powers.length = n)
    (hn : v.names = [(Atom.sym name, Pw.one)]) : TableOK (t ++ [(name, v)]) n := by
  intro s u hu
  rw [tlookup_append] at hu
  split at hu
  · rename_i u' hu'
    simp at hu; subst hu
    obtain ⟨h1, h2, a, h3, h4⟩ := hT s u' hu'
    refine ⟨h1, h2, a, h3, ?_⟩
    rw [tlookup_append, h4]
  · split at hu
    · simp at hu; subst hu
      refine ⟨hf, hl, name, hn, ?_⟩
      rw [tlookup_append, hfresh]; simp
    · simp at hu

end OMV.C06
