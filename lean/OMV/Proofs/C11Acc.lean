/-
C11 — lemmas about the CSC / CSR data updates: `np.add.at` and buffered `+=` cell by cell, the
duplicate flag, accumulation over sub-jacobians, and the dense reading of the slots.
-/
import OMV.Proofs.C11Map
import Mathlib.Algebra.BigOperators.Group.List.Basic
import Mathlib.Algebra.Ring.Defs
import Mathlib.Tactic.Ring

set_option linter.unusedSectionVars false

namespace OMV.C11

variable {K : Type} [CommSemiring K]

/-! ### `np.add.at` and buffered `+=` -/

theorem contrib_nil (vals : List K) (j : Nat) : contrib ([] : List Nat) vals j = 0 := by
  simp [contrib]

theorem contrib_nil_right (idx : List Nat) (j : Nat) : contrib idx ([] : List K) j = 0 := by
  simp [contrib]

theorem contrib_cons (i : Nat) (is : List Nat) (v : K) (vs : List K) (j : Nat) :
    contrib (i :: is) (v :: vs) j = (if i = j then v else 0) + contrib is vs j := by
  simp [contrib]

theorem addAtSeq_eq (idx : List Nat) : ∀ (d : Nat → K) (vals : List K),
    addAtSeq d idx vals = addAt d idx vals := by
  induction idx with
  | nil => intro d vals; funext j; simp [addAtSeq, addAt, contrib_nil]
  | cons i is ih =>
    intro d vals
    cases vals with
    | nil => funext j; simp [addAtSeq, addAt, contrib_nil_right]
    | cons v vs =>
      funext j
      simp only [addAtSeq]
      rw [ih]
      simp only [addAt, contrib_cons, upd]
      by_cases h : j = i
      · subst h; simp; ring
      · have h' : ¬ i = j := fun e => h e.symm
        simp [h, h']

theorem assignAt_eq (idx : List Nat) : ∀ (d : Nat → K) (tmp : List K) (j : Nat),
    assignAt d idx tmp j = (lastWrite idx tmp j).getD (d j) := by
  induction idx with
  | nil => intro d tmp j; simp [assignAt, lastWrite]
  | cons i is ih =>
    intro d tmp j
    cases tmp with
    | nil => simp [assignAt, lastWrite]
    | cons w ws =>
      simp only [assignAt, lastWrite]
      rw [ih]
      cases hl : lastWrite is ws j with
      | some x => simp
      | none =>
        by_cases h : i = j
        · subst h; simp [upd]
        · have h' : ¬ j = i := fun e => h e.symm
          simp [upd, h, h']

theorem lastWrite_zipWith (d : Nat → K) (idx : List Nat) : ∀ (vals : List K) (j : Nat),
    lastWrite idx (List.zipWith (fun i v => d i + v) idx vals) j =
      (lastWrite idx vals j).map (fun v => d j + v) := by
  induction idx with
  | nil => intro vals j; simp [lastWrite]
  | cons i is ih =>
    intro vals j
    cases vals with
    | nil => simp [lastWrite]
    | cons v vs =>
      simp only [List.zipWith_cons_cons, lastWrite]
      rw [ih]
      cases hl : lastWrite is vs j with
      | some x => simp
      | none =>
        by_cases h : i = j
        · subst h; simp
        · simp [h]

theorem addBufferedSeq_eq (d : Nat → K) (idx : List Nat) (vals : List K) :
    addBufferedSeq d idx vals = addBuffered d idx vals := by
  funext j
  unfold addBufferedSeq addBuffered
  rw [assignAt_eq, lastWrite_zipWith]
  cases lastWrite idx vals j <;> simp

theorem lastWrite_none_of_not_mem (idx : List Nat) : ∀ (vals : List K) (j : Nat), j ∉ idx →
    lastWrite idx vals j = none := by
  induction idx with
  | nil => intro vals j _; simp [lastWrite]
  | cons i is ih =>
    intro vals j hj
    cases vals with
    | nil => simp [lastWrite]
    | cons v vs =>
      have h1 : j ∉ is := fun h => hj (List.mem_cons_of_mem _ h)
      have h2 : ¬ i = j := fun e => hj (e ▸ List.mem_cons_self)
      simp [lastWrite, ih vs j h1, h2]

theorem contrib_zero_of_not_mem (idx : List Nat) : ∀ (vals : List K) (j : Nat), j ∉ idx →
    contrib idx vals j = 0 := by
  induction idx with
  | nil => intro vals j _; exact contrib_nil vals j
  | cons i is ih =>
    intro vals j hj
    cases vals with
    | nil => exact contrib_nil_right _ j
    | cons v vs =>
      have h1 : j ∉ is := fun h => hj (List.mem_cons_of_mem _ h)
      have h2 : ¬ i = j := fun e => hj (e ▸ List.mem_cons_self)
      simp [contrib_cons, ih vs j h1, h2]

/-- Without repeated slots a cell receives at most one entry. -/
theorem contrib_of_nodup (idx : List Nat) : idx.Nodup → ∀ (vals : List K) (j : Nat),
    contrib idx vals j = (lastWrite idx vals j).getD 0 := by
  induction idx with
  | nil => intro _ vals j; simp [contrib_nil, lastWrite]
  | cons i is ih =>
    intro hnd vals j
    have hnd' := List.nodup_cons.mp hnd
    cases vals with
    | nil => simp [contrib_nil_right, lastWrite]
    | cons v vs =>
      rw [contrib_cons]
      simp only [lastWrite]
      by_cases h : i = j
      · subst h
        rw [contrib_zero_of_not_mem is vs i hnd'.1, lastWrite_none_of_not_mem is vs i hnd'.1]
        simp
      · rw [ih hnd'.2 vs j]
        cases lastWrite is vs j <;> simp [h]

theorem addBuffered_eq_addAt_of_nodup (d : Nat → K) (idx : List Nat) (vals : List K)
    (h : idx.Nodup) : addBuffered d idx vals = addAt d idx vals := by
  funext j
  unfold addBuffered addAt
  rw [contrib_of_nodup idx h vals j]
  cases lastWrite idx vals j <;> simp

/-! ### with a repeated slot some values make buffered `+=` lose a contribution -/

theorem contrib_zeros (idx : List Nat) (n : Nat) (j : Nat) :
    contrib idx (List.replicate n (0 : K)) j = 0 := by
  induction idx generalizing n with
  | nil => exact contrib_nil _ j
  | cons i is ih =>
    cases n with
    | zero => exact contrib_nil_right _ j
    | succ n => rw [List.replicate_succ, contrib_cons, ih]; simp

theorem lastWrite_zeros_of_mem (idx : List Nat) (j : Nat) (h : j ∈ idx) :
    lastWrite idx (List.replicate idx.length (0 : K)) j = some 0 := by
  induction idx with
  | nil => simp at h
  | cons i is ih =>
    simp only [List.length_cons, List.replicate_succ, lastWrite]
    by_cases hj : j ∈ is
    · rw [ih hj]
    · have hij : i = j := by
        rcases List.mem_cons.mp h with e | e
        · exact e.symm
        · exact absurd e hj
      rw [lastWrite_none_of_not_mem is _ j hj]
      simp [hij]

/-- the value a buffered `+=` on a zero array leaves in cell `j` -/
def bufVal (idx : List Nat) (vals : List K) (j : Nat) : K :=
  match lastWrite idx vals j with
  | none => 0
  | some v => v

theorem dup_witness (h01 : (0 : K) ≠ 1) (idx : List Nat) (h : ¬ idx.Nodup) :
    ∃ (vals : List K) (j : Nat), bufVal idx vals j ≠ contrib idx vals j := by
  induction idx with
  | nil => simp at h
  | cons i is ih =>
    by_cases hi : i ∈ is
    · refine ⟨1 :: List.replicate is.length 0, i, ?_⟩
      unfold bufVal
      simp only [lastWrite]
      rw [lastWrite_zeros_of_mem is i hi, contrib_cons, contrib_zeros]
      simpa using h01
    · have hnd : ¬ is.Nodup := fun hn => h (List.nodup_cons.mpr ⟨hi, hn⟩)
      obtain ⟨vals, j, hv⟩ := ih hnd
      refine ⟨0 :: vals, j, ?_⟩
      unfold bufVal at hv ⊢
      simp only [lastWrite]
      rw [contrib_cons]
      cases hl : lastWrite is vals j with
      | some w => rw [hl] at hv; simpa using hv
      | none =>
        rw [hl] at hv
        by_cases hij : i = j <;> simpa [hij] using hv

theorem buffered_iff (h01 : (0 : K) ≠ 1) (idx : List Nat) :
    (∀ (d : Nat → K) (vals : List K), addBufferedSeq d idx vals = addAtSeq d idx vals) ↔
      idx.Nodup := by
  constructor
  · intro h
    apply Classical.byContradiction
    intro hnd
    obtain ⟨vals, j, hv⟩ := dup_witness h01 idx hnd
    have := congrFun (h (fun _ => 0) vals) j
    rw [addBufferedSeq_eq, addAtSeq_eq] at this
    apply hv
    unfold bufVal
    unfold addBuffered addAt at this
    cases hl : lastWrite idx vals j with
    | none => rw [hl] at this; simpa using this
    | some v => rw [hl] at this; simpa using this
  · intro h d vals
    rw [addBufferedSeq_eq, addAtSeq_eq, addBuffered_eq_addAt_of_nodup d idx vals h]

/-! ### the duplicate flag -/

theorem distinct_length_le (l : List Nat) : (distinct l).length ≤ l.length := by
  induction l with
  | nil => simp [distinct]
  | cons a l ih =>
    by_cases h : a ∈ l
    · simp [distinct, h]; omega
    · simp [distinct, h]; omega

theorem distinct_length_eq_iff (l : List Nat) : (distinct l).length = l.length ↔ l.Nodup := by
  induction l with
  | nil => simp [distinct]
  | cons a l ih =>
    by_cases h : a ∈ l
    · have := distinct_length_le l
      simp [distinct, h]
      omega
    · simp [distinct, h, ih]

theorem hasDupFlag_false_iff (idx : List Nat) : hasDupFlag idx = false ↔ idx.Nodup := by
  unfold hasDupFlag
  rw [← distinct_length_eq_iff]
  constructor
  · intro h
    by_cases h1 : idx.length > 1
    · simpa [h1] using h
    · match idx, h1 with
      | [], _ => simp [distinct]
      | [a], _ => simp [distinct]
      | a :: b :: l, h1 => simp at h1
  · intro h
    simp [h]

/-- With the exact flag both branches of `_update_from_submat` are `np.add.at`. -/
theorem sparseUpdate_exact (d : Nat → K) (idx : List Nat) (data : List K) :
    sparseUpdate d idx (hasDupFlag idx) data = addAt d idx data := by
  unfold sparseUpdate
  cases hf : hasDupFlag idx with
  | true => simp
  | false =>
    simp only [Bool.false_eq_true, if_false]
    exact addBuffered_eq_addAt_of_nodup d idx data ((hasDupFlag_false_iff idx).mp hf)

/-! ### accumulation over sub-jacobians -/

theorem foldl_addAt {α : Type} (f : α → List Nat) (g : α → List K) (L : List α) :
    ∀ (d : Nat → K) (j : Nat),
    (L.foldl (fun d x => addAt d (f x) (g x)) d) j = d j + (L.map (fun x => contrib (f x) (g x) j)).sum := by
  induction L with
  | nil => intro d j; simp
  | cons x L ih =>
    intro d j
    simp only [List.foldl_cons, List.map_cons, List.sum_cons]
    rw [ih]
    simp only [addAt]
    ring

/-- the slot whose index is `m`, read through `zipIdx` -/
theorem sum_zipIdx_single (uniq : List Pos) (f : Pos → K) (m : Nat) : ∀ k,
    ((uniq.zipIdx k).map (fun x => if x.2 = m + k then f x.1 else 0)).sum =
      match uniq[m]? with
      | some q => f q
      | none => 0 := by
  induction uniq generalizing m with
  | nil => intro k; simp
  | cons q uniq ih =>
    intro k
    simp only [List.zipIdx_cons, List.map_cons, List.sum_cons]
    cases m with
    | zero =>
      simp only [Nat.zero_add, if_true, List.getElem?_cons_zero]
      have hz : ((uniq.zipIdx (k + 1)).map (fun x => if x.2 = k then f x.1 else 0)).sum = 0 := by
        apply List.sum_eq_zero
        intro y hy
        obtain ⟨x, hx, rfl⟩ := List.mem_map.mp hy
        have := List.mem_zipIdx (x := x.1) (i := x.2) (by simpa using hx)
        have hne : ¬ x.2 = k := by omega
        simp [hne]
      rw [hz]; simp
    | succ m =>
      have hne : ¬ k = m + 1 + k := by omega
      simp only [hne, if_false, zero_add, List.getElem?_cons_succ]
      have := ih m (k + 1)
      have e : m + (k + 1) = m + 1 + k := by omega
      rw [e] at this
      exact this

/-- One sub-jacobian: reading its accumulated slots at position `p` gives its triplets at `p`. -/
theorem dense_of_contrib (uniq : List Pos) (p : Pos) (idx : List Nat) :
    ∀ (pos : List Pos) (data : List K), idx.length = pos.length →
    (∀ j (h1 : j < idx.length) (h2 : j < pos.length), uniq[idx[j]]? = some pos[j]) →
    ((uniq.zipIdx).map (fun x => if x.1 = p then contrib idx data x.2 else 0)).sum =
      denseAt (pos.zip data) p := by
  induction idx with
  | nil =>
    intro pos data hl _
    have : pos = [] := by cases pos <;> simp_all
    subst this
    simp [contrib_nil, denseAt]
  | cons i is ih =>
    intro pos data hl hspec
    cases pos with
    | nil => simp at hl
    | cons q pos =>
      cases data with
      | nil => simp [contrib_nil_right, denseAt]
      | cons v vs =>
        have hl' : is.length = pos.length := by simpa using hl
        have hspec' : ∀ j (h1 : j < is.length) (h2 : j < pos.length), uniq[is[j]]? = some pos[j] := by
          intro j h1 h2
          have := hspec (j + 1) (by simp; omega) (by simp; omega)
          simpa using this
        have h0 : uniq[i]? = some q := by
          have := hspec 0 (by simp) (by simp)
          simpa using this
        have hsplit : (fun x : Pos × Nat => if x.1 = p then contrib (i :: is) (v :: vs) x.2 else 0) =
            (fun x => (if x.2 = i + 0 then (if x.1 = p then v else 0) else 0) +
              (if x.1 = p then contrib is vs x.2 else 0)) := by
          funext x
          rw [contrib_cons]
          by_cases hp : x.1 = p <;> by_cases hi : i = x.2 <;> simp [hp, hi, eq_comm]
        rw [hsplit, List.sum_map_add, ih pos vs hl' hspec']
        have := sum_zipIdx_single uniq (fun q => if q = p then v else 0) i 0
        rw [this, h0]
        simp [denseAt]

theorem denseAt_append (T1 T2 : List (Pos × K)) (p : Pos) :
    denseAt (T1 ++ T2) p = denseAt T1 p + denseAt T2 p := by
  simp [denseAt, List.sum_append]

/-- All sub-jacobians: the slots accumulated over a list of (slot piece, positions, data). -/
theorem dense_of_pieces (uniq : List Pos) (p : Pos) (L : List ((List Nat × List Pos) × List K)) :
    (∀ x ∈ L, x.1.1.length = x.1.2.length ∧
      ∀ j (h1 : j < x.1.1.length) (h2 : j < x.1.2.length), uniq[x.1.1[j]]? = some x.1.2[j]) →
    ((uniq.zipIdx).map (fun y => if y.1 = p then (L.map (fun x => contrib x.1.1 x.2 y.2)).sum else 0)).sum =
      denseAt (L.flatMap (fun x => x.1.2.zip x.2)) p := by
  induction L with
  | nil => intro _; simp [denseAt]
  | cons x L ih =>
    intro h
    have hx := h x (by simp)
    have hL : ∀ x ∈ L, _ := fun y hy => h y (List.mem_cons_of_mem _ hy)
    simp only [List.map_cons, List.sum_cons, List.flatMap_cons]
    rw [denseAt_append, ← ih hL, ← dense_of_contrib uniq p x.1.1 x.1.2 x.2 hx.1 hx.2, ← List.sum_map_add]
    congr 1
    apply List.map_congr_left
    intro y _
    by_cases hp : y.1 = p <;> simp [hp]

/-! ### the pieces of the map cut out by `_coo_slices` -/

theorem splitLens_length {α : Type} (lens : List Nat) : ∀ (l : List α),
    (splitLens lens l).length = lens.length := by
  induction lens with
  | nil => intro l; rfl
  | cons n ns ih => intro l; simp [splitLens, ih]

theorem cooPositions_cons (s : SubJ K) (rest : List (SubJ K)) :
    cooPositions (s :: rest) = s.positions ++ cooPositions rest := by
  simp [cooPositions]

/-- Piece `k` of the map belongs to sub-jacobian `k`: same length, and each of its slots holds the
position of the corresponding entry. -/
theorem pieces_spec (uniq : List Pos) (subs : List (SubJ K)) : ∀ (M : List Nat),
    M.length = (cooPositions subs).length →
    (∀ i (h1 : i < M.length) (h2 : i < (cooPositions subs).length),
      uniq[M[i]]? = some (cooPositions subs)[i]) →
    ∀ k (hk : k < subs.length)
      (hk2 : k < (splitLens (subs.map (fun s => s.positions.length)) M).length),
      ((splitLens (subs.map (fun s => s.positions.length)) M)[k]).length = subs[k].positions.length ∧
      ∀ j (h1 : j < ((splitLens (subs.map (fun s => s.positions.length)) M)[k]).length)
        (h2 : j < subs[k].positions.length),
        uniq[((splitLens (subs.map (fun s => s.positions.length)) M)[k])[j]]? =
          some subs[k].positions[j] := by
  induction subs with
  | nil => intro M _ _ k hk; simp at hk
  | cons s rest ih =>
    intro M hlen hspec k hk hk2
    rw [cooPositions_cons] at hlen hspec
    simp only [List.length_append] at hlen
    cases k with
    | zero =>
      simp only [List.map_cons, splitLens, List.getElem_cons_zero]
      refine ⟨by simp [List.length_take]; omega, ?_⟩
      intro j h1 h2
      have hj : j < M.length := by omega
      rw [List.getElem_take]
      have := hspec j hj (by simp; omega)
      rw [List.getElem_append_left h2] at this
      exact this
    | succ k =>
      simp only [List.map_cons, splitLens, List.getElem_cons_succ]
      have hlen' : (M.drop s.positions.length).length = (cooPositions rest).length := by
        simp; omega
      have hspec' : ∀ i (h1 : i < (M.drop s.positions.length).length)
          (h2 : i < (cooPositions rest).length),
          uniq[(M.drop s.positions.length)[i]]? = some (cooPositions rest)[i] := by
        intro i h1 h2
        rw [List.getElem_drop]
        have := hspec (s.positions.length + i) (by omega) (by simp; omega)
        rw [List.getElem_append_right (by omega)] at this
        simpa using this
      exact ih (M.drop s.positions.length) hlen' hspec' k (by simpa using hk)
        (by simpa [splitLens] using hk2)

/-! ### CSC / CSR: the accumulated slots read densely are `Σ factor·coo` -/

theorem sparseStep_eq (le : Pos → Pos → Bool) (subs : List (SubJ K)) (conv : K → K)
    (d : Nat → K) (vals : List (List K)) (j : Nat) :
    sparseStep (sparseBuild le subs) subs conv d vals j =
      (((sparseBuild le subs).zip (subs.zip vals)).map
        (fun x => contrib x.1.1 (scaleData x.2.1.factor x.2.2) j)).sum := by
  unfold sparseStep
  simp only
  rw [List.foldl_ext (g := fun d x => addAt d x.1.1 (scaleData x.2.1.factor x.2.2))]
  · rw [foldl_addAt (fun x : (List Nat × Bool) × (SubJ K × List K) => x.1.1)
      (fun x => scaleData x.2.1.factor x.2.2)]
    simp
  · intro d x hx
    have hb : x.1 ∈ sparseBuild le subs := (List.of_mem_zip hx).1
    unfold sparseBuild at hb
    obtain ⟨idx, _, hidx⟩ := List.mem_map.mp hb
    rw [← hidx]
    exact sparseUpdate_exact d idx _

theorem sparse_dense (le : Pos → Pos → Bool) (subs : List (SubJ K)) (conv : K → K)
    (d : Nat → K) (vals : List (List K)) (p : Pos) :
    sparseDense (slotPos le (cooPositions subs))
      (sparseStep (sparseBuild le subs) subs conv d vals) p =
      denseAt (allTrips (subs.zip vals)) p := by
  unfold sparseDense
  have hfun : (fun x : Pos × Nat => if x.1 = p then
      sparseStep (sparseBuild le subs) subs conv d vals x.2 else 0) =
      (fun y => if y.1 = p then
        ((((sparseBuild le subs).zip (subs.zip vals)).map
          (fun x => ((x.1.1, x.2.1.positions), scaleData x.2.1.factor x.2.2))).map
            (fun x => contrib x.1.1 x.2 y.2)).sum else 0) := by
    funext y
    rw [sparseStep_eq]
    simp [List.map_map, Function.comp_def]
  rw [hfun, dense_of_pieces]
  · -- the triplets
    rw [List.flatMap_map]
    unfold allTrips
    have hlen : (subs.zip vals).length ≤ (sparseBuild le subs).length := by
      simp [sparseBuild, splitLens_length]
    conv_rhs => rw [← List.map_snd_zip hlen]
    rw [List.flatMap_map]
    rfl
  · -- every piece belongs to its sub-jacobian
    intro x hx
    obtain ⟨y, hy, rfl⟩ := List.mem_map.mp hx
    obtain ⟨k, hk, hyk⟩ := List.mem_iff_getElem.mp hy
    have hk1 : k < (sparseBuild le subs).length := by
      have := hk; simp only [List.length_zip] at this; omega
    have hk2 : k < subs.length := by
      have := hk; simp only [List.length_zip] at this; omega
    have hk3 : k < (splitLens (subs.map (fun s => s.positions.length))
        (cooToSlot le (cooPositions subs))).length := by
      simpa [sparseBuild] using hk1
    rw [List.getElem_zip, List.getElem_zip] at hyk
    subst hyk
    have hM := cooToSlot_length le (cooPositions subs)
    have hspec : ∀ i (h1 : i < (cooToSlot le (cooPositions subs)).length)
        (h2 : i < (cooPositions subs).length),
        (slotPos le (cooPositions subs))[(cooToSlot le (cooPositions subs))[i]]? =
          some (cooPositions subs)[i] := by
      intro i h1 h2
      obtain ⟨s, hs1, hs2⟩ := cooToSlot_spec le (cooPositions subs) i h2
      rw [List.getElem?_eq_getElem h1] at hs1
      rw [Option.some.inj hs1]
      exact hs2
    have := pieces_spec (slotPos le (cooPositions subs)) subs _ hM hspec k hk2 hk3
    simpa [sparseBuild] using this

end OMV.C11
