/-
C14 — component-level lemmas: flat offsets and `locate`, the perturbation of a set of flat columns
as a sum of unit perturbations, and the link from the complex-step quantities (`duOut`,
`imagRow`) to the tangent.
-/
import OMV.Proofs.C14Color

set_option linter.unusedSimpArgs false
set_option linter.unusedSectionVars false

namespace OMV.C14

/-! ### Offsets -/

theorem locate_offset (l : List Shape) : ∀ (v j : Nat), v < l.length → j < (l.getD v .sc).size →
    locate l (sumSizes (l.take v) + j) = (v, j) := by
  induction l with
  | nil => intro v j hv; simp at hv
  | cons s r ih =>
    intro v j hv hj
    cases v with
    | zero =>
      simp only [List.take_zero, sumSizes, Nat.zero_add, locate]
      have : j < s.size := by simpa using hj
      simp [this]
    | succ v' =>
      have hv' : v' < r.length := by simpa using hv
      have hj' : j < (r.getD v' .sc).size := by simpa using hj
      simp only [List.take_succ_cons, sumSizes, locate]
      have hnot : ¬ (s.size + sumSizes (r.take v') + j < s.size) := by omega
      simp only [hnot, if_false]
      have : s.size + sumSizes (r.take v') + j - s.size = sumSizes (r.take v') + j := by omega
      rw [this, ih v' j hv' hj']

theorem colVar_offset (c : Comp) (v j : Nat) (hv : v < c.ins.length) (hj : j < (c.sh v).size) :
    colVar c (inOffset c v + j) = (v, j) := locate_offset c.ins v j hv hj

theorem rowVar_offset (c : Comp) (u r : Nat) (hu : u < c.outs.length)
    (hr : r < (c.outShape u).size) : rowVar c (outOffset c u + r) = (u, r) := by
  have h1 : u < (c.outs.map (·.1)).length := by simpa using hu
  have h2 : r < ((c.outs.map (·.1)).getD u Shape.sc).size := by
    have : (c.outs.map (·.1)).getD u Shape.sc = c.outShape u := by
      simp only [Comp.outShape, List.getD, List.getElem?_map]
      cases c.outs[u]? <;> rfl
    rw [this]; exact hr
  exact locate_offset (c.outs.map (·.1)) u r h1 h2

theorem offset_inj (c : Comp) (v j w i : Nat) (hv : v < c.ins.length) (hj : j < (c.sh v).size)
    (hw : w < c.ins.length) (hi : i < (c.sh w).size) (h : inOffset c w + i = inOffset c v + j) :
    w = v ∧ i = j := by
  have h1 := colVar_offset c v j hv hj
  have h2 := colVar_offset c w i hw hi
  rw [h] at h2
  rw [h1] at h2
  exact ⟨(Prod.mk.inj h2).1.symm, (Prod.mk.inj h2).2.symm⟩

variable {K : Type}

/-- Perturbing the single flat column of entry `(v, j)` is the unit perturbation of that entry. -/
theorem seedCols_single (A : Alg K) (c : Comp) (v j : Nat) (hv : v < c.ins.length)
    (hj : j < (c.sh v).size) : seedCols A c [inOffset c v + j] = seedOne A v j := by
  funext w i
  simp only [seedCols, seedOne, List.mem_singleton]
  by_cases h : w < c.ins.length ∧ i < (c.sh w).size ∧ inOffset c w + i = inOffset c v + j
  · have hh := offset_inj c v j w i hv hj h.1 h.2.1 h.2.2
    rw [if_pos h, if_pos hh]
  · have : ¬ (w = v ∧ i = j) := by
      rintro ⟨rfl, rfl⟩; exact h ⟨hv, hj, rfl⟩
    rw [if_neg h, if_neg this]

/-! ### Complex step = tangent -/

theorem duOut_eq_tangent (A : Alg K) (D : Deriv K) (c : Comp) (x d : Nat → Nat → K) (u r : Nat) :
    duOut A D c x d u r
      = tangentAt A D c.sh x d (c.outExpr u) (bidx (shapeOf c.sh (c.outExpr u)) r) := by
  simp only [duOut, execOut, evalAt_dual]

theorem valOut_eq_eval (A : Alg K) (D : Deriv K) (c : Comp) (x : Nat → Nat → K) (u r : Nat) :
    valOut A D c x u r = evalAt A c.sh x (c.outExpr u) (bidx (shapeOf c.sh (c.outExpr u)) r) := by
  simp only [valOut, execOut, evalAt_dual]

variable [Field K] (p : String → K → K) (p2 : String → K → K → K) (D : Deriv K)

/-- A linear functional of the direction applied to a list-indexed sum of directions. -/
theorem lin_list_sum (T : (Nat → Nat → K) → K)
    (hadd : ∀ d d', T (fun v i => d v i + d' v i) = T d + T d')
    (hsmul : ∀ (a : K) d, T (fun v i => a * d v i) = a * T d)
    (l : List Nat) (f : Nat → Nat → Nat → K) :
    T (fun w i => (l.map (fun a => f a w i)).sum) = (l.map (fun a => T (f a))).sum := by
  induction l with
  | nil => simpa using lin_zero T hadd hsmul
  | cons a t ih =>
    simp only [List.map_cons, List.sum_cons]
    rw [hadd (f a) (fun w i => (t.map (fun a => f a w i)).sum), ih]

theorem seedCols_sum (c : Comp) (icols : List Nat) (hnd : icols.Nodup) :
    seedCols (fieldAlg p p2) c icols
      = fun w i => (icols.map (fun col => seedCols (fieldAlg p p2) c [col] w i)).sum := by
  funext w i
  induction icols with
  | nil => simp [seedCols]
  | cons a t ih =>
    have hat : a ∉ t := (List.nodup_cons.mp hnd).1
    have ht : t.Nodup := (List.nodup_cons.mp hnd).2
    simp only [List.map_cons, List.sum_cons]
    rw [← ih ht]
    simp only [seedCols, List.mem_cons, List.mem_singleton, fieldAlg_lit0, fieldAlg_lit1]
    by_cases hw : w < c.ins.length ∧ i < (c.sh w).size
    · by_cases h1 : inOffset c w + i = a
      · have h2 : inOffset c w + i ∉ t := h1 ▸ hat
        simp [hw, h1, h2, hat]
      · by_cases h2 : inOffset c w + i ∈ t
        · simp [hw, h1, h2]
        · simp [hw, h1, h2]
    · have h1 : ¬ (w < c.ins.length ∧ i < (c.sh w).size ∧ (inOffset c w + i = a ∨ inOffset c w + i ∈ t)) :=
        fun h => hw ⟨h.1, h.2.1⟩
      have h2 : ¬ (w < c.ins.length ∧ i < (c.sh w).size ∧ inOffset c w + i = a) :=
        fun h => hw ⟨h.1, h.2.1⟩
      have h3 : ¬ (w < c.ins.length ∧ i < (c.sh w).size ∧ inOffset c w + i ∈ t) :=
        fun h => hw ⟨h.1, h.2.1⟩
      simp [h1, h2, h3]

/-- The imaginary part after perturbing several flat columns together is the sum of the
imaginary parts of the single-column perturbations. -/
theorem imagRow_sum (c : Comp) (x : Nat → Nat → K) (icols : List Nat) (hnd : icols.Nodup)
    (row : Nat) :
    imagRow (fieldAlg p p2) D c x icols row
      = (icols.map (fun col => imagRow (fieldAlg p p2) D c x [col] row)).sum := by
  simp only [imagRow, duOut_eq_tangent]
  rw [seedCols_sum p p2 c icols hnd]
  exact lin_list_sum
    (fun d => tangentAt (fieldAlg p p2) D c.sh x d (c.outExpr (rowVar c row).1)
      (bidx (shapeOf c.sh (c.outExpr (rowVar c row).1)) (rowVar c row).2))
    (fun d d' => tangentAt_add p p2 D c.sh x d d' _ _)
    (fun a d => tangentAt_smul p p2 D c.sh x d a _ _)
    icols (fun col => seedCols (fieldAlg p p2) c [col])

end OMV.C14

/-! ### The run-time validator of a coloring implies the hypotheses of the colored theorem -/

namespace OMV.C14

theorem nodupB_sound : ∀ (l : List Nat), nodupB l = true → l.Nodup
  | [], _ => List.nodup_nil
  | a :: t, h => by
    simp only [nodupB, Bool.and_eq_true, Bool.not_eq_true', List.contains_eq_mem,
      decide_eq_false_iff_not] at h
    exact List.nodup_cons.mpr ⟨h.1, nodupB_sound t h.2⟩

theorem locate_ge (l : List Shape) : ∀ k, sumSizes l ≤ k → l.length ≤ (locate l k).1 := by
  induction l with
  | nil => intro k _; simp [locate]
  | cons s r ih =>
    intro k hk
    simp only [sumSizes] at hk
    have hnot : ¬ k < s.size := by omega
    simp only [locate, hnot, if_false, List.length_cons]
    have := ih (k - s.size) (by omega)
    omega

variable {K : Type} [Field K] [DecidableEq K] (p : String → K → K) (p2 : String → K → K → K)
  (D : Deriv K)

/-- Rows past the end of the output vector carry nothing. -/
theorem imagRow_out_of_range (c : Comp) (x : Nat → Nat → K) (icols : List Nat) (row : Nat)
    (h : sumSizes (c.outs.map (·.1)) ≤ row) : imagRow (fieldAlg p p2) D c x icols row = 0 := by
  have hu : c.outs.length ≤ (rowVar c row).1 := by
    have := locate_ge (c.outs.map (·.1)) row h
    simpa [rowVar] using this
  have he : c.outExpr (rowVar c row).1 = .lit 0 := by
    simp only [Comp.outExpr, List.getD]
    rw [List.getElem?_eq_none hu]
    rfl
  simp only [imagRow, duOut_eq_tangent, he, tangentAt, fieldAlg_lit0]

theorem coloringOk_sound (c : Comp) (x : Nat → Nat → K) (G : List (List (Nat × List Nat)))
    (h : coloringOk (fieldAlg p p2) D (fun q => decide (q = 0)) c x G = true) :
    (G.flatten.map (·.1)).Nodup ∧
    (∀ grp ∈ G, ∀ cr ∈ grp, ∀ row,
      imagRow (fieldAlg p p2) D c x [cr.1] row ≠ 0 → row ∈ cr.2) ∧
    (∀ grp ∈ G, ∀ a ∈ grp, ∀ b ∈ grp, a.1 ≠ b.1 → ∀ row, row ∈ a.2 → row ∉ b.2) ∧
    (∀ grp ∈ G, ∀ cr ∈ grp, ∀ row ∈ cr.2, c.declRow row cr.1 = true) := by
  simp only [coloringOk, Bool.and_eq_true, List.all_eq_true, Bool.or_eq_true, beq_iff_eq,
    Bool.not_eq_true', List.contains_eq_mem, decide_eq_true_eq, decide_eq_false_iff_not,
    List.mem_range] at h
  obtain ⟨hnd, hall⟩ := h
  refine ⟨nodupB_sound _ hnd, ?_, ?_, ?_⟩
  · intro grp hg cr hcr row hnz
    by_cases hrow : row < sumSizes (c.outs.map (·.1))
    · rcases ((hall grp hg).2 cr hcr).2 row hrow with h0 | hm
      · exact absurd h0 hnz
      · exact hm
    · exact absurd (imagRow_out_of_range p p2 D c x [cr.1] row (by omega)) hnz
  · intro grp hg a ha b hb hne row hra
    rcases (hall grp hg).1 a ha b hb with heq | hd
    · exact absurd heq hne
    · exact hd row hra
  · intro grp hg cr hcr row hr
    exact ((hall grp hg).2 cr hcr).1 row hr

theorem nodup_of_mem_flatten (G : List (List (Nat × List Nat))) (grp : List (Nat × List Nat))
    (h : grp ∈ G) (hnd : (G.flatten.map (·.1)).Nodup) : (grp.map (·.1)).Nodup := by
  induction G with
  | nil => simp at h
  | cons g rest ih =>
    have hnd2 : (g.map (·.1) ++ rest.flatten.map (·.1)).Nodup := by
      simpa [List.flatten_cons, List.map_append] using hnd
    rcases List.mem_cons.mp h with rfl | hin
    · exact (List.nodup_append.mp hnd2).1
    · exact ih hin (List.nodup_append.mp hnd2).2.1


/-- The driver's exact instance is the field instance at `ℚ`. -/
theorem fieldAlg_rat : fieldAlg (K := ℚ) ratPrim ratPrim2 = ratAlg := by
  unfold fieldAlg ratAlg
  congr 1


end OMV.C14
