/-
C15 — Akima and natural-cubic kernels: exact on the nodes of the bracketing interval and exact on
linear data (all points, all bracket indices, including the linear extrapolation branches).
-/
import OMV.Proofs.C15Kernel

set_option linter.unusedSectionVars false
set_option linter.unusedVariables false

namespace OMV.C15

variable {K : Type} [Field K] [LinearOrder K] [IsStrictOrderedRing K]

/-- `psum C y 2` is the line `C 1 * y + C 0`. -/
theorem psum_two (C : Nat → K) (y : K) : psum C y 2 = C 1 * y + C 0 := by
  simp [psum]; ring

/-! ### Akima -/

theorem akimaSlopes_m3 (chain : Bool) (n : Nat) (g v : Nat → K) (idx : Nat) :
    (akimaSlopes chain n g v idx).m3 = (v (idx + 1) - v idx) / (g (idx + 1) - g idx) := by
  have hr : (akimaRaw n g v idx).m3 = (v (idx + 1) - v idx) / (g (idx + 1) - g idx) := rfl
  have l0 : ∀ s : Slopes K, s.lo0.m3 = s.m3 := fun _ => rfl
  have l1 : ∀ s : Slopes K, s.lo1.m3 = s.m3 := fun _ => rfl
  have l3 : ∀ s : Slopes K, s.hi3.m3 = s.m3 := fun _ => rfl
  have l2 : ∀ s : Slopes K, s.hi2.m3 = s.m3 := fun _ => rfl
  unfold akimaSlopes
  cases chain
  · simp only [Bool.false_eq_true, if_false]
    split_ifs <;> simp only [l0, l1, l2, l3, hr]
  · simp only [if_true]
    split_ifs <;> simp only [l0, l1, l2, l3, hr]

/-- End slope of a constant-slope neighbourhood is that slope, whatever the weights. -/
theorem akimaSlope_same (ge : Bool) (eps a wa wb : K) (h0 : 0 ≤ eps) (hge : ge = true → 0 < eps) :
    akimaSlope ge eps a wa a wb = a := by
  unfold akimaSlope
  cases ge
  · simp only [Bool.false_eq_true, if_false]
    split_ifs with h2
    · have : wa + wb ≠ 0 := by
        intro e; rw [e] at h2; exact absurd (lt_of_le_of_lt h0 h2) (lt_irrefl _)
      field_simp
    · ring
  · simp only [if_true]
    split_ifs with h2
    · have : wa + wb ≠ 0 := by
        have := hge rfl; intro e; rw [e] at h2; exact absurd (lt_of_lt_of_le this h2) (lt_irrefl _)
      field_simp
    · ring

theorem akimaPoly_at_left (ge1 ge2 : Bool) (eps : K) (s : Slopes K) (v3 v4 h : K) :
    akimaPoly ge1 ge2 eps s 0 v3 v4 h 0 = v3 := by
  unfold akimaPoly; simp

theorem akimaPoly_at_right (ge1 ge2 : Bool) (eps : K) (s : Slopes K) (v3 v4 dx : K) (hdx : dx ≠ 0)
    (hm3 : s.m3 = (v4 - v3) / dx) : akimaPoly ge1 ge2 eps s 0 v3 v4 (1 / dx) dx = v4 := by
  unfold akimaPoly
  simp only [if_true]
  generalize akimaSlope ge1 eps s.m2 (absK (s.m4 - s.m3)) s.m3 (absK (s.m2 - s.m1)) = b
  generalize akimaSlope ge2 eps s.m3 (absK (s.m5 - s.m4)) s.m4 (absK (s.m3 - s.m2)) = bp1
  rw [hm3]
  field_simp
  ring

/-- On slopes that all equal `a` (only `m5` is free: it is 0 instead of `a` on a 4-point grid, middle
interval) the interval polynomial is the line of slope `a`. -/
theorem akimaPoly_const_slope (ge1 ge2 : Bool) (eps a : K) (s : Slopes K) (extrap : Int)
    (v3 v4 h dx : K) (h0 : 0 ≤ eps) (hge : ge1 = true ∨ ge2 = true → 0 < eps)
    (h1 : s.m1 = a) (h2 : s.m2 = a) (h3 : s.m3 = a) (h4 : s.m4 = a) :
    akimaPoly ge1 ge2 eps s extrap v3 v4 h dx =
      (if extrap = 0 then v3 else if extrap = 1 then v4 else v3) + dx * a := by
  unfold akimaPoly
  simp only [h1, h2, h3, h4]
  rw [akimaSlope_same ge1 eps a _ _ h0 (fun e => hge (Or.inl e)),
    akimaSlope_same ge2 eps a _ _ h0 (fun e => hge (Or.inr e))]
  split_ifs <;> ring

/-- Slope of linear data on any interval of the grid. -/
theorem slope_linear {n : Nat} {g v : Nat → K} {a b : K} (hg : StrictOn n g)
    (hv : ∀ i, v i = a * g i + b) (i : Nat) (hi : i + 1 < n) :
    slopeAt g v i = a := by
  unfold slopeAt
  have hne : g (i + 1) - g i ≠ 0 := hg.sub_ne' (Nat.lt_succ_self i) hi
  rw [hv, hv]; field_simp; ring

/-- All of `m1 … m4` equal `a`. -/
def Flat (a : K) (s : Slopes K) : Prop := s.m1 = a ∧ s.m2 = a ∧ s.m3 = a ∧ s.m4 = a

theorem Flat.lo0 {a : K} {s : Slopes K} (h3 : s.m3 = a) (h4 : s.m4 = a) : Flat a s.lo0 := by
  refine ⟨?_, ?_, ?_, ?_⟩
  · show 2 * (2 * s.m3 - s.m4) - s.m3 = a; rw [h3, h4]; ring
  · show 2 * s.m3 - s.m4 = a; rw [h3, h4]; ring
  · exact h3
  · exact h4

theorem Flat.lo1 {a : K} {s : Slopes K} (h2 : s.m2 = a) (h3 : s.m3 = a) (h4 : s.m4 = a) :
    Flat a s.lo1 := by
  refine ⟨?_, h2, h3, h4⟩
  show 2 * s.m2 - s.m3 = a; rw [h2, h3]; ring

theorem Flat.hi3 {a : K} {s : Slopes K} (h : Flat a s) : Flat a s.hi3 := h

theorem Flat.hi2 {a : K} {s : Slopes K} (h1 : s.m1 = a) (h2 : s.m2 = a) (h3 : s.m3 = a) :
    Flat a s.hi2 := by
  refine ⟨h1, h2, h3, ?_⟩
  show 2 * s.m3 - s.m2 = a; rw [h2, h3]; ring

theorem akimaSlopes_linear (chain : Bool) {n : Nat} {g v : Nat → K} {a b : K} (hn : 4 ≤ n)
    (hg : StrictOn n g) (hv : ∀ i, v i = a * g i + b) (idx : Nat) (hi : idx + 1 < n) :
    Flat a (akimaSlopes chain n g v idx) := by
  have sl : ∀ i, i + 1 < n → slopeAt g v i = a := slope_linear hg hv
  have r3 : (akimaRaw n g v idx).m3 = a := sl idx hi
  have r1 : 2 ≤ idx → (akimaRaw n g v idx).m1 = a := by
    intro h; show (if 2 ≤ idx then slopeAt g v (idx - 2) else 0) = a
    rw [if_pos h]; exact sl _ (by omega)
  have r2 : 1 ≤ idx → (akimaRaw n g v idx).m2 = a := by
    intro h; show (if 1 ≤ idx then slopeAt g v (idx - 1) else 0) = a
    rw [if_pos h]; exact sl _ (by omega)
  have r4 : idx + 2 < n → (akimaRaw n g v idx).m4 = a := by
    intro h; show (if idx + 2 < n then slopeAt g v (idx + 1) else 0) = a
    rw [if_pos h]; exact sl _ (by omega)
  unfold akimaSlopes
  by_cases c0 : idx = 0
  · have e1 : ¬ idx = 1 := by omega
    have e3 : ¬ idx = n - 3 := by omega
    have e2 : ¬ idx = n - 2 := by omega
    cases chain <;>
      simp only [if_pos c0, if_neg e1, if_neg e3, if_neg e2, ↓reduceIte, Bool.false_eq_true] <;>
      exact Flat.lo0 r3 (r4 (by omega))
  · by_cases c1 : idx = 1
    · have e2 : ¬ idx = n - 2 := by omega
      have f1 : Flat a (akimaRaw n g v idx).lo1 := Flat.lo1 (r2 (by omega)) r3 (r4 (by omega))
      cases chain
      · simp only [if_neg c0, if_pos c1, if_neg e2, ↓reduceIte, Bool.false_eq_true]
        split_ifs
        · exact f1.hi3
        · exact f1
      · simp only [if_neg c0, if_pos c1, ↓reduceIte]
        exact f1
    · by_cases c3 : idx = n - 3
      · have e2 : ¬ idx = n - 2 := by omega
        have f : Flat a (akimaRaw n g v idx) := ⟨r1 (by omega), r2 (by omega), r3, r4 (by omega)⟩
        cases chain <;>
          simp only [if_neg c0, if_neg c1, if_pos c3, if_neg e2, ↓reduceIte, Bool.false_eq_true] <;>
          exact f.hi3
      · by_cases c2 : idx = n - 2
        · cases chain <;>
            simp only [if_neg c0, if_neg c1, if_neg c3, if_pos c2, ↓reduceIte, Bool.false_eq_true] <;>
            exact Flat.hi2 (r1 (by omega)) (r2 (by omega)) r3
        · have f : Flat a (akimaRaw n g v idx) := ⟨r1 (by omega), r2 (by omega), r3, r4 (by omega)⟩
          cases chain <;>
            simp only [if_neg c0, if_neg c1, if_neg c3, if_neg c2, ↓reduceIte, Bool.false_eq_true] <;>
            exact f

theorem akima_node (fix : Bool) (eps : K) : KNode 4 (akimaK fix eps) := by
  intro n g v idx i hn hg hi hcase
  have h1 : ¬ idx = n - 1 := by omega
  have hge : ¬ g i < g 0 := not_lt.mpr (hg.le (Nat.zero_le i) (by omega))
  unfold akimaK
  simp only [h1, if_false, hge, and_false]
  rcases hcase with h | h
  · subst h
    simp only [sub_self]
    exact akimaPoly_at_left _ _ _ _ _ _ _
  · subst h
    simp only [if_true]
    exact akimaPoly_at_right _ _ _ _ _ _ _ (hg.sub_ne' (Nat.lt_succ_self idx) hi)
      (akimaSlopes_m3 _ _ _ _ _)

theorem akima_rep (fix : Bool) (eps : K) (h0 : 0 ≤ eps) : KRep 4 1 (akimaK fix eps) := by
  intro n g idx x C hn hg hi
  have hv : ∀ i, (fun i => psum C (g i) (1 + 1)) i = C 1 * g i + C 0 := fun i => psum_two C (g i)
  rw [psum_two]
  generalize (fun i => psum C (g i) (1 + 1)) = v at hv
  unfold akimaK
  by_cases hl : idx = n - 1
  · -- above the table: linear continuation from the last node
    simp only [hl, if_true]
    obtain ⟨m1, m2, m3, m4⟩ := akimaSlopes_linear (!fix) hn hg hv (n - 2) (by omega)
    rw [akimaPoly_const_slope false false eps (C 1) _ 1 _ _ _ _ h0 (by simp) m1 m2 m3 m4]
    have e : n - 2 + 1 = n - 1 := by omega
    have c1 : ¬ ((1 : Int) = 0) := by decide
    simp only [e, hv, c1, if_true, if_false]
    ring
  · simp only [hl, if_false]
    by_cases hb : idx = 0 ∧ x < g 0
    · obtain ⟨hb0, hb1⟩ := hb
      subst hb0
      obtain ⟨m1, m2, m3, m4⟩ := akimaSlopes_linear (!fix) hn hg hv 0 (by omega)
      simp only [hb1, and_self, if_true]
      rw [akimaPoly_const_slope false false eps (C 1) _ (-1) _ _ _ _ h0 (by simp) m1 m2 m3 m4]
      have c1 : ¬ ((-1 : Int) = 0) := by decide
      have c2 : ¬ ((-1 : Int) = 1) := by decide
      simp only [hv, c1, c2, if_false]
      ring
    · obtain ⟨m1, m2, m3, m4⟩ := akimaSlopes_linear (!fix) hn hg hv idx (by omega)
      simp only [hb, if_false]
      rw [akimaPoly_const_slope false false eps (C 1) _ 0 _ _ _ _ h0 (by simp) m1 m2 m3 m4]
      have c1 : ¬ ((0 : Int) = 1) := by decide
      simp only [hv, c1, if_true, if_false]
      ring

/-! ### natural cubic spline -/

theorem cubicFwd_linear {n : Nat} {g v : Nat → K} {a b : K} (hg : StrictOn n g)
    (hv : ∀ i, v i = a * g i + b) :
    ∀ (cnt i : Nat) (sd t : K), 1 ≤ i → i + cnt < n → t = 0 →
      ∀ p ∈ cubicFwd g v cnt i sd t, p.2 = 0
  | 0, _, _, _, _, _, _ => by intro p hp; simp [cubicFwd] at hp
  | cnt + 1, i, sd, t, hi, hc, ht => by
    intro p hp
    have s1 := slope_linear hg hv i (by omega)
    have s0 := slope_linear hg hv (i - 1) (by omega)
    have ei : i - 1 + 1 = i := by omega
    unfold slopeAt at s0 s1
    rw [ei] at s0
    simp only [cubicFwd] at hp
    have hnew : (6 * ((v (i + 1) - v i) / (g (i + 1) - g i) - (v i - v (i - 1)) / (g i - g (i - 1))) /
        (g (i + 1) - g (i - 1)) - (g i - g (i - 1)) / (g (i + 1) - g (i - 1)) * t) *
        (1 / ((g i - g (i - 1)) / (g (i + 1) - g (i - 1)) * sd + 2)) = 0 := by
      rw [s1, s0, ht]; simp
    rcases List.mem_cons.mp hp with h | h
    · rw [h]; exact hnew
    · exact cubicFwd_linear hg hv cnt (i + 1) _ _ (by omega) (by omega) hnew p h

theorem cubicBack_zero : ∀ (l : List (K × K)), (∀ p ∈ l, p.2 = 0) → ∀ y ∈ cubicBack l, y = 0
  | [], _ => by intro y hy; simp [cubicBack] at hy
  | (p, t) :: rest, h => by
    intro y hy
    have ih := cubicBack_zero rest (fun q hq => h q (List.mem_cons_of_mem _ hq))
    have ht : t = 0 := h (p, t) List.mem_cons_self
    have hhead : (cubicBack rest).headD 0 = 0 := by
      cases hr : cubicBack rest with
      | nil => rfl
      | cons z zs => exact ih z (by rw [hr]; exact List.mem_cons_self)
    simp only [cubicBack] at hy
    rcases List.mem_cons.mp hy with e | e
    · rw [e, hhead, ht]; ring
    · exact ih y e

theorem getD_all_zero : ∀ (l : List K) (i : Nat), (∀ y ∈ l, y = 0) → l.getD i 0 = 0
  | [], _, _ => by simp
  | y :: ys, 0, h => by simpa using h y List.mem_cons_self
  | y :: ys, i + 1, h => by
    simpa using getD_all_zero ys i (fun z hz => h z (List.mem_cons_of_mem _ hz))

theorem cubicSecond_linear {n : Nat} {g v : Nat → K} {a b : K} (hn : 2 ≤ n) (hg : StrictOn n g)
    (hv : ∀ i, v i = a * g i + b) (i : Nat) : (cubicSecond n g v).getD i 0 = 0 := by
  apply getD_all_zero
  intro y hy
  unfold cubicSecond at hy
  rcases List.mem_cons.mp hy with e | e
  · exact e
  · rcases List.mem_append.mp e with e | e
    · exact cubicBack_zero _ (cubicFwd_linear hg hv (n - 2) 1 0 0 (le_refl _) (by omega) rfl) y e
    · simpa using e

theorem cubic_node : KNode 4 (cubicK (K := K)) := by
  intro n g v idx i hn hg hi hcase
  have h1 : ¬ idx = n - 1 := by omega
  have hne : g (idx + 1) - g idx ≠ 0 := hg.sub_ne' (Nat.lt_succ_self idx) hi
  unfold cubicK
  simp only [h1, if_false]
  generalize (cubicSecond n g v).getD idx 0 = s0
  generalize (cubicSecond n g v).getD (idx + 1) 0 = s1
  rcases hcase with h | h
  · subst h; field_simp; ring
  · subst h; field_simp; ring

theorem cubic_rep : KRep 4 1 (cubicK (K := K)) := by
  intro n g idx x C hn hg hi
  have hv : ∀ i, (fun i => psum C (g i) (1 + 1)) i = C 1 * g i + C 0 := fun i => psum_two C (g i)
  rw [psum_two]
  generalize (fun i => psum C (g i) (1 + 1)) = v at hv
  unfold cubicK
  simp only [cubicSecond_linear (by omega) hg hv]
  have hlt : (if idx = n - 1 then idx - 1 else idx) + 1 < n := by split_ifs <;> omega
  generalize (if idx = n - 1 then idx - 1 else idx) = j at hlt
  have hne : g (j + 1) - g j ≠ 0 := hg.sub_ne' (Nat.lt_succ_self j) hlt
  rw [hv, hv]
  field_simp
  ring

end OMV.C15
