/-
Helper definitions and lemmas for the C20 property theorems (list algebra of the broadcast
operations, `mapE`, dot products).
-/
import OMV.Model.C20
import Mathlib.Algebra.Order.Field.Basic
import Mathlib.Tactic.Ring
import Mathlib.Tactic.FieldSimp
import Mathlib.Tactic.Linarith

set_option linter.unusedSectionVars false
set_option linter.unusedVariables false

namespace OMV.C20

variable {K : Type}

/-! ### predicates on scaling values -/

/-- Every element of a scaling value satisfies `P`. -/
def Sv.All (P : K → Prop) : Sv K → Prop
  | .scalar x => P x
  | .array l => ∀ x ∈ l, P x

/-- Same under Python `None` (no condition). -/
def OptAll (P : K → Prop) : Option (Sv K) → Prop
  | none => True
  | some v => v.All P

theorem Sv.bcast_length {v : Sv K} {n : Nat} {l : List K} (h : v.bcast n = .ok l) :
    l.length = n := by
  cases v with
  | scalar x => simp [Sv.bcast] at h; subst h; simp
  | array m =>
    simp only [Sv.bcast] at h
    by_cases hm : m.length = n
    · simp [hm] at h; subst h; exact hm
    · simp only [hm, if_false] at h
      match m, h with
      | [x], h => simp at h; subst h; simp

theorem Sv.bcast_all {P : K → Prop} {v : Sv K} {n : Nat} {l : List K} (h : v.bcast n = .ok l)
    (hP : v.All P) : ∀ x ∈ l, P x := by
  cases v with
  | scalar x =>
    simp [Sv.bcast] at h; subst h
    intro y hy; rw [List.mem_replicate] at hy; rw [hy.2]; exact hP
  | array m =>
    simp only [Sv.bcast] at h
    by_cases hm : m.length = n
    · simp [hm] at h; subst h; exact hP
    · simp only [hm, if_false] at h
      match m, h, hP with
      | [x], h, hP =>
        simp at h; subst h
        intro y hy; rw [List.mem_replicate] at hy; rw [hy.2]; exact hP x (by simp)

theorem bcastOp_ok {f : K → K → K} {d d' : List K} {a : Sv K} (h : bcastOp f d a = .ok d') :
    ∃ l, a.bcast d.length = .ok l ∧ l.length = d.length ∧ d' = List.zipWith f d l := by
  unfold bcastOp at h
  cases hb : a.bcast d.length with
  | error e => rw [hb] at h; cases h
  | ok l =>
    rw [hb] at h
    refine ⟨l, rfl, Sv.bcast_length hb, ?_⟩
    cases h; rfl

theorem bcastOp_of_bcast {g : K → K → K} {d : List K} {a : Sv K} {n : Nat} {l : List K}
    (hb : a.bcast n = .ok l) (hd : d.length = n) : bcastOp g d a = .ok (List.zipWith g d l) := by
  unfold bcastOp; rw [hd, hb]

/-- Two elementwise operations that cancel, lifted to lists. -/
theorem zipWith_cancel {f g : K → K → K} {P : K → Prop} (hfg : ∀ x y, P y → g (f x y) y = x) :
    ∀ (d l : List K), l.length = d.length → (∀ y ∈ l, P y) →
      List.zipWith g (List.zipWith f d l) l = d
  | [], [], _, _ => rfl
  | [], _ :: _, h, _ => by simp at h
  | _ :: _, [], h, _ => by simp at h
  | x :: d, y :: l, h, hP => by
    simp only [List.zipWith_cons_cons]
    rw [hfg x y (hP y (by simp)),
      zipWith_cancel hfg d l (by simpa using h) (fun z hz => hP z (by simp [hz]))]

/-- `vec f= v` followed by `vec g= v` restores the vector when `g` cancels `f`. -/
theorem optOp_inv {f g : K → K → K} {P : K → Prop} (hfg : ∀ x y, P y → g (f x y) y = x)
    {d d' : List K} {v : Option (Sv K)} (hP : OptAll P v) (h : optOp f d v = .ok d') :
    optOp g d' v = .ok d := by
  cases v with
  | none => simp [optOp] at h ⊢; exact h.symm
  | some a =>
    simp only [optOp] at h ⊢
    obtain ⟨l, hb, hl, rfl⟩ := bcastOp_ok h
    have hlen : (List.zipWith f d l).length = d.length := by simp [hl]
    rw [bcastOp_of_bcast hb hlen, zipWith_cancel hfg d l hl (Sv.bcast_all hb hP)]

/-! ### `mapE` -/

@[simp] theorem bindE_ok {α β : Type} (a : α) (f : α → Except Err β) : bindE (.ok a) f = f a := rfl
@[simp] theorem bindE_error {α β : Type} (e : Err) (f : α → Except Err β) :
    bindE (.error e) f = .error e := rfl
@[simp] theorem mapOk_ok {α β : Type} (g : α → β) (a : α) : mapOk g (.ok a : Except Err α) = .ok (g a) :=
  rfl
@[simp] theorem mapOk_error {α β : Type} (g : α → β) (e : Err) :
    mapOk g (.error e : Except Err α) = .error e := rfl

theorem mapE_append {α β : Type} (f : α → Except Err β) (l1 l2 : List α) :
    mapE f (l1 ++ l2) = bindE (mapE f l1) (fun r1 => bindE (mapE f l2) (fun r2 => .ok (r1 ++ r2))) := by
  induction l1 with
  | nil =>
    simp only [List.nil_append, mapE, bindE_ok]
    cases mapE f l2 <;> rfl
  | cons a as ih =>
    simp only [List.cons_append, mapE, ih]
    cases f a with
    | error e => rfl
    | ok b =>
      cases mapE f as with
      | error e => rfl
      | ok r1 =>
        cases mapE f l2 with
        | error e => rfl
        | ok r2 => rfl

theorem mapE_map {α β γ : Type} (g : α → β) (f : β → Except Err γ) (l : List α) :
    mapE f (l.map g) = mapE (fun a => f (g a)) l := by
  induction l with
  | nil => rfl
  | cons a as ih => simp only [List.map_cons, mapE, ih]

/-! ### bounds -/

theorem Sv.strict_length {v : Sv K} {n : Nat} {l : List K} (h : v.strict n = .ok l) :
    l.length = n := by
  cases v with
  | scalar x => simp [Sv.strict] at h; subst h; simp
  | array m =>
    simp only [Sv.strict] at h
    by_cases hm : m.length = n
    · simp [hm] at h; subst h; exact hm
    · simp [hm] at h

section BoundLemmas
variable [Add K] [Mul K] [Neg K] [LE K] [DecidableLE K]

theorem zip3With_boundElemOpt_some (inf : K) (b : Bool) :
    ∀ (arr la ls : List K),
      zip3With (fun v a s => boundElemOpt inf b a s v) arr (la.map some) (ls.map some)
        = zip3With (fun v a s => boundElem inf b a s v) arr la ls
  | [], _, _ => by simp [zip3With]
  | _ :: _, [], _ => by simp [zip3With]
  | _ :: _, _ :: _, [] => by simp [zip3With]
  | v :: arr, a :: la, s :: ls => by
    simp only [List.map_cons, zip3With, zip3With_boundElemOpt_some inf b arr la ls]
    congr 1

theorem zip3With_boundElem_all_inf (inf : K) (b : Bool) :
    ∀ (arr la ls : List K), arr.all (isInfBound inf b) = true → la.length = arr.length →
      ls.length = arr.length →
      zip3With (fun v a s => boundElem inf b a s v) arr la ls
        = arr.map (fun _ => sentinel inf b)
  | [], _, _, _, _, _ => by simp [zip3With]
  | _ :: _, [], _, _, h, _ => by simp at h
  | _ :: _, _ :: _, [], _, _, h => by simp at h
  | v :: arr, a :: la, s :: ls, hall, h1, h2 => by
    simp only [List.all_cons, Bool.and_eq_true] at hall
    simp only [zip3With, List.map_cons]
    rw [zip3With_boundElem_all_inf inf b arr la ls hall.2 (by simpa using h1) (by simpa using h2)]
    congr 1
    simp [boundElem, hall.1]

end BoundLemmas

/-! ### the pair of scaled bounds -/

theorem zip3With_length_eq {α β γ δ : Type} (f : α → β → γ → δ) (n : Nat) :
    ∀ (a : List α) (b : List β) (c : List γ), a.length = n → b.length = n → c.length = n →
      (zip3With f a b c).length = n := by
  induction n with
  | zero =>
    intro a b c ha hb hc
    cases a with
    | nil => simp [zip3With]
    | cons _ _ => simp at ha
  | succ k ih =>
    intro a b c ha hb hc
    match a, b, c, ha, hb, hc with
    | x :: a, y :: b, z :: c, ha, hb, hc =>
      simp only [zip3With, List.length_cons]
      rw [ih a b c (by simpa using ha) (by simpa using hb) (by simpa using hc)]

theorem zip3With_map_left {α α' β γ δ : Type} (f : α' → β → γ → δ) (g : α → α') :
    ∀ (a : List α) (b : List β) (c : List γ),
      zip3With f (a.map g) b c = zip3With (fun x y z => f (g x) y z) a b c
  | [], _, _ => by simp [zip3With]
  | _ :: _, [], _ => by simp [zip3With]
  | _ :: _, _ :: _, [] => by simp [zip3With]
  | x :: a, y :: b, z :: c => by simp [zip3With, zip3With_map_left f g a b c]

theorem Sv.strict_bcast {v : Sv K} {n : Nat} {l : List K} (h : v.strict n = .ok l) :
    v.bcast n = .ok l := by
  cases v with
  | scalar x => simpa [Sv.strict, Sv.bcast] using h
  | array m =>
    simp only [Sv.strict] at h
    by_cases hm : m.length = n
    · simp [hm] at h; subst h; simp [Sv.bcast, hm]
    · simp [hm] at h

section SwapLemmas
variable [Neg K] [LE K] [DecidableLE K]

theorem Sv.strict_any_false {p : K → Bool} {v : Sv K} {n : Nat} {l : List K}
    (h : v.strict n = .ok l) (hp : v.any p = false) : ∀ s ∈ l, p s = false := by
  cases v with
  | scalar x =>
    simp [Sv.strict] at h; subst h
    intro s hs; rw [(List.mem_replicate.mp hs).2]; exact hp
  | array m =>
    simp only [Sv.strict] at h
    by_cases hm : m.length = n
    · simp [hm] at h; subst h
      intro s hs
      simp only [Sv.any, List.any_eq_false] at hp
      simpa using hp s hs
    · simp [hm] at h

theorem zip3With_swap_id (inf : K) (g : K → Bool) :
    ∀ (sl lo up : List K), (∀ s ∈ sl, g s = false) → sl.length = lo.length →
      up.length = lo.length →
      zip3With (fun s l u => (swapElem inf (g s) l u).1) sl lo up = lo ∧
      zip3With (fun s l u => (swapElem inf (g s) l u).2) sl lo up = up
  | [], [], [], _, _, _ => by simp [zip3With]
  | [], _ :: _, _, _, h, _ => by simp at h
  | _ :: _, [], _, _, h, _ => by simp at h
  | [], [], _ :: _, _, _, h => by simp at h
  | _ :: _, _ :: _, [], _, _, h => by simp at h
  | s :: sl, l :: lo, u :: up, hg, h1, h2 => by
    have ih := zip3With_swap_id inf g sl lo up (fun x hx => hg x (by simp [hx]))
      (by simpa using h1) (by simpa using h2)
    have hs : g s = false := hg s (by simp)
    have e : swapElem inf false l u = (l, u) := by simp [swapElem]
    simp only [zip3With, hs, e, ih.1, ih.2, and_self]

end SwapLemmas

section ScaleOrder
variable [Field K] [LinearOrder K] [IsStrictOrderedRing K]

theorem scale_le_pos (a s u v : K) (hs : 0 < s) : scaleElem a s u ≤ scaleElem a s v ↔ u ≤ v := by
  unfold scaleElem
  rw [mul_le_mul_iff_of_pos_right hs, add_le_add_iff_right]

theorem scale_le_neg (a s u v : K) (hs : s < 0) : scaleElem a s u ≤ scaleElem a s v ↔ v ≤ u := by
  unfold scaleElem
  rw [mul_le_mul_right_of_neg hs, add_le_add_iff_right]

end ScaleOrder

/-! ### dot products over records -/

/-- One design-variable element seen by the chain rule: Jacobian entry of the response row,
adder and scaler of the design variable, and two scaled points. -/
structure Col (K : Type) where
  r : K
  a : K
  s : K
  y : K
  y' : K

/-- One active constraint element in a stationarity equation for one design-variable element:
its Jacobian entry, its scaler and its scaled multiplier. -/
structure ConRow (K : Type) where
  G : K
  sg : K
  lam : K

variable [Field K]

/-! ### what a successful (un)scaling of one slice did -/

theorem vecScale_unscaled {a s : Option (Sv K)} {d : List K} {w : OVec K} :
    vecScale a s ⟨d, false⟩ = .ok w ↔
      ∃ d1 d2, optOp (· + ·) d a = .ok d1 ∧ optOp (· * ·) d1 s = .ok d2 ∧ w = ⟨d2, true⟩ := by
  simp only [vecScale, Bool.false_eq_true, if_false]
  cases h1 : optOp (· + ·) d a with
  | error e => simp
  | ok d1 =>
    cases h2 : optOp (· * ·) d1 s with
    | error e => simp [h2]
    | ok d2 => simp [h2, eq_comm]

theorem vecUnscale_scaled {a s : Option (Sv K)} {y : List K} {w : OVec K} :
    vecUnscale a s ⟨y, true⟩ = .ok w ↔
      ∃ d1 d2, optOp (· / ·) y s = .ok d1 ∧ optOp (· - ·) d1 a = .ok d2 ∧ w = ⟨d2, false⟩ := by
  simp only [vecUnscale, Bool.not_true, Bool.false_eq_true, if_false]
  cases h1 : optOp (· / ·) y s with
  | error e => simp
  | ok d1 =>
    cases h2 : optOp (· - ·) d1 a with
    | error e => simp [h2]
    | ok d2 => simp [h2, eq_comm]

theorem vecScale_arrays (A S d : List K) (hA : A.length = d.length) (hS : S.length = d.length) :
    vecScale (some (Sv.array A)) (some (Sv.array S)) ⟨d, false⟩
      = .ok ⟨List.zipWith (· * ·) (List.zipWith (· + ·) d A) S, true⟩ := by
  refine vecScale_unscaled.mpr ⟨List.zipWith (· + ·) d A, _, ?_, ?_, rfl⟩
  · exact bcastOp_of_bcast (n := d.length) (by simp [Sv.bcast, hA]) rfl
  · exact bcastOp_of_bcast (n := d.length) (by simp [Sv.bcast, hS]) (by simp [hA])

theorem optAll_true (v : Option (Sv K)) : OptAll (fun _ => True) v := by
  cases v with
  | none => trivial
  | some v => cases v <;> simp [OptAll, Sv.All]

/-! ### Jacobian blocks -/

theorem colScale_zipWith (si : Sv K) (nc : Nat) (li : List K) (hsi : si.bcast nc = .ok li) :
    ∀ (lo : List K) (J : Block K), (∀ r ∈ J, r.length = nc) →
      colScale si (List.zipWith (fun s r => r.map (fun x => s * x)) lo J)
        = .ok (List.zipWith (fun s r => List.zipWith (fun x t => s * x * (1 / t)) r li) lo J)
  | [], _, _ => by simp [colScale, mapE]
  | _ :: _, [], _ => by simp [colScale, mapE]
  | s :: lo, r :: J, h => by
    have ih := colScale_zipWith si nc li hsi lo J (fun r' hr' => h r' (by simp [hr']))
    have hr : r.length = nc := h r (by simp)
    simp only [colScale] at ih ⊢
    simp only [List.zipWith_cons_cons, mapE, List.length_map, hr, hsi, ih, List.zipWith_map_left,
      bindE_ok]

theorem flat_inner (F : String → Block K → Except Err (Block K)) (o : String) :
    ∀ (l : List (String × Block K)),
      mapE (fun wb : String × Block K => mapOk (fun b => ((o, wb.1), b)) (F wb.1 wb.2)) l
        = mapOk (fun inner => inner.map (fun wb => ((o, wb.1), wb.2)))
            (mapE (fun wb : String × Block K => mapOk (fun b => (wb.1, b)) (F wb.1 wb.2)) l)
  | [] => by simp [mapE]
  | wb :: l => by
    simp only [mapE, flat_inner F o l]
    cases F wb.1 wb.2 with
    | error e => rfl
    | ok b =>
      cases mapE (fun wb : String × Block K => mapOk (fun b => (wb.1, b)) (F wb.1 wb.2)) l with
      | error e => rfl
      | ok inner => rfl

/-! ### multipliers -/

theorem Sv.bcast_map {v : Sv K} {n : Nat} {l : List K} (g : K → K) (h : v.bcast n = .ok l) :
    (v.map g).bcast n = .ok (l.map g) := by
  cases v with
  | scalar x => simp [Sv.bcast, Sv.map] at h ⊢; subst h; simp
  | array m =>
    simp only [Sv.bcast, Sv.map, List.length_map] at h ⊢
    by_cases hm : m.length = n
    · simp [hm] at h ⊢; subst h; rfl
    · simp only [hm, if_false] at h ⊢
      match m, h with
      | [x], h => simp at h ⊢; subst h; simp

theorem Sv.zip_scalar_right (f : K → K → K) (s : Sv K) (b : K) :
    Sv.zip f s (.scalar b) = .ok (s.map (fun x => f x b)) := by
  cases s <;> rfl

theorem combinedScaler_eq (t : Option (Sv K)) (u : Option K) :
    combinedScaler t u = (t.getD (.scalar 1)).map (fun x => x * u.getD 1) := by
  cases u with
  | none =>
    simp only [combinedScaler, Option.getD_none, mul_one]
    cases t.getD (Sv.scalar 1) <;> simp [Sv.map]
  | some u => simp [combinedScaler]

theorem dot_map_smul_left {α : Type} (l : List α) (u v : α → K) (c : K) :
    dot (l.map (fun x => c * u x)) (l.map v) = c * dot (l.map u) (l.map v) := by
  induction l with
  | nil => simp [dot]
  | cons a as ih => simp only [List.map_cons, dot, ih]; ring

theorem dot_map_congr {α : Type} (l : List α) (u v u' v' : α → K)
    (h : ∀ x ∈ l, u x * v x = u' x * v' x) :
    dot (l.map u) (l.map v) = dot (l.map u') (l.map v') := by
  induction l with
  | nil => simp [dot]
  | cons a as ih =>
    simp only [List.map_cons, dot]
    rw [h a (by simp), ih (fun x hx => h x (by simp [hx]))]

theorem dot_map_sub {α : Type} (l : List α) (u v w : α → K) :
    dot (l.map u) (l.map v) - dot (l.map u) (l.map w) =
      dot (l.map u) (l.map (fun x => v x - w x)) := by
  induction l with
  | nil => simp [dot]
  | cons a as ih => simp only [List.map_cons, dot, ← ih]; ring

end OMV.C20
