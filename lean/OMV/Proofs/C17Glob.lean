/-
C17 helper lemmas: the glob matcher against its declarative relation, `check_path`, and membership
in the filtered variable lists. Core Lean only.
-/
import OMV.Model.C17
namespace OMV.C17


theorem anySuffix_iff (f : Str → Bool) (s : Str) :
    anySuffix f s = true ↔ ∃ s1 s2, s = s1 ++ s2 ∧ f s2 = true := by
  induction s with
  | nil =>
    simp only [anySuffix]
    constructor
    · intro h; exact ⟨[], [], rfl, h⟩
    · rintro ⟨s1, s2, h, hf⟩
      have : s2 = [] := by
        have := congrArg List.length h; simp at this; exact List.eq_nil_of_length_eq_zero (by omega)
      subst this; exact hf
  | cons c cs ih =>
    simp only [anySuffix, Bool.or_eq_true, ih]
    constructor
    · rintro (h | ⟨s1, s2, h, hf⟩)
      · exact ⟨[], c :: cs, rfl, h⟩
      · exact ⟨c :: s1, s2, by simp [h], hf⟩
    · rintro ⟨s1, s2, h, hf⟩
      cases s1 with
      | nil => left; simp at h; subst h; exact hf
      | cons d s1 =>
        right; simp at h; exact ⟨s1, s2, h.2, hf⟩

theorem globMatch_cons (p : Char) (ps s : Str) :
    globMatch (p :: ps) s =
      (if p = '*' then anySuffix (globMatch ps) s
       else match s with
         | [] => false
         | c :: cs => (p = '?' || p = c) && globMatch ps cs) := by
  cases s <;> rfl

theorem glob_sound : ∀ (p s : Str), globMatch p s = true → Glob p s := by
  intro p
  induction p with
  | nil => intro s h; cases s with
    | nil => exact Glob.nil
    | cons c cs => simp [globMatch] at h
  | cons p ps ih =>
    intro s h
    rw [globMatch_cons] at h
    by_cases hp : p = '*'
    · subst hp
      simp only [if_true] at h
      obtain ⟨s1, s2, rfl, hf⟩ := (anySuffix_iff _ _).mp h
      exact Glob.star ps s1 s2 (ih s2 hf)
    · simp only [hp, if_false] at h
      cases s with
      | nil => simp at h
      | cons c cs =>
        simp only [Bool.and_eq_true, Bool.or_eq_true, decide_eq_true_eq] at h
        obtain ⟨h1, h2⟩ := h
        by_cases hq : p = '?'
        · subst hq; exact Glob.any ps c cs (ih cs h2)
        · rcases h1 with h1 | h1
          · exact absurd h1 hq
          · subst h1; exact Glob.lit p ps cs hp hq (ih cs h2)

theorem glob_complete : ∀ (p s : Str), Glob p s → globMatch p s = true := by
  intro p s h
  induction h with
  | nil => simp [globMatch]
  | star ps s1 s2 _ ih =>
    rw [globMatch_cons]; simp only [if_true]
    exact (anySuffix_iff _ _).mpr ⟨s1, s2, rfl, ih⟩
  | any ps c cs _ ih =>
    rw [globMatch_cons]; simp [ih]
  | lit p ps cs hp hq _ ih =>
    rw [globMatch_cons]; simp [hp, ih]



theorem glob_iff (p s : Str) : globMatch p s = true ↔ Glob p s :=
  ⟨glob_sound p s, glob_complete p s⟩

/-- A name is selected by the include/exclude patterns. -/
def Selected (incl excl : List Str) (n : Str) : Prop :=
  (∃ i ∈ incl, Glob i n) ∧ ¬ ∃ x ∈ excl, Glob x n

theorem checkPath_iff (n : Str) (incl excl : List Str) :
    checkPath n incl excl = true ↔ Selected incl excl n := by
  unfold checkPath Selected
  by_cases h : (excl.any fun e => globMatch e n) = true
  · rw [if_pos h]
    simp only [List.any_eq_true, glob_iff] at h
    constructor
    · intro hh; cases hh
    · rintro ⟨_, h2⟩; exact absurd h h2
  · rw [if_neg h]
    simp only [List.any_eq_true, glob_iff] at h ⊢
    exact ⟨fun hh => ⟨hh, h⟩, fun hh => hh.1⟩

theorem mem_sel {α : Type} (l : List α) (f g : α → Str) (incl excl : List Str) (v : Str) :
    v ∈ (l.filter (fun x => checkPath (f x) incl excl)).map g ↔
      ∃ x ∈ l, g x = v ∧ Selected incl excl (f x) := by
  simp only [List.mem_map, List.mem_filter, checkPath_iff]
  constructor
  · rintro ⟨x, ⟨hx, hs⟩, rfl⟩; exact ⟨x, hx, rfl, hs⟩
  · rintro ⟨x, hx, rfl, hs⟩; exact ⟨x, ⟨hx, hs⟩, rfl⟩

theorem driver_output_spec (o : Opts) (e : Env) (v : Str) :
    v ∈ (driverStored o e).output ↔
      o.recordOutputs = true ∧
      ((∃ x ∈ e.outputs, x.abs = v ∧ Selected o.includes o.excludes x.prom) ∨
       (o.recordDesvars = true ∧ v ∈ e.desvars) ∨
       ((o.recordObjectives = true ∨ o.recordResponses = true) ∧ v ∈ e.objectives) ∨
       ((o.recordConstraints = true ∨ o.recordResponses = true) ∧ v ∈ e.constraints) ∨
       (o.recordInputs = true ∧ ∃ x ∈ e.inputs, x.src = v ∧ Selected o.includes o.excludes x.prom)) := by
  unfold driverStored driverFilter
  cases h1 : o.recordOutputs <;> cases h2 : o.recordDesvars <;> cases h3 : o.recordObjectives <;>
    cases h4 : o.recordConstraints <;> cases h5 : o.recordResponses <;> cases h6 : o.recordInputs <;>
    simp [mem_sel]


end OMV.C17
