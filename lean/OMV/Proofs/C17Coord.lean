/-
C17 helper lemmas: decimal digits, separator-free strings, and the relation between the string
prefix test on rendered coordinates and the list prefix on recording stacks. Core Lean only.
-/
import OMV.Model.C17
set_option linter.unusedSimpArgs false
namespace OMV.C17


/-! digits -/
theorem natDigitsAux_fuel : ∀ (f1 f2 n : Nat), n < f1 → n < f2 → natDigitsAux f1 n = natDigitsAux f2 n := by
  intro f1
  induction f1 with
  | zero => intro f2 n h; omega
  | succ a ih =>
    intro f2 n h1 h2
    cases f2 with
    | zero => omega
    | succ b =>
      simp only [natDigitsAux]
      by_cases h : n < 10
      · simp [h]
      · simp only [h, if_false]
        rw [ih b (n / 10) (by omega) (by omega)]

theorem natDigits_eq (n : Nat) :
    natDigits n = if n < 10 then [digitChar n] else natDigits (n / 10) ++ [digitChar (n % 10)] := by
  unfold natDigits
  rw [natDigitsAux]
  by_cases h : n < 10
  · simp [h]
  · simp only [h, if_false]
    rw [natDigitsAux_fuel n (n / 10 + 1) (n / 10) (by omega) (by omega)]

theorem digitChar_ne_bar : ∀ d, d < 10 → digitChar d ≠ '|' := by decide

theorem digitChar_inj : ∀ a, a < 10 → ∀ b, b < 10 → digitChar a = digitChar b → a = b := by decide

theorem natDigits_barFree : ∀ n, '|' ∉ natDigits n := by
  intro n
  induction n using Nat.strongRecOn with
  | _ n ih =>
    rw [natDigits_eq]
    by_cases h : n < 10
    · simp only [h, if_true, List.mem_singleton]
      exact fun hh => digitChar_ne_bar n h hh.symm
    · simp only [h, if_false, List.mem_append, List.mem_singleton, not_or]
      exact ⟨ih (n / 10) (by omega), fun hh => digitChar_ne_bar (n % 10) (by omega) hh.symm⟩

theorem natDigits_ne_nil (n : Nat) : natDigits n ≠ [] := by
  rw [natDigits_eq]; by_cases h : n < 10 <;> simp [h]

theorem natDigits_length_ge_two (n : Nat) (h : ¬ n < 10) : 2 ≤ (natDigits n).length := by
  rw [natDigits_eq]; simp only [h, if_false, List.length_append, List.length_singleton]
  have := natDigits_ne_nil (n / 10)
  have : (natDigits (n / 10)).length ≠ 0 := fun hh => this (List.eq_nil_of_length_eq_zero hh)
  omega

theorem natDigits_inj : ∀ a b, natDigits a = natDigits b → a = b := by
  intro a
  induction a using Nat.strongRecOn with
  | _ a ih =>
    intro b hab
    by_cases ha : a < 10
    · by_cases hb : b < 10
      · rw [natDigits_eq a, natDigits_eq b] at hab
        simp only [ha, hb, if_true, List.cons.injEq, and_true] at hab
        exact digitChar_inj a ha b hb hab
      · have h2 := natDigits_length_ge_two b hb
        rw [← hab, natDigits_eq a] at h2; simp [ha] at h2
    · by_cases hb : b < 10
      · have h2 := natDigits_length_ge_two a ha
        rw [hab, natDigits_eq b] at h2; simp [hb] at h2
      · rw [natDigits_eq a, natDigits_eq b] at hab
        simp only [ha, hb, if_false] at hab
        have := List.append_inj' hab (by simp)
        obtain ⟨h1, h2⟩ := this
        have e1 := ih (a / 10) (by omega) (b / 10) h1
        simp only [List.cons.injEq, and_true] at h2
        have e2 := digitChar_inj (a % 10) (by omega) (b % 10) (by omega) h2
        omega

theorem natDigits_prefix : ∀ b a, natDigits a <+: natDigits b → a = b ∨ a ≤ b / 10 := by
  intro b
  induction b using Nat.strongRecOn with
  | _ b ih =>
    intro a h
    by_cases hb : b < 10
    · rw [natDigits_eq b] at h
      simp only [hb, if_true] at h
      rcases List.prefix_cons_iff.mp h with h0 | ⟨t, h1, _⟩
      · exact absurd h0 (natDigits_ne_nil a)
      · left
        have : t = [] := by
          rename_i h2; exact List.prefix_nil.mp h2
        subst this
        apply natDigits_inj
        rw [h1, natDigits_eq b]; simp [hb]
    · rw [natDigits_eq b] at h
      simp only [hb, if_false] at h
      rcases List.prefix_concat_iff.mp h with h0 | h0
      · left; apply natDigits_inj; rw [h0, natDigits_eq b]; simp [hb]
      · right
        rcases ih (b / 10) (by omega) a h0 with h1 | h1
        · omega
        · have : b / 10 / 10 ≤ b / 10 := Nat.div_le_self _ _
          omega




/-- no separator inside -/
def BarFree (s : Str) : Prop := '|' ∉ s

theorem prefixBar : ∀ (u u' X Y : Str), BarFree u → BarFree u' →
    ((u ++ '|' :: X) <+: (u' ++ '|' :: Y) ↔ u = u' ∧ X <+: Y) := by
  intro u
  induction u with
  | nil =>
    intro u' X Y _ hu'
    cases u' with
    | nil => simp [List.cons_prefix_cons]
    | cons c u'' =>
      simp only [List.nil_append, List.cons_append, List.cons_prefix_cons]
      constructor
      · rintro ⟨h, _⟩; subst h; exact absurd (List.mem_cons_self) hu'
      · rintro ⟨h, _⟩; cases h
  | cons a u1 ih =>
    intro u' X Y hu hu'
    cases u' with
    | nil =>
      simp only [List.nil_append, List.cons_append, List.cons_prefix_cons]
      constructor
      · rintro ⟨h, _⟩; subst h; exact absurd (List.mem_cons_self) hu
      · rintro ⟨h, _⟩; cases h
    | cons c u'' =>
      have hu1 : BarFree u1 := fun h => hu (List.mem_cons_of_mem _ h)
      have hu2 : BarFree u'' := fun h => hu' (List.mem_cons_of_mem _ h)
      simp only [List.cons_append, List.cons_prefix_cons, ih u'' X Y hu1 hu2, List.cons.injEq]
      constructor
      · rintro ⟨h1, h2, h3⟩; exact ⟨⟨h1, h2⟩, h3⟩
      · rintro ⟨⟨h1, h2⟩, h3⟩; exact ⟨h1, h2, h3⟩

theorem prefixNoBar (u X u' : Str) (hu' : BarFree u') : ¬ (u ++ '|' :: X) <+: u' := by
  rintro ⟨t, ht⟩
  apply hu'
  rw [← ht]; simp

theorem prefix_of_barFree (u u' Y : Str) (hu : BarFree u) :
    u <+: u' ++ '|' :: Y ↔ u <+: u' := by
  constructor
  · rintro ⟨t, ht⟩
    rcases List.append_eq_append_iff.mp ht with ⟨a', h1, h2⟩ | ⟨c', h1, h2⟩
    · exact ⟨a', h1.symm⟩
    · cases c' with
      | nil => simp at h1; exact ⟨[], by simp [h1]⟩
      | cons d c'' =>
        simp only [List.cons_append, List.cons.injEq] at h2
        exfalso; apply hu; rw [h1, ← h2.1]; simp
  · intro h; exact List.IsPrefix.trans h (List.prefix_append _ _)

/-- the part of a rendered stack after the first level -/
def sepTail : Coord → Str
  | [] => []
  | x :: rest => '|' :: renderStack (x :: rest)

theorem renderStack_cons (n : Str) (c : Nat) (rest : Coord) :
    renderStack ((n, c) :: rest) = n ++ '|' :: (natDigits c ++ sepTail rest) := by
  cases rest <;> simp [renderStack, sepTail]

/-- names of a coordinate contain no separator -/
def WF (c : Coord) : Prop := ∀ p ∈ c, BarFree p.1

/-- `k` continues `c` at its last level with a counter whose decimal digits extend those of `c`'s. -/
def Collide (c k : Coord) : Prop :=
  ∃ P nm a b rest, c = P ++ [(nm, a)] ∧ k = P ++ (nm, b) :: rest ∧
    natDigits a <+: natDigits b ∧ a ≠ b

theorem render_prefix_of_prefix : ∀ (c k : Coord), c <+: k → renderStack c <+: renderStack k := by
  intro c
  induction c with
  | nil => intro k _; exact List.nil_prefix
  | cons x c' ih =>
    intro k h
    cases k with
    | nil => simp at h
    | cons y k' =>
      obtain ⟨hxy, h'⟩ := List.cons_prefix_cons.mp h
      subst hxy
      obtain ⟨n, a⟩ := x
      rw [renderStack_cons, renderStack_cons]
      apply (List.prefix_append_right_inj _).mpr
      apply List.cons_prefix_cons.mpr ⟨rfl, _⟩
      apply (List.prefix_append_right_inj _).mpr
      cases c' with
      | nil => exact List.nil_prefix
      | cons z c'' =>
        cases k' with
        | nil => simp at h'
        | cons w k'' =>
          simp only [sepTail]
          exact List.cons_prefix_cons.mpr ⟨rfl, ih _ h'⟩

theorem prefix_or_collide_of_render_prefix : ∀ (c k : Coord), WF c → WF k →
    renderStack c <+: renderStack k → c <+: k ∨ Collide c k := by
  intro c
  induction c with
  | nil => intro k _ _ _; exact Or.inl List.nil_prefix
  | cons x c' ih =>
    intro k hc hk h
    obtain ⟨n, a⟩ := x
    have hn : BarFree n := hc (n, a) List.mem_cons_self
    have hc' : WF c' := fun p hp => hc p (List.mem_cons_of_mem _ hp)
    cases k with
    | nil =>
      rw [renderStack_cons] at h
      simp only [renderStack, List.prefix_nil] at h
      simp at h
    | cons y k' =>
      obtain ⟨m, b⟩ := y
      have hm : BarFree m := hk (m, b) List.mem_cons_self
      have hk' : WF k' := fun p hp => hk p (List.mem_cons_of_mem _ hp)
      rw [renderStack_cons, renderStack_cons, prefixBar n m _ _ hn hm] at h
      obtain ⟨hnm, h⟩ := h
      subst hnm
      cases c' with
      | nil =>
        simp only [sepTail, List.append_nil] at h
        have hd : natDigits a <+: natDigits b := by
          cases k' with
          | nil => simpa [sepTail] using h
          | cons w k'' =>
            simp only [sepTail] at h
            exact (prefix_of_barFree _ _ _ (natDigits_barFree a)).mp h
        by_cases hab : a = b
        · subst hab; left; exact List.cons_prefix_cons.mpr ⟨rfl, List.nil_prefix⟩
        · right; exact ⟨[], n, a, b, k', rfl, rfl, hd, hab⟩
      | cons z c'' =>
        simp only [sepTail] at h
        cases k' with
        | nil =>
          simp only [sepTail, List.append_nil] at h
          exact absurd h (prefixNoBar _ _ _ (natDigits_barFree b))
        | cons w k'' =>
          simp only [sepTail] at h
          rw [prefixBar _ _ _ _ (natDigits_barFree a) (natDigits_barFree b)] at h
          obtain ⟨hab, h⟩ := h
          have hab := natDigits_inj a b hab
          subst hab
          rcases ih (w :: k'') hc' hk' h with h1 | ⟨P, nm, a', b', rest, e1, e2, e3, e4⟩
          · left; exact List.cons_prefix_cons.mpr ⟨rfl, h1⟩
          · right
            exact ⟨(n, a) :: P, nm, a', b', rest, by simp [e1], by simp [e2], e3, e4⟩

theorem render_prefix_of_collide (c k : Coord) (h : Collide c k) :
    renderStack c <+: renderStack k := by
  obtain ⟨P, nm, a, b, rest, rfl, rfl, hd, _⟩ := h
  induction P with
  | nil =>
    simp only [List.nil_append]
    rw [renderStack_cons, renderStack_cons]
    apply (List.prefix_append_right_inj _).mpr
    apply List.cons_prefix_cons.mpr ⟨rfl, _⟩
    simp only [sepTail, List.append_nil]
    exact List.IsPrefix.trans hd (List.prefix_append _ _)
  | cons p P ih =>
    obtain ⟨n, c⟩ := p
    simp only [List.cons_append]
    rw [renderStack_cons, renderStack_cons]
    apply (List.prefix_append_right_inj _).mpr
    apply List.cons_prefix_cons.mpr ⟨rfl, _⟩
    apply (List.prefix_append_right_inj _).mpr
    cases hP : P ++ [(nm, a)] with
    | nil => simp at hP
    | cons z zs =>
      cases hQ : P ++ (nm, b) :: rest with
      | nil => simp at hQ
      | cons w ws =>
        simp only [sepTail]
        rw [← hP, ← hQ]
        exact List.cons_prefix_cons.mpr ⟨rfl, ih⟩


end OMV.C17
