/-
C27 — helper lemmas, part 5: whole programs (`exec`): the invariant kept by every program without
declarations, the two `temporary()` variants as single statements, read-only dictionaries.
-/
import OMV.Proofs.C27Cur

namespace OMV.C27

/-- Same declarations, valid values, same cache stacks. -/
def Keeps (cfg : Cfg) (s s' : State) : Prop :=
  SameDecls s s' ∧ Good cfg s' ∧ ∀ o, stackOf s'.cache o = stackOf s.cache o

theorem Keeps.refl {cfg : Cfg} {s : State} (hg : Good cfg s) : Keeps cfg s s :=
  ⟨SameDecls.refl s, hg, fun _ => rfl⟩

theorem Keeps.trans {cfg : Cfg} {a b c : State} (h1 : Keeps cfg a b) (h2 : Keeps cfg b c) :
    Keeps cfg a c :=
  ⟨h1.1.trans h2.1, h2.2.1, fun o => (h2.2.2 o).trans (h1.2.2 o)⟩

theorem setOpt_keeps {cfg : Cfg} {s s' : State} {n : String} {v : Val} (hg : Good cfg s)
    (h : setOpt cfg s n v = .ok s') : Keeps cfg s s' := by
  obtain ⟨h1, h2, h3⟩ := setOpt_good hg h
  exact ⟨h2, h1, fun o => by rw [h3]⟩

theorem updateLoop_keeps {cfg : Cfg} :
    ∀ (kvs : List (String × Val)) (s : State), Good cfg s → Keeps cfg s (updateLoop cfg kvs s).1 := by
  intro kvs
  induction kvs with
  | nil => intro s hg; exact Keeps.refl hg
  | cons p rest ih =>
    intro s hg
    obtain ⟨n, v⟩ := p
    cases h : setOpt cfg s n v with
    | error e => simp only [updateLoop, h]; exact Keeps.refl hg
    | ok s' =>
      simp only [updateLoop, h]
      have hk := setOpt_keeps hg h
      exact hk.trans (ih s' hk.2.1)

theorem step_keeps {cfg : Cfg} {s : State} {o : Op} {strict : Bool}
    (hnd : (Prog.op o strict).NoDecl) (hg : Good cfg s) : Keeps cfg s (step cfg s o).1 := by
  cases o with
  | declare n a => exact absurd hnd (by simp [Prog.NoDecl])
  | undeclare n => exact absurd hnd (by simp [Prog.NoDecl])
  | set n v =>
    cases h : setOpt cfg s n v with
    | error e => simp only [step, h]; exact Keeps.refl hg
    | ok s' => simp only [step, h]; exact setOpt_keeps hg h
  | get n =>
    cases h : getOpt s n <;> simp only [step, h] <;> exact Keeps.refl hg
  | update kvs => exact updateLoop_keeps kvs s hg
  | contains n => exact Keeps.refl hg

/-! ### the patched `temporary()` as one statement -/

theorem tempFix_spec {cfg : Cfg} {kw : List (String × Val)} {strict : Bool} {body : State → Res}
    {s : State} (hw : s.readOnly = false) (hg : Good cfg s)
    (hb : ∀ s1, s1.readOnly = false → Good cfg s1 → Keeps cfg s1 (body s1).st) :
    Keeps cfg s (tempFix cfg kw strict body s).st ∧
    ∀ o ∈ kw.map (·.1), ∀ t, s.targetOf o = some t →
      (tempFix cfg kw strict body s).st.valOf t = s.valOf t := by
  obtain ⟨hF, hent⟩ := enterFix_frame (cfg := cfg) hw kw s [] (frameF_nil hg)
  obtain ⟨f1, f2, f3, f4⟩ := hF
  cases he : (enterFix cfg kw s []).2.2 with
  | some e =>
    obtain ⟨s'', r1, r2, r3, r4, r5, r6⟩ := f4 (enterFix cfg kw s []).1 f1 f2 (fun _ => rfl)
    have hst : (tempFix cfg kw strict body s).st = s'' := by
      simp only [tempFix, he, r1]
    rw [hst]
    refine ⟨⟨r2, r3, r4⟩, ?_⟩
    intro o _ t _
    by_cases hT : Touched s (enterFix cfg kw s []).2.1 t
    · exact r5 t hT
    · rw [r6 t hT]; exact f3 t hT
  | none =>
    have hw1 : (enterFix cfg kw s []).1.readOnly = false := by rw [f1.1]; exact hw
    obtain ⟨b1, b2, b3⟩ := hb (enterFix cfg kw s []).1 hw1 f2
    obtain ⟨s'', r1, r2, r3, r4, r5, _⟩ :=
      f4 (body (enterFix cfg kw s []).1).st (f1.trans b1) b2 b3
    have hst : (tempFix cfg kw strict body s).st = s'' := by
      simp only [tempFix, he, r1]
      split <;> rfl
    rw [hst]
    refine ⟨⟨r2, r3, r4⟩, ?_⟩
    intro o ho t hto
    apply r5 t
    refine ⟨o, ?_, hto⟩
    rw [hent he]
    simpa using ho

/-! ### the current `temporary()` as one statement, entered completely and left normally -/

theorem tempCur_spec {cfg : Cfg} {kw : List (String × Val)} {strict : Bool} {body : State → Res}
    {s : State} (hw : s.readOnly = false) (hg : Good cfg s) (hnd : (kw.map (·.1)).Nodup)
    (he : (enterCur cfg kw s).2 = none)
    (hb : Keeps cfg (enterCur cfg kw s).1 (body (enterCur cfg kw s).1).st)
    (hr : (body (enterCur cfg kw s).1).raised = false) :
    Keeps cfg s (tempCur cfg kw strict body s).st ∧
    (DistinctTargets s kw → ∀ o ∈ kw.map (·.1), ∀ t, s.targetOf o = some t →
      (tempCur cfg kw strict body s).st.valOf t = s.valOf t) := by
  obtain ⟨i1, _, i3, _, i5⟩ := enterCur_frame (cfg := cfg) kw s hw hg hnd he
  obtain ⟨b1, b2, b3⟩ := hb
  obtain ⟨s'', j1, j2, j3, j4, j5, j6, _⟩ :=
    i5 (body (enterCur cfg kw s).1).st (i1.trans b1) b2 (fun o _ => b3 o)
  have hst : (tempCur cfg kw strict body s).st = s'' := by
    simp only [tempCur, he, hr, j1]
    simp
  rw [hst]
  refine ⟨⟨j2, j3, ?_⟩, j6⟩
  intro o
  by_cases ho : o ∈ kw.map (·.1)
  · exact j4 o ho
  · rw [j5 o ho, b3 o, i3 o ho]

/-! ### every program without declarations keeps the invariant -/

theorem exec_keeps (cfg : Cfg) :
    ∀ (p : Prog) (s : State), p.NoDecl → s.readOnly = false → Good cfg s →
      (cfg.restoreOnRaise = true ∨ Quiet cfg p s) → Keeps cfg s (exec cfg p s).st := by
  intro p
  induction p with
  | skip => intro s _ _ hg _; exact Keeps.refl hg
  | seq p q ihp ihq =>
    intro s hnd hw hg hq
    have hp := ihp s hnd.1 hw hg (hq.imp id (fun h => h.1))
    simp only [exec]
    split
    · exact hp
    · rename_i hr
      have hr' : (exec cfg p s).raised = false := by simpa using hr
      have hw' : (exec cfg p s).st.readOnly = false := by rw [hp.1.1]; exact hw
      exact hp.trans (ihq _ hnd.2 hw' hp.2.1 (hq.imp id (fun h => h.2 hr')))
  | op o strict => intro s hnd _ hg _; exact step_keeps hnd hg
  | raise => intro s _ _ hg _; exact Keeps.refl hg
  | temp kw strict body ih =>
    intro s hnd hw hg hq
    cases hflag : cfg.restoreOnRaise with
    | true =>
      simp only [exec, hflag, if_true]
      exact (tempFix_spec hw hg (fun s1 hw1 hg1 => ih s1 hnd hw1 hg1 (Or.inl hflag))).1
    | false =>
      have hq' : Quiet cfg (.temp kw strict body) s := by
        rcases hq with h | h
        · rw [hflag] at h; cases h
        · exact h
      obtain ⟨q1, q2, q3, q4⟩ := hq'
      simp only [exec, hflag, Bool.false_eq_true, if_false]
      have hf := enterCur_frame (cfg := cfg) kw s hw hg q1 q2
      have hw1 : (enterCur cfg kw s).1.readOnly = false := by rw [hf.1.1]; exact hw
      exact (tempCur_spec hw hg q1 q2 (ih _ hnd hw1 hf.2.1 (Or.inr q3)) q4).1
  | «catch» body ih =>
    intro s hnd hw hg hq
    exact ih s hnd hw hg hq

/-! ### declare -/

theorem declare_eq (cfg : Cfg) (s : State) (n : String) (a : DeclArgs) :
    declare cfg s n a =
      if a.types ≠ .none ∧ a.types ≠ .one .list ∧ a.values.isSome then (s, some .runtimeError)
      else ({ s with dict := upsert n ⟨a.toDecl, a.default⟩ s.dict },
        match a.default with
        | none => none
        | some v => assertValid cfg.checkValid a.toDecl v) := by
  unfold declare
  split
  · rfl
  · cases a.default <;> rfl

/-- A `declare` that does not raise keeps the invariant (its default was validated). -/
theorem declare_good {cfg : Cfg} {s : State} {n : String} {a : DeclArgs} (hg : Good cfg s)
    (hok : (declare cfg s n a).2 = none) : Good cfg (declare cfg s n a).1 := by
  rw [declare_eq] at hok ⊢
  split at hok
  · simp at hok
  · rename_i hc
    simp only [hc, if_false] at hok ⊢
    intro m e w hm hw
    simp only [lookup_upsert] at hm
    by_cases hnm : n = m
    · simp only [hnm, if_true, Option.some.injEq] at hm
      subst hm
      simp only at hw
      rw [hw] at hok
      exact (assertValid_eq_none _ _ _).mp hok
    · simp only [hnm, if_false] at hm
      exact hg m e w hm hw

theorem ofExc_eq_ok (x : Option Exc) : Out.ofExc x = .ok ↔ x = none := by
  cases x <;> simp [Out.ofExc]

/-! ### read-only dictionaries -/

theorem setOpt_readOnly {cfg : Cfg} {s : State} (hr : s.readOnly = true) (n : String) (v : Val) :
    setOpt cfg s n v = .error .keyError := by
  unfold setOpt
  cases lookup n s.dict <;> simp [hr]

/-- dictionary and flag unchanged -/
def SameDict (s s' : State) : Prop := s'.dict = s.dict ∧ s'.readOnly = s.readOnly

theorem enterCur_readOnly {cfg : Cfg} (kw : List (String × Val)) {s : State}
    (hr : s.readOnly = true) : SameDict s (enterCur cfg kw s).1 := by
  cases kw with
  | nil => exact ⟨rfl, rfl⟩
  | cons p rest =>
    obtain ⟨o, v⟩ := p
    rw [enterCur_cons]
    cases hget : getOpt (ensureCache s o) o with
    | error e => exact ⟨ensureCache_dict s o, ensureCache_readOnly s o⟩
    | ok saved =>
      have : (pushCache (ensureCache s o) o saved).readOnly = true := by
        rw [pushCache_readOnly, ensureCache_readOnly]; exact hr
      simp only [setOpt_readOnly this]
      exact ⟨ensureCache_dict s o, ensureCache_readOnly s o⟩

theorem restoreCur_readOnly {cfg : Cfg} (ks : List String) {s : State}
    (hr : s.readOnly = true) : SameDict s (restoreCur cfg ks s).1 := by
  cases ks with
  | nil => exact ⟨rfl, rfl⟩
  | cons o rest =>
    unfold restoreCur
    cases lookup o s.cache with
    | none => exact ⟨rfl, rfl⟩
    | some st =>
      cases st with
      | nil => exact ⟨rfl, rfl⟩
      | cons saved below =>
        have : ({ s with cache := upsert o below s.cache } : State).readOnly = true := hr
        simp only [setOpt_readOnly this]
        exact ⟨rfl, rfl⟩

theorem enterFix_readOnly {cfg : Cfg} (kw : List (String × Val)) {s : State} (ent : List String)
    (hr : s.readOnly = true) : SameDict s (enterFix cfg kw s ent).1 := by
  cases kw with
  | nil => exact ⟨rfl, rfl⟩
  | cons p rest =>
    obtain ⟨o, v⟩ := p
    unfold enterFix
    cases hget : getOpt s o with
    | error e => exact ⟨rfl, rfl⟩
    | ok saved =>
      have : (pushCache s o saved).readOnly = true := hr
      simp only [setOpt_readOnly this]
      exact ⟨rfl, rfl⟩

theorem restoreFix_readOnly {cfg : Cfg} (ks : List String) {s : State}
    (hr : s.readOnly = true) : SameDict s (restoreFix cfg ks s).1 := by
  cases ks with
  | nil => exact ⟨rfl, rfl⟩
  | cons o rest =>
    unfold restoreFix
    cases lookup o s.cache with
    | none => exact ⟨rfl, rfl⟩
    | some st =>
      cases st with
      | nil => exact ⟨rfl, rfl⟩
      | cons saved below =>
        have : ({ s with cache := if below.isEmpty then erase o s.cache
                  else upsert o below s.cache } : State).readOnly = true := hr
        simp only [setOpt_readOnly this]
        exact ⟨rfl, rfl⟩

theorem updateLoop_readOnly {cfg : Cfg} (kvs : List (String × Val)) {s : State}
    (hr : s.readOnly = true) : (updateLoop cfg kvs s).1 = s := by
  cases kvs with
  | nil => rfl
  | cons p rest => obtain ⟨n, v⟩ := p; simp [updateLoop, setOpt_readOnly hr]

theorem exec_readOnly (cfg : Cfg) :
    ∀ (p : Prog) (s : State), p.NoDecl → s.readOnly = true → SameDict s (exec cfg p s).st := by
  intro p
  induction p with
  | skip => intro s _ _; exact ⟨rfl, rfl⟩
  | seq p q ihp ihq =>
    intro s hnd hr
    have hp := ihp s hnd.1 hr
    simp only [exec]
    split
    · exact hp
    · have hq := ihq (exec cfg p s).st hnd.2 (by rw [hp.2]; exact hr)
      exact ⟨hq.1.trans hp.1, hq.2.trans hp.2⟩
  | op o strict =>
    intro s hnd hr
    cases o with
    | declare n a => exact absurd hnd (by simp [Prog.NoDecl])
    | undeclare n => exact absurd hnd (by simp [Prog.NoDecl])
    | set n v => simp only [exec, step, setOpt_readOnly hr]; exact ⟨rfl, rfl⟩
    | get n => cases h : getOpt s n <;> simp only [exec, step, h] <;> exact ⟨rfl, rfl⟩
    | update kvs => simp only [exec, step, updateLoop_readOnly kvs hr]; exact ⟨rfl, rfl⟩
    | contains n => exact ⟨rfl, rfl⟩
  | raise => intro s _ _; exact ⟨rfl, rfl⟩
  | temp kw strict body ih =>
    intro s hnd hr
    cases hflag : cfg.restoreOnRaise with
    | true =>
      simp only [exec, hflag, if_true, tempFix]
      have h1 := enterFix_readOnly (cfg := cfg) kw [] hr
      have hr1 : (enterFix cfg kw s []).1.readOnly = true := by rw [h1.2]; exact hr
      split
      · have h2 := restoreFix_readOnly (cfg := cfg) (enterFix cfg kw s []).2.1 hr1
        exact ⟨h2.1.trans h1.1, h2.2.trans h1.2⟩
      · have hb := ih (enterFix cfg kw s []).1 hnd hr1
        have hr2 : (exec cfg body (enterFix cfg kw s []).1).st.readOnly = true := by
          rw [hb.2]; exact hr1
        have h2 := restoreFix_readOnly (cfg := cfg) (enterFix cfg kw s []).2.1 hr2
        split <;> exact ⟨(h2.1.trans hb.1).trans h1.1, (h2.2.trans hb.2).trans h1.2⟩
    | false =>
      simp only [exec, hflag, Bool.false_eq_true, if_false, tempCur]
      have h1 := enterCur_readOnly (cfg := cfg) kw hr
      have hr1 : (enterCur cfg kw s).1.readOnly = true := by rw [h1.2]; exact hr
      split
      · exact h1
      · have hb := ih (enterCur cfg kw s).1 hnd hr1
        have hr2 : (exec cfg body (enterCur cfg kw s).1).st.readOnly = true := by
          rw [hb.2]; exact hr1
        split
        · exact ⟨hb.1.trans h1.1, hb.2.trans h1.2⟩
        · have h2 := restoreCur_readOnly (cfg := cfg) (kw.map (·.1)) hr2
          exact ⟨(h2.1.trans hb.1).trans h1.1, (h2.2.trans hb.2).trans h1.2⟩
  | «catch» body ih => intro s hnd hr; exact ih s hnd hr

end OMV.C27
