/-
C25 helper lemmas (1): real instance of the model, max/min scans, sum of exponentials, shift
invariance and the bracket.
-/
import OMV.Model.C25
import Mathlib.Analysis.SpecialFunctions.Log.Deriv
import Mathlib.Analysis.SpecialFunctions.ExpDeriv
import Mathlib.Tactic.Linarith
import Mathlib.Tactic.Ring
import Mathlib.Tactic.FieldSimp
import Mathlib.Tactic.Positivity

namespace OMV.C25

/-- The real instantiation of the model's `exp` / `log`. -/
noncomputable instance instExpLogReal : ExpLog ℝ := ⟨Real.exp, Real.log⟩

@[simp] lemma expLog_exp (x : ℝ) : (ExpLog.exp x : ℝ) = Real.exp x := rfl
@[simp] lemma expLog_log (x : ℝ) : (ExpLog.log x : ℝ) = Real.log x := rfl

lemma sumL_eq (l : List ℝ) : sumL l = l.sum := by
  unfold sumL; rw [List.sum_eq_foldl]

lemma dotL_eq (a b : List ℝ) : dotL a b = (List.zipWith (· * ·) a b).sum := by
  unfold dotL; rw [List.sum_eq_foldl]

/-! ### `maxL` / `minL` are the maximum / minimum -/

lemma foldl_max_spec (xs : List ℝ) (x : ℝ) :
    let v := xs.foldl (fun m y => if m < y then y else m) x
    (v = x ∨ v ∈ xs) ∧ x ≤ v ∧ ∀ y ∈ xs, y ≤ v := by
  induction xs generalizing x with
  | nil => simp
  | cons a as ih =>
    simp only [List.foldl_cons]
    obtain ⟨h1, h2, h3⟩ := ih (if x < a then a else x)
    refine ⟨?_, ?_, ?_⟩
    · rcases h1 with h | h
      · by_cases hx : x < a
        · right; rw [h]; simp [hx]
        · left; rw [h]; simp [hx]
      · right; exact List.mem_cons_of_mem _ h
    · refine le_trans ?_ h2
      by_cases hx : x < a
      · simp [hx]; exact hx.le
      · simp [hx]
    · intro y hy
      rcases List.mem_cons.mp hy with h | h
      · subst h
        refine le_trans ?_ h2
        by_cases hx : x < y
        · simp [hx]
        · simp [hx]; exact not_lt.mp hx
      · exact h3 y h

lemma maxL_mem {g : List ℝ} (hg : g ≠ []) : maxL g ∈ g := by
  cases g with
  | nil => exact absurd rfl hg
  | cons x xs =>
    obtain ⟨h1, _, _⟩ := foldl_max_spec xs x
    rcases h1 with h | h
    · show xs.foldl _ x ∈ x :: xs
      rw [h]; exact List.mem_cons_self
    · exact List.mem_cons_of_mem _ h

lemma le_maxL {g : List ℝ} {y : ℝ} (hy : y ∈ g) : y ≤ maxL g := by
  cases g with
  | nil => simp at hy
  | cons x xs =>
    obtain ⟨_, h2, h3⟩ := foldl_max_spec xs x
    rcases List.mem_cons.mp hy with h | h
    · rw [h]; exact h2
    · exact h3 y h

/-- `maxL g` is characterised by being an upper bound that is attained. -/
lemma maxL_unique {g : List ℝ} {v : ℝ} (hv : v ∈ g) (hub : ∀ y ∈ g, y ≤ v) : maxL g = v :=
  le_antisymm (hub _ (maxL_mem (List.ne_nil_of_mem hv))) (le_maxL hv)

lemma foldl_min_spec (xs : List ℝ) (x : ℝ) :
    let v := xs.foldl (fun m y => if y < m then y else m) x
    (v = x ∨ v ∈ xs) ∧ v ≤ x ∧ ∀ y ∈ xs, v ≤ y := by
  induction xs generalizing x with
  | nil => simp
  | cons a as ih =>
    simp only [List.foldl_cons]
    obtain ⟨h1, h2, h3⟩ := ih (if a < x then a else x)
    refine ⟨?_, ?_, ?_⟩
    · rcases h1 with h | h
      · by_cases hx : a < x
        · right; rw [h]; simp [hx]
        · left; rw [h]; simp [hx]
      · right; exact List.mem_cons_of_mem _ h
    · refine le_trans h2 ?_
      by_cases hx : a < x
      · simp [hx]; exact hx.le
      · simp [hx]
    · intro y hy
      rcases List.mem_cons.mp hy with h | h
      · subst h
        refine le_trans h2 ?_
        by_cases hx : y < x
        · simp [hx]
        · simp [hx]; exact not_lt.mp hx
      · exact h3 y h

lemma minL_mem {g : List ℝ} (hg : g ≠ []) : minL g ∈ g := by
  cases g with
  | nil => exact absurd rfl hg
  | cons x xs =>
    obtain ⟨h1, _, _⟩ := foldl_min_spec xs x
    rcases h1 with h | h
    · show xs.foldl _ x ∈ x :: xs
      rw [h]; exact List.mem_cons_self
    · exact List.mem_cons_of_mem _ h

lemma minL_le {g : List ℝ} {y : ℝ} (hy : y ∈ g) : minL g ≤ y := by
  cases g with
  | nil => simp at hy
  | cons x xs =>
    obtain ⟨_, h2, h3⟩ := foldl_min_spec xs x
    rcases List.mem_cons.mp hy with h | h
    · rw [h]; exact h2
    · exact h3 y h

/-- Negation exchanges maximum and minimum. -/
lemma maxL_map_neg {g : List ℝ} (hg : g ≠ []) : maxL (g.map (fun v => -v)) = -minL g := by
  apply maxL_unique
  · exact List.mem_map.mpr ⟨minL g, minL_mem hg, rfl⟩
  · intro y hy
    obtain ⟨z, hz, rfl⟩ := List.mem_map.mp hy
    exact neg_le_neg (minL_le hz)

/-- An increasing map commutes with the maximum. -/
lemma maxL_map_mono {g : List ℝ} (hg : g ≠ []) {f : ℝ → ℝ} (hf : Monotone f) :
    maxL (g.map f) = f (maxL g) := by
  apply maxL_unique
  · exact List.mem_map.mpr ⟨maxL g, maxL_mem hg, rfl⟩
  · intro y hy
    obtain ⟨z, hz, rfl⟩ := List.mem_map.mp hy
    exact hf (le_maxL hz)

/-- A decreasing map sends the minimum to the maximum. -/
lemma maxL_map_anti {g : List ℝ} (hg : g ≠ []) {f : ℝ → ℝ} (hf : Antitone f) :
    maxL (g.map f) = f (minL g) := by
  apply maxL_unique
  · exact List.mem_map.mpr ⟨minL g, minL_mem hg, rfl⟩
  · intro y hy
    obtain ⟨z, hz, rfl⟩ := List.mem_map.mp hy
    exact hf (minL_le hz)

/-! ### the sum of exponentials -/

lemma exponents_pos (g : List ℝ) (rho m : ℝ) : ∀ e ∈ exponents g rho m, 0 < e := by
  intro e he
  obtain ⟨x, _, rfl⟩ := List.mem_map.mp he
  exact Real.exp_pos _

lemma exponents_ne_nil {g : List ℝ} (hg : g ≠ []) (rho m : ℝ) : exponents g rho m ≠ [] := by
  unfold exponents; simpa using hg

lemma sum_exponents_pos {g : List ℝ} (hg : g ≠ []) (rho m : ℝ) :
    0 < sumL (exponents g rho m) := by
  rw [sumL_eq]
  exact List.sum_pos _ (exponents_pos g rho m) (exponents_ne_nil hg rho m)

/-- Changing the shift multiplies the sum by a constant. -/
lemma sum_exponents_shift (g : List ℝ) (rho m m' : ℝ) :
    sumL (exponents g rho m) = Real.exp (rho * (m' - m)) * sumL (exponents g rho m') := by
  rw [sumL_eq, sumL_eq]
  unfold exponents
  rw [← List.sum_map_mul_left]
  congr 1
  apply List.map_congr_left
  intro x _
  simp only [expLog_exp]
  rw [← Real.exp_add]; congr 1; ring

/-- Log-sum-exp identity: the value does not depend on the shift. -/
lemma ksShift_shift {g : List ℝ} (hg : g ≠ []) {rho : ℝ} (hr : rho ≠ 0) (m m' : ℝ) :
    ksShift g rho m = ksShift g rho m' := by
  unfold ksShift
  rw [sum_exponents_shift g rho m m']
  simp only [expLog_log]
  rw [Real.log_mul (Real.exp_pos _).ne' (sum_exponents_pos hg rho m').ne', Real.log_exp]
  field_simp
  ring

/-- With the maximum as shift, the sum lies in `[1, n]`. -/
lemma sum_exponents_bounds {g : List ℝ} (hg : g ≠ []) {rho : ℝ} (hr : 0 < rho) :
    1 ≤ sumL (exponents g rho (maxL g)) ∧ sumL (exponents g rho (maxL g)) ≤ g.length := by
  rw [sumL_eq]
  constructor
  · have h1 : (1 : ℝ) ∈ exponents g rho (maxL g) := by
      refine List.mem_map.mpr ⟨maxL g, maxL_mem hg, ?_⟩
      simp
    exact List.single_le_sum (fun e he => (exponents_pos g rho _ e he).le) 1 h1
  · have h := List.sum_le_card_nsmul (exponents g rho (maxL g)) 1 (by
      intro e he
      obtain ⟨x, hx, rfl⟩ := List.mem_map.mp he
      simp only [expLog_exp]
      rw [← Real.exp_zero]
      apply Real.exp_le_exp.mpr
      have : x - maxL g ≤ 0 := sub_nonpos.mpr (le_maxL hx)
      exact mul_nonpos_of_nonneg_of_nonpos hr.le this)
    simpa [exponents] using h

lemma ksRow_bracket {g : List ℝ} (hg : g ≠ []) {rho : ℝ} (hr : 0 < rho) :
    maxL g ≤ ksRow g rho ∧ ksRow g rho ≤ maxL g + Real.log g.length / rho := by
  obtain ⟨h1, h2⟩ := sum_exponents_bounds hg hr
  unfold ksRow ksShift
  simp only [expLog_log]
  have hl0 : 0 ≤ Real.log (sumL (exponents g rho (maxL g))) := Real.log_nonneg h1
  have hl1 : Real.log (sumL (exponents g rho (maxL g))) ≤ Real.log g.length :=
    Real.log_le_log (by linarith) h2
  have hinv : 0 < 1 / rho := by positivity
  constructor
  · have := mul_nonneg hinv.le hl0
    linarith
  · have := mul_le_mul_of_nonneg_left hl1 hinv.le
    have e : Real.log g.length / rho = 1 / rho * Real.log g.length := by ring
    rw [e]; linarith

end OMV.C25
