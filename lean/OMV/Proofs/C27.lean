/-
C27 — helper lemmas, part 1: association lists, validation (`assertValid` vs `Satisfies`),
`__setitem__` / `__getitem__` characterised through `resolve`, frame properties, the invariant
"held values are valid".
-/
import OMV.Model.C27

namespace OMV.C27

/-! ### association lists -/

theorem lookup_upsert {β : Type} (n m : String) (b : β) (l : List (String × β)) :
    lookup m (upsert n b l) = if n = m then some b else lookup m l := by
  induction l with
  | nil => simp [upsert, lookup]
  | cons p rest ih =>
    obtain ⟨k, x⟩ := p
    by_cases hk : k = n
    · subst hk
      by_cases hm : k = m <;> simp [upsert, lookup, hm]
    · by_cases hm : k = m
      · subst hm
        have : ¬ n = k := fun h => hk h.symm
        simp [upsert, lookup, hk, this]
      · simp [upsert, lookup, hk, hm, ih]

theorem lookup_erase {β : Type} (n m : String) (l : List (String × β)) :
    lookup m (erase n l) = if n = m then none else lookup m l := by
  induction l with
  | nil => simp [erase, lookup]
  | cons p rest ih =>
    obtain ⟨k, x⟩ := p
    by_cases hk : k = n
    · subst hk
      by_cases hm : k = m
      · subst hm
        simpa [erase] using ih
      · simp [erase, lookup, hm, ih]
    · by_cases hm : k = m
      · subst hm
        have : ¬ n = k := fun h => hk h.symm
        simp [erase, lookup, hk, this]
      · simp [erase, lookup, hk, hm, ih]

theorem lookup_storeVal (t m : String) (v : Val) (l : List (String × Entry)) :
    lookup m (storeVal t v l) =
      if t = m then (lookup m l).map (fun e => { e with val := some v }) else lookup m l := by
  induction l with
  | nil => simp [storeVal, lookup]
  | cons p rest ih =>
    obtain ⟨k, x⟩ := p
    by_cases hk : k = t
    · subst hk
      by_cases hm : k = m <;> simp [storeVal, lookup, hm]
    · by_cases hm : k = m
      · subst hm
        have : ¬ t = k := fun h => hk h.symm
        simp [storeVal, lookup, hk, this]
      · simp [storeVal, lookup, hk, hm, ih]

theorem stackOf_upsert (o o' : String) (l : List Val) (c : List (String × List Val)) :
    stackOf (upsert o l c) o' = if o = o' then l else stackOf c o' := by
  unfold stackOf
  rw [lookup_upsert]
  by_cases h : o = o' <;> simp [h]

theorem stackOf_erase (o o' : String) (c : List (String × List Val)) :
    stackOf (erase o c) o' = if o = o' then [] else stackOf c o' := by
  unfold stackOf
  rw [lookup_erase]
  by_cases h : o = o' <;> simp [h]

/-! ### validation -/

theorem firstErr_eq_none (a b : Option Exc) : firstErr a b = none ↔ a = none ∧ b = none := by
  cases a <;> simp [firstErr]

theorem inValues_iff (vs : List Atom) (a : Atom) :
    inValues vs a = true ↔ ∃ x ∈ vs, a.pyEq x = true := by
  simp [inValues, List.any_eq_true]

theorem checkVals_eq_none (vs es : List Atom) :
    checkVals vs es = none ↔ ∀ e ∈ es, ∃ x ∈ vs, e.pyEq x = true := by
  induction es with
  | nil => simp [checkVals]
  | cons a rest ih =>
    by_cases h : inValues vs a = true
    · have h' := (inValues_iff vs a).mp h
      simp only [checkVals, h, if_true, ih, List.mem_cons, forall_eq_or_imp]
      exact ⟨fun hr => ⟨h', hr⟩, fun hr => hr.2⟩
    · have h' : ¬ ∃ x ∈ vs, a.pyEq x = true := fun hx => h ((inValues_iff vs a).mpr hx)
      simp only [checkVals, h, List.mem_cons, forall_eq_or_imp]
      constructor
      · intro hc; simp at hc
      · intro hr; exact absurd hr.1 h'

theorem memberCheck_eq_none (d : Decl) (v : Val) : memberCheck d v = none ↔ Member d v := by
  unfold memberCheck Member
  cases hv : d.values with
  | some vs =>
    simp only
    by_cases hl : d.types = .one .list
    · simp only [hl, if_true]
      cases hi : v.iter? with
      | none => simp
      | some es => simp [checkVals_eq_none]
    · simp only [hl, if_false]
      cases v with
      | atom a =>
        simp only [checkVals_eq_none]
        constructor
        · intro h; exact ⟨a, rfl, h a (by simp)⟩
        · rintro ⟨a', ha, hx⟩ e he
          cases ha
          simp at he; subst he; exact hx
      | list l => simp
  | none =>
    simp only
    by_cases hn : d.types = .none
    · simp [hn]
    · by_cases hi : d.types.isInst v = true <;> simp [hn, hi]

theorem upperCheck_eq_none (d : Decl) (v : Val) :
    upperCheck d v = none ↔ ∀ u, d.upper = some u → ∃ x, v.num = some x ∧ x ≤ u := by
  unfold upperCheck
  cases hu : d.upper with
  | none => simp
  | some u =>
    cases hx : v.num with
    | none => simp
    | some x =>
      by_cases h : u < x
      · simp [h, Rat.not_le.mpr h]
      · simp [h, Rat.not_lt.mp h]

theorem lowerCheck_eq_none (d : Decl) (v : Val) :
    lowerCheck d v = none ↔ ∀ l, d.lower = some l → ∃ x, v.num = some x ∧ l ≤ x := by
  unfold lowerCheck
  cases hu : d.lower with
  | none => simp
  | some l =>
    cases hx : v.num with
    | none => simp
    | some x =>
      by_cases h : x < l
      · simp [h, Rat.not_le.mpr h]
      · simp [h, Rat.not_lt.mp h]

theorem cvCheck_eq_none (cv : Nat → Val → Bool) (d : Decl) (v : Val) :
    cvCheck cv d v = none ↔ ∀ k, d.checkValid = some k → cv k v = true := by
  unfold cvCheck
  cases d.checkValid with
  | none => simp
  | some k => by_cases h : cv k v = true <;> simp [h]

theorem assertValid_eq_none (cv : Nat → Val → Bool) (d : Decl) (v : Val) :
    assertValid cv d v = none ↔ Satisfies cv d v := by
  unfold assertValid Satisfies InBounds
  rw [firstErr_eq_none, cvCheck_eq_none]
  by_cases h : v = .atom .none ∧ d.allowNone = true
  · simp [h]
  · simp only [h, if_false, false_or, firstErr_eq_none, memberCheck_eq_none, upperCheck_eq_none,
      lowerCheck_eq_none]

/-- The exception classes `_assert_valid` can raise. -/
theorem assertValid_class (cv : Nat → Val → Bool) (d : Decl) (v : Val) (e : Exc)
    (h : assertValid cv d v = some e) : e = .valueError ∨ e = .typeError := by
  have hc : ∀ vs es x, checkVals vs es = some x → x = .valueError := by
    intro vs es
    induction es with
    | nil => simp [checkVals]
    | cons a rest ih =>
      intro x
      by_cases hi : inValues vs a = true <;> simp [checkVals, hi]
      · exact ih x
      · intro hx; exact hx.symm
  have hm : ∀ x, memberCheck d v = some x → x = .valueError ∨ x = .typeError := by
    intro x
    unfold memberCheck
    split
    · split
      · split
        · intro hx; simp at hx; exact Or.inr hx.symm
        · intro hx; exact Or.inl (hc _ _ _ hx)
      · split
        · intro hx; exact Or.inl (hc _ _ _ hx)
        · intro hx; simp at hx; exact Or.inl hx.symm
    · split
      · simp
      · split
        · simp
        · intro hx; simp at hx; exact Or.inr hx.symm
  have hu : ∀ x, upperCheck d v = some x → x = .valueError ∨ x = .typeError := by
    intro x; unfold upperCheck
    split
    · simp
    · split
      · intro hx; simp at hx; exact Or.inr hx.symm
      · split
        · intro hx; simp at hx; exact Or.inl hx.symm
        · simp
  have hl : ∀ x, lowerCheck d v = some x → x = .valueError ∨ x = .typeError := by
    intro x; unfold lowerCheck
    split
    · simp
    · split
      · intro hx; simp at hx; exact Or.inr hx.symm
      · split
        · intro hx; simp at hx; exact Or.inl hx.symm
        · simp
  have hv : ∀ x, cvCheck cv d v = some x → x = .valueError ∨ x = .typeError := by
    intro x; unfold cvCheck
    split
    · simp
    · split
      · simp
      · intro hx; simp at hx; exact Or.inl hx.symm
  have hf : ∀ (a b : Option Exc) (x : Exc), firstErr a b = some x → a = some x ∨ b = some x := by
    intro a b x
    cases a with
    | none => simp [firstErr]
    | some y => simp only [firstErr]; intro h; exact Or.inl h
  unfold assertValid at h
  rcases hf _ _ _ h with h1 | h1
  · split at h1
    · simp at h1
    · rcases hf _ _ _ h1 with h2 | h2
      · exact hm _ h2
      · rcases hf _ _ _ h2 with h3 | h3
        · exact hu _ h3
        · exact hl _ h3
  · exact hv _ h1

end OMV.C27
