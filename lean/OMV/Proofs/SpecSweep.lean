/-
The run-once sweep of an acyclic ModelSpec: one pass in data-flow order solves every explicit
component (C32) and leaves every input equal to the transfer of the final outputs (C04).
-/
import OMV.Model.Spec

set_option linter.unusedSectionVars false

namespace OMV.Spec

variable {K : Type} [Add K] [Mul K] [OfNat K 0]

theorem inputsOf_congr (u u' : Nat → K) (c : Comp K) (h : ∀ d ∈ c.ins, u d.src = u' d.src) :
    inputsOf u c = inputsOf u' c := by
  unfold inputsOf
  exact List.map_congr_left (fun d hd => by rw [h d hd])

theorem stepComp_outside (u : Nat → K) (c : Comp K) (i : Nat) (h : ¬ inRange c i) :
    stepComp u c i = u i := by
  simp [stepComp, h]

theorem stepComp_inside (u : Nat → K) (c : Comp K) (i : Nat) (h : inRange c i) :
    stepComp u c i = (c.f (inputsOf u c)).getD (i - c.start) 0 := by
  simp [stepComp, h]

/-- evaluating `c` does not change what `c` reads, if it does not write its own sources -/
theorem inputs_after_own_step (u : Nat → K) (c : Comp K) (h : NoWriteTo c c) :
    inputsOf (stepComp u c) c = inputsOf u c :=
  inputsOf_congr _ _ c (fun d hd => stepComp_outside u c d.src (h d hd))

theorem solved_after_step (u : Nat → K) (c : Comp K) (h : NoWriteTo c c) :
    Solved (stepComp u c) c := by
  intro i hi
  rw [stepComp_inside u c i hi, inputs_after_own_step u c h]

theorem inputs_preserved (u : Nat → K) (c c' : Comp K) (h1 : NoWriteTo c' c) :
    inputsOf (stepComp u c') c = inputsOf u c :=
  inputsOf_congr _ _ c (fun d hd => stepComp_outside u c' d.src (h1 d hd))

theorem solved_preserved (u : Nat → K) (c c' : Comp K) (hs : Solved u c)
    (h1 : NoWriteTo c' c) (h2 : Disjoint c c') : Solved (stepComp u c') c := by
  intro i hi
  have hn : ¬ inRange c' i := fun h => h2 i ⟨hi, h⟩
  rw [stepComp_outside u c' i hn, hs i hi, inputs_preserved u c c' h1]

theorem solved_sweep_preserved (cs : List (Comp K)) (u : Nat → K) (c : Comp K) (hs : Solved u c)
    (h : ∀ c' ∈ cs, NoWriteTo c' c ∧ Disjoint c c') : Solved (sweep u cs) c := by
  induction cs generalizing u with
  | nil => exact hs
  | cons c' cs ih =>
    simp only [sweep, List.foldl_cons]
    have h' := h c' (List.mem_cons_self)
    exact ih (stepComp u c') (solved_preserved u c c' hs h'.1 h'.2)
      (fun c'' hc'' => h c'' (List.mem_cons_of_mem _ hc''))

theorem inputs_sweep_preserved (cs : List (Comp K)) (u : Nat → K) (c : Comp K)
    (h : ∀ c' ∈ cs, NoWriteTo c' c ∧ Disjoint c c') : inputsOf (sweep u cs) c = inputsOf u c := by
  induction cs generalizing u with
  | nil => rfl
  | cons c' cs ih =>
    simp only [sweep, List.foldl_cons]
    have h' := h c' (List.mem_cons_self)
    have := ih (stepComp u c') (fun c'' hc'' => h c'' (List.mem_cons_of_mem _ hc''))
    simp only [sweep] at this
    rw [this, inputs_preserved u c c' h'.1]

/-- one pass in data-flow order solves every component -/
theorem sweep_solves (cs : List (Comp K)) (u : Nat → K) (h : TopoOK cs) :
    ∀ c ∈ cs, Solved (sweep u cs) c := by
  induction cs generalizing u with
  | nil => intro c hc; cases hc
  | cons c cs ih =>
    obtain ⟨h0, h1, h2⟩ := h
    intro c' hc'
    simp only [sweep, List.foldl_cons]
    rcases List.mem_cons.mp hc' with rfl | hmem
    · exact solved_sweep_preserved cs _ _ (solved_after_step u c' h0) h1
    · exact ih (stepComp u c) h2 c' hmem

end OMV.Spec
