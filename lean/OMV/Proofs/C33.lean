/-
C33 — helper lemmas: sequential scatter, gather/compute/scatter update, layout arithmetic,
cell algebra, state bookkeeping.
-/
import OMV.Model.C33
import Mathlib.Tactic.Ring
import Mathlib.Tactic.Linarith
import Mathlib.Tactic.FieldSimp
import Mathlib.Algebra.Field.Basic
import Mathlib.Data.List.Nodup

set_option linter.unusedSectionVars false
set_option linter.unusedSimpArgs false
set_option linter.unusedTactic false
set_option linter.unreachableTactic false

namespace OMV.C33

/-! ### scatter -/

theorem scatter_length {α : Type} (d : List α) (ps : List Nat) (ws : List α) :
    (scatter d ps ws).length = d.length := by
  induction ps generalizing d ws with
  | nil => simp [scatter]
  | cons p ps ih =>
    cases ws with
    | nil => simp [scatter]
    | cons w ws => simp [scatter, ih]

theorem scatter_getElem?_not_mem {α : Type} (d : List α) (ps : List Nat) (ws : List α) (q : Nat)
    (h : q ∉ ps) : (scatter d ps ws)[q]? = d[q]? := by
  induction ps generalizing d ws with
  | nil => simp [scatter]
  | cons p ps ih =>
    cases ws with
    | nil => simp [scatter]
    | cons w ws =>
      simp only [List.mem_cons, not_or] at h
      simp only [scatter]
      rw [ih _ _ h.2, List.getElem?_set_ne (Ne.symm h.1)]

/-- The last writer of a position wins. -/
theorem scatter_getElem?_last {α : Type} (d : List α) (ps : List Nat) (ws : List α) (k : Nat)
    (hk : k < ps.length) (hw : k < ws.length)
    (hlast : ∀ j (hj : j < ps.length), k < j → ps[j] ≠ ps[k]) (hin : ps[k] < d.length) :
    (scatter d ps ws)[ps[k]]? = some ws[k] := by
  induction ps generalizing d ws k with
  | nil => simp at hk
  | cons p ps ih =>
    cases ws with
    | nil => simp at hw
    | cons w ws =>
      cases k with
      | zero =>
        simp only [scatter, List.getElem_cons_zero]
        have hnm : p ∉ ps := by
          intro hm
          obtain ⟨j, hj, hjp⟩ := List.getElem_of_mem hm
          have := hlast (j + 1) (by simp; omega) (by omega)
          simp at this
          exact this hjp
        rw [scatter_getElem?_not_mem _ _ _ _ hnm]
        simp at hin
        simp [hin]
      | succ k =>
        simp only [scatter, List.getElem_cons_succ]
        apply ih
        · intro j hj hkj
          have := hlast (j + 1) (by simp; omega) (by omega)
          simpa using this
        · simpa using hin

theorem scatter_append_right {α : Type} (pre m : List α) (qs : List Nat) (ws : List α) :
    scatter (pre ++ m) (qs.map (pre.length + ·)) ws = pre ++ scatter m qs ws := by
  induction qs generalizing m ws with
  | nil => simp [scatter]
  | cons q qs ih =>
    cases ws with
    | nil => simp [scatter]
    | cons w ws =>
      simp only [List.map_cons, scatter]
      rw [← ih]
      congr 1
      simp [List.set_append]

theorem scatter_append_left {α : Type} (m post : List α) (qs : List Nat) (ws : List α)
    (h : ∀ q ∈ qs, q < m.length) : scatter (m ++ post) qs ws = scatter m qs ws ++ post := by
  induction qs generalizing m ws with
  | nil => simp [scatter]
  | cons q qs ih =>
    cases ws with
    | nil => simp [scatter]
    | cons w ws =>
      simp only [scatter]
      have hq : q < m.length := h q (by simp)
      rw [← ih (m.set q w) ws (by intro q' hq'; simpa using h q' (by simp [hq']))]
      congr 1
      simp [List.set_append, hq]

theorem zipWith_congr_mem {α β γ : Type} (f f' : α → β → γ) (l : List α) (vs : List β)
    (h : ∀ a ∈ l, ∀ b, f a b = f' a b) : List.zipWith f l vs = List.zipWith f' l vs := by
  induction l generalizing vs with
  | nil => simp
  | cons a l ih =>
    cases vs with
    | nil => simp
    | cons b vs =>
      simp only [List.zipWith_cons_cons]
      rw [h a (by simp) b, ih vs (by intro a' ha' b'; exact h a' (by simp [ha']) b')]

/-! ### updAt -/

section Upd
variable {α β : Type} [Inhabited α]

theorem updAt_length (d : List α) (off : Nat) (ps : List Nat) (vs : List β) (g : α → β → α) :
    (updAt d off ps vs g).length = d.length := by
  simp [updAt, scatter_length]

theorem updAt_getElem?_untouched (d : List α) (off : Nat) (ps : List Nat) (vs : List β)
    (g : α → β → α) (q : Nat) (h : ∀ p ∈ ps, off + p ≠ q) :
    (updAt d off ps vs g)[q]? = d[q]? := by
  unfold updAt
  apply scatter_getElem?_not_mem
  intro hm
  obtain ⟨p, hp, rfl⟩ := List.mem_map.mp hm
  exact h p hp rfl

theorem updAt_getElem?_last (d : List α) (off : Nat) (ps : List Nat) (vs : List β)
    (g : α → β → α) (k : Nat) (hk : k < ps.length) (hv : k < vs.length)
    (hlast : ∀ j (hj : j < ps.length), k < j → ps[j] ≠ ps[k])
    (hin : off + ps[k] < d.length) :
    (updAt d off ps vs g)[off + ps[k]]? = some (g d[off + ps[k]] vs[k]) := by
  unfold updAt
  have hk' : k < (ps.map (off + ·)).length := by simpa using hk
  have hq : (ps.map (off + ·))[k] = off + ps[k] := by simp
  have hw : k < (List.zipWith (fun q v => g (d.getD q default) v) (ps.map (off + ·)) vs).length := by
    simp; omega
  have := scatter_getElem?_last d (ps.map (off + ·))
    (List.zipWith (fun q v => g (d.getD q default) v) (ps.map (off + ·)) vs) k hk' hw
    (by
      intro j hj hkj
      have hj' : j < ps.length := by simpa using hj
      simp only [List.getElem_map]
      intro e
      exact hlast j hj' hkj (by omega))
    (by simpa using hin)
  rw [hq] at this
  rw [this]
  simp [List.getD_eq_getElem?_getD, hin]

/-- Refinement: updating through an offset into a root array = updating the sub-array on its own. -/
theorem updAt_append (pre mid post : List α) (ps : List Nat)
    (vs : List β) (g : α → β → α) (hps : ∀ p ∈ ps, p < mid.length) :
    updAt (pre ++ mid ++ post) pre.length ps vs g = pre ++ updAt mid 0 ps vs g ++ post := by
  unfold updAt
  simp only [List.zipWith_map_left, Nat.zero_add, List.map_id']
  have hw : List.zipWith (fun p v => g ((pre ++ mid ++ post).getD (pre.length + p) default) v) ps vs
      = List.zipWith (fun p v => g (mid.getD p default) v) ps vs := by
    apply zipWith_congr_mem
    intro p hp b
    have := hps p hp
    simp [List.getD_eq_getElem?_getD, List.getElem?_append_right, List.getElem?_append_left, this]
  rw [hw, List.append_assoc, scatter_append_right, scatter_append_left _ _ _ _ hps, List.append_assoc]

/-- Two passes over duplicate-free positions with cellwise inverse maps restore the array. -/
theorem updAt_inverse (d : List α) (off : Nat) (ps : List Nat) (vs : List β) (g g' : α → β → α)
    (hnd : ps.Nodup) (hlen : ps.length ≤ vs.length) (hin : ∀ p ∈ ps, off + p < d.length)
    (hinv : ∀ x, ∀ v ∈ vs, g' (g x v) v = x) :
    updAt (updAt d off ps vs g) off ps vs g' = d := by
  apply List.ext_getElem?
  intro q
  by_cases hq : ∃ p ∈ ps, off + p = q
  · obtain ⟨p, hp, rfl⟩ := hq
    obtain ⟨k, hk, rfl⟩ := List.getElem_of_mem hp
    have hv : k < vs.length := by omega
    have hlast : ∀ j (hj : j < ps.length), k < j → ps[j] ≠ ps[k] := by
      intro j hj hkj e
      exact (List.pairwise_iff_getElem.mp hnd k j hk hj hkj) e.symm
    have hin1 := hin ps[k] hp
    have h1 := updAt_getElem?_last d off ps vs g k hk hv hlast hin1
    have hin2 : off + ps[k] < (updAt d off ps vs g).length := by rw [updAt_length]; exact hin1
    rw [updAt_getElem?_last (updAt d off ps vs g) off ps vs g' k hk hv hlast hin2]
    have h1' : (updAt d off ps vs g)[off + ps[k]] = g d[off + ps[k]] vs[k] := by
      have := List.getElem?_eq_getElem hin2
      rw [this] at h1
      exact Option.some.inj h1
    rw [h1', hinv _ _ (List.getElem_mem _)]
    simp [hin1]
  · have hq' : ∀ p ∈ ps, off + p ≠ q := by
      intro p hp e
      exact hq ⟨p, hp, e⟩
    rw [updAt_getElem?_untouched _ _ _ _ _ _ hq', updAt_getElem?_untouched _ _ _ _ _ _ hq']

end Upd

/-! ### slices -/

theorem slice_getElem? {α : Type} (d : List α) (off len i : Nat) :
    (slice d off len)[i]? = if i < len then d[off + i]? else none := by
  unfold slice
  by_cases h : i < len
  · simp [h, List.getElem?_take, List.getElem?_drop]
  · simp [h, List.getElem?_take]

theorem slice_congr {α : Type} (d d' : List α) (off len : Nat)
    (h : ∀ q, off ≤ q → q < off + len → d'[q]? = d[q]?) : slice d' off len = slice d off len := by
  apply List.ext_getElem?
  intro i
  rw [slice_getElem?, slice_getElem?]
  by_cases hi : i < len
  · simp only [hi, if_true]
    exact h (off + i) (by omega) (by omega)
  · simp [hi]

/-! ### positions / broadcasting -/

theorem positions_lt (idx : Idx) (n : Nat) (ps : List Nat) (h : idx.positions n = some ps) :
    ∀ p ∈ ps, p < n := by
  cases idx with
  | full =>
    simp only [Idx.positions, Option.some.injEq] at h
    subst h
    intro p hp
    simpa using hp
  | range a b =>
    simp only [Idx.positions, Option.some.injEq] at h
    subst h
    intro p hp
    obtain ⟨i, hi, rfl⟩ := List.mem_map.mp hp
    have : i < min b n - min a n := by simpa using hi
    omega
  | list l =>
    simp only [Idx.positions] at h
    split at h
    · rename_i hall
      simp only [Option.some.injEq] at h
      subst h
      intro p hp
      have := List.all_eq_true.mp hall p hp
      simpa using this
    · simp at h

theorem positions_nodup (idx : Idx) (n : Nat) (ps : List Nat) (h : idx.positions n = some ps)
    (hl : ∀ l, idx = .list l → l.Nodup) : ps.Nodup := by
  cases idx with
  | full =>
    simp only [Idx.positions, Option.some.injEq] at h
    subst h
    exact List.nodup_range
  | range a b =>
    simp only [Idx.positions, Option.some.injEq] at h
    subst h
    apply List.Nodup.map _ List.nodup_range
    intro x y e
    simpa using e
  | list l =>
    simp only [Idx.positions] at h
    split at h
    · simp only [Option.some.injEq] at h
      subst h
      exact hl _ rfl
    · simp at h

theorem bcast_length {α : Type} (vs : List α) (m : Nat) (r : List α) (h : bcast vs m = some r) :
    r.length = m := by
  unfold bcast at h
  split at h
  · rename_i e
    simp only [Option.some.injEq] at h
    subst h
    exact e
  · split at h
    · simp only [Option.some.injEq] at h
      subst h
      simp
    · simp at h

/-! ### layout -/

theorem mkViewsFrom_length (s : Nat) (vars : List Var) :
    (mkViewsFrom s vars).length = vars.length := by
  induction vars generalizing s with
  | nil => rfl
  | cons v vs ih => simp [mkViewsFrom, ih]

theorem totalLen_append (a b : List Var) : totalLen (a ++ b) = totalLen a + totalLen b := by
  induction a with
  | nil => simp [totalLen]
  | cons v vs ih => simp [totalLen, ih]; omega

theorem mkViewsFrom_append (s : Nat) (a b : List Var) :
    mkViewsFrom s (a ++ b) = mkViewsFrom s a ++ mkViewsFrom (s + totalLen a) b := by
  induction a generalizing s with
  | nil => simp [mkViewsFrom, totalLen]
  | cons v vs ih => simp [mkViewsFrom, totalLen, ih, Nat.add_assoc]

theorem mkViewsFrom_getElem (s : Nat) (vars : List Var) (k : Nat) (hk : k < vars.length) :
    (mkViewsFrom s vars)[k]'(by rw [mkViewsFrom_length]; exact hk) =
      ⟨vars[k].name, vars[k].shape, s + totalLen (vars.take k),
        s + totalLen (vars.take k) + vars[k].size⟩ := by
  induction vars generalizing s k with
  | nil => simp at hk
  | cons v vs ih =>
    cases k with
    | zero => simp [mkViewsFrom, totalLen]
    | succ k =>
      simp only [mkViewsFrom, List.getElem_cons_succ, List.take_succ_cons, totalLen]
      rw [ih _ _ (by simpa using hk)]
      simp [Nat.add_assoc]

theorem totalLen_take_succ (vars : List Var) (k : Nat) (hk : k < vars.length) :
    totalLen (vars.take (k + 1)) = totalLen (vars.take k) + vars[k].size := by
  induction vars generalizing k with
  | nil => simp at hk
  | cons v vs ih =>
    cases k with
    | zero => simp [totalLen]
    | succ k =>
      simp only [List.take_succ_cons, totalLen, List.getElem_cons_succ]
      rw [ih k (by simpa using hk)]
      omega

theorem totalLen_take_mono (vars : List Var) (i j : Nat) (h : i ≤ j) :
    totalLen (vars.take i) ≤ totalLen (vars.take j) := by
  induction vars generalizing i j with
  | nil => simp [totalLen]
  | cons v vs ih =>
    cases i with
    | zero => simp [totalLen]
    | succ i =>
      cases j with
      | zero => omega
      | succ j =>
        simp only [List.take_succ_cons, totalLen]
        have := ih i j (by omega)
        omega

theorem totalLen_take_le (vars : List Var) (i : Nat) : totalLen (vars.take i) ≤ totalLen vars := by
  induction vars generalizing i with
  | nil => simp [totalLen]
  | cons v vs ih =>
    cases i with
    | zero => simp [totalLen]
    | succ i =>
      simp only [List.take_succ_cons, totalLen]
      have := ih i
      omega

/-- With distinct names, looking a name up returns the view at that variable's own index. -/
theorem lookup_mkViewsFrom (s : Nat) (vars : List Var) (hnd : (vars.map Var.name).Nodup)
    (k : Nat) (hk : k < vars.length) :
    lookup (mkViewsFrom s vars) vars[k].name =
      some ((mkViewsFrom s vars)[k]'(by rw [mkViewsFrom_length]; exact hk)) := by
  induction vars generalizing s k with
  | nil => simp at hk
  | cons v vs ih =>
    cases k with
    | zero => simp [lookup, mkViewsFrom]
    | succ k =>
      simp only [List.map_cons, List.nodup_cons] at hnd
      have hne : v.name ≠ (vs[k]'(by simpa using hk)).name := by
        intro e
        apply hnd.1
        rw [e]
        exact List.mem_map.mpr ⟨_, List.getElem_mem _, rfl⟩
      simp only [lookup, mkViewsFrom, List.getElem_cons_succ]
      rw [List.find?_cons_of_neg]
      · exact ih (s + v.size) hnd.2 k (by simpa using hk)
      · simpa using hne

/-! ### cells over a field -/

section Field
variable {K : Type} [Field K]

theorem Cx.ext' {a b : Cx K} (h1 : a.re = b.re) (h2 : a.im = b.im) : a = b := by
  cases a; cases b; simp_all

theorem scale_cell_rev_fwd (cs : Bool) (z : Cx K) (s : K) (a : Option K) (hs : s ≠ 0) :
    scaleRevCell cs (scaleFwdCell cs z (s, a)) (s, a) = z := by
  cases cs <;> cases a <;>
    simp [scaleRevCell, scaleFwdCell, cellUpd, BinOp.cx, BinOp.re, Cx.mul, Cx.add, Cx.sub,
      Cx.divR, Cx.ofReal] <;>
    (apply Cx.ext' <;> simp <;> (try field_simp) <;> (try ring))

theorem scale_cell_fwd_rev (cs : Bool) (z : Cx K) (s : K) (a : Option K) (hs : s ≠ 0) :
    scaleFwdCell cs (scaleRevCell cs z (s, a)) (s, a) = z := by
  cases cs <;> cases a <;>
    simp [scaleRevCell, scaleFwdCell, cellUpd, BinOp.cx, BinOp.re, Cx.mul, Cx.add, Cx.sub,
      Cx.divR, Cx.ofReal] <;>
    (apply Cx.ext' <;> simp <;> (try field_simp) <;> (try ring))

theorem Cx.mul_comm' (a b : Cx K) : a.mul b = b.mul a := by
  apply Cx.ext' <;> simp [Cx.mul] <;> ring

end Field

/-! ### state bookkeeping -/

section St
variable {K : Type}

theorem setData_get (st : State K) (vid : Nat) (d : List (Cx K)) (v : RootVec K)
    (h : st.vecs[vid]? = some v) :
    (st.setData vid d).vecs[vid]? = some { v with data := d } := by
  unfold State.setData
  rw [h]
  have hlt : vid < st.vecs.length := by
    by_contra hc
    rw [List.getElem?_eq_none (by omega)] at h
    simp at h
  simp [hlt]

theorem setData_get_ne (st : State K) (vid : Nat) (d : List (Cx K)) (i : Nat) (hne : i ≠ vid) :
    (st.setData vid d).vecs[i]? = st.vecs[i]? := by
  unfold State.setData
  split
  · simp [List.getElem?_set_ne (Ne.symm hne)]
  · rfl

theorem setData_cs (st : State K) (vid : Nat) (d : List (Cx K)) : (st.setData vid d).cs = st.cs := by
  unfold State.setData
  split <;> rfl

theorem setData_length (st : State K) (vid : Nat) (d : List (Cx K)) :
    (st.setData vid d).vecs.length = st.vecs.length := by
  unfold State.setData
  split <;> simp

theorem setData_self (st : State K) (vid : Nat) (v : RootVec K) (h : st.vecs[vid]? = some v) :
    st.setData vid v.data = st := by
  unfold State.setData
  rw [h]
  obtain ⟨hlt, hv⟩ := List.getElem?_eq_some_iff.mp h
  have e : ({ v with data := v.data } : RootVec K) = st.vecs[vid] := by rw [hv]
  cases st with
  | mk cs vecs =>
    simp only [State.mk.injEq, true_and]
    simp only at e
    rw [e]
    exact List.set_getElem_self hlt

theorem setData_setData (st : State K) (vid : Nat) (d d' : List (Cx K)) :
    (st.setData vid d).setData vid d' = st.setData vid d' := by
  cases hv : st.vecs[vid]? with
  | none =>
    have h1 : st.setData vid d = st := by unfold State.setData; rw [hv]
    rw [h1]
  | some v =>
    obtain ⟨hlt, _⟩ := List.getElem?_eq_some_iff.mp hv
    simp [State.setData, hv, hlt]

end St

/-! ### frame: what a step can change -/

section Frame
variable {K : Type} [Add K] [Sub K] [Mul K] [Div K] [OfNat K 0] [OfNat K 1]

/-- `st'` differs from `st` at most in the cell values of root vector `vid` (and the mode flag). -/
def Frame (vid : Option Nat) (st st' : State K) : Prop :=
  st'.vecs.length = st.vecs.length ∧
  (∀ i : Nat, (st'.vecs[i]?).map RootVec.shape = (st.vecs[i]?).map RootVec.shape) ∧
  (∀ i : Nat, vid ≠ some i → st'.vecs[i]? = st.vecs[i]?)

theorem Frame.of_vecs_eq (vid : Option Nat) (st st' : State K) (h : st'.vecs = st.vecs) :
    Frame vid st st' := by
  refine ⟨by rw [h], fun i => by rw [h], fun i _ => by rw [h]⟩

theorem Frame.refl (vid : Option Nat) (st : State K) : Frame vid st st :=
  Frame.of_vecs_eq vid st st rfl

theorem Frame.trans {vid : Option Nat} {a b c : State K} (h1 : Frame vid a b) (h2 : Frame vid b c) :
    Frame vid a c :=
  ⟨h2.1.trans h1.1, fun i => (h2.2.1 i).trans (h1.2.1 i),
   fun i hi => (h2.2.2 i hi).trans (h1.2.2 i hi)⟩

theorem frame_setData (st : State K) (vid : Nat) (d : List (Cx K)) (v : RootVec K)
    (hv : st.vecs[vid]? = some v) (hd : d.length = v.data.length) :
    Frame (some vid) st (st.setData vid d) := by
  refine ⟨setData_length _ _ _, ?_, ?_⟩
  · intro i
    by_cases hi : i = vid
    · subst hi
      rw [setData_get _ _ _ v hv, hv]
      simp [RootVec.shape, hd]
    · rw [setData_get_ne _ _ _ _ hi]
  · intro i hi
    apply setData_get_ne
    intro e
    exact hi (by rw [e])

theorem arithStep_frame (st : State K) (t : Handle) (f : BinOp) (raw : Bool) (src : Src K)
    (idx : Idx) : Frame (some t.vid) st (arithStep st t f raw src idx).1 := by
  unfold arithStep
  split
  · rename_i v vs0 hv hs
    split
    · exact Frame.refl _ _
    · split
      · exact Frame.refl _ _
      · exact frame_setData _ _ _ v hv (updAt_length _ _ _ _ _)
  · exact Frame.refl _ _

theorem var_vid (t h : Handle) (name : String) (e : t.var name = some h) : h.vid = t.vid := by
  unfold Handle.var at e
  cases hr : t.absRange name with
  | none => rw [hr] at e; simp at e
  | some r => rw [hr] at e; simp at e; rw [← e]

theorem step_frame (st : State K) (op : Op K) : Frame op.target st (step st op).1 := by
  cases op with
  | arith t f raw src idx => exact arithStep_frame st t f raw src idx
  | named t name f raw vals idx =>
    simp only [step, Op.target]
    split
    · exact Frame.refl _ _
    · rename_i h e
      rw [← var_vid t h name e]
      exact arithStep_frame st h f raw _ idx
  | setVarSel t name sel bvals vals =>
    simp only [step, Op.target]
    split
    · exact Frame.refl _ _
    · rename_i h e
      rw [← var_vid t h name e]
      split
      · exact Frame.refl _ _
      · split
        · exact arithStep_frame st h .set true _ _
        · split
          · exact arithStep_frame st h .set true _ _
          · exact Frame.refl _ _
  | namedIop t name f vals =>
    simp only [step, Op.target]
    split
    · exact Frame.refl _ _
    · rename_i h e
      rw [← var_vid t h name e]
      split
      · rename_i st1 e1
        split
        · have h1 := arithStep_frame st h f false (.vals vals) .full
          rw [e1] at h1
          exact Frame.trans h1 (arithStep_frame st1 h .set true _ .full)
        · exact Frame.refl _ _
      · exact Frame.refl _ _
  | get t name =>
    simp only [step]
    split
    · exact Frame.refl _ _
    · split <;> exact Frame.refl _ _
  | getAll t =>
    simp only [step]
    split <;> exact Frame.refl _ _
  | dot t s =>
    simp only [step]
    split
    · split <;> exact Frame.refl _ _
    · exact Frame.refl _ _
  | norm2 t =>
    simp only [step]
    split <;> exact Frame.refl _ _
  | scale t toNorm rev =>
    simp only [step, Op.target]
    split
    · exact Frame.refl _ _
    · rename_i v hv
      split
      · exact Frame.refl _ _
      · exact frame_setData _ _ _ v hv (updAt_length _ _ _ _ _)
  | setCS b =>
    simp only [step]
    exact Frame.of_vecs_eq _ _ _ rfl

end Frame

/-! ### every write is local to the handle's slice -/

section S
variable {K : Type} [Add K] [Sub K] [Mul K] [Div K] [OfNat K 0] [OfNat K 1]

theorem dataOf_setData (st : State K) (vid : Nat) (d : List (Cx K)) (v : RootVec K)
    (hv : st.vecs[vid]? = some v) : (st.setData vid d).dataOf vid = d := by
  unfold State.dataOf
  rw [setData_get _ _ _ v hv]

theorem setData_dataOf (st : State K) (vid : Nat) : st.setData vid (st.dataOf vid) = st := by
  unfold State.dataOf
  cases hv : st.vecs[vid]? with
  | none => unfold State.setData; rw [hv]
  | some v => exact setData_self st vid v hv

/-- Every `arithStep` is "replace the data of the handle's root vector by an array that agrees with
the old one outside the handle's slice". -/
theorem arithStep_spec (st : State K) (h : Handle) (f : BinOp) (raw : Bool) (src : Src K)
    (idx : Idx) :
    ∃ d', (arithStep st h f raw src idx).1 = st.setData h.vid d' ∧
      d'.length = (st.dataOf h.vid).length ∧
      ∀ q, (q < h.off ∨ h.off + h.len ≤ q) → d'[q]? = (st.dataOf h.vid)[q]? := by
  have triv : ∃ d', st = st.setData h.vid d' ∧ d'.length = (st.dataOf h.vid).length ∧
      ∀ q, (q < h.off ∨ h.off + h.len ≤ q) → d'[q]? = (st.dataOf h.vid)[q]? :=
    ⟨st.dataOf h.vid, (setData_dataOf st h.vid).symm, rfl, fun _ _ => rfl⟩
  unfold arithStep
  split
  · rename_i v vs0 hv hs
    split
    · exact triv
    · rename_i ps hps
      split
      · exact triv
      · rename_i vs hbc
        have hd : st.dataOf h.vid = v.data := by unfold State.dataOf; rw [hv]
        refine ⟨_, rfl, ?_, ?_⟩
        · rw [updAt_length, hd]
        · intro q hq
          rw [hd]
          apply updAt_getElem?_untouched
          intro p hp
          have := positions_lt idx h.len ps hps p hp
          omega
  · exact triv

theorem read_setData (st : State K) (vid : Nat) (d : List (Cx K)) (h : Handle) (hvid : h.vid = vid) :
    (st.setData vid d).read h =
      (st.vecs[vid]?).map fun v => (slice d h.off h.len).map (readCell (st.underCS v)) := by
  unfold State.read
  rw [hvid]
  cases hv : st.vecs[vid]? with
  | none =>
    have : st.setData vid d = st := by unfold State.setData; rw [hv]
    rw [this, hv]; rfl
  | some v =>
    rw [setData_get _ _ _ v hv]
    simp [State.underCS, setData_cs]

theorem read_eq (st : State K) (h : Handle) :
    st.read h = (st.vecs[h.vid]?).map fun v =>
      (slice (st.dataOf h.vid) h.off h.len).map (readCell (st.underCS v)) := by
  unfold State.read State.dataOf
  cases hv : st.vecs[h.vid]? <;> simp

end S

/-! ### named access, scaling plan, mode flag -/

theorem views_tile (vars : List Var) (k : Nat) (hk : k < vars.length) :
    (mkViews vars)[k]'(by rw [mkViews, mkViewsFrom_length]; exact hk) =
      ⟨vars[k].name, vars[k].shape, totalLen (vars.take k), totalLen (vars.take (k + 1))⟩ ∧
    totalLen (vars.take (k + 1)) = totalLen (vars.take k) + vars[k].size ∧
    totalLen (vars.take (k + 1)) ≤ totalLen vars := by
  refine ⟨?_, totalLen_take_succ vars k hk, totalLen_take_le vars (k + 1)⟩
  have e := mkViewsFrom_getElem 0 vars k hk
  simp only [mkViews, e, Nat.zero_add, totalLen_take_succ vars k hk]

theorem nodup_sub (pre sub post : List Var) (hnd : ((pre ++ sub ++ post).map Var.name).Nodup) :
    (sub.map Var.name).Nodup := by
  simp only [List.map_append] at hnd
  exact (List.nodup_append.mp (List.nodup_append.mp hnd).1).2.1

theorem scalePlan_flip (toNorm rev sr : Bool) :
    (scalePlan (!toNorm) rev sr).2 = (scalePlan toNorm rev sr).2 ∧
    (scalePlan (!toNorm) rev sr).1 = !(scalePlan toNorm rev sr).1 := by
  cases toNorm <;> cases rev <;> simp [scalePlan]

section N
variable {K : Type} [Add K] [Sub K] [Mul K] [Div K] [OfNat K 0] [OfNat K 1]

theorem scalePairs_data (v : RootVec K) (d : List (Cx K)) (t : Handle) (b : Bool) :
    scalePairs { v with data := d } t b = scalePairs v t b := rfl

theorem var_eq (t : Handle) (name : String) (a b : Nat) (h : t.absRange name = some (a, b)) :
    t.var name = some { vid := t.vid, off := a, len := b - a, views := [],
                        solverRef := t.solverRef } := by
  unfold Handle.var
  rw [h]
  rfl

theorem absRange_mkViews (t : Handle) (vars : List Var) (hviews : t.views = mkViews vars)
    (hnd : (vars.map Var.name).Nodup) (k : Nat) (hk : k < vars.length) :
    t.absRange vars[k].name =
      some (t.off + totalLen (vars.take k), t.off + totalLen (vars.take (k + 1))) := by
  unfold Handle.absRange
  rw [hviews, mkViews, lookup_mkViewsFrom 0 vars hnd k hk]
  have := (views_tile vars k hk).1
  simp only [mkViews] at this
  rw [this]
  rfl

/-- Reading a variable only looks at its own slice. -/
theorem get_congr (st st' : State K) (t : Handle) (name : String) (a b : Nat) (d' : List (Cx K))
    (h : t.absRange name = some (a, b)) (e : st' = st.setData t.vid d')
    (hd : ∀ q, a ≤ q → q < a + (b - a) → d'[q]? = (st.dataOf t.vid)[q]?) :
    (step st' (.get t name)).2 = (step st (.get t name)).2 := by
  simp only [step, var_eq t name a b h]
  have hr := read_setData st t.vid d' ⟨t.vid, a, b - a, [], t.solverRef⟩ rfl
  have hr2 := read_eq st ⟨t.vid, a, b - a, [], t.solverRef⟩
  simp only at hr hr2
  rw [e, hr, hr2, slice_congr _ _ a (b - a) hd]
  cases st.vecs[t.vid]? <;> rfl

theorem arithStep_cs (st : State K) (h : Handle) (f : BinOp) (raw : Bool) (src : Src K) (idx : Idx) :
    (arithStep st h f raw src idx).1.cs = st.cs := by
  obtain ⟨d', e, _, _⟩ := arithStep_spec st h f raw src idx
  rw [e, setData_cs]

theorem step_cs (st : State K) (op : Op K) :
    (step st op).1.cs = (match op with | .setCS b => b | _ => st.cs) := by
  cases op with
  | arith t f raw src idx => exact arithStep_cs st t f raw src idx
  | named t name f raw vals idx =>
    simp only [step]
    split
    · rfl
    · exact arithStep_cs _ _ _ _ _ _
  | setVarSel t name sel bvals vals =>
    simp only [step]
    split
    · rfl
    · split
      · rfl
      · split
        · exact arithStep_cs _ _ _ _ _ _
        · split
          · exact arithStep_cs _ _ _ _ _ _
          · rfl
  | namedIop t name f vals =>
    simp only [step]
    split
    · rfl
    · rename_i h e
      split
      · rename_i st1 e1
        split
        · rw [arithStep_cs]
          have := arithStep_cs st h f false (.vals vals) .full
          rw [e1] at this
          exact this
        · rfl
      · rfl
  | get t name =>
    simp only [step]
    split
    · rfl
    · split <;> rfl
  | getAll t => simp only [step]; split <;> rfl
  | dot t s =>
    simp only [step]
    split
    · split <;> rfl
    · rfl
  | norm2 t => simp only [step]; split <;> rfl
  | scale t toNorm rev =>
    simp only [step]
    split
    · rfl
    · split
      · rfl
      · exact setData_cs _ _ _
  | setCS b => rfl

end N

end OMV.C33
