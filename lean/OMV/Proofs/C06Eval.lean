/-
C06 — helper lemmas, part 3: values of the expression evaluator, evaluation of the rendered
name (`nameExpr`), and the invariant along `evalE`.
-/
import OMV.Model.C06
import OMV.Proofs.C06Basic
import OMV.Proofs.C06Names

set_option linter.unusedSectionVars false
set_option linter.unusedVariables false
set_option linter.unusedSimpArgs false

namespace OMV.C06
open _root_.OMV.C06.PUnit

def valF : Val → Rat
  | .num x => x.toRat
  | .unit u => u.factor

def valPAt (i : Nat) : Val → Int
  | .num _ => 0
  | .unit u => u.powers.getD i 0

def valO : Val → Rat
  | .num _ => 0
  | .unit u => u.offset

def Val.isUnit : Val → Bool
  | .num _ => false
  | .unit _ => true

def Atom.isSym : Atom Rat → Bool
  | .sym _ => true
  | _ => false

/-- a value that can enter further arithmetic: non-zero, no offset, `n` dimensions -/
def Good (n : Nat) : Val → Prop
  | .num x => x.toRat ≠ 0
  | .unit u => u.offset = 0 ∧ u.powers.length = n ∧ u.factor ≠ 0

theorem toRat_int (i : Int) : (NumV.int i).toRat = (i : Rat) := rfl
theorem toRat_flt (q : Rat) : (NumV.flt q).toRat = q := rfl

theorem evalMul_good {n : Nat} {a b : Val} (ha : Good n a) (hb : Good n b) :
    ∃ c, evalMul a b = .ok c ∧ Good n c ∧ valF c = valF a * valF b ∧
      (∀ i, valPAt i c = valPAt i a + valPAt i b) ∧ c.isUnit = (a.isUnit || b.isUnit) := by
  cases a with
  | unit u =>
    obtain ⟨ho, hl, hf⟩ := ha
    cases b with
    | unit w =>
      obtain ⟨ho', hl', hf'⟩ := hb
      have e : evalMul (.unit u) (.unit w) = .ok (.unit
          { names := ndAdd u.names w.names, factor := u.factor * w.factor,
            powers := List.zipWith (· + ·) u.powers w.powers, offset := 0 }) := by
        simp [evalMul, mul, ho, ho', Except.map]
      refine ⟨_, e, ?_, rfl, ?_, rfl⟩
      · exact ⟨rfl, by simp [List.length_zipWith, hl, hl'], mul_ne_zero hf hf'⟩
      · intro i; exact getD_zipWith_add _ _ (hl.trans hl'.symm) i
    | num x =>
      have e : evalMul (.unit u) (.num x) = .ok (.unit
          { names := ndAdd u.names [(x.key, Pw.one)], factor := u.factor * x.toRat,
            powers := u.powers, offset := u.offset * x.toRat }) := by
        simp [evalMul, mulNum, ho, Except.map]
      refine ⟨_, e, ?_, rfl, ?_, rfl⟩
      · exact ⟨by simp [ho], hl, mul_ne_zero hf hb⟩
      · intro i; simp [valPAt]
  | num x =>
    cases b with
    | unit w =>
      obtain ⟨ho', hl', hf'⟩ := hb
      have e : evalMul (.num x) (.unit w) = .ok (.unit
          { names := ndAdd w.names [(x.key, Pw.one)], factor := w.factor * x.toRat,
            powers := w.powers, offset := w.offset * x.toRat }) := by
        simp [evalMul, mulNum, ho', Except.map]
      refine ⟨_, e, ?_, ?_, ?_, rfl⟩
      · exact ⟨by simp [ho'], hl', mul_ne_zero hf' ha⟩
      · simp [valF, mul_comm]
      · intro i; simp [valPAt]
    | num y =>
      cases x with
      | int i =>
        cases y with
        | int j =>
          refine ⟨.num (.int (i * j)), by simp [evalMul], ?_, ?_, ?_, rfl⟩
          · simp only [Good, toRat_int] at *
            push_cast
            exact mul_ne_zero ha hb
          · simp [valF, toRat_int]
          · intro i; simp [valPAt]
        | flt q =>
          refine ⟨.num (.flt ((i : Rat) * q)), by simp [evalMul, toRat_int, toRat_flt], ?_, ?_, ?_, rfl⟩
          · simp only [Good, toRat_int, toRat_flt] at *
            exact mul_ne_zero ha hb
          · simp [valF, toRat_int, toRat_flt]
          · intro i; simp [valPAt]
      | flt p =>
        refine ⟨.num (.flt (p * y.toRat)), by cases y <;> simp [evalMul, toRat_flt], ?_, ?_, ?_, rfl⟩
        · simp only [Good, toRat_flt] at *
          exact mul_ne_zero ha hb
        · simp [valF, toRat_flt]
        · intro i; simp [valPAt]

theorem evalDiv_good {n : Nat} {a b : Val} (ha : Good n a) (hb : Good n b) :
    ∃ c, evalDiv a b = .ok c ∧ Good n c ∧ valF c = valF a / valF b ∧
      (∀ i, valPAt i c = valPAt i a - valPAt i b) ∧ c.isUnit = (a.isUnit || b.isUnit) := by
  cases a with
  | unit u =>
    obtain ⟨ho, hl, hf⟩ := ha
    cases b with
    | unit w =>
      obtain ⟨ho', hl', hf'⟩ := hb
      have e : evalDiv (.unit u) (.unit w) = .ok (.unit
          { names := ndSub u.names w.names, factor := u.factor / w.factor,
            powers := List.zipWith (· - ·) u.powers w.powers, offset := 0 }) := by
        simp [evalDiv, div, ho, ho', hf', Except.map]
      refine ⟨_, e, ?_, rfl, ?_, rfl⟩
      · exact ⟨rfl, by simp [List.length_zipWith, hl, hl'], div_ne_zero hf hf'⟩
      · intro i; exact getD_zipWith_sub _ _ (hl.trans hl'.symm) i
    | num x =>
      have hx : x.toRat ≠ 0 := hb
      have e : evalDiv (.unit u) (.num x) = .ok (.unit
          { names := ndAdd u.names [(x.key, Pw.neg Pw.one)], factor := u.factor / x.toRat,
            powers := u.powers, offset := 0 }) := by
        simp [evalDiv, divNum, ho, hx, Except.map]
      refine ⟨_, e, ?_, rfl, ?_, rfl⟩
      · exact ⟨rfl, hl, div_ne_zero hf hx⟩
      · intro i; simp [valPAt]
  | num x =>
    cases b with
    | unit w =>
      obtain ⟨ho', hl', hf'⟩ := hb
      have e : evalDiv (.num x) (.unit w) = .ok (.unit
          { names := ndSub [(x.key, Pw.one)] w.names, factor := x.toRat / w.factor,
            powers := w.powers.map (fun p => -p), offset := 0 }) := by
        simp [evalDiv, rdiv, ho', hf', Except.map]
      refine ⟨_, e, ?_, rfl, ?_, rfl⟩
      · exact ⟨rfl, by simp [hl'], div_ne_zero ha hf'⟩
      · intro i
        show (w.powers.map (fun p => -p)).getD i 0 = 0 - w.powers.getD i 0
        rw [getD_map_neg]; ring
    | num y =>
      have hy : y.toRat ≠ 0 := hb
      refine ⟨.num (.flt (x.toRat / y.toRat)), by simp [evalDiv, hy], ?_, rfl, ?_, rfl⟩
      · exact div_ne_zero ha hy
      · intro i; simp [valPAt]

/-- a good value raised to a natural number written as an int literal -/
theorem evalPow_good {n : Nat} (root : Rat → Int → Option Rat) (bn : List String) {a : Val}
    (ha : Good n a) (p : Nat) :
    ∃ c, evalPow root bn a (.num (.int (p : Int))) = .ok c ∧ Good n c ∧ valF c = valF a ^ p ∧
      (∀ i, valPAt i c = valPAt i a * (p : Int)) ∧ c.isUnit = a.isUnit := by
  cases a with
  | unit u =>
    obtain ⟨ho, hl, hf⟩ := ha
    have hp : ¬ ((p : Int) < 0) := by omega
    have e : evalPow root bn (.unit u) (.num (.int (p : Int))) = .ok (.unit
        { names := ndScale (p : Int) u.names, factor := powInt u.factor (p : Int),
          powers := u.powers.map (fun q => q * (p : Int)), offset := 0 }) := by
      simp [evalPow, powI, ho, hp, Except.map]
    refine ⟨_, e, ?_, ?_, ?_, rfl⟩
    · refine ⟨rfl, by simp [hl], ?_⟩
      simp only [powInt_eq]
      exact zpow_ne_zero _ hf
    · simp [valF, powInt_eq]
    · intro i; exact getD_map_mul _ _ i
  | num x =>
    have hx : x.toRat ≠ 0 := ha
    cases x with
    | int i =>
      refine ⟨.num (.int (i ^ p)), by simp [evalPow, numPow, Except.map], ?_, ?_, ?_, rfl⟩
      · simp only [Good, toRat_int] at *
        push_cast
        exact pow_ne_zero _ hx
      · simp [valF, toRat_int]
      · intro i; simp [valPAt]
    | flt q =>
      refine ⟨.num (.flt (q ^ p)), by simp [evalPow, numPow, Except.map, powInt_eq, toRat_flt], ?_, ?_, ?_, rfl⟩
      · simp only [Good, toRat_flt] at *
        exact pow_ne_zero _ hx
      · simp [valF, toRat_flt]
      · intro i; simp [valPAt]

/-! ### evaluating the rendered name -/

section Render
variable (root : Rat → Int → Option Rat) (bn : List String) (t : Table) (n : Nat)

theorem evalE_mul {a b : Expr} {va vb : Val} (ha : evalE root bn t a = .ok va)
    (hb : evalE root bn t b = .ok vb) : evalE root bn t (.mul a b) = evalMul va vb := by
  simp [evalE, ha, hb]

theorem evalE_div {a b : Expr} {va vb : Val} (ha : evalE root bn t a = .ok va)
    (hb : evalE root bn t b = .ok vb) : evalE root bn t (.div a b) = evalDiv va vb := by
  simp [evalE, ha, hb]

theorem evalE_pow {a b : Expr} {va vb : Val} (ha : evalE root bn t a = .ok va)
    (hb : evalE root bn t b = .ok vb) : evalE root bn t (.pow a b) = evalPow root bn va vb := by
  simp [evalE, ha, hb]

/-- what is required of one `_names` entry so that its rendering evaluates to what it denotes -/
structure EntryOK (kv : Atom Rat × Pw) : Prop where
  atom : AtomOK t n kv.1
  off : AtomOffFree t kv.1

theorem evalE_neg {a : Expr} {va : Val} (ha : evalE root bn t a = .ok va) :
    evalE root bn t (.neg a) = evalNeg va := by
  simp [evalE, ha]

theorem atom_eval {k : Atom Rat} {p : Pw} (h : EntryOK t n (k, p)) :
    ∃ v, evalE root bn t (atomExpr k) = .ok v ∧ Good n v ∧
      valF v = atomF t k ∧ (∀ i, valPAt i v = atomPAt t i k) ∧ v.isUnit = k.isSym := by
  cases k with
  | sym s =>
    obtain ⟨u, hu, hf, hl⟩ := h.atom
    refine ⟨.unit u, by simp [atomExpr, evalE, hu], ?_, by simp [valF, atomF, hu], ?_, rfl⟩
    · exact ⟨h.off s rfl u hu, hl, hf⟩
    · intro i; simp [valPAt, atomPAt, hu]
  | litI i =>
    have hi : i ≠ 0 := h.atom
    refine ⟨.num (.int i), ?_, ?_, ?_, ?_, rfl⟩
    · by_cases hneg : i < 0
      · have e1 : evalE root bn t (Expr.int i.natAbs) = .ok (.num (.int (i.natAbs : Int))) := by
          simp [evalE]
        have : -(i.natAbs : Int) = i := by omega
        simp only [atomExpr, hneg, if_true]
        rw [evalE_neg root bn t e1]
        simp only [evalNeg, this]
      · have : ((i.toNat : Nat) : Int) = i := by omega
        simp [atomExpr, hneg, evalE, this]
    · simp only [Good, toRat_int]; exact_mod_cast hi
    · simp [valF, atomF, toRat_int]
    · intro j; simp [valPAt, atomPAt]
  | litF q =>
    have hq : q ≠ 0 := h.atom
    refine ⟨.num (.flt q), ?_, ?_, ?_, ?_, rfl⟩
    · by_cases hneg : q < 0
      · have e1 : evalE root bn t (Expr.flt (-q)) = .ok (.num (.flt (-q))) := by simp [evalE]
        simp only [atomExpr, hneg, if_true]
        rw [evalE_neg root bn t e1]
        simp [evalNeg]
      · simp [atomExpr, hneg, evalE]
    · simp only [Good, toRat_flt]; exact hq
    · simp [valF, atomF, toRat_flt]
    · intro j; simp [valPAt, atomPAt]

/-- one rendered piece `atom` / `atom**p` (`p > 0`) evaluates to `atom ^ p` -/
theorem piece_eval {k : Atom Rat} {pw : Pw} (h : EntryOK t n (k, pw)) (p : Int) (hp : 0 < p) :
    ∃ v, evalE root bn t (pieceExpr k p) = .ok v ∧ Good n v ∧
      valF v = atomF t k ^ p ∧ (∀ i, valPAt i v = atomPAt t i k * p) ∧ v.isUnit = k.isSym := by
  obtain ⟨v, hv, hg, hf, hpw, hu⟩ := atom_eval root bn t n h
  by_cases h1 : p > 1
  · obtain ⟨c, hc, hgc, hfc, hpc, huc⟩ := evalPow_good root bn hg p.toNat
    have hcast : ((p.toNat : Nat) : Int) = p := Int.toNat_of_nonneg hp.le
    have hb : evalE root bn t (Expr.int p.toNat) = .ok (.num (.int ((p.toNat : Nat) : Int))) := by
      simp [evalE]
    refine ⟨c, ?_, hgc, ?_, ?_, by rw [huc, hu]⟩
    · simp only [pieceExpr, h1, if_true]
      rw [evalE_pow root bn t hv hb]
      exact hc
    · rw [hfc, hf, ← zpow_natCast, hcast]
    · intro i; rw [hpc, hpw, hcast]
  · have : p = 1 := by omega
    subst this
    refine ⟨v, ?_, hg, by simp [hf], by intro i; simp [hpw], hu⟩
    simp only [pieceExpr, h1, if_false]
    exact hv

def posF (ns : Names Rat) : Rat :=
  (ns.map (fun kv => if kv.2.v > 0 then atomF t kv.1 ^ kv.2.v else 1)).prod
def negF (ns : Names Rat) : Rat :=
  (ns.map (fun kv => if kv.2.v < 0 then atomF t kv.1 ^ (-kv.2.v) else 1)).prod
def posPAt (i : Nat) (ns : Names Rat) : Int :=
  (ns.map (fun kv => if kv.2.v > 0 then atomPAt t i kv.1 * kv.2.v else 0)).sum
def negPAt (i : Nat) (ns : Names Rat) : Int :=
  (ns.map (fun kv => if kv.2.v < 0 then atomPAt t i kv.1 * (-kv.2.v) else 0)).sum
/-- a unit name occurs in the numerator / in the denominator of the rendered name -/
def symPos (ns : Names Rat) : Bool := ns.any (fun kv => decide (kv.2.v > 0) && kv.1.isSym)
def symNeg (ns : Names Rat) : Bool := ns.any (fun kv => decide (kv.2.v < 0) && kv.1.isSym)

theorem namesF_split (ns : Names Rat) : namesF t ns = posF t ns / negF t ns := by
  induction ns with
  | nil => simp [namesF, posF, negF]
  | cons kv rest ih =>
    rw [namesF_cons, ih]
    simp only [posF, negF, List.map_cons, List.prod_cons]
    rcases lt_trichotomy kv.2.v 0 with h | h | h
    · have h' : ¬ kv.2.v > 0 := by omega
      simp only [h, h', if_true, if_false, one_mul, zpow_neg]
      rw [div_eq_mul_inv, div_eq_mul_inv, mul_inv, inv_inv]
      ring
    · simp [h]
    · have h' : ¬ kv.2.v < 0 := by omega
      simp only [h, h', if_true, if_false, one_mul, gt_iff_lt]
      rw [mul_div_assoc]

theorem namesPAt_split (i : Nat) (ns : Names Rat) :
    namesPAt t i ns = posPAt t i ns - negPAt t i ns := by
  induction ns with
  | nil => simp [namesPAt, posPAt, negPAt]
  | cons kv rest ih =>
    rw [namesPAt_cons, ih]
    simp only [posPAt, negPAt, List.map_cons, List.sum_cons]
    rcases lt_trichotomy kv.2.v 0 with h | h | h
    · have h' : ¬ kv.2.v > 0 := by omega
      simp only [h, h', if_true, if_false]
      ring
    · simp [h]
    · have h' : ¬ kv.2.v < 0 := by omega
      simp only [h, h', if_true, if_false, gt_iff_lt]
      ring

theorem numPieces_cons (kv : Atom Rat × Pw) (rest : Names Rat) :
    numPieces (kv :: rest) =
      if kv.2.v > 0 then pieceExpr kv.1 kv.2.v :: numPieces rest else numPieces rest := by
  simp only [numPieces, List.filter_cons]
  split <;> simp_all

theorem denPieces_cons (kv : Atom Rat × Pw) (rest : Names Rat) :
    denPieces (kv :: rest) =
      if kv.2.v < 0 then pieceExpr kv.1 (-kv.2.v) :: denPieces rest else denPieces rest := by
  simp only [denPieces, List.filter_cons]
  split <;> simp_all

theorem symPos_cons (kv : Atom Rat × Pw) (rest : Names Rat) :
    symPos (kv :: rest) = ((decide (kv.2.v > 0) && kv.1.isSym) || symPos rest) := by
  simp [symPos]

theorem symNeg_cons (kv : Atom Rat × Pw) (rest : Names Rat) :
    symNeg (kv :: rest) = ((decide (kv.2.v < 0) && kv.1.isSym) || symNeg rest) := by
  simp [symNeg]

/-- the `*`-chain over the numerator pieces -/
theorem mul_chain (ns : Names Rat) (hns : ∀ kv ∈ ns, EntryOK t n kv) (acc : Expr) (va : Val)
    (ha : evalE root bn t acc = .ok va) (hg : Good n va) :
    ∃ v, evalE root bn t ((numPieces ns).foldl Expr.mul acc) = .ok v ∧ Good n v ∧
      valF v = valF va * posF t ns ∧ (∀ i, valPAt i v = valPAt i va + posPAt t i ns) ∧
      v.isUnit = (va.isUnit || symPos ns) := by
  induction ns generalizing acc va with
  | nil => exact ⟨va, by simpa [numPieces] using ha, hg, by simp [posF], by simp [posPAt], by simp [symPos]⟩
  | cons kv rest ih =>
    have hrest : ∀ kv' ∈ rest, EntryOK t n kv' := fun kv' h => hns kv' (List.mem_cons_of_mem _ h)
    have hkv := hns kv (List.mem_cons_self ..)
    rw [numPieces_cons, symPos_cons]
    by_cases hp : kv.2.v > 0
    · obtain ⟨vp, hvp, hgp, hfp, hpp, hup⟩ := piece_eval root bn t n (k := kv.1) (pw := kv.2) hkv kv.2.v hp
      obtain ⟨c, hc, hgc, hfc, hpc, huc⟩ := evalMul_good hg hgp
      simp only [hp, if_true, List.foldl_cons]
      obtain ⟨v, hv, hgv, hfv, hpv, huv⟩ := ih hrest (Expr.mul acc (pieceExpr kv.1 kv.2.v)) c
        (by rw [evalE_mul root bn t ha hvp]; exact hc) hgc
      refine ⟨v, hv, hgv, ?_, ?_, ?_⟩
      · rw [hfv, hfc, hfp]; simp only [posF, List.map_cons, List.prod_cons, hp, if_true]; ring
      · intro i; rw [hpv, hpc, hpp]; simp only [posPAt, List.map_cons, List.sum_cons, hp, if_true]; ring
      · rw [huv, huc, hup]; simp [hp, Bool.or_assoc]
    · simp only [hp, if_false]
      obtain ⟨v, hv, hgv, hfv, hpv, huv⟩ := ih hrest acc va ha hg
      refine ⟨v, hv, hgv, ?_, ?_, ?_⟩
      · rw [hfv]; simp only [posF, List.map_cons, List.prod_cons, hp, if_false, one_mul]
      · intro i; rw [hpv]; simp only [posPAt, List.map_cons, List.sum_cons, hp, if_false, zero_add]
      · rw [huv]; simp [hp]

/-- the `/`-chain over the denominator pieces -/
theorem div_chain (ns : Names Rat) (hns : ∀ kv ∈ ns, EntryOK t n kv) (acc : Expr) (va : Val)
    (ha : evalE root bn t acc = .ok va) (hg : Good n va) :
    ∃ v, evalE root bn t ((denPieces ns).foldl Expr.div acc) = .ok v ∧ Good n v ∧
      valF v = valF va / negF t ns ∧ (∀ i, valPAt i v = valPAt i va - negPAt t i ns) ∧
      v.isUnit = (va.isUnit || symNeg ns) := by
  induction ns generalizing acc va with
  | nil => exact ⟨va, by simpa [denPieces] using ha, hg, by simp [negF], by simp [negPAt], by simp [symNeg]⟩
  | cons kv rest ih =>
    have hrest : ∀ kv' ∈ rest, EntryOK t n kv' := fun kv' h => hns kv' (List.mem_cons_of_mem _ h)
    have hkv := hns kv (List.mem_cons_self ..)
    rw [denPieces_cons, symNeg_cons]
    by_cases hp : kv.2.v < 0
    · obtain ⟨vp, hvp, hgp, hfp, hpp, hup⟩ :=
        piece_eval root bn t n (k := kv.1) (pw := kv.2) hkv (-kv.2.v) (by omega)
      obtain ⟨c, hc, hgc, hfc, hpc, huc⟩ := evalDiv_good hg hgp
      simp only [hp, if_true, List.foldl_cons]
      obtain ⟨v, hv, hgv, hfv, hpv, huv⟩ := ih hrest (Expr.div acc (pieceExpr kv.1 (-kv.2.v))) c
        (by rw [evalE_div root bn t ha hvp]; exact hc) hgc
      refine ⟨v, hv, hgv, ?_, ?_, ?_⟩
      · rw [hfv, hfc, hfp]; simp only [negF, List.map_cons, List.prod_cons, hp, if_true]
        rw [div_div]
      · intro i; rw [hpv, hpc, hpp]; simp only [negPAt, List.map_cons, List.sum_cons, hp, if_true]; ring
      · rw [huv, huc, hup]; simp [hp, Bool.or_assoc]
    · simp only [hp, if_false]
      obtain ⟨v, hv, hgv, hfv, hpv, huv⟩ := ih hrest acc va ha hg
      refine ⟨v, hv, hgv, ?_, ?_, ?_⟩
      · rw [hfv]; simp only [negF, List.map_cons, List.prod_cons, hp, if_false, one_mul]
      · intro i; rw [hpv]; simp only [negPAt, List.map_cons, List.sum_cons, hp, if_false, zero_add]
      · rw [huv]; simp [hp]

/-- the head of `nameExpr`: `1` or the `*`-chain of the numerator pieces -/
theorem head_eval (ns : Names Rat) (hns : ∀ kv ∈ ns, EntryOK t n kv) :
    ∃ v, evalE root bn t (nameHead ns) = .ok v ∧ Good n v ∧
      valF v = posF t ns ∧ (∀ i, valPAt i v = posPAt t i ns) ∧ v.isUnit = symPos ns := by
  unfold nameHead
  induction ns with
  | nil =>
    refine ⟨.num (.int 1), by simp [numPieces, evalE], ?_, by simp [valF, posF, toRat_int],
      by simp [valPAt, posPAt], by simp [symPos, Val.isUnit]⟩
    simp [Good, toRat_int]
  | cons kv rest ih =>
    have hrest : ∀ kv' ∈ rest, EntryOK t n kv' := fun kv' h => hns kv' (List.mem_cons_of_mem _ h)
    have hkv := hns kv (List.mem_cons_self ..)
    rw [numPieces_cons, symPos_cons]
    by_cases hp : kv.2.v > 0
    · obtain ⟨vp, hvp, hgp, hfp, hpp, hup⟩ := piece_eval root bn t n (k := kv.1) (pw := kv.2) hkv kv.2.v hp
      simp only [hp, if_true]
      obtain ⟨v, hv, hgv, hfv, hpv, huv⟩ := mul_chain root bn t n rest hrest _ vp hvp hgp
      refine ⟨v, hv, hgv, ?_, ?_, ?_⟩
      · rw [hfv, hfp]; simp only [posF, List.map_cons, List.prod_cons, hp, if_true]
      · intro i; rw [hpv, hpp]; simp only [posPAt, List.map_cons, List.sum_cons, hp, if_true]
      · rw [huv, hup]; simp [hp]
    · simp only [hp, if_false]
      obtain ⟨v, hv, hgv, hfv, hpv, huv⟩ := ih hrest
      refine ⟨v, hv, hgv, ?_, ?_, ?_⟩
      · rw [hfv]; simp only [posF, List.map_cons, List.prod_cons, hp, if_false, one_mul]
      · intro i; rw [hpv]; simp only [posPAt, List.map_cons, List.sum_cons, hp, if_false, zero_add]
      · rw [huv]; simp [hp]

/-- Evaluating the rendered name of a composite unit gives `∏ atom ^ power`; the value is a unit
(not a bare number) exactly when a unit name occurs with a non-zero power. -/
theorem nameExpr_eval (ns : Names Rat) (hns : ∀ kv ∈ ns, EntryOK t n kv) :
    ∃ v, evalE root bn t (nameExpr ns) = .ok v ∧ Good n v ∧
      valF v = namesF t ns ∧ (∀ i, valPAt i v = namesPAt t i ns) ∧
      v.isUnit = (symPos ns || symNeg ns) := by
  obtain ⟨vh, hvh, hgh, hfh, hph, huh⟩ := head_eval root bn t n ns hns
  obtain ⟨v, hv, hgv, hfv, hpv, huv⟩ := div_chain root bn t n ns hns _ vh hvh hgh
  refine ⟨v, by simpa [nameExpr] using hv, hgv, ?_, ?_, by rw [huv, huh]⟩
  · rw [hfv, hfh, namesF_split]
  · intro i; rw [hpv, hph, namesPAt_split]

/-- `hasUnitName` (the test `simplify_unit` makes) in terms of numerator / denominator -/
theorem hasUnitName_split (ns : Names Rat) (hns : ∀ kv ∈ ns, AtomOK t n kv.1) :
    hasUnitName t ns = (symPos ns || symNeg ns) := by
  induction ns with
  | nil => simp [hasUnitName, symPos, symNeg]
  | cons kv rest ih =>
    have hrest := ih (fun kv' h => hns kv' (List.mem_cons_of_mem _ h))
    have hk := hns kv (List.mem_cons_self ..)
    have e : hasUnitName t (kv :: rest) =
        ((kv.2.v != 0 && (match kv.1 with
          | .sym s => (tlookup t s).isSome
          | _ => false)) || hasUnitName t rest) := rfl
    rw [e, hrest, symPos_cons, symNeg_cons]
    have hm : (match kv.1 with
          | .sym s => (tlookup t s).isSome
          | _ => false) = kv.1.isSym := by
      cases hk1 : kv.1 with
      | sym s =>
        rw [hk1] at hk
        obtain ⟨u, hu, _⟩ := hk
        simp [Atom.isSym, hu]
      | litI i => rfl
      | litF q => rfl
    rw [hm]
    rcases lt_trichotomy kv.2.v 0 with h | h | h
    · have h1 : ¬ kv.2.v > 0 := by omega
      have h2 : kv.2.v ≠ 0 := by omega
      cases kv.1.isSym <;> cases symPos rest <;> cases symNeg rest <;> simp [h, h1, h2]
    · cases kv.1.isSym <;> cases symPos rest <;> cases symNeg rest <;> simp [h]
    · have h1 : ¬ kv.2.v < 0 := by omega
      have h2 : kv.2.v ≠ 0 := by omega
      cases kv.1.isSym <;> cases symPos rest <;> cases symNeg rest <;> simp [h, h1, h2]

end Render

/-! ### the invariant along `evalE` (integer powers only: `noRoot`) -/

/-- no zero literal outside exponents (a zero factor makes the unit meaningless) -/
def NoZeroLit : Expr → Prop
  | .int k => k ≠ 0
  | .flt q => q ≠ 0
  | .ident _ => True
  | .neg e => NoZeroLit e
  | .mul a b => NoZeroLit a ∧ NoZeroLit b
  | .div a b => NoZeroLit a ∧ NoZeroLit b
  | .pow a _ => NoZeroLit a

/-- a unit is an untouched table unit (the only way to carry an offset), or it has no offset and
all unit names in its `_names` are offset free (every operator rejects offset operands) -/
def Shape (t : Table) (u : PUnit Rat) : Prop :=
  (∃ a, u.names = [(Atom.sym a, Pw.one)] ∧ tlookup t a = some u) ∨
  (u.offset = 0 ∧ OffFree t u.names)

def ValOK (t : Table) (n : Nat) : Val → Prop
  | .num x => x.toRat ≠ 0
  | .unit u => Inv t n u ∧ Shape t u

/-- an operand without offset has offset free names -/
theorem Shape.offFree {t : Table} {u : PUnit Rat} (h : Shape t u) (ho : u.offset = 0) :
    OffFree t u.names := by
  rcases h with ⟨a, hn, ha⟩ | ⟨_, h⟩
  · intro kv hkv s hs w hw
    rw [hn] at hkv
    simp at hkv
    subst hkv
    simp at hs
    subst hs
    rw [ha] at hw
    simp at hw
    subst hw
    exact ho
  · exact h

theorem map_ok {α β : Type} {f : α → β} {x : Except Err α} {v : β} (h : x.map f = .ok v) :
    ∃ c, x = .ok c ∧ v = f c := by
  cases x with
  | error e => simp [Except.map] at h
  | ok c => simp [Except.map] at h; exact ⟨c, rfl, h.symm⟩

theorem key_ok (t : Table) (n : Nat) (x : NumV) (hx : x.toRat ≠ 0) :
    AtomOK t n x.key ∧ atomF t x.key = x.toRat ∧ ∀ i, atomPAt t i x.key = 0 := by
  cases x with
  | int i =>
    refine ⟨?_, rfl, fun _ => rfl⟩
    simp only [NumV.key, AtomOK]
    intro h; apply hx; simp [toRat_int, h]
  | flt q => exact ⟨hx, rfl, fun _ => rfl⟩

/-- the local `go` of `numPow` -/
def numPowGo (x : NumV) (n : Int) (forceF : Bool) : Except Err NumV :=
  if 0 ≤ n then
    match x, forceF with
    | .int i, false => .ok (.int (i ^ n.toNat))
    | _, _ => .ok (.flt (powInt x.toRat n))
  else if x.toRat = 0 then .error .zeroDiv
  else .ok (.flt (powInt x.toRat n))

theorem numPow_int (x : NumV) (m : Int) : numPow x (.int m) = numPowGo x m false := rfl
theorem numPow_flt (x : NumV) (e : Rat) :
    numPow x (.flt e) =
      if e.den = 1 then numPowGo x e.num true else .error (.abstain "number ** non-integral float") := rfl

theorem numPowGo_ne_zero {x : NumV} (hx : x.toRat ≠ 0) (m : Int) (b : Bool) (r : NumV)
    (hr : numPowGo x m b = .ok r) : r.toRat ≠ 0 := by
  unfold numPowGo at hr
  split at hr
  · split at hr
    · simp at hr; subst hr
      simp only [toRat_int] at *
      push_cast
      exact pow_ne_zero _ hx
    · simp at hr; subst hr
      simp only [toRat_flt, powInt_eq]
      exact zpow_ne_zero _ hx
  · simp [hx] at hr; subst hr
    simp only [toRat_flt, powInt_eq]
    exact zpow_ne_zero _ hx

theorem numPow_ne_zero {x y r : NumV} (hx : x.toRat ≠ 0) (h : numPow x y = .ok r) : r.toRat ≠ 0 := by
  cases y with
  | int m => rw [numPow_int] at h; exact numPowGo_ne_zero hx m false r h
  | flt e =>
    rw [numPow_flt] at h
    by_cases hd : e.den = 1
    · rw [if_pos hd] at h; exact numPowGo_ne_zero hx e.num true r h
    · rw [if_neg hd] at h; simp at h

theorem eval_inv (bn : List String) (t : Table) (n : Nat) (hT : TableOK t n) (e : Expr) (v : Val)
    (hz : NoZeroLit e) (h : evalE noRoot bn t e = .ok v) : ValOK t n v := by
  induction e generalizing v with
  | int k =>
    simp [evalE] at h; subst h
    simp only [ValOK, toRat_int]
    simp only [NoZeroLit] at hz
    exact_mod_cast hz
  | flt q => simp [evalE] at h; subst h; exact hz
  | ident s =>
    simp only [evalE] at h
    split at h
    · rename_i u hu
      simp at h; subst h
      obtain ⟨_, _, a, hn, ha⟩ := hT s u hu
      exact ⟨inv_lookup hT hu, Or.inl ⟨a, hn, ha⟩⟩
    · simp at h
  | neg a ih =>
    simp only [evalE] at h
    split at h
    · simp at h
    · rename_i w hw
      have := ih w hz hw
      cases w with
      | unit u => simp [evalNeg] at h
      | num x =>
        cases x with
        | int i => simp [evalNeg] at h; subst h; simpa [ValOK, toRat_int] using this
        | flt q => simp [evalNeg] at h; subst h; simpa [ValOK, toRat_flt] using this
  | mul a b iha ihb =>
    simp only [evalE] at h
    split at h
    · simp at h
    · rename_i va hva
      split at h
      · simp at h
      · rename_i vb hvb
        have ha := iha va hz.1 hva
        have hb := ihb vb hz.2 hvb
        cases va with
        | unit u =>
          cases vb with
          | unit w =>
            obtain ⟨c, hc, rfl⟩ := map_ok (by simpa [evalMul] using h)
            refine ⟨inv_mul ha.1 hb.1 hc, Or.inr ?_⟩
            unfold PUnit.mul at hc
            split at hc
            · simp at hc
            · rename_i ho
              simp only [not_or, not_not] at ho
              simp at hc; subst hc
              exact ⟨rfl, ndAdd_keys (AtomOffFree t) _ _ (ha.2.offFree ho.1) (hb.2.offFree ho.2)⟩
          | num x =>
            obtain ⟨c, hc, rfl⟩ := map_ok (by simpa [evalMul] using h)
            obtain ⟨k1, k2, k3⟩ := key_ok t n x hb
            refine ⟨inv_mulNum ha.1 k1 k2 k3 hc, Or.inr ?_⟩
            unfold PUnit.mulNum at hc
            split at hc
            · simp at hc
            · rename_i ho
              simp only [not_not] at ho
              simp at hc; subst hc
              exact ⟨by simp [ho], ndAdd_keys (AtomOffFree t) _ _ (ha.2.offFree ho)
                (offFree_single t _ _ (atomOffFree_key t x))⟩
        | num x =>
          cases vb with
          | unit w =>
            obtain ⟨c, hc, rfl⟩ := map_ok (by simpa [evalMul] using h)
            obtain ⟨k1, k2, k3⟩ := key_ok t n x ha
            refine ⟨inv_mulNum hb.1 k1 k2 k3 hc, Or.inr ?_⟩
            unfold PUnit.mulNum at hc
            split at hc
            · simp at hc
            · rename_i ho
              simp only [not_not] at ho
              simp at hc; subst hc
              exact ⟨by simp [ho], ndAdd_keys (AtomOffFree t) _ _ (hb.2.offFree ho)
                (offFree_single t _ _ (atomOffFree_key t x))⟩
          | num y =>
            obtain ⟨c, hc, _, hf, _⟩ := evalMul_good (n := n) (a := .num x) (b := .num y) ha hb
            rw [hc] at h; simp at h; subst h
            cases c with
            | num z => simpa [ValOK, valF] using (show valF (.num z) ≠ 0 by rw [hf]; exact mul_ne_zero ha hb)
            | unit u => cases x <;> cases y <;> simp [evalMul] at hc
  | div a b iha ihb =>
    simp only [evalE] at h
    split at h
    · simp at h
    · rename_i va hva
      split at h
      · simp at h
      · rename_i vb hvb
        have ha := iha va hz.1 hva
        have hb := ihb vb hz.2 hvb
        cases va with
        | unit u =>
          cases vb with
          | unit w =>
            obtain ⟨c, hc, rfl⟩ := map_ok (by simpa [evalDiv] using h)
            refine ⟨inv_div ha.1 hb.1 hc, Or.inr ?_⟩
            unfold PUnit.div at hc
            split at hc
            · simp at hc
            · rename_i ho
              simp only [not_or, not_not] at ho
              split at hc
              · simp at hc
              · simp at hc; subst hc
                exact ⟨rfl, ndSub_keys (AtomOffFree t) _ _ (ha.2.offFree ho.1) (hb.2.offFree ho.2)⟩
          | num x =>
            obtain ⟨c, hc, rfl⟩ := map_ok (by simpa [evalDiv] using h)
            obtain ⟨k1, k2, k3⟩ := key_ok t n x hb
            refine ⟨inv_divNum ha.1 k1 k2 k3 hc, Or.inr ?_⟩
            unfold PUnit.divNum at hc
            split at hc
            · simp at hc
            · rename_i ho
              simp only [not_not] at ho
              split at hc
              · simp at hc
              · simp at hc; subst hc
                exact ⟨rfl, ndAdd_keys (AtomOffFree t) _ _ (ha.2.offFree ho)
                  (offFree_single t _ _ (atomOffFree_key t x))⟩
        | num x =>
          cases vb with
          | unit w =>
            obtain ⟨c, hc, rfl⟩ := map_ok (by simpa [evalDiv] using h)
            obtain ⟨k1, k2, k3⟩ := key_ok t n x ha
            refine ⟨inv_rdiv hb.1 k1 k2 k3 hc, Or.inr ?_⟩
            unfold PUnit.rdiv at hc
            split at hc
            · simp at hc
            · rename_i ho
              simp only [not_not] at ho
              split at hc
              · simp at hc
              · simp at hc; subst hc
                exact ⟨rfl, ndSub_keys (AtomOffFree t) _ _
                  (offFree_single t _ _ (atomOffFree_key t x)) (hb.2.offFree ho)⟩
          | num y =>
            have hy : y.toRat ≠ 0 := hb
            simp [evalDiv, hy] at h; subst h
            exact div_ne_zero ha hy
  | pow a b iha ihb =>
    simp only [evalE] at h
    split at h
    · simp at h
    · rename_i va hva
      split at h
      · simp at h
      · rename_i vb hvb
        have ha := iha va hz hva
        cases va with
        | unit u =>
          cases vb with
          | unit w => simp [evalPow] at h
          | num y =>
            cases y with
            | int m =>
              obtain ⟨c, hc, rfl⟩ := map_ok (by simpa [evalPow] using h)
              refine ⟨inv_powI ha.1 hc, Or.inr ?_⟩
              unfold PUnit.powI at hc
              split at hc
              · simp at hc
              · rename_i ho
                simp only [not_not] at ho
                split at hc
                · simp at hc
                · simp at hc; subst hc
                  exact ⟨rfl, ndScale_keys (AtomOffFree t) _ _ (ha.2.offFree ho)⟩
            | flt q =>
              exfalso
              simp only [evalPow] at h
              split at h
              · simp at h
              · split at h
                · simp at h
                · split at h
                  · obtain ⟨c, hc, _⟩ := map_ok h
                    unfold PUnit.powInv at hc
                    split at hc
                    · simp at hc
                    · split at hc
                      · simp at hc
                      · split at hc
                        · simp [noRoot] at hc
                        · simp at hc
                  · simp at h
        | num x =>
          cases vb with
          | unit w => simp [evalPow] at h
          | num y =>
            obtain ⟨r, hr, rfl⟩ := map_ok (by simpa [evalPow] using h)
            exact numPow_ne_zero ha hr

/-! ### small deciders for the kernel-checked witnesses in `OMV/Props/C06.lean` -/

/-- a root oracle that knows `1 ** (1/r) = 1` -/
def rootOfOne : Rat → Int → Option Rat := fun x _ => if x = 1 then some 1 else none

def simpIs (r : Except Err Simp × Lib) (x : Simp) : Bool :=
  match r.1 with
  | .ok y => decide (y = x)
  | .error _ => false

def simpErrIs (r : Except Err Simp × Lib) (e : Err) : Bool :=
  match r.1 with
  | .ok _ => false
  | .error x => decide (x = e)

/-- `_find_unit` succeeded with this factor, offset and dimension -/
def findIs (r : Except Err (PUnit Rat) × Lib) (f o : Rat) (p : List Int) : Bool :=
  match r.1 with
  | .ok u => decide (u.factor = f ∧ u.offset = o ∧ u.powers = p)
  | .error _ => false

end OMV.C06
