/-
C14 — the tangent over a field: it vanishes along directions that do not touch the variables of
the expression, it is additive and homogeneous in the direction, and therefore it is the product
of the Jacobian assembled from unit perturbations with the direction.
-/
import OMV.Proofs.C14Basic
import Mathlib.Algebra.Field.Basic
import Mathlib.Algebra.BigOperators.Group.Finset.Basic
import Mathlib.Algebra.BigOperators.Ring.Finset
import Mathlib.Data.Rat.Cast.Defs
import Mathlib.Tactic.Ring

set_option linter.unusedSimpArgs false
set_option linter.unusedSectionVars false

namespace OMV.C14

variable {K : Type} [Field K]

/-- The algebra of a field with a table of primitives. -/
def fieldAlg (p : String → K → K) (p2 : String → K → K → K) : Alg K :=
  mkAlg (fun q => (q : K)) p p2

variable (p : String → K → K) (p2 : String → K → K → K) (D : Deriv K)

@[simp] theorem fieldAlg_add (a b : K) : (fieldAlg p p2).add a b = a + b := rfl
@[simp] theorem fieldAlg_sub (a b : K) : (fieldAlg p p2).sub a b = a - b := rfl
@[simp] theorem fieldAlg_mul (a b : K) : (fieldAlg p p2).mul a b = a * b := rfl
@[simp] theorem fieldAlg_div (a b : K) : (fieldAlg p p2).div a b = a / b := rfl
@[simp] theorem fieldAlg_neg (a : K) : (fieldAlg p p2).neg a = -a := rfl
@[simp] theorem fieldAlg_lit0 : (fieldAlg p p2).lit 0 = 0 := Rat.cast_zero
@[simp] theorem fieldAlg_lit1 : (fieldAlg p p2).lit 1 = 1 := Rat.cast_one

theorem sumN_zero (n : Nat) : sumN (fieldAlg p p2) (fun _ => (0 : K)) n = 0 := by
  induction n with
  | zero => simp [sumN]
  | succ n ih => simp [sumN, ih]

theorem sumN_add (f g : Nat → K) (n : Nat) :
    sumN (fieldAlg p p2) (fun j => f j + g j) n
      = sumN (fieldAlg p p2) f n + sumN (fieldAlg p p2) g n := by
  induction n with
  | zero => simp [sumN]
  | succ n ih => simp only [sumN, ih, fieldAlg_add]; ring

theorem sumN_smul (a : K) (f : Nat → K) (n : Nat) :
    sumN (fieldAlg p p2) (fun j => a * f j) n = a * sumN (fieldAlg p p2) f n := by
  induction n with
  | zero => simp [sumN]
  | succ n ih => simp only [sumN, ih, fieldAlg_add]; ring

theorem sumN_eq_finset (f : Nat → K) (n : Nat) :
    sumN (fieldAlg p p2) f n = ∑ j ∈ Finset.range n, f j := by
  induction n with
  | zero => simp [sumN]
  | succ n ih => simp only [sumN, ih, fieldAlg_add, Finset.sum_range_succ]

/-- Along a direction that vanishes on every variable of the expression the tangent is zero. -/
theorem tangentAt_indep (sh : Nat → Shape) (x d : Nat → Nat → K) (e : Expr)
    (h : ∀ w, w ∈ e.vars → ∀ i, d w i = 0) :
    ∀ i, tangentAt (fieldAlg p p2) D sh x d e i = 0 := by
  induction e with
  | lit q => intro i; simp [tangentAt]
  | var v => intro i; simp only [tangentAt]; exact h v (by simp [Expr.vars]) i
  | neg a iha => intro i; simp [tangentAt, iha h]
  | add a b iha ihb =>
    intro i
    simp [tangentAt, iha (fun w hw => h w (by simp [Expr.vars, hw])),
      ihb (fun w hw => h w (by simp [Expr.vars, hw]))]
  | sub a b iha ihb =>
    intro i
    simp [tangentAt, iha (fun w hw => h w (by simp [Expr.vars, hw])),
      ihb (fun w hw => h w (by simp [Expr.vars, hw]))]
  | mul a b iha ihb =>
    intro i
    simp [tangentAt, iha (fun w hw => h w (by simp [Expr.vars, hw])),
      ihb (fun w hw => h w (by simp [Expr.vars, hw]))]
  | div a b iha ihb =>
    intro i
    simp [tangentAt, iha (fun w hw => h w (by simp [Expr.vars, hw])),
      ihb (fun w hw => h w (by simp [Expr.vars, hw]))]
  | powi a n iha => intro i; simp [tangentAt, iha h]
  | prim f a iha => intro i; simp [tangentAt, iha h]
  | prim2 f a b iha ihb =>
    intro i
    simp [tangentAt, iha (fun w hw => h w (by simp [Expr.vars, hw])),
      ihb (fun w hw => h w (by simp [Expr.vars, hw]))]
  | sum a iha =>
    intro i
    simp only [tangentAt]
    rw [show (fun j => tangentAt (fieldAlg p p2) D sh x d a j) = (fun _ => (0 : K)) from
      funext (iha h)]
    exact sumN_zero p p2 _
  | dot a b iha ihb =>
    intro i
    simp only [tangentAt]
    rw [show (fun j => (fieldAlg p p2).add
          ((fieldAlg p p2).mul (tangentAt (fieldAlg p p2) D sh x d a j)
            (evalAt (fieldAlg p p2) sh x b j))
          ((fieldAlg p p2).mul (evalAt (fieldAlg p p2) sh x a j)
            (tangentAt (fieldAlg p p2) D sh x d b j))) = (fun _ => (0 : K)) from
      funext (fun j => by
        simp [iha (fun w hw => h w (by simp [Expr.vars, hw])) j,
          ihb (fun w hw => h w (by simp [Expr.vars, hw])) j])]
    exact sumN_zero p p2 _
  | idx a k iha => intro i; simp [tangentAt, iha h]
  | rev a iha => intro i; simp [tangentAt, iha h]

theorem tangentAt_add (sh : Nat → Shape) (x d d' : Nat → Nat → K) (e : Expr) :
    ∀ i, tangentAt (fieldAlg p p2) D sh x (fun v j => d v j + d' v j) e i
      = tangentAt (fieldAlg p p2) D sh x d e i + tangentAt (fieldAlg p p2) D sh x d' e i := by
  induction e with
  | lit q => intro i; simp [tangentAt]
  | var v => intro i; simp [tangentAt]
  | neg a iha => intro i; simp only [tangentAt, iha, fieldAlg_neg]; ring
  | add a b iha ihb => intro i; simp only [tangentAt, iha, ihb, fieldAlg_add]; ring
  | sub a b iha ihb => intro i; simp only [tangentAt, iha, ihb, fieldAlg_sub]; ring
  | mul a b iha ihb => intro i; simp only [tangentAt, iha, ihb, fieldAlg_add, fieldAlg_mul]; ring
  | div a b iha ihb =>
    intro i
    simp only [tangentAt, iha, ihb, fieldAlg_sub, fieldAlg_mul, fieldAlg_div]; ring
  | powi a n iha => intro i; simp only [tangentAt, iha, fieldAlg_mul]; ring
  | prim f a iha => intro i; simp only [tangentAt, iha, fieldAlg_mul]; ring
  | prim2 f a b iha ihb =>
    intro i; simp only [tangentAt, iha, ihb, fieldAlg_add, fieldAlg_mul]; ring
  | sum a iha =>
    intro i
    simp only [tangentAt]
    rw [show (fun j => tangentAt (fieldAlg p p2) D sh x (fun v j => d v j + d' v j) a j)
        = (fun j => tangentAt (fieldAlg p p2) D sh x d a j
            + tangentAt (fieldAlg p p2) D sh x d' a j) from funext iha]
    exact sumN_add p p2 _ _ _
  | dot a b iha ihb =>
    intro i
    simp only [tangentAt]
    rw [← sumN_add]
    refine sumN_congr _ _ _ _ (fun j _ => ?_)
    simp only [iha, ihb, fieldAlg_add, fieldAlg_mul]; ring
  | idx a k iha => intro i; simp only [tangentAt, iha]
  | rev a iha => intro i; simp only [tangentAt, iha]

theorem tangentAt_smul (sh : Nat → Shape) (x d : Nat → Nat → K) (c : K) (e : Expr) :
    ∀ i, tangentAt (fieldAlg p p2) D sh x (fun v j => c * d v j) e i
      = c * tangentAt (fieldAlg p p2) D sh x d e i := by
  induction e with
  | lit q => intro i; simp [tangentAt]
  | var v => intro i; simp [tangentAt]
  | neg a iha => intro i; simp only [tangentAt, iha, fieldAlg_neg]; ring
  | add a b iha ihb => intro i; simp only [tangentAt, iha, ihb, fieldAlg_add]; ring
  | sub a b iha ihb => intro i; simp only [tangentAt, iha, ihb, fieldAlg_sub]; ring
  | mul a b iha ihb => intro i; simp only [tangentAt, iha, ihb, fieldAlg_add, fieldAlg_mul]; ring
  | div a b iha ihb =>
    intro i
    simp only [tangentAt, iha, ihb, fieldAlg_sub, fieldAlg_mul, fieldAlg_div]; ring
  | powi a n iha => intro i; simp only [tangentAt, iha, fieldAlg_mul]; ring
  | prim f a iha => intro i; simp only [tangentAt, iha, fieldAlg_mul]; ring
  | prim2 f a b iha ihb =>
    intro i; simp only [tangentAt, iha, ihb, fieldAlg_add, fieldAlg_mul]; ring
  | sum a iha =>
    intro i
    simp only [tangentAt]
    rw [show (fun j => tangentAt (fieldAlg p p2) D sh x (fun v j => c * d v j) a j)
        = (fun j => c * tangentAt (fieldAlg p p2) D sh x d a j) from funext iha]
    exact sumN_smul p p2 _ _ _
  | dot a b iha ihb =>
    intro i
    simp only [tangentAt]
    rw [← sumN_smul]
    refine sumN_congr _ _ _ _ (fun j _ => ?_)
    simp only [iha, ihb, fieldAlg_add, fieldAlg_mul]; ring
  | idx a k iha => intro i; simp only [tangentAt, iha]
  | rev a iha => intro i; simp only [tangentAt, iha]

/-! ### A linear functional of the direction is determined by its values on unit directions -/

/-- The unit direction of entry `j` of variable `v`. -/
def unitDir (v j : Nat) : Nat → Nat → K := fun w i => if w = v ∧ i = j then 1 else 0

theorem seedOne_eq_unitDir (v j : Nat) : seedOne (fieldAlg p p2) v j = unitDir (K := K) v j := by
  funext w i; simp [seedOne, unitDir]

section decomp
variable (T : (Nat → Nat → K) → K)
  (hadd : ∀ d d', T (fun v i => d v i + d' v i) = T d + T d')
  (hsmul : ∀ (c : K) d, T (fun v i => c * d v i) = c * T d)
include hadd hsmul

theorem lin_zero : T (fun _ _ => 0) = 0 := by
  have := hsmul 0 (fun _ _ => 0)
  simpa using this

theorem lin_sum (f : Nat → Nat → Nat → K) (n : Nat) :
    T (fun w i => ∑ k ∈ Finset.range n, f k w i) = ∑ k ∈ Finset.range n, T (f k) := by
  induction n with
  | zero => simpa using lin_zero T hadd hsmul
  | succ n ih =>
    simp only [Finset.sum_range_succ]
    rw [hadd (fun w i => ∑ k ∈ Finset.range n, f k w i) (f n), ih]

/-- A direction supported on the entries `(v, j)`, `v < nv`, `j < sz v`, is the combination of
the unit directions, and `T` of it the same combination of the values on unit directions. -/
theorem lin_decomp (nv : Nat) (sz : Nat → Nat) (d : Nat → Nat → K)
    (hd : ∀ v j, ¬ (v < nv ∧ j < sz v) → d v j = 0) :
    T d = ∑ v ∈ Finset.range nv, ∑ j ∈ Finset.range (sz v), d v j * T (unitDir v j) := by
  have hfun : d = fun w i => ∑ v ∈ Finset.range nv,
      (∑ j ∈ Finset.range (sz v), d v j * unitDir (K := K) v j w i) := by
    funext w i
    have inner : ∀ v, (∑ j ∈ Finset.range (sz v), d v j * unitDir (K := K) v j w i)
        = if w = v ∧ i < sz v then d v i else 0 := by
      intro v
      by_cases hwv : w = v
      · subst hwv
        by_cases hi : i < sz w
        · rw [Finset.sum_eq_single i]
          · simp [unitDir, hi]
          · intro j _ hji; simp [unitDir, Ne.symm hji]
          · intro hni; exact absurd (Finset.mem_range.mpr hi) hni
        · simp only [hi, and_false, if_false]
          apply Finset.sum_eq_zero
          intro j hj
          have : i ≠ j := fun hij => hi (hij ▸ Finset.mem_range.mp hj)
          simp [unitDir, this]
      · simp [unitDir, hwv]
    simp only [inner]
    by_cases hw : w < nv
    · rw [Finset.sum_eq_single w]
      · by_cases hi : i < sz w
        · simp [hi]
        · simp [hi, hd w i (fun hh => hi hh.2)]
      · intro v _ hvw; simp [Ne.symm hvw]
      · intro hnw; exact absurd (Finset.mem_range.mpr hw) hnw
    · rw [hd w i (fun hh => hw hh.1)]
      symm
      apply Finset.sum_eq_zero
      intro v hv
      have : w ≠ v := fun hwv => hw (hwv ▸ Finset.mem_range.mp hv)
      simp [this]
  conv => lhs; rw [hfun]
  rw [lin_sum T hadd hsmul]
  apply Finset.sum_congr rfl
  intro v _
  rw [lin_sum T hadd hsmul]
  apply Finset.sum_congr rfl
  intro j _
  exact hsmul (d v j) (unitDir v j)

end decomp

end OMV.C14
