/-
C34 helper lemmas, part 2: the AD contract (`IsJac`) and the jacobian assembly of
`ExplicitFuncComp._jax_linearize` (uncolored and colored) under that contract.
-/
import OMV.Proofs.C34Shape
import Mathlib.Algebra.BigOperators.Group.Finset.Basic
import Mathlib.Algebra.BigOperators.Ring.Finset
import Mathlib.Algebra.Field.Basic

set_option linter.unusedSectionVars false
set_option linter.unusedVariables false

namespace OMV.C34
open OMV.C14

variable {K : Type} [Field K]

/-- The contract of the AD engine for a function whose exact partials are `J u p r j`
(`∂ ret_u[r] / ∂ arg_p[j]`): `jvp` returns `J·d`, `vjp` returns `Jᵀ·w`. Tangents (cotangents) are
only read inside the differentiable arguments (return values). -/
structure IsJac (f : Func) (ad : AD K) (J : Nat → Nat → Nat → Nat → K) : Prop where
  jvp : ∀ (d : Nat → Nat → K) (u r : Nat), (∀ p j, ¬ (j < f.colSize p) → d p j = 0) →
    ad.jvp d u r
      = ∑ p ∈ Finset.range f.args.length, ∑ j ∈ Finset.range (f.colSize p), d p j * J u p r j
  vjp : ∀ (w : Nat → Nat → K) (p j : Nat), (∀ u r, ¬ (r < f.retSize u) → w u r = 0) →
    ad.vjp w p j
      = ∑ u ∈ Finset.range f.rets.length, ∑ r ∈ Finset.range (f.retSize u), w u r * J u p r j

/-- A double sum over the entries of a list of variables with a single non-vanishing term. -/
theorem sum_sizes_single (sz : List Nat) (p0 j0 : Nat) (G : Nat → Nat → K)
    (h0 : j0 < sz.getD p0 0)
    (hz : ∀ p j, j < sz.getD p 0 → ¬ (p = p0 ∧ j = j0) → G p j = 0) :
    ∑ p ∈ Finset.range sz.length, ∑ j ∈ Finset.range (sz.getD p 0), G p j = G p0 j0 := by
  have hp0 : p0 < sz.length := getD_pos_lt sz p0 j0 h0
  rw [Finset.sum_eq_single p0]
  · rw [Finset.sum_eq_single j0]
    · intro j hj hne
      exact hz p0 j (Finset.mem_range.mp hj) (fun h => hne h.2)
    · intro h; exact absurd (Finset.mem_range.mpr h0) h
  · intro p _ hne
    apply Finset.sum_eq_zero
    intro j hj
    exact hz p j (Finset.mem_range.mp hj) (fun h => hne h.1)
  · intro h; exact absurd (Finset.mem_range.mpr hp0) h

theorem colSizes_length (f : Func) : f.colSizes.length = f.args.length := by simp [Func.colSizes]
theorem retSizes_length (f : Func) : f.retSizes.length = f.rets.length := by simp [Func.retSizes]

theorem retSize_eq (f : Func) (u r : Nat) (h : r < f.retSize u) :
    f.retSize u = prod (f.retShape u) := by
  unfold Func.retSize Func.retSizes Func.retShape at *
  by_cases hu : u < f.rets.length
  · simp [List.getD, hu]
  · simp [List.getD, List.getElem?_eq_none (Nat.le_of_not_lt hu)] at h

theorem colSize_eq (f : Func) (p j : Nat) (h : j < f.colSize p) :
    f.colSize p = prod (f.argShape p) := by
  unfold Func.colSize Func.colSizes Func.argShape at *
  by_cases hp : p < f.args.length
  · simp only [List.getD, List.getElem?_map, List.getElem?_eq_getElem hp, Option.map_some,
      Option.getD_some] at h ⊢
    by_cases hd : (f.args[p]).isDyn = true
    · simp [hd]
    · simp [hd] at h
  · simp [List.getD, List.getElem?_eq_none (Nat.le_of_not_lt hp)] at h

theorem eyeSeed_hit (sz : List Nat) (c p j : Nat) (h : offset sz p + j = c)
    (hj : j < sz.getD p 0) : eyeSeed (K := K) sz c p j = 1 := by
  unfold eyeSeed; rw [if_pos ⟨h, hj⟩]

theorem eyeSeed_miss (sz : List Nat) (c p j : Nat) (h : ¬ (offset sz p + j = c ∧ j < sz.getD p 0)) :
    eyeSeed (K := K) sz c p j = 0 := by
  unfold eyeSeed; rw [if_neg h]

theorem eyeSeed_vanish (sz : List Nat) (c p j : Nat) (h : ¬ j < sz.getD p 0) :
    eyeSeed (K := K) sz c p j = 0 := eyeSeed_miss sz c p j (fun hh => h hh.2)

theorem colorSeed_hit (sz g : List Nat) (p j : Nat) (h : offset sz p + j ∈ g)
    (hj : j < sz.getD p 0) : colorSeed (K := K) sz g p j = 1 := by
  unfold colorSeed; rw [if_pos ⟨List.contains_iff_mem.mpr h, hj⟩]

theorem colorSeed_miss (sz g : List Nat) (p j : Nat) (h : ¬ (offset sz p + j ∈ g ∧ j < sz.getD p 0)) :
    colorSeed (K := K) sz g p j = 0 := by
  unfold colorSeed; rw [if_neg (fun hh => h ⟨List.contains_iff_mem.mp hh.1, hh.2⟩)]

/-- `_jax_linearize`, fwd branch without coloring: the assembled dense array holds the exact
partial derivative at the variables' offsets. -/
theorem efcFwd_exact (f : Func) (ad : AD K) (J : Nat → Nat → Nat → Nat → K) (hJ : IsJac f ad J)
    (u p r j : Nat) (hr : r < f.retSize u) (hj : j < f.colSize p) :
    efcFwd f ad (offset f.retSizes u + r) (offset f.colSizes p + j) = J u p r j := by
  unfold efcFwd
  simp only [locate_offset f.retSizes u r hr]
  have hcol : offset f.colSizes p + j < f.isize := offset_add_lt f.colSizes p j hj
  rw [fwdBlock_eq _ _ _ _ _ _ _ (by rw [← retSize_eq f u r hr]; exact hr) hcol]
  rw [hJ.jvp _ u r (fun p' j' h => eyeSeed_vanish f.colSizes _ p' j' h)]
  rw [← colSizes_length f]
  have := sum_sizes_single f.colSizes p j
    (fun p' j' => eyeSeed (K := K) f.colSizes (offset f.colSizes p + j) p' j' * J u p' r j') hj
    (by
      intro p' j' hj' hne
      have : ¬ (offset f.colSizes p' + j' = offset f.colSizes p + j) := by
        intro he
        exact hne (offset_inj f.colSizes p' j' p j hj' hj he)
      rw [eyeSeed_miss _ _ _ _ (fun hh => this hh.1), zero_mul])
  simp only [Func.colSize] at this ⊢
  rw [this, eyeSeed_hit _ _ _ _ rfl hj, one_mul]

/-- `_jax_linearize`, rev branch without coloring. -/
theorem efcRev_exact (f : Func) (ad : AD K) (J : Nat → Nat → Nat → Nat → K) (hJ : IsJac f ad J)
    (u p r j : Nat) (hr : r < f.retSize u) (hj : j < f.colSize p) :
    efcRev f ad (offset f.retSizes u + r) (offset f.colSizes p + j) = J u p r j := by
  unfold efcRev
  simp only [locate_offset f.colSizes p j hj]
  have hrow : offset f.retSizes u + r < f.osize := offset_add_lt f.retSizes u r hr
  rw [revBlock_eq _ _ _ _ _ _ _ hrow (by rw [← colSize_eq f p j hj]; exact hj)]
  rw [hJ.vjp _ p j (fun u' r' h => eyeSeed_vanish f.retSizes _ u' r' h)]
  rw [← retSizes_length f]
  have := sum_sizes_single f.retSizes u r
    (fun u' r' => eyeSeed (K := K) f.retSizes (offset f.retSizes u + r) u' r' * J u' p r' j) hr
    (by
      intro u' r' hr' hne
      have : ¬ (offset f.retSizes u' + r' = offset f.retSizes u + r) := by
        intro he
        exact hne (offset_inj f.retSizes u' r' u r hr' hr he)
      rw [eyeSeed_miss _ _ _ _ (fun hh => this hh.1), zero_mul])
  simp only [Func.retSize] at this ⊢
  rw [this, eyeSeed_hit _ _ _ _ rfl hr, one_mul]

/-! ### colors -/

theorem colorFrom_not_mem (gs : List (List Nat)) : ∀ (i x acc : Nat),
    (∀ g ∈ gs, x ∉ g) → colorFrom i gs x acc = acc := by
  induction gs with
  | nil => intro i x acc _; rfl
  | cons g gs ih =>
    intro i x acc h
    have hg : g.contains x = false := by
      simpa using h g (List.mem_cons_self)
    simp only [colorFrom, hg]
    exact ih _ _ _ (fun g' hg' => h g' (List.mem_cons_of_mem _ hg'))

/-- With pairwise disjoint groups the color array holds, for every member of group `m`, `m`. -/
theorem colorFrom_mem (gs : List (List Nat)) : ∀ (i x acc m : Nat), groupsDisjoint gs = true →
    m < gs.length → x ∈ gs.getD m [] → colorFrom i gs x acc = i + m := by
  induction gs with
  | nil => intro i x acc m _ hm; simp at hm
  | cons g gs ih =>
    intro i x acc m hd hm hx
    simp only [groupsDisjoint, Bool.and_eq_true, List.all_eq_true] at hd
    cases m with
    | zero =>
      simp only [List.getD_cons_zero] at hx
      have hg : g.contains x = true := by simpa using hx
      simp only [colorFrom, hg, if_true]
      rw [colorFrom_not_mem gs _ _ _ (by
        intro g' hg' hx'
        have := hd.1 x hx g' hg'
        simp [hx'] at this)]
      simp
    | succ m =>
      simp only [List.getD_cons_succ] at hx
      have hm' : m < gs.length := by simpa using hm
      have hmem : gs.getD m [] ∈ gs := by
        simp [List.getD, List.getElem?_eq_getElem hm']
      have hg : g.contains x = false := by
        cases hc : g.contains x
        · rfl
        · exfalso
          have hxg : x ∈ g := List.contains_iff_mem.mp hc
          have h5 := hd.1 x hxg (gs.getD m []) hmem
          rw [List.contains_iff_mem.mpr hx] at h5
          exact Bool.noConfusion h5
      show colorFrom (i + 1) gs x (if g.contains x then i else acc) = i + (m + 1)
      rw [hg, if_neg (by decide), ih (i + 1) x acc m hd.2 hm' hx]
      omega

theorem colorOf_mem (gs : List (List Nat)) (x m : Nat) (hd : groupsDisjoint gs = true)
    (hm : m < gs.length) (hx : x ∈ gs.getD m []) : colorOf gs x = m := by
  unfold colorOf
  rw [colorFrom_mem gs 0 x 0 m hd hm hx]; simp

theorem colorSeed_vanish (sz : List Nat) (g : List Nat) (p j : Nat) (h : ¬ j < sz.getD p 0) :
    colorSeed (K := K) sz g p j = 0 := colorSeed_miss sz g p j (fun hh => h hh.2)

/-- Hypotheses on a coloring in the fwd direction (what `coloringOkFwd` decides). -/
structure ProperFwd (C : Coloring) : Prop where
  disj : groupsDisjoint C.groups = true
  cover : ∀ rc ∈ C.nz, ∃ m, m < C.groups.length ∧ rc.2 ∈ C.groups.getD m []
  orth : ∀ g ∈ C.groups, ∀ a ∈ g, ∀ b ∈ g, a ≠ b → ∀ r, ¬ ((r, a) ∈ C.nz ∧ (r, b) ∈ C.nz)

structure ProperRev (C : Coloring) : Prop where
  disj : groupsDisjoint C.groups = true
  cover : ∀ rc ∈ C.nz, ∃ m, m < C.groups.length ∧ rc.1 ∈ C.groups.getD m []
  orth : ∀ g ∈ C.groups, ∀ a ∈ g, ∀ b ∈ g, a ≠ b → ∀ c, ¬ ((a, c) ∈ C.nz ∧ (b, c) ∈ C.nz)

theorem getD_mem_of_lt {α : Type} (l : List α) (m : Nat) (d : α) (h : m < l.length) :
    l.getD m d ∈ l := by
  simp [List.getD, List.getElem?_eq_getElem h]

theorem coloringOkFwd_sound (C : Coloring) (h : coloringOkFwd C = true) : ProperFwd C := by
  simp only [coloringOkFwd, Bool.and_eq_true, List.all_eq_true, List.any_eq_true] at h
  obtain ⟨⟨h1, h2⟩, h3⟩ := h
  refine ⟨h1, ?_, ?_⟩
  · intro rc hrc
    obtain ⟨g, hg, hx⟩ := h2 rc hrc
    obtain ⟨m, hm, rfl⟩ := List.getElem_of_mem hg
    exact ⟨m, hm, by simpa [List.getD, List.getElem?_eq_getElem hm] using hx⟩
  · intro g hg a ha b hb hab r hr
    have := h3 g hg a ha b hb
    simp only [Bool.or_eq_true, beq_iff_eq, hab, false_or, List.all_eq_true] at this
    have h4 := this (r, a) hr.1
    simp [hr.2] at h4

theorem coloringOkRev_sound (C : Coloring) (h : coloringOkRev C = true) : ProperRev C := by
  simp only [coloringOkRev, Bool.and_eq_true, List.all_eq_true, List.any_eq_true] at h
  obtain ⟨⟨h1, h2⟩, h3⟩ := h
  refine ⟨h1, ?_, ?_⟩
  · intro rc hrc
    obtain ⟨g, hg, hx⟩ := h2 rc hrc
    obtain ⟨m, hm, rfl⟩ := List.getElem_of_mem hg
    exact ⟨m, hm, by simpa [List.getD, List.getElem?_eq_getElem hm] using hx⟩
  · intro g hg a ha b hb hab c hc
    have := h3 g hg a ha b hb
    simp only [Bool.or_eq_true, beq_iff_eq, hab, false_or, List.all_eq_true] at this
    have h4 := this (a, c) hc.1
    simp [hc.2] at h4

/-- Colored fwd branch: compressed jvps expanded by `_expand_jac` give the exact jacobian, provided
the exact jacobian vanishes outside the sparsity and the column groups are proper. -/
theorem efcFwdColored_exact (f : Func) (ad : AD K) (J : Nat → Nat → Nat → Nat → K)
    (hJ : IsJac f ad J) (C : Coloring) (hC : ProperFwd C)
    (hsupp : ∀ u p r j, r < f.retSize u → j < f.colSize p →
      (offset f.retSizes u + r, offset f.colSizes p + j) ∉ C.nz → J u p r j = 0)
    (u p r j : Nat) (hr : r < f.retSize u) (hj : j < f.colSize p) :
    efcFwdColored f ad C (offset f.retSizes u + r) (offset f.colSizes p + j) = J u p r j := by
  unfold efcFwdColored expandFwd
  by_cases hnz : (offset f.retSizes u + r, offset f.colSizes p + j) ∈ C.nz
  · have hc : C.nz.contains (offset f.retSizes u + r, offset f.colSizes p + j) = true := by
      simpa using hnz
    simp only [hc, if_true]
    obtain ⟨m, hm, hmem⟩ := hC.cover _ hnz
    simp only at hmem
    rw [colorOf_mem C.groups _ m hC.disj hm hmem]
    unfold compressedFwd
    simp only [locate_offset f.retSizes u r hr]
    rw [fwdBlock_eq _ _ _ _ _ _ _ (by rw [← retSize_eq f u r hr]; exact hr) hm]
    rw [hJ.jvp _ u r (fun p' j' h => colorSeed_vanish f.colSizes _ p' j' h)]
    rw [← colSizes_length f]
    have := sum_sizes_single f.colSizes p j
      (fun p' j' => colorSeed (K := K) f.colSizes (C.groups.getD m []) p' j' * J u p' r j') hj
      (by
        intro p' j' hj' hne
        by_cases hin : (offset f.colSizes p' + j') ∈ C.groups.getD m []
        · have hcne : offset f.colSizes p' + j' ≠ offset f.colSizes p + j := by
            intro he
            exact hne (offset_inj f.colSizes p' j' p j hj' hj he)
          have hnot : (offset f.retSizes u + r, offset f.colSizes p' + j') ∉ C.nz := by
            intro hin2
            exact hC.orth _ (getD_mem_of_lt C.groups m [] hm) _ hin _ hmem hcne _ ⟨hin2, hnz⟩
          have hz : J u p' r j' = 0 := hsupp u p' r j' hr hj' hnot
          rw [hz, mul_zero]
        · rw [colorSeed_miss _ _ _ _ (fun hh => hin hh.1), zero_mul])
    simp only [Func.colSize] at this ⊢
    rw [this, colorSeed_hit _ _ _ _ hmem hj, one_mul]
  · have hc : C.nz.contains (offset f.retSizes u + r, offset f.colSizes p + j) = false := by
      simpa using hnz
    simp only [hc]
    exact (hsupp u p r j hr hj hnz).symm

/-- Colored rev branch. -/
theorem efcRevColored_exact (f : Func) (ad : AD K) (J : Nat → Nat → Nat → Nat → K)
    (hJ : IsJac f ad J) (C : Coloring) (hC : ProperRev C)
    (hsupp : ∀ u p r j, r < f.retSize u → j < f.colSize p →
      (offset f.retSizes u + r, offset f.colSizes p + j) ∉ C.nz → J u p r j = 0)
    (u p r j : Nat) (hr : r < f.retSize u) (hj : j < f.colSize p) :
    efcRevColored f ad C (offset f.retSizes u + r) (offset f.colSizes p + j) = J u p r j := by
  unfold efcRevColored expandRev
  by_cases hnz : (offset f.retSizes u + r, offset f.colSizes p + j) ∈ C.nz
  · have hc : C.nz.contains (offset f.retSizes u + r, offset f.colSizes p + j) = true := by
      simpa using hnz
    simp only [hc, if_true]
    obtain ⟨m, hm, hmem⟩ := hC.cover _ hnz
    simp only at hmem
    rw [colorOf_mem C.groups _ m hC.disj hm hmem]
    unfold compressedRev
    simp only [locate_offset f.colSizes p j hj]
    rw [revBlock_eq _ _ _ _ _ _ _ hm (by rw [← colSize_eq f p j hj]; exact hj)]
    rw [hJ.vjp _ p j (fun u' r' h => colorSeed_vanish f.retSizes _ u' r' h)]
    rw [← retSizes_length f]
    have := sum_sizes_single f.retSizes u r
      (fun u' r' => colorSeed (K := K) f.retSizes (C.groups.getD m []) u' r' * J u' p r' j) hr
      (by
        intro u' r' hr' hne
        by_cases hin : (offset f.retSizes u' + r') ∈ C.groups.getD m []
        · have hcne : offset f.retSizes u' + r' ≠ offset f.retSizes u + r := by
            intro he
            exact hne (offset_inj f.retSizes u' r' u r hr' hr he)
          have hnot : (offset f.retSizes u' + r', offset f.colSizes p + j) ∉ C.nz := by
            intro hin2
            exact hC.orth _ (getD_mem_of_lt C.groups m [] hm) _ hin _ hmem hcne _ ⟨hin2, hnz⟩
          have hz : J u' p r' j = 0 := hsupp u' p r' j hr' hj hnot
          rw [hz, mul_zero]
        · rw [colorSeed_miss _ _ _ _ (fun hh => hin hh.1), zero_mul])
    simp only [Func.retSize] at this ⊢
    rw [this, colorSeed_hit _ _ _ _ hmem hr, one_mul]
  · have hc : C.nz.contains (offset f.retSizes u + r, offset f.colSizes p + j) = false := by
      simpa using hnz
    simp only [hc]
    exact (hsupp u p r j hr hj hnz).symm

end OMV.C34
