/-
Helper lemmas for C13 (sparsity audit fold, stored values, argmax / tolerance kernel).
-/
import OMV.Model.C13
import Mathlib.Algebra.Order.Field.Basic
import Mathlib.Tactic.Linarith
import Mathlib.Tactic.Ring
import Mathlib.Tactic.NormNum
import Mathlib.Data.List.Nodup

set_option linter.unusedSectionVars false
set_option linter.unusedVariables false
set_option linter.unusedSimpArgs false

namespace OMV.C13

variable {K : Type} [Field K] [LinearOrder K] [IsStrictOrderedRing K]

theorem absK_eq_abs (x : K) : absK x = |x| := by
  unfold absK
  by_cases h : x < 0
  · simp [h, abs_of_neg h]
  · simp [h, abs_of_nonneg (not_lt.mp h)]

/-! ### audit -/

theorem mem_offending (thr : K) (hthr : 0 ≤ thr) (nrows : Nat) (covered : List Nat)
    (column : Nat → K) (r : Nat) :
    r ∈ offending thr nrows covered column ↔ r < nrows ∧ r ∉ covered ∧ thr < |column r| := by
  unfold offending
  simp only [List.mem_filter, List.mem_range, decide_eq_true_eq, absK_eq_abs]
  by_cases hc : r ∈ covered
  · have : ¬ thr < 0 := not_lt.mpr hthr
    simp [hc, this]
  · simp [hc]

/-- The audit fold over an arbitrary list of columns with an abstract covered-rows function. -/
def auditFold (pl : Placement) (recThr : Bool) (thr : K) (nrows : Nat) (cov : Nat → List Nat)
    (A : Nat → Nat → K) (cols : List Nat) (info : Info K) : Info K :=
  cols.foldl (fun info c => auditCol pl recThr thr nrows (cov c) c (fun r => A r c) info) info

/-- Offending entries of column `c`, as `(row, col)` pairs. -/
def newOf (thr : K) (nrows : Nat) (cov : Nat → List Nat) (A : Nat → Nat → K) (c : Nat) :
    List (Nat × Nat) :=
  (offending thr nrows (cov c) (fun r => A r c)).map (fun r => (r, c))

/-- All out-of-pattern entries above the threshold, column by column. -/
def specList (thr : K) (nrows : Nat) (cov : Nat → List Nat) (A : Nat → Nat → K)
    (cols : List Nat) : List (Nat × Nat) :=
  cols.flatMap (newOf thr nrows cov A)

theorem auditFold_cons (pl : Placement) (recThr : Bool) (thr : K) (nrows : Nat)
    (cov : Nat → List Nat) (A : Nat → Nat → K) (c : Nat) (cs : List Nat) (info : Info K) :
    auditFold pl recThr thr nrows cov A (c :: cs) info =
      auditFold pl recThr thr nrows cov A cs
        (auditCol pl recThr thr nrows (cov c) c (fun r => A r c) info) := rfl

theorem newOf_eq_nil (thr : K) (nrows : Nat) (cov : Nat → List Nat) (A : Nat → Nat → K) (c : Nat) :
    newOf thr nrows cov A c = [] ↔ offending thr nrows (cov c) (fun r => A r c) = [] := by
  unfold newOf; simp

theorem auditCol_always (recThr : Bool) (thr : K) (nrows : Nat) (cov : Nat → List Nat)
    (A : Nat → Nat → K) (c : Nat) (info : Info K) :
    (auditCol .always recThr thr nrows (cov c) c (fun r => A r c) info).uncovered =
      if newOf thr nrows cov A c = [] then info.uncovered
      else some (info.uncovered.getD [] ++ newOf thr nrows cov A c) := by
  unfold auditCol
  by_cases h : offending thr nrows (cov c) (fun r => A r c) = []
  · simp [h, (newOf_eq_nil thr nrows cov A c).mpr h]
  · have h' : ¬ newOf thr nrows cov A c = [] := fun e => h ((newOf_eq_nil thr nrows cov A c).mp e)
    cases hu : info.uncovered <;> simp [h, h', hu, newOf]

theorem auditFold_always (recThr : Bool) (thr : K) (nrows : Nat) (cov : Nat → List Nat)
    (A : Nat → Nat → K) (cols : List Nat) (info : Info K) :
    (auditFold .always recThr thr nrows cov A cols info).uncovered =
      if specList thr nrows cov A cols = [] then info.uncovered
      else some (info.uncovered.getD [] ++ specList thr nrows cov A cols) := by
  induction cols generalizing info with
  | nil => simp [auditFold, specList]
  | cons c cs ih =>
    rw [auditFold_cons, ih, auditCol_always]
    have hs : specList thr nrows cov A (c :: cs) =
        newOf thr nrows cov A c ++ specList thr nrows cov A cs := by
      simp [specList]
    rw [hs]
    by_cases h1 : newOf thr nrows cov A c = []
    · simp [h1]
    · by_cases h2 : specList thr nrows cov A cs = []
      · simp [h1, h2]
      · simp [h1, h2, List.append_assoc]

theorem mem_specList (thr : K) (hthr : 0 ≤ thr) (nrows : Nat) (cov : Nat → List Nat)
    (A : Nat → Nat → K) (cols : List Nat) (r c : Nat) :
    (r, c) ∈ specList thr nrows cov A cols ↔
      c ∈ cols ∧ r < nrows ∧ r ∉ cov c ∧ thr < |A r c| := by
  unfold specList newOf
  simp only [List.mem_flatMap, List.mem_map, Prod.mk.injEq]
  constructor
  · rintro ⟨c', hc', r', hr', rfl, rfl⟩
    exact ⟨hc', (mem_offending thr hthr nrows _ _ _).mp hr'⟩
  · rintro ⟨hc, h⟩
    exact ⟨c, hc, r, (mem_offending thr hthr nrows _ _ _).mpr h, rfl, rfl⟩

theorem specList_nodup (thr : K) (nrows : Nat) (cov : Nat → List Nat) (A : Nat → Nat → K)
    (n : Nat) : (specList thr nrows cov A (List.range n)).Nodup := by
  unfold specList
  rw [List.nodup_flatMap]
  constructor
  · intro c _
    unfold newOf offending
    apply List.Nodup.map
    · intro a b h; simpa using h
    · exact List.Nodup.filter _ List.nodup_range
  · apply List.Pairwise.imp _ (List.pairwise_lt_range (n := n))
    intro a b hab
    simp only [Function.onFun]
    intro x hx hy
    unfold newOf at hx hy
    simp only [List.mem_map] at hx hy
    obtain ⟨_, _, rfl⟩ := hx
    obtain ⟨_, _, h⟩ := hy
    simp at h
    omega

/-- `insideInit`: once the key exists nothing is ever added. -/
theorem auditFold_insideInit_some (recThr : Bool) (thr : K) (nrows : Nat) (cov : Nat → List Nat)
    (A : Nat → Nat → K) (cols : List Nat) (l : List (Nat × Nat)) (t : Option K) :
    auditFold .insideInit recThr thr nrows cov A cols ⟨some l, t⟩ = ⟨some l, t⟩ := by
  induction cols with
  | nil => rfl
  | cons c cs ih =>
    rw [auditFold_cons]
    have : auditCol .insideInit recThr thr nrows (cov c) c (fun r => A r c) ⟨some l, t⟩ =
        ⟨some l, t⟩ := by
      unfold auditCol
      by_cases h : offending thr nrows (cov c) (fun r => A r c) = [] <;> simp [h]
    rw [this, ih]

/-- `insideInit`: only the first offending column is recorded. -/
theorem auditFold_insideInit_none (recThr : Bool) (thr : K) (nrows : Nat) (cov : Nat → List Nat)
    (A : Nat → Nat → K) (cols : List Nat) (t : Option K) :
    (auditFold .insideInit recThr thr nrows cov A cols ⟨none, t⟩).uncovered =
      (cols.find? (fun c => !(newOf thr nrows cov A c).isEmpty)).map (newOf thr nrows cov A) := by
  induction cols generalizing t with
  | nil => rfl
  | cons c cs ih =>
    rw [auditFold_cons]
    by_cases h : offending thr nrows (cov c) (fun r => A r c) = []
    · have h' := (newOf_eq_nil thr nrows cov A c).mpr h
      have : auditCol .insideInit recThr thr nrows (cov c) c (fun r => A r c) ⟨none, t⟩ =
          ⟨none, t⟩ := by
        unfold auditCol; simp [h]
      rw [this, ih]
      simp [List.find?_cons, h']
    · have h' : ¬ newOf thr nrows cov A c = [] :=
        fun e => h ((newOf_eq_nil thr nrows cov A c).mp e)
      have : auditCol .insideInit recThr thr nrows (cov c) c (fun r => A r c) ⟨none, t⟩ =
          ⟨some (newOf thr nrows cov A c), if recThr then some thr else t⟩ := by
        unfold auditCol; simp [h, newOf]
      rw [this, auditFold_insideInit_some]
      simp [List.find?_cons, h']

/-- `never`: the key is created (empty) by the first offending column and never filled. -/
theorem auditFold_never (recThr : Bool) (thr : K) (nrows : Nat) (cov : Nat → List Nat)
    (A : Nat → Nat → K) (cols : List Nat) (info : Info K) :
    (auditFold .never recThr thr nrows cov A cols info).uncovered =
      match info.uncovered with
      | some l => some l
      | none => if specList thr nrows cov A cols = [] then none else some [] := by
  induction cols generalizing info with
  | nil => cases h : info.uncovered <;> simp [auditFold, specList, h]
  | cons c cs ih =>
    rw [auditFold_cons, ih]
    have hs : specList thr nrows cov A (c :: cs) =
        newOf thr nrows cov A c ++ specList thr nrows cov A cs := by
      simp [specList]
    rw [hs]
    by_cases h : offending thr nrows (cov c) (fun r => A r c) = []
    · have h' := (newOf_eq_nil thr nrows cov A c).mpr h
      have : auditCol .never recThr thr nrows (cov c) c (fun r => A r c) info = info := by
        unfold auditCol; simp [h]
      rw [this, h']; simp
    · have h' : ¬ newOf thr nrows cov A c = [] :=
        fun e => h ((newOf_eq_nil thr nrows cov A c).mp e)
      cases hu : info.uncovered with
      | some l =>
        have : (auditCol .never recThr thr nrows (cov c) c (fun r => A r c) info).uncovered =
            some l := by
          unfold auditCol; simp [h, hu]
        simp [this]
      | none =>
        have : (auditCol .never recThr thr nrows (cov c) c (fun r => A r c) info).uncovered =
            some [] := by
          unfold auditCol; simp [h, hu]
        simp [this, h']

/-- With `recThr = true` a present `uncovered_nz` always comes with the threshold. -/
theorem auditCol_threshold (pl : Placement) (thr : K) (nrows : Nat) (covered : List Nat) (c : Nat)
    (column : Nat → K) (info : Info K)
    (h : info.uncovered.isSome → info.threshold = some thr) :
    (auditCol pl true thr nrows covered c column info).uncovered.isSome →
      (auditCol pl true thr nrows covered c column info).threshold = some thr := by
  unfold auditCol
  by_cases hn : offending thr nrows covered column = []
  · simpa [hn] using h
  · cases hu : info.uncovered with
    | none => cases pl <;> simp [hn, hu]
    | some l =>
      have ht := h (by simp [hu])
      cases pl <;> simp [hn, hu, ht]

theorem auditFold_threshold (pl : Placement) (thr : K) (nrows : Nat) (cov : Nat → List Nat)
    (A : Nat → Nat → K) (cols : List Nat) (info : Info K)
    (h : info.uncovered.isSome → info.threshold = some thr) :
    (auditFold pl true thr nrows cov A cols info).uncovered.isSome →
      (auditFold pl true thr nrows cov A cols info).threshold = some thr := by
  induction cols generalizing info with
  | nil => exact h
  | cons c cs ih =>
    rw [auditFold_cons]
    exact ih _ (auditCol_threshold pl thr nrows (cov c) c _ info h)

/-- With `recThr = false` the threshold key is never written. -/
theorem auditFold_no_threshold (pl : Placement) (thr : K) (nrows : Nat) (cov : Nat → List Nat)
    (A : Nat → Nat → K) (cols : List Nat) (info : Info K) :
    (auditFold pl false thr nrows cov A cols info).threshold = info.threshold := by
  induction cols generalizing info with
  | nil => rfl
  | cons c cs ih =>
    rw [auditFold_cons, ih]
    unfold auditCol
    by_cases hn : offending thr nrows (cov c) (fun r => A r c) = []
    · simp [hn]
    · cases hu : info.uncovered <;> cases pl <;> simp [hn, hu]

theorem auditAll_eq_fold (pl : Placement) (recThr : Bool) (thr : K) (p : Pattern)
    (hp : p.audits = true) (nrows ncols : Nat) (A : Nat → Nat → K) :
    auditAll pl recThr thr p nrows ncols A =
      auditFold pl recThr thr nrows (coveredRows p nrows) A (List.range ncols) Info.empty := by
  unfold auditAll auditFrom auditFold setColAudit
  simp [hp]

theorem auditFrom_eq_fold (info : Info K) (pl : Placement) (recThr : Bool) (thr : K) (p : Pattern)
    (hp : p.audits = true) (nrows ncols : Nat) (A : Nat → Nat → K) :
    auditFrom info pl recThr thr p nrows ncols A =
      auditFold pl recThr thr nrows (coveredRows p nrows) A (List.range ncols) info := by
  unfold auditFrom auditFold setColAudit
  simp [hp]

theorem auditFold_always_getD (recThr : Bool) (thr : K) (nrows : Nat) (cov : Nat → List Nat)
    (A : Nat → Nat → K) (cols : List Nat) (info : Info K) :
    (auditFold .always recThr thr nrows cov A cols info).uncovered.getD [] =
      info.uncovered.getD [] ++ specList thr nrows cov A cols := by
  rw [auditFold_always]
  by_cases h : specList thr nrows cov A cols = []
  · simp [h]
  · simp [h]

theorem auditAll_dense (pl : Placement) (recThr : Bool) (thr : K) (nrows ncols : Nat)
    (A : Nat → Nat → K) :
    auditAll pl recThr thr Pattern.dense nrows ncols A = Info.empty := by
  unfold auditAll auditFrom setColAudit
  simp only [Pattern.audits]
  induction (List.range ncols) with
  | nil => rfl
  | cons c cs ih => simpa using ih

/-- For every audited class the covered rows of a column are exactly the declared positions of
that column. -/
theorem mem_coveredRows (p : Pattern) (nrows r c : Nat) (hr : r < nrows) :
    r ∈ coveredRows p nrows c ↔ p.mem r c = true := by
  cases p with
  | dense => simp [coveredRows, Pattern.mem, hr]
  | coo rows cols =>
    simp only [coveredRows, Pattern.mem, List.mem_filterMap, List.contains_iff_mem]
    constructor
    · rintro ⟨⟨a, b⟩, hab, h⟩
      by_cases hb : b = c
      · subst hb; simp at h; subst h; exact hab
      · simp [hb] at h
    · intro h
      exact ⟨(r, c), h, by simp⟩
  | csc ip ix => simp [coveredRows, Pattern.mem]
  | csr ip ix => simp [coveredRows, Pattern.mem, hr]
  | diag =>
    simp only [coveredRows, Pattern.mem, List.mem_singleton, beq_iff_eq]

/-! ### stored values -/

theorem storeAll_eq_map (s : Store K) (ncols : Nat) (A : Nat → Nat → K) :
    storeAll s ncols A =
      s.map (fun e => (e.1, if e.1.2 < ncols then A e.1.1 e.1.2 else e.2)) := by
  induction ncols with
  | zero =>
    simp [storeAll]
  | succ n ih =>
    have : storeAll s (n + 1) A = setColStore n (fun r => A r n) (storeAll s n A) := by
      unfold storeAll
      rw [List.range_succ, List.foldl_append]
      rfl
    rw [this, ih]
    unfold setColStore
    rw [List.map_map]
    apply List.map_congr_left
    intro e _
    simp only [Function.comp]
    by_cases h1 : e.1.2 = n
    · simp [h1]
    · have : (e.1.2 < n + 1) ↔ (e.1.2 < n) := by omega
      simp [h1, this]

theorem todense_map_snd (s : Store K) (f : (Nat × Nat) × K → K) (r c : Nat) :
    todense (s.map (fun e => (e.1, f e))) r c =
      match s.find? (fun e => e.1.1 == r && e.1.2 == c) with
      | some e => f e
      | none => 0 := by
  unfold todense
  rw [List.find?_map]
  have hc : ((fun e : (Nat × Nat) × K => e.1.1 == r && e.1.2 == c) ∘
      fun e : (Nat × Nat) × K => (e.1, f e)) = (fun e => e.1.1 == r && e.1.2 == c) := rfl
  rw [hc]
  cases h : s.find? (fun e => e.1.1 == r && e.1.2 == c) <;> simp

theorem initStore_fst (pos : List (Nat × Nat)) (init : List K) :
    (initStore pos init).map (fun e => e.1) = pos := by
  unfold initStore
  rw [List.map_map]
  have : ((fun e : (Nat × Nat) × K => e.1) ∘ fun pk : (Nat × Nat) × Nat =>
      (pk.1, init.getD pk.2 0)) = fun pk => pk.1 := rfl
  rw [this]
  exact List.zipIdx_map_fst _ _

theorem find_pos_none (s : Store K) (r c : Nat)
    (h : s.find? (fun e => e.1.1 == r && e.1.2 == c) = none) :
    (r, c) ∉ s.map (fun e => e.1) := by
  intro hm
  rw [List.mem_map] at hm
  obtain ⟨e, he, hrc⟩ := hm
  have := List.find?_eq_none.mp h e he
  simp [hrc] at this

theorem find_pos_some (s : Store K) (r c : Nat) (e : (Nat × Nat) × K)
    (h : s.find? (fun e => e.1.1 == r && e.1.2 == c) = some e) :
    e.1 = (r, c) ∧ (r, c) ∈ s.map (fun e => e.1) := by
  have h1 := List.find?_some h
  have h2 := List.mem_of_find?_eq_some h
  simp only [Bool.and_eq_true, beq_iff_eq] at h1
  have : e.1 = (r, c) := Prod.ext h1.1 h1.2
  exact ⟨this, List.mem_map.mpr ⟨e, h2, this⟩⟩

/-- After all columns are set the dense view is the approximated Jacobian masked by the declared
positions. -/
theorem todense_storeAll (pos : List (Nat × Nat)) (init : List K) (ncols : Nat)
    (A : Nat → Nat → K) (r c : Nat) (hc : c < ncols) :
    todense (storeAll (initStore pos init) ncols A) r c = if (r, c) ∈ pos then A r c else 0 := by
  rw [storeAll_eq_map, todense_map_snd]
  cases h : (initStore pos init).find? (fun e => e.1.1 == r && e.1.2 == c) with
  | none =>
    have := find_pos_none _ r c h
    rw [initStore_fst] at this
    simp [this]
  | some e =>
    obtain ⟨he, hm⟩ := find_pos_some _ r c e h
    rw [initStore_fst] at hm
    simp [hm, he, hc]

theorem mem_positions (p : Pattern) (nrows ncols r c : Nat) (hr : r < nrows) (hc : c < ncols) :
    (r, c) ∈ p.positions nrows ncols ↔ p.mem r c = true := by
  cases p with
  | dense =>
    simp only [Pattern.positions, Pattern.mem, List.mem_flatMap, List.mem_range, List.mem_map,
      Prod.mk.injEq, iff_true]
    exact ⟨r, hr, c, hc, rfl, rfl⟩
  | coo rows cols => simp [Pattern.positions, Pattern.mem]
  | csc ip ix =>
    simp only [Pattern.positions, Pattern.mem, List.mem_flatMap, List.mem_range, List.mem_map,
      Prod.mk.injEq, List.contains_iff_mem]
    constructor
    · rintro ⟨c', _, r', hr', rfl, rfl⟩; exact hr'
    · intro h; exact ⟨c, hc, r, h, rfl, rfl⟩
  | csr ip ix =>
    simp only [Pattern.positions, Pattern.mem, List.mem_flatMap, List.mem_range, List.mem_map,
      Prod.mk.injEq, List.contains_iff_mem]
    constructor
    · rintro ⟨r', _, c', hc', rfl, rfl⟩; exact hc'
    · intro h; exact ⟨r, hr, c, h, rfl, rfl⟩
  | diag =>
    simp only [Pattern.positions, Pattern.mem, List.mem_map, List.mem_range, Prod.mk.injEq,
      beq_iff_eq]
    constructor
    · rintro ⟨i, _, rfl, rfl⟩; rfl
    · intro h; exact ⟨r, hr, rfl, h⟩

/-! ### argmax and the tolerance kernel -/

theorem argmax_spec (l : List K) (hne : l ≠ []) :
    argmax l < l.length ∧
    (∀ j, j < l.length → l.getD j 0 ≤ l.getD (argmax l) 0) ∧
    (∀ j, j < argmax l → l.getD j 0 < l.getD (argmax l) 0) := by
  induction l with
  | nil => exact absurd rfl hne
  | cons v vs ih =>
    cases vs with
    | nil =>
      refine ⟨by simp [argmax], ?_, ?_⟩
      · intro j hj
        have : j = 0 := by simpa using hj
        subst this; simp [argmax]
      · intro j hj; simp [argmax] at hj
    | cons w ws =>
      obtain ⟨h1, h2, h3⟩ := ih (by simp)
      by_cases hv : v < (w :: ws).getD (argmax (w :: ws)) 0
      · have ha : argmax (v :: w :: ws) = argmax (w :: ws) + 1 := by
          rw [argmax]; exact if_pos hv
        rw [ha]
        refine ⟨by simpa using h1, ?_, ?_⟩
        · intro j hj
          cases j with
          | zero =>
            rw [List.getD_cons_zero, List.getD_cons_succ]; exact le_of_lt hv
          | succ k =>
            rw [List.getD_cons_succ, List.getD_cons_succ]
            exact h2 k (by simpa using hj)
        · intro j hj
          cases j with
          | zero =>
            rw [List.getD_cons_zero, List.getD_cons_succ]; exact hv
          | succ k =>
            rw [List.getD_cons_succ, List.getD_cons_succ]
            exact h3 k (by omega)
      · have ha : argmax (v :: w :: ws) = 0 := by
          rw [argmax]; exact if_neg hv
        rw [ha]
        refine ⟨by simp, ?_, ?_⟩
        · intro j hj
          cases j with
          | zero => exact le_refl _
          | succ k =>
            rw [List.getD_cons_succ, List.getD_cons_zero]
            exact le_trans (h2 k (by simpa using hj)) (not_lt.mp hv)
        · intro j hj; omega

theorem getD_zipWith {α β γ : Type} (f : α → β → γ) (x : List α) (y : List β) (i : Nat)
    (dx : α) (dy : β) (dz : γ) (hx : i < x.length) (hy : i < y.length) :
    (List.zipWith f x y).getD i dz = f (x.getD i dx) (y.getD i dy) := by
  have hz : i < (List.zipWith f x y).length := by simp [hx, hy]
  simp only [List.getD_eq_getElem?_getD]
  rw [List.getElem?_eq_getElem hz, List.getElem?_eq_getElem hx, List.getElem?_eq_getElem hy]
  simp

theorem maxAbs_eq (v : K) (vs : List K) :
    maxAbs (v :: vs) = vs.foldl (fun m w => if m < |w| then |w| else m) |v| := by
  unfold maxAbs
  simp only [absK_eq_abs]

theorem maxAbs_spec (v : K) (vs : List K) :
    (∀ w ∈ v :: vs, |w| ≤ maxAbs (v :: vs)) ∧ (∃ w ∈ v :: vs, maxAbs (v :: vs) = |w|) := by
  rw [maxAbs_eq]
  suffices h : ∀ (vs : List K) (m : K) (seen : List K), (∀ w ∈ seen, |w| ≤ m) →
      (∃ w ∈ seen, m = |w|) →
      (∀ w ∈ seen ++ vs, |w| ≤ vs.foldl (fun m w => if m < |w| then |w| else m) m) ∧
      (∃ w ∈ seen ++ vs, vs.foldl (fun m w => if m < |w| then |w| else m) m = |w|) by
    have := h vs |v| [v] (by simp) ⟨v, by simp, rfl⟩
    simpa using this
  intro vs
  induction vs with
  | nil => intro m seen h1 h2; simpa using ⟨h1, h2⟩
  | cons u us ih =>
    intro m seen h1 h2
    simp only [List.foldl_cons]
    have key := ih (if m < |u| then |u| else m) (seen ++ [u]) ?_ ?_
    · simpa [List.append_assoc] using key
    · intro w hw
      rcases List.mem_append.mp hw with hw | hw
      · by_cases hm : m < |u|
        · rw [if_pos hm]; exact le_trans (h1 w hw) (le_of_lt hm)
        · rw [if_neg hm]; exact h1 w hw
      · have : w = u := by simpa using hw
        subst this
        by_cases hm : m < |w|
        · rw [if_pos hm]
        · rw [if_neg hm]; exact not_lt.mp hm
    · by_cases hm : m < |u|
      · exact ⟨u, by simp, by rw [if_pos hm]⟩
      · obtain ⟨w, hw, e⟩ := h2
        exact ⟨w, by simp [hw], by rw [if_neg hm]; exact e⟩

theorem viols_getD (x ref : List K) (atol rtol : K) (j : Nat) (hx : j < x.length)
    (hr : j < ref.length) :
    (viols x ref atol rtol).getD j 0 =
      |x.getD j 0 - ref.getD j 0| - (atol + rtol * |ref.getD j 0|) := by
  unfold viols
  rw [getD_zipWith _ x ref j 0 0 0 hx hr]
  simp only [absK_eq_abs]

theorem absErrs_getD (x ref : List K) (j : Nat) (hx : j < x.length) (hr : j < ref.length) :
    (absErrs x ref).getD j 0 = |x.getD j 0 - ref.getD j 0| := by
  unfold absErrs
  rw [getD_zipWith _ x ref j 0 0 0 hx hr]
  simp only [absK_eq_abs]

theorem any_pos_iff (l : List K) :
    l.any (fun v => decide (0 < v)) = true ↔ ∃ j, j < l.length ∧ 0 < l.getD j 0 := by
  rw [List.any_eq_true]
  constructor
  · rintro ⟨v, hv, hp⟩
    obtain ⟨i, hi, rfl⟩ := List.mem_iff_getElem.mp hv
    refine ⟨i, hi, ?_⟩
    simp only [List.getD_eq_getElem?_getD, List.getElem?_eq_getElem hi, Option.getD_some]
    simpa using hp
  · rintro ⟨j, hj, hp⟩
    refine ⟨l[j], List.getElem_mem hj, ?_⟩
    simp only [List.getD_eq_getElem?_getD, List.getElem?_eq_getElem hj, Option.getD_some] at hp
    simpa using hp

theorem getTolViolation_of_ne (x ref : List K) (atol rtol : K)
    (hae : (absErrs x ref).isEmpty = false) :
    getTolViolation x ref atol rtol =
      ⟨(viols x ref atol rtol).getD (argmax (viols x ref atol rtol)) 0,
       x.getD (argmax (viols x ref atol rtol)) 0,
       ref.getD (argmax (viols x ref atol rtol)) 0,
       (viols x ref atol rtol).any (fun v => decide (0 < v)),
       (absErrs x ref).getD (argmax (viols x ref atol rtol)) 0,
       if ref.getD (argmax (viols x ref atol rtol)) 0 = 0 then none
       else some ((absErrs x ref).getD (argmax (viols x ref atol rtol)) 0 /
         absK (ref.getD (argmax (viols x ref atol rtol)) 0))⟩ := by
  unfold getTolViolation
  simp only [hae, Bool.false_eq_true, if_false]

theorem getD_map_zero (j : List K) (k : Nat) : (j.map (fun _ => (0 : K))).getD k 0 = 0 := by
  induction j generalizing k with
  | nil => rfl
  | cons a as ih =>
    cases k with
    | zero => rfl
    | succ n => simpa using ih n

end OMV.C13
