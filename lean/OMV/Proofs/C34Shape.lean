/-
C34 helper lemmas, part 1: C-order flattening (`ravel`/`unravel`/`reshape`), size lists
(`offset`/`locate`) and the reshape steps of the jacobian assembly.
-/
import OMV.Model.C34
import Mathlib.Tactic.Ring
import Mathlib.Tactic.Linarith
import Mathlib.Tactic.NormNum
import Mathlib.Algebra.Order.Ring.Nat

namespace OMV.C34
open OMV.C14

theorem prod_append (s t : List Nat) : prod (s ++ t) = prod s * prod t := by
  induction s with
  | nil => simp [prod]
  | cons n ns ih => simp [prod, ih, Nat.mul_assoc]

theorem unravel_length (s : List Nat) : ∀ k, (unravel s k).length = s.length := by
  induction s with
  | nil => intro k; simp [unravel]
  | cons n ns ih => intro k; simp [unravel, ih]

theorem ravel_unravel (s : List Nat) : ∀ k, k < prod s → ravel s (unravel s k) = k := by
  induction s with
  | nil => intro k hk; simp [prod] at hk; simp [ravel, hk]
  | cons n ns ih =>
    intro k hk
    have hpos : 0 < prod ns := by
      rcases Nat.eq_zero_or_pos (prod ns) with h | h
      · simp [prod, h] at hk
      · exact h
    simp only [unravel, ravel]
    rw [ih _ (Nat.mod_lt _ hpos)]
    exact Nat.div_add_mod' k (prod ns)

theorem div_mod_split (a b pm pt : Nat) (hb : b < pt) (hpm : 0 < pm) :
    (a * pt + b) / (pm * pt) = a / pm ∧ (a * pt + b) % (pm * pt) = (a % pm) * pt + b := by
  have hpt : 0 < pt := by omega
  have hlt : (a % pm) * pt + b < pm * pt := by
    have h1 : a % pm < pm := Nat.mod_lt _ hpm
    have h2 : (a % pm + 1) * pt ≤ pm * pt := Nat.mul_le_mul_right _ h1
    nlinarith
  have hsplit : a * pt + b = ((a % pm) * pt + b) + (pm * pt) * (a / pm) := by
    have := Nat.div_add_mod a pm
    nlinarith
  constructor
  · rw [hsplit, Nat.add_mul_div_left _ _ (Nat.mul_pos hpm hpt), Nat.div_eq_of_lt hlt]; simp
  · rw [hsplit, Nat.add_mul_mod_self_left, Nat.mod_eq_of_lt hlt]

theorem unravel_append (s t : List Nat) : ∀ a b, a < prod s → b < prod t →
    unravel (s ++ t) (a * prod t + b) = unravel s a ++ unravel t b := by
  induction s with
  | nil => intro a b ha hb; simp [prod] at ha; simp [unravel, ha]
  | cons n ns ih =>
    intro a b ha hb
    have hpos : 0 < prod ns := by
      rcases Nat.eq_zero_or_pos (prod ns) with h | h
      · simp [prod, h] at ha
      · exact h
    obtain ⟨h1, h2⟩ := div_mod_split a b (prod ns) (prod t) hb hpos
    simp only [List.cons_append, unravel, prod_append]
    rw [h1, h2, ih _ _ (Nat.mod_lt _ hpos) hb]

theorem splitLast_append (l : List Nat) (c : Nat) : splitLast (l ++ [c]) = (l, c) := by
  induction l with
  | nil => rfl
  | cons a r ih =>
    cases r with
    | nil => rfl
    | cons b r' =>
      simp only [List.cons_append] at ih ⊢
      simp only [splitLast, ih]

theorem unravel_single (n c : Nat) : unravel [n] c = [c] := by
  simp [unravel, prod]

section blocks
variable {K : Type}

/-- The 2-D reshape of the forward block: row `r`, column `c` is the jvp along tangent `c` at the
return value's flat entry `r`. -/
theorem fwdBlock_eq (ad : AD K) (seed : Nat → Nat → Nat → K) (nt : Nat) (so : List Nat)
    (u r c : Nat) (hr : r < prod so) (hc : c < nt) :
    fwdBlock ad seed nt so u r c = ad.jvp (seed c) u r := by
  have h1 : ravel [prod so, nt] [r, c] = r * prod [nt] + c := by simp [ravel, prod]
  have hc' : c < prod [nt] := by simpa [prod] using hc
  simp only [fwdBlock, Tensor.reshape, jacFwdTensor]
  rw [h1, unravel_append so [nt] r c hr hc', unravel_single, splitLast_append]
  simp [ravel_unravel so r hr]

/-- Iterating over the first axis of the one array of a single return value and stacking the
reshaped pieces gives the same rows as reshaping the whole array. -/
theorem fwdBlockSingle_eq (ad : AD K) (seed : Nat → Nat → Nat → K) (nt : Nat) (so : List Nat)
    (u r c : Nat) (hr : r < prod so) (hc : c < nt) :
    fwdBlockSingle ad seed nt so u r c = ad.jvp (seed c) u r := by
  cases so with
  | nil =>
    have : r = 0 := by simpa [prod] using hr
    subst this; rfl
  | cons s0 rest =>
    have hpos : 0 < prod rest := by
      rcases Nat.eq_zero_or_pos (prod rest) with h | h
      · simp [prod, h] at hr
      · exact h
    have hr' : r % prod rest < prod rest := Nat.mod_lt _ hpos
    have h1 : ravel [prod rest, nt] [r % prod rest, c] = (r % prod rest) * prod [nt] + c := by
      simp [ravel, prod]
    have hc' : c < prod [nt] := by simpa [prod] using hc
    simp only [fwdBlockSingle, Tensor.reshape, jacFwdTensor]
    rw [h1, unravel_append rest [nt] _ c hr' hc', unravel_single]
    have hs : splitLast (r / prod rest :: (unravel rest (r % prod rest) ++ [c]))
        = (r / prod rest :: unravel rest (r % prod rest), c) := by
      have := splitLast_append (r / prod rest :: unravel rest (r % prod rest)) c
      simpa using this
    rw [hs]
    simp only [ravel, ravel_unravel rest _ hr']
    rw [Nat.div_add_mod' r (prod rest)]

/-- The 2-D reshape of the reverse block. -/
theorem revBlock_eq (ad : AD K) (seed : Nat → Nat → Nat → K) (nc : Nat) (si : List Nat)
    (p i j : Nat) (_hi : i < nc) (hj : j < prod si) :
    revBlock ad seed nc si p i j = ad.vjp (seed i) p j := by
  have h1 : ravel [nc, prod si] [i, j] = i * prod si + j := by simp [ravel, prod]
  have hpos : 0 < prod si := by omega
  simp only [revBlock, Tensor.reshape, jacRevTensor]
  rw [h1]
  simp only [unravel]
  have hd : (i * prod si + j) / prod si = i := by
    rw [Nat.mul_comm, Nat.mul_add_div hpos, Nat.div_eq_of_lt hj]; simp
  have hm : (i * prod si + j) % prod si = j := by
    rw [Nat.mul_comm, Nat.mul_add_mod, Nat.mod_eq_of_lt hj]
  simp [hd, hm, ravel_unravel si j hj]

/-- `_jax_derivs2partials`: the reshape of the `out_shape ++ in_shape` block to
`(size_of, size_wrt)` keeps C-order on both sides. -/
theorem derivBlock_eq (J : Nat → Nat → K) (so si : List Nat) (r c : Nat)
    (hr : r < prod so) (hc : c < prod si) : derivBlock J so si r c = J r c := by
  have h1 : ravel [prod so, prod si] [r, c] = r * prod si + c := by simp [ravel, prod]
  simp only [derivBlock, Tensor.reshape, derivTensor]
  rw [h1, unravel_append so si r c hr hc]
  have hl : (unravel so r).length = so.length := unravel_length so r
  rw [List.take_left' hl, List.drop_left' hl, ravel_unravel so r hr, ravel_unravel si c hc]

end blocks

/-! ### size lists -/

theorem offset_zero (sizes : List Nat) : offset sizes 0 = 0 := by simp [offset, sumL]

theorem offset_succ_cons (s : Nat) (r : List Nat) (k : Nat) :
    offset (s :: r) (k + 1) = s + offset r k := by simp [offset, sumL]

theorem locate_offset (sizes : List Nat) : ∀ k j, j < sizes.getD k 0 →
    locate sizes (offset sizes k + j) = (k, j) := by
  induction sizes with
  | nil => intro k j hj; simp at hj
  | cons s r ih =>
    intro k j hj
    cases k with
    | zero =>
      simp only [List.getD_cons_zero] at hj
      simp [offset_zero, locate, hj]
    | succ k =>
      simp only [List.getD_cons_succ] at hj
      have hge : ¬ (offset (s :: r) (k + 1) + j < s) := by rw [offset_succ_cons]; omega
      have hsub : offset (s :: r) (k + 1) + j - s = offset r k + j := by
        rw [offset_succ_cons]; omega
      simp only [locate, hge, if_false, hsub, ih k j hj]

theorem offset_inj (sizes : List Nat) (k j k' j' : Nat) (hj : j < sizes.getD k 0)
    (hj' : j' < sizes.getD k' 0) (h : offset sizes k + j = offset sizes k' + j') :
    k = k' ∧ j = j' := by
  have a := locate_offset sizes k j hj
  have b := locate_offset sizes k' j' hj'
  rw [h, b] at a
  exact ⟨(Prod.mk.inj a).1.symm, (Prod.mk.inj a).2.symm⟩

theorem getD_pos_lt (sizes : List Nat) (k j : Nat) (hj : j < sizes.getD k 0) : k < sizes.length := by
  by_contra h
  have : sizes.getD k 0 = 0 := by
    simp [List.getD, List.getElem?_eq_none (Nat.le_of_not_lt h)]
  omega

theorem offset_add_lt (sizes : List Nat) : ∀ k j, j < sizes.getD k 0 → offset sizes k + j < sumL sizes := by
  induction sizes with
  | nil => intro k j hj; simp at hj
  | cons s r ih =>
    intro k j hj
    cases k with
    | zero => simp only [List.getD_cons_zero] at hj; simp [offset_zero, sumL]; omega
    | succ k =>
      simp only [List.getD_cons_succ] at hj
      rw [offset_succ_cons]; simp only [sumL]
      have := ih k j hj; omega

end OMV.C34
