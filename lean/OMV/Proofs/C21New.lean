/-
C21 — helper lemmas for the new-style (trust-constr) constraint objects, the scaled bounds and the
callback state machine.
-/
import OMV.Model.C21
import Mathlib.Algebra.Order.Field.Basic
import Mathlib.Tactic.Linarith
import Mathlib.Tactic.Ring
import Mathlib.Tactic.FieldSimp

set_option linter.unusedSectionVars false
set_option linter.unusedVariables false

namespace OMV.C21

variable {K : Type} [Field K] [LinearOrder K] [IsStrictOrderedRing K]

/-- `NonlinearConstraint(g[j], max(lb, -INF), min(ub, INF))` says exactly that element `j` is
feasible, as long as the value itself is below the sentinel in magnitude. -/
theorem nl_sat_iff (inf tol : K) (c : Con K) (g ax : Nat → K) (j : Nat) (htol : 0 ≤ tol)
    (hg : -inf < g j ∧ g j < inf)
    (he : ∀ e, c.equals = some e → -inf < e j ∧ e j < inf) :
    newSat tol g ax (.nl j (maxK (lbOf c j) (-inf)) (minK (ubOf c j) inf)) ↔
      ElemOK inf tol c g j := by
  cases hc : c.equals with
  | some e =>
    obtain ⟨he1, he2⟩ := he e hc
    have h1 : maxK (e j) (-inf) = e j := by
      unfold maxK; rw [if_neg (not_le.mpr he1)]
    have h2 : minK (e j) inf = e j := by
      unfold minK; rw [if_pos (le_of_lt he2)]
    simp only [newSat, lbOf, ubOf, hc, ElemOK, EqOK, h1, h2]
    constructor <;> rintro ⟨a, b⟩ <;> constructor <;> linarith
  | none =>
    simp only [newSat, lbOf, ubOf, hc, ElemOK, IntervalOK]
    constructor
    · rintro ⟨a, b⟩
      constructor
      · by_cases hlo : c.lower j ≤ -inf
        · exact Or.inl hlo
        · right
          have : maxK (c.lower j) (-inf) = c.lower j := by unfold maxK; rw [if_neg hlo]
          rw [this] at a; exact a
      · by_cases hup : inf ≤ c.upper j
        · exact Or.inl hup
        · right
          have : minK (c.upper j) inf = c.upper j := by
            unfold minK; rw [if_pos (le_of_lt (not_le.mp hup))]
          rw [this] at b; exact b
    · rintro ⟨a, b⟩
      constructor
      · by_cases hlo : c.lower j ≤ -inf
        · have : maxK (c.lower j) (-inf) = -inf := by unfold maxK; rw [if_pos hlo]
          rw [this]; linarith [hg.1]
        · have : maxK (c.lower j) (-inf) = c.lower j := by unfold maxK; rw [if_neg hlo]
          rw [this]
          rcases a with a | a
          · exact absurd a hlo
          · exact a
      · by_cases hup : c.upper j ≤ inf
        · have : minK (c.upper j) inf = c.upper j := by unfold minK; rw [if_pos hup]
          rw [this]
          rcases b with b | b
          · have : c.upper j = inf := le_antisymm hup b
            rw [this]; linarith [hg.2]
          · exact b
        · have : minK (c.upper j) inf = inf := by unfold minK; rw [if_neg hup]
          rw [this]; linarith [hg.2]

/-- A row of the repaired `LinearConstraint` (bounds shifted by the constant term) says that the
element is feasible. -/
theorem lin_sat_iff (inf tol : K) (c : Con K) (g ax off : Nat → K) (j : Nat) (htol : 0 ≤ tol)
    (hg : -inf < g j ∧ g j < inf) (haff : g j = ax j + off j) :
    newSat tol g ax (.lin j (lbOf c j - off j) (ubOf c j - off j)) ↔ ElemOK inf tol c g j := by
  cases hc : c.equals with
  | some e =>
    simp only [newSat, lbOf, ubOf, hc, ElemOK, EqOK]
    constructor <;> rintro ⟨a, b⟩ <;> constructor <;> linarith
  | none =>
    simp only [newSat, lbOf, ubOf, hc, ElemOK, IntervalOK]
    constructor
    · rintro ⟨a, b⟩
      exact ⟨Or.inr (by linarith), Or.inr (by linarith)⟩
    · rintro ⟨a, b⟩
      constructor
      · rcases a with a | a <;> linarith [hg.1]
      · rcases b with b | b <;> linarith [hg.2]

theorem forall_mem_map_range {α : Type} (f : Nat → α) (P : α → Prop) (n : Nat) :
    (∀ r ∈ (List.range n).map f, P r) ↔ ∀ j, j < n → P (f j) := by
  constructor
  · intro h j hj
    exact h (f j) (List.mem_map.mpr ⟨j, List.mem_range.mpr hj, rfl⟩)
  · intro h r hr
    obtain ⟨j, hj, rfl⟩ := List.mem_map.mp hr
    exact h j (List.mem_range.mp hj)

/-! ### scaled bounds -/

theorem scaleBound_lower_unset (inf lo a s : K) (h : lo ≤ -inf) :
    scaleBound inf true lo a s = -inf := by simp [scaleBound, h]

theorem scaleBound_lower_set (inf lo a s : K) (h : ¬ lo ≤ -inf) :
    scaleBound inf true lo a s = (lo + a) * s := by simp [scaleBound, h]

theorem scaleBound_upper_unset (inf hi a s : K) (h : inf ≤ hi) :
    scaleBound inf false hi a s = inf := by simp [scaleBound, h]

theorem scaleBound_upper_set (inf hi a s : K) (h : ¬ inf ≤ hi) :
    scaleBound inf false hi a s = (hi + a) * s := by simp [scaleBound, h]

/-- Lower side of `IntervalOK` through a positive affine map. -/
theorem lower_scaled_pos (inf tol lo a s x : K) (hs : 0 < s)
    (hfin : -inf < lo → -inf < (lo + a) * s) :
    (scaleBound inf true lo a s ≤ -inf ∨ scaleBound inf true lo a s - tol ≤ (x + a) * s) ↔
      (lo ≤ -inf ∨ lo - tol / s ≤ x) := by
  by_cases hlo : lo ≤ -inf
  · rw [scaleBound_lower_unset inf lo a s hlo]
    exact ⟨fun _ => Or.inl hlo, fun _ => Or.inl (le_refl _)⟩
  · have h1 := hfin (not_le.mp hlo)
    rw [scaleBound_lower_set inf lo a s hlo]
    have ht : tol / s * s = tol := by field_simp
    constructor
    · rintro (h | h)
      · exact absurd h (not_le.mpr h1)
      · right
        have : (lo - tol / s) * s ≤ x * s := by
          have e : (lo - tol / s) * s = (lo + a) * s - tol - a * s := by rw [sub_mul, ht]; ring
          rw [e]; linarith
        exact le_of_mul_le_mul_right this hs
    · rintro (h | h)
      · exact absurd h hlo
      · right
        have := mul_le_mul_of_nonneg_right h (le_of_lt hs)
        have e : (lo - tol / s) * s = (lo + a) * s - tol - a * s := by rw [sub_mul, ht]; ring
        rw [e] at this; linarith

/-- Upper side of `IntervalOK` through a positive affine map. -/
theorem upper_scaled_pos (inf tol hi a s x : K) (hs : 0 < s)
    (hfin : hi < inf → (hi + a) * s < inf) :
    (inf ≤ scaleBound inf false hi a s ∨ (x + a) * s ≤ scaleBound inf false hi a s + tol) ↔
      (inf ≤ hi ∨ x ≤ hi + tol / s) := by
  by_cases hhi : inf ≤ hi
  · rw [scaleBound_upper_unset inf hi a s hhi]
    exact ⟨fun _ => Or.inl hhi, fun _ => Or.inl (le_refl _)⟩
  · have h1 := hfin (not_le.mp hhi)
    rw [scaleBound_upper_set inf hi a s hhi]
    have ht : tol / s * s = tol := by field_simp
    constructor
    · rintro (h | h)
      · exact absurd h (not_le.mpr h1)
      · right
        have : x * s ≤ (hi + tol / s) * s := by
          have e : (hi + tol / s) * s = (hi + a) * s + tol - a * s := by rw [add_mul, ht]; ring
          rw [e]; linarith
        exact le_of_mul_le_mul_right this hs
    · rintro (h | h)
      · exact absurd h hhi
      · right
        have := mul_le_mul_of_nonneg_right h (le_of_lt hs)
        have e : (hi + tol / s) * s = (hi + a) * s + tol - a * s := by rw [add_mul, ht]; ring
        rw [e] at this; linarith

/-! ### callbacks -/

/-- Anchored code: under the objective-first discipline every callback is answered at the design it
asks about. -/
theorem run_pure {X : Type} [DecidableEq X] (v : Variant) (hv : v.noSync = true) (s : St X)
    (cs : List (Call X)) (h : ObjFirst s.model s.gcache cs) :
    (run v s cs).1 = cs.map Call.arg := by
  induction cs generalizing s with
  | nil => rfl
  | cons c t ih =>
    cases c with
    | obj x =>
      simp only [run, step, List.map_cons, Call.arg]
      rw [ih _ h]
    | con x =>
      obtain ⟨hx, ht⟩ := h
      simp only [run, step, hv, if_true, List.map_cons, Call.arg]
      rw [ih _ ht, hx]
    | grad x =>
      obtain ⟨hx, ht⟩ := h
      simp only [run, step, hv, if_true, List.map_cons, Call.arg]
      rw [ih _ (by simpa [hx] using ht), hx]
    | cgrad x =>
      cases hg : s.gcache with
      | some g =>
        simp only [ObjFirst, hg] at h
        obtain ⟨hx, ht⟩ := h
        simp only [run, step, hv, if_true, hg, List.map_cons, Call.arg]
        rw [ih s (by simpa [hg] using ht), hx]
      | none =>
        simp only [ObjFirst, hg] at h
        obtain ⟨hx, ht⟩ := h
        simp only [run, step, hv, if_true, hg, List.map_cons, Call.arg]
        rw [ih _ (by simpa [hx] using ht), hx]

/-- Repaired code: every callback is answered at the design it asks about, whatever the order. -/
theorem run_pure_fixed {X : Type} [DecidableEq X] (v : Variant) (hv : v.noSync = false) (s : St X)
    (cs : List (Call X)) : (run v s cs).1 = cs.map Call.arg := by
  induction cs generalizing s with
  | nil => rfl
  | cons c t ih =>
    cases c <;> simp only [run, step, hv, Bool.false_eq_true, if_false, List.map_cons, Call.arg] <;>
      rw [ih]

theorem step_model_of_not_obj {X : Type} [DecidableEq X] (v : Variant) (hv : v.noSync = true)
    (s : St X) (c : Call X) (h : ∀ x, c ≠ Call.obj x) : (step v s c).2.model = s.model := by
  cases c with
  | obj x => exact absurd rfl (h x)
  | con x => simp [step, hv]
  | grad x => simp [step, hv]
  | cgrad x => simp only [step, hv, if_true]; cases s.gcache <;> rfl

/-- Anchored code: the model is left at the design of the last objective evaluation. -/
theorem run_final {X : Type} [DecidableEq X] (v : Variant) (hv : v.noSync = true) (s : St X)
    (pre post : List (Call X)) (x : X) (hpost : ∀ c ∈ post, ∀ y, c ≠ Call.obj y) :
    (run v s (pre ++ Call.obj x :: post)).2.model = x := by
  have hp : ∀ (post : List (Call X)) (s : St X), (∀ c ∈ post, ∀ y, c ≠ Call.obj y) →
      (run v s post).2.model = s.model := by
    intro post
    induction post with
    | nil => intro s _; rfl
    | cons c t ih =>
      intro s h
      simp only [run]
      rw [ih _ (fun c hc => h c (List.mem_cons_of_mem _ hc)),
        step_model_of_not_obj v hv s c (h c List.mem_cons_self)]
  induction pre generalizing s with
  | nil =>
    simp only [List.nil_append, run]
    rw [hp post _ hpost]
    rfl
  | cons c t ih =>
    simp only [List.cons_append, run]
    exact ih _

end OMV.C21
