/-
C03 helper lemmas, part 1: `recover ∘ compress` commutes with every additive map (linearity),
evaluation of integer coefficient vectors, and soundness of `certify`.
-/
import OMV.Model.C03
import Mathlib.Tactic.Ring
import Mathlib.Tactic.Push
import Mathlib.Algebra.Ring.Int.Defs

set_option linter.unusedSectionVars false
set_option linter.unusedSimpArgs false

namespace OMV.C03

/-! ## Basic facts about the jacobian state -/

section basic
variable {α : Type} [Zero α]

theorem getAt_nil (q : Pos) : getAt ([] : Jac α) q = 0 := rfl

theorem getAt_cons (p : Pos) (x : α) (J : Jac α) (q : Pos) :
    getAt ((p, x) :: J) q = if p = q then x else getAt J q := by
  unfold getAt
  by_cases h : p = q
  · simp [List.find?_cons, h]
  · have : (p == q) = false := by simpa using h
    simp [List.find?_cons, this, h]

theorem getAt_setAt (J : Jac α) (p : Pos) (x : α) (q : Pos) :
    getAt (setAt J p x) q = if p = q then x else getAt J q := getAt_cons p x J q

theorem getAt_of_not_mem_keys (J : Jac α) (q : Pos) (h : q ∉ J.map Prod.fst) : getAt J q = 0 := by
  induction J with
  | nil => rfl
  | cons pv J ih =>
    obtain ⟨p, x⟩ := pv
    simp only [List.map_cons, List.mem_cons, not_or] at h
    rw [getAt_cons, if_neg (fun e => h.1 e.symm)]
    exact ih h.2

end basic

theorem keys_applyWrites {α : Type} (J : Jac α) (w : List (Pos × α)) :
    (applyWrites J w).map Prod.fst = (w.map Prod.fst).reverse ++ J.map Prod.fst := by
  induction w generalizing J with
  | nil => simp [applyWrites]
  | cons pv w ih =>
    have := ih (setAt J pv.1 pv.2)
    simp only [applyWrites, List.foldl_cons] at this ⊢
    rw [this]
    simp [setAt]

theorem keys_applySubs {α : Type} [Zero α] [Add α] [Sub α] (J : Jac α) (subs : List (Pos × List Pos)) :
    (applySubs J subs).map Prod.fst = (subs.map Prod.fst).reverse ++ J.map Prod.fst := by
  induction subs generalizing J with
  | nil => simp [applySubs]
  | cons s subs ih =>
    have := ih (setAt J s.1 (getAt J s.1 - sumOver s.2 (getAt J)))
    simp only [applySubs, List.foldl_cons] at this ⊢
    rw [this]
    simp [setAt]

theorem fst_fwdWritesFrom {α : Type} (nz : List (List Nat)) (v : Nat → Nat → α) (i : Nat)
    (gs : List (List Nat)) : (fwdWritesFrom nz v i gs).map Prod.fst = fwdPositions nz gs := by
  induction gs generalizing i with
  | nil => rfl
  | cons g gs ih =>
    simp only [fwdWritesFrom, fwdPositions, List.map_append, ih, List.map_flatMap, List.map_map]
    rfl

theorem fst_revWritesFrom {α : Type} (nz : List (List Nat)) (v : Nat → Nat → α) (i : Nat)
    (gs : List (List Nat)) : (revWritesFrom nz v i gs).map Prod.fst = revPositions nz gs := by
  induction gs generalizing i with
  | nil => rfl
  | cons g gs ih =>
    simp only [revWritesFrom, revPositions, List.map_append, ih, List.map_flatMap, List.map_map]
    rfl

/-- Every key of the reconstructed jacobian is a written position. -/
theorem keys_recover_subset {α : Type} [Zero α] [Add α] [Sub α] (C : Coloring) (comp : Compressed α)
    (q : Pos) (h : q ∈ (recover C comp).map Prod.fst) : q ∈ C.writePositions := by
  unfold recover rawJac solveWrites at h
  rw [keys_applySubs, keys_applyWrites] at h
  simp only [List.map_append, fst_fwdWritesFrom, fst_revWritesFrom, List.reverse_append,
    List.mem_append, List.mem_reverse, List.map_nil, List.not_mem_nil, or_false] at h
  unfold Coloring.writePositions
  simp only [List.mem_append]
  tauto

theorem getAt_recover_of_not_written {α : Type} [Zero α] [Add α] [Sub α] (C : Coloring)
    (comp : Compressed α) (q : Pos) (h : q ∉ C.writePositions) : getAt (recover C comp) q = 0 :=
  getAt_of_not_mem_keys _ _ (fun hk => h (keys_recover_subset C comp q hk))

/-! ## Additive maps commute with everything `recover ∘ compress` does -/

/-- `φ` preserves `0`, `+`, `-`. -/
structure IsAdditive {α β : Type} [Zero α] [Add α] [Sub α] [Zero β] [Add β] [Sub β] (φ : α → β) :
    Prop where
  zero : φ 0 = 0
  add : ∀ a b, φ (a + b) = φ a + φ b
  sub : ∀ a b, φ (a - b) = φ a - φ b

/-- Apply `φ` to every stored value. -/
def mapJac {α β : Type} (φ : α → β) (J : Jac α) : Jac β := J.map fun pv => (pv.1, φ pv.2)

section hom
variable {α β : Type} [Zero α] [Add α] [Sub α] [Zero β] [Add β] [Sub β] {φ : α → β}

theorem sumOver_hom (hφ : IsAdditive φ) {ι : Type} (l : List ι) (f : ι → α) :
    φ (sumOver l f) = sumOver l (fun x => φ (f x)) := by
  unfold sumOver
  rw [← hφ.zero]
  generalize (0 : α) = acc
  induction l generalizing acc with
  | nil => rfl
  | cons x l ih => simp only [List.foldl_cons]; rw [← hφ.add]; exact ih _

theorem getAt_mapJac (hφ : IsAdditive φ) (J : Jac α) (q : Pos) :
    getAt (mapJac φ J) q = φ (getAt J q) := by
  induction J with
  | nil => simp [mapJac, getAt_nil, hφ.zero]
  | cons pv J ih =>
    obtain ⟨p, x⟩ := pv
    have : mapJac φ ((p, x) :: J) = (p, φ x) :: mapJac φ J := rfl
    rw [this, getAt_cons, getAt_cons, ih]
    split <;> rfl

theorem fwdWritesFrom_map (nz : List (List Nat)) (v : Nat → Nat → α) (i : Nat)
    (gs : List (List Nat)) :
    fwdWritesFrom nz (fun i r => φ (v i r)) i gs =
      (fwdWritesFrom nz v i gs).map (fun pv => (pv.1, φ pv.2)) := by
  induction gs generalizing i with
  | nil => rfl
  | cons g gs ih =>
    simp only [fwdWritesFrom, List.map_append, ih, List.map_flatMap, List.map_map]
    rfl

theorem revWritesFrom_map (nz : List (List Nat)) (v : Nat → Nat → α) (i : Nat)
    (gs : List (List Nat)) :
    revWritesFrom nz (fun i r => φ (v i r)) i gs =
      (revWritesFrom nz v i gs).map (fun pv => (pv.1, φ pv.2)) := by
  induction gs generalizing i with
  | nil => rfl
  | cons g gs ih =>
    simp only [revWritesFrom, List.map_append, ih, List.map_flatMap, List.map_map]
    rfl

theorem applyWrites_map (J : Jac α) (w : List (Pos × α)) :
    applyWrites (mapJac φ J) (w.map fun pv => (pv.1, φ pv.2)) = mapJac φ (applyWrites J w) := by
  induction w generalizing J with
  | nil => rfl
  | cons pv w ih =>
    simp only [applyWrites, List.map_cons, List.foldl_cons]
    exact ih (setAt J pv.1 pv.2)

theorem applySubs_map (hφ : IsAdditive φ) (J : Jac α) (subs : List (Pos × List Pos)) :
    applySubs (mapJac φ J) subs = mapJac φ (applySubs J subs) := by
  induction subs generalizing J with
  | nil => rfl
  | cons s subs ih =>
    simp only [applySubs, List.foldl_cons]
    have e : setAt (mapJac φ J) s.1 (getAt (mapJac φ J) s.1 - sumOver s.2 (getAt (mapJac φ J))) =
        mapJac φ (setAt J s.1 (getAt J s.1 - sumOver s.2 (getAt J))) := by
      have h1 : (getAt (mapJac φ J)) = fun q => φ (getAt J q) := funext (getAt_mapJac hφ J)
      rw [h1, ← sumOver_hom hφ, ← hφ.sub]
      rfl
    rw [e]
    exact ih _

theorem compress_map (hφ : IsAdditive φ) (C : Coloring) (M : Pos → α) :
    compress C (fun p => φ (M p)) =
      { fwd := fun i r => φ ((compress C M).fwd i r), rev := fun i c => φ ((compress C M).rev i c) } := by
  unfold compress
  congr 1
  · funext i r; exact (sumOver_hom hφ _ _).symm
  · funext i c; exact (sumOver_hom hφ _ _).symm

/-- Linearity: `recover ∘ compress` commutes with every additive map of the value type. -/
theorem recover_compress_hom (hφ : IsAdditive φ) (C : Coloring) (M : Pos → α) :
    recover C (compress C (fun p => φ (M p))) = mapJac φ (recover C (compress C M)) := by
  rw [compress_map hφ]
  unfold recover rawJac solveWrites
  simp only [fwdWritesFrom_map, revWritesFrom_map, ← List.map_append]
  have : ([] : Jac β) = mapJac φ ([] : Jac α) := rfl
  rw [this, applyWrites_map, applySubs_map hφ]

/-- The same for the raw jacobian (before subtractions). -/
theorem rawJac_compress_hom (hφ : IsAdditive φ) (C : Coloring) (M : Pos → α) :
    rawJac C (compress C (fun p => φ (M p))) = mapJac φ (rawJac C (compress C M)) := by
  rw [compress_map hφ]
  unfold rawJac solveWrites
  simp only [fwdWritesFrom_map, revWritesFrom_map, ← List.map_append]
  have : ([] : Jac β) = mapJac φ ([] : Jac α) := rfl
  rw [this, applyWrites_map]

end hom

/-! ## Evaluating coefficient vectors -/

section eval
variable {R : Type} [CommRing R]

/-- `Σ_k a[k] * vals[k]`. -/
def evalL : List Int → List R → R
  | [], _ => 0
  | _, [] => 0
  | x :: a, y :: b => (x : R) * y + evalL a b

theorem evalL_nil_right (a : List Int) : evalL a ([] : List R) = 0 := by
  cases a <;> rfl

theorem evalL_vadd (a b : List Int) (vals : List R) :
    evalL (vadd a b) vals = evalL a vals + evalL b vals := by
  induction a generalizing b vals with
  | nil => simp [vadd, evalL]
  | cons x a ih =>
    cases b with
    | nil => simp [vadd, evalL]
    | cons y b =>
      cases vals with
      | nil => simp [vadd, evalL]
      | cons z vals =>
        simp only [vadd, evalL, ih]
        push_cast
        ring

theorem evalL_neg (b : List Int) (vals : List R) :
    evalL (b.map fun y => -y) vals = - evalL b vals := by
  induction b generalizing vals with
  | nil => simp [evalL]
  | cons y b ih =>
    cases vals with
    | nil => simp [evalL]
    | cons z vals =>
      simp only [List.map_cons, evalL, ih]
      push_cast
      ring

theorem evalL_vsub (a b : List Int) (vals : List R) :
    evalL (vsub a b) vals = evalL a vals - evalL b vals := by
  induction a generalizing b vals with
  | nil => simp [vsub, evalL, evalL_neg]
  | cons x a ih =>
    cases b with
    | nil => simp [vsub, evalL]
    | cons y b =>
      cases vals with
      | nil => simp [vsub, evalL]
      | cons z vals =>
        simp only [vsub, evalL, ih]
        push_cast
        ring

theorem evalL_allzero (a : List Int) (h : a.all (· == 0) = true) (vals : List R) :
    evalL a vals = 0 := by
  induction a generalizing vals with
  | nil => rfl
  | cons x a ih =>
    simp only [List.all_cons, Bool.and_eq_true, beq_iff_eq] at h
    cases vals with
    | nil => rfl
    | cons z vals => simp [evalL, h.1, ih h.2]

theorem evalL_eqPad (a b : List Int) (h : eqPad a b = true) (vals : List R) :
    evalL a vals = evalL b vals := by
  induction a generalizing b vals with
  | nil =>
    simp only [eqPad] at h
    rw [evalL_allzero b h]; rfl
  | cons x a ih =>
    cases b with
    | nil =>
      simp only [eqPad] at h
      rw [evalL_allzero _ h]; rfl
    | cons y b =>
      simp only [eqPad, Bool.and_eq_true, beq_iff_eq] at h
      cases vals with
      | nil => rfl
      | cons z vals => simp [evalL, h.1, ih b h.2]

theorem nodupB_cons {x : Pos} {xs : List Pos} (h : nodupB (x :: xs) = true) :
    x ∉ xs ∧ nodupB xs = true := by
  simpa [nodupB] using h

/-- Evaluating the unit vector of `p` on the values of `M` gives `M p` (or `0` outside). -/
theorem evalL_symM (nz : List Pos) (hn : nodupB nz = true) (M : Pos → R) (p : Pos) :
    evalL (symM nz p).v (nz.map M) = if p ∈ nz then M p else 0 := by
  unfold symM
  induction nz with
  | nil => simp [evalL]
  | cons q nz ih =>
    obtain ⟨hq, hn'⟩ := nodupB_cons hn
    simp only [List.map_cons, evalL, ih hn']
    by_cases h : q = p
    · subst h
      simp [hq]
    · have h' : ¬ p = q := fun e => h e.symm
      simp [h, h']

/-- Evaluation at the values of `M` is additive. -/
theorem evalLin_additive (vals : List R) : IsAdditive (fun a : Lin => evalL a.v vals) where
  zero := rfl
  add a b := evalL_vadd a.v b.v vals
  sub a b := evalL_vsub a.v b.v vals

/-- Soundness of the certificate checker. -/
theorem certify_sound (P : Pattern) (C : Coloring) (h : certify P C = true) (M : Pos → R)
    (hM : ∀ p, p ∉ P.nz → M p = 0) (q : Pos) : getAt (recover C (compress C M)) q = M q := by
  unfold certify at h
  simp only [Bool.and_eq_true, List.all_eq_true, List.mem_append] at h
  obtain ⟨hn, hp⟩ := h
  let φ : Lin → R := fun a => evalL a.v (P.nz.map M)
  have hφ : IsAdditive φ := evalLin_additive _
  have hsymp : ∀ p, φ (symM P.nz p) = M p := by
    intro p
    show evalL (symM P.nz p).v (P.nz.map M) = M p
    rw [evalL_symM P.nz hn]
    by_cases hp : p ∈ P.nz
    · simp [hp]
    · simp [hp, hM p hp]
  have hsym : (fun p => φ (symM P.nz p)) = M := funext hsymp
  have key := recover_compress_hom hφ C (symM P.nz)
  rw [hsym] at key
  rw [key, getAt_mapJac hφ]
  by_cases hq : q ∈ P.nz ∨ q ∈ C.writePositions
  · have := hp q hq
    show evalL _ _ = _
    rw [evalL_eqPad _ _ this]
    exact hsymp q
  · have hnw : q ∉ C.writePositions := fun h => hq (Or.inr h)
    have hqn : q ∉ P.nz := fun h => hq (Or.inl h)
    rw [getAt_recover_of_not_written C _ q hnw, hM q hqn]
    exact hφ.zero

end eval

end OMV.C03
