/-
C17 helper lemmas: the four case tables and `global_iterations` after recording a list of rows, and
lookups by name. Core Lean only.
-/
import OMV.Model.C17
namespace OMV.C17


theorem record_table (db : Db) (r : Row) (k : Kind) :
    (db.record r).table k = if r.kind = k then db.table k ++ [r] else db.table k := by
  cases hk : r.kind <;> cases k <;> simp [Db.record, Db.table, hk]

theorem record_global (db : Db) (r : Row) :
    (db.record r).global =
      db.global ++ [{ kind := r.kind, rowid := (db.table r.kind).length + 1, source := r.source }] := by
  cases hk : r.kind <;> simp [Db.record, hk]

theorem foldl_table (rows : List Row) : ∀ (db : Db) (k : Kind),
    (rows.foldl Db.record db).table k = db.table k ++ rows.filter (fun r => r.kind = k) := by
  induction rows with
  | nil => intro db k; simp
  | cons r rs ih =>
    intro db k
    simp only [List.foldl_cons, ih, record_table]
    by_cases h : r.kind = k
    · simp [h]
    · simp [h]

theorem build_table (rows : List Row) (k : Kind) :
    (Db.build rows).table k = rows.filter (fun r => r.kind = k) := by
  unfold Db.build; rw [foldl_table]; cases k <;> simp [Db.table]

theorem foldl_global_length (rows : List Row) : ∀ (db : Db),
    (rows.foldl Db.record db).global.length = db.global.length + rows.length := by
  induction rows with
  | nil => intro db; simp
  | cons r rs ih => intro db; simp only [List.foldl_cons, ih, record_global]; simp; omega

theorem build_global_length (rows : List Row) : (Db.build rows).global.length = rows.length := by
  unfold Db.build; rw [foldl_global_length]; simp

theorem mapOpt_append {α β : Type} (f : α → Option β) (l1 l2 : List α) (y1 y2 : List β)
    (h1 : mapOpt f l1 = some y1) (h2 : mapOpt f l2 = some y2) :
    mapOpt f (l1 ++ l2) = some (y1 ++ y2) := by
  induction l1 generalizing y1 with
  | nil => simp [mapOpt] at h1; subst h1; simpa using h2
  | cons a as ih =>
    simp only [mapOpt] at h1
    cases hfa : f a with
    | none => simp [hfa] at h1
    | some b =>
      cases hm : mapOpt f as with
      | none => simp [hfa, hm] at h1
      | some bs =>
        simp [hfa, hm] at h1; subst h1
        simp [mapOpt, hfa, ih bs hm]

theorem mapOpt_congr {α β : Type} (f g : α → Option β) (l : List α) (ys : List β)
    (h : mapOpt f l = some ys) (hfg : ∀ a ∈ l, ∀ b, f a = some b → g a = some b) :
    mapOpt g l = some ys := by
  induction l generalizing ys with
  | nil => simpa [mapOpt] using h
  | cons a as ih =>
    simp only [mapOpt] at h
    cases hfa : f a with
    | none => simp [hfa] at h
    | some b =>
      cases hm : mapOpt f as with
      | none => simp [hfa, hm] at h
      | some bs =>
        simp [hfa, hm] at h; subst h
        have h1 := hfg a List.mem_cons_self b hfa
        have h2 := ih bs hm (fun x hx => hfg x (List.mem_cons_of_mem _ hx))
        simp [mapOpt, h1, h2]

theorem mapOpt_take {α β : Type} (f : α → Option β) (l : List α) (ys : List β) (n : Nat)
    (h : mapOpt f l = some ys) : mapOpt f (l.take n) = some (ys.take n) := by
  induction l generalizing ys n with
  | nil => simp [mapOpt] at h; subst h; simp [mapOpt]
  | cons a as ih =>
    simp only [mapOpt] at h
    cases hfa : f a with
    | none => simp [hfa] at h
    | some b =>
      cases hm : mapOpt f as with
      | none => simp [hfa, hm] at h
      | some bs =>
        simp [hfa, hm] at h; subst h
        cases n with
        | zero => simp [mapOpt]
        | succ n => simp [mapOpt, hfa, ih bs n hm]

theorem lookup_record_of_some (db : Db) (r : Row) (g : GRow) (x : Str)
    (h : db.lookup g = some x) : (db.record r).lookup g = some x := by
  unfold Db.lookup at h ⊢
  by_cases h0 : g.rowid = 0
  · simp [h0] at h
  · simp only [h0, if_false] at h ⊢
    rw [record_table]
    by_cases hk : r.kind = g.kind
    · simp only [hk, if_true]
      cases hi : (db.table g.kind)[g.rowid - 1]? with
      | none => simp [hi] at h
      | some row =>
        have hlt : g.rowid - 1 < (db.table g.kind).length := by
          rcases List.getElem?_eq_some_iff.mp hi with ⟨hlt, _⟩; exact hlt
        rw [List.getElem?_append_left hlt, hi]
        simpa [hi] using h
    · simpa [hk] using h

theorem lookup_record_new (db : Db) (r : Row) :
    (db.record r).lookup { kind := r.kind, rowid := (db.table r.kind).length + 1, source := r.source }
      = some r.name := by
  unfold Db.lookup
  simp [record_table]

/-- the `global_iterations` rows resolve, in order, to the recorded names -/
def Good (db : Db) (names : List Str) : Prop := mapOpt db.lookup db.global = some names

theorem good_record (db : Db) (names : List Str) (r : Row) (h : Good db names) :
    Good (db.record r) (names ++ [r.name]) := by
  unfold Good at h ⊢
  rw [record_global]
  apply mapOpt_append
  · exact mapOpt_congr _ _ _ _ h (fun g _ b hb => lookup_record_of_some db r g b hb)
  · simp [mapOpt, lookup_record_new]

theorem good_foldl (rows : List Row) : ∀ (db : Db) (names : List Str), Good db names →
    Good (rows.foldl Db.record db) (names ++ rows.map (·.name)) := by
  induction rows with
  | nil => intro db names h; simpa using h
  | cons r rs ih =>
    intro db names h
    have := ih (db.record r) (names ++ [r.name]) (good_record db names r h)
    simpa using this

theorem good_build (rows : List Row) : Good (Db.build rows) (rows.map (·.name)) := by
  have := good_foldl rows {} [] (by simp [Good, mapOpt])
  simpa [Db.build] using this



theorem nodup_map_unique {α β : Type} (f : α → β) : ∀ (l : List α), (l.map f).Nodup →
    ∀ a ∈ l, ∀ b ∈ l, f a = f b → a = b := by
  intro l
  induction l with
  | nil => intro _ a ha; cases ha
  | cons x xs ih =>
    intro h a ha b hb hab
    simp only [List.map_cons, List.nodup_cons, List.mem_map, not_exists, not_and] at h
    obtain ⟨h1, h2⟩ := h
    rcases List.mem_cons.mp ha with rfl | ha'
    · rcases List.mem_cons.mp hb with rfl | hb'
      · rfl
      · exact absurd hab.symm (h1 b hb')
    · rcases List.mem_cons.mp hb with rfl | hb'
      · exact absurd hab (h1 a ha')
      · exact ih h2 a ha' b hb' hab

theorem find_some_of_unique (l : List Row) (r : Row) (nm : Str) (hr : r ∈ l) (hn : r.name = nm)
    (hu : ∀ x ∈ l, x.name = nm → x = r) : l.find? (fun x => x.name = nm) = some r := by
  induction l with
  | nil => cases hr
  | cons x xs ih =>
    by_cases hx : x.name = nm
    · have := hu x List.mem_cons_self hx
      subst this; simp [List.find?, hx]
    · simp only [List.find?, hx, decide_false]
      rcases List.mem_cons.mp hr with rfl | hr'
      · exact absurd hn hx
      · exact ih hr' (fun y hy => hu y (List.mem_cons_of_mem _ hy))

theorem find_none_of_absent (l : List Row) (nm : Str) (h : ∀ x ∈ l, x.name ≠ nm) :
    l.find? (fun x => x.name = nm) = none := by
  apply List.find?_eq_none.mpr
  intro x hx; simpa using h x hx


end OMV.C17
