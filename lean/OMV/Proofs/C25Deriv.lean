/-
C25 helper lemmas (2): derivatives of the KS value along a direction and with respect to rho.
-/
import OMV.Proofs.C25

namespace OMV.C25

/-! ### derivatives -/

lemma perturb_zero {g d : List ℝ} (hlen : d.length = g.length) : perturb g d 0 = g := by
  unfold perturb
  induction g generalizing d with
  | nil => simp
  | cons x g ih =>
    cases d with
    | nil => simp at hlen
    | cons dx d =>
      simp only [List.zipWith_cons_cons, List.cons.injEq]
      exact ⟨by ring, ih (by simpa using hlen)⟩

lemma perturb_length {g d : List ℝ} (hlen : d.length = g.length) (t : ℝ) :
    (perturb g d t).length = g.length := by
  unfold perturb; simp [hlen]

lemma perturb_ne_nil {g d : List ℝ} (hg : g ≠ []) (hlen : d.length = g.length) (t : ℝ) :
    perturb g d t ≠ [] := by
  intro h
  have := perturb_length hlen t
  rw [h] at this
  exact hg (List.length_eq_zero_iff.mp this.symm)

/-- Derivative of the sum of exponentials along `g + t d` (fixed shift). -/
lemma hasDerivAt_sum_exponents (g d : List ℝ) (rho m : ℝ) :
    HasDerivAt (fun t => sumL (exponents (perturb g d t) rho m))
      ((List.zipWith (fun x dx => Real.exp (rho * (x - m)) * (rho * dx)) g d).sum) 0 := by
  induction g generalizing d with
  | nil => simpa [perturb, exponents, sumL_eq] using hasDerivAt_const (0:ℝ) (0:ℝ)
  | cons x g ih =>
    cases d with
    | nil => simpa [perturb, exponents, sumL_eq] using hasDerivAt_const (0:ℝ) (0:ℝ)
    | cons dx d =>
      have h1 : HasDerivAt (fun t : ℝ => Real.exp (rho * ((x + t * dx) - m)))
          (Real.exp (rho * (x - m)) * (rho * dx)) 0 := by
        have h0 : HasDerivAt (fun t : ℝ => rho * ((x + t * dx) - m)) (rho * dx) 0 := by
          have := ((((hasDerivAt_id (0:ℝ)).mul_const dx).const_add x).sub_const m).const_mul rho
          simpa using this
        have := h0.exp
        simpa using this
      have h2 := ih d
      have h3 := h1.add h2
      simp only [sumL_eq] at h2 h3 ⊢
      have e1 : (fun t => (exponents (perturb (x :: g) (dx :: d) t) rho m).sum)
          = (fun t : ℝ => Real.exp (rho * ((x + t * dx) - m)))
            + fun t => (exponents (perturb g d t) rho m).sum := by
        funext t; simp [perturb, exponents]
      rw [e1]
      refine h3.congr_deriv ?_
      simp

lemma dot_scaled_exponents (g d : List ℝ) (rho m c : ℝ) :
    (List.zipWith (· * ·) ((exponents g rho m).map (fun e => c * (rho * e))) d).sum
      = c * (List.zipWith (fun x dx => Real.exp (rho * (x - m)) * (rho * dx)) g d).sum := by
  induction g generalizing d with
  | nil => simp [exponents]
  | cons x g ih =>
    cases d with
    | nil => simp [exponents]
    | cons dx d =>
      have := ih d
      simp only [exponents, List.map_cons, List.zipWith_cons_cons, List.sum_cons, expLog_exp,
        List.map_map] at this ⊢
      rw [this]; ring

/-- Directional derivative of the KS value with a fixed shift. -/
lemma hasDerivAt_ksShift {g d : List ℝ} (hg : g ≠ []) (hlen : d.length = g.length) {rho : ℝ}
    (hr : rho ≠ 0) (m : ℝ) :
    HasDerivAt (fun t => ksShift (perturb g d t) rho m) (dotL (dKSdg g rho m) d) 0 := by
  have hS := hasDerivAt_sum_exponents g d rho m
  have hS0 : sumL (exponents (perturb g d 0) rho m) ≠ 0 := by
    rw [perturb_zero hlen]; exact (sum_exponents_pos hg rho m).ne'
  have h := ((hS.log hS0).const_mul (1 / rho)).const_add m
  unfold ksShift
  simp only [expLog_log]
  refine h.congr_deriv ?_
  rw [dotL_eq]
  unfold dKSdg
  simp only
  rw [dot_scaled_exponents, perturb_zero hlen]
  have hs := (sum_exponents_pos hg rho m).ne'
  field_simp

/-- The KS value with the moving maximum as shift, along `g + t d`. -/
lemma hasDerivAt_ksRow {g d : List ℝ} (hg : g ≠ []) (hlen : d.length = g.length) {rho : ℝ}
    (hr : rho ≠ 0) :
    HasDerivAt (fun t => ksRow (perturb g d t) rho) (dotL (dKSdg g rho (maxL g)) d) 0 := by
  have h := hasDerivAt_ksShift hg hlen hr (maxL g)
  have e : (fun t => ksRow (perturb g d t) rho) = fun t => ksShift (perturb g d t) rho (maxL g) := by
    funext t
    exact ksShift_shift (perturb_ne_nil hg hlen t) hr _ _
  rw [e]; exact h

lemma dKSdg_sum {g : List ℝ} (hg : g ≠ []) {rho : ℝ} (hr : rho ≠ 0) (m : ℝ) :
    (dKSdg g rho m).sum = 1 := by
  unfold dKSdg
  simp only
  have hs := (sum_exponents_pos hg rho m).ne'
  have e : (fun e : ℝ => 1 / (rho * sumL (exponents g rho m)) * (rho * e))
      = fun e => (1 / (rho * sumL (exponents g rho m)) * rho) * id e := by
    funext e; simp; ring
  rw [e, List.sum_map_mul_left, List.map_id, ← sumL_eq]
  field_simp

lemma dKSdg_nonneg {g : List ℝ} (hg : g ≠ []) {rho : ℝ} (hr : rho ≠ 0) (m : ℝ) :
    ∀ w ∈ dKSdg g rho m, 0 ≤ w ∧ w ≤ 1 := by
  intro w hw
  have hsum := dKSdg_sum hg hr m
  have hs := sum_exponents_pos hg rho m
  have hnn : ∀ v ∈ dKSdg g rho m, 0 ≤ v := by
    intro v hv
    unfold dKSdg at hv
    simp only at hv
    obtain ⟨e, he, rfl⟩ := List.mem_map.mp hv
    have hep := exponents_pos g rho m e he
    have : 1 / (rho * sumL (exponents g rho m)) * (rho * e) = e / sumL (exponents g rho m) := by
      field_simp
    rw [this]; positivity
  refine ⟨hnn w hw, ?_⟩
  rw [← hsum]
  exact List.single_le_sum hnn w hw

/-! ### derivative with respect to `rho` -/

lemma hasDerivAt_sum_exponents_rho (g : List ℝ) (rho m : ℝ) :
    HasDerivAt (fun r => sumL (exponents g r m))
      ((g.map (fun x => (x - m) * Real.exp (rho * (x - m)))).sum) rho := by
  induction g with
  | nil => simpa [exponents, sumL_eq] using hasDerivAt_const rho (0:ℝ)
  | cons x g ih =>
    have h1 : HasDerivAt (fun r : ℝ => Real.exp (r * (x - m)))
        ((x - m) * Real.exp (rho * (x - m))) rho := by
      have h0 : HasDerivAt (fun r : ℝ => r * (x - m)) (x - m) rho := by
        simpa using (hasDerivAt_id rho).mul_const (x - m)
      have := h0.exp
      refine this.congr_deriv ?_
      ring
    have h3 := h1.add ih
    simp only [sumL_eq] at ih h3 ⊢
    have e1 : (fun r => (exponents (x :: g) r m).sum)
        = (fun r : ℝ => Real.exp (r * (x - m))) + fun r => (exponents g r m).sum := by
      funext t; simp [exponents]
    rw [e1]
    refine h3.congr_deriv ?_
    simp

lemma zip_diff_exponents (g : List ℝ) (rho m : ℝ) :
    sumL (List.zipWith (fun x e => (x - m) * e) g (exponents g rho m))
      = (g.map (fun x => (x - m) * Real.exp (rho * (x - m)))).sum := by
  rw [sumL_eq]
  congr 1
  induction g with
  | nil => simp [exponents]
  | cons x g ih =>
    simp only [exponents, List.map_cons, List.zipWith_cons_cons, expLog_exp] at ih ⊢
    rw [ih]

/-- `d/drho` of the KS value (fixed shift): the code's `dKS_drho` minus `log(summation)/rho²`. -/
lemma hasDerivAt_ksShift_rho {g : List ℝ} (hg : g ≠ []) {rho : ℝ} (hr : rho ≠ 0) (m : ℝ) :
    HasDerivAt (fun r => ksShift g r m) (dKSdrhoExact g rho m) rho := by
  have hS := hasDerivAt_sum_exponents_rho g rho m
  have hs := (sum_exponents_pos hg rho m).ne'
  have h := (((hS.log hs).div (hasDerivAt_id rho) hr).const_add m)
  unfold ksShift
  simp only [expLog_log]
  have e : (fun r => m + 1 / r * Real.log (sumL (exponents g r m)))
      = fun r => m + Real.log (sumL (exponents g r m)) / id r := by
    funext r; simp only [id]; ring
  rw [e]
  refine h.congr_deriv ?_
  unfold dKSdrhoExact dKSdrhoCode
  simp only [expLog_log, id]
  rw [zip_diff_exponents]
  generalize (List.map (fun x => (x - m) * Real.exp (rho * (x - m))) g).sum = A
  generalize sumL (exponents g rho m) = S at hs ⊢
  field_simp

end OMV.C25
