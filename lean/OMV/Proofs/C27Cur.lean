/-
C27 — helper lemmas, part 4: the current `temporary()` (`enterCur` / `restoreCur`) when it is
entered completely and left normally.
-/
import OMV.Proofs.C27Temp

namespace OMV.C27

theorem getOpt_congr {s s' : State} (h : s'.dict = s.dict) (n : String) :
    getOpt s' n = getOpt s n := by
  unfold getOpt follow
  rw [h]

/-- `cache.setdefault(o, [])` -/
def ensureCache (s : State) (o : String) : State :=
  match lookup o s.cache with
  | none => { s with cache := upsert o [] s.cache }
  | some _ => s

theorem ensureCache_dict (s : State) (o : String) : (ensureCache s o).dict = s.dict := by
  unfold ensureCache; cases lookup o s.cache <;> rfl

theorem ensureCache_readOnly (s : State) (o : String) :
    (ensureCache s o).readOnly = s.readOnly := by
  unfold ensureCache; cases lookup o s.cache <;> rfl

theorem ensureCache_stackOf (s : State) (o o' : String) :
    stackOf (ensureCache s o).cache o' = stackOf s.cache o' := by
  unfold ensureCache
  cases h : lookup o s.cache with
  | none =>
    simp only [stackOf_upsert]
    by_cases ho : o = o'
    · subst ho; simp [stackOf, h]
    · simp [ho]
  | some l => rfl

theorem enterCur_cons (cfg : Cfg) (o : String) (v : Val) (rest : List (String × Val)) (s : State) :
    enterCur cfg ((o, v) :: rest) s =
      match getOpt (ensureCache s o) o with
      | .error e => (ensureCache s o, some e)
      | .ok saved =>
        match setOpt cfg (pushCache (ensureCache s o) o saved) o v with
        | .error e => (pushCache (ensureCache s o) o saved, some e)
        | .ok s2 => enterCur cfg rest s2 := by
  unfold ensureCache
  cases h : lookup o s.cache <;> simp only [enterCur, h] <;> rfl

/-- State after one round of the restoring loop of the current code. -/
def popCurState (s : State) (o : String) (below : List Val) (t : String) (saved : Val) : State :=
  if below.isEmpty then
    { ({ s with cache := upsert o below s.cache } : State).store t saved with
      cache := erase o (upsert o below s.cache) }
  else ({ s with cache := upsert o below s.cache } : State).store t saved

theorem popCurState_dict (s : State) (o : String) (below : List Val) (t : String) (saved : Val) :
    (popCurState s o below t saved).dict = storeVal t saved s.dict := by
  unfold popCurState State.store
  cases below <;> simp

theorem popCurState_readOnly (s : State) (o : String) (below : List Val) (t : String)
    (saved : Val) : (popCurState s o below t saved).readOnly = s.readOnly := by
  unfold popCurState State.store
  cases below <;> simp

theorem popCurState_stackOf (s : State) (o o' : String) (below : List Val) (t : String)
    (saved : Val) :
    stackOf (popCurState s o below t saved).cache o' =
      if o = o' then below else stackOf s.cache o' := by
  unfold popCurState State.store
  cases below with
  | nil =>
    simp only [List.isEmpty_nil, if_true, stackOf_erase, stackOf_upsert]
    by_cases h : o = o' <;> simp [h]
  | cons b bs =>
    simp only [List.isEmpty_cons, Bool.false_eq_true, if_false, stackOf_upsert]

theorem restoreCur_cons {cfg : Cfg} {s' : State} {o t : String} {rest : List String}
    {saved : Val} {below : List Val} {et : Entry}
    (hw : s'.readOnly = false) (hst : stackOf s'.cache o = saved :: below)
    (ht : s'.targetOf o = some t) (hl : lookup t s'.dict = some et)
    (hv : assertValid cfg.checkValid et.decl saved = none) :
    restoreCur cfg (o :: rest) s' = restoreCur cfg rest (popCurState s' o below t saved) := by
  have h1 := lookup_of_stackOf_cons hst
  have h2 : setOpt cfg ({ s' with cache := upsert o below s'.cache } : State) o saved =
      .ok (({ s' with cache := upsert o below s'.cache } : State).store t saved) := by
    apply setOpt_succeeds (et := et)
    · exact ht
    · exact hl
    · exact hw
    · exact hv
  simp only [restoreCur, h1]
  rw [h2]
  unfold popCurState
  cases below <;> simp [State.store]

theorem popCurState_props {cfg : Cfg} {s' : State} {o t : String} {saved : Val}
    {below : List Val} {et : Entry} (hg : Good cfg s') (hl : lookup t s'.dict = some et)
    (hv : Satisfies cfg.checkValid et.decl saved) :
    SameDecls s' (popCurState s' o below t saved) ∧ Good cfg (popCurState s' o below t saved) ∧
    ∀ m, (popCurState s' o below t saved).valOf m = if t = m then some saved else s'.valOf m := by
  have hd := popCurState_dict s' o below t saved
  refine ⟨?_, ?_, ?_⟩
  · exact (store_sameDecls s' t saved).trans
      (sameDecls_of_dict (by rw [hd]; rfl) (popCurState_readOnly s' o below t saved))
  · exact good_of_dict (s := s'.store t saved) (by rw [hd]; rfl) (good_store hg hl hv)
  · intro m
    have := store_valOf s' t m saved et hl
    rw [← this]
    simp [State.valOf, hd, State.store]

/-- The current `temporary()`: if entering `kw` from `s` completes, then whatever happens later to
the values (same declarations, valid values, same stacks on the keywords), the restoring loop
succeeds, puts the stacks back and — when the keywords reach different options — the values. -/
theorem enterCur_frame {cfg : Cfg} :
    ∀ (kw : List (String × Val)) (s : State), s.readOnly = false → Good cfg s →
      (kw.map (·.1)).Nodup → (enterCur cfg kw s).2 = none →
      SameDecls s (enterCur cfg kw s).1 ∧ Good cfg (enterCur cfg kw s).1 ∧
      (∀ o, o ∉ kw.map (·.1) → stackOf (enterCur cfg kw s).1.cache o = stackOf s.cache o) ∧
      (∀ t, (∀ o ∈ kw.map (·.1), s.targetOf o ≠ some t) →
        (enterCur cfg kw s).1.valOf t = s.valOf t) ∧
      ∀ s', SameDecls s s' → Good cfg s' →
        (∀ o ∈ kw.map (·.1), stackOf s'.cache o = stackOf (enterCur cfg kw s).1.cache o) →
        ∃ s'', restoreCur cfg (kw.map (·.1)) s' = (s'', none) ∧ SameDecls s s'' ∧ Good cfg s'' ∧
          (∀ o ∈ kw.map (·.1), stackOf s''.cache o = stackOf s.cache o) ∧
          (∀ o, o ∉ kw.map (·.1) → stackOf s''.cache o = stackOf s'.cache o) ∧
          (DistinctTargets s kw → ∀ o ∈ kw.map (·.1), ∀ t, s.targetOf o = some t →
            s''.valOf t = s.valOf t) ∧
          (∀ t, (∀ o ∈ kw.map (·.1), s.targetOf o ≠ some t) → s''.valOf t = s'.valOf t) := by
  intro kw
  induction kw with
  | nil =>
    intro s _ hg _ _
    refine ⟨SameDecls.refl s, hg, fun _ _ => rfl, fun _ _ => rfl, ?_⟩
    intro s' h1 h2 _
    exact ⟨s', rfl, h1, h2, by simp, fun _ _ => rfl, by simp, fun _ _ => rfl⟩
  | cons p rest ih =>
    intro s hw hg hnd he
    obtain ⟨o, v⟩ := p
    have hnd' : o ∉ rest.map (·.1) ∧ (rest.map (·.1)).Nodup := by
      simpa using hnd
    rw [enterCur_cons] at he ⊢
    have hAd := ensureCache_dict s o
    cases hget : getOpt (ensureCache s o) o with
    | error e => rw [hget] at he; simp at he
    | ok saved =>
      rw [hget] at he
      simp only at he ⊢
      have hget' : getOpt s o = .ok saved := by rw [← getOpt_congr hAd o]; exact hget
      obtain ⟨t, ht, hsv⟩ := (getOpt_ok_iff s o saved).mp hget'
      obtain ⟨et, hl⟩ := targetOf_declared ht
      have hvalid : Satisfies cfg.checkValid et.decl saved := by
        apply hg t et saved hl
        simpa [State.valOf, hl] using hsv
      cases hset : setOpt cfg (pushCache (ensureCache s o) o saved) o v with
      | error e => rw [hset] at he; simp at he
      | ok s2 =>
        rw [hset] at he
        simp only at he ⊢
        -- the state after the first keyword
        have hsB : SameDecls s (pushCache (ensureCache s o) o saved) :=
          sameDecls_of_dict (by rw [pushCache_dict]; exact hAd)
            (by rw [pushCache_readOnly]; exact ensureCache_readOnly s o)
        have hgB : Good cfg (pushCache (ensureCache s o) o saved) :=
          good_of_dict (s := s) (by rw [pushCache_dict]; exact hAd) hg
        obtain ⟨t2, et2, ht2, hl2, _, hv2, hs2eq⟩ := setOpt_ok_spec hset
        have ht2' : t2 = t := by
          rw [hsB.targetOf o, ht] at ht2; exact (Option.some.inj ht2).symm
        subst ht2'
        have hs2 : SameDecls s s2 := by rw [hs2eq]; exact hsB.trans (store_sameDecls _ t2 v)
        have hg2 : Good cfg s2 := by rw [hs2eq]; exact good_store hgB hl2 hv2
        have hw2 : s2.readOnly = false := by rw [hs2.1]; exact hw
        have hc2 : ∀ o', stackOf s2.cache o' =
            if o = o' then saved :: stackOf s.cache o else stackOf s.cache o' := by
          intro o'
          rw [hs2eq]
          show stackOf (pushCache (ensureCache s o) o saved).cache o' = _
          rw [pushCache_stackOf, ensureCache_stackOf, ensureCache_stackOf]
        have hval2 : ∀ m, s2.valOf m = if t2 = m then some v else s.valOf m := by
          intro m
          rw [hs2eq, store_valOf _ t2 m v et2 hl2]
          simp [State.valOf, pushCache_dict, hAd]
        obtain ⟨i1, i2, i3, i4, i5⟩ := ih s2 hw2 hg2 hnd'.2 he
        have htgt : ∀ n, s2.targetOf n = s.targetOf n := fun n => hs2.targetOf n
        refine ⟨hs2.trans i1, i2, ?_, ?_, ?_⟩
        · intro o' ho'
          have h1 : o' ∉ rest.map (·.1) := fun h => ho' (by simp at h ⊢; exact Or.inr h)
          have h2 : ¬ o = o' := fun h => ho' (by simp [h])
          rw [i3 o' h1, hc2 o']; simp [h2]
        · intro t' hun
          have h1 : ∀ o' ∈ rest.map (·.1), s2.targetOf o' ≠ some t' := by
            intro o' ho'; rw [htgt]; exact hun o' (by simp at ho' ⊢; exact Or.inr ho')
          have h2 : ¬ t2 = t' := by
            intro h; subst h; exact hun o (by simp) ht
          rw [i4 t' h1, hval2 t']; simp [h2]
        · intro s' h1 h2 h3
          have hw' : s'.readOnly = false := by rw [h1.1]; exact hw
          have ht' : s'.targetOf o = some t2 := by rw [h1.targetOf o]; exact ht
          obtain ⟨et', hl'⟩ := targetOf_declared ht'
          have hdecl : et'.decl = et.decl := by
            have a1 := declOf_eq_some hl'
            have a2 := declOf_eq_some hl
            rw [h1.2 t2, a2] at a1
            exact (Option.some.inj a1).symm
          have hst : stackOf s'.cache o = saved :: stackOf s.cache o := by
            rw [h3 o (by simp), i3 o hnd'.1, hc2 o]; simp
          have hvalid' : Satisfies cfg.checkValid et'.decl saved := by rw [hdecl]; exact hvalid
          have hstep := restoreCur_cons (cfg := cfg) (rest := rest.map (·.1)) hw' hst ht' hl'
            ((assertValid_eq_none _ _ _).mpr hvalid')
          obtain ⟨p1, p2, p3⟩ := popCurState_props (o := o) (below := stackOf s.cache o) h2 hl'
            hvalid'
          have hs3 : SameDecls s2 (popCurState s' o (stackOf s.cache o) t2 saved) :=
            (hs2.symm.trans h1).trans p1
          have hc3 : ∀ o' ∈ rest.map (·.1),
              stackOf (popCurState s' o (stackOf s.cache o) t2 saved).cache o' =
                stackOf (enterCur cfg rest s2).1.cache o' := by
            intro o' ho'
            have hne : ¬ o = o' := by intro h; subst h; exact hnd'.1 ho'
            rw [popCurState_stackOf]; simp only [hne, if_false]
            exact h3 o' (by simp at ho' ⊢; exact Or.inr ho')
          obtain ⟨s'', j1, j2, j3, j4, j5, j6, j7⟩ := i5 _ hs3 p2 hc3
          refine ⟨s'', ?_, hs2.trans j2, j3, ?_, ?_, ?_, ?_⟩
          · simp only [List.map_cons]; rw [hstep]; exact j1
          · intro o' ho'
            have ho2 : o' = o ∨ o' ∈ rest.map (·.1) := by
              simpa only [List.map_cons, List.mem_cons] using ho'
            rcases ho2 with h | h
            · subst h
              rw [j5 o' hnd'.1, popCurState_stackOf]; simp
            · have hne : ¬ o = o' := by
                intro hh; subst hh; exact hnd'.1 h
              rw [j4 o' h, hc2 o']; simp [hne]
          · intro o' ho'
            have h1' : o' ∉ rest.map (·.1) := fun h => ho' (by simp at h ⊢; exact Or.inr h)
            have h2' : ¬ o = o' := fun h => ho' (by simp [h])
            rw [j5 o' h1', popCurState_stackOf]; simp [h2']
          · intro hdist o' ho' t' hto'
            have hdist' : s.targetOf o ∉ rest.map (fun p => s.targetOf p.1) ∧
                (rest.map (fun p => s.targetOf p.1)).Nodup := by
              simpa [DistinctTargets] using hdist
            have ho2 : o' = o ∨ o' ∈ rest.map (·.1) := by
              simpa only [List.map_cons, List.mem_cons] using ho'
            rcases ho2 with h | h
            · subst h
              rw [ht] at hto'; cases hto'
              have hun : ∀ o'' ∈ rest.map (·.1), s2.targetOf o'' ≠ some t2 := by
                intro o'' ho'' hc
                rw [htgt] at hc
                apply hdist'.1
                rw [ht, ← hc]
                simp only [List.mem_map] at ho'' ⊢
                obtain ⟨q, hq, rfl⟩ := ho''
                exact ⟨q, hq, rfl⟩
              rw [j7 t2 hun, p3 t2]; simp [hsv]
            · have hd2 : DistinctTargets s2 rest := by
                unfold DistinctTargets
                have : rest.map (fun p => s2.targetOf p.1) = rest.map (fun p => s.targetOf p.1) := by
                  apply List.map_congr_left; intro q _; exact htgt q.1
                rw [this]; exact hdist'.2
              have hto2 : s2.targetOf o' = some t' := by rw [htgt]; exact hto'
              rw [j6 hd2 o' h t' hto2, hval2 t']
              have hne : ¬ t2 = t' := by
                intro hh; subst hh
                apply hdist'.1
                rw [ht, ← hto']
                have : o' ∈ rest.map (·.1) := h
                simp only [List.mem_map] at this ⊢
                obtain ⟨q, hq, rfl⟩ := this
                exact ⟨q, hq, rfl⟩
              simp [hne]
          · intro t' hun
            have h1' : ∀ o' ∈ rest.map (·.1), s2.targetOf o' ≠ some t' := by
              intro o' ho'; rw [htgt]; exact hun o' (by simp at ho' ⊢; exact Or.inr ho')
            have h2' : ¬ t2 = t' := by
              intro h; subst h; exact hun o (by simp) ht
            rw [j7 t' h1', p3 t']; simp [h2']

end OMV.C27
