/-
C15 — `InterpAlgorithm.bracket` (exponential search from any start index + bisection) meets its
specification on every strictly increasing grid.
-/
import OMV.Model.C15
import Mathlib.Order.Basic
import Mathlib.Order.Defs.LinearOrder
import Mathlib.Tactic.Linarith
import Mathlib.Tactic.SplitIfs

set_option linter.unusedSectionVars false
set_option linter.unusedVariables false

namespace OMV.C15

/-- The grid `g 0, …, g (n-1)` is strictly increasing. -/
def StrictOn {K : Type} [LT K] (n : Nat) (g : Nat → K) : Prop := ∀ i j, i < j → j < n → g i < g j

variable {K : Type} [LinearOrder K]

/-- `omega` after exposing structure projections. -/
macro "somega" : tactic => `(tactic| first | omega | (simp only; omega) | (dsimp only; omega))

theorem StrictOn.le {n : Nat} {g : Nat → K} (h : StrictOn n g) {i j : Nat} (hij : i ≤ j)
    (hj : j < n) : g i ≤ g j := by
  rcases Nat.lt_or_eq_of_le hij with h1 | h1
  · exact (h i j h1 hj).le
  · subst h1; exact le_refl _

theorem StrictOn.lt_of_lt {n : Nat} {g : Nat → K} (h : StrictOn n g) {i j : Nat} (hi : i < n)
    (hj : j < n) (hg : g i < g j) : i < j := by
  rcases Nat.lt_or_ge i j with h1 | h1
  · exact h1
  · exact absurd (h.le h1 hi) (not_le.mpr hg)

/-- Post-condition of the downward search. -/
theorem descend_post (g : Nat → K) (x : K) (n : Nat) :
    ∀ (fuel : Nat) (s : BState), s.last < fuel → 1 ≤ s.inc → s.last < n →
      match descend g x fuel s with
      | none => x < g 0
      | some s' => 1 ≤ s'.inc ∧ s'.last < n ∧ g s'.last ≤ x ∧
          ((s' = s ∧ g s.last < x) ∨
           (s'.last ≤ s'.high ∧ s'.high ≤ s.last ∧ x ≤ g s'.high ∧ (s'.last < s'.high ∨ s'.last = 0)))
  | 0, s, hf, _, _ => absurd hf (Nat.not_lt_zero _)
  | fuel + 1, s, hf, hinc, hn => by
    unfold descend
    by_cases hx : x ≤ g s.last
    · simp only [hx, if_true]
      by_cases hl : s.last < s.inc
      · simp only [hl, if_true]
        by_cases h0 : x < g 0
        · simp only [h0, if_true]
        · simp only [h0, if_false]
          refine ⟨hinc, by omega, not_lt.mp h0, Or.inr ⟨Nat.zero_le _, le_refl _, hx, Or.inr trivial⟩⟩
      · simp only [hl, if_false]
        have ih := descend_post g x n fuel ⟨s.last - s.inc, s.last, s.inc + s.inc⟩
          (by somega) (by somega) (by somega)
        cases hd : descend g x fuel ⟨s.last - s.inc, s.last, s.inc + s.inc⟩ with
        | none => rw [hd] at ih; exact ih
        | some s' =>
          rw [hd] at ih
          obtain ⟨i1, i2, i3, i4⟩ := ih
          refine ⟨i1, i2, i3, Or.inr ?_⟩
          rcases i4 with ⟨he, hlt⟩ | ⟨j1, j2, j3, j4⟩
          · subst he
            simp only at hlt ⊢
            exact ⟨by omega, le_refl _, hx, Or.inl (by omega)⟩
          · simp only at j2
            exact ⟨j1, by omega, j3, j4⟩
    · simp only [hx, if_false]
      exact ⟨hinc, hn, (not_le.mp hx).le, Or.inl ⟨trivial, not_le.mp hx⟩⟩

/-- Post-condition of the upward search. -/
theorem ascend_post (g : Nat → K) (x : K) (hb : Nat) :
    ∀ (fuel : Nat) (s : BState), hb - s.high < fuel → 1 ≤ s.inc → s.high ≤ hb → g s.last ≤ x →
      match ascend g x hb fuel s with
      | none => g hb < x
      | some s' => s'.high ≤ hb ∧ g s'.last ≤ x ∧ x ≤ g s'.high ∧ (s' = s ∨ s'.last < s'.high)
  | 0, s, hf, _, _, _ => absurd hf (Nat.not_lt_zero _)
  | fuel + 1, s, hf, hinc, hh, hl => by
    unfold ascend
    by_cases hx : g s.high < x
    · simp only [hx, if_true]
      by_cases hc : hb ≤ s.high + s.inc
      · simp only [hc, if_true]
        by_cases ht : g hb < x
        · simp only [ht, if_true]
        · simp only [ht, if_false]
          have hne : s.high ≠ hb := by
            intro e; rw [e] at hx; exact ht hx
          exact ⟨le_refl _, hx.le, not_lt.mp ht, Or.inr (by somega)⟩
      · simp only [hc, if_false]
        have ih := ascend_post g x hb fuel ⟨s.high, s.high + s.inc, s.inc + s.inc⟩
          (by somega) (by somega) (by somega) (by simp only; exact hx.le)
        cases hd : ascend g x hb fuel ⟨s.high, s.high + s.inc, s.inc + s.inc⟩ with
        | none => rw [hd] at ih; exact ih
        | some s' =>
          rw [hd] at ih
          obtain ⟨i1, i2, i3, i4⟩ := ih
          refine ⟨i1, i2, i3, Or.inr ?_⟩
          rcases i4 with he | hlt
          · subst he; simp only; omega
          · exact hlt
    · simp only [hx, if_false]
      exact ⟨hh, hl, not_lt.mp hx, Or.inl trivial⟩

/-- Post-condition of the bisection. -/
theorem bisect_post (g : Nat → K) (x : K) :
    ∀ (fuel last high : Nat), high - last ≤ fuel → last ≤ high → g last ≤ x → x ≤ g high →
      g (bisect g x fuel last high) ≤ x ∧
      (last < high → bisect g x fuel last high + 1 ≤ high ∧ x ≤ g (bisect g x fuel last high + 1)) ∧
      (last = high → bisect g x fuel last high = last)
  | 0, last, high, hf, hle, hl, hh => by
    have : last = high := by omega
    subst this
    simp [bisect, hl]
  | fuel + 1, last, high, hf, hle, hl, hh => by
    unfold bisect
    by_cases h1 : 1 < high - last
    · simp only [h1, if_true]
      have hlow1 : last < (high + last) / 2 := by omega
      have hlow2 : (high + last) / 2 < high := by omega
      by_cases hx : x < g ((high + last) / 2)
      · simp only [hx, if_true]
        obtain ⟨a, b, c⟩ := bisect_post g x fuel last ((high + last) / 2) (by omega) (by omega) hl hx.le
        refine ⟨a, fun _ => ?_, fun e => by omega⟩
        obtain ⟨b1, b2⟩ := b hlow1
        exact ⟨by omega, b2⟩
      · simp only [hx, if_false]
        obtain ⟨a, b, c⟩ := bisect_post g x fuel ((high + last) / 2) high (by omega) (by omega)
          (not_lt.mp hx) hh
        refine ⟨a, fun _ => b hlow2, fun e => by omega⟩
    · simp only [h1, if_false]
      refine ⟨hl, fun hlt => ?_, fun _ => trivial⟩
      have : high = last + 1 := by omega
      subst this
      exact ⟨le_refl _, hh⟩

/-- What `bracket` returns, for every start index. -/
theorem bracket_post (g : Nat → K) (n : Nat) (hn : 2 ≤ n) (hg : StrictOn n g) (last : Nat)
    (hlast : last < n) (x : K) :
    (bracket g n last x = (0, Flag.below) ∧ x < g 0) ∨
    (bracket g n last x = (n - 1, Flag.above) ∧ g (n - 1) < x) ∨
    (∃ idx, bracket g n last x = (idx, Flag.inside) ∧ idx + 1 < n ∧ g idx ≤ x ∧ x ≤ g (idx + 1)) := by
  unfold bracket
  have hd := descend_post g x n (last + 1) ⟨last, last + 1, 1⟩ (by somega) (le_refl _)
    (by simp only; exact hlast)
  cases hdes : descend g x (last + 1) ⟨last, last + 1, 1⟩ with
  | none =>
    rw [hdes] at hd
    exact Or.inl ⟨rfl, hd⟩
  | some s =>
    rw [hdes] at hd
    obtain ⟨d1, d2, d3, d4⟩ := hd
    simp only
    rcases d4 with ⟨he, hlt⟩ | ⟨e1, e2, e3, e4⟩
    · -- the downward loop did not run
      subst he
      simp only at hlt
      by_cases hclip : n - 1 < last + 1
      · -- start index is the last node and x is above it
        have hl : last = n - 1 := by omega
        simp only [hclip, if_true]
        have ha := ascend_post g x (n - 1) n ⟨last, n - 1, 1⟩ (by somega) (le_refl _)
          (le_refl _) (by simp only; exact hlt.le)
        cases hasc : ascend g x (n - 1) n ⟨last, n - 1, 1⟩ with
        | none => rw [hasc] at ha; exact Or.inr (Or.inl ⟨rfl, ha⟩)
        | some s' =>
          rw [hasc] at ha
          obtain ⟨a1, a2, a3, a4⟩ := ha
          exfalso
          have hle : g s'.high ≤ g (n - 1) := hg.le a1 (by omega)
          rw [← hl] at hle
          exact absurd (lt_of_lt_of_le hlt a3) (not_lt.mpr hle)
      · simp only [hclip, if_false]
        have ha := ascend_post g x (n - 1) n ⟨last, last + 1, 1⟩ (by somega) (le_refl _)
          (by somega) (by simp only; exact hlt.le)
        cases hasc : ascend g x (n - 1) n ⟨last, last + 1, 1⟩ with
        | none => rw [hasc] at ha; exact Or.inr (Or.inl ⟨rfl, ha⟩)
        | some s' =>
          rw [hasc] at ha
          obtain ⟨a1, a2, a3, a4⟩ := ha
          have hlt' : s'.last < s'.high := by
            rcases a4 with he | h
            · subst he; simp only; omega
            · exact h
          obtain ⟨b1, b2, _⟩ := bisect_post g x n s'.last s'.high (by omega) hlt'.le a2 a3
          obtain ⟨b3, b4⟩ := b2 hlt'
          exact Or.inr (Or.inr ⟨_, rfl, by omega, b1, b4⟩)
    · -- the downward loop ran: x ≤ g high, high ≤ last ≤ n-1
      simp only at e2
      have hclip : ¬ n - 1 < s.high := by omega
      simp only [hclip, if_false]
      have hasc : ascend g x (n - 1) n s = some s := by
        cases n with
        | zero => omega
        | succ m =>
          unfold ascend
          simp only [not_lt.mpr e3, if_false]
      rw [hasc]
      simp only
      obtain ⟨b1, b2, b3⟩ := bisect_post g x n s.last s.high (by omega) e1 d3 e3
      rcases e4 with hlt' | h0
      · obtain ⟨b3', b4⟩ := b2 hlt'
        exact Or.inr (Or.inr ⟨_, rfl, by omega, b1, b4⟩)
      · rcases Nat.lt_or_eq_of_le e1 with hlt' | heq
        · obtain ⟨b3', b4⟩ := b2 hlt'
          exact Or.inr (Or.inr ⟨_, rfl, by omega, b1, b4⟩)
        · have hr := b3 heq
          refine Or.inr (Or.inr ⟨_, rfl, ?_, b1, ?_⟩)
          · rw [hr, h0]; omega
          · rw [hr, h0]
            have hx0 : x ≤ g 0 := by rw [← heq, h0] at e3; exact e3
            exact le_trans hx0 (hg.le (Nat.zero_le 1) (by omega))

end OMV.C15
