/-
C15 — the bounds pre-check, and the fixed-dimension tables against the general recursion.
-/
import OMV.Proofs.C15ND

set_option linter.unusedSectionVars false
set_option linter.unusedVariables false

namespace OMV.C15

variable {K : Type} [Field K] [LinearOrder K] [IsStrictOrderedRing K]

/-! ### bounds pre-check -/

theorem absK_nonneg (a : K) : 0 ≤ absK a := by
  unfold absK; split_ifs with h
  · exact (neg_pos.mpr h).le
  · exact not_lt.mp h

theorem tolEps_nonneg (absEps : Bool) (c glast : K) (hc : 0 ≤ c)
    (h : absEps = true ∨ 0 ≤ glast) : 0 ≤ tolEps absEps c glast := by
  unfold tolEps
  cases absEps
  · rcases h with h | h
    · exact absurd h (by simp)
    · simpa using mul_nonneg hc h
  · simpa using mul_nonneg hc (absK_nonneg glast)

/-- All points lie in the tolerance band of dimension `(n, g)`. -/
def InBand (e : K) (n : Nat) (g : Nat → K) (ps : List K) : Prop :=
  ∀ p ∈ ps, g 0 - e ≤ p ∧ p ≤ g (n - 1) + e

theorem checkDim_spec (absEps : Bool) (c : K) (g : Nat → K) (n : Nat) (ps : List K)
    (he : 0 ≤ tolEps absEps c (g (n - 1))) :
    (checkDim absEps c g n ps = Check.ok ↔ InBand (tolEps absEps c (g (n - 1))) n g ps) ∧
    (checkDim absEps c g n ps = Check.oob ↔ ¬ InBand (tolEps absEps c (g (n - 1))) n g ps) ∧
    checkDim absEps c g n ps ≠ Check.crash := by
  unfold checkDim InBand
  generalize tolEps absEps c (g (n - 1)) = e at he
  by_cases hA : (ps.any (fun p => decide (p < g 0 - e)) ||
      ps.any (fun p => decide (g (n - 1) + e < p))) = true
  · have hB : (ps.any (fun p => decide (p < g 0)) || ps.any (fun p => decide (g (n - 1) < p))) = true := by
      simp only [Bool.or_eq_true, List.any_eq_true, decide_eq_true_eq] at hA ⊢
      rcases hA with ⟨p, hp, h⟩ | ⟨p, hp, h⟩
      · exact Or.inl ⟨p, hp, by linarith⟩
      · exact Or.inr ⟨p, hp, by linarith⟩
    have hnot : ¬ ∀ p ∈ ps, g 0 - e ≤ p ∧ p ≤ g (n - 1) + e := by
      simp only [Bool.or_eq_true, List.any_eq_true, decide_eq_true_eq] at hA
      rcases hA with ⟨p, hp, h⟩ | ⟨p, hp, h⟩
      · exact fun hall => absurd (hall p hp).1 (not_le.mpr h)
      · exact fun hall => absurd (hall p hp).2 (not_le.mpr h)
    rw [if_pos hA, if_pos hB]
    exact ⟨⟨fun h => Check.noConfusion h, fun h => absurd h hnot⟩, ⟨fun _ => hnot, fun _ => rfl⟩,
      fun h => Check.noConfusion h⟩
  · have hall : ∀ p ∈ ps, g 0 - e ≤ p ∧ p ≤ g (n - 1) + e := by
      intro p hp
      simp only [Bool.or_eq_true, List.any_eq_true, decide_eq_true_eq, not_or, not_exists,
        not_and, not_lt] at hA
      exact ⟨hA.1 p hp, hA.2 p hp⟩
    rw [if_neg hA]
    exact ⟨⟨fun _ => hall, fun _ => rfl⟩, ⟨fun h => Check.noConfusion h, fun h => absurd hall h⟩,
      fun h => Check.noConfusion h⟩

/-- Every dimension's tolerance is non-negative (true for `absEps`, or when no grid ends below 0). -/
def TolOK (absEps : Bool) (c : K) (ds : List (Dim K)) : Prop :=
  ∀ d ∈ ds, 0 ≤ tolEps absEps c (d.2 (d.1 - 1))

/-- All requested points are inside the tolerance band in every dimension. -/
def AllInBand (absEps : Bool) (c : K) : List (Dim K) → List (List K) → Prop
  | (n, g) :: ds, ps :: cols => InBand (tolEps absEps c (g (n - 1))) n g ps ∧ AllInBand absEps c ds cols
  | _, _ => True

theorem checkAll_spec (absEps : Bool) (c : K) :
    ∀ (ds : List (Dim K)) (cols : List (List K)), TolOK absEps c ds →
      (checkAll absEps c ds cols = Check.ok ↔ AllInBand absEps c ds cols) ∧
      (checkAll absEps c ds cols = Check.oob ↔ ¬ AllInBand absEps c ds cols) ∧
      checkAll absEps c ds cols ≠ Check.crash
  | [], _, _ => by simp [checkAll, AllInBand]
  | (n, g) :: ds, [], _ => by simp [checkAll, AllInBand]
  | (n, g) :: ds, ps :: cols, ht => by
    have h0 := ht (n, g) List.mem_cons_self
    have ht' : TolOK absEps c ds := fun d hd => ht d (List.mem_cons_of_mem _ hd)
    obtain ⟨s1, s2, s3⟩ := checkDim_spec absEps c g n ps h0
    obtain ⟨r1, r2, r3⟩ := checkAll_spec absEps c ds cols ht'
    simp only [checkAll, AllInBand]
    cases hc : checkDim absEps c g n ps with
    | ok =>
      have hin := s1.mp hc
      refine ⟨⟨fun h => ⟨hin, r1.mp h⟩, fun h => r1.mpr h.2⟩,
        ⟨fun h hh => r2.mp h hh.2, fun h => r2.mpr (fun hh => h ⟨hin, hh⟩)⟩, r3⟩
    | oob =>
      have hout := s2.mp hc
      have hnot : ¬ (InBand (tolEps absEps c (g (n - 1))) n g ps ∧ AllInBand absEps c ds cols) :=
        fun h => hout h.1
      exact ⟨⟨fun h => Check.noConfusion h, fun h => absurd h hnot⟩, ⟨fun _ => hnot, fun _ => rfl⟩,
        fun h => Check.noConfusion h⟩
    | crash => exact absurd hc s3

/-! ### fixed-dimension slinear -/

theorem fixIdx1_nat {n : Nat} (idx : Nat) (hn : 1 ≤ n) : fixIdx1 n (idx : Int) = slinStart n idx := by
  unfold fixIdx1 slinStart
  split_ifs <;> first | omega | contradiction | simp

theorem fixIdx1_neg {n : Nat} (hn : 2 ≤ n) : fixIdx1 n (-1) = slinStart n 0 := by
  unfold fixIdx1 slinStart
  split_ifs <;> omega

theorem slinear1D_eq_aux (n : Nat) (g : Nat → K) (tbl : List Nat → K) (ix : Int) (idx : Nat) (x : K)
    (h : fixIdx1 n ix = slinStart n idx) :
    slinear1D n g tbl ix x = evalIdx slinearK [(n, g)] [idx] tbl [x] := by
  simp only [evalIdx, slinearK_eq, slinPoly, slinear1D, h]
  ring

theorem slinear2D_eq_aux (nx ny : Nat) (gx gy : Nat → K) (tbl : List Nat → K) (ix iy : Int)
    (i j : Nat) (x y : K) (hx : fixIdx1 nx ix = slinStart nx i) (hy : fixIdx1 ny iy = slinStart ny j)
    (h1 : gx (slinStart nx i) - gx (slinStart nx i + 1) ≠ 0)
    (h2 : gy (slinStart ny j) - gy (slinStart ny j + 1) ≠ 0) :
    slinear2D nx ny gx gy tbl ix iy x y = evalIdx slinearK [(nx, gx), (ny, gy)] [i, j] tbl [x, y] := by
  simp only [evalIdx, slinearK_eq, slinPoly, slinear2D, hx, hy]
  have h1' : gx (slinStart nx i + 1) - gx (slinStart nx i) ≠ 0 := by
    intro e; apply h1; rw [sub_eq_zero] at e ⊢; exact e.symm
  have h2' : gy (slinStart ny j + 1) - gy (slinStart ny j) ≠ 0 := by
    intro e; apply h2; rw [sub_eq_zero] at e ⊢; exact e.symm
  field_simp
  ring

theorem slinear3D_eq_aux (nx ny nz : Nat) (gx gy gz : Nat → K) (tbl : List Nat → K)
    (ix iy iz : Int) (i j k : Nat) (x y z : K) (hx : fixIdx1 nx ix = slinStart nx i)
    (hy : fixIdx1 ny iy = slinStart ny j) (hz : fixIdx1 nz iz = slinStart nz k)
    (h1 : gx (slinStart nx i) - gx (slinStart nx i + 1) ≠ 0)
    (h2 : gy (slinStart ny j) - gy (slinStart ny j + 1) ≠ 0)
    (h3 : gz (slinStart nz k) - gz (slinStart nz k + 1) ≠ 0) :
    slinear3D nx ny nz gx gy gz tbl ix iy iz x y z =
      evalIdx slinearK [(nx, gx), (ny, gy), (nz, gz)] [i, j, k] tbl [x, y, z] := by
  simp only [evalIdx, slinearK_eq, slinPoly, slinear3D, hx, hy, hz]
  have h1' : gx (slinStart nx i + 1) - gx (slinStart nx i) ≠ 0 := by
    intro e; apply h1; rw [sub_eq_zero] at e ⊢; exact e.symm
  have h2' : gy (slinStart ny j + 1) - gy (slinStart ny j) ≠ 0 := by
    intro e; apply h2; rw [sub_eq_zero] at e ⊢; exact e.symm
  have h3' : gz (slinStart nz k + 1) - gz (slinStart nz k) ≠ 0 := by
    intro e; apply h3; rw [sub_eq_zero] at e ⊢; exact e.symm
  field_simp
  ring

end OMV.C15
