/-
C03 helper lemmas, part 2: the greedy distance-1 coloring `_get_full_disjoint_col_matrix_cols`
for an arbitrary adjacency function and an arbitrary visiting order.
-/
import OMV.Model.C03
import Mathlib.Data.List.Basic

namespace OMV.C03

/-- No member of a group is a neighbour of a later member. -/
def GroupOK (adj : Nat → List Nat) (g : List Nat) : Prop := g.Pairwise fun a b => a ∉ adj b

theorem place_flatten_perm (nb : List Nat) (c : Nat) (gs : List (List Nat)) :
    (place nb c gs).flatten.Perm (c :: gs.flatten) := by
  induction gs with
  | nil => simp [place]
  | cons g gs ih =>
    unfold place
    split
    · simp only [List.flatten_cons, List.append_assoc, List.singleton_append]
      exact List.perm_middle
    · simp only [List.flatten_cons]
      exact (List.Perm.append_left g ih).trans List.perm_middle

theorem place_nonempty (nb : List Nat) (c : Nat) (gs : List (List Nat))
    (h : ∀ g ∈ gs, g ≠ []) : ∀ g ∈ place nb c gs, g ≠ [] := by
  induction gs with
  | nil => intro g hg; simp [place] at hg; simp [hg]
  | cons g0 gs ih =>
    unfold place
    split
    · intro g hg
      rcases List.mem_cons.mp hg with rfl | hg
      · simp
      · exact h g (List.mem_cons_of_mem _ hg)
    · intro g hg
      rcases List.mem_cons.mp hg with rfl | hg
      · exact h _ List.mem_cons_self
      · exact ih (fun g hg => h g (List.mem_cons_of_mem _ hg)) g hg

theorem place_groupOK (adj : Nat → List Nat) (c : Nat) (gs : List (List Nat))
    (h : ∀ g ∈ gs, GroupOK adj g) : ∀ g ∈ place (adj c) c gs, GroupOK adj g := by
  induction gs with
  | nil => intro g hg; simp [place] at hg; simp [hg, GroupOK]
  | cons g0 gs ih =>
    unfold place
    split
    · rename_i hall
      intro g hg
      rcases List.mem_cons.mp hg with rfl | hg
      · unfold GroupOK
        rw [List.pairwise_append]
        refine ⟨h g0 List.mem_cons_self, by simp, ?_⟩
        intro a ha b hb
        simp only [List.mem_singleton] at hb
        subst hb
        have := List.all_eq_true.mp hall a ha
        simpa using this
      · exact h g (List.mem_cons_of_mem _ hg)
    · intro g hg
      rcases List.mem_cons.mp hg with rfl | hg
      · exact h _ List.mem_cons_self
      · exact ih (fun g hg => h g (List.mem_cons_of_mem _ hg)) g hg

theorem place_length (nb : List Nat) (c : Nat) (gs : List (List Nat)) :
    (place nb c gs).length ≤ gs.length + 1 := by
  induction gs with
  | nil => simp [place]
  | cons g gs ih =>
    unfold place
    split
    · simp
    · simp only [List.length_cons]; omega

/-- The coloring loop started from the groups `gs`. -/
def greedyFrom (adj : Nat → List Nat) (gs : List (List Nat)) (order : List Nat) : List (List Nat) :=
  order.foldl (fun gs c => place (adj c) c gs) gs

theorem greedyColor_eq (adj : Nat → List Nat) (order : List Nat) :
    greedyColor adj order = greedyFrom adj [] order := rfl

theorem greedyFrom_spec (adj : Nat → List Nat) (order : List Nat) (gs : List (List Nat))
    (hne : ∀ g ∈ gs, g ≠ []) (hok : ∀ g ∈ gs, GroupOK adj g) :
    (∀ g ∈ greedyFrom adj gs order, g ≠ []) ∧
    (∀ g ∈ greedyFrom adj gs order, GroupOK adj g) ∧
    (greedyFrom adj gs order).flatten.Perm (gs.flatten ++ order) ∧
    (greedyFrom adj gs order).length ≤ gs.length + order.length := by
  induction order generalizing gs with
  | nil => simpa [greedyFrom] using ⟨hne, hok⟩
  | cons c order ih =>
    have h1 := place_nonempty (adj c) c gs hne
    have h2 := place_groupOK adj c gs hok
    obtain ⟨a, b, p, l⟩ := ih (place (adj c) c gs) h1 h2
    refine ⟨a, b, ?_, ?_⟩
    · show (greedyFrom adj (place (adj c) c gs) order).flatten.Perm _
      refine p.trans ?_
      refine ((place_flatten_perm (adj c) c gs).append_right order).trans ?_
      simp only [List.cons_append]
      exact List.perm_middle.symm
    · show (greedyFrom adj (place (adj c) c gs) order).length ≤ _
      have := place_length (adj c) c gs
      simp only [List.length_cons]
      omega

end OMV.C03
