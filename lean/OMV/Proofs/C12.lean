/-
C12 helper lemmas: the difference quotient of a cubic in terms of the moments of a coefficient
row, the step bounds, dual-number evaluation of polynomial expressions.
-/
import OMV.Model.C12
import OMV.Proofs.SpecExpr
import Mathlib.Tactic.Ring
import Mathlib.Tactic.FieldSimp
import Mathlib.Tactic.Linarith
import Mathlib.Algebra.Order.Field.Basic
import Mathlib.Data.Rat.Cast.CharZero

set_option linter.unusedSectionVars false
set_option linter.unusedVariables false

namespace OMV.C12

open OMV.Spec (Dual Expr)

/-! ### cubic polynomials and their derivatives -/

section Cubic

variable {K : Type} [Field K]

/-- `a₀ + a₁ t + a₂ t² + a₃ t³` -/
def cubic (a0 a1 a2 a3 : K) (t : K) : K := a0 + a1 * t + a2 * t ^ 2 + a3 * t ^ 3
/-- first derivative -/
def cubic' (a1 a2 a3 : K) (t : K) : K := a1 + 2 * a2 * t + 3 * a3 * t ^ 2
/-- second derivative -/
def cubic'' (a2 a3 : K) (t : K) : K := 2 * a2 + 6 * a3 * t
/-- third derivative -/
def cubic''' (a3 : K) : K := 6 * a3

theorem powN_eq (x : K) (n : Nat) : powN x n = x ^ n := by
  induction n with
  | zero => simp [powN]
  | succ n ih => simp [powN, ih, pow_succ]

/-- raw moment sums over a list of `(delta, coeff)` pairs -/
def msum (l : List (K × K)) (k : Nat) : K :=
  l.foldr (fun dc acc => dc.2 * powN dc.1 k + acc) 0

theorem moment_eq_msum (r : FdRow K) (k : Nat) : moment r k = msum (r.deltas.zip r.coeffs) k := rfl

/-- the accumulation loop on the step-scaled pairs, for a cubic: Taylor expansion, exactly -/
theorem fdAcc_cubic (a0 a1 a2 a3 x h : K) (hh : h ≠ 0) (l : List (K × K)) (acc : K) :
    fdAcc (cubic a0 a1 a2 a3) x (l.map (fun dc => (dc.1 * h, dc.2 / h))) acc
      = acc + (msum l 0 / h * cubic a0 a1 a2 a3 x + msum l 1 * cubic' a1 a2 a3 x
          + h * msum l 2 * (a2 + 3 * a3 * x) + h ^ 2 * msum l 3 * a3) := by
  induction l generalizing acc with
  | nil => simp [fdAcc, msum]
  | cons dc rest ih =>
    obtain ⟨d, c⟩ := dc
    simp only [List.map_cons, fdAcc, ih, msum, List.foldr_cons, powN_eq]
    simp only [cubic, cubic']
    field_simp
    ring

/-- **the difference quotient of a cubic**, for any coefficient row and any step `h ≠ 0` -/
theorem fdApply_cubic (r : FdRow K) (a0 a1 a2 a3 x h : K) (hh : h ≠ 0) :
    fdApply r h (cubic a0 a1 a2 a3) x
      = moment0 r / h * cubic a0 a1 a2 a3 x + moment r 1 * cubic' a1 a2 a3 x
          + h * moment r 2 * (a2 + 3 * a3 * x) + h ^ 2 * moment r 3 * a3 := by
  unfold fdApply fdCombine pointData
  simp only [Bool.false_eq_true, if_false]
  have hz : (r.deltas.map (· * h)).zip (r.coeffs.map (· / h))
      = (r.deltas.zip r.coeffs).map (fun dc => (dc.1 * h, dc.2 / h)) := by
    rw [List.zip_map]; rfl
  rw [hz, fdAcc_cubic _ _ _ _ _ _ hh]
  simp only [moment0, moment_eq_msum]
  field_simp
  ring

/-- the `rel_element` scaling (`* (1/h)` instead of `/ h`) is the same data -/
theorem pointData_relElem (r : FdRow K) (h : K) : pointData true r h = pointData false r h := by
  unfold pointData
  simp only [if_true, Bool.false_eq_true, if_false, mul_one_div]

/-- a consistent row gives scaled data whose coefficients sum to zero -/
theorem coeffSum_pointData (r : FdRow K) (h : K) (hh : h ≠ 0) (b : Bool) (hm : moment0 r = 0) :
    (pointData b r h).coeffSum = 0 := by
  have hb : pointData b r h = pointData false r h := by
    cases b
    · rfl
    · exact pointData_relElem r h
  rw [hb]
  unfold PointData.coeffSum pointData
  simp only [Bool.false_eq_true, if_false]
  have hz : (r.deltas.map (· * h)).zip (r.coeffs.map (· / h))
      = (r.deltas.zip r.coeffs).map (fun dc => (dc.1 * h, dc.2 / h)) := by
    rw [List.zip_map]; rfl
  rw [hz]
  have key : ∀ l : List (K × K),
      (l.map (fun dc => (dc.1 * h, dc.2 / h))).foldr (fun dc acc => dc.2 + acc) 0 = msum l 0 / h := by
    intro l
    induction l with
    | nil => simp [msum]
    | cons dc rest ih =>
      simp only [List.map_cons, List.foldr_cons, ih, msum, powN]
      field_simp
  rw [key]
  have : r.current / h + msum (r.deltas.zip r.coeffs) 0 / h = moment0 r / h := by
    simp only [moment0, moment_eq_msum]; field_simp
  rw [this, hm]; simp

end Cubic

/-! ### rational rows in any field of characteristic zero -/

section Cast

variable {K : Type} [Field K] [CharZero K]

/-- a row of the (rational) table read in the field `K` -/
def castRow (r : FdRow Rat) : FdRow K := FdRow.map (fun q : Rat => (q : K)) r

theorem powN_cast (q : Rat) (k : Nat) : ((powN q k : Rat) : K) = powN (q : K) k := by
  induction k with
  | zero => simp [powN]
  | succ n ih => simp [powN, ← ih]

theorem moment_cast (r : FdRow Rat) (k : Nat) :
    moment (castRow r : FdRow K) k = ((moment r k : Rat) : K) := by
  unfold moment castRow FdRow.map
  simp only
  rw [List.zip_map]
  generalize r.deltas.zip r.coeffs = l
  induction l with
  | nil => simp
  | cons dc rest ih =>
    simp only [List.map_cons, List.foldr_cons, ih, Prod.map, Rat.cast_add, Rat.cast_mul, powN_cast]

theorem moment0_cast (r : FdRow Rat) :
    moment0 (castRow r : FdRow K) = ((moment0 r : Rat) : K) := by
  unfold moment0
  rw [moment_cast, Rat.cast_add]
  rfl

end Cast

/-! ### order conditions as a decidable check -/

theorem orderOK_spec (p : Nat) (r : FdRow Rat) (h : orderOK p r = true) :
    moment0 r = 0 ∧ moment r 1 = 1 ∧ (2 ≤ p → moment r 2 = 0) ∧ (3 ≤ p → moment r 3 = 0) := by
  unfold orderOK at h
  simp only [Bool.and_eq_true, decide_eq_true_eq, List.all_eq_true, List.mem_range] at h
  obtain ⟨⟨⟨h0, h1⟩, hk⟩, _⟩ := h
  refine ⟨h0, h1, ?_, ?_⟩
  · intro hp
    have := hk 0 (by omega)
    simpa using this
  · intro hp
    have := hk 1 (by omega)
    simpa using this

/-! ### step bounds -/

section Step

variable {K : Type} [Field K] [LinearOrder K] [IsStrictOrderedRing K]

theorem clampMin_ge (m s : K) : m ≤ clampMin m s := by
  unfold clampMin
  split
  · exact le_refl _
  · rename_i h; exact not_lt.mp h

theorem stepVector_ge (step m : K) (v : List K) (loc : Nat) (h : K)
    (hl : (stepVector step m v)[loc]? = some h) : m ≤ h := by
  unfold stepVector at hl
  rw [List.getElem?_map] at hl
  cases hv : v[loc]? with
  | none => simp [hv] at hl
  | some x =>
    simp only [hv, Option.map_some, Option.some.injEq] at hl
    rw [← hl]; exact clampMin_ge _ _

end Step

/-! ### complex step: dual part of a polynomial expression -/

section CS

variable {K : Type} [Field K]

theorem evalD_indicator (e : Expr K) (env : Nat → K) (j : Nat) (h : K) :
    Expr.evalD env (fun v => if v = j then h else 0) e = Expr.eval env (Expr.diff j e) * h := by
  induction e with
  | const k => simp [Expr.evalD, Expr.diff, Expr.eval, Expr.evalWith]
  | var v =>
    by_cases hv : v = j
    · simp [Expr.evalD, Expr.diff, Expr.eval, Expr.evalWith, hv]
    · simp [Expr.evalD, Expr.diff, Expr.eval, Expr.evalWith, hv]
  | add a b iha ihb =>
    simp only [Expr.evalD, Expr.diff, iha, ihb]
    simp [Expr.eval, Expr.evalWith]; ring
  | mul a b iha ihb =>
    simp only [Expr.evalD, Expr.diff, iha, ihb]
    simp [Expr.eval, Expr.evalWith]; ring
  | neg a iha =>
    simp only [Expr.evalD, Expr.diff, iha]
    simp [Expr.eval, Expr.evalWith]

end CS

end OMV.C12
