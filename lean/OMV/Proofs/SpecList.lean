/-
Helper lemmas for the ModelSpec: gathers / index chains, the run-once sweep.
-/
import OMV.Model.Spec
import Mathlib.Tactic.Ring
import Mathlib.Data.List.Basic

namespace OMV.Spec

variable {K : Type}

theorem gather_length [OfNat K 0] (pos : List Nat) (v : List K) :
    (gather pos v).length = pos.length := by
  simp [gather]

theorem getD_gather [OfNat K 0] (cur : List Nat) (v : List K) (i : Nat) (h : i < cur.length) :
    (gather cur v).getD i 0 = v.getD (cur.getD i 0) 0 := by
  unfold gather
  simp [List.getD_eq_getElem?_getD, List.getElem?_map, List.getElem?_eq_getElem h]

/-- one more level: indexing the gathered value = gathering through the composed positions -/
theorem gather_gather [OfNat K 0] (cur p : List Nat) (v : List K) (h : ∀ i ∈ p, i < cur.length) :
    gather p (gather cur v) = gather (composePos cur p) v := by
  unfold composePos
  conv_rhs => unfold gather
  rw [List.map_map]
  conv_lhs => unfold gather
  apply List.map_congr_left
  intro i hi
  have := getD_gather cur v i (h i hi)
  unfold gather at this
  simpa using this

theorem composePos_length (cur p : List Nat) : (composePos cur p).length = p.length := by
  simp [composePos]

theorem chain_fold [OfNat K 0] (levels : List (List Nat)) (cur : List Nat) (v : List K)
    (h : ChainOk cur.length levels) :
    levels.foldl (fun c p => gather p c) (gather cur v) = gather (levels.foldl composePos cur) v := by
  induction levels generalizing cur with
  | nil => rfl
  | cons p ps ih =>
    simp only [List.foldl_cons]
    obtain ⟨h1, h2⟩ := h
    rw [gather_gather cur p v h1]
    apply ih
    rw [composePos_length]; exact h2

theorem gather_range [OfNat K 0] (v : List K) : gather (List.range v.length) v = v := by
  unfold gather
  apply List.ext_getElem
  · simp
  · intro i h1 h2
    simp [List.getElem?_eq_getElem h2]

end OMV.Spec
