/-
Helper lemmas for the C05 property theorems (OMV/Props/C05.lean): Python slice arithmetic,
per-entry bounds checks and shaped instances, list-level lifting, rank-1 computations of npIndex,
the rank-1 slice fast path.  Core Lean only.
-/
import OMV.Model.C05
set_option linter.unusedSimpArgs false

namespace OMV.C05

theorem arange_length (s e st : Int) : (arange s e st).length = rangeLen s e st := by
  simp [arange]

theorem arange_getElem (s e st : Int) (k : Nat) (h : k < (arange s e st).length) :
    (arange s e st)[k] = s + (k : Int) * st := by
  simp [arange]

theorem lt_rangeLen_pos (s e st : Int) (hst : 0 < st) (k : Nat) :
    k < rangeLen s e st ↔ s + (k : Int) * st < e := by
  unfold rangeLen
  simp only [hst, if_true]
  have hk : (0 : Int) ≤ (k : Int) * st := Int.mul_nonneg (Int.natCast_nonneg k) (Int.le_of_lt hst)
  split
  · rename_i hse
    have h1 : (k : Int) ≤ (e - s - 1) / st ↔ (k : Int) * st ≤ e - s - 1 := Int.le_ediv_iff_mul_le hst
    have h2 : 0 ≤ (e - s - 1) / st := Int.ediv_nonneg (by omega) (Int.le_of_lt hst)
    constructor
    · intro h
      have : (k : Int) ≤ (e - s - 1) / st := by omega
      have := h1.mp this
      omega
    · intro h
      have : (k : Int) ≤ (e - s - 1) / st := h1.mpr (by omega)
      omega
  · constructor
    · intro h; omega
    · intro h; omega

theorem lt_rangeLen_neg (s e st : Int) (hst : st < 0) (k : Nat) :
    k < rangeLen s e st ↔ e < s + (k : Int) * st := by
  unfold rangeLen
  have hn : ¬ (0 < st) := by omega
  simp only [hn, hst, if_true, if_false]
  have hst' : 0 < -st := by omega
  have hk : (0 : Int) ≤ (k : Int) * (-st) := Int.mul_nonneg (Int.natCast_nonneg k) (Int.le_of_lt hst')
  have hkk : (k : Int) * (-st) = -((k : Int) * st) := by rw [Int.mul_neg]
  split
  · rename_i hse
    have h1 : (k : Int) ≤ (s - e - 1) / (-st) ↔ (k : Int) * (-st) ≤ s - e - 1 := Int.le_ediv_iff_mul_le hst'
    have h2 : 0 ≤ (s - e - 1) / (-st) := Int.ediv_nonneg (by omega) (Int.le_of_lt hst')
    constructor
    · intro h
      have : (k : Int) ≤ (s - e - 1) / (-st) := by omega
      have := h1.mp this
      omega
    · intro h
      have : (k : Int) ≤ (s - e - 1) / (-st) := h1.mpr (by omega)
      omega
  · constructor
    · intro h; omega
    · intro h; omega


theorem mem_arange (s e st x : Int) (hst : st ≠ 0) :
    x ∈ arange s e st ↔
      ∃ k : Nat, x = s + (k : Int) * st ∧ (0 < st → x < e) ∧ (st < 0 → e < x) := by
  unfold arange
  simp only [List.mem_map, List.mem_range]
  constructor
  · rintro ⟨k, hk, rfl⟩
    refine ⟨k, rfl, ?_, ?_⟩
    · intro h; exact (lt_rangeLen_pos s e st h k).mp hk
    · intro h; exact (lt_rangeLen_neg s e st h k).mp hk
  · rintro ⟨k, rfl, h1, h2⟩
    refine ⟨k, ?_, rfl⟩
    rcases Int.lt_or_gt_of_ne hst with h | h
    · exact (lt_rangeLen_neg s e st h k).mpr (h2 h)
    · exact (lt_rangeLen_pos s e st h k).mpr (h1 h)

/-- Bounds of `slice.indices(n)`. -/
theorem pyIndices_bounds (a b c : Option Int) (n : Nat) (s e st : Int)
    (h : pyIndices a b c n = some (s, e, st)) :
    st ≠ 0 ∧ st = c.getD 1 ∧ (0 < st → 0 ≤ s ∧ s ≤ n ∧ 0 ≤ e ∧ e ≤ n) ∧
      (st < 0 → -1 ≤ s ∧ s ≤ (n : Int) - 1 ∧ -1 ≤ e ∧ e ≤ (n : Int) - 1) := by
  unfold pyIndices at h
  simp only at h
  split at h
  · simp at h
  · rename_i h0
    simp only [Option.some.injEq, Prod.mk.injEq] at h
    obtain ⟨hs, he, hstep⟩ := h
    subst hstep
    refine ⟨h0, rfl, ?_, ?_⟩
    · intro hp
      have hn : ¬ (c.getD 1 < 0) := by omega
      simp only [hn, if_false] at hs he
      cases a <;> cases b <;> simp only at hs he <;> (try split at hs) <;> (try split at he) <;> omega
    · intro hp
      simp only [hp, if_true] at hs he
      cases a <;> cases b <;> simp only at hs he <;> (try split at hs) <;> (try split at he) <;> omega

theorem mem_arange_in_bounds (a b c : Option Int) (n : Nat) (s e st : Int)
    (h : pyIndices a b c n = some (s, e, st)) (x : Int) (hx : x ∈ arange s e st) :
    0 ≤ x ∧ x < n := by
  obtain ⟨h0, _, hp, hn⟩ := pyIndices_bounds a b c n s e st h
  obtain ⟨k, rfl, h1, h2⟩ := (mem_arange s e st x h0).mp hx
  rcases Int.lt_or_gt_of_ne h0 with hlt | hgt
  · have := hn hlt
    have := h2 hlt
    have hk : (k : Int) * st ≤ 0 := Int.mul_nonpos_of_nonneg_of_nonpos (Int.natCast_nonneg k) (Int.le_of_lt hlt)
    omega
  · have := hp hgt
    have := h1 hgt
    have hk : 0 ≤ (k : Int) * st := Int.mul_nonneg (Int.natCast_nonneg k) (Int.le_of_lt hgt)
    omega

theorem pyIndices_some (a b c : Option Int) (n : Int) (h0 : c.getD 1 ≠ 0) :
    ∃ s e, pyIndices a b c n = some (s, e, c.getD 1) := by
  unfold pyIndices
  simp [h0]

def clipIdx (v st n : Int) : Int :=
  if v < 0 then max (v + n) (if st < 0 then -1 else 0) else min v (if st < 0 then n - 1 else n)

def startOf (a : Option Int) (st n : Int) : Int :=
  match a with
  | none => if st < 0 then n - 1 else 0
  | some v => clipIdx v st n

def stopOf (b : Option Int) (st n : Int) : Int :=
  match b with
  | none => if st < 0 then -1 else n
  | some v => clipIdx v st n

/-- explicit start/stop of `slice.indices` -/
theorem pyIndices_eq (a b c : Option Int) (n s e st : Int) (h : pyIndices a b c n = some (s, e, st)) :
    st = c.getD 1 ∧ st ≠ 0 ∧ s = startOf a st n ∧ e = stopOf b st n := by
  unfold pyIndices at h
  simp only at h
  split at h
  · simp at h
  · rename_i h0
    simp only [Option.some.injEq, Prod.mk.injEq] at h
    obtain ⟨hs, he, hst⟩ := h
    subst hst
    refine ⟨rfl, h0, ?_, ?_⟩
    · cases a <;> simp only [startOf, clipIdx] at hs ⊢ <;> omega
    · cases b <;> simp only [stopOf, clipIdx] at he ⊢ <;> omega

theorem pyIndices_idem (a b c : Option Int) (n : Nat) (s e st : Int)
    (h : pyIndices a b c n = some (s, e, st))
    (ha : ∀ v, a = some v → -(n : Int) ≤ v)
    (hb : ∀ w, b = some w → -(n : Int) ≤ w)
    (hsp : ¬ (b = none ∧ st < 0)) :
    pyIndices (some s) (some e) (some st) n = some (s, e, st) := by
  obtain ⟨hst, h0, hs, he⟩ := pyIndices_eq a b c n s e st h
  have h0' : (some st : Option Int).getD 1 ≠ 0 := by simpa using h0
  obtain ⟨s', e', h'⟩ := pyIndices_some (some s) (some e) (some st) n h0'
  obtain ⟨_, _, hs', he'⟩ := pyIndices_eq _ _ _ _ _ _ _ h'
  simp only [Option.getD_some, startOf, stopOf, clipIdx] at h' hs' he'
  rw [h']
  simp only [Option.some.injEq, Prod.mk.injEq, and_true]
  cases a with
  | none =>
    cases b with
    | none =>
      simp only [startOf, stopOf, clipIdx] at hs he
      have : ¬ st < 0 := fun hh => hsp ⟨rfl, hh⟩
      constructor <;> omega
    | some w =>
      have := hb w rfl
      simp only [startOf, stopOf, clipIdx] at hs he
      constructor <;> omega
  | some v =>
    have := ha v rfl
    cases b with
    | none =>
      simp only [startOf, stopOf, clipIdx] at hs he
      have : ¬ st < 0 := fun hh => hsp ⟨rfl, hh⟩
      constructor <;> omega
    | some w =>
      have := hb w rfl
      simp only [startOf, stopOf, clipIdx] at hs he
      constructor <;> omega


theorem arange_same (x st : Int) : arange x x st = [] := by
  simp [arange, rangeLen]

theorem npSlice_same (v : Int) (c : Option Int) (n : Nat) (h0 : c.getD 1 ≠ 0) :
    npSlice (some v) (some v) c n = .ok [] := by
  obtain ⟨s, e, h⟩ := pyIndices_some (some v) (some v) c n h0
  obtain ⟨_, _, hs, he⟩ := pyIndices_eq _ _ _ _ _ _ _ h
  have : s = e := by rw [hs, he]; rfl
  subst this
  simp [npSlice, h, arange_same, pure, Except.pure]

theorem npSlice_of_indices (a b c : Option Int) (n : Nat) (s e st : Int)
    (h : pyIndices a b c n = some (s, e, st)) :
    npSlice a b c n = .ok ((arange s e st).map Int.toNat) := by
  simp [npSlice, h, pure, Except.pure]

theorem arange_nil_of_neg (s e st : Int) (hst : st < 0) (h : s ≤ e) : arange s e st = [] := by
  have : rangeLen s e st = 0 := by
    unfold rangeLen
    have h1 : ¬ (0 < st) := by omega
    have h2 : ¬ (e < s) := by omega
    simp [h1, hst, h2]
  simp [arange, this]

theorem npSlice_step_getD (a b c : Option Int) (n : Nat) :
    npSlice a b (some (c.getD 1)) n = npSlice a b c n := by
  simp [npSlice, pyIndices]

/-- `slice.indices` is idempotent on results that contain no -1 sentinel. -/
theorem pyIndices_idem_nonneg (a b c : Option Int) (n : Nat) (s e st : Int)
    (h : pyIndices a b c n = some (s, e, st)) (hs0 : 0 ≤ s) (he0 : 0 ≤ e) :
    pyIndices (some s) (some e) (some st) n = some (s, e, st) := by
  obtain ⟨h0, _, hp, hn⟩ := pyIndices_bounds a b c n s e st h
  have h0' : (some st : Option Int).getD 1 ≠ 0 := by simpa using h0
  obtain ⟨s', e', h'⟩ := pyIndices_some (some s) (some e) (some st) n h0'
  obtain ⟨_, _, hs', he'⟩ := pyIndices_eq _ _ _ _ _ _ _ h'
  simp only [Option.getD_some, startOf, stopOf, clipIdx] at h' hs' he'
  rw [h']
  simp only [Option.some.injEq, Prod.mk.injEq, and_true]
  rcases Int.lt_or_gt_of_ne h0 with hneg | hpos
  · have := hn hneg; constructor <;> omega
  · have := hp hpos; constructor <;> omega

/-- Re-reading a resolved slice: the core of `SliceIndexer.shaped_instance`.  Holds for every
slice and every extent (no bounds-check hypothesis): the -1 sentinels of `slice.indices` are not
put back into the slice. -/
theorem npSlice_shapedSlice (a b c : Option Int) (n : Nat) (a' b' : Option Int) (st' : Int)
    (hsh : shapedSlice a b (c.getD 1) n = .ok (a', b', st')) :
    npSlice a' b' (some st') n = npSlice a b c n := by
  unfold shapedSlice at hsh
  split at hsh
  · simp only [pure, Except.pure, Except.ok.injEq, Prod.mk.injEq] at hsh
    obtain ⟨rfl, rfl, rfl⟩ := hsh
    exact npSlice_step_getD a b c n
  · split at hsh
    · split at hsh
      · simp at hsh
      · rename_i s e st hpy
        obtain ⟨hst, h0, _, _⟩ := pyIndices_eq _ _ _ _ _ _ _ hpy
        simp only [Option.getD_some] at hst
        subst hst
        obtain ⟨_, _, hbp, hbn⟩ := pyIndices_bounds _ _ _ _ _ _ _ hpy
        rw [← npSlice_step_getD a b c n, npSlice_of_indices _ _ _ _ _ _ _ hpy]
        split at hsh
        · rename_i hneg
          have hb := hbn hneg
          split at hsh
          · -- start -1: nothing selected
            rename_i hs
            simp only [pure, Except.pure, Except.ok.injEq, Prod.mk.injEq] at hsh
            obtain ⟨rfl, rfl, rfl⟩ := hsh
            rw [npSlice_same 0 (some (c.getD 1)) n (by simpa using h0),
              arange_nil_of_neg s e (c.getD 1) hneg (by omega)]
            rfl
          · rename_i hs
            split at hsh
            · -- stop -1: open stop
              rename_i he
              simp only [pure, Except.pure, Except.ok.injEq, Prod.mk.injEq] at hsh
              obtain ⟨rfl, rfl, rfl⟩ := hsh
              have h0' : (some (c.getD 1) : Option Int).getD 1 ≠ 0 := by simpa using h0
              obtain ⟨s2, e2, h2⟩ := pyIndices_some (some s) none (some (c.getD 1)) n h0'
              obtain ⟨_, _, hs2, he2⟩ := pyIndices_eq _ _ _ _ _ _ _ h2
              simp only [Option.getD_some, startOf, stopOf, clipIdx] at h2 hs2 he2
              have q1 : s2 = s := by omega
              have q2 : e2 = e := by omega
              rw [q1, q2] at h2
              rw [npSlice_of_indices _ _ _ _ _ _ _ h2]
            · rename_i he
              simp only [pure, Except.pure, Except.ok.injEq, Prod.mk.injEq] at hsh
              obtain ⟨rfl, rfl, rfl⟩ := hsh
              rw [npSlice_of_indices _ _ _ _ _ _ _
                (pyIndices_idem_nonneg _ _ _ n s e _ hpy (by omega) (by omega))]
        · rename_i hnn
          simp only [pure, Except.pure, Except.ok.injEq, Prod.mk.injEq] at hsh
          obtain ⟨rfl, rfl, rfl⟩ := hsh
          have hpos : 0 < c.getD 1 := by omega
          have := hbp hpos
          rw [npSlice_of_indices _ _ _ _ _ _ _
            (pyIndices_idem_nonneg _ _ _ n s e _ hpy (by omega) (by omega))]
    · simp only [pure, Except.pure, Except.ok.injEq, Prod.mk.injEq] at hsh
      obtain ⟨rfl, rfl, rfl⟩ := hsh
      exact npSlice_step_getD a b c n

/-! ### bounds checks and shaped instances, per entry -/

theorem checkInt_ok (i : Int) (n : Nat) : checkInt i n = .ok () ↔ -(n : Int) ≤ i ∧ i < n := by
  unfold checkInt
  split
  · simp only [throw, throwThe, MonadExceptOf.throw, reduceCtorEq, false_iff]; omega
  · simp only [pure, Except.pure, true_iff]; omega

theorem wrapIdx_of_check (i : Int) (n : Nat) (h : checkInt i n = .ok ()) :
    wrapIdx n i = .ok (shapedInt i n).toNat := by
  have := (checkInt_ok i n).mp h
  unfold wrapIdx shapedInt
  have h1 : ¬ (i < -(n : Int) ∨ (n : Int) ≤ i) := by omega
  simp only [h1, if_false]
  split <;> rfl

theorem shapedInt_range (i : Int) (n : Nat) (h : -(n : Int) ≤ i ∧ i < n) :
    0 ≤ shapedInt i n ∧ shapedInt i n < n := by
  unfold shapedInt; split <;> omega

theorem shapedInt_idem (i : Int) (n : Nat) (h : -(n : Int) ≤ i ∧ i < n) :
    shapedInt (shapedInt i n) n = shapedInt i n := by
  have := shapedInt_range i n h
  generalize shapedInt i n = j at this
  unfold shapedInt; split <;> omega

theorem checkInt_shaped (i : Int) (n : Nat) (h : checkInt i n = .ok ()) :
    checkInt (shapedInt i n) n = .ok () := by
  have h' := (checkInt_ok i n).mp h
  have := shapedInt_range i n h'
  exact (checkInt_ok _ n).mpr (by omega)

theorem wrapIdx_shapedInt (i : Int) (n : Nat) (h : checkInt i n = .ok ()) :
    wrapIdx n (shapedInt i n) = wrapIdx n i := by
  rw [wrapIdx_of_check i n h, wrapIdx_of_check _ n (checkInt_shaped i n h),
    shapedInt_idem i n ((checkInt_ok i n).mp h)]

theorem checkArr_ok (d : List Int) (n : Nat) :
    checkArr d n = .ok () ↔ ∀ x ∈ d, -(n : Int) ≤ x ∧ x < n := by
  unfold checkArr
  split
  · rename_i h
    simp only [throw, throwThe, MonadExceptOf.throw, reduceCtorEq, false_iff]
    simp only [List.any_eq_true, decide_eq_true_eq] at h
    obtain ⟨x, hx, hb⟩ := h
    intro hall
    have := hall x hx
    omega
  · rename_i h
    simp only [pure, Except.pure, true_iff]
    intro x hx
    simp only [List.any_eq_true, decide_eq_true_eq, not_exists, not_and] at h
    have := h x hx
    omega

theorem wrapAll_of_check (d : List Int) (n : Nat) (h : checkArr d n = .ok ()) :
    wrapAll n d = .ok (d.map (fun x => (shapedInt x n).toNat)) := by
  have hall := (checkArr_ok d n).mp h
  clear h
  induction d with
  | nil => rfl
  | cons x xs ih =>
    have hx := hall x (List.mem_cons_self)
    have hxs : ∀ y ∈ xs, -(n : Int) ≤ y ∧ y < n := fun y hy => hall y (List.mem_cons_of_mem _ hy)
    simp only [wrapAll, wrapIdx_of_check x n ((checkInt_ok x n).mpr hx), ih hxs, bind, Except.bind,
      pure, Except.pure, List.map_cons]

theorem checkArr_shaped (d : List Int) (n : Nat) (h : checkArr d n = .ok ()) :
    checkArr (d.map (shapedInt · n)) n = .ok () := by
  have hall := (checkArr_ok d n).mp h
  refine (checkArr_ok _ n).mpr ?_
  intro y hy
  simp only [List.mem_map] at hy
  obtain ⟨x, hx, rfl⟩ := hy
  have := shapedInt_range x n (hall x hx)
  omega

theorem wrapAll_shaped (d : List Int) (n : Nat) (h : checkArr d n = .ok ()) :
    wrapAll n (d.map (shapedInt · n)) = wrapAll n d := by
  rw [wrapAll_of_check d n h, wrapAll_of_check _ n (checkArr_shaped d n h)]
  simp only [List.map_map]
  congr 1
  apply List.map_congr_left
  intro x hx
  simp only [Function.comp]
  rw [shapedInt_idem x n ((checkArr_ok d n).mp h x hx)]

theorem checkSlice_ok (a b : Option Int) (n : Nat) :
    checkSlice a b n = .ok () ↔
      (a = b ∨ ((∀ v, a = some v → -(n : Int) ≤ v ∧ v < n) ∧
                (∀ w, b = some w → -(n : Int) ≤ w ∧ w ≤ n))) := by
  unfold checkSlice
  split
  · rename_i h
    simp only [throw, throwThe, MonadExceptOf.throw, reduceCtorEq, false_iff]
    obtain ⟨hne, hoob⟩ := h
    intro hh
    rcases hh with hh | ⟨ha, hb⟩
    · exact hne hh
    · rcases hoob with h1 | h1
      · cases a with
        | none => simp [oobStart] at h1
        | some v => simp only [oobStart, decide_eq_true_eq] at h1; have := ha v rfl; omega
      · cases b with
        | none => simp [oobStop] at h1
        | some w => simp only [oobStop, decide_eq_true_eq] at h1; have := hb w rfl; omega
  · rename_i h
    simp only [pure, Except.pure, true_iff]
    by_cases hab : a = b
    · exact Or.inl hab
    · right
      simp only [hab, not_false_eq_true, true_and, not_or, ne_eq] at h
      constructor
      · intro v hv; subst hv
        have := h.1; simp only [oobStart, decide_eq_true_eq] at this; omega
      · intro w hw; subst hw
        have := h.2; simp only [oobStop, decide_eq_true_eq] at this; omega


/-! ### shaped slices pass the second bounds check -/

theorem shapedSlice_ok (a b : Option Int) (st : Int) (n : Nat) (h0 : st ≠ 0) :
    ∃ r, shapedSlice a b st n = .ok r := by
  unfold shapedSlice
  split
  · exact ⟨_, rfl⟩
  · split
    · obtain ⟨s, e, h⟩ := pyIndices_some a b (some st) n (by simpa using h0)
      simp only [Option.getD_some] at h
      rw [h]
      simp only
      split
      · split
        · exact ⟨_, rfl⟩
        · split <;> exact ⟨_, rfl⟩
      · exact ⟨_, rfl⟩
    · exact ⟨_, rfl⟩

theorem slice_low_of_check (a b : Option Int) (n : Nat) (h : checkSlice a b n = .ok ()) :
    (∃ v, a = some v ∧ b = some v) ∨
      ((∀ v, a = some v → -(n : Int) ≤ v) ∧ (∀ w, b = some w → -(n : Int) ≤ w)) := by
  rcases (checkSlice_ok a b n).mp h with hab | ⟨ha, hb⟩
  · subst hab
    cases a with
    | none => right; constructor <;> intro v hv <;> simp at hv
    | some v => left; exact ⟨v, rfl, rfl⟩
  · right
    exact ⟨fun v hv => (ha v hv).1, fun w hw => (hb w hw).1⟩

theorem checkSlice_shaped (a b : Option Int) (st : Int) (n : Nat) (a' b' : Option Int) (st' : Int)
    (hchk : checkSlice a b n = .ok ())
    (hsh : shapedSlice a b st n = .ok (a', b', st')) :
    checkSlice a' b' n = .ok () := by
  unfold shapedSlice at hsh
  split at hsh
  · simp only [pure, Except.pure, Except.ok.injEq, Prod.mk.injEq] at hsh
    obtain ⟨rfl, rfl, rfl⟩ := hsh; exact hchk
  · rename_i hsp
    split at hsh
    · split at hsh
      · simp at hsh
      · rename_i s e st2 hpy
        obtain ⟨hst, h0, hs, he⟩ := pyIndices_eq _ _ _ _ _ _ _ hpy
        obtain ⟨_, _, hbp, hbn⟩ := pyIndices_bounds _ _ _ _ _ _ _ hpy
        have hc := (checkSlice_ok a b n).mp hchk
        -- bounds of the resolved start/stop that follow from the first check
        have key : s = e ∨ (-(n : Int) ≤ s ∧ s < n ∧ -(n : Int) ≤ e ∧ e ≤ n) := by
          by_cases hse : s = e
          · exact Or.inl hse
          · right
            rcases hc with hab | ⟨ha, hb⟩
            · subst hab
              cases a with
              | none => simp only [startOf, stopOf] at hs he; omega
              | some v => exact absurd (by rw [hs, he]; rfl) hse
            · cases a with
              | none =>
                cases b with
                | none => simp only [startOf, stopOf] at hs he; omega
                | some w =>
                  have := hb w rfl
                  simp only [startOf, stopOf, clipIdx] at hs he; omega
              | some v =>
                have := ha v rfl
                cases b with
                | none => simp only [startOf, stopOf, clipIdx] at hs he; omega
                | some w =>
                  have := hb w rfl
                  simp only [startOf, stopOf, clipIdx] at hs he; omega
        refine (checkSlice_ok _ _ n).mpr ?_
        split at hsh
        · rename_i hneg
          have := hbn hneg
          split at hsh
          · simp only [pure, Except.pure, Except.ok.injEq, Prod.mk.injEq] at hsh
            obtain ⟨rfl, rfl, rfl⟩ := hsh
            exact Or.inl rfl
          · split at hsh
            · simp only [pure, Except.pure, Except.ok.injEq, Prod.mk.injEq] at hsh
              obtain ⟨rfl, rfl, rfl⟩ := hsh
              right
              constructor
              · intro v hv; simp only [Option.some.injEq] at hv; subst hv; omega
              · intro w hw; simp at hw
            · simp only [pure, Except.pure, Except.ok.injEq, Prod.mk.injEq] at hsh
              obtain ⟨rfl, rfl, rfl⟩ := hsh
              rcases key with hse | hk
              · left; rw [hse]
              · right
                constructor
                · intro v hv; simp only [Option.some.injEq] at hv; subst hv; omega
                · intro w hw; simp only [Option.some.injEq] at hw; subst hw; omega
        · simp only [pure, Except.pure, Except.ok.injEq, Prod.mk.injEq] at hsh
          obtain ⟨rfl, rfl, rfl⟩ := hsh
          rcases key with hse | hk
          · left; rw [hse]
          · right
            constructor
            · intro v hv; simp only [Option.some.injEq] at hv; subst hv; omega
            · intro w hw; simp only [Option.some.injEq] at hw; subst hw; omega
    · simp only [pure, Except.pure, Except.ok.injEq, Prod.mk.injEq] at hsh
      obtain ⟨rfl, rfl, rfl⟩ := hsh; exact hchk

/-! ### per entry: the shaped entry selects the same indices and passes the check again -/

def stepOk : Ix → Prop
  | .slice _ _ c => c.getD 1 ≠ 0
  | _ => True

theorem shapedIx_ok (x : Ix) (n : Nat) (h : stepOk x) : ∃ y, shapedIx x n = .ok y := by
  cases x with
  | int i => exact ⟨_, rfl⟩
  | slice a b c =>
    obtain ⟨⟨a', b', st'⟩, hr⟩ := shapedSlice_ok a b (c.getD 1) n h
    exact ⟨.slice a' b' (some st'), by simp [shapedIx, hr, bind, Except.bind, pure, Except.pure]⟩
  | arr sh d => exact ⟨_, rfl⟩
  | ellipsis => exact ⟨_, rfl⟩

theorem resolveAxis_shaped (l : Bool) (x y : Ix) (n : Nat)
    (hchk : checkIx x n = .ok ()) (hsh : shapedIx x n = .ok y) :
    resolveAxis l n y = resolveAxis l n x ∧ checkIx y n = .ok () := by
  cases x with
  | int i =>
    simp only [shapedIx, pure, Except.pure, Except.ok.injEq] at hsh
    subst hsh
    simp only [checkIx] at hchk
    exact ⟨by simp only [resolveAxis, wrapIdx_shapedInt i n hchk], checkInt_shaped i n hchk⟩
  | slice a b c =>
    simp only [checkIx] at hchk
    simp only [shapedIx, bind, Except.bind] at hsh
    split at hsh
    · simp at hsh
    · rename_i r hr
      obtain ⟨a', b', st'⟩ := r
      simp only [pure, Except.pure, Except.ok.injEq] at hsh
      subst hsh
      constructor
      · simp only [resolveAxis]
        rw [npSlice_shapedSlice a b c n a' b' st' hr]
      · exact checkSlice_shaped a b _ n a' b' st' hchk hr
  | arr sh d =>
    simp only [shapedIx, pure, Except.pure, Except.ok.injEq] at hsh
    subst hsh
    simp only [checkIx] at hchk
    refine ⟨?_, checkArr_shaped d n hchk⟩
    simp only [resolveAxis, wrapAll_shaped d n hchk, List.map_map]
    rfl
  | ellipsis =>
    simp only [shapedIx, pure, Except.pure, Except.ok.injEq] at hsh
    subst hsh
    exact ⟨rfl, rfl⟩

theorem shapedIx_kind (x y : Ix) (n : Nat) (hsh : shapedIx x n = .ok y) :
    isEll y = isEll x ∧ isAdvIx y = isAdvIx x ∧ advShape? y = advShape? x := by
  cases x with
  | int i => simp only [shapedIx, pure, Except.pure, Except.ok.injEq] at hsh; subst hsh; exact ⟨rfl, rfl, rfl⟩
  | slice a b c =>
    simp only [shapedIx, bind, Except.bind] at hsh
    split at hsh
    · simp at hsh
    · simp only [pure, Except.pure, Except.ok.injEq] at hsh; subst hsh; exact ⟨rfl, rfl, rfl⟩
  | arr sh d => simp only [shapedIx, pure, Except.pure, Except.ok.injEq] at hsh; subst hsh; exact ⟨rfl, rfl, rfl⟩
  | ellipsis => simp only [shapedIx, pure, Except.pure, Except.ok.injEq] at hsh; subst hsh; exact ⟨rfl, rfl, rfl⟩

/-! ### list level -/

theorem shapedAll_ok : ∀ (xs : List Ix) (ns : List Nat), (∀ x ∈ xs, stepOk x) →
    ∃ ys, shapedAll xs ns = .ok ys
  | [], _, _ => ⟨[], by simp [shapedAll, pure, Except.pure]⟩
  | _ :: _, [], _ => ⟨[], by simp [shapedAll, pure, Except.pure]⟩
  | x :: xs, n :: ns, h => by
    obtain ⟨y, hy⟩ := shapedIx_ok x n (h x List.mem_cons_self)
    obtain ⟨ys, hys⟩ := shapedAll_ok xs ns (fun z hz => h z (List.mem_cons_of_mem _ hz))
    exact ⟨y :: ys, by simp [shapedAll, hy, hys, bind, Except.bind, pure, Except.pure]⟩

theorem shapedAll_spec (l : Bool) (f : List Ix) : ∀ (xs : List Ix) (ns : List Nat) (ys : List Ix),
    xs.length ≤ ns.length → checkAll xs ns = .ok () → shapedAll xs ns = .ok ys →
    resolveAll l (ys ++ f) ns = resolveAll l (xs ++ f) ns ∧ checkAll ys ns = .ok () ∧
      ys.map isEll = xs.map isEll ∧ ys.map isAdvIx = xs.map isAdvIx ∧
      ys.map advShape? = xs.map advShape?
  | [], ns, ys, _, _, hsh => by
    simp only [shapedAll, pure, Except.pure, Except.ok.injEq] at hsh
    subst hsh
    cases ns <;> simp [checkAll, pure, Except.pure]
  | x :: xs, [], ys, hlen, _, _ => by simp at hlen
  | x :: xs, n :: ns, ys, hlen, hchk, hsh => by
    simp only [checkAll, bind, Except.bind] at hchk
    split at hchk
    · simp at hchk
    · rename_i u hcx
      cases u
      simp only [shapedAll, bind, Except.bind] at hsh
      split at hsh
      · simp at hsh
      · rename_i y hy
        split at hsh
        · simp at hsh
        · rename_i ys' hys'
          simp only [pure, Except.pure, Except.ok.injEq] at hsh
          subst hsh
          obtain ⟨hr, hc⟩ := resolveAxis_shaped l x y n hcx hy
          obtain ⟨k1, k2, k3⟩ := shapedIx_kind x y n hy
          obtain ⟨ih1, ih2, ih3, ih4, ih5⟩ := shapedAll_spec l f xs ns ys'
            (by simpa using hlen) hchk hys'
          refine ⟨?_, ?_, ?_, ?_, ?_⟩
          · simp only [List.cons_append, resolveAll, hr, ih1]
          · simp only [checkAll, hc, ih2, bind, Except.bind]
          · simp only [List.map_cons, k1, ih3]
          · simp only [List.map_cons, k2, ih4]
          · simp only [List.map_cons, k3, ih5]

theorem map_length_eq {α β} (f : α → β) (xs ys : List α) (h : ys.map f = xs.map f) :
    ys.length = xs.length := by
  have := congrArg List.length h
  simpa using this

theorem countP_of_map_eq (xs ys : List Ix) (h : ys.map isEll = xs.map isEll) :
    ys.countP isEll = xs.countP isEll := by
  have h1 : ∀ l : List Ix, l.countP isEll = (l.map isEll).countP id := by
    intro l; rw [List.countP_map]; rfl
  rw [h1, h1, h]

theorem filterMap_of_map_eq {α β} (g : α → Option β) (xs ys : List α) (h : ys.map g = xs.map g) :
    ys.filterMap g = xs.filterMap g := by
  have h1 : ∀ l : List α, l.filterMap g = (l.map g).filterMap id := by
    intro l; rw [List.filterMap_map]; rfl
  rw [h1, h1, h]

/-- NumPy on the resolved tuple is NumPy on the tuple as written. -/
theorem npIndex_shaped (xs ys : List Ix) (shp : List Nat)
    (hne : xs.countP isEll = 0) (hlen : xs.length ≤ shp.length)
    (hchk : checkAll xs shp = .ok ()) (hsh : shapedAll xs shp = .ok ys) :
    npIndex shp (.tup ys) = npIndex shp (.tup xs) ∧ checkAll ys shp = .ok () := by
  obtain ⟨_, hc, k1, k2, k3⟩ := shapedAll_spec false [] xs shp ys hlen hchk hsh
  refine ⟨?_, hc⟩
  have hl : ys.length = xs.length := map_length_eq _ _ _ k1
  have hcnt : ys.countP isEll = 0 := by rw [countP_of_map_eq xs ys k1, hne]
  have hk : ¬ (xs.length > shp.length) := by omega
  simp only [npIndex, specEntries, expand, hne, hcnt, hl, Nat.sub_zero, Nat.lt_irrefl, if_false,
    gt_iff_lt, Nat.not_lt_zero, hk, Nat.zero_ne_one, bind, Except.bind, pure,
    Except.pure]
  have hshape : ∀ f : List Ix, ixShapes (ys ++ f) = ixShapes (xs ++ f) := by
    intro f
    simp only [ixShapes, List.filterMap_append, filterMap_of_map_eq advShape? xs ys k3]
  have hem : ∀ f : List Ix, emptyBlock (ys ++ f) = emptyBlock (xs ++ f) := by
    intro f; simp only [emptyBlock, hshape]
  have hcons : advConsecutive ys = advConsecutive xs := by
    simp only [advConsecutive, k2]
  rw [hem, hcons]
  obtain ⟨hr, _⟩ := shapedAll_spec (emptyBlock (xs ++ List.replicate (shp.length - xs.length) fullSlice))
    (List.replicate (shp.length - xs.length) fullSlice) xs shp ys hlen hchk hsh
  rw [hr]


theorem any_isEll_false_countP (xs : List Ix) (h : xs.any isEll = false) : xs.countP isEll = 0 := by
  rw [List.countP_eq_zero]
  intro x hx hex
  have := List.any_eq_false.mp h x hx
  exact this hex

theorem omMulti_refines (xs : List Ix) (shp : List Nat) (flat : Bool) (out : Out)
    (hne : xs.any isEll = false) (hstep : ∀ x ∈ xs, stepOk x)
    (hflat : flat = true → shp.length = 1)
    (h : omMulti xs shp flat = .ok out) :
    out.positions = (npIndex shp (.tup xs)).map (fun r => natsToInts r.1) ∧
      out.rshape = (npIndex shp (.tup xs)).map (·.2) := by
  unfold omMulti at h
  simp only [bind, Except.bind, pure, Except.pure] at h
  split at h
  · simp [throw, throwThe, MonadExceptOf.throw] at h
  · rename_i hc1
    split at h
    · simp [throw, throwThe, MonadExceptOf.throw] at h
    · rename_i hc2
      split at h
      · simp at h
      · rename_i u3 hchk
        cases u3
        have hlen : xs.length ≤ shp.length := by
          cases flat with
          | true =>
            have := hflat rfl
            simp only [true_and, gt_iff_lt, Nat.not_lt] at hc1
            omega
          | false => simp at hc2; omega
        obtain ⟨ys, hys⟩ := shapedAll_ok xs shp hstep
        obtain ⟨hnp, hc⟩ := npIndex_shaped xs ys shp (any_isEll_false_countP xs hne) hlen hchk hys
        simp only [Except.ok.injEq] at h
        subst h
        simp only [hys, hc, hnp, and_self]


/-! ### rank-1 sources -/

theorem strides_single (N : Nat) : strides [N] = [1] := rfl

theorem assemble_single_adv0 (k : Nat) (c : Bool) :
    assemble c [(Ax.adv [] [k], 1)] = .ok ([k], []) := by
  have hB : bcastAll (advShapes [(Ax.adv [] [k], 1)]) = some [] := rfl
  simp only [assemble, hB]
  have hoff : advOffsets [] [(Ax.adv [] [k], 1)] = [k] := by
    simp [advOffsets, bcastData, padShape, prod]
  have h1 : List.takeWhile (fun (p : Ax × Nat) => !p.1.isAdv) [(Ax.adv [] [k], 1)] = [] := rfl
  have h2 : List.dropWhile (fun (p : Ax × Nat) => p.1.isAdv)
      (List.dropWhile (fun (p : Ax × Nat) => !p.1.isAdv) [(Ax.adv [] [k], 1)]) = [] := rfl
  have h3 : slicesOf [(Ax.adv [] [k], 1)] = [] := rfl
  rw [hoff, h1, h2, h3]
  cases c <;> simp [slicesOf, outer, lens, pure, Except.pure]

theorem npIndex_int_rank1 (N : Nat) (j : Int) :
    npIndex [N] (.one (.int j)) = (wrapIdx N j).map (fun k => ([k], [])) := by
  have he : expand 1 [Ix.int j] = .ok [Ix.int j] := rfl
  have hem : emptyBlock [Ix.int j] = false := rfl
  simp only [npIndex, specEntries, List.length_singleton, he, hem, bind, Except.bind, resolveAll,
    resolveAxis, pure, Except.pure, strides_single]
  cases h : wrapIdx N j with
  | error e => rfl
  | ok k => simp only [List.zip_cons_cons, List.zip_nil_right, assemble_single_adv0, Except.map]


theorem flatMap_singleton_id {α} (l : List α) (f : α → α) (hf : ∀ x, f x = x) :
    l.flatMap (fun i => [f i]) = l := by
  induction l with
  | nil => rfl
  | cons x xs ih => simp [List.flatMap_cons, hf, ih]

theorem flatMap_pure_id {α} (l : List α) : l.flatMap (fun a => [a]) = l :=
  flatMap_singleton_id l id (fun _ => rfl)

theorem assemble_single_slice (l : List Nat) (c : Bool) :
    assemble c [(Ax.sl l, 1)] = .ok (l, [l.length]) := by
  have hB : bcastAll (advShapes [(Ax.sl l, 1)]) = some [] := rfl
  simp only [assemble, hB]
  have hoff : advOffsets [] [(Ax.sl l, 1)] = [0] := rfl
  have h1 : List.takeWhile (fun (p : Ax × Nat) => !p.1.isAdv) [(Ax.sl l, 1)] = [(Ax.sl l, 1)] := rfl
  have h2 : List.dropWhile (fun (p : Ax × Nat) => p.1.isAdv)
      (List.dropWhile (fun (p : Ax × Nat) => !p.1.isAdv) [(Ax.sl l, 1)]) = [] := rfl
  have h3 : slicesOf [(Ax.sl l, 1)] = [(l, 1)] := rfl
  have h4 : slicesOf ([] : List (Ax × Nat)) = [] := rfl
  have ho : outer [(l, 1)] = l := by
    simp only [outer, List.map_cons, List.map_nil, Nat.mul_one, Nat.add_zero]
    exact flatMap_singleton_id l id (fun _ => rfl)
  have hn : outer [] = [0] := rfl
  rw [hoff, h1, h2, h3, h4]
  cases c <;>
    simp only [if_true, Bool.false_eq_true, if_false, ho, hn, lens, List.map_cons, List.map_nil,
      List.flatMap_cons, List.flatMap_nil, List.append_nil, Nat.add_zero, Nat.zero_add,
      List.nil_append, pure, Except.pure, List.map_id', flatMap_pure_id]

theorem npIndex_slice_rank1 (N : Nat) (a b c : Option Int) :
    npIndex [N] (.one (.slice a b c)) = (npSlice a b c N).map (fun l => (l, [l.length])) := by
  have he : expand 1 [Ix.slice a b c] = .ok [Ix.slice a b c] := rfl
  have hem : emptyBlock [Ix.slice a b c] = false := rfl
  simp only [npIndex, specEntries, List.length_singleton, he, hem, bind, Except.bind, resolveAll,
    resolveAxis, pure, Except.pure, strides_single]
  cases h : npSlice a b c N with
  | error e => rfl
  | ok k => simp only [List.zip_cons_cons, List.zip_nil_right, assemble_single_slice, Except.map]

theorem flatMap_range_take1 {α} (l : List α) :
    (List.range l.length).flatMap (fun i => (l.drop i).take 1) = l := by
  induction l with
  | nil => rfl
  | cons x xs ih =>
    rw [List.length_cons, List.range_succ_eq_map, List.flatMap_cons, List.flatMap_map]
    simp only [List.drop_zero, List.take_succ_cons, List.take_zero, List.drop_succ_cons,
      List.singleton_append, List.cons.injEq, true_and]
    exact ih

theorem zipWith_add_zero (l : List Nat) :
    List.zipWith (· + ·) l (List.replicate l.length 0) = l := by
  induction l with
  | nil => rfl
  | cons x xs ih => simp [List.replicate_succ, ih]

theorem assemble_single_arr (l : List Nat) (c : Bool) :
    assemble c [(Ax.adv [l.length] l, 1)] = .ok (l, [l.length]) := by
  have hB : bcastAll (advShapes [(Ax.adv [l.length] l, 1)]) = some [l.length] := rfl
  simp only [assemble, hB]
  have hoff : advOffsets [l.length] [(Ax.adv [l.length] l, 1)] = l := by
    have hp : padShape [l.length] [l.length] = [l.length] := rfl
    simp only [advOffsets, hp, bcastData, if_true, prod, List.foldr, Nat.mul_one]
    rw [flatMap_range_take1 l]
    simp only [Nat.mul_one, List.map_id']
    exact zipWith_add_zero l
  have h1 : List.takeWhile (fun (p : Ax × Nat) => !p.1.isAdv) [(Ax.adv [l.length] l, 1)] = [] := rfl
  have h2 : List.dropWhile (fun (p : Ax × Nat) => p.1.isAdv)
      (List.dropWhile (fun (p : Ax × Nat) => !p.1.isAdv) [(Ax.adv [l.length] l, 1)]) = [] := rfl
  have h3 : slicesOf [(Ax.adv [l.length] l, 1)] = [] := rfl
  rw [hoff, h1, h2, h3]
  have h4 : slicesOf ([] : List (Ax × Nat)) = [] := rfl
  cases c <;>
    simp only [h4, if_true, outer, lens, List.map_cons, List.map_nil, List.flatMap_cons,
      List.flatMap_nil, List.append_nil, Nat.add_zero, Nat.zero_add, List.nil_append, pure,
      Except.pure, Bool.false_eq_true, if_false, flatMap_pure_id]


theorem wrapAll_length (N : Nat) : ∀ (d : List Int) (l : List Nat), wrapAll N d = .ok l → l.length = d.length
  | [], l, h => by simp only [wrapAll, pure, Except.pure, Except.ok.injEq] at h; subst h; rfl
  | x :: xs, l, h => by
    simp only [wrapAll, bind, Except.bind] at h
    split at h
    · simp at h
    · split at h
      · simp at h
      · rename_i js hjs
        simp only [pure, Except.pure, Except.ok.injEq] at h
        subst h
        simp [wrapAll_length N xs js hjs]

theorem npIndex_arr_rank1 (N : Nat) (d : List Int) :
    npIndex [N] (.one (.arr [d.length] d)) = (wrapAll N d).map (fun l => (l, [d.length])) := by
  have he : expand 1 [Ix.arr [d.length] d] = .ok [Ix.arr [d.length] d] := rfl
  have hem : emptyBlock [Ix.arr [d.length] d] = (d.length * 1 == 0) := rfl
  simp only [npIndex, specEntries, List.length_singleton, he, hem, bind, Except.bind, resolveAll,
    resolveAxis, pure, Except.pure, strides_single, Nat.mul_one]
  cases d with
  | nil =>
    simp only [List.length_nil, beq_self_eq_true, if_true, List.map_nil, wrapAll, pure, Except.pure,
      Except.map, List.zip_cons_cons, List.zip_nil_right]
    exact assemble_single_arr [] _
  | cons x xs =>
    have : (List.length (x :: xs) == 0) = false := by simp
    simp only [this, Bool.false_eq_true, if_false]
    cases h : wrapAll N (x :: xs) with
    | error e => rfl
    | ok l =>
      have hl := wrapAll_length N _ l h
      simp only [List.zip_cons_cons, List.zip_nil_right, Except.map]
      rw [← hl]
      exact assemble_single_arr l _

/-! ### the rank-1 slice fast path `np.arange(*slc.indices(sys.maxsize))` -/

theorem rangeLen_le (s e st : Int) (N : Nat)
    (hp : 0 < st → 0 ≤ s ∧ e ≤ N) (hn : st < 0 → s ≤ (N : Int) - 1 ∧ -1 ≤ e) :
    rangeLen s e st ≤ N := by
  rcases Int.lt_trichotomy st 0 with hneg | hz | hpos
  · apply Nat.le_of_not_lt
    intro hlt
    have := (lt_rangeLen_neg s e st hneg N).mp hlt
    have := hn hneg
    have hk : (N : Int) * st ≤ (N : Int) * (-1) :=
      Int.mul_le_mul_of_nonneg_left (by omega) (Int.natCast_nonneg N)
    omega
  · subst hz; simp [rangeLen]
  · apply Nat.le_of_not_lt
    intro hlt
    have := (lt_rangeLen_pos s e st hpos N).mp hlt
    have := hp hpos
    have hk : (N : Int) * 1 ≤ (N : Int) * st :=
      Int.mul_le_mul_of_nonneg_left (by omega) (Int.natCast_nonneg N)
    omega

theorem natsToInts_toNat (l : List Int) (h : ∀ x ∈ l, 0 ≤ x) :
    natsToInts (l.map Int.toNat) = l := by
  induction l with
  | nil => rfl
  | cons x xs ih =>
    have hx := h x List.mem_cons_self
    simp only [natsToInts, List.map_cons, List.map_map, List.cons.injEq] at ih ⊢
    refine ⟨?_, ?_⟩
    · show ((x.toNat : Nat) : Int) = x
      omega
    · simpa [natsToInts] using ih (fun y hy => h y (List.mem_cons_of_mem _ hy))

/-- The fast path agrees with NumPy's reading of the same (already resolved) slice. -/
theorem sliceFast_eq (a b : Option Int) (st : Int) (N : Nat) (h0 : st ≠ 0)
    (hN : (N : Int) < maxsize) (hA : N ≤ allocLimit)
    (hchk : checkSlice a b N = .ok ())
    (hnn : ¬ (b = none ∧ st < 0) → ((∃ v, a = some v ∧ b = some v) ∨
      ((∀ v, a = some v → 0 ≤ v) ∧ (∀ w, b = some w → 0 ≤ w))))
    (hopen : ¬ (st < 0 ∧ a = none ∧ b ≠ none))
    (hstop : b = none → st < 0) :
    sliceFast a b st N = (npSlice a b (some st) N).map natsToInts := by
  unfold sliceFast
  split
  · rfl
  · rename_i hsp
    have h0' : (some st : Option Int).getD 1 ≠ 0 := by simpa using h0
    obtain ⟨s, e, h1⟩ := pyIndices_some a b (some st) maxsize h0'
    obtain ⟨s2, e2, h2⟩ := pyIndices_some a b (some st) N h0'
    simp only [Option.getD_some] at h1 h2
    obtain ⟨_, _, hs, he⟩ := pyIndices_eq _ _ _ _ _ _ _ h1
    obtain ⟨_, _, hs2, he2⟩ := pyIndices_eq _ _ _ _ _ _ _ h2
    obtain ⟨_, _, hbp, hbn⟩ := pyIndices_bounds _ _ _ _ _ _ _ h2
    have hlen : rangeLen s2 e2 st ≤ N :=
      rangeLen_le s2 e2 st N (fun h => by have := hbp h; omega) (fun h => by have := hbn h; omega)
    have hmem : ∀ x ∈ arange s2 e2 st, 0 ≤ x := fun x hx => (mem_arange_in_bounds _ _ _ _ _ _ _ h2 x hx).1
    have key : arange s e st = arange s2 e2 st := by
      rcases hnn hsp with ⟨v, rfl, rfl⟩ | ⟨ha, hb⟩
      · have q1 : s = e := by rw [hs, he]; rfl
        have q2 : s2 = e2 := by rw [hs2, he2]; rfl
        rw [q1, q2, arange_same, arange_same]
      · have hc := (checkSlice_ok a b N).mp hchk
        cases a with
        | none =>
          cases b with
          | none =>
            have := hstop rfl
            exact absurd ⟨rfl, this⟩ hsp
          | some w =>
            have hpos : ¬ st < 0 := fun h => hopen ⟨h, rfl, by simp⟩
            have := hb w rfl
            rcases hc with hc | ⟨_, hcb⟩
            · simp at hc
            · have := hcb w rfl
              simp only [startOf, stopOf, clipIdx] at hs he hs2 he2
              have e1 : s = s2 := by omega
              have e3 : e = e2 := by omega
              rw [e1, e3]
        | some v =>
          have := ha v rfl
          cases b with
          | none =>
            have := hstop rfl
            exact absurd ⟨rfl, this⟩ hsp
          | some w =>
            have := hb w rfl
            rcases hc with hc | ⟨hca, hcb⟩
            · simp only [Option.some.injEq] at hc
              subst hc
              have q1 : s = e := by rw [hs, he]; rfl
              have q2 : s2 = e2 := by rw [hs2, he2]; rfl
              rw [q1, q2, arange_same, arange_same]
            · have := hca v rfl
              have := hcb w rfl
              simp only [startOf, stopOf, clipIdx] at hs he hs2 he2
              have e1 : s = s2 := by omega
              by_cases hw : st < 0 ∧ w = N
              · rw [e1, arange_nil_of_neg s2 e st hw.1 (by omega),
                  arange_nil_of_neg s2 e2 st hw.1 (by omega)]
              · have e3 : e = e2 := by omega
                rw [e1, e3]
    have hlen' : ¬ (rangeLen s e st > allocLimit) := by
      have : rangeLen s e st = rangeLen s2 e2 st := by
        rw [← arange_length, ← arange_length, key]
      omega
    simp only [h1, h2, npSlice, hlen', if_false, key, pure, Except.pure, Except.map]
    rw [natsToInts_toNat _ hmem]


theorem shapedSlice_props (a b : Option Int) (st : Int) (N : Nat) (a' b' : Option Int) (st' : Int)
    (hsh : shapedSlice a b st N = .ok (a', b', st')) :
    st' = st ∧
    (¬ (b' = none ∧ st < 0) → ((∃ v, a' = some v ∧ b' = some v) ∨
      ((∀ v, a' = some v → 0 ≤ v) ∧ (∀ w, b' = some w → 0 ≤ w)))) ∧
    (b' = none → st < 0) ∧ ¬ (st < 0 ∧ a' = none ∧ b' ≠ none) := by
  unfold shapedSlice at hsh
  split at hsh
  · rename_i hsp
    simp only [pure, Except.pure, Except.ok.injEq, Prod.mk.injEq] at hsh
    obtain ⟨rfl, rfl, rfl⟩ := hsh
    exact ⟨rfl, fun h => absurd hsp h, fun _ => hsp.2, fun h => h.2.2 hsp.1⟩
  · rename_i hsp
    split at hsh
    · split at hsh
      · simp at hsh
      · rename_i s e st2 hpy
        obtain ⟨hst, h0, _, _⟩ := pyIndices_eq _ _ _ _ _ _ _ hpy
        obtain ⟨_, _, hbp, hbn⟩ := pyIndices_bounds _ _ _ _ _ _ _ hpy
        simp only [Option.getD_some] at hst
        subst hst
        split at hsh
        · rename_i hneg
          split at hsh
          · simp only [pure, Except.pure, Except.ok.injEq, Prod.mk.injEq] at hsh
            obtain ⟨rfl, rfl, rfl⟩ := hsh
            exact ⟨rfl, fun _ => Or.inl ⟨0, rfl, rfl⟩, fun h => by simp at h, fun h => by simp at h⟩
          · rename_i hs
            split at hsh
            · simp only [pure, Except.pure, Except.ok.injEq, Prod.mk.injEq] at hsh
              obtain ⟨rfl, rfl, rfl⟩ := hsh
              exact ⟨rfl, fun h => absurd ⟨rfl, hneg⟩ h, fun _ => hneg, fun h => by simp at h⟩
            · rename_i he
              simp only [pure, Except.pure, Except.ok.injEq, Prod.mk.injEq] at hsh
              obtain ⟨rfl, rfl, rfl⟩ := hsh
              refine ⟨rfl, fun _ => Or.inr ⟨?_, ?_⟩, fun h => by simp at h, fun h => by simp at h⟩
              · intro v hv; simp only [Option.some.injEq] at hv; subst hv; omega
              · intro w hw; simp only [Option.some.injEq] at hw; subst hw; omega
        · rename_i hnn
          simp only [pure, Except.pure, Except.ok.injEq, Prod.mk.injEq] at hsh
          obtain ⟨rfl, rfl, rfl⟩ := hsh
          have := hbp (by omega)
          refine ⟨rfl, fun _ => Or.inr ⟨?_, ?_⟩, fun h => by simp at h, fun h => by simp at h⟩
          · intro v hv; simp only [Option.some.injEq] at hv; subst hv; omega
          · intro w hw; simp only [Option.some.injEq] at hw; subst hw; omega
    · rename_i hbr
      simp only [pure, Except.pure, Except.ok.injEq, Prod.mk.injEq] at hsh
      obtain ⟨rfl, rfl, rfl⟩ := hsh
      simp only [not_or] at hbr
      obtain ⟨hna, hbn, hnb, hop⟩ := hbr
      refine ⟨rfl, fun _ => Or.inr ⟨?_, ?_⟩, fun h => absurd h hbn, fun h => hop ⟨h.2.1, h.1⟩⟩
      · intro v hv; subst hv; simp only [isNeg, decide_eq_true_eq] at hna; omega
      · intro w hw; subst hw; simp only [isNeg, decide_eq_true_eq] at hnb; omega

end OMV.C05
