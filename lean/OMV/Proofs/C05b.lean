/-
Helper lemmas for the C05 property theorems, part 2: rank-1 refinement of `omOne`, arithmetic
progressions and `array2slice`, the flat position formula for basic indexing, `ravel`, ellipsis
expansion.  Core Lean only.
-/
import OMV.Model.C05
import OMV.Proofs.C05

set_option linter.unusedSimpArgs false

namespace OMV.C05

theorem rank1_shape (srcShape : List Nat) (flat : Bool) (hr : flat = true ∨ srcShape.length = 1) :
    ∃ N, (if flat = true then [prod srcShape] else srcShape) = [N] := by
  cases flat with
  | true => exact ⟨_, rfl⟩
  | false =>
    rcases hr with h | h
    · simp at h
    · match srcShape, h with
      | [N], _ => exact ⟨N, rfl⟩

theorem prod_single (N : Nat) : prod [N] = N := by simp [prod]

theorem omOne_int_rank1 (i : Int) (N : Nat) (flat ts : Bool) (out : Out)
    (h : omOne (.int i) [N] flat ts = .ok out) :
    out.positions = (npIndex [N] (.one (.int i))).map (fun r => natsToInts r.1) ∧
      out.rshape = (npIndex [N] (.one (.int i))).map (·.2) := by
  simp only [omOne, List.headD_cons, bind, Except.bind, pure, Except.pure] at h
  split at h
  · simp at h
  · rename_i u hchk
    cases u
    simp only [Except.ok.injEq] at h
    subst h
    have hr := shapedInt_range i N ((checkInt_ok i N).mp hchk)
    simp only [npIndex_int_rank1, wrapIdx_of_check i N hchk,
      wrapIdx_of_check _ N (checkInt_shaped i N hchk), Except.map, natsToInts, List.map_cons,
      List.map_nil]
    refine ⟨?_, trivial⟩
    congr 2
    show shapedInt i N = ((shapedInt i N).toNat : Int)
    omega

theorem omOne_arr_rank1 (d : List Int) (N : Nat) (flat : Bool) (out : Out)
    (h : omOne (.arr [d.length] d) [N] flat false = .ok out) :
    out.positions = (npIndex [N] (.one (.arr [d.length] d))).map (fun r => natsToInts r.1) ∧
      out.rshape = (npIndex [N] (.one (.arr [d.length] d))).map (·.2) := by
  simp only [omOne, List.headD_cons, List.length_singleton, Nat.le_refl, if_true, Bool.false_eq_true,
    if_false, prod_single, bind, Except.bind, pure, Except.pure, or_true] at h
  split at h
  · simp at h
  · rename_i u hchk
    cases u
    simp only [Except.ok.injEq] at h
    subst h
    simp only [npIndex_arr_rank1, wrapAll_of_check d N hchk, Except.map]
    refine ⟨?_, trivial⟩
    congr 1
    have hall := (checkArr_ok d N).mp hchk
    simp only [natsToInts, List.map_map]
    apply List.map_congr_left
    intro x hx
    have := shapedInt_range x N (hall x hx)
    show shapedInt x N = ((shapedInt x N).toNat : Int)
    omega


theorem omOne_slice_rank1 (a b c : Option Int) (N : Nat) (flat ts : Bool) (out : Out)
    (h0 : c.getD 1 ≠ 0) (hN : (N : Int) < maxsize) (hA : N ≤ allocLimit)
    (h : omOne (.slice a b c) [N] flat ts = .ok out) :
    out.positions = (npIndex [N] (.one (.slice a b c))).map (fun r => natsToInts r.1) ∧
      out.rshape = (npIndex [N] (.one (.slice a b c))).map (·.2) := by
  simp only [omOne, List.headD_cons, List.length_singleton, if_true, prod_single, bind, Except.bind,
    pure, Except.pure] at h
  split at h
  · simp at h
  · rename_i u hchk
    cases u
    simp only [Except.ok.injEq] at h
    subst h
    obtain ⟨⟨a', b', st'⟩, hsh⟩ := shapedSlice_ok a b (c.getD 1) N h0
    obtain ⟨hst, hnn, hstop, hopen⟩ := shapedSlice_props a b (c.getD 1) N a' b' st' hsh
    subst hst
    have hpres := npSlice_shapedSlice a b c N a' b' (c.getD 1) hsh
    have hchk' := checkSlice_shaped a b _ N a' b' (c.getD 1) hchk hsh
    have hfast := sliceFast_eq a' b' (c.getD 1) N h0 hN hA hchk' hnn hopen hstop
    simp only [hsh, hfast, npIndex_slice_rank1, hpres]
    cases npSlice a b c N <;> (constructor <;> first | rfl | trivial)

/-! ### array2slice: arithmetic progressions -/

/-- arithmetic progression of length `len` -/
def prog (x st : Int) (len : Nat) : List Int := (List.range len).map (fun (k : Nat) => x + (k : Int) * st)

theorem prog_succ (x st : Int) (len : Nat) : prog x st (len + 1) = x :: prog (x + st) st len := by
  simp only [prog, List.range_succ_eq_map, List.map_cons, List.map_map]
  congr 1
  · simp
  apply List.map_congr_left
  intro k _
  simp only [Function.comp, Nat.succ_eq_add_one, Int.natCast_add, Int.natCast_one, Int.add_mul,
    Int.one_mul]
  omega

theorem constDiff_prog (x st : Int) : ∀ len, constDiff st (prog x st len) = true := by
  intro len
  induction len generalizing x with
  | zero => rfl
  | succ n ih =>
    rw [prog_succ]
    cases n with
    | zero => rfl
    | succ m =>
      rw [prog_succ]
      simp only [constDiff, Bool.and_eq_true, beq_iff_eq]
      refine ⟨by omega, ?_⟩
      have := ih (x + st)
      rw [prog_succ] at this
      exact this

theorem eq_prog_of_constDiff (st : Int) : ∀ (a : List Int) (x : Int), constDiff st (x :: a) = true →
    x :: a = prog x st (a.length + 1)
  | [], x, _ => by simp [prog]
  | y :: rest, x, h => by
    simp only [constDiff, Bool.and_eq_true, beq_iff_eq] at h
    obtain ⟨hxy, hr⟩ := h
    have ih := eq_prog_of_constDiff st rest y hr
    rw [List.length_cons, prog_succ]
    have : x + st = y := by omega
    rw [this, ← ih]

theorem prog_length (x st : Int) (len : Nat) : (prog x st len).length = len := by simp [prog]

theorem prog_getLast (x st : Int) (len : Nat) (h : prog x st (len + 1) ≠ []) :
    (prog x st (len + 1)).getLast h = x + (len : Int) * st := by
  rw [List.getLast_eq_getElem]
  simp [prog]

theorem mem_prog (x st : Int) (len : Nat) (v : Int) :
    v ∈ prog x st len ↔ ∃ k : Nat, k < len ∧ v = x + (k : Int) * st := by
  simp only [prog, List.mem_map, List.mem_range]
  constructor
  · rintro ⟨k, hk, rfl⟩; exact ⟨k, hk, rfl⟩
  · rintro ⟨k, hk, rfl⟩; exact ⟨k, hk, rfl⟩

theorem arange_eq_prog (s e st : Int) : arange s e st = prog s st (rangeLen s e st) := rfl

theorem rangeLen_prog_pos (x st : Int) (m : Nat) (hst : 0 < st) :
    rangeLen x (x + (m : Int) * st + 1) st = m + 1 := by
  unfold rangeLen
  have h1 : x < x + (m : Int) * st + 1 := by
    have : 0 ≤ (m : Int) * st := Int.mul_nonneg (Int.natCast_nonneg m) (Int.le_of_lt hst)
    omega
  simp only [hst, if_true, h1]
  have : x + (m : Int) * st + 1 - x - 1 = (m : Int) * st := by omega
  rw [this, Int.mul_ediv_cancel _ (by omega)]
  omega

theorem rangeLen_prog_neg (x st : Int) (m : Nat) (hst : st < 0) :
    rangeLen x (x + (m : Int) * st - 1) st = m + 1 := by
  unfold rangeLen
  have hn : ¬ (0 < st) := by omega
  have hk : (m : Int) * st ≤ 0 :=
    Int.mul_nonpos_of_nonneg_of_nonpos (Int.natCast_nonneg m) (Int.le_of_lt hst)
  have h1 : x + (m : Int) * st - 1 < x := by omega
  simp only [hn, hst, if_true, if_false, h1]
  have : x - (x + (m : Int) * st - 1) - 1 = (m : Int) * (-st) := by rw [Int.mul_neg]; omega
  rw [this, Int.mul_ediv_cancel _ (by omega)]
  omega

/-- what `array2slice` returns on a progression of length >= 2 with nonzero step -/
theorem array2slice_prog (x st : Int) (m : Nat) (hst : st ≠ 0) :
    array2slice (prog x st (m + 2)) =
      if x < 0 ∨ x + st < 0 then none
      else if 0 < st then some (x, x + ((m : Int) + 1) * st + 1, some st)
      else if 0 < x + ((m : Int) + 1) * st then some (x, x + ((m : Int) + 1) * st - 1, some st)
      else none := by
  have hp : prog x st (m + 2) = x :: (x + st) :: prog (x + st + st) st m := by
    rw [prog_succ, prog_succ]
  have hc : constDiff (x + st - x) (x :: (x + st) :: prog (x + st + st) st m) = true := by
    have : x + st - x = st := by omega
    rw [this, ← hp]; exact constDiff_prog x st (m + 2)
  have hlast : ((x + st) :: prog (x + st + st) st m).getLast (List.cons_ne_nil _ _) =
      x + ((m : Int) + 1) * st := by
    have h2 : (x + st) :: prog (x + st + st) st m = prog (x + st) st (m + 1) := by rw [prog_succ]
    have := prog_getLast (x + st) st m (by rw [← h2]; exact List.cons_ne_nil _ _)
    simp only [h2, this]
    rw [Int.add_mul]; omega
  rw [hp]
  simp only [array2slice, hc, if_true, hlast]
  have e1 : x + st - x = st := by omega
  simp only [e1, hst, if_false]


theorem array2slice_sound (a : List Int) (s e : Int) (st : Option Int)
    (h : array2slice a = some (s, e, st)) (n : Nat) (hn : ∀ x ∈ a, x < (n : Int)) :
    npSlice (some s) (some e) st n = .ok (a.map Int.toNat) ∧ (∀ x ∈ a, 0 ≤ x) := by
  match a, h, hn with
  | [], h, _ =>
    simp only [array2slice, Option.some.injEq, Prod.mk.injEq] at h
    obtain ⟨rfl, rfl, rfl⟩ := h
    exact ⟨npSlice_same 0 none n (by simp), by simp⟩
  | [x], h, hn =>
    simp only [array2slice] at h
    split at h
    · rename_i hx
      simp only [Option.some.injEq, Prod.mk.injEq] at h
      obtain ⟨rfl, rfl, rfl⟩ := h
      have hxn := hn x List.mem_cons_self
      obtain ⟨s', e', hpy⟩ := pyIndices_some (some x) (some (x + 1)) none n (by simp)
      obtain ⟨_, _, hs, he⟩ := pyIndices_eq _ _ _ _ _ _ _ hpy
      simp only [Option.getD_none, startOf, stopOf, clipIdx] at hs he hpy
      have e1 : s' = x := by omega
      have e2 : e' = x + 1 := by omega
      rw [e1, e2] at hpy
      refine ⟨?_, by simpa using hx⟩
      rw [npSlice_of_indices _ _ _ _ _ _ _ hpy]
      have : rangeLen x (x + 1) 1 = 1 := by
        have := rangeLen_prog_pos x 1 0 (by omega)
        simpa using this
      simp [arange, this]
    · simp at h
  | x :: y :: rest, h, hn =>
    simp only [array2slice] at h
    split at h
    · simp at h
    · rename_i hneg
      split at h
      · simp at h
      · rename_i hstep
        split at h
        · rename_i hcd
          have hprog := eq_prog_of_constDiff (y - x) (y :: rest) x hcd
          simp only [List.length_cons] at hprog
          have hy : y = x + (y - x) := by omega
          generalize hst : y - x = step at *
          generalize hm : rest.length = m at *
          have hlast : (y :: rest).getLast (List.cons_ne_nil _ _) = x + ((m : Int) + 1) * step := by
            have h2 : y :: rest = prog (x + step) step (m + 1) := by
              have := hprog
              rw [prog_succ] at this
              simp only [List.cons.injEq, true_and] at this
              exact this
            have := prog_getLast (x + step) step m (by rw [← h2]; exact List.cons_ne_nil _ _)
            simp only [h2, this]
            rw [Int.add_mul]; omega
          rw [hlast] at h
          have hmem : ∀ k : Nat, k < m + 2 → x + (k : Int) * step < n := by
            intro k hk
            apply hn
            rw [hprog]
            exact (mem_prog x step (m + 1 + 1) _).mpr ⟨k, hk, rfl⟩
          have hx0 : 0 ≤ x := by omega
          have hxn : x < n := by simpa using hmem 0 (by omega)
          have hln := hmem (m + 1) (by omega)
          simp only [Int.natCast_add, Int.natCast_one] at hln
          rw [hprog]
          split at h
          · rename_i hpos
            simp only [Option.some.injEq, Prod.mk.injEq] at h
            obtain ⟨rfl, rfl, rfl⟩ := h
            have hk : 0 ≤ ((m : Int) + 1) * step := Int.mul_nonneg (by omega) (Int.le_of_lt hpos)
            obtain ⟨s', e', hpy⟩ := pyIndices_some (some x) (some (x + ((m : Int) + 1) * step + 1))
              (some step) n (by simpa using hstep)
            obtain ⟨_, _, hs, he⟩ := pyIndices_eq _ _ _ _ _ _ _ hpy
            simp only [Option.getD_some, startOf, stopOf, clipIdx] at hs he hpy
            have e1 : s' = x := by omega
            have e2 : e' = x + ((m : Int) + 1) * step + 1 := by omega
            rw [e1, e2] at hpy
            constructor
            · rw [npSlice_of_indices _ _ _ _ _ _ _ hpy, arange_eq_prog]
              have := rangeLen_prog_pos x step (m + 1) hpos
              simp only [Int.natCast_add, Int.natCast_one] at this
              rw [this]
            · intro v hv
              obtain ⟨k, _, rfl⟩ := (mem_prog x step _ v).mp hv
              have : 0 ≤ (k : Int) * step := Int.mul_nonneg (Int.natCast_nonneg k) (Int.le_of_lt hpos)
              omega
          · rename_i hnpos
            have hneg' : step < 0 := by omega
            split at h
            · rename_i hlastpos
              simp only [Option.some.injEq, Prod.mk.injEq] at h
              obtain ⟨rfl, rfl, rfl⟩ := h
              have hk : ((m : Int) + 1) * step ≤ 0 :=
                Int.mul_nonpos_of_nonneg_of_nonpos (by omega) (Int.le_of_lt hneg')
              obtain ⟨s', e', hpy⟩ := pyIndices_some (some x) (some (x + ((m : Int) + 1) * step - 1))
                (some step) n (by simpa using hstep)
              obtain ⟨_, _, hs, he⟩ := pyIndices_eq _ _ _ _ _ _ _ hpy
              simp only [Option.getD_some, startOf, stopOf, clipIdx] at hs he hpy
              have e1 : s' = x := by omega
              have e2 : e' = x + ((m : Int) + 1) * step - 1 := by omega
              rw [e1, e2] at hpy
              constructor
              · rw [npSlice_of_indices _ _ _ _ _ _ _ hpy, arange_eq_prog]
                have := rangeLen_prog_neg x step (m + 1) hneg'
                simp only [Int.natCast_add, Int.natCast_one] at this
                rw [this]
              · intro v hv
                obtain ⟨k, hk2, rfl⟩ := (mem_prog x step _ v).mp hv
                have : ((m : Int) + 1) * step ≤ (k : Int) * step :=
                  Int.mul_le_mul_of_nonpos_right (by omega) (Int.le_of_lt hneg')
                omega
            · simp at h
        · simp at h

/-! ### basic indexing (ints and slices only): flat position formula -/

/-- indices selected on one axis -/
def axisList : Ax → List Nat
  | .sl l => l
  | .adv _ d => d

def Ax.basic : Ax → Prop
  | .sl _ => True
  | .adv sh d => sh = [] ∧ ∃ j, d = [j]

def advSum : List (Ax × Nat) → Nat
  | [] => 0
  | (.adv _ d, st) :: rest => d.headD 0 * st + advSum rest
  | (.sl _, _) :: rest => advSum rest

def withLists (zs : List (Ax × Nat)) : List (List Nat × Nat) := zs.map (fun p => (axisList p.1, p.2))

theorem flatMap_congr' {α β} {l : List α} {f g : α → List β} (h : ∀ x ∈ l, f x = g x) :
    l.flatMap f = l.flatMap g := by
  induction l with
  | nil => rfl
  | cons x xs ih =>
    rw [List.flatMap_cons, List.flatMap_cons, h x List.mem_cons_self,
      ih (fun y hy => h y (List.mem_cons_of_mem _ hy))]

theorem bcast2_nil (r : List Nat) : bcast2 [] r = some r := by
  simp [bcast2, bcast2Rev]

theorem bcastAll_basic : ∀ (zs : List (Ax × Nat)), (∀ p ∈ zs, p.1.basic) →
    bcastAll (advShapes zs) = some []
  | [], _ => rfl
  | (.sl l, st) :: rest, h => by
    simp only [advShapes]
    exact bcastAll_basic rest (fun p hp => h p (List.mem_cons_of_mem _ hp))
  | (.adv sh d, st) :: rest, h => by
    have hb := h (.adv sh d, st) List.mem_cons_self
    obtain ⟨rfl, _⟩ := hb
    simp only [advShapes, bcastAll, bcastAll_basic rest (fun p hp => h p (List.mem_cons_of_mem _ hp)),
      bcast2_nil]

theorem advOffsets_basic : ∀ (zs : List (Ax × Nat)), (∀ p ∈ zs, p.1.basic) →
    advOffsets [] zs = [advSum zs]
  | [], _ => rfl
  | (.sl l, st) :: rest, h => by
    simp only [advOffsets, advSum]
    exact advOffsets_basic rest (fun p hp => h p (List.mem_cons_of_mem _ hp))
  | (.adv sh d, st) :: rest, h => by
    have hb := h (.adv sh d, st) List.mem_cons_self
    obtain ⟨rfl, j, rfl⟩ := hb
    have ih := advOffsets_basic rest (fun p hp => h p (List.mem_cons_of_mem _ hp))
    simp [advOffsets, advSum, ih, bcastData, padShape]

theorem outer_append (l1 l2 : List (List Nat × Nat)) :
    outer (l1 ++ l2) = (outer l1).flatMap (fun s1 => (outer l2).map (fun s2 => s1 + s2)) := by
  induction l1 with
  | nil => simp [outer]
  | cons p rest ih =>
    obtain ⟨l, st⟩ := p
    simp only [List.cons_append, outer, ih, List.flatMap_assoc, List.map_flatMap, List.flatMap_map,
      List.map_map]
    apply flatMap_congr'
    intro i _
    apply flatMap_congr'
    intro s1 _
    apply List.map_congr_left
    intro s2 _
    simp only [Function.comp]
    omega

theorem slicesOf_append (a b : List (Ax × Nat)) : slicesOf (a ++ b) = slicesOf a ++ slicesOf b := by
  induction a with
  | nil => rfl
  | cons p rest ih =>
    obtain ⟨ax, st⟩ := p
    cases ax <;> simp [slicesOf, ih]

theorem slicesOf_takeWhile_adv (zs : List (Ax × Nat)) :
    slicesOf (zs.takeWhile (fun p => p.1.isAdv)) = [] := by
  induction zs with
  | nil => rfl
  | cons p rest ih =>
    obtain ⟨ax, st⟩ := p
    cases ax with
    | sl l => rw [List.takeWhile_cons_of_neg (by simp [Ax.isAdv])]; rfl
    | adv sh d => rw [List.takeWhile_cons_of_pos (by rfl)]; simpa [slicesOf] using ih

/-- slices before the advanced block, then slices after it = all slices in order -/
theorem slicesOf_split (zs : List (Ax × Nat)) :
    slicesOf (zs.takeWhile (fun p => !p.1.isAdv)) ++
      slicesOf ((zs.dropWhile (fun p => !p.1.isAdv)).dropWhile (fun p => p.1.isAdv)) = slicesOf zs := by
  have h1 := List.takeWhile_append_dropWhile (p := fun (p : Ax × Nat) => !p.1.isAdv) (l := zs)
  have h2 := List.takeWhile_append_dropWhile (p := fun (p : Ax × Nat) => p.1.isAdv)
    (l := zs.dropWhile (fun p => !p.1.isAdv))
  conv => rhs; rw [← h1, ← h2]
  simp only [slicesOf_append, slicesOf_takeWhile_adv, List.nil_append]

theorem lens_append (a b : List (List Nat × Nat)) : lens (a ++ b) = lens a ++ lens b := by
  simp [lens]

/-- With a one-element advanced block the result of `assemble` does not depend on the placement
flag: positions are the C-order outer product of the slice axes shifted by the integer offsets. -/
theorem assemble_basic (c : Bool) (zs : List (Ax × Nat)) (h : ∀ p ∈ zs, p.1.basic) :
    assemble c zs = .ok ((outer (slicesOf zs)).map (fun p => advSum zs + p), lens (slicesOf zs)) := by
  simp only [assemble, bcastAll_basic zs h, advOffsets_basic zs h, pure, Except.pure]
  cases c with
  | false =>
    simp only [Bool.false_eq_true, if_false, outer, List.flatMap_cons, List.flatMap_nil,
      List.append_nil, lens, List.map_nil, List.nil_append, Nat.zero_add]
  | true =>
    simp only [if_true, List.append_nil]
    rw [← lens_append, slicesOf_split]
    congr 2
    conv => rhs; rw [← slicesOf_split zs, outer_append, List.map_flatMap]
    apply flatMap_congr'
    intro s1 _
    simp only [List.flatMap_cons, List.flatMap_nil, List.append_nil, List.map_map]
    apply List.map_congr_left
    intro s2 _
    simp only [Function.comp]
    omega

/-- ints as singleton axes: the full outer product over all axes -/
theorem outer_withLists : ∀ (zs : List (Ax × Nat)), (∀ p ∈ zs, p.1.basic) →
    outer (withLists zs) = (outer (slicesOf zs)).map (fun p => advSum zs + p)
  | [], _ => by simp [withLists, outer, slicesOf, advSum]
  | (.sl l, st) :: rest, h => by
    have ih := outer_withLists rest (fun p hp => h p (List.mem_cons_of_mem _ hp))
    simp only [withLists, List.map_cons, axisList, outer, slicesOf, advSum, List.map_flatMap,
      List.map_map] at ih ⊢
    apply flatMap_congr'
    intro i _
    rw [ih, List.map_map]
    apply List.map_congr_left
    intro p _
    simp only [Function.comp]
    omega
  | (.adv sh d, st) :: rest, h => by
    have hb := h (.adv sh d, st) List.mem_cons_self
    obtain ⟨rfl, j, rfl⟩ := hb
    have ih := outer_withLists rest (fun p hp => h p (List.mem_cons_of_mem _ hp))
    simp only [withLists, List.map_cons, axisList, outer, slicesOf, advSum, List.flatMap_cons,
      List.flatMap_nil, List.append_nil, List.headD_cons] at ih ⊢
    rw [ih, List.map_map]
    apply List.map_congr_left
    intro p _
    simp only [Function.comp]
    omega

theorem outer_eq_cartesian : ∀ (ls : List (List Nat)) (strd : List Nat), ls.length = strd.length →
    outer (ls.zip strd) = (cartesian ls).map (fun idx => (List.zipWith (· * ·) idx strd).sum)
  | [], [], _ => by simp [outer, cartesian]
  | l :: ls, st :: strd, h => by
    have ih := outer_eq_cartesian ls strd (by simpa using h)
    simp only [List.zip_cons_cons, outer, cartesian, List.map_flatMap, List.map_map, ih]
    apply flatMap_congr'
    intro i _
    apply List.map_congr_left
    intro t _
    simp [Function.comp, List.zipWith_cons_cons, List.sum_cons]

theorem flatMap_length_const {α β} (l : List α) (f : α → List β) (c : Nat)
    (h : ∀ x ∈ l, (f x).length = c) : (l.flatMap f).length = l.length * c := by
  induction l with
  | nil => simp
  | cons x xs ih =>
    rw [List.flatMap_cons, List.length_append, h x List.mem_cons_self,
      ih (fun y hy => h y (List.mem_cons_of_mem _ hy)), List.length_cons, Nat.succ_mul]
    omega

theorem outer_length : ∀ (l : List (List Nat × Nat)), (outer l).length = prod (lens l)
  | [] => rfl
  | (l, st) :: rest => by
    simp only [outer, lens, List.map_cons, prod, List.foldr_cons]
    rw [flatMap_length_const _ _ (outer rest).length (fun _ _ => by simp)]
    rw [outer_length rest]
    rfl


def Ix.basic : Ix → Prop
  | .int _ => True
  | .slice _ _ _ => True
  | _ => False

/-- extents of the result axes contributed by slices -/
def sliceLens : List Ax → List Nat
  | [] => []
  | .sl l :: rest => l.length :: sliceLens rest
  | .adv _ _ :: rest => sliceLens rest

theorem resolveAll_basic (l : Bool) : ∀ (xs : List Ix) (ns : List Nat) (axes : List Ax),
    (∀ x ∈ xs, x.basic) → xs.length = ns.length → resolveAll l xs ns = .ok axes →
    (∀ a ∈ axes, a.basic) ∧ axes.length = ns.length
  | [], [], axes, _, _, h => by
    simp only [resolveAll, pure, Except.pure, Except.ok.injEq] at h; subst h; simp
  | x :: xs, n :: ns, axes, hb, hlen, h => by
    simp only [resolveAll, bind, Except.bind] at h
    split at h
    · simp at h
    · rename_i a ha
      split at h
      · simp at h
      · rename_i r hr
        simp only [pure, Except.pure, Except.ok.injEq] at h
        subst h
        obtain ⟨ih1, ih2⟩ := resolveAll_basic l xs ns r
          (fun y hy => hb y (List.mem_cons_of_mem _ hy)) (by simpa using hlen) hr
        have hab : a.basic := by
          have hx := hb x List.mem_cons_self
          cases x with
          | int i =>
            simp only [resolveAxis, bind, Except.bind] at ha
            split at ha
            · simp at ha
            · simp only [pure, Except.pure, Except.ok.injEq] at ha; subst ha; exact ⟨rfl, _, rfl⟩
          | slice a b c =>
            simp only [resolveAxis, bind, Except.bind] at ha
            split at ha
            · simp at ha
            · simp only [pure, Except.pure, Except.ok.injEq] at ha; subst ha; trivial
          | arr sh d => exact absurd hx (by simp [Ix.basic])
          | ellipsis => exact absurd hx (by simp [Ix.basic])
        constructor
        · intro a' ha'
          rcases List.mem_cons.mp ha' with rfl | h'
          · exact hab
          · exact ih1 a' h'
        · simp [ih2]

theorem ixShapes_basic : ∀ (xs : List Ix), (∀ x ∈ xs, x.basic) → bcastAll (ixShapes xs) = some []
  | [], _ => rfl
  | x :: xs, h => by
    have ih := ixShapes_basic xs (fun y hy => h y (List.mem_cons_of_mem _ hy))
    have hx := h x List.mem_cons_self
    cases x with
    | int i =>
      simp only [ixShapes, List.filterMap_cons, advShape?] at ih ⊢
      simp only [bcastAll, ih, bcast2_nil]
    | slice a b c => simpa [ixShapes, List.filterMap_cons, advShape?] using ih
    | arr sh d => exact absurd hx (by simp [Ix.basic])
    | ellipsis => exact absurd hx (by simp [Ix.basic])

theorem countP_isEll_basic (xs : List Ix) (h : ∀ x ∈ xs, x.basic) : xs.countP isEll = 0 := by
  rw [List.countP_eq_zero]
  intro x hx he
  have := h x hx
  cases x <;> simp_all [Ix.basic, isEll]

theorem withLists_zip : ∀ (axes : List Ax) (strd : List Nat),
    withLists (axes.zip strd) = (axes.map axisList).zip strd
  | [], _ => rfl
  | _ :: _, [] => rfl
  | a :: axes, s :: strd => by
    simp only [List.zip_cons_cons, withLists, List.map_cons, List.cons.injEq, true_and]
    exact withLists_zip axes strd

theorem lens_slicesOf_zip : ∀ (axes : List Ax) (strd : List Nat), axes.length = strd.length →
    lens (slicesOf (axes.zip strd)) = sliceLens axes
  | [], [], _ => rfl
  | a :: axes, s :: strd, h => by
    have ih := lens_slicesOf_zip axes strd (by simpa using h)
    cases a <;> simp [slicesOf, sliceLens, lens] at ih ⊢ <;> exact ih

theorem strides_length : ∀ (shape : List Nat), (strides shape).length = shape.length
  | [] => rfl
  | _ :: rest => by simp [strides, strides_length rest]

theorem mem_zip_fst {α β} {a : α} {b : β} {l1 : List α} {l2 : List β} (h : (a, b) ∈ l1.zip l2) :
    a ∈ l1 := (List.of_mem_zip h).1

/-- NumPy basic indexing (a full-rank tuple of ints and slices): the selected flat positions are
`Σ idx_k * stride_k` over the C-ordered Cartesian product of the per-axis index lists, and the
result shape lists the slice extents. -/
theorem npIndex_basic (shape : List Nat) (xs : List Ix) (hlen : xs.length = shape.length)
    (hb : ∀ x ∈ xs, x.basic) (axes : List Ax) (hr : resolveAll false xs shape = .ok axes) :
    npIndex shape (.tup xs) =
      .ok ((cartesian (axes.map axisList)).map (ravel shape), sliceLens axes) := by
  have hcnt := countP_isEll_basic xs hb
  have hk : ¬ (xs.length > shape.length) := by omega
  have hem : emptyBlock xs = false := by simp [emptyBlock, ixShapes_basic xs hb, prod]
  simp only [npIndex, specEntries, expand, hcnt, Nat.sub_zero, gt_iff_lt, Nat.lt_irrefl, if_false,
    Nat.not_lt_zero, hk, Nat.zero_ne_one, hlen, Nat.sub_self, List.replicate_zero, List.append_nil,
    bind, Except.bind, pure, Except.pure, hem, hr]
  obtain ⟨hbasic, hal⟩ := resolveAll_basic false xs shape axes hb hlen hr
  have hz : ∀ p ∈ axes.zip (strides shape), p.1.basic := by
    intro p hp
    obtain ⟨a, s⟩ := p
    exact hbasic a (mem_zip_fst hp)
  rw [assemble_basic _ _ hz, ← outer_withLists _ hz, withLists_zip,
    outer_eq_cartesian _ _ (by rw [List.length_map, hal, strides_length]),
    lens_slicesOf_zip _ _ (by rw [hal, strides_length])]
  rfl


theorem ravel_cons (n : Nat) (rest : List Nat) (i : Nat) (t : List Nat) :
    ravel (n :: rest) (i :: t) = i * prod rest + ravel rest t := by
  simp [ravel, strides, List.zipWith_cons_cons, List.sum_cons]

theorem prod_cons (n : Nat) (rest : List Nat) : prod (n :: rest) = n * prod rest := rfl

/-- `idx` is a multi-index into an array of shape `shape`. -/
inductive InBounds : List Nat → List Nat → Prop
  | nil : InBounds [] []
  | cons {i n : Nat} {t rest : List Nat} : i < n → InBounds t rest → InBounds (i :: t) (n :: rest)

/-- In-bounds multi-indices map into `[0, prod shape)`. -/
theorem ravel_lt : ∀ (shape idx : List Nat), InBounds idx shape →
    ravel shape idx < prod shape
  | [], [], _ => by simp [ravel, prod]
  | n :: rest, i :: t, h => by
    cases h with
    | cons hi ht =>
      have ih := ravel_lt rest t ht
      rw [ravel_cons, prod_cons]
      have : (i + 1) * prod rest ≤ n * prod rest := Nat.mul_le_mul_right _ hi
      rw [Nat.succ_mul] at this
      omega

/-- Distinct in-bounds multi-indices have distinct flat positions. -/
theorem ravel_inj : ∀ (shape idx idx' : List Nat), InBounds idx shape →
    InBounds idx' shape → ravel shape idx = ravel shape idx' → idx = idx'
  | [], [], [], _, _, _ => rfl
  | n :: rest, i :: t, i' :: t', h, h', he => by
    cases h with
    | cons hi ht =>
      cases h' with
      | cons hi' ht' =>
        rw [ravel_cons, ravel_cons] at he
        have b1 := ravel_lt rest t ht
        have b2 := ravel_lt rest t' ht'
        have hii : i = i' := by
          rcases Nat.lt_trichotomy i i' with hlt | heq | hgt
          · exfalso
            have : (i + 1) * prod rest ≤ i' * prod rest := Nat.mul_le_mul_right _ hlt
            rw [Nat.succ_mul] at this
            omega
          · exact heq
          · exfalso
            have : (i' + 1) * prod rest ≤ i * prod rest := Nat.mul_le_mul_right _ hgt
            rw [Nat.succ_mul] at this
            omega
        subst hii
        have : ravel rest t = ravel rest t' := by omega
        rw [ravel_inj rest t t' ht ht' this]

/-! ### ellipsis -/

def ellFill (m : Nat) (x : Ix) : List Ix := if isEll x then List.replicate m fullSlice else [x]

theorem expandList_length (m : Nat) : ∀ xs : List Ix,
    (xs.flatMap (ellFill m)).length + xs.countP isEll = xs.length + xs.countP isEll * m
  | [] => by simp
  | x :: xs => by
    have ih := expandList_length m xs
    rw [List.flatMap_cons, List.length_append, List.countP_cons, List.length_cons]
    by_cases hx : isEll x = true
    · simp only [ellFill, hx, if_true, List.length_replicate, Nat.add_mul, Nat.one_mul]
      omega
    · simp only [ellFill, hx, Bool.false_eq_true, if_false, List.length_singleton, Nat.add_zero]
      omega

theorem expandList_noEll (m : Nat) (xs : List Ix) : (xs.flatMap (ellFill m)).any isEll = false := by
  rw [List.any_flatMap, List.any_eq_false]
  intro x _
  rw [Bool.not_eq_true, List.any_eq_false]
  intro y hy
  by_cases hx : isEll x = true
  · simp only [ellFill, hx, if_true, List.mem_replicate] at hy
    rw [hy.2]; simp [fullSlice, isEll]
  · simp only [ellFill, hx, Bool.false_eq_true, if_false, List.mem_singleton] at hy
    rw [hy]; simpa using hx

theorem expandList_stepOk (m : Nat) (xs : List Ix) (h : ∀ x ∈ xs, stepOk x) :
    ∀ y ∈ xs.flatMap (ellFill m), stepOk y := by
  intro y hy
  rw [List.mem_flatMap] at hy
  obtain ⟨x, hx, hyx⟩ := hy
  by_cases he : isEll x = true
  · simp only [ellFill, he, if_true, List.mem_replicate] at hyx
    rw [hyx.2]; simp [fullSlice, stepOk]
  · simp only [ellFill, he, Bool.false_eq_true, if_false, List.mem_singleton] at hyx
    rw [hyx]; exact h x hx

/-- NumPy reads a tuple with one ellipsis as its expansion, except that the placement rule for
advanced indices looks at the tuple as written. -/
theorem npIndex_ellipsis (xs : List Ix) (shp : List Nat)
    (h1 : xs.countP isEll = 1) (hlen : xs.length - 1 ≤ shp.length)
    (hcons : advConsecutive (xs.flatMap (ellFill (shp.length + 1 - xs.length))) = advConsecutive xs) :
    npIndex shp (.tup (xs.flatMap (ellFill (shp.length + 1 - xs.length)))) = npIndex shp (.tup xs) := by
  have hpos : 1 ≤ xs.length := by
    have := List.countP_le_length (p := isEll) (l := xs); omega
  have hm : shp.length - (xs.length - 1) = shp.length + 1 - xs.length := by omega
  have hL := expandList_length (shp.length + 1 - xs.length) xs
  rw [h1] at hL
  have hl : (xs.flatMap (ellFill (shp.length + 1 - xs.length))).length = shp.length := by omega
  have h0 := any_isEll_false_countP _ (expandList_noEll (shp.length + 1 - xs.length) xs)
  have hk : ¬ (xs.length - 1 > shp.length) := by omega
  simp only [npIndex, specEntries, expand, h0, h1, hl, Nat.sub_zero, gt_iff_lt, Nat.lt_irrefl,
    if_false, Nat.not_lt_zero, Nat.zero_ne_one, Nat.sub_self, List.replicate_zero, List.append_nil,
    if_true, hk, hm, hcons, bind, Except.bind, pure, Except.pure]
  rfl

theorem omEllipsis_refines (xs : List Ix) (shp : List Nat) (out : Out)
    (h1 : xs.countP isEll = 1) (hstep : ∀ x ∈ xs, stepOk x) (hrank : shp.length ≠ 1)
    (hcons : advConsecutive (xs.flatMap (ellFill (shp.length + 1 - xs.length))) = advConsecutive xs)
    (h : omEllipsis xs shp false = .ok out) :
    out.positions = (npIndex shp (.tup xs)).map (fun r => natsToInts r.1) ∧
      out.rshape = (npIndex shp (.tup xs)).map (·.2) := by
  unfold omEllipsis at h
  simp only [Bool.false_eq_true, false_and, if_false, bind, Except.bind, pure, Except.pure] at h
  split at h
  · simp [throw, throwThe, MonadExceptOf.throw] at h
  · rename_i hlen
    have hlen' : xs.length - 1 ≤ shp.length := by omega
    have hpos : 1 ≤ xs.length := by
      have := List.countP_le_length (p := isEll) (l := xs); omega
    have hL := expandList_length (shp.length + 1 - xs.length) xs
    rw [h1] at hL
    have hl : (xs.flatMap (ellFill (shp.length + 1 - xs.length))).length = shp.length := by omega
    have hfm : (xs.flatMap fun x => if isEll x = true then
        List.replicate (shp.length + 1 - xs.length) fullSlice else [x]) =
        xs.flatMap (ellFill (shp.length + 1 - xs.length)) := rfl
    rw [hfm] at h
    rw [← npIndex_ellipsis xs shp h1 hlen' hcons]
    generalize hlst : xs.flatMap (ellFill (shp.length + 1 - xs.length)) = lst at *
    have hm : omMulti lst shp false = .ok out := by
      match lst, hl, h with
      | [], _, h => exact h
      | [x], hl, _ => exact absurd hl.symm hrank
      | _ :: _ :: _, _, h => exact h
    exact omMulti_refines lst shp false out (by rw [← hlst]; exact expandList_noEll _ xs)
      (by rw [← hlst]; exact expandList_stepOk _ xs hstep) (by simp) hm

/-! ### try_slice -/

theorem array2slice_step_ne (a : List Int) (s e : Int) (st : Option Int)
    (h : array2slice a = some (s, e, st)) : st.getD 1 ≠ 0 := by
  match a, h with
  | [], h =>
    simp only [array2slice, Option.some.injEq, Prod.mk.injEq] at h
    obtain ⟨_, _, rfl⟩ := h; simp
  | [x], h =>
    simp only [array2slice] at h
    split at h
    · simp only [Option.some.injEq, Prod.mk.injEq] at h
      obtain ⟨_, _, rfl⟩ := h; simp
    · simp at h
  | x :: y :: rest, h =>
    simp only [array2slice] at h
    split at h
    · simp at h
    · split at h
      · simp at h
      · rename_i hstep
        split at h
        · split at h
          · simp only [Option.some.injEq, Prod.mk.injEq] at h
            obtain ⟨_, _, rfl⟩ := h; simpa using hstep
          · split at h
            · simp only [Option.some.injEq, Prod.mk.injEq] at h
              obtain ⟨_, _, rfl⟩ := h; simpa using hstep
            · simp at h
        · simp at h

/-- `indexer(arr, try_slice=True)` on a rank-1 source when `array2slice` converts the array. -/
theorem omOne_trySlice_rank1 (d : List Int) (N : Nat) (flat : Bool) (out : Out)
    (s e : Int) (st : Option Int) (h2 : array2slice d = some (s, e, st))
    (hall : ∀ x ∈ d, x < (N : Int))
    (hN : (N : Int) < maxsize) (hA : N ≤ allocLimit)
    (h : omOne (.arr [d.length] d) [N] flat true = .ok out) :
    out.positions = .ok d ∧ out.rshape = .ok [d.length] := by
  have h' : omOne (.slice (some s) (some e) st) [N] flat true = .ok out := by
    simp only [omOne, List.length_singleton, Nat.le_refl, if_true, h2] at h ⊢
    exact h
  have h0 := array2slice_step_ne d s e st h2
  obtain ⟨hp, hs⟩ := omOne_slice_rank1 (some s) (some e) st N flat true out h0 hN hA h'
  obtain ⟨hsel, hnn⟩ := array2slice_sound d s e st h2 N hall
  rw [npIndex_slice_rank1, hsel] at hp hs
  simp only [Except.map, List.length_map] at hp hs
  rw [natsToInts_toNat d hnn] at hp
  exact ⟨hp, hs⟩

/-! ### a non-tuple slice into a source of any rank -/

/-- NumPy on the resolved non-tuple slice is NumPy on the slice as written (any rank). -/
theorem npIndex_bare_slice_shaped (a b c : Option Int) (n0 : Nat) (rest : List Nat)
    (a' b' : Option Int) (st' : Int)
    (hsh : shapedSlice a b (c.getD 1) n0 = .ok (a', b', st')) :
    npIndex (n0 :: rest) (.one (.slice a' b' (some st'))) =
      npIndex (n0 :: rest) (.one (.slice a b c)) := by
  have hp := npSlice_shapedSlice a b c n0 a' b' st' hsh
  have he : ∀ x y z, expand (n0 :: rest).length [Ix.slice x y z] =
      .ok (Ix.slice x y z :: List.replicate rest.length fullSlice) := by
    intro x y z
    simp [expand, isEll, pure, Except.pure]
  have hem : ∀ x y z (f : List Ix), emptyBlock (Ix.slice x y z :: f) = emptyBlock f := by
    intro x y z f; rfl
  have hc : ∀ x y z, advConsecutive (specEntries (.one (Ix.slice x y z))) = true := by
    intro x y z; rfl
  simp only [npIndex, specEntries, he, hem, bind, Except.bind, resolveAll, resolveAxis, hp]
  rfl

theorem omOne_slice_anyrank (a b c : Option Int) (n0 : Nat) (rest : List Nat) (flat ts : Bool)
    (out : Out) (hrank : rest ≠ []) (h0 : c.getD 1 ≠ 0)
    (h : omOne (.slice a b c) (n0 :: rest) flat ts = .ok out) :
    out.positions = (npIndex (n0 :: rest) (.one (.slice a b c))).map (fun r => natsToInts r.1) ∧
      out.rshape = (npIndex (n0 :: rest) (.one (.slice a b c))).map (·.2) := by
  have hl : ¬ ((n0 :: rest).length = 1) := by
    cases rest with
    | nil => exact absurd rfl hrank
    | cons _ _ => simp
  simp only [omOne, List.headD_cons, bind, Except.bind, pure, Except.pure] at h
  split at h
  · simp at h
  · simp only [Except.ok.injEq] at h
    subst h
    obtain ⟨⟨a', b', st'⟩, hsh⟩ := shapedSlice_ok a b (c.getD 1) n0 h0
    simp only [hsh, hl, if_false, npIndex_bare_slice_shaped a b c n0 rest a' b' st' hsh, and_self]

end OMV.C05
