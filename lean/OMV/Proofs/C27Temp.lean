/-
C27 — helper lemmas, part 3: the patched `temporary()` (`enterFix` / `restoreFix`).
-/
import OMV.Proofs.C27State

namespace OMV.C27

/-! ### cache operations -/

theorem lookup_of_stackOf_cons {c : List (String × List Val)} {o : String} {x : Val}
    {l : List Val} (h : stackOf c o = x :: l) : lookup o c = some (x :: l) := by
  unfold stackOf at h
  cases hl : lookup o c with
  | none => rw [hl] at h; simp at h
  | some st => rw [hl] at h; simpa using h

theorem pushCache_dict (s : State) (o : String) (v : Val) : (pushCache s o v).dict = s.dict := rfl
theorem pushCache_readOnly (s : State) (o : String) (v : Val) :
    (pushCache s o v).readOnly = s.readOnly := rfl

theorem pushCache_stackOf (s : State) (o o' : String) (v : Val) :
    stackOf (pushCache s o v).cache o' =
      if o = o' then v :: stackOf s.cache o else stackOf s.cache o' := by
  unfold pushCache
  simp only [stackOf_upsert]

/-- State after `cache[o].pop()` (and removal of the emptied list), patched code. -/
def popState (s : State) (o : String) (below : List Val) : State :=
  { s with cache := if below.isEmpty then erase o s.cache else upsert o below s.cache }

theorem popState_stackOf (s : State) (o o' : String) (below : List Val) :
    stackOf (popState s o below).cache o' = if o = o' then below else stackOf s.cache o' := by
  unfold popState
  cases below with
  | nil =>
    simp only [List.isEmpty_nil, if_true, stackOf_erase]
  | cons b bs =>
    simp only [List.isEmpty_cons, Bool.false_eq_true, if_false, stackOf_upsert]

/-- Options reached by the names in `ent`. -/
def Touched (s0 : State) (ent : List String) (t : String) : Prop :=
  ∃ o ∈ ent, s0.targetOf o = some t

/-- One step of the `finally` block when the top of `o`'s stack is a value valid for `o`'s
target. -/
theorem restoreFix_cons {cfg : Cfg} {s' : State} {o t : String} {rest : List String}
    {saved : Val} {below : List Val} {et : Entry}
    (hw : s'.readOnly = false) (hst : stackOf s'.cache o = saved :: below)
    (ht : s'.targetOf o = some t) (hl : lookup t s'.dict = some et)
    (hv : assertValid cfg.checkValid et.decl saved = none) :
    restoreFix cfg (o :: rest) s' = restoreFix cfg rest ((popState s' o below).store t saved) := by
  have h1 := lookup_of_stackOf_cons hst
  have h2 : setOpt cfg (popState s' o below) o saved = .ok ((popState s' o below).store t saved) := by
    apply setOpt_succeeds (et := et)
    · exact ht
    · exact hl
    · exact hw
    · exact hv
  simp only [restoreFix, h1]
  unfold popState at h2
  rw [h2]
  rfl

/-- Invariant of the entering loop of the patched code: whatever happens later to the values (same
declarations, valid values, same stacks), running the `finally` block on `ent` succeeds and brings
back the values and stacks of `s0`. -/
def FrameF (cfg : Cfg) (s0 : State) (ent : List String) (s : State) : Prop :=
  SameDecls s0 s ∧ Good cfg s ∧
  (∀ t, ¬ Touched s0 ent t → s.valOf t = s0.valOf t) ∧
  ∀ s', SameDecls s0 s' → Good cfg s' → (∀ o, stackOf s'.cache o = stackOf s.cache o) →
    ∃ s'', restoreFix cfg ent s' = (s'', none) ∧ SameDecls s0 s'' ∧ Good cfg s'' ∧
      (∀ o, stackOf s''.cache o = stackOf s0.cache o) ∧
      (∀ t, Touched s0 ent t → s''.valOf t = s0.valOf t) ∧
      (∀ t, ¬ Touched s0 ent t → s''.valOf t = s'.valOf t)

theorem frameF_nil {cfg : Cfg} {s0 : State} (hg : Good cfg s0) : FrameF cfg s0 [] s0 := by
  refine ⟨SameDecls.refl s0, hg, fun _ _ => rfl, ?_⟩
  intro s' h1 h2 h3
  refine ⟨s', rfl, h1, h2, h3, ?_, fun _ _ => rfl⟩
  rintro t ⟨o, ho, _⟩
  simp at ho

theorem frameF_push {cfg : Cfg} {s0 s sX : State} {ent : List String} {o t : String} {saved : Val}
    (hw : s0.readOnly = false) (hf : FrameF cfg s0 ent s)
    (ht : s.targetOf o = some t) (hsv : s.valOf t = some saved)
    (hx1 : SameDecls s0 sX) (hx2 : Good cfg sX)
    (hx3 : ∀ o', stackOf sX.cache o' =
      if o = o' then saved :: stackOf s.cache o else stackOf s.cache o')
    (hx4 : ∀ t', t' ≠ t → sX.valOf t' = s.valOf t') :
    FrameF cfg s0 (o :: ent) sX := by
  obtain ⟨hs, hg, hu, hc⟩ := hf
  have ht0 : s0.targetOf o = some t := by rw [← hs.targetOf o]; exact ht
  refine ⟨hx1, hx2, ?_, ?_⟩
  · intro t' hnt
    have hne : t' ≠ t := by
      intro h; subst h; exact hnt ⟨o, by simp, ht0⟩
    rw [hx4 t' hne]
    apply hu
    rintro ⟨o', ho', hto'⟩
    exact hnt ⟨o', by simp [ho'], hto'⟩
  · intro s' h1 h2 h3
    -- pop `o`, assign the saved value
    obtain ⟨et, hl⟩ := targetOf_declared ht
    have hvalid : Satisfies cfg.checkValid et.decl saved := by
      apply hg t et saved hl
      simpa [State.valOf, hl] using hsv
    have ht' : s'.targetOf o = some t := by rw [h1.targetOf o]; exact ht0
    obtain ⟨et', hl'⟩ := targetOf_declared ht'
    have hdecl : et'.decl = et.decl := by
      have a1 := declOf_eq_some hl'
      have a2 := declOf_eq_some hl
      rw [h1.2 t, ← hs.2 t, a2] at a1
      exact (Option.some.inj a1).symm
    have hw' : s'.readOnly = false := by rw [h1.1]; exact hw
    have hst : stackOf s'.cache o = saved :: stackOf s.cache o := by
      rw [h3 o, hx3 o]; simp
    have hstep := restoreFix_cons (cfg := cfg) (rest := ent) hw' hst ht' hl'
      (by rw [hdecl]; exact (assertValid_eq_none _ _ _).mpr hvalid)
    let s2 := (popState s' o (stackOf s.cache o)).store t saved
    have hl2 : lookup t (popState s' o (stackOf s.cache o)).dict = some et' := hl'
    have hs2 : SameDecls s0 s2 :=
      (h1.trans (sameDecls_of_dict rfl rfl)).trans (store_sameDecls _ t saved)
    have hg2 : Good cfg s2 := by
      apply good_store (et := et') (good_of_dict (s := s') rfl h2) hl2
      rw [hdecl]; exact hvalid
    have hc2 : ∀ o', stackOf s2.cache o' = stackOf s.cache o' := by
      intro o'
      show stackOf (popState s' o (stackOf s.cache o)).cache o' = _
      rw [popState_stackOf]
      by_cases h : o = o'
      · subst h; simp
      · simp only [h, if_false]; rw [h3 o', hx3 o']; simp [h]
    obtain ⟨s'', r1, r2, r3, r4, r5, r6⟩ := hc s2 hs2 hg2 hc2
    have hval2 : ∀ m, s2.valOf m = if t = m then some saved else s'.valOf m := by
      intro m
      have := store_valOf (popState s' o (stackOf s.cache o)) t m saved et' hl2
      simpa [s2, State.valOf, popState] using this
    refine ⟨s'', by rw [hstep]; exact r1, r2, r3, r4, ?_, ?_⟩
    · rintro t' ⟨o', ho', hto'⟩
      by_cases hte : Touched s0 ent t'
      · exact r5 t' hte
      · rw [r6 t' hte]
        have : t' = t := by
          rcases List.mem_cons.mp ho' with h | h
          · subst h; rw [ht0] at hto'; exact (Option.some.inj hto').symm
          · exact absurd ⟨o', h, hto'⟩ hte
        subst this
        rw [hval2 t']; simp only [if_true]
        rw [← hsv]; exact hu t' hte
    · intro t' hnt
      have hte : ¬ Touched s0 ent t' := by
        rintro ⟨o', ho', hto'⟩; exact hnt ⟨o', by simp [ho'], hto'⟩
      have hne : ¬ t = t' := by
        intro h; subst h; exact hnt ⟨o, by simp, ht0⟩
      rw [r6 t' hte, hval2 t']; simp [hne]

/-- The entering loop of the patched code keeps the invariant, whether it completes or fails. -/
theorem enterFix_frame {cfg : Cfg} {s0 : State} (hw : s0.readOnly = false) :
    ∀ (kw : List (String × Val)) (s : State) (ent : List String), FrameF cfg s0 ent s →
      FrameF cfg s0 (enterFix cfg kw s ent).2.1 (enterFix cfg kw s ent).1 ∧
      ((enterFix cfg kw s ent).2.2 = none →
        (enterFix cfg kw s ent).2.1 = (kw.map (·.1)).reverse ++ ent) := by
  intro kw
  induction kw with
  | nil => intro s ent hf; simp [enterFix, hf]
  | cons p rest ih =>
    intro s ent hf
    obtain ⟨o, v⟩ := p
    cases hget : getOpt s o with
    | error e => simp [enterFix, hget, hf]
    | ok saved =>
      obtain ⟨t, ht, hsv⟩ := (getOpt_ok_iff s o saved).mp hget
      have hs := hf.1
      have hg := hf.2.1
      -- after the push
      have hp : FrameF cfg s0 (o :: ent) (pushCache s o saved) := by
        apply frameF_push hw hf ht hsv
        · exact hs.trans (sameDecls_of_dict rfl rfl)
        · exact good_of_dict (s := s) rfl hg
        · intro o'; exact pushCache_stackOf s o o' saved
        · intro t' _; rfl
      cases hset : setOpt cfg (pushCache s o saved) o v with
      | error e => simp [enterFix, hget, hset, hp]
      | ok s2 =>
        obtain ⟨t2, et2, ht2, hl2, _, hv2, rfl⟩ := setOpt_ok_spec hset
        have ht2' : t2 = t := by
          have : (pushCache s o saved).targetOf o = s.targetOf o :=
            (sameDecls_of_dict (s := s) rfl rfl).targetOf o
          rw [this, ht] at ht2; exact (Option.some.inj ht2).symm
        subst ht2'
        have hp2 : FrameF cfg s0 (o :: ent) ((pushCache s o saved).store t2 v) := by
          apply frameF_push hw hf ht hsv
          · exact (hs.trans (sameDecls_of_dict rfl rfl)).trans (store_sameDecls _ t2 v)
          · exact good_store (good_of_dict (s := s) rfl hg) hl2 hv2
          · intro o'; exact pushCache_stackOf s o o' saved
          · intro t' hne
            have := store_valOf (pushCache s o saved) t2 t' v et2 hl2
            rw [this]
            have : ¬ t2 = t' := fun h => hne h.symm
            simp [this, State.valOf, pushCache_dict]
        have := ih ((pushCache s o saved).store t2 v) (o :: ent) hp2
        simp only [enterFix, hget, hset]
        refine ⟨this.1, ?_⟩
        intro he
        rw [this.2 he]
        simp

end OMV.C27
