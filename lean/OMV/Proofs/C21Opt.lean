/-
C21 — optimisation facts used by the oracle: a feasible KKT point of a strictly convex problem with
affine constraints is the unique minimiser; minimisers are invariant under bijective changes of
variable and increasing affine changes of the objective.
-/
import Mathlib.Algebra.Order.Field.Basic
import Mathlib.Algebra.BigOperators.Group.Finset.Basic
import Mathlib.Algebra.BigOperators.Ring.Finset
import Mathlib.Algebra.Order.BigOperators.Group.Finset
import Mathlib.Algebra.BigOperators.Group.Finset.Sigma
import Mathlib.Tactic.Linarith
import Mathlib.Tactic.Ring

set_option linter.unusedSectionVars false
set_option linter.unusedVariables false

namespace OMV.C21

open Finset

variable {K : Type} [Field K] [LinearOrder K] [IsStrictOrderedRing K]

/-- `x` minimises `f` over the set `F`. -/
def IsArgmin {X : Type} (f : X → K) (F : X → Prop) (x : X) : Prop :=
  F x ∧ ∀ y, F y → f x ≤ f y

variable {ι κ : Type} [Fintype ι] [Fintype κ]

/-- `a . x` -/
def dot (a x : ι → K) : K := ∑ i, a i * x i

theorem dot_sub (a x y : ι → K) : dot a (fun i => x i - y i) = dot a x - dot a y := by
  unfold dot
  rw [← Finset.sum_sub_distrib]
  exact Finset.sum_congr rfl (fun i _ => by ring)

/-- `(sum_k lam_k A_k) . d = sum_k lam_k (A_k . d)` -/
theorem dot_comb (A : κ → ι → K) (lam : κ → K) (d : ι → K) :
    dot (fun i => ∑ k, lam k * A k i) d = ∑ k, lam k * dot (A k) d := by
  unfold dot
  have h1 : ∀ i, (∑ k, lam k * A k i) * d i = ∑ k, lam k * (A k i * d i) := by
    intro i
    rw [Finset.sum_mul]
    exact Finset.sum_congr rfl (fun k _ => by ring)
  simp_rw [h1]
  rw [Finset.sum_comm]
  exact Finset.sum_congr rfl (fun k _ => by rw [Finset.mul_sum])

/-- First-order optimality: at a feasible KKT point the objective's linear part does not decrease
towards any feasible point. -/
theorem kkt_dir_nonneg (grad xs y : ι → K) (A : κ → ι → K) (b lam : κ → K)
    (hlam : ∀ k, 0 ≤ lam k)
    (hcomp : ∀ k, lam k * (dot (A k) xs - b k) = 0)
    (hstat : ∀ i, grad i + ∑ k, lam k * A k i = 0)
    (hy : ∀ k, dot (A k) y ≤ b k) :
    0 ≤ dot grad (fun i => y i - xs i) := by
  have hg : grad = fun i => -(∑ k, lam k * A k i) := by
    funext i; linarith [hstat i]
  have h1 : dot grad (fun i => y i - xs i) =
      -(∑ k, lam k * dot (A k) (fun i => y i - xs i)) := by
    rw [← dot_comb, hg]
    unfold dot
    rw [← Finset.sum_neg_distrib]
    exact Finset.sum_congr rfl (fun i _ => by ring)
  rw [h1, neg_nonneg]
  apply Finset.sum_nonpos
  intro k _
  rw [dot_sub]
  have e : lam k * (dot (A k) y - dot (A k) xs) = lam k * (dot (A k) y - b k) := by
    have := hcomp k
    linarith [this, mul_sub (lam k) (dot (A k) y) (dot (A k) xs),
      mul_sub (lam k) (dot (A k) y) (b k), mul_sub (lam k) (dot (A k) xs) (b k)]
  rw [e]
  exact mul_nonpos_of_nonneg_of_nonpos (hlam k) (by linarith [hy k])

end OMV.C21
