/-
Polynomial expressions: forward-mode AD is exact (dual numbers), the directional derivative is the
gradient contracted with the direction, substitution commutes with evaluation; finite sums.
-/
import OMV.Model.Spec
import Mathlib.Tactic.Ring
import Mathlib.Algebra.BigOperators.Group.Finset.Basic
import Mathlib.Algebra.BigOperators.Ring.Finset
import Mathlib.Algebra.BigOperators.Group.Finset.Sigma

set_option linter.unusedSectionVars false

namespace OMV.Spec

open Finset

variable {K : Type} [CommRing K]

@[simp] theorem Dual.add_re (a b : Dual K) : (a + b).re = a.re + b.re := rfl
@[simp] theorem Dual.add_du (a b : Dual K) : (a + b).du = a.du + b.du := rfl
@[simp] theorem Dual.mul_re (a b : Dual K) : (a * b).re = a.re * b.re := rfl
@[simp] theorem Dual.mul_du (a b : Dual K) : (a * b).du = a.du * b.re + a.re * b.du := rfl
@[simp] theorem Dual.neg_re (a : Dual K) : (-a).re = - a.re := rfl
@[simp] theorem Dual.neg_du (a : Dual K) : (-a).du = - a.du := rfl

theorem Dual.ext' (a b : Dual K) (h1 : a.re = b.re) (h2 : a.du = b.du) : a = b := by
  cases a; cases b; simp_all

/-- forward-mode AD: evaluating over dual numbers at `env + ε·dir` gives value and directional
derivative -/
theorem eval_dual (env dir : Nat → K) (e : Expr K) :
    Expr.evalWith Dual.const (fun v => (⟨env v, dir v⟩ : Dual K)) e
      = ⟨Expr.eval env e, Expr.evalD env dir e⟩ := by
  induction e with
  | const k => rfl
  | var v => rfl
  | add a b iha ihb =>
    apply Dual.ext' <;> simp [Expr.evalWith, Expr.eval, Expr.evalD, iha, ihb]
  | mul a b iha ihb =>
    apply Dual.ext' <;> simp [Expr.evalWith, Expr.eval, Expr.evalD, iha, ihb]
  | neg a iha =>
    apply Dual.ext' <;> simp [Expr.evalWith, Expr.eval, Expr.evalD, iha]

theorem sumTo_eq (n : Nat) (f : Nat → K) : sumTo n f = ∑ i ∈ range n, f i := by
  unfold sumTo sumList
  induction n with
  | zero => simp
  | succ n ih =>
    rw [List.range_succ, List.map_append, List.foldr_append, Finset.sum_range_succ, ← ih]
    simp only [List.map_cons, List.map_nil, List.foldr_cons, List.foldr_nil, add_zero]
    generalize (List.map f (List.range n)) = l
    induction l with
    | nil => simp
    | cons x xs ihx => simp only [List.foldr_cons, ihx]; ring

/-- the directional derivative is the gradient (symbolic partials) contracted with the direction -/
theorem evalD_eq_sum (n : Nat) (env dir : Nat → K) (e : Expr K) (h : Expr.varsBelow n e) :
    Expr.evalD env dir e = ∑ x ∈ range n, Expr.eval env (Expr.diff x e) * dir x := by
  induction e with
  | const k => simp [Expr.evalD, Expr.diff, Expr.eval, Expr.evalWith]
  | var v =>
    have hv : v ∈ range n := mem_range.mpr h
    simp only [Expr.evalD, Expr.diff]
    rw [Finset.sum_eq_single v]
    · simp [Expr.eval, Expr.evalWith]
    · intro b _ hb
      have : ¬ v = b := fun h => hb h.symm
      simp [this, Expr.eval, Expr.evalWith]
    · intro hn; exact absurd hv hn
  | add a b iha ihb =>
    simp only [Expr.evalD, Expr.diff, iha h.1, ihb h.2, ← Finset.sum_add_distrib]
    apply Finset.sum_congr rfl; intro x _
    simp [Expr.eval, Expr.evalWith]; ring
  | mul a b iha ihb =>
    simp only [Expr.evalD, Expr.diff, iha h.1, ihb h.2, Finset.sum_mul, Finset.mul_sum,
      ← Finset.sum_add_distrib]
    apply Finset.sum_congr rfl; intro x _
    simp [Expr.eval, Expr.evalWith]; ring
  | neg a iha =>
    simp only [Expr.evalD, Expr.diff, iha h, ← Finset.sum_neg_distrib]
    apply Finset.sum_congr rfl; intro x _
    simp [Expr.eval, Expr.evalWith]

/-- evaluating a substituted expression = evaluating in the environment of substituted values
(transfer then evaluate = evaluate the composed expression) -/
theorem eval_subst (env : Nat → K) (σ : Nat → Expr K) (e : Expr K) :
    Expr.eval env (Expr.subst σ e) = Expr.eval (fun v => Expr.eval env (σ v)) e := by
  induction e with
  | const k => rfl
  | var v => rfl
  | add a b iha ihb => simp only [Expr.eval, Expr.evalWith, Expr.subst] at *; rw [iha, ihb]
  | mul a b iha ihb => simp only [Expr.eval, Expr.evalWith, Expr.subst] at *; rw [iha, ihb]
  | neg a iha => simp only [Expr.eval, Expr.evalWith, Expr.subst] at *; rw [iha]

/-- the transfer expression evaluates to gather + unit conversion -/
theorem eval_inputExpr (env : Nat → K) (d : InputDef K) :
    Expr.eval env (inputExpr d) = convert d.fac d.off (env d.src) := rfl

/-- adjoint identity on finite sums: `A x = b`, `Aᵀ y = c` ⇒ `⟨y, b⟩ = ⟨c, x⟩` -/
theorem adjoint_identity (n : Nat) (A : Nat → Nat → K) (x y b c : Nat → K)
    (hx : ∀ k, k < n → sumTo n (fun j => A k j * x j) = b k)
    (hy : ∀ j, j < n → sumTo n (fun k => A k j * y k) = c j) :
    sumTo n (fun k => y k * b k) = sumTo n (fun j => c j * x j) := by
  simp only [sumTo_eq] at *
  have h1 : ∑ k ∈ range n, y k * b k = ∑ k ∈ range n, ∑ j ∈ range n, y k * (A k j * x j) := by
    apply Finset.sum_congr rfl; intro k hk
    rw [← hx k (mem_range.mp hk), Finset.mul_sum]
  have h2 : ∑ j ∈ range n, c j * x j = ∑ j ∈ range n, ∑ k ∈ range n, y k * (A k j * x j) := by
    apply Finset.sum_congr rfl; intro j hj
    rw [← hy j (mem_range.mp hj), Finset.sum_mul]
    apply Finset.sum_congr rfl; intro k _; ring
  rw [h1, h2, Finset.sum_comm]

end OMV.Spec
