/-
C03 helper lemmas, part 5: elementwise scaling of the jacobian and the subtractions.
-/
import OMV.Proofs.C03Lin

set_option linter.unusedSectionVars false

namespace OMV.C03

section scale
variable {R : Type} [CommRing R]

theorem getAt_scaleJac (s : Pos → R) (J : Jac R) (q : Pos) :
    getAt (scaleJac s J) q = getAt J q * s q := by
  induction J with
  | nil => simp [scaleJac, getAt_nil]
  | cons pv J ih =>
    obtain ⟨p, x⟩ := pv
    have e : scaleJac s ((p, x) :: J) = (p, x * s p) :: scaleJac s J := rfl
    rw [e, getAt_cons, getAt_cons, ih]
    by_cases h : p = q
    · simp [h]
    · simp [h]

theorem mulRight_additive (a : R) : IsAdditive (fun x : R => x * a) where
  zero := zero_mul a
  add x y := add_mul x y a
  sub x y := sub_mul x y a

theorem sumOver_congr {ι : Type} (l : List ι) (f g : ι → R) (h : ∀ x ∈ l, f x = g x) :
    sumOver l f = sumOver l g := by
  unfold sumOver
  generalize (0 : R) = acc
  induction l generalizing acc with
  | nil => rfl
  | cons x l ih =>
    simp only [List.foldl_cons]
    rw [h x List.mem_cons_self]
    exact ih (fun y hy => h y (List.mem_cons_of_mem _ hy)) _

/-- Scaling commutes with the subtractions when the scale factor is the same at every position a
subtraction combines. -/
theorem applySubs_scaleJac (s : Pos → R) (subs : List (Pos × List Pos))
    (hU : ∀ sub ∈ subs, ∀ k ∈ sub.2, s k = s sub.1) (J : Jac R) :
    applySubs (scaleJac s J) subs = scaleJac s (applySubs J subs) := by
  induction subs generalizing J with
  | nil => rfl
  | cons sub subs ih =>
    simp only [applySubs, List.foldl_cons]
    have e : setAt (scaleJac s J) sub.1
        (getAt (scaleJac s J) sub.1 - sumOver sub.2 (getAt (scaleJac s J))) =
        scaleJac s (setAt J sub.1 (getAt J sub.1 - sumOver sub.2 (getAt J))) := by
      have h1 : sumOver sub.2 (getAt (scaleJac s J)) = sumOver sub.2 (getAt J) * s sub.1 := by
        rw [sumOver_hom (mulRight_additive (s sub.1))]
        apply sumOver_congr
        intro k hk
        rw [getAt_scaleJac, hU sub List.mem_cons_self k hk]
      rw [h1, getAt_scaleJac, ← sub_mul]
      rfl
    rw [e]
    exact ih (fun sb hsb => hU sb (List.mem_cons_of_mem _ hsb)) _

end scale

end OMV.C03
