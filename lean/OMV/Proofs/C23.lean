/-
Helper definitions and lemmas for the C23 theorems (`OMV/Props/C23.lean`).

* `cart` — the cartesian product of a list of lists in the enumeration order of pyDOE's `fullfact`
  (first coordinate fastest); `fullfact` and the full-factorial value rows are instances of it.
* `digits` — mixed-radix digits, least significant (= first factor) first.
* flat views of the per-variable slicing (`walk`, `affGo`).
* NumPy fancy assignment (`assign`).
-/
import OMV.Model.C23
import Mathlib.Data.List.Nodup
import Mathlib.Data.List.Forall2
import Mathlib.Algebra.Order.Field.Basic
import Mathlib.Tactic.Linarith
import Mathlib.Tactic.Ring
import Mathlib.Tactic.FieldSimp

set_option linter.unusedSectionVars false

namespace OMV.C23

/-! ### cartesian product in `fullfact` order -/

/-- Cartesian product of the lists `ts`, first coordinate varying fastest. -/
def cart {α : Type} : List (List α) → List (List α)
  | [] => [[]]
  | t :: ts => (cart ts).flatMap (fun rest => t.map (fun a => a :: rest))

theorem fullfact_eq_cart (ls : List Nat) : fullfact ls = cart (ls.map List.range) := by
  induction ls with
  | nil => rfl
  | cons l ls ih => simp [fullfact, cart, ih]

theorem length_block {α β : Type} (L : List α) (f : α → List β) (l : Nat)
    (h : ∀ x, (f x).length = l) : (L.flatMap f).length = L.length * l := by
  induction L with
  | nil => simp
  | cons x L ih => simp [List.flatMap_cons, ih, h, Nat.succ_mul, Nat.add_comm]

theorem length_cart {α : Type} (ts : List (List α)) :
    (cart ts).length = (ts.map List.length).prod := by
  induction ts with
  | nil => simp [cart]
  | cons t ts ih =>
    simp only [cart, List.map_cons, List.prod_cons]
    rw [length_block _ _ t.length (by intro x; simp), ih, Nat.mul_comm]

theorem mem_cart {α : Type} (ts : List (List α)) (v : List α) :
    v ∈ cart ts ↔ List.Forall₂ (fun a t => a ∈ t) v ts := by
  induction ts generalizing v with
  | nil => simp [cart]
  | cons t ts ih =>
    simp only [cart, List.mem_flatMap, List.mem_map, List.forall₂_cons_right_iff]
    constructor
    · rintro ⟨rest, hrest, a, ha, rfl⟩
      exact ⟨a, rest, ha, (ih rest).mp hrest, rfl⟩
    · rintro ⟨a, rest, ha, hrest, rfl⟩
      exact ⟨rest, (ih rest).mpr hrest, a, ha, rfl⟩

theorem nodup_cart {α : Type} (ts : List (List α)) (h : ∀ t ∈ ts, t.Nodup) : (cart ts).Nodup := by
  induction ts with
  | nil => simp [cart]
  | cons t ts ih =>
    have ht : t.Nodup := h t (by simp)
    have hts : (cart ts).Nodup := ih (fun t' ht' => h t' (by simp [ht']))
    simp only [cart]
    rw [List.nodup_flatMap]
    refine ⟨fun rest _ => ht.map (fun a b hab => by injection hab), ?_⟩
    refine List.Pairwise.imp ?_ hts
    intro r1 r2 hne
    simp only [Function.onFun]
    intro x hx1 hx2
    simp only [List.mem_map] at hx1 hx2
    obtain ⟨a, _, rfl⟩ := hx1
    obtain ⟨b, _, hb⟩ := hx2
    injection hb with _ h2
    exact hne h2.symm

/-! ### mixed-radix digits -/

/-- Mixed-radix digits of `r` for radices `ls`, least significant first. -/
def digits : List Nat → Nat → List Nat
  | [], _ => []
  | l :: ls, r => r % l :: digits ls (r / l)

theorem block_getElem? {α β : Type} (L : List α) (f : α → List β) (l : Nat) (hl : 0 < l)
    (h : ∀ x, (f x).length = l) (r : Nat) :
    (L.flatMap f)[r]? = (L[r / l]?).bind (fun x => (f x)[r % l]?) := by
  induction L generalizing r with
  | nil => simp
  | cons x L ih =>
    rw [List.flatMap_cons]
    by_cases hr : r < l
    · rw [List.getElem?_append_left (by rw [h]; exact hr)]
      simp [Nat.div_eq_of_lt hr, Nat.mod_eq_of_lt hr]
    · have hr' : l ≤ r := Nat.le_of_not_lt hr
      rw [List.getElem?_append_right (by rw [h]; exact hr'), h, ih]
      obtain ⟨q, rfl⟩ : ∃ q, r = l + q := ⟨r - l, by omega⟩
      simp [Nat.add_div_left _ hl, Nat.add_mod_left]

theorem fullfact_row (ls : List Nat) (r : Nat) (hr : r < ls.prod) :
    (fullfact ls)[r]? = some (digits ls r) := by
  induction ls generalizing r with
  | nil => simp at hr; subst hr; simp [fullfact, digits]
  | cons l ls ih =>
    rw [List.prod_cons] at hr
    have hl : 0 < l := by
      rcases Nat.eq_zero_or_pos l with h0 | h0
      · subst h0; simp at hr
      · exact h0
    have hq : r / l < ls.prod := by
      rw [Nat.div_lt_iff_lt_mul hl, Nat.mul_comm]; exact hr
    simp only [fullfact, digits]
    rw [block_getElem? _ _ l hl (by intro x; simp), ih _ hq]
    simp [Nat.mod_lt _ hl]

/-- Closed form of one digit: `(r / ∏ earlier radices) % radix`. -/
theorem digits_getElem? (ls : List Nat) (r i : Nat) (hi : i < ls.length) :
    (digits ls r)[i]? = some ((r / (ls.take i).prod) % ls[i]) := by
  induction ls generalizing r i with
  | nil => simp at hi
  | cons l ls ih =>
    cases i with
    | zero => simp [digits]
    | succ i =>
      simp only [digits, List.getElem?_cons_succ, List.take_succ_cons, List.prod_cons,
        List.getElem_cons_succ]
      rw [ih (r / l) i (by simpa using hi), Nat.div_div_eq_div_mul]

/-! ### numpy.linspace -/

section lin
variable {K : Type} [Field K] [LinearOrder K] [IsStrictOrderedRing K]

theorem linspaceAt_affine (lo hi : K) (n k : Nat) (hn : 1 < n) :
    linspaceAt lo hi n k = lo + (k : K) / ((n : K) - 1) * (hi - lo) := by
  have h1n : (1 : K) < (n : K) := by exact_mod_cast hn
  have hn1 : ((n : K) - 1) ≠ 0 := ne_of_gt (by linarith)
  have hc : ((n - 1 : Nat) : K) = (n : K) - 1 := by
    rw [Nat.cast_sub (le_of_lt hn)]; simp
  unfold linspaceAt
  by_cases h : k + 1 = n ∧ 1 < n
  · rw [if_pos h]
    have hk1 : (k : K) = (n : K) - 1 := by
      have : ((k + 1 : Nat) : K) = (n : K) := by rw [h.1]
      push_cast at this; linarith
    rw [hk1, div_self hn1]; ring
  · rw [if_neg h, hc]; field_simp

theorem linspaceAt_one (lo hi : K) : linspaceAt lo hi 1 0 = lo := by
  simp [linspaceAt]

theorem linspaceAt_mem_Icc (lo hi : K) (h : lo ≤ hi) (n k : Nat) (hk : k < n) :
    lo ≤ linspaceAt lo hi n k ∧ linspaceAt lo hi n k ≤ hi := by
  by_cases hn : 1 < n
  · rw [linspaceAt_affine lo hi n k hn]
    have h1n : (1 : K) < (n : K) := by exact_mod_cast hn
    have hd : (0 : K) < (n : K) - 1 := by linarith
    have hk0 : (0 : K) ≤ (k : K) := Nat.cast_nonneg k
    have hk1 : (k : K) ≤ (n : K) - 1 := by
      have : ((k + 1 : Nat) : K) ≤ (n : K) := by exact_mod_cast hk
      push_cast at this; linarith
    have t0 : 0 ≤ (k : K) / ((n : K) - 1) := div_nonneg hk0 hd.le
    have t1 : (k : K) / ((n : K) - 1) ≤ 1 := (div_le_one hd).mpr hk1
    have hw : 0 ≤ hi - lo := by linarith
    constructor
    · nlinarith [mul_nonneg t0 hw]
    · nlinarith [mul_nonneg (sub_nonneg.mpr t1) hw]
  · have : n = 1 := by omega
    subst this
    have : k = 0 := by omega
    subst this
    rw [linspaceAt_one]; exact ⟨le_refl _, h⟩

theorem linspaceAt_strictMono (lo hi : K) (h : lo < hi) (n j k : Nat) (hjk : j < k) (hk : k < n) :
    linspaceAt lo hi n j < linspaceAt lo hi n k := by
  have hn : 1 < n := by omega
  rw [linspaceAt_affine lo hi n j hn, linspaceAt_affine lo hi n k hn]
  have h1n : (1 : K) < (n : K) := by exact_mod_cast hn
  have hd : (0 : K) < (n : K) - 1 := by linarith
  have hjk' : (j : K) < (k : K) := by exact_mod_cast hjk
  have : (j : K) / ((n : K) - 1) < (k : K) / ((n : K) - 1) := div_lt_div_of_pos_right hjk' hd
  have hw : 0 < hi - lo := by linarith
  nlinarith [mul_lt_mul_of_pos_right this hw]

theorem linspace_nodup (lo hi : K) (h : lo < hi) (n : Nat) : (linspace lo hi n).Nodup := by
  unfold linspace
  rw [List.nodup_map_iff_inj_on List.nodup_range]
  intro j hj k hk hjk
  rw [List.mem_range] at hj hk
  rcases Nat.lt_trichotomy j k with hlt | heq | hgt
  · exact absurd hjk (ne_of_lt (linspaceAt_strictMono lo hi h n j k hlt hk))
  · exact heq
  · exact absurd hjk.symm (ne_of_lt (linspaceAt_strictMono lo hi h n k j hgt hj))

end lin

/-! ### slicing and the level table -/

theorem walk_flatten {β : Type} (f : Nat → β) (off : Nat) (sizes : List Nat) :
    (walk f off sizes).flatten = (List.range sizes.sum).map (fun j => f (off + j)) := by
  induction sizes generalizing off with
  | nil => simp [walk]
  | cons s ss ih =>
    simp only [walk, List.flatten_cons, List.sum_cons, List.range_add, List.map_append,
      List.map_map, ih]
    congr 1
    apply List.map_congr_left
    intro j _
    simp [Nat.add_assoc]

theorem walk_length {β : Type} (f : Nat → β) (off : Nat) (sizes : List Nat) :
    (walk f off sizes).map List.length = sizes := by
  induction sizes generalizing off with
  | nil => simp [walk]
  | cons s ss ih => simp [walk, ih]

section tbl
variable {K : Type} [Field K] [LinearOrder K] [IsStrictOrderedRing K]

theorem factors_length (dvs : List (DV K)) :
    (factors dvs).length = (dvs.map (fun dv => dv.size)).sum := by
  induction dvs with
  | nil => simp [factors]
  | cons dv dvs ih =>
    simp only [factors, List.flatMap_cons, List.length_append, List.length_map, List.length_range,
      List.map_cons, List.sum_cons] at ih ⊢
    rw [ih]

theorem levelRow_getElem? (lo hi : K) (levels levelsMax idx : Nat) (h1 : idx < levels)
    (h2 : levels ≤ levelsMax) :
    (levelRow lo hi levels levelsMax)[idx]? = some (some (linspaceAt lo hi levels idx)) := by
  unfold levelRow
  rw [List.getElem?_map, List.getElem?_range (by omega)]
  simp [h1]

/-- A table lookup with a valid index is the corresponding `linspace` element (never NaN). -/
theorem cell_table (dvs : List (DV K)) (levelsMax j idx : Nat) (f : Factor K)
    (hf : (factors dvs)[j]? = some f) (h1 : idx < f.levels) (h2 : f.levels ≤ levelsMax) :
    cell (table dvs levelsMax) j idx = some (linspaceAt f.lo f.hi f.levels idx) := by
  unfold cell table
  rw [List.getElem?_map, hf]
  simp only [Option.map_some]
  rw [levelRow_getElem? _ _ _ _ _ h1 h2]

end tbl

/-! ### full-factorial value rows -/

section ff
variable {K : Type} [Field K] [LinearOrder K] [IsStrictOrderedRing K]

/-- The values selected by an index row, factor by factor. -/
def valueRow (F : List (Factor K)) (row : List Nat) : List K :=
  List.zipWith (fun f i => linspaceAt f.lo f.hi f.levels i) F row

/-- The level set of a factor. -/
def levelSet (f : Factor K) : List K := linspace f.lo f.hi f.levels

theorem valueRows_eq_cart (F : List (Factor K)) :
    (fullfact (F.map (fun f => f.levels))).map (valueRow F) = cart (F.map levelSet) := by
  induction F with
  | nil => simp [fullfact, cart, valueRow]
  | cons f F ih =>
    simp only [List.map_cons, fullfact, cart, List.map_flatMap, List.map_map, ← ih,
      List.flatMap_map]
    congr 1
    funext rest
    simp [levelSet, linspace, valueRow, Function.comp_def]

theorem pydoeCase_flatten (dvs : List (DV K)) (levelsMax : Nat) (row : List Nat)
    (hrow : List.Forall₂ (fun i f => i < f.levels) row (factors dvs))
    (hmax : ∀ f ∈ factors dvs, f.levels ≤ levelsMax) :
    (pydoeCase (dvs.map (fun dv => dv.size)) (table dvs levelsMax) row).flatten
      = (valueRow (factors dvs) row).map some := by
  unfold pydoeCase
  rw [walk_flatten, ← factors_length]
  have hlen : row.length = (factors dvs).length := hrow.length_eq
  apply List.ext_getElem
  · simp [valueRow, hlen]
  · intro j h1 h2
    simp only [List.length_map, List.length_range] at h1
    have hj : j < row.length := by omega
    simp only [List.getElem_map, List.getElem_range, Nat.zero_add, valueRow, List.getElem_zipWith]
    have hr := (List.forall₂_iff_get.mp hrow).2 j hj h1
    simp only [List.get_eq_getElem] at hr
    rw [cell_table dvs levelsMax j _ (factors dvs)[j] (by simp) (by
      rw [List.getD_eq_getElem?_getD, List.getElem?_eq_getElem hj]; exact hr)
      (hmax _ (List.getElem_mem h1))]
    simp [List.getD_eq_getElem?_getD, List.getElem?_eq_getElem hj]

end ff

/-! ### level specification -/

theorem dictGet_le_maxVal (d : List (String × Nat)) (k : String) (n : Nat)
    (h : dictGet d k = some n) : n ≤ maxVal d := by
  induction d with
  | nil => simp [dictGet] at h
  | cons e es ih =>
    unfold dictGet at h
    rw [List.find?_cons] at h
    by_cases hk : (e.1 == k) = true
    · simp [hk] at h; subst h; simp [maxVal]
    · simp [hk] at h
      have := ih (by unfold dictGet; simpa using h)
      simp only [maxVal]; omega

theorem dvLevels_le_levelsMax (spec : LevelSpec) (name : String) :
    spec.dvLevels name ≤ spec.levelsMax := by
  cases spec with
  | int n => simp [LevelSpec.dvLevels, LevelSpec.levelsMax]
  | dict d =>
    simp only [LevelSpec.dvLevels, LevelSpec.levelsMax]
    cases h1 : dictGet d name with
    | some n => simp only [Option.getD_some]; have := dictGet_le_maxVal d name n h1; omega
    | none =>
      simp only [Option.getD_none]
      cases h2 : dictGet d "default" with
      | some n => simp only [Option.getD_some]; have := dictGet_le_maxVal d _ n h2; omega
      | none => simp

section al
variable {K : Type} [Field K]

theorem allLevels_eq (spec : LevelSpec) (named : List (String × DV K))
    (h : ∀ e ∈ named, e.2.levels = spec.dvLevels e.1) :
    spec.allLevels (named.map (fun e => (e.1, e.2.size)))
      = (factors (named.map (fun e => e.2))).map (fun f => f.levels) := by
  induction named with
  | nil => cases spec <;> simp [LevelSpec.allLevels, factors]
  | cons e es ih =>
    have he : e.2.levels = spec.dvLevels e.1 := h e (by simp)
    have ih' := ih (fun e' he' => h e' (by simp [he']))
    cases spec with
    | int n =>
      simp only [LevelSpec.allLevels, List.map_cons, List.sum_cons, List.replicate_add, factors,
        List.flatMap_cons, List.map_append, List.map_map] at ih' ⊢
      rw [ih']
      congr 1
      simp [Function.comp_def, he, LevelSpec.dvLevels, List.map_const']
    | dict d =>
      simp only [LevelSpec.allLevels, List.map_cons, factors, List.flatMap_cons, List.map_append,
        List.map_map] at ih' ⊢
      rw [ih']
      congr 1
      simp [Function.comp_def, he, List.map_const']

end al

/-! ### LHS / Uniform slicing -/

section aff
variable {K : Type} [Field K]

theorem slice_eq_zipWith {β : Type} (g : Nat → K → β) (row : List K) (col size : Nat)
    (h : col + size ≤ row.length) :
    (List.range size).map (fun k => g k (row.getD (col + k) 0))
      = List.zipWith g (List.range size) ((row.drop col).take size) := by
  apply List.ext_getElem
  · simp; omega
  · intro j h1 h2
    simp only [List.length_map, List.length_range] at h1
    simp only [List.getElem_map, List.getElem_range, List.getElem_zipWith, List.getElem_take,
      List.getElem_drop]
    rw [List.getD_eq_getElem?_getD, List.getElem?_eq_getElem (by omega)]
    simp

/-- Flat view of the LHS / Uniform slicing: element `j` of the flattened case is the map applied
to the bounds of factor `j` and the unit sample at flat position `j`. -/
theorem affGo_flatten (m : K → K → K → K) (row : List K) (dvs : List (DV K)) (col : Nat)
    (h : col + (factors dvs).length ≤ row.length) :
    (affGo m row dvs col).flatten
      = List.zipWith (fun f s => m f.lo f.hi s) (factors dvs)
          ((row.drop col).take (factors dvs).length) := by
  induction dvs generalizing col with
  | nil => simp [affGo, factors]
  | cons dv dvs ih =>
    have hf : factors (dv :: dvs) = (List.range dv.size).map
        (fun k => ({ lo := dv.lower.get k, hi := dv.upper.get k, levels := dv.levels } : Factor K))
        ++ factors dvs := by simp [factors]
    rw [hf] at h ⊢
    simp only [List.length_append, List.length_map, List.length_range] at h ⊢
    simp only [affGo, List.flatten_cons]
    rw [ih (col + dv.size) (by omega), slice_eq_zipWith _ row col dv.size (by omega)]
    have hsplit : (row.drop col).take (dv.size + (factors dvs).length)
        = (row.drop col).take dv.size
          ++ (row.drop (col + dv.size)).take (factors dvs).length := by
      rw [List.take_add, List.drop_drop]
    rw [hsplit, List.zipWith_append (by simp; omega), List.zipWith_map_left]

theorem affCase_flatten (m : K → K → K → K) (dvs : List (DV K)) (row : List K)
    (h : row.length = (factors dvs).length) :
    (affCase m dvs row).flatten = List.zipWith (fun f s => m f.lo f.hi s) (factors dvs) row := by
  unfold affCase
  rw [affGo_flatten m row dvs 0 (by omega)]
  simp [← h]

end aff

/-! ### strata -/

section st
variable {K : Type} [Field K] [LinearOrder K] [IsStrictOrderedRing K]

theorem strataOk_iff (lo hi : K) (n : Nat) (col : List K) :
    strataOk lo hi n col = true ↔ strataOnce lo hi n col := by
  unfold strataOk strataOnce
  simp [List.all_eq_true]

/-- The monotone affine map carries stratum `k` of `[0,1)` onto stratum `k` of `[lo,hi)`. -/
theorem lhsMap_stratum_iff (lo hi : K) (h : lo < hi) (n k : Nat) (s : K) :
    inStratum 0 1 n k s ↔ inStratum lo hi n k (lhsMap lo hi s) := by
  have hw : 0 < hi - lo := by linarith
  unfold inStratum lhsMap
  simp only [sub_zero, mul_one, zero_add]
  constructor
  · rintro ⟨a, b⟩
    exact ⟨by nlinarith [mul_le_mul_of_nonneg_right a hw.le],
           by nlinarith [mul_lt_mul_of_pos_right b hw]⟩
  · rintro ⟨a, b⟩
    constructor
    · have : (k : K) / n * (hi - lo) ≤ s * (hi - lo) := by linarith
      exact le_of_mul_le_mul_right this hw
    · have : s * (hi - lo) < ((k : K) + 1) / n * (hi - lo) := by linarith
      exact lt_of_mul_lt_mul_right this hw.le

theorem strata_map (lo hi : K) (h : lo < hi) (n : Nat) (col : List K)
    (hc : strataOnce 0 1 n col) : strataOnce lo hi n (col.map (lhsMap lo hi)) := by
  intro k hk
  rw [List.countP_map, ← hc k hk]
  apply List.countP_congr
  intro s _
  simp only [Function.comp, decide_eq_true_eq]
  exact (lhsMap_stratum_iff lo hi h n k s).symm

end st

/-! ### columns of a design; NumPy fancy assignment -/

section col
variable {K : Type} [Field K]

theorem column_affCases (m : K → K → K → K) (dvs : List (DV K)) (doe : List (List K))
    (hrows : ∀ row ∈ doe, row.length = (factors dvs).length) (j : Nat)
    (hj : j < (factors dvs).length) :
    column j (doe.map (fun row => (affCase m dvs row).flatten))
      = (column j doe).map (m (factors dvs)[j].lo (factors dvs)[j].hi) := by
  unfold column
  rw [List.map_map, List.map_map]
  apply List.map_congr_left
  intro row hrow
  have hl := hrows row hrow
  simp only [Function.comp]
  rw [affCase_flatten m dvs row hl, List.getD_eq_getElem?_getD, List.getD_eq_getElem?_getD,
    List.getElem?_eq_getElem (by simp [hl, hj]), List.getElem?_eq_getElem (by omega)]
  simp

end col

section asg
variable {K : Type}

theorem assign_length (arr : List K) (idxs : List Nat) (vals : List K) :
    (assign arr idxs vals).length = arr.length := by
  unfold assign
  induction idxs generalizing arr vals with
  | nil => simp
  | cons i is ih =>
    cases vals with
    | nil => simp
    | cons v vs => simp only [List.zip_cons_cons, List.foldl_cons]; rw [ih]; simp

theorem assign_other (arr : List K) (idxs : List Nat) (vals : List K) (i : Nat)
    (hi : i ∉ idxs) : (assign arr idxs vals)[i]? = arr[i]? := by
  unfold assign
  induction idxs generalizing arr vals with
  | nil => simp
  | cons i0 is ih =>
    cases vals with
    | nil => simp
    | cons v vs =>
      simp only [List.zip_cons_cons, List.foldl_cons]
      rw [ih _ _ (fun h => hi (by simp [h])), List.getElem?_set]
      have : i0 ≠ i := fun h => hi (by simp [h])
      simp [this]

theorem assign_at (arr : List K) (idxs : List Nat) (vals : List K) (hnd : idxs.Nodup)
    (hlen : idxs.length = vals.length) (hin : ∀ i ∈ idxs, i < arr.length) (j : Nat)
    (hj : j < idxs.length) :
    (assign arr idxs vals)[idxs[j]]? = vals[j]? := by
  induction idxs generalizing arr vals j with
  | nil => simp at hj
  | cons i0 is ih =>
    cases vals with
    | nil => simp at hlen
    | cons v vs =>
      have hstep : assign arr (i0 :: is) (v :: vs) = assign (arr.set i0 v) is vs := by
        simp [assign]
      rw [hstep]
      rw [List.nodup_cons] at hnd
      cases j with
      | zero =>
        simp only [List.getElem_cons_zero, List.getElem?_cons_zero]
        rw [assign_other _ _ _ _ hnd.1, List.getElem?_set]
        simp [hin i0 (by simp)]
      | succ j =>
        simp only [List.getElem_cons_succ, List.getElem?_cons_succ]
        exact ih (arr.set i0 v) vs hnd.2 (by simpa using hlen)
          (fun i hi => by simpa using hin i (by simp [hi])) j (by simpa using hj)

end asg

/-! ### design contract; bounds of a value row -/

theorem rowOk_iff (row levels : List Nat) :
    (row.length == levels.length &&
      (List.zipWith (fun i l => decide (i < l)) row levels).all id) = true
      ↔ List.Forall₂ (fun i l => i < l) row levels := by
  induction row generalizing levels with
  | nil => cases levels <;> simp
  | cons i is ih =>
    cases levels with
    | nil => simp
    | cons l ls =>
      have := ih ls
      simp only [Bool.and_eq_true, beq_iff_eq, List.length_cons, List.zipWith_cons_cons,
        List.all_cons, id, decide_eq_true_eq, List.forall₂_cons, Nat.add_right_cancel_iff] at this ⊢
      rw [← this]; tauto

theorem designOk_iff (levels : List Nat) (doe : List (List Nat)) :
    designOk levels doe = true ↔ ∀ row ∈ doe, List.Forall₂ (fun i l => i < l) row levels := by
  unfold designOk
  rw [List.all_eq_true]
  constructor
  · intro h row hr; exact (rowOk_iff row levels).mp (h row hr)
  · intro h row hr; exact (rowOk_iff row levels).mpr (h row hr)

section vr
variable {K : Type} [Field K] [LinearOrder K] [IsStrictOrderedRing K]

theorem valueRow_in_bounds (F : List (Factor K)) (row : List Nat)
    (hrow : List.Forall₂ (fun i f => i < f.levels) row F) (hb : ∀ f ∈ F, f.lo ≤ f.hi) :
    List.Forall₂ (fun v f => f.lo ≤ v ∧ v ≤ f.hi) (valueRow F row) F := by
  induction hrow with
  | nil => simp [valueRow]
  | @cons i f is F hi _ ih =>
    simp only [valueRow, List.zipWith_cons_cons, List.forall₂_cons]
    exact ⟨linspaceAt_mem_Icc f.lo f.hi (hb f (by simp)) f.levels i hi,
           ih (fun f' hf' => hb f' (by simp [hf']))⟩

end vr

end OMV.C23
