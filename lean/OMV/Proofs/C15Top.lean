/-
C15 — glue between the bracketing specification and the n-dimensional lemmas (fresh tables).
-/
import OMV.Proofs.C15FixedLag

set_option linter.unusedSectionVars false
set_option linter.unusedVariables false

namespace OMV.C15

variable {K : Type} [Field K] [LinearOrder K] [IsStrictOrderedRing K]

/-- `InterpAlgorithm.bracket`, from **any** start index `last_index`, on any strictly increasing
grid of ≥ 2 points: flag −1 exactly below the table, +1 exactly above (index `n-1`: the
"last-interval rule" every kernel then maps to `n-2`), and otherwise an interval `idx ≤ n-2` with
`g idx ≤ x ≤ g (idx+1)`. -/
theorem bracket_spec (g : Nat → K) (n : Nat) (hn : 2 ≤ n) (hg : StrictOn n g) (last : Nat)
    (hlast : last < n) (x : K) :
    (x < g 0 → bracket g n last x = (0, Flag.below)) ∧
    (g (n - 1) < x → bracket g n last x = (n - 1, Flag.above)) ∧
    (g 0 ≤ x → x ≤ g (n - 1) →
      ∃ idx, bracket g n last x = (idx, Flag.inside) ∧ idx + 1 < n ∧ g idx ≤ x ∧ x ≤ g (idx + 1)) := by
  have hlo : ∀ i, i < n → g 0 ≤ g i := fun i hi => hg.le (Nat.zero_le i) hi
  have hhi : ∀ i, i < n → g i ≤ g (n - 1) := fun i hi => hg.le (by omega) (by omega)
  rcases bracket_post g n hn hg last hlast x with ⟨e, h⟩ | ⟨e, h⟩ | ⟨idx, e, h1, h2, h3⟩
  · refine ⟨fun _ => e, fun h' => ?_, fun h' _ => absurd h (not_lt.mpr h')⟩
    exact absurd (lt_trans h' h) (not_lt.mpr (hlo (n - 1) (by omega)))
  · refine ⟨fun h' => ?_, fun _ => e, fun _ h' => absurd h (not_lt.mpr h')⟩
    exact absurd (lt_trans h h') (not_lt.mpr (hlo (n - 1) (by omega)))
  · refine ⟨fun h' => ?_, fun h' => ?_, fun _ _ => ⟨idx, e, h1, h2, h3⟩⟩
    · exact absurd (lt_of_le_of_lt h2 h') (not_lt.mpr (hlo idx (by omega)))
    · exact absurd (lt_of_lt_of_le h' h3) (not_lt.mpr (hhi (idx + 1) h1))

/-- The bracket index is always a valid node index. -/
theorem bracket_lt (g : Nat → K) (n : Nat) (hn : 2 ≤ n) (hg : StrictOn n g) (last : Nat)
    (hlast : last < n) (x : K) : (bracket g n last x).1 < n := by
  rcases bracket_post g n hn hg last hlast x with ⟨e, _⟩ | ⟨e, _⟩ | ⟨idx, e, h1, _, _⟩ <;>
    rw [e] <;> simp only <;> omega

theorem bracketAll_idxOK {kmin : Nat} (hk : 2 ≤ kmin) :
    ∀ (ds : List (Dim K)) (xs : List K), GridsOK kmin ds → xs.length = ds.length →
      IdxOK ds (bracketAll ds xs)
  | [], [], _, _ => by simp [bracketAll, IdxOK]
  | [], _ :: _, _, h => by simp at h
  | _ :: _, [], _, h => by simp at h
  | (n, g) :: ds, x :: xs, hg, hx => by
    have hd := hg (n, g) List.mem_cons_self
    simp only [bracketAll, IdxOK]
    exact ⟨bracket_lt g n (by omega) hd.2 0 (by omega) x,
      bracketAll_idxOK hk ds xs (fun d h => hg d (List.mem_cons_of_mem _ h)) (by simpa using hx)⟩

/-- Valid multi-index of a grid node. -/
def IsNode : List (Dim K) → List Nat → Prop
  | [], [] => True
  | (n, _) :: ds, i :: is => i < n ∧ IsNode ds is
  | _, _ => False

theorem bracketAll_node {kmin : Nat} (hk : 2 ≤ kmin) :
    ∀ (ds : List (Dim K)) (is : List Nat), GridsOK kmin ds → IsNode ds is →
      NodeBracket ds (bracketAll ds (nodePoint ds is)) is
  | [], [], _, _ => by simp [bracketAll, nodePoint, NodeBracket]
  | [], _ :: _, _, h => by simp [IsNode] at h
  | _ :: _, [], _, h => by simp [IsNode] at h
  | (n, g) :: ds, i :: is, hg, hi => by
    have hd := hg (n, g) List.mem_cons_self
    obtain ⟨hi1, hi2⟩ := hi
    have hn : 2 ≤ n := by have := hd.1; omega
    simp only [bracketAll, nodePoint, NodeBracket]
    refine ⟨?_, ?_, bracketAll_node hk ds is (fun d h => hg d (List.mem_cons_of_mem _ h)) hi2⟩
    all_goals
      obtain ⟨idx, e, h1, h2, h3⟩ := (bracket_spec g n hn hd.2 0 (by omega) (g i)).2.2
        (hd.2.le (Nat.zero_le i) hi1) (hd.2.le (by omega) (by omega))
      have hb : bracket0 g n (g i) = idx := by unfold bracket0; rw [e]
      rw [hb]
    · exact h1
    · have a1 : idx ≤ i := by
        rcases Nat.lt_or_ge i idx with h | h
        · exact absurd h2 (not_le.mpr (hd.2 i idx h (by omega)))
        · exact h
      have a2 : i ≤ idx + 1 := by
        rcases Nat.lt_or_ge (idx + 1) i with h | h
        · exact absurd h3 (not_le.mpr (hd.2 (idx + 1) i h hi1))
        · exact h
      omega


/-! ### the vectorized bracket `np.searchsorted(grid, x, side='left') - 1` -/

theorem StrictOn.pred {n : Nat} {g : Nat → K} (h : StrictOn (n + 1) g) : StrictOn n g :=
  fun i j hij hj => h i j hij (by omega)

/-- On a strictly increasing grid the points below `x` form a prefix. -/
theorem countBelow_spec (g : Nat → K) (x : K) : ∀ (n : Nat), StrictOn n g →
    ((List.range n).filter (fun i => decide (g i < x))).length ≤ n ∧
    (∀ i, i < ((List.range n).filter (fun i => decide (g i < x))).length → g i < x) ∧
    (∀ i, ((List.range n).filter (fun i => decide (g i < x))).length ≤ i → i < n → ¬ g i < x)
  | 0, _ => by simp
  | n + 1, hg => by
    obtain ⟨h1, h2, h3⟩ := countBelow_spec g x n hg.pred
    rw [List.range_succ, List.filter_append, List.length_append]
    by_cases hx : g n < x
    · have hall : ∀ i, i < n → g i < x := fun i hi => lt_trans (hg i n hi (by omega)) hx
      have hc : ((List.range n).filter (fun i => decide (g i < x))).length = n := by
        rcases Nat.lt_or_ge ((List.range n).filter (fun i => decide (g i < x))).length n with h | h
        · exact absurd (hall _ h) (h3 _ (le_refl _) h)
        · omega
      simp only [List.filter_cons, hx, decide_true, if_true, List.filter_nil, List.length_singleton, hc]
      refine ⟨le_refl _, fun i hi => ?_, fun i hi hi' => by omega⟩
      rcases Nat.lt_or_ge i n with h | h
      · exact hall i h
      · have : i = n := by omega
        rw [this]; exact hx
    · simp only [List.filter_cons, hx, decide_false, List.filter_nil, Bool.false_eq_true, if_false,
        List.length_nil, Nat.add_zero]
      refine ⟨by omega, h2, fun i hi hi' => ?_⟩
      rcases Nat.lt_or_ge i n with h | h
      · exact h3 i hi h
      · have : i = n := by omega
        rw [this]; exact hx

theorem bracketVec_spec (g : Nat → K) (n : Nat) (hn : 2 ≤ n) (hg : StrictOn n g) (x : K) :
    (x ≤ g 0 → bracketVec g n x = -1) ∧
    (g (n - 1) < x → bracketVec g n x = ((n - 1 : Nat) : Int)) ∧
    (g 0 < x → x ≤ g (n - 1) →
      ∃ idx : Nat, bracketVec g n x = (idx : Int) ∧ idx + 1 < n ∧ g idx < x ∧ x ≤ g (idx + 1)) := by
  obtain ⟨h1, h2, h3⟩ := countBelow_spec g x n hg
  unfold bracketVec
  generalize ((List.range n).filter (fun i => decide (g i < x))).length = c at h1 h2 h3
  refine ⟨fun hx => ?_, fun hx => ?_, fun hlo hhi => ?_⟩
  · have : c = 0 := by
      rcases Nat.eq_zero_or_pos c with h | h
      · exact h
      · exact absurd (h2 0 h) (not_lt.mpr hx)
    subst this; simp
  · have : c = n := by
      rcases Nat.lt_or_ge c n with h | h
      · exact absurd hx (h3 (n - 1) (by omega) (by omega))
      · omega
    subst this; omega
  · have hc1 : 1 ≤ c := by
      rcases Nat.eq_zero_or_pos c with h | h
      · subst h; exact absurd hlo (h3 0 (le_refl _) (by omega))
      · exact h
    have hc2 : c ≤ n - 1 := by
      rcases Nat.lt_or_ge (n - 1) c with h | h
      · exact absurd (h2 (n - 1) h) (not_lt.mpr hhi)
      · exact h
    refine ⟨c - 1, by omega, by omega, h2 (c - 1) (by omega), ?_⟩
    have e : c - 1 + 1 = c := by omega
    rw [e]
    exact not_lt.mp (h3 c (le_refl _) (by omega))

/-- The kernel of every method reproduces univariate polynomials up to the method's degree. -/
theorem kernel_rep (m : Method) (fix : Bool) (eps : K) (he : 0 ≤ eps) :
    KRep m.minPts m.degree (m.kernel fix eps) := by
  cases m
  · exact slinear_rep
  · exact lagrange2_rep
  · exact lagrange3_rep
  · exact akima_rep fix eps he
  · exact cubic_rep

end OMV.C15
