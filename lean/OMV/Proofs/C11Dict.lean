/-
C11 — the dictionary (matrix-free) application of a sub-jacobian of dr/do — linear transfer through
`src_indices` and the unit factor, then `Subjac.apply_fwd`; `apply_rev`, then the reverse transfer —
is the product with its COO triplets, forward and transposed.
-/
import OMV.Proofs.C11Dense

set_option linter.unusedSectionVars false

namespace OMV.C11

variable {K : Type} [CommSemiring K]

theorem mulVec_append (T1 T2 : List (Pos × K)) (x : Nat → K) (r : Nat) :
    mulVec (T1 ++ T2) x r = mulVec T1 x r + mulVec T2 x r := by
  simp [mulVec, List.sum_append]

theorem mulVecT_append (T1 T2 : List (Pos × K)) (y : Nat → K) (c : Nat) :
    mulVecT (T1 ++ T2) y c = mulVecT T1 y c + mulVecT T2 y c := by
  simp [mulVecT, List.sum_append]

theorem mulVec_allTrips (L : List (SubJ K × List K)) (x : Nat → K) (r : Nat) :
    mulVec (allTrips L) x r = (L.map (fun z => mulVec (z.1.trips z.2) x r)).sum := by
  induction L with
  | nil => simp [allTrips, mulVec]
  | cons z L ih =>
    have : allTrips (z :: L) = z.1.trips z.2 ++ allTrips L := by simp [allTrips]
    rw [this, mulVec_append, ih]; simp

theorem mulVecT_allTrips (L : List (SubJ K × List K)) (y : Nat → K) (c : Nat) :
    mulVecT (allTrips L) y c = (L.map (fun z => mulVecT (z.1.trips z.2) y c)).sum := by
  induction L with
  | nil => simp [allTrips, mulVecT]
  | cons z L ih =>
    have : allTrips (z :: L) = z.1.trips z.2 ++ allTrips L := by simp [allTrips]
    rw [this, mulVecT_append, ih]; simp

/-- the triplets of a sub-jacobian as a map over its local entries -/
theorem trips_eq_map (s : SubJ K) (vals : List K) :
    s.trips vals = ((localPos s.pat).zip vals).map (fun t =>
      ((s.row0 + t.1.1, s.col0 + mapCol s.src t.1.2),
        match s.factor with | none => t.2 | some f => t.2 * f)) := by
  unfold SubJ.trips SubJ.positions scaleData
  cases s.factor with
  | none =>
    simp only
    rw [List.zip_map_left]
    apply List.map_congr_left
    intro t _
    rfl
  | some f =>
    simp only
    rw [List.zip_map]
    apply List.map_congr_left
    intro t _
    rfl

/-- Forward: gather through `src_indices`, convert units, apply the local block. -/
theorem dictFwd_eq (s : SubJ K) (vals : List K) (dout : Nat → K) (r : Nat) :
    dictFwd s vals dout r = mulVec (s.trips vals) dout r := by
  rw [trips_eq_map]
  obtain ⟨pat, row0, col0, pn, src, factor⟩ := s
  unfold dictFwd applyFwdLocal mulVec transferFwd
  rw [List.map_map]
  simp only [Function.comp_def]
  by_cases hr : row0 ≤ r
  · rw [if_pos hr]
    congr 1
    apply List.map_congr_left
    intro t _
    by_cases h : t.1.1 = r - row0
    · have h' : row0 + t.1.1 = r := by omega
      rw [if_pos h, if_pos h']
      cases factor with
      | none => rfl
      | some f => simp only []; ring
    · have h' : ¬ row0 + t.1.1 = r := by omega
      rw [if_neg h, if_neg h']
  · rw [if_neg hr]
    symm
    apply List.sum_eq_zero
    intro y hy
    obtain ⟨t, _, rfl⟩ := List.mem_map.mp hy
    have h' : ¬ row0 + t.1.1 = r := by omega
    exact if_neg h'

theorem sum_range_single (n m : Nat) (F : Nat → K) :
    ((List.range n).map (fun j => if j = m then F j else 0)).sum = if m < n then F m else 0 := by
  induction n with
  | zero => simp
  | succ n ih =>
    rw [List.sum_range_succ, ih]
    by_cases h1 : m < n
    · have h2 : ¬ n = m := by omega
      have h3 : m < n + 1 := by omega
      simp [h1, h2, h3]
    · by_cases h2 : n = m
      · subst h2; simp
      · have h3 : ¬ m < n + 1 := by omega
        simp [h1, h2, h3]

/-- Reverse: apply the transposed local block, then scatter-add through `src_indices` with the unit
factor (`n` is the size of the input; all local columns lie below it). -/
theorem dictRev_eq (s : SubJ K) (n : Nat) (vals : List K) (dres : Nat → K) (c : Nat)
    (hn : ∀ p ∈ localPos s.pat, p.2 < n) :
    dictRev s n vals dres c = mulVecT (s.trips vals) dres c := by
  rw [trips_eq_map]
  unfold dictRev applyRevLocal mulVecT
  rw [List.map_map]
  simp only [Function.comp_def]
  -- induction over the local entries
  have key : ∀ (T : List (Pos × K)), (∀ t ∈ T, t.1.2 < n) → ∀ (φ : K → K),
      (∀ a b, φ (a + b) = φ a + φ b) → φ 0 = 0 →
      ((List.range n).map (fun j => if s.col0 + mapCol s.src j = c then
          φ ((T.map (fun t => if t.1.2 = j then t.2 * dres (s.row0 + t.1.1) else 0)).sum) else 0)).sum =
        (T.map (fun t => if s.col0 + mapCol s.src t.1.2 = c then
          φ (t.2 * dres (s.row0 + t.1.1)) else 0)).sum := by
    intro T
    induction T with
    | nil => intro _ φ _ h0; simp [h0]
    | cons t T ih =>
      intro hT φ hadd h0
      have ht := hT t (by simp)
      have ih' := ih (fun u hu => hT u (by simp [hu])) φ hadd h0
      simp only [List.map_cons, List.sum_cons]
      rw [← ih']
      have hsplit : (fun j => if s.col0 + mapCol s.src j = c then
            φ ((if t.1.2 = j then t.2 * dres (s.row0 + t.1.1) else 0) +
              (T.map (fun t => if t.1.2 = j then t.2 * dres (s.row0 + t.1.1) else 0)).sum) else 0) =
          (fun j => (if j = t.1.2 then (if s.col0 + mapCol s.src j = c then
              φ (t.2 * dres (s.row0 + t.1.1)) else 0) else 0) +
            (if s.col0 + mapCol s.src j = c then
              φ ((T.map (fun t => if t.1.2 = j then t.2 * dres (s.row0 + t.1.1) else 0)).sum) else 0)) := by
        funext j
        by_cases hc : s.col0 + mapCol s.src j = c <;> by_cases hj : j = t.1.2
        · subst hj; simp [hc, hadd]
        · have hj' : ¬ t.1.2 = j := fun e => hj e.symm
          simp [hc, hj, hj']
        · subst hj; simp [hc]
        · simp [hc, hj]
      rw [hsplit, List.sum_map_add, sum_range_single]
      simp [ht]
  have hT : ∀ t ∈ (localPos s.pat).zip vals, t.1.2 < n := by
    intro t ht
    exact hn t.1 (List.of_mem_zip ht).1
  cases hf : s.factor with
  | none =>
    have := key ((localPos s.pat).zip vals) hT id (fun _ _ => rfl) rfl
    simpa using this
  | some f =>
    have := key ((localPos s.pat).zip vals) hT (fun a => a * f) (fun a b => by ring) (by simp)
    simp only []
    rw [this]
    congr 1
    apply List.map_congr_left
    intro t _
    by_cases hc : s.col0 + mapCol s.src t.1.2 = c
    · rw [if_pos hc, if_pos hc]; ring
    · rw [if_neg hc, if_neg hc]

/-! ### the products are determined by the dense matrix -/

theorem mulVec_cons (t : Pos × K) (T : List (Pos × K)) (x : Nat → K) (r : Nat) :
    mulVec (t :: T) x r = (if t.1.1 = r then t.2 * x t.1.2 else 0) + mulVec T x r := by
  simp [mulVec]

theorem mulVecT_cons (t : Pos × K) (T : List (Pos × K)) (y : Nat → K) (c : Nat) :
    mulVecT (t :: T) y c = (if t.1.2 = c then t.2 * y t.1.1 else 0) + mulVecT T y c := by
  simp [mulVecT]

theorem mulVec_of_dense (T : List (Pos × K)) (n : Nat) (hT : ∀ t ∈ T, t.1.2 < n) (x : Nat → K)
    (r : Nat) : mulVec T x r = ((List.range n).map (fun c => denseAt T (r, c) * x c)).sum := by
  induction T with
  | nil => simp [mulVec, denseAt]
  | cons t T ih =>
    have ht := hT t (by simp)
    rw [mulVec_cons, ih (fun u hu => hT u (by simp [hu]))]
    have hsplit : (fun c => denseAt (t :: T) (r, c) * x c) =
        (fun c => (if c = t.1.2 then (if t.1.1 = r then t.2 * x c else 0) else 0) +
          denseAt T (r, c) * x c) := by
      funext c
      rw [denseAt_cons, add_mul]
      congr 1
      by_cases h1 : t.1.1 = r <;> by_cases h2 : c = t.1.2
      · have : t.1 = (r, c) := Prod.ext h1 h2.symm
        simp [this]
      · have : ¬ t.1 = (r, c) := fun e => h2 (by rw [e])
        simp [this, h2]
      · have : ¬ t.1 = (r, c) := fun e => h1 (by rw [e])
        simp [this, h1]
      · have : ¬ t.1 = (r, c) := fun e => h1 (by rw [e])
        simp [this, h2]
    rw [hsplit, List.sum_map_add, sum_range_single]
    simp [ht]

theorem mulVecT_of_dense (T : List (Pos × K)) (m : Nat) (hT : ∀ t ∈ T, t.1.1 < m) (y : Nat → K)
    (c : Nat) : mulVecT T y c = ((List.range m).map (fun r => denseAt T (r, c) * y r)).sum := by
  induction T with
  | nil => simp [mulVecT, denseAt]
  | cons t T ih =>
    have ht := hT t (by simp)
    rw [mulVecT_cons, ih (fun u hu => hT u (by simp [hu]))]
    have hsplit : (fun r => denseAt (t :: T) (r, c) * y r) =
        (fun r => (if r = t.1.1 then (if t.1.2 = c then t.2 * y r else 0) else 0) +
          denseAt T (r, c) * y r) := by
      funext r
      rw [denseAt_cons, add_mul]
      congr 1
      by_cases h1 : t.1.2 = c <;> by_cases h2 : r = t.1.1
      · have : t.1 = (r, c) := Prod.ext h2.symm h1
        simp [this]
      · have : ¬ t.1 = (r, c) := fun e => h2 (by rw [e])
        simp [this, h2]
      · have : ¬ t.1 = (r, c) := fun e => h1 (by rw [e])
        simp [this, h1]
      · have : ¬ t.1 = (r, c) := fun e => h1 (by rw [e])
        simp [this, h2]
    rw [hsplit, List.sum_map_add, sum_range_single]
    simp [ht]

end OMV.C11
