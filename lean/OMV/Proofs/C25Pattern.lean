/-
C25 helper lemmas: the sparsity pattern declared by `KSComp.setup` (core Lean only).
-/
import OMV.Model.C25

namespace OMV.C25

/-! ### the declared sparsity pattern (`KSComp.setup`) -/

theorem tile_succ (l : List Nat) (n : Nat) : tile l (n + 1) = tile l n ++ l := by
  unfold tile
  rw [List.replicate_succ', List.flatten_append]
  simp

theorem repeatEach_range_succ (n k : Nat) :
    repeatEach (List.range (n + 1)) k = repeatEach (List.range n) k ++ List.replicate k n := by
  unfold repeatEach
  rw [List.range_succ, List.flatMap_append]
  simp

theorem tile_length (l : List Nat) (n : Nat) : (tile l n).length = n * l.length := by
  induction n with
  | zero => simp [tile]
  | succ n ih => rw [tile_succ, List.length_append, ih, Nat.succ_mul]

theorem repeatEach_range_length (n k : Nat) : (repeatEach (List.range n) k).length = n * k := by
  induction n with
  | zero => simp [repeatEach]
  | succ n ih => rw [repeatEach_range_succ, List.length_append, ih, Nat.succ_mul]; simp

theorem zipWith_add_replicate_zero (w c : Nat) :
    List.zipWith (· + ·) (List.replicate w 0) (List.replicate w c) = List.replicate w c := by
  simp

theorem declRows_succ (vs w : Nat) : declRows (vs + 1) w = declRows vs w ++ List.replicate w vs := by
  unfold declRows
  rw [tile_succ, repeatEach_range_succ, List.zipWith_append]
  · rw [zipWith_add_replicate_zero]
  · rw [tile_length, repeatEach_range_length]; simp

theorem declCols_succ (vs w : Nat) :
    declCols (vs + 1) w = declCols vs w ++ (List.range w).map (fun i => vs * w + i) := by
  unfold declCols
  rw [tile_succ, repeatEach_range_succ, List.map_append, List.zipWith_append]
  · congr 1
    apply List.ext_getElem
    · simp
    · intro i h1 h2
      simp at h1
      simp [Nat.add_comm]
  · rw [tile_length, List.length_map, repeatEach_range_length]; simp

/-- The declared column of the `k`-th stored partial is `k` itself: the pattern enumerates the
flattened `(vec_size, width)` input in order. -/
theorem declCols_eq (vs w : Nat) : declCols vs w = List.range (vs * w) := by
  induction vs with
  | zero => simp [declCols, tile, repeatEach]
  | succ n ih =>
    rw [declCols_succ, ih, Nat.succ_mul, List.range_add]

/-- The declared row of the `k`-th stored partial is `k / width`: entry `k` is
`d KS[k / width] / d g[k / width, k % width]`. -/
theorem declRows_eq (vs w : Nat) (hw : 0 < w) :
    declRows vs w = (List.range (vs * w)).map (fun k => k / w) := by
  induction vs with
  | zero => simp [declRows, tile, repeatEach]
  | succ n ih =>
    rw [declRows_succ, ih, Nat.succ_mul, List.range_add, List.map_append]
    congr 1
    apply List.ext_getElem
    · simp
    · intro i h1 h2
      simp at h1
      simp only [List.getElem_replicate, List.getElem_map, List.getElem_range]
      rw [Nat.mul_comm n w, Nat.mul_add_div hw, Nat.div_eq_of_lt h1]; simp

/-! ### `derivs.flatten()` against the pattern -/

section
variable {α : Type} [Add α] [Sub α] [Mul α] [Div α] [Neg α] [OfNat α 0] [OfNat α 1]
  [LT α] [DecidableLT α] [ExpLog α]

theorem partialsRow_length (o : Opts α) (g : List α) : (partialsRow o g).length = g.length := by
  unfold partialsRow dKSdg exponents conVal
  cases o.lowerFlag <;> simp

/-- Entry `k` of the flattened partials is entry `k % width` of the partials of row `k / width`. -/
theorem flatMap_partials_entry (o : Opts α) (w : Nat) (hw : 0 < w) (G : List (List α))
    (hG : ∀ r ∈ G, r.length = w) (k : Nat) :
    (G.flatMap (partialsRow o))[k]? = (G[k / w]?).bind (fun r => (partialsRow o r)[k % w]?) := by
  induction G generalizing k with
  | nil => simp
  | cons r G ih =>
    have hr : (partialsRow o r).length = w := by
      rw [partialsRow_length]; exact hG r List.mem_cons_self
    have hG' : ∀ r ∈ G, r.length = w := fun r' h => hG r' (List.mem_cons_of_mem _ h)
    rw [List.flatMap_cons]
    by_cases hk : k < w
    · rw [List.getElem?_append_left (by rw [hr]; exact hk)]
      simp [Nat.div_eq_of_lt hk, Nat.mod_eq_of_lt hk]
    · have hk' : w ≤ k := Nat.le_of_not_lt hk
      rw [List.getElem?_append_right (by rw [hr]; exact hk'), hr, ih hG' (k - w)]
      have e1 : k / w = (k - w) / w + 1 := by
        conv => lhs; rw [← Nat.sub_add_cancel hk']
        exact Nat.add_div_right _ hw
      have e2 : (k - w) % w = k % w := by
        conv => rhs; rw [← Nat.sub_add_cancel hk']
        simp
      rw [e1, e2]
      simp
end

end OMV.C25
