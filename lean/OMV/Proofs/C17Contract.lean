/-
C17 helper lemmas: the run-time log contract implies the hypotheses of the descendant theorem; the
`Recording` context manager records in post-order; `get_case` and the unfiltered listing.
Core Lean only.
-/
import OMV.Proofs.C17Desc
namespace OMV.C17


theorem sameSlot_decomp : ∀ (P : Coord) (nm : Str) (a b : Nat) (r : Coord),
    sameSlot (P ++ [(nm, a)]) (P ++ (nm, b) :: r) = some (a, b) := by
  intro P
  induction P with
  | nil => intro nm a b r; simp [sameSlot]
  | cons p P ih =>
    intro nm a b r
    simp only [List.cons_append]
    cases hP : P ++ [(nm, a)] with
    | nil => simp at hP
    | cons z zs =>
      simp only [sameSlot, if_true]
      rw [← hP]; exact ih nm a b r

theorem contractFrom_split : ∀ (pre : List (Option Coord)) (earlier : List (Option Coord))
    (c : Coord) (post : List (Option Coord)),
    contractFrom earlier (pre ++ some c :: post) = true →
      barFree c = true ∧ c ≠ [] ∧ postOrderAt post c = true ∧ monoAt (pre.reverse ++ earlier) c = true := by
  intro pre
  induction pre with
  | nil =>
    intro earlier c post h
    simp only [List.nil_append, contractFrom, Bool.and_eq_true, Bool.not_eq_true'] at h
    obtain ⟨⟨⟨⟨h1, h2⟩, h3⟩, h4⟩, _⟩ := h
    refine ⟨h1, ?_, h3, by simpa using h4⟩
    intro hc; subst hc; simp at h2
  | cons x pre ih =>
    intro earlier c post h
    cases x with
    | none =>
      simp only [List.cons_append, contractFrom] at h
      have := ih (none :: earlier) c post h
      simpa using this
    | some d =>
      simp only [List.cons_append, contractFrom, Bool.and_eq_true] at h
      have := ih (some d :: earlier) c post h.2
      simpa using this

theorem wf_of_barFree (c : Coord) (h : barFree c = true) : WF c := by
  intro p hp
  unfold barFree at h
  have := List.all_eq_true.mp h p hp
  simp only [Bool.not_eq_true', List.contains_eq_mem, decide_eq_false_iff_not] at this
  exact this

theorem countersFrom_split : ∀ (pre : List Row) (i : Nat) (r : Row) (post : List Row),
    countersFrom i (pre ++ r :: post) = true → r.counter = i + pre.length + 1 := by
  intro pre
  induction pre with
  | nil => intro i r post h; simp [countersFrom] at h; simpa using h.1
  | cons x pre ih =>
    intro i r post h
    simp only [List.cons_append, countersFrom, Bool.and_eq_true] at h
    have := ih (i + 1) r post h.2
    simp only [List.length_cons]; omega

theorem nodup_of_nodupB : ∀ (l : List Str), nodupB l = true → l.Nodup := by
  intro l
  induction l with
  | nil => intro _; exact List.nodup_nil
  | cons a as ih =>
    intro h
    simp only [nodupB, Bool.and_eq_true, Bool.not_eq_true', List.contains_eq_mem,
      decide_eq_false_iff_not] at h
    exact List.nodup_cons.mpr ⟨h.1, ih h.2⟩

/-- The run-time contract (evaluated by the driver on the real log) yields the hypotheses of
`descendants_main` at every position. -/
theorem descendants_of_contract (log : List Entry)
    (h1 : logContract (log.map (·.coord)) = true)
    (h2 : countersSync (log.map (·.row)) = true)
    (h3 : nodupB (log.map (·.row.name)) = true)
    (h4 : ∀ x ∈ log, ∀ c, x.coord = some c → x.row.name = renderStack c)
    (h5 : ∀ x ∈ log, x.coord = none → BarFree x.row.name)
    (pre post : List Entry) (e : Entry) (c : Coord) (hlog : log = pre ++ e :: post)
    (hc : e.coord = some c) :
    (Db.build (log.map (·.row))).listRecurseFlat e.row.name =
      .ok ((log.filter (isDesc c)).map (·.row.name)) := by
  subst hlog
  have hsplit : (pre ++ e :: post).map (·.coord) =
      pre.map (·.coord) ++ some c :: post.map (·.coord) := by simp [hc]
  unfold logContract at h1
  rw [hsplit] at h1
  obtain ⟨hb, hne, hpo, hmo⟩ := contractFrom_split _ _ _ _ h1
  -- every coordinate of the log is well formed
  have hallwf : ∀ x ∈ pre ++ e :: post, EntryWF x := by
    intro x hx
    unfold EntryWF
    cases hxc : x.coord with
    | none => exact h5 x hx hxc
    | some k =>
      obtain ⟨l1, l2, hl⟩ := List.append_of_mem hx
      have hs : (pre ++ e :: post).map (·.coord) =
          l1.map (·.coord) ++ some k :: l2.map (·.coord) := by rw [hl]; simp [hxc]
      have h1' : contractFrom [] ((pre ++ e :: post).map (·.coord)) = true := by rw [hsplit]; exact h1
      rw [hs] at h1'
      obtain ⟨hb', hne', _, _⟩ := contractFrom_split _ _ _ _ h1'
      exact ⟨h4 x hx k hxc, hne', wf_of_barFree k hb'⟩
  apply descendants_main pre post e c hc hallwf (nodup_of_nodupB _ h3)
  · have := countersFrom_split (pre.map (·.row)) 0 e.row (post.map (·.row))
      (by simpa [countersSync] using h2)
    simpa using this
  · intro x hx
    unfold isDesc
    cases hxc : x.coord with
    | none => rfl
    | some k =>
      have := List.all_eq_true.mp hpo (some k) (List.mem_map.mpr ⟨x, hx, hxc⟩)
      simpa using this
  · intro x hx k hk P nm a b r e1 e2
    have hmem : some k ∈ (pre.map (·.coord)).reverse ++ [] := by
      simp only [List.append_nil, List.mem_reverse]
      exact List.mem_map.mpr ⟨x, hx, hk⟩
    have := List.all_eq_true.mp hmo (some k) hmem
    simp only at this
    rw [e1, e2, sameSlot_decomp] at this
    simpa using this



mutual
theorem log_mem (stack : Coord) : (e : Exec) → ∀ k ∈ Exec.log stack e, ∃ ext, k = stack ++ ext ∧ ext ≠ []
  | .node name count rec children => by
    intro k hk
    simp only [Exec.log, List.mem_append] at hk
    rcases hk with hk | hk
    · obtain ⟨ext, h1, _⟩ := logs_mem (stack ++ [(name, count)]) children k hk
      exact ⟨(name, count) :: ext, by simp [h1], by simp⟩
    · cases rec with
      | false => simp at hk
      | true => simp at hk; exact ⟨[(name, count)], hk, by simp⟩
theorem logs_mem (stack : Coord) : (es : List Exec) → ∀ k ∈ Exec.logs stack es, ∃ ext, k = stack ++ ext ∧ ext ≠ []
  | [] => by intro k hk; simp [Exec.logs] at hk
  | e :: es => by
    intro k hk
    simp only [Exec.logs, List.mem_append] at hk
    rcases hk with hk | hk
    · exact log_mem stack e k hk
    · exact logs_mem stack es k hk
end

/-- Everything a node's subtree records extends the node's own coordinate and is recorded before it. -/
theorem recording_postorder (stack : Coord) (name : Str) (count : Nat) (children : List Exec) :
    Exec.log stack (.node name count true children) =
      Exec.logs (stack ++ [(name, count)]) children ++ [stack ++ [(name, count)]] ∧
    ∀ k ∈ Exec.logs (stack ++ [(name, count)]) children,
      (stack ++ [(name, count)]) <+: k ∧ k ≠ stack ++ [(name, count)] := by
  refine ⟨by simp [Exec.log], ?_⟩
  intro k hk
  obtain ⟨ext, h1, h2⟩ := logs_mem _ children k hk
  refine ⟨⟨ext, h1.symm⟩, ?_⟩
  intro h
  rw [h1] at h
  have := List.append_cancel_left (as := stack ++ [(name, count)]) (bs := ext) (cs := []) (by simpa using h)
  exact h2 this



theorem mapOpt_getElem? {α β : Type} (f : α → Option β) : ∀ (l : List α) (ys : List β) (i : Nat) (a : α),
    mapOpt f l = some ys → l[i]? = some a → ∃ b, ys[i]? = some b ∧ f a = some b := by
  intro l
  induction l with
  | nil => intro ys i a _ h; simp at h
  | cons x xs ih =>
    intro ys i a h hi
    simp only [mapOpt] at h
    cases hfx : f x with
    | none => simp [hfx] at h
    | some b =>
      cases hm : mapOpt f xs with
      | none => simp [hfx, hm] at h
      | some bs =>
        simp [hfx, hm] at h; subst h
        cases i with
        | zero => simp at hi; subst hi; exact ⟨b, by simp, hfx⟩
        | succ j => simp at hi; simpa using ih bs j a hm hi

theorem foldl_global_kinds (rows : List Row) : ∀ (db : Db),
    (rows.foldl Db.record db).global.map (·.kind) = db.global.map (·.kind) ++ rows.map (·.kind) := by
  induction rows with
  | nil => intro db; simp
  | cons r rs ih => intro db; simp only [List.foldl_cons, ih, record_global]; simp

theorem build_global_kinds (rows : List Row) :
    (Db.build rows).global.map (·.kind) = rows.map (·.kind) := by
  unfold Db.build; rw [foldl_global_kinds]; simp

theorem listRecurseFlat_all (rows : List Row) :
    (Db.build rows).listRecurseFlat [] = .ok (rows.map (·.name)) := by
  unfold Db.listRecurseFlat
  have hgood := good_build rows
  unfold Good at hgood
  simp [List.take_length, hgood]

theorem getCaseByName_ok (rows : List Row) (r : Row) (hr : r ∈ rows)
    (hu : ∀ x ∈ rows, x.name = r.name → x = r) :
    (Db.build rows).getCaseByName r.name = .ok r := by
  unfold Db.getCaseByName
  rw [findAny_unique rows r hr hu]

theorem getCaseByIndex_ok (cfg : Cfg) (rows : List Row) (i : Nat) (r : Row) (hi : rows[i]? = some r)
    (hu : ∀ x ∈ rows, x.name = r.name → x = r)
    (hk : r.kind ≠ .problem ∨ cfg.getCaseProblem = true) :
    (Db.build rows).getCaseByIndex cfg (i : Int) = .ok r := by
  have hlt : i < rows.length := (List.getElem?_eq_some_iff.mp hi).1
  have hr : r ∈ rows := List.mem_of_getElem? hi
  have hlen := build_global_length rows
  have hg : ∃ g, (Db.build rows).global[i]? = some g := by
    have : i < (Db.build rows).global.length := by omega
    exact ⟨_, List.getElem?_eq_getElem this⟩
  obtain ⟨g, hg⟩ := hg
  have hgk : g.kind = r.kind := by
    have := congrArg (fun l => l[i]?) (build_global_kinds rows)
    simp only [List.getElem?_map, hg, hi, Option.map_some] at this
    exact Option.some.inj this
  have hgood := good_build rows
  unfold Good at hgood
  obtain ⟨b, hb1, hb2⟩ := mapOpt_getElem? _ _ _ i g hgood hg
  simp only [List.getElem?_map, hi, Option.map_some] at hb1
  have hb : b = r.name := (Option.some.inj hb1).symm
  subst hb
  unfold Db.getCaseByIndex
  have h1 : ¬ ((i : Int) > ((Db.build rows).global.length : Int) - 1) := by omega
  have h2 : pyIndex (Db.build rows).global (i : Int) = some g := by
    unfold pyIndex; simp [hg]
  simp only [h1, if_false, h2]
  have h3 : (g.kind = Kind.problem && !cfg.getCaseProblem) = false := by
    rcases hk with hk | hk
    · simp [hgk, hk]
    · simp [hk]
  simp only [h3, Bool.false_eq_true, if_false, hb2]
  exact getCaseByName_ok rows r hr hu


end OMV.C17
