/-
C12 helper lemmas about the regenerated coefficient table (`OMV/Generated/C12FdTable.lean`).
-/
import OMV.Model.C12
import OMV.Generated.C12FdTable
import OMV.Proofs.C12

set_option linter.unusedSectionVars false

namespace OMV.C12

open OMV.C12.Generated

theorem table_checked :
    (fdTable.all (fun e => orderOK e.1.2 e.2) &&
     defaultOrderTable.all (fun d => (fdLookup fdTable d.1 d.2).isSome)) = true := by
  decide +kernel

theorem table_orderOK (e : (String × Nat) × FdRow Rat) (he : e ∈ fdTable) :
    orderOK e.1.2 e.2 = true := by
  have h := table_checked
  simp only [Bool.and_eq_true, List.all_eq_true] at h
  exact h.1 e he

/-- the moments `(m₀, m₁, m₂, m₃)` of the row the code uses for `form` -/
def formMoments (form : String) : Option (Rat × Rat × Rat × Rat) :=
  (rowFor fdTable defaultOrderTable form).map
    (fun r => (moment0 r, moment r 1, moment r 2, moment r 3))

theorem castMoments {K : Type} [Field K] [CharZero K] (r : FdRow Rat) (m0 m1 m2 m3 : Rat)
    (h : (moment0 r, moment r 1, moment r 2, moment r 3) = (m0, m1, m2, m3)) :
    moment0 (castRow r : FdRow K) = (m0 : K) ∧ moment (castRow r : FdRow K) 1 = (m1 : K) ∧
    moment (castRow r : FdRow K) 2 = (m2 : K) ∧ moment (castRow r : FdRow K) 3 = (m3 : K) := by
  simp only [Prod.mk.injEq] at h
  obtain ⟨h0, h1, h2, h3⟩ := h
  refine ⟨?_, ?_, ?_, ?_⟩
  · rw [moment0_cast, h0]
  · rw [moment_cast, h1]
  · rw [moment_cast, h2]
  · rw [moment_cast, h3]

end OMV.C12
