/-
C16 — dual-number evaluation of the kernels, the code's derivative formulas, linearity in the table
and the unit-vector weights.
-/
import OMV.Model.C16
import OMV.Proofs.C15ND

set_option linter.unusedSectionVars false
set_option linter.unusedVariables false

namespace OMV.C16

open OMV.C15

variable {K : Type} [Field K] [LinearOrder K] [IsStrictOrderedRing K]

/-! ### componentwise reading of the dual-number operations -/

namespace Dual

@[ext] theorem ext' {a b : Dual K} (h1 : a.re = b.re) (h2 : a.du = b.du) : a = b := by
  cases a; cases b; simp_all

@[simp] theorem add_re (a b : Dual K) : (a + b).re = a.re + b.re := rfl
@[simp] theorem add_du (a b : Dual K) : (a + b).du = a.du + b.du := rfl
@[simp] theorem sub_re (a b : Dual K) : (a - b).re = a.re - b.re := rfl
@[simp] theorem sub_du (a b : Dual K) : (a - b).du = a.du - b.du := rfl
@[simp] theorem neg_re (a : Dual K) : (-a).re = -a.re := rfl
@[simp] theorem neg_du (a : Dual K) : (-a).du = -a.du := rfl
@[simp] theorem mul_re (a b : Dual K) : (a * b).re = a.re * b.re := rfl
@[simp] theorem mul_du (a b : Dual K) : (a * b).du = a.re * b.du + a.du * b.re := rfl
@[simp] theorem div_re (a b : Dual K) : (a / b).re = a.re / b.re := rfl
@[simp] theorem div_du (a b : Dual K) :
    (a / b).du = (a.du * b.re - a.re * b.du) / (b.re * b.re) := rfl
@[simp] theorem ofNat_re (n : Nat) [OfNat K n] : (OfNat.ofNat n : Dual K).re = (OfNat.ofNat n : K) := rfl
@[simp] theorem ofNat_du (n : Nat) [OfNat K n] : (OfNat.ofNat n : Dual K).du = 0 := rfl
@[simp] theorem zero_re : (0 : Dual K).re = 0 := rfl
@[simp] theorem zero_du : (0 : Dual K).du = 0 := rfl
@[simp] theorem one_re : (1 : Dual K).re = 1 := rfl
@[simp] theorem one_du : (1 : Dual K).du = 0 := rfl
@[simp] theorem two_re : (2 : Dual K).re = 2 := rfl
@[simp] theorem two_du : (2 : Dual K).du = 0 := rfl
@[simp] theorem three_re : (3 : Dual K).re = 3 := rfl
@[simp] theorem three_du : (3 : Dual K).du = 0 := rfl
@[simp] theorem six_re : (6 : Dual K).re = 6 := rfl
@[simp] theorem six_du : (6 : Dual K).du = 0 := rfl
@[simp] theorem const_re (a : K) : (Dual.const a).re = a := rfl
@[simp] theorem const_du (a : K) : (Dual.const a).du = 0 := rfl

end Dual

/-! ### the one-dimensional statement -/

/-- `kernD` (the kernel run on dual numbers, grid constant) splits into the real kernel and, in the
`ε` part, the code's derivative formula times the seed plus the kernel applied to the `ε` parts of
the values. -/
def KDual (kmin : Nat) (kern kdx : Kernel K) (kernD : Kernel (Dual K)) : Prop :=
  ∀ n g (v dv : Nat → K) idx x dx, kmin ≤ n → StrictOn n g → idx < n →
    kernD n (fun i => Dual.const (g i)) (fun i => ⟨v i, dv i⟩) idx ⟨x, dx⟩ =
      ⟨kern n g v idx x, kdx n g v idx x * dx + kern n g dv idx x⟩

theorem slinear_dual : KDual 2 slinearK slinearDx (slinearK (K := Dual K)) := by
  intro n g v dv idx x dx hn hg hi
  have hlt := slinStart_lt hn hi
  have hne : g (slinStart n idx + 1) - g (slinStart n idx) ≠ 0 :=
    hg.sub_ne' (Nat.lt_succ_self _) hlt
  have hs : (if idx = n - 1 then idx - 1 else idx) = slinStart n idx := rfl
  apply Dual.ext'
  · simp only [slinearK, Dual.add_re, Dual.mul_re, Dual.sub_re, Dual.div_re, Dual.one_re,
      Dual.const_re]
  · simp only [slinearK, slinearDx, hs, Dual.add_du, Dual.mul_du, Dual.sub_du, Dual.div_du,
      Dual.one_du, Dual.const_du, Dual.add_re, Dual.mul_re, Dual.sub_re, Dual.div_re,
      Dual.one_re, Dual.const_re]
    field_simp
    ring

theorem lagrange2_dual : KDual 3 lagrange2K lagrange2Dx (lagrange2K (K := Dual K)) := by
  intro n g v dv idx x dx hn hg hi
  have hlt := lag2Start_lt idx hn
  have h12 := hg.sub_ne (i := lag2Start n idx) (j := lag2Start n idx + 1) (by omega) (by omega)
  have h13 := hg.sub_ne (i := lag2Start n idx) (j := lag2Start n idx + 2) (by omega) (by omega)
  have h23 := hg.sub_ne (i := lag2Start n idx + 1) (j := lag2Start n idx + 2) (by omega) (by omega)
  apply Dual.ext'
  · simp only [lagrange2K, Dual.add_re, Dual.mul_re, Dual.sub_re, Dual.div_re, Dual.one_re,
      Dual.const_re]
  · simp only [lagrange2K, lagrange2Dx, Dual.add_du, Dual.mul_du, Dual.sub_du, Dual.div_du,
      Dual.one_du, Dual.const_du, Dual.add_re, Dual.mul_re, Dual.sub_re, Dual.div_re,
      Dual.one_re, Dual.const_re]
    field_simp
    ring

theorem lagrange3_dual : KDual 4 lagrange3K lagrange3Dx (lagrange3K (K := Dual K)) := by
  intro n g v dv idx x dx hn hg hi
  obtain ⟨hb1, hb2⟩ := lag3Start_bounds idx hn
  have h12 := hg.sub_ne (i := lag3Start n idx - 1) (j := lag3Start n idx) (by omega) (by omega)
  have h13 := hg.sub_ne (i := lag3Start n idx - 1) (j := lag3Start n idx + 1) (by omega) (by omega)
  have h14 := hg.sub_ne (i := lag3Start n idx - 1) (j := lag3Start n idx + 2) (by omega) (by omega)
  have h23 := hg.sub_ne (i := lag3Start n idx) (j := lag3Start n idx + 1) (by omega) (by omega)
  have h24 := hg.sub_ne (i := lag3Start n idx) (j := lag3Start n idx + 2) (by omega) (by omega)
  have h34 := hg.sub_ne (i := lag3Start n idx + 1) (j := lag3Start n idx + 2) (by omega) (by omega)
  apply Dual.ext'
  · simp only [lagrange3K, Dual.add_re, Dual.mul_re, Dual.sub_re, Dual.div_re, Dual.one_re,
      Dual.const_re]
  · simp only [lagrange3K, lagrange3Dx, Dual.add_du, Dual.mul_du, Dual.sub_du, Dual.div_du,
      Dual.one_du, Dual.const_du, Dual.add_re, Dual.mul_re, Dual.sub_re, Dual.div_re,
      Dual.one_re, Dual.const_re, mul_zero, zero_mul, sub_zero, sub_self, zero_div, add_zero, zero_add]
    ring

/-! ### sums -/

theorem sumTo_congr {f h : Nat → K} : ∀ m, (∀ i, i < m → f i = h i) → sumTo f m = sumTo h m
  | 0, _ => rfl
  | m + 1, hh => by
    simp only [sumTo]
    rw [sumTo_congr m (fun i hi => hh i (by omega)), hh m (by omega)]

theorem sumTo_add (f h : Nat → K) : ∀ m, sumTo (fun i => f i + h i) m = sumTo f m + sumTo h m
  | 0 => by simp [sumTo]
  | m + 1 => by simp only [sumTo, sumTo_add f h m]; ring

theorem sumTo_mul_left (a : K) (f : Nat → K) : ∀ m, sumTo (fun i => a * f i) m = a * sumTo f m
  | 0 => by simp [sumTo]
  | m + 1 => by simp only [sumTo, sumTo_mul_left a f m]; ring

theorem sumTo_delta_zero (v : Nat → K) (i : Nat) : ∀ m, m ≤ i →
    sumTo (fun j => v j * (if i = j then 1 else 0)) m = 0
  | 0, _ => rfl
  | m + 1, h => by
    have hne : ¬ i = m := by omega
    simp only [sumTo, sumTo_delta_zero v i m (by omega), hne, if_false, mul_zero, add_zero]

/-- `Σ_{j<m} v j * [i = j] = v i` for `i < m`. -/
theorem sumTo_delta (v : Nat → K) (i : Nat) : ∀ m, i < m →
    sumTo (fun j => v j * (if i = j then 1 else 0)) m = v i
  | 0, h => absurd h (Nat.not_lt_zero _)
  | m + 1, h => by
    simp only [sumTo]
    by_cases hi : i = m
    · subst hi
      rw [sumTo_delta_zero v i i (le_refl _)]
      simp
    · rw [sumTo_delta v i m (by omega)]
      simp [hi]

theorem sumTo_zero : ∀ m, sumTo (fun _ => (0 : K)) m = 0
  | 0 => rfl
  | m + 1 => by simp [sumTo, sumTo_zero m]

/-! ### the kernel as the weighted sum of the values -/

/-- The kernel reads the values only at indices below `n`. -/
def KLocal (kmin : Nat) (kern : Kernel K) : Prop :=
  ∀ n g (u w : Nat → K) idx x, kmin ≤ n → idx < n → (∀ i, i < n → u i = w i) →
    kern n g u idx x = kern n g w idx x

theorem slinear_local : KLocal 2 (slinearK (K := K)) := by
  intro n g u w idx x hn hi h
  have hlt := slinStart_lt hn hi
  simp only [slinearK_eq]
  rw [h _ (by omega), h _ hlt]

theorem lagrange2_local : KLocal 3 (lagrange2K (K := K)) := by
  intro n g u w idx x hn hi h
  have hlt := lag2Start_lt idx hn
  simp only [lagrange2K_eq]
  rw [h _ (by omega), h _ (by omega), h _ hlt]

theorem lagrange3_local : KLocal 4 (lagrange3K (K := K)) := by
  intro n g u w idx x hn hi h
  obtain ⟨hb1, hb2⟩ := lag3Start_bounds idx hn
  simp only [lagrange3K_eq]
  rw [h _ (by omega), h _ (by omega), h _ (by omega), h _ hb2]

theorem kern_zero {kern : Kernel K} (hs : KSmul kern) (n : Nat) (g : Nat → K) (idx : Nat) (x : K) :
    kern n g (fun _ => 0) idx x = 0 := by
  have := hs n g 0 (fun _ => 0) idx x
  simpa using this

theorem kern_sumTo {kern : Kernel K} (ha : KAdd kern) (hs : KSmul kern) (n : Nat) (g : Nat → K)
    (idx : Nat) (x : K) (c : Nat → K) (u : Nat → Nat → K) :
    ∀ m, kern n g (fun i => sumTo (fun j => c j * u j i) m) idx x =
      sumTo (fun j => c j * kern n g (u j) idx x) m
  | 0 => by simp only [sumTo]; exact kern_zero hs n g idx x
  | m + 1 => by
    simp only [sumTo]
    rw [ha n g (fun i => sumTo (fun j => c j * u j i) m) (fun i => c m * u m i) idx x,
      hs n g (c m) (u m) idx x, kern_sumTo ha hs n g idx x c u m]

theorem getD_map_range (f : Nat → K) (n j : Nat) (hj : j < n) :
    ((List.range n).map f).getD j 0 = f j := by
  simp [List.getD, hj]

/-- One dimension: the value is `Σ_i w_i * v i` with the unit-vector weights of
`training_gradients`. -/
theorem kern_eq_weights {kmin : Nat} {kern : Kernel K} (ha : KAdd kern) (hs : KSmul kern)
    (hl : KLocal kmin kern) (n : Nat) (g v : Nat → K) (idx : Nat) (x : K) (hn : kmin ≤ n)
    (hi : idx < n) :
    kern n g v idx x = sumTo (fun i => (trainWeights kern n g idx x).getD i 0 * v i) n := by
  have h1 : kern n g v idx x =
      kern n g (fun i => sumTo (fun j => v j * (if i = j then 1 else 0)) n) idx x :=
    hl n g _ _ idx x hn hi (fun i hi' => (sumTo_delta v i n hi').symm)
  rw [h1, kern_sumTo ha hs n g idx x v (fun j i => if i = j then 1 else 0) n]
  apply sumTo_congr
  intro i hi'
  unfold trainWeights
  rw [getD_map_range _ n i hi']
  ring

/-- Any number of dimensions: the value is the table contracted with the outer product of the
per-axis weights. -/
theorem evalIdx_eq_wsum {kmin : Nat} {kern : Kernel K} (ha : KAdd kern) (hs : KSmul kern)
    (hl : KLocal kmin kern) :
    ∀ (ds : List (Dim K)) (idxs : List Nat) (tbl : List Nat → K) (xs : List K),
      GridsOK kmin ds → IdxOK ds idxs →
      evalIdx kern ds idxs tbl xs = wsum kern ds idxs tbl xs
  | [], _, _, _, _, _ => by simp [evalIdx, wsum]
  | (n, g) :: ds, [], _, _, _, h => by simp [IdxOK] at h
  | (n, g) :: ds, idx :: idxs, tbl, [], _, _ => by simp [evalIdx, wsum]
  | (n, g) :: ds, idx :: idxs, tbl, x :: xs, hg, hi => by
    obtain ⟨hi1, hi2⟩ := hi
    have hd := hg (n, g) List.mem_cons_self
    have hg' : GridsOK kmin ds := fun d hd => hg d (List.mem_cons_of_mem _ hd)
    simp only [evalIdx, wsum]
    rw [kern_eq_weights ha hs hl n g _ idx x hd.1 hi1]
    apply sumTo_congr
    intro i _
    rw [evalIdx_eq_wsum ha hs hl ds idxs (fun js => tbl (i :: js)) xs hg' hi2]

/-! ### the gradient in any number of dimensions -/

/-- `Σ_{j<m} a[j] * b[j]`. -/
def dotTo (a b : List K) (m : Nat) : K := sumTo (fun j => a.getD j 0 * b.getD j 0) m

theorem sumTo_succ_shift (f : Nat → K) : ∀ m, sumTo f (m + 1) = f 0 + sumTo (fun j => f (j + 1)) m
  | 0 => by simp [sumTo]
  | m + 1 => by
    have := sumTo_succ_shift f m
    simp only [sumTo] at this ⊢
    rw [this]; ring

theorem dotTo_cons (a d : K) (as ds : List K) (m : Nat) :
    dotTo (a :: as) (d :: ds) (m + 1) = a * d + dotTo as ds m := by
  unfold dotTo
  rw [sumTo_succ_shift]
  simp

theorem kern_dot {kern : Kernel K} (ha : KAdd kern) (hs : KSmul kern) (n : Nat) (g : Nat → K)
    (idx : Nat) (x : K) (G : Nat → List K) (dirs : List K) (m : Nat) :
    kern n g (fun i => dotTo (G i) dirs m) idx x =
      dotTo ((List.range m).map (fun j => kern n g (fun i => (G i).getD j 0) idx x)) dirs m := by
  unfold dotTo
  have h1 : (fun i => sumTo (fun j => (G i).getD j 0 * dirs.getD j 0) m) =
      fun i => sumTo (fun j => dirs.getD j 0 * (fun j i => (G i).getD j 0) j i) m := by
    funext i; apply sumTo_congr; intro j _; ring
  rw [h1, kern_sumTo ha hs n g idx x (fun j => dirs.getD j 0) (fun j i => (G i).getD j 0) m]
  apply sumTo_congr
  intro j hj
  rw [getD_map_range _ m j hj]
  ring

/-- The recursion on dual numbers, for an arbitrary dual-valued table: real part, and in the `ε`
part the code's gradient dotted with the seed direction plus the evaluation of the table's `ε`
parts. -/
theorem evalIdx_dual {kmin : Nat} {kern kdx : Kernel K} {kernD : Kernel (Dual K)}
    (hd : KDual kmin kern kdx kernD) (ha : KAdd kern) (hs : KSmul kern) :
    ∀ (ds : List (Dim K)) (idxs : List Nat) (T : List Nat → Dual K) (xs dirs : List K),
      GridsOK kmin ds → IdxOK ds idxs → xs.length = ds.length → dirs.length = ds.length →
      evalIdx kernD (liftDims ds) idxs T (seed xs dirs) =
        ⟨evalIdx kern ds idxs (fun is => (T is).re) xs,
         dotTo (gradIdx kern kdx ds idxs (fun is => (T is).re) xs) dirs ds.length +
           evalIdx kern ds idxs (fun is => (T is).du) xs⟩
  | [], _, T, xs, dirs, _, _, _, _ => by
    simp [evalIdx, liftDims, gradIdx, dotTo, sumTo]
  | (n, g) :: ds, [], _, _, _, _, h, _, _ => by simp [IdxOK] at h
  | (n, g) :: ds, _ :: _, _, [], _, _, _, h, _ => by simp at h
  | (n, g) :: ds, _ :: _, _, _ :: _, [], _, _, _, h => by simp at h
  | (n, g) :: ds, idx :: idxs, T, x :: xs, d :: dirs, hg, hi, hx, hdl => by
    obtain ⟨hi1, hi2⟩ := hi
    have hdim := hg (n, g) List.mem_cons_self
    have hg' : GridsOK kmin ds := fun d hd => hg d (List.mem_cons_of_mem _ hd)
    have hx' : xs.length = ds.length := by simpa using hx
    have hd' : dirs.length = ds.length := by simpa using hdl
    have hlift : liftDims ((n, g) :: ds) = (n, fun i => Dual.const (g i)) :: liftDims ds := rfl
    simp only [hlift, seed, evalIdx, gradIdx, List.length_cons]
    have hrow : (fun i => evalIdx kernD (liftDims ds) idxs (fun js => T (i :: js)) (seed xs dirs)) =
        fun i => (⟨evalIdx kern ds idxs (fun js => (T (i :: js)).re) xs,
          dotTo (gradIdx kern kdx ds idxs (fun js => (T (i :: js)).re) xs) dirs ds.length +
            evalIdx kern ds idxs (fun js => (T (i :: js)).du) xs⟩ : Dual K) := by
      funext i
      exact evalIdx_dual hd ha hs ds idxs (fun js => T (i :: js)) xs dirs hg' hi2 hx' hd'
    rw [hrow, hd n g _ _ idx x d hdim.1 hdim.2 hi1]
    apply Dual.ext'
    · rfl
    · show _ = _
      simp only []
      rw [dotTo_cons, ha n g _ _ idx x,
        kern_dot ha hs n g idx x
          (fun i => gradIdx kern kdx ds idxs (fun js => (T (i :: js)).re) xs) dirs ds.length]
      ring

end OMV.C16
